import DFV.Lemmas.C03u
/-! C03 helper lemmas, part w: the metadata table of binary operations between two fields
(`binTy`): acceptance and refusal of every operator family, decided from component counts,
labels and dtype kinds alone. -/
namespace DFV.C03
open DFV

/-! ## the default mapping as a function -/

/-- what the `vdim_mapping` setter stores for the argument `None` -/
def vmapDefault (nv ndim : Nat) (vd : Option (List String)) (dims : List String) : VMap :=
  if nv = 1 then []
  else if nv = ndim then
    match vd with
    | none => []
    | some l => List.zip l (dims.map some)
  else []

theorem vmapSet_none_eq (nv ndim : Nat) (vd : Option (List String)) (dims : List String) :
    vmapSet nv ndim vd dims none = .ok (vmapDefault nv ndim vd dims) := by
  simp only [vmapSet, vmapDefault]
  by_cases h1 : nv = 1
  · simp only [h1, if_true]
  · simp only [h1, if_false]
    by_cases h2 : nv = ndim
    · simp only [h2, if_true]
      cases vd <;> rfl
    · simp only [h2, if_false]

/-! ## `bdim` decides compatibility of component counts -/

theorem bdim_eq_none (k m : Nat) (h : bdim k m = none) : k ≠ m ∧ k ≠ 1 ∧ m ≠ 1 := by
  unfold bdim at h
  by_cases h1 : k = m
  · rw [if_pos h1] at h; cases h
  · rw [if_neg h1] at h
    by_cases h2 : k = 1
    · rw [if_pos h2] at h; cases h
    · rw [if_neg h2] at h
      by_cases h3 : m = 1
      · rw [if_pos h3] at h; cases h
      · exact ⟨h1, h2, h3⟩

theorem bdim_isSome_iff (k m : Nat) : (bdim k m).isSome = true ↔ (k = m ∨ k = 1 ∨ m = 1) := by
  constructor
  · intro h
    by_cases h1 : k = m
    · exact Or.inl h1
    · by_cases h2 : k = 1
      · exact Or.inr (Or.inl h2)
      · by_cases h3 : m = 1
        · exact Or.inr (Or.inr h3)
        · simp [bdim, h1, h2, h3] at h
  · intro h
    cases hb : bdim k m with
    | some d => rfl
    | none =>
      obtain ⟨h1, h2, h3⟩ := bdim_eq_none k m hb
      rcases h with h | h | h
      · exact absurd h h1
      · exact absurd h h2
      · exact absurd h h3

/-! ## refusals decided before any array is touched -/

/-- `_apply_operator` refuses two fields whose counts do not broadcast -/
theorem applyOperator_fld_nvdim_rejected (fn : GQ → GQ → GQ) (pw : Bool) (f o : CF)
    (h : bdim f.nvdim o.nvdim = none) : ∃ e, applyOperator fn pw f (.fld o) = .error e := by
  obtain ⟨h1, h2, h3⟩ := bdim_eq_none _ _ h
  obtain ⟨e, he⟩ := checkSame_nvdim f o h1 h2 h3 true
  exact ⟨e, by simp only [applyOperator, he]⟩

/-- NumPy's integer-power rule refuses, whatever else holds -/
theorem applyOperator_fld_negpow_rejected (fn : GQ → GQ → GQ) (pw : Bool) (f o : CF)
    (h : negIntPow pw f.kind o.kind o.data = true) : ∃ e, applyOperator fn pw f (.fld o) = .error e := by
  simp only [applyOperator]
  cases checkSame f o true with
  | error e => exact ⟨e, rfl⟩
  | ok u => exact ⟨.value, by simp only [h, if_true]⟩

theorem ufunc2_ff_negpow_rejected (fn : GQ → GQ → GQ) (pw : Bool) (f o : CF)
    (h : negIntPow pw f.kind o.kind o.data = true) : ∃ e, ufunc2 fn pw (.fld f) (.fld o) = .error e := by
  simp only [ufunc2, firstFld, ufuncInput]
  cases ufuncMeshOk f (.fld f) with
  | error e => exact ⟨e, rfl⟩
  | ok u =>
    simp only
    cases ufuncMeshOk f (.fld o) with
    | error e => exact ⟨e, rfl⟩
    | ok u' => exact ⟨.value, by simp only [h, if_true]⟩

/-! ## a scalar field first in a binary ufunc call, a vector field second -/

theorem mkField_vdims_rejected (mesh : Mesh) (nv : Nat) (res : NDA GQ) (kind : Kind) (vd : Option (List String))
    (valid : Option (NDA Bool)) (vm : Option VMap) (unit : Option String)
    (hs : res.shape = mesh.n ++ [nv]) (hv : ∀ v, valid = some v → v.shape = mesh.n) (e : Err)
    (hvd : vdimsSet nv vd = .error e) :
    ∃ e', mkField mesh nv (.arr res) kind vd valid vm unit = .error e' := by
  obtain ⟨vl, hvl, _⟩ := validSet_accepts mesh valid hv
  by_cases hnv : nv < 1
  · exact ⟨.value, by simp only [mkField, hnv, if_true]⟩
  · exact ⟨e, by simp only [mkField, hnv, if_false, asArray_exact mesh nv res hs, hvl, hvd]⟩

/-- a `MetaStable` field without labels has one component and an empty mapping -/
theorem MetaStable.unlabelled {f : CF} (hs : MetaStable f) (hp : 0 < f.nvdim) (h : f.vdims = none) :
    f.nvdim = 1 ∧ f.vmap = [] := by
  refine ⟨?_, ?_⟩
  · have h1 := hs.1
    rw [h] at h1
    simp only [vdimsSet] at h1
    injection h1 with h1
    rcases defaultVdims_spec f.nvdim hp with ⟨hk, _⟩ | ⟨_, x, l, hd, _, _⟩
    · exact hk
    · rw [hd] at h1; cases h1
  · rcases hs.vmap_cases with hm | ⟨l, hl, _⟩
    · exact hm
    · rw [h] at hl; cases hl

/-- **`np.add(s, v)` with an unlabelled scalar field first and a vector field second is
accepted**: the result has the vector's component count, the *default* labels for that
count (not the vector's own), an empty mapping and no unit -/
theorem ufunc2_sf_accepts (fn : GQ → GQ → GQ) (pw : Bool) (M : Mesh) (hM : MeshOk M) (f o : CF)
    (hf : Good M f) (ho : Good M o) (h1 : f.nvdim = 1) (hvd : f.vdims = none)
    (hpw : negIntPow pw f.kind o.kind o.data = false) :
    ∃ g, ufunc2 fn pw (.fld f) (.fld o) = .ok g ∧ Good M g ∧ g.nvdim = o.nvdim ∧
      g.vdims = Fld.defaultVdims o.nvdim ∧ g.vmap = [] ∧ g.unit = none ∧ g.kind = (f.kind.join o.kind).ctor := by
  have hpo : 0 < o.nvdim := ho.1.2.2
  have hvm : f.vmap = [] := (hf.2.1.unlabelled hf.1.2.2 hvd).2
  have hshape : bshape f.data.shape o.data.shape = some (f.mesh.n ++ [o.nvdim]) := by
    rw [hf.1.1, ho.1.1, hf.2.2, ho.2.2, h1]
    exact bshape_cells _ _ _ _ (bdim_one_left _)
  obtain ⟨res, hres, hrs⟩ := npBin_shape fn f.data o.data _ hshape
  have hvs : vmapSet o.nvdim f.mesh.region.ndim (Fld.defaultVdims o.nvdim) f.mesh.region.dims (some []) = .ok [] := by
    simp [vmapSet]
  obtain ⟨g, hg, hgm, hgn, hgvd, hgvm, hgu, hgk, hgwf⟩ :=
    mkField_accepts f.mesh o.nvdim res (f.kind.join o.kind) none
      (some (NDA.zipWith (fun x y => x && y) f.valid o.valid)) (some []) none hpo hrs
      (by intro v hv; injection hv with hv; subst hv; exact hf.1.2.1)
      (Fld.defaultVdims o.nvdim) [] rfl hvs
  have hst : MetaStable g :=
    mkField_stable f.mesh o.nvdim (.arr res) _ none _ _ none g (by rw [hf.2.2]; exact hM.1) (by simp) hg
  refine ⟨g, ?_, ⟨hgwf, hst, by rw [hgm, hf.2.2]⟩, hgn, hgvd, hgvm, hgu, hgk⟩
  simp only [ufunc2, firstFld, ufuncInput, ufuncMeshOk, ufuncValid]
  rw [hf.2.2, ho.2.2, hM.2]
  simp only [hpw, hres, Bool.false_eq_true, if_false]
  unfold ufuncWrap
  rw [if_neg (by rw [hrs, hf.2.2]; simp), hrs, getLastD_append_single, hvd, hvm, hf.2.2]
  rw [hf.2.2] at hg
  rw [hg]

/-- **a labelled scalar field first is refused** when the second field has several components:
`__array_ufunc__` hands the one label of `self` to the constructor of a vector field -/
theorem ufunc2_sf_rejected (fn : GQ → GQ → GQ) (pw : Bool) (f o : CF) (hwf : CFwf f) (hst : MetaStable f)
    (hwo : CFwf o) (hn : f.mesh.n = o.mesh.n) (h1 : f.nvdim = 1) (h2 : 1 < o.nvdim) (l : List String)
    (hvd : f.vdims = some l) :
    ∃ e, ufunc2 fn pw (.fld f) (.fld o) = .error e := by
  have hshape : bshape f.data.shape o.data.shape = some (f.mesh.n ++ [o.nvdim]) := by
    rw [hwf.1, hwo.1, ← hn, h1]
    exact bshape_cells _ _ _ _ (bdim_one_left _)
  obtain ⟨res, hres, hrs⟩ := npBin_shape fn f.data o.data _ hshape
  obtain ⟨_, hlen, _⟩ := hst.labels hwf.2.2 l hvd
  have hvs : vdimsSet o.nvdim (some l) = .error .value := by
    cases l with
    | nil => simp at hlen; omega
    | cons x xs =>
      simp only [vdimsSet]
      rw [if_pos (by rw [hlen, h1]; omega)]
  obtain ⟨e', he'⟩ := mkField_vdims_rejected f.mesh o.nvdim res (f.kind.join o.kind) (some l)
    (some (NDA.zipWith (fun x y => x && y) f.valid o.valid)) (some f.vmap) none hrs
    (by intro v hv; injection hv with hv; subst hv; exact hwf.2.1) _ hvs
  simp only [ufunc2, firstFld, ufuncInput]
  cases ufuncMeshOk f (.fld f) with
  | error e => exact ⟨e, rfl⟩
  | ok u =>
    simp only
    cases ufuncMeshOk f (.fld o) with
    | error e => exact ⟨e, rfl⟩
    | ok u' =>
      simp only
      split
      · exact ⟨_, rfl⟩
      · rw [hres]
        simp only [ufuncValid]
        unfold ufuncWrap
        rw [if_neg (by rw [hrs]; simp), hrs, getLastD_append_single, hvd, he']
        exact ⟨_, rfl⟩

/-! ## the constructor on numbers and on arrays that are broadcast to the mesh -/

/-- `_as_array` on an array-like that is not mesh-shaped, has the requested last axis and
broadcasts to `n ++ [nv]` -/
theorem asArray_bcast (mesh : Mesh) (nv : Nat) (a : NDA GQ) (hne : a.shape ≠ mesh.n) (h0 : a.shape ≠ [])
    (hl : lastAx a.shape = nv) (hb : bshape a.shape (mesh.n ++ [nv]) = some (mesh.n ++ [nv])) :
    asArray mesh nv (.arr a) = .ok (⟨mesh.n ++ [nv], fun idx => a.get (bproj a.shape idx)⟩, false) := by
  simp only [asArray]
  rw [if_neg (fun hc => hne hc.2), if_neg h0, if_neg (by simpa using hl)]
  simp only [npFull, hb, if_true]

/-- **the constructor accepts** such an array with the default labels and mapping -/
theorem mkField_bcast_accepts (mesh : Mesh) (hdims : mesh.region.dims.length = mesh.region.ndim) (nv : Nat)
    (a : NDA GQ) (kind : Kind) (hnv : 0 < nv) (hne : a.shape ≠ mesh.n) (h0 : a.shape ≠ [])
    (hl : lastAx a.shape = nv) (hb : bshape a.shape (mesh.n ++ [nv]) = some (mesh.n ++ [nv])) :
    ∃ g, mkField mesh nv (.arr a) kind none none none none = .ok g ∧ Good mesh g ∧ g.nvdim = nv ∧
      g.vdims = Fld.defaultVdims nv ∧ g.vmap = vmapDefault nv mesh.region.ndim (Fld.defaultVdims nv) mesh.region.dims ∧
      g.unit = none ∧ g.kind = kind.ctor := by
  have hnv' : ¬ nv < 1 := by omega
  have hg : mkField mesh nv (.arr a) kind none none none none = .ok
      { mesh := mesh, nvdim := nv,
        data := (⟨mesh.n ++ [nv], fun idx => a.get (bproj a.shape idx)⟩ : NDA GQ).force GQ.zero,
        valid := (NDA.const mesh.n true).force false, vdims := Fld.defaultVdims nv,
        vmap := vmapDefault nv mesh.region.ndim (Fld.defaultVdims nv) mesh.region.dims, unit := none,
        kind := kind.ctor } := by
    simp only [mkField, hnv', if_false, asArray_bcast mesh nv a hne h0 hl hb, validSet, vdimsSet, vmapSet_none_eq]
    rfl
  refine ⟨_, hg, ⟨⟨rfl, rfl, hnv⟩, ?_, rfl⟩, rfl, rfl, rfl, rfl, rfl⟩
  exact mkField_stable mesh nv (.arr a) kind none none none none _ hdims (by simp) hg

/-- **the constructor accepts a number** as the value of a one-component field -/
theorem mkField_num_accepts (mesh : Mesh) (z : GQ) (kind : Kind) :
    ∃ g, mkField mesh 1 (.num z) kind none none none none = .ok g ∧ Good mesh g ∧ g.nvdim = 1 ∧
      g.vdims = none ∧ g.vmap = [] ∧ g.unit = none ∧ g.kind = kind.ctor := by
  have hg : mkField mesh 1 (.num z) kind none none none none = .ok
      { mesh := mesh, nvdim := 1, data := (NDA.const (mesh.n ++ [1]) z).force GQ.zero,
        valid := (NDA.const mesh.n true).force false, vdims := none, vmap := [], unit := none,
        kind := kind.ctor } := by
    simp [mkField, asArray, validSet, vdimsSet, vmapSet, Fld.defaultVdims]
  refine ⟨_, hg, ⟨⟨rfl, rfl, Nat.one_pos⟩, ⟨rfl, ?_⟩, rfl⟩, rfl, rfl, rfl, rfl, rfl⟩
  simp [vmapSet]

/-- a non-field operand `<<` and `angle` lift to a field: a number, or a constant vector of
`m ≥ 1` entries that is not mesh-shaped -/
def LiftFits (n : List Nat) : Opd → Prop
  | .num _ _ _ => True
  | .arr a _ _ => ∃ m, 0 < m ∧ a.shape = [m] ∧ a.shape ≠ n

/-- component count of the lifted operand -/
def liftNv : Opd → Nat
  | .num _ _ _ => 1
  | .arr a _ _ => lenOf a

/-- **`Field(mesh, nvdim=1 | len(other), value=other)` is accepted** for a number and for a
constant vector: default labels and mapping, no unit -/
theorem liftOpd_accepts (M : Mesh) (hM : MeshOk M) (od : Opd) (hfit : LiftFits M.n od) :
    ∃ g, liftOpd M od = .ok g ∧ Good M g ∧ g.nvdim = liftNv od ∧ g.vdims = Fld.defaultVdims (liftNv od) ∧
      g.vmap = vmapDefault (liftNv od) M.region.ndim (Fld.defaultVdims (liftNv od)) M.region.dims ∧
      g.unit = none ∧ g.kind = (rawKind od).ctor := by
  cases od with
  | num z k np =>
    obtain ⟨g, hg, hgg, h1, h2, h3, h4, h5⟩ := mkField_num_accepts M z k
    refine ⟨g, hg, hgg, h1, h2, ?_, h4, h5⟩
    rw [h3]; rfl
  | arr a k np =>
    obtain ⟨m, hm, ha, hne⟩ := hfit
    have hlen : lenOf a = m := by simp [lenOf, ha]
    obtain ⟨g, hg, hrest⟩ := mkField_bcast_accepts M hM.1 m a k hm hne (by rw [ha]; simp)
      (by rw [ha]; rfl) (by rw [ha]; exact bshape_suffix' _ _)
    refine ⟨g, ?_, ?_⟩
    · simp only [liftOpd]
      rw [if_neg (by rw [ha]; simp), hlen]
      exact hg
    · simp only [liftNv, hlen]
      exact hrest

/-- **`f << number` / `f << vector`** is `f << Field(mesh, …, value=other)` -/
theorem shlOp_raw_accepts (M : Mesh) (hM : MeshOk M) (f : CF) (hf : Good M f) (od : Opd) (hfit : LiftFits M.n od) :
    ∃ o g, liftOpd M od = .ok o ∧ Good M o ∧ shlOp f (.raw od) = .ok g ∧ shlFF f o = .ok g := by
  obtain ⟨o, ho, hog, _⟩ := liftOpd_accepts M hM od hfit
  obtain ⟨g, hg, _⟩ := shlFF_accepts M hM f o hf hog
  refine ⟨o, g, ho, hog, ?_, hg⟩
  simp only [shlOp]
  rw [hf.2.2, ho]
  exact hg

/-! ## `angle` with a non-field operand -/

/-- the chain after `angleVec`: `arccos((self.dot(v) / (self.norm * v.norm)).array)` -/
theorem angleOp_tail_accepts (sq acos : Rat → Rat) (M : Mesh) (hM : MeshOk M) (f : CF) (hf : Good M f) (v : Val)
    (vec : CF) (valid : NDA Bool) (hav : angleVec f v = .ok (vec, valid)) (hvec : Good M vec)
    (hn : f.nvdim = vec.nvdim) (hvs : valid.shape = M.n) :
    ∃ g, angleOp sq acos f v = .ok g ∧ Good M g ∧ g.nvdim = 1 ∧ g.vdims = none ∧ g.vmap = [] ∧
      g.unit = some "rad" ∧ g.kind = .float := by
  obtain ⟨d, hd, hdg, hdn, _⟩ := dotOp_fld_accepts M hM f vec hf hvec hn
  obtain ⟨n1, hn1, hn1g, hn1n, _⟩ := normOp_accepts sq M f hf
  obtain ⟨n2, hn2, hn2g, hn2n, _⟩ := normOp_accepts sq M vec hvec
  obtain ⟨p, hp, hpg, hpn, _⟩ := applyOperator_fld_accepts GQ.mul false M hM n1 n2 hn1g hn2g 1
    (by rw [hn1n, hn2n]; rfl) (by simp [negIntPow])
  obtain ⟨q, hq, hqg, hqn, _⟩ := applyOperator_fld_accepts GQ.div false M hM d p hdg hpg 1
    (by rw [hdn, hpn]; rfl) (by simp [negIntPow])
  obtain ⟨g, hg, hgg, h1, h2, h3, h4, h5⟩ := mkField_scalar_accepts M (q.data.map fun z => ⟨acos z.re, 0⟩) .float
    (some valid) (some "rad")
    (by show q.data.shape = _; rw [hqg.1.1, hqg.2.2, hqn])
    (by intro v' hv; injection hv with hv; subst hv; exact hvs)
  refine ⟨g, ?_, hgg, h1, h2, h3, h4, h5⟩
  simp only [angleOp, hav, hd, hn1, hn2, hp, hq]
  rw [hf.2.2]; exact hg

/-- a non-field second operand of `angle`: a number for a scalar field, a constant vector of
`nvdim` entries or a per-cell array of the field's shape (not mesh-shaped) -/
def AngleFits (n : List Nat) (nv : Nat) : Opd → Prop
  | .num _ _ _ => nv = 1
  | .arr a _ _ => (a.shape = [nv] ∨ a.shape = n ++ [nv]) ∧ a.shape ≠ n

/-- **`f.angle(number | vector | per-cell array)` is accepted**: an unlabelled scalar field
without mapping, unit `rad` -/
theorem angleOp_raw_accepts (sq acos : Rat → Rat) (M : Mesh) (hM : MeshOk M) (f : CF) (hf : Good M f) (od : Opd)
    (hfit : AngleFits M.n f.nvdim od) :
    ∃ g, angleOp sq acos f (.raw od) = .ok g ∧ Good M g ∧ g.nvdim = 1 ∧ g.vdims = none ∧ g.vmap = [] ∧
      g.unit = some "rad" ∧ g.kind = .float := by
  have hvs : f.valid.shape = M.n := by rw [hf.1.2.1, hf.2.2]
  cases od with
  | num z k np =>
    have h1 : f.nvdim = 1 := hfit
    obtain ⟨vec, hv, hvg, hvn, _⟩ := mkField_num_accepts M z k
    refine angleOp_tail_accepts sq acos M hM f hf _ vec f.valid ?_ hvg (by rw [h1, hvn]) hvs
    simp only [angleVec, h1, if_true]
    rw [hf.2.2, hv]
  | arr a k np =>
    obtain ⟨hsh, hne⟩ := hfit
    have hb : bshape a.shape (M.n ++ [f.nvdim]) = some (M.n ++ [f.nvdim]) := by
      rcases hsh with h | h
      · rw [h]; exact bshape_suffix' _ _
      · rw [h]; exact bshape_self _
    obtain ⟨vec, hv, hvg, hvn, _⟩ := mkField_bcast_accepts M hM.1 f.nvdim a k hf.1.2.2 hne
      (by rcases hsh with h | h <;> rw [h] <;> simp)
      (by rcases hsh with h | h <;> rw [h] <;> [rfl; exact getLastD_append_single _ _]) hb
    refine angleOp_tail_accepts sq acos M hM f hf _ vec f.valid ?_ hvg hvn.symm hvs
    simp only [angleVec]
    rw [hf.2.2, hv]

end DFV.C03
