import DFV.Lemmas.RatFloor
import DFV.Lemmas.C03t
/-! C03 helper lemmas, part v: ufuncs with two outputs (`np.divmod`), the tuple branch of
`__array_ufunc__`. -/
namespace DFV.C03
open DFV

theorem ufuncPairWrap_ok (self : CF) (m : Mesh) (res : NDA GQ) (k : Kind) (valid : NDA Bool) (g : CF)
    (h : ufuncPairWrap self m res k valid = .ok g) :
    mkField m (lastAx res.shape) (.arr res) k self.vdims (some valid) (some self.vmap) none = .ok g := by
  unfold ufuncPairWrap at h
  split at h
  · cases h
  · rename_i g' hmk
    injection h with h
    subst h
    exact hmk

/-- what an accepted two-output call on two fields went through -/
theorem ufunc2pair_ff_inv (fn1 fn2 : GQ → GQ → GQ) (c : Bool) (f o g1 g2 : CF)
    (h : ufunc2pair fn1 fn2 c (.fld f) (.fld o) = .ok (g1, g2)) :
    ∃ r1 r2, npBin fn1 f.data o.data = .ok r1 ∧ npBin fn2 f.data o.data = .ok r2 ∧
      ufuncMeshOk f (.fld o) = .ok () ∧ ¬ (¬ c = true ∧ (f.kind = .complex ∨ o.kind = .complex)) ∧
      ufuncPairWrap f f.mesh r1 (f.kind.join o.kind) (NDA.zipWith (fun x y => x && y) f.valid o.valid) = .ok g1 ∧
      ufuncPairWrap f o.mesh r2 (f.kind.join o.kind) (NDA.zipWith (fun x y => x && y) f.valid o.valid) = .ok g2 := by
  simp only [ufunc2pair, firstFld, ufuncInput] at h
  split at h
  · cases h
  · split at h
    · cases h
    · rename_i u hmo
      split at h
      · cases h
      · rename_i hc
        split at h
        · cases h
        · rename_i r1 h1
          split at h
          · cases h
          · rename_i r2 h2
            simp only [ufuncValid] at h
            split at h
            · cases h
            · rename_i g1' hw1
              split at h
              · cases h
              · rename_i g2' hw2
                injection h with h
                injection h with ha hb
                subst ha; subst hb
                exact ⟨r1, r2, h1, h2, hmo, hc, hw1, hw2⟩

/-- **array-level = cell-level for the two results** -/
theorem ufunc2pair_cells (fn1 fn2 : GQ → GQ → GQ) (c : Bool) (n : List Nat) (f o g1 g2 : CF)
    (cf co : List Nat → List GQ) (vf vo : List Nat → Bool) (hf : Cells n f cf vf) (ho : Cells n o co vo)
    (h : ufunc2pair fn1 fn2 c (.fld f) (.fld o) = .ok (g1, g2)) :
    Cells n g1 (fun i => bz fn1 (cf i) (co i)) (fun i => vf i && vo i) ∧
    Cells n g2 (fun i => bz fn2 (cf i) (co i)) (fun i => vf i && vo i) ∧ g1.mesh = f.mesh ∧ g2.mesh = o.mesh := by
  obtain ⟨r1, r2, h1, h2, _, _, hw1, hw2⟩ := ufunc2pair_ff_inv fn1 fn2 c f o g1 g2 h
  have hvs : ∀ m : Mesh, m.n = n →
      ∀ v, some (NDA.zipWith (fun x y => x && y) f.valid o.valid) = some v → v.shape = m.n := by
    intro m hm v hv; injection hv with hv; subst hv
    show f.valid.shape = _
    rw [hf.1.2.1, hf.2.1, hm]
  obtain ⟨hm1, hwf1, _, _, _, hval1, hcell1⟩ :=
    npBin_cells fn1 f.mesh f.data o.data r1 (Or.inl hf.rank) h1 _ _ _ _ _ g1 (hvs f.mesh hf.2.1)
      (ufuncPairWrap_ok _ _ _ _ _ _ hw1)
  obtain ⟨hm2, hwf2, _, _, _, hval2, hcell2⟩ :=
    npBin_cells fn2 o.mesh f.data o.data r2 (Or.inr ho.rank) h2 _ _ _ _ _ g2 (hvs o.mesh ho.2.1)
      (ufuncPairWrap_ok _ _ _ _ _ _ hw2)
  refine ⟨⟨hwf1, by rw [hm1]; exact hf.2.1, ?_⟩, ⟨hwf2, by rw [hm2]; exact ho.2.1, ?_⟩, hm1, hm2⟩
  · intro i hi
    have hi' : inRange f.mesh.n i = true := by rw [hf.2.1]; exact hi
    refine ⟨by rw [hcell1 i hi', hf.opd i hi, ho.opd i hi], ?_⟩
    rw [hval1 i hi']
    show (f.valid.get i && o.valid.get i) = _
    rw [(hf.2.2 i hi).2, (ho.2.2 i hi).2]
  · intro i hi
    have hi' : inRange o.mesh.n i = true := by rw [ho.2.1]; exact hi
    refine ⟨by rw [hcell2 i hi', hf.opd i hi, ho.opd i hi], ?_⟩
    rw [hval2 i hi']
    show (f.valid.get i && o.valid.get i) = _
    rw [(hf.2.2 i hi).2, (ho.2.2 i hi).2]

/-- a two-output call needs a field in both positions -/
theorem ufunc2pair_raw_rejected (fn1 fn2 : GQ → GQ → GQ) (c : Bool) (l r : Val)
    (h : (∃ od, l = .raw od) ∨ (∃ od, r = .raw od)) : ∃ e, ufunc2pair fn1 fn2 c l r = .error e := by
  unfold ufunc2pair
  cases firstFld l r with
  | none => exact ⟨_, rfl⟩
  | some self =>
    simp only
    cases ufuncInput l with
    | error e => exact ⟨e, rfl⟩
    | ok p =>
      obtain ⟨a, ka⟩ := p
      simp only
      cases ufuncInput r with
      | error e => exact ⟨e, rfl⟩
      | ok q =>
        obtain ⟨b, kb⟩ := q
        simp only
        cases ufuncMeshOk self l with
        | error e => exact ⟨e, rfl⟩
        | ok _ =>
          simp only
          cases ufuncMeshOk self r with
          | error e => exact ⟨e, rfl⟩
          | ok _ =>
            simp only
            split
            · exact ⟨_, rfl⟩
            · cases npBin fn1 a b with
              | error e => exact ⟨e, rfl⟩
              | ok r1 =>
                simp only
                cases npBin fn2 a b with
                | error e => exact ⟨e, rfl⟩
                | ok r2 =>
                  simp only
                  rcases h with ⟨od, rfl⟩ | ⟨od, rfl⟩
                  · exact ⟨_, rfl⟩
                  · cases l <;> exact ⟨_, rfl⟩

/-- fields on different meshes, incompatible component counts, and (for ufuncs without a
complex loop) complex data are refused by two-output calls -/
theorem ufunc2pair_ff_rejected (fn1 fn2 : GQ → GQ → GQ) (c : Bool) (f o : CF)
    (h : meshAllclose f.mesh o.mesh ≠ .ok true ∨
         (CFwf f ∧ CFwf o ∧ f.nvdim ≠ o.nvdim ∧ f.nvdim ≠ 1 ∧ o.nvdim ≠ 1) ∨
         (c = false ∧ (f.kind = .complex ∨ o.kind = .complex))) :
    ∃ e, ufunc2pair fn1 fn2 c (.fld f) (.fld o) = .error e := by
  cases hr : ufunc2pair fn1 fn2 c (.fld f) (.fld o) with
  | error e => exact ⟨e, rfl⟩
  | ok p =>
    obtain ⟨g1, g2⟩ := p
    obtain ⟨r1, r2, h1, _, hmo, hc, _, _⟩ := ufunc2pair_ff_inv fn1 fn2 c f o g1 g2 hr
    exfalso
    rcases h with h | ⟨hf, ho, hne, hk, hm⟩ | ⟨hcf, hk⟩
    · simp only [ufuncMeshOk] at hmo
      cases hmm : meshAllclose f.mesh o.mesh with
      | error e => rw [hmm] at hmo; cases hmo
      | ok t =>
        cases t with
        | false => rw [hmm] at hmo; cases hmo
        | true => exact h hmm
    · rw [npBin_last_rejected fn1 f.data o.data _ _ _ _ hf.1 ho.1 hne hk hm] at h1
      cases h1
    · exact hc ⟨by simp [hcf], hk⟩

/-- **two-output call on two fields is accepted** when the result has `self`'s component
count (and the ufunc has a loop for the dtypes): both results carry `self`'s labels and
mapping, no unit; the first lives on the mesh of the first, the second on that of the second -/
theorem ufunc2pair_accepts (fn1 fn2 : GQ → GQ → GQ) (c : Bool) (M : Mesh) (hM : MeshOk M) (f o : CF)
    (hf : Good M f) (ho : Good M o) (hd : bdim f.nvdim o.nvdim = some f.nvdim)
    (hk : c = true ∨ (f.kind ≠ .complex ∧ o.kind ≠ .complex)) :
    ∃ g1 g2, ufunc2pair fn1 fn2 c (.fld f) (.fld o) = .ok (g1, g2) ∧ Good M g1 ∧ Good M g2 ∧
      g1.nvdim = f.nvdim ∧ g2.nvdim = f.nvdim ∧ g1.vdims = f.vdims ∧ g2.vdims = f.vdims ∧
      g1.vmap = f.vmap ∧ g2.vmap = f.vmap ∧ g1.unit = none ∧ g2.unit = none := by
  have hshape : bshape f.data.shape o.data.shape = some (M.n ++ [f.nvdim]) := by
    rw [hf.1.1, ho.1.1, hf.2.2, ho.2.2]
    exact bshape_cells _ _ _ _ hd
  obtain ⟨r1, hr1, hs1⟩ := npBin_shape fn1 f.data o.data _ hshape
  obtain ⟨r2, hr2, hs2⟩ := npBin_shape fn2 f.data o.data _ hshape
  have hv : ∀ v, some (NDA.zipWith (fun x y => x && y) f.valid o.valid) = some v → v.shape = M.n := by
    intro v hv; injection hv with hv; subst hv; show f.valid.shape = _; rw [hf.1.2.1, hf.2.2]
  have hp := hf.1.2.2
  obtain ⟨g1, hg1, m1, n1, v1, vm1, u1, _, w1⟩ :=
    mkField_from_stable f hf.2.1 hp M r1 (f.kind.join o.kind) _ none hs1 hv
  obtain ⟨g2, hg2, m2, n2, v2, vm2, u2, _, w2⟩ :=
    mkField_from_stable f hf.2.1 hp M r2 (f.kind.join o.kind) _ none hs2 hv
  have st : ∀ g : CF, g.nvdim = f.nvdim → g.vdims = f.vdims → g.vmap = f.vmap → g.mesh = M → MetaStable g := by
    intro g a b c' d
    refine ⟨by rw [a, b]; exact hf.2.1.1, ?_⟩
    rw [a, b, c', d]
    exact vmapSet_some_stable _ _ _ _ _ _ _ hf.2.1.2
  refine ⟨g1, g2, ?_, ⟨w1, st g1 n1 v1 vm1 m1, m1⟩, ⟨w2, st g2 n2 v2 vm2 m2, m2⟩, n1, n2, v1, v2, vm1, vm2, u1, u2⟩
  have hcond : ¬ (¬ c = true ∧ (f.kind = .complex ∨ o.kind = .complex)) := by
    rintro ⟨h1, h2⟩
    rcases hk with hk | ⟨k1, k2⟩
    · exact h1 hk
    · rcases h2 with h2 | h2
      · exact k1 h2
      · exact k2 h2
  simp only [ufunc2pair, firstFld, ufuncInput, ufuncMeshOk, ufuncValid]
  rw [hf.2.2, ho.2.2, hM.2]
  simp only [hr1, hr2]
  rw [if_neg hcond]
  simp only [ufuncPairWrap, hs1, hs2, getLastD_append_single, hg1, hg2]

theorem ufunc1pair_rejected (f : CF) : ∃ e, ufunc1pair f = .error e := by
  unfold ufunc1pair
  cases ufuncMeshOk f (.fld f) with
  | error e => exact ⟨e, rfl⟩
  | ok _ => exact ⟨_, rfl⟩

/-! ## floor division and remainder -/

theorem divmod_identity (a b : GQ) : a.re = b.re * (GQ.floorDiv a b).re + (GQ.pymod a b).re := by
  simp only [GQ.floorDiv, GQ.pymod]
  ring

theorem pymod_range_pos (a b : GQ) (hb : 0 < b.re) : 0 ≤ (GQ.pymod a b).re ∧ (GQ.pymod a b).re < b.re := by
  simp only [GQ.pymod]
  have h1 := rat_floor_le (a.re / b.re)
  have h2 := rat_lt_floor_add_one (a.re / b.re)
  have hne : b.re ≠ 0 := ne_of_gt hb
  have e : a.re = b.re * (a.re / b.re) := by field_simp
  constructor
  · have : b.re * ((a.re / b.re).floor : Rat) ≤ b.re * (a.re / b.re) := mul_le_mul_of_nonneg_left h1 (le_of_lt hb)
    linarith
  · have : b.re * (a.re / b.re) < b.re * (((a.re / b.re).floor : Rat) + 1) := mul_lt_mul_of_pos_left h2 hb
    linarith

theorem pymod_range_neg (a b : GQ) (hb : b.re < 0) : b.re < (GQ.pymod a b).re ∧ (GQ.pymod a b).re ≤ 0 := by
  simp only [GQ.pymod]
  have h1 := rat_floor_le (a.re / b.re)
  have h2 := rat_lt_floor_add_one (a.re / b.re)
  have hne : b.re ≠ 0 := ne_of_lt hb
  have e : a.re = b.re * (a.re / b.re) := by field_simp
  constructor
  · have : b.re * (((a.re / b.re).floor : Rat) + 1) < b.re * (a.re / b.re) := mul_lt_mul_of_neg_left h2 hb
    linarith
  · have : b.re * (a.re / b.re) ≤ b.re * ((a.re / b.re).floor : Rat) := mul_le_mul_of_nonpos_left h1 (le_of_lt hb)
    linarith

end DFV.C03
