import Mathlib.Tactic.Ring
import Mathlib.Tactic.Linarith
import Mathlib.Tactic.FieldSimp
import Mathlib.Data.Rat.Floor
import DFV.Lemmas.RatFloor
/-! Abstract rounded arithmetic (standard model `fl x = x(1+δ)`, `|δ| ≤ u`) and the error
propagation through `index2point` followed by the quotient of `point2index`.  `Rounding`
is a hypothesis package carried by theorems, not an axiom. -/
namespace DFV.C01
open DFV


theorem abs_le_of_err (u x y : Rat) (h : |y - x| ≤ u * |x|) : |y| ≤ (1 + u) * |x| := by
  have : |y| ≤ |y - x| + |x| := by
    have := abs_add_le (y - x) x
    simpa using this
  nlinarith [abs_nonneg x]

theorem poly_bound (u A P : Rat) (hu : 0 ≤ u) (hu16 : u ≤ 1/16) (hA0 : 0 ≤ A) (hP0 : 0 ≤ P) :
    u * ((1 + u) * (A + (u * A + u * (P + (1 + u) * A)))) + u * (A + (u * A + u * (P + (1 + u) * A)))
      + (u * A + u * (P + (1 + u) * A)) ≤ 5 * u * (P + A) := by
  have k1 : 0 ≤ u * P := mul_nonneg hu hP0
  have k2 : 0 ≤ u * A := mul_nonneg hu hA0
  have h2u : 2 + u ≤ 33 / 16 := by linarith
  have h2u0 : 0 ≤ 2 + u := by linarith
  have hw : u * (2 + u) ≤ 33 / 256 := by
    have := mul_le_mul hu16 h2u h2u0 (by norm_num : (0:Rat) ≤ 1/16)
    linarith
  have hw0 : 0 ≤ u * (2 + u) := mul_nonneg hu h2u0
  have m1 : (2 + u) * (u * A) ≤ (33 / 16) * (u * A) := mul_le_mul_of_nonneg_right h2u k2
  have hE0 : 0 ≤ u * P + (2 + u) * (u * A) := by
    have := mul_nonneg h2u0 k2
    linarith
  have hEb : u * P + (2 + u) * (u * A) ≤ u * P + (33 / 16) * (u * A) := by linarith
  have hL : u * ((1 + u) * (A + (u * A + u * (P + (1 + u) * A)))) + u * (A + (u * A + u * (P + (1 + u) * A)))
      + (u * A + u * (P + (1 + u) * A))
      = (2 + u) * (u * A) + (u * P + (2 + u) * (u * A)) * (1 + u * (2 + u)) := by ring
  rw [hL]
  have m2 : (u * P + (2 + u) * (u * A)) * (1 + u * (2 + u)) ≤ (u * P + (33 / 16) * (u * A)) * (1 + 33 / 256) :=
    mul_le_mul hEb (by linarith) (by linarith) (by linarith)
  have e5 : 5 * u * (P + A) = 5 * (u * P) + 5 * (u * A) := by ring
  rw [e5]
  have e6 : (u * P + (33 / 16) * (u * A)) * (1 + 33 / 256) = (289 / 256) * (u * P) + (33 / 16 * (289 / 256)) * (u * A) := by ring
  rw [e6] at m2
  linarith

/-- error propagation through `fl(fl(fl(pmin + fl(A·c)) − pmin)/c)`, in units of cells -/
theorem fl_core (u A P c a p d q pmin : Rat) (hc : 0 < c) (hu : 0 ≤ u) (hu16 : u ≤ 1/16) (hA : 1/2 ≤ A)
    (hP0 : 0 ≤ P) (hpm : |pmin| = P * c)
    (h1 : |a - A * c| ≤ u * |A * c|) (h2 : |p - (pmin + a)| ≤ u * |pmin + a|)
    (h3 : |d - (p - pmin)| ≤ u * |p - pmin|) (h4 : |q - d / c| ≤ u * |d / c|)
    (hs : 10 * u * (P + A) < 1) : |q - A| < 1/2 := by
  have hAc : 0 < A * c := by positivity
  rw [abs_of_pos hAc] at h1
  have ha_abs : |a| ≤ (1 + u) * (A * c) := by
    have := abs_le_of_err u (A * c) a (by rwa [abs_of_pos hAc])
    rwa [abs_of_pos hAc] at this
  have hpa : |pmin + a| ≤ P * c + (1 + u) * (A * c) := by
    have := abs_add_le pmin a
    linarith
  have hy : |p - pmin - A * c| ≤ (u * A + u * (P + (1 + u) * A)) * c := by
    have e : p - pmin - A * c = (p - (pmin + a)) + (a - A * c) := by ring
    rw [e]
    have := abs_add_le (p - (pmin + a)) (a - A * c)
    nlinarith [abs_nonneg (pmin + a)]
  have hyabs : |p - pmin| ≤ (A + (u * A + u * (P + (1 + u) * A))) * c := by
    have e : p - pmin = (p - pmin - A * c) + A * c := by ring
    rw [e]
    have := abs_add_le (p - pmin - A * c) (A * c)
    rw [abs_of_pos hAc] at this
    linarith
  have hA0' : 0 ≤ A := by linarith
  have hY0 : 0 ≤ A + (u * A + u * (P + (1 + u) * A)) := by
    have k1 : 0 ≤ u * A := mul_nonneg hu hA0'
    have k2 : 0 ≤ u * (P + (1 + u) * A) := mul_nonneg hu (by nlinarith)
    linarith
  have h3' : |d - (p - pmin)| ≤ u * ((A + (u * A + u * (P + (1 + u) * A))) * c) := by
    nlinarith [abs_nonneg (p - pmin)]
  have hdabs : |d| ≤ (1 + u) * ((A + (u * A + u * (P + (1 + u) * A))) * c) := by
    have := abs_le_of_err u (p - pmin) d h3
    nlinarith [abs_nonneg (p - pmin)]
  have hdc : |d / c| = |d| / c := by rw [abs_div, abs_of_pos hc]
  have h4' : |q - d / c| ≤ u * ((1 + u) * (A + (u * A + u * (P + (1 + u) * A)))) := by
    rw [hdc] at h4
    have : |d| / c ≤ (1 + u) * (A + (u * A + u * (P + (1 + u) * A))) := by
      rw [div_le_iff₀ hc]; linarith
    nlinarith
  have b2 : |(d - (p - pmin)) / c| ≤ u * (A + (u * A + u * (P + (1 + u) * A))) := by
    rw [abs_div, abs_of_pos hc, div_le_iff₀ hc]; linarith
  have b3 : |(p - pmin - A * c) / c| ≤ u * A + u * (P + (1 + u) * A) := by
    rw [abs_div, abs_of_pos hc, div_le_iff₀ hc]; linarith
  have e : q - A = ((q - d / c) + (d - (p - pmin)) / c) + (p - pmin - A * c) / c := by
    field_simp; ring
  rw [e]
  have t1 := abs_add_le ((q - d / c) + (d - (p - pmin)) / c) ((p - pmin - A * c) / c)
  have t2 := abs_add_le (q - d / c) ((d - (p - pmin)) / c)
  have hA0 : 0 ≤ A := by linarith
  have bound := poly_bound u A P hu hu16 hA0 hP0
  have hs' : 5 * u * (P + A) < 1/2 := by linarith
  linarith

/-- standard model of rounding: every operation returns the exact result times `(1 + δ)`,
`|δ| ≤ u`.  A parameter of the theorems below (not an axiom); `u = 2^-53` for binary64. -/
structure Rounding where
  fl : Rat → Rat
  u : Rat
  u_nonneg : 0 ≤ u
  u_small : u ≤ 1/16
  err : ∀ x, |fl x - x| ≤ u * |x|

/-- `index2point` as computed: `fl(pmin + fl((i + ½)·c))` -/
def centreFl (R : Rounding) (pmin c : Rat) (i : Nat) : Rat := R.fl (pmin + R.fl (((i : Rat) + 1/2) * c))

/-- the quotient `point2index` floors: `fl(fl(p − pmin) / c)` -/
def quotFl (R : Rounding) (pmin c p : Rat) : Rat := R.fl (R.fl (p - pmin) / c)

/-- two roundings: `|fl(fl(y)/c) − y/c| ≤ 3u·|y/c|` -/
theorem quot_err (R : Rounding) (y c : Rat) (hc : 0 < c) :
    |R.fl (R.fl y / c) - y / c| ≤ 3 * R.u * |y / c| := by
  have hu := R.u_nonneg
  have hu1 : R.u ≤ 1 := le_trans R.u_small (by norm_num)
  have h1 := R.err y
  have h2 := R.err (R.fl y / c)
  have hd : |R.fl y / c - y / c| ≤ R.u * |y / c| := by
    have e : R.fl y / c - y / c = (R.fl y - y) / c := by field_simp
    rw [e, abs_div, abs_div, abs_of_pos hc]
    rw [← mul_div_assoc, div_le_div_iff_of_pos_right hc]
    exact h1
  have hq : |R.fl y / c| ≤ (1 + R.u) * |y / c| := abs_le_of_err R.u (y / c) (R.fl y / c) hd
  have e : R.fl (R.fl y / c) - y / c = (R.fl (R.fl y / c) - R.fl y / c) + (R.fl y / c - y / c) := by ring
  rw [e]
  have t := abs_add_le (R.fl (R.fl y / c) - R.fl y / c) (R.fl y / c - y / c)
  have hn := abs_nonneg (y / c)
  have : R.u * |R.fl y / c| ≤ R.u * ((1 + R.u) * |y / c|) := mul_le_mul_of_nonneg_left hq hu
  have h3 : R.u * R.u * |y / c| ≤ R.u * |y / c| := by
    have : R.u * R.u ≤ R.u := by nlinarith
    exact mul_le_mul_of_nonneg_right this hn
  nlinarith

end DFV.C01
