import DFV.Lemmas.C11Mesh
import DFV.Lemmas.C11Arr
/-!
C11: what a successful `Field(...)` call of `_fftn` returns, the dictionary loop of `_fftn`
(renaming of labels and mapping) and its inverse.
-/
namespace DFV.C11
open DFV

section
variable {R : Type}

/-! ### what a successful constructor call returns -/

theorem vdimsSetter_some (nv : Nat) (vs : List String) (r : Option (List String))
    (h : vdimsSetter nv (some vs) = .ok r) :
    (vs = [] ∧ r = none) ∨ (vs ≠ [] ∧ vs.length = nv ∧ hasDup vs = false ∧ r = some vs) := by
  have h : (if vs.length = 0 then Except.ok none
      else if vs.length ≠ nv then Except.error Err.value
      else if hasDup vs = true then Except.error Err.value else Except.ok (some vs)) = (Except.ok r : M _) := h
  by_cases h0 : vs.length = 0
  · rw [if_pos h0] at h
    left
    exact ⟨List.length_eq_zero_iff.mp h0, by injection h with h; exact h.symm⟩
  · rw [if_neg h0] at h
    by_cases h1 : vs.length ≠ nv
    · rw [if_pos h1] at h; cases h
    · rw [if_neg h1] at h
      cases hd : hasDup vs with
      | true => rw [hd] at h; simp at h
      | false =>
        rw [hd] at h
        simp only [Bool.false_eq_true, if_false] at h
        right
        refine ⟨fun e => h0 (by rw [e]; rfl), by omega, rfl, ?_⟩
        injection h with h; exact h.symm

theorem vmapSetter_some (nv : Nat) (dims : List String) (vs : List String) (mp r : List (String × String))
    (h : vmapSetter nv dims (some vs) (some mp) = .ok r) : r = mp := by
  unfold vmapSetter at h
  simp only [Option.isNone_some, Bool.and_false, Bool.false_eq_true, if_false] at h
  split at h
  · cases h
  · injection h with h; exact h.symm

theorem mkCF_ok {mesh : Mesh} {nv : Nat} {data : NDA (List R)} {vd : Option (List String)}
    {vm : Option (List (String × String))} {unit : Option String} {g : CF R}
    (h : mkCF mesh nv data vd vm unit = .ok g) :
    g.mesh = mesh ∧ g.data = data ∧ g.nvdim = nv ∧ g.unit = unit ∧ data.shape = mesh.n ∧
      vdimsSetter nv vd = .ok g.vdims ∧ vmapSetter nv mesh.region.dims g.vdims vm = .ok g.vmap := by
  unfold mkCF at h
  split at h
  · cases h
  · split at h
    · cases h
    · rename_i hshape
      split at h
      · cases h
      · rename_i vd' hvd
        split at h
        · cases h
        · rename_i mp hmp
          injection h with h
          subst h
          exact ⟨rfl, rfl, rfl, rfl, by simpa using hshape, hvd, hmp⟩

theorem finish_ok {f : CF R} {mesh : Mesh} {data : NDA (List R)} {inv : Bool} {g : CF R}
    (h : finish f mesh data inv = .ok g) :
    g.mesh = mesh ∧ g.data = data ∧ g.nvdim = f.nvdim ∧ g.unit = f.unit ∧ data.shape = mesh.n := by
  unfold finish at h
  split at h
  · have := mkCF_ok h; exact ⟨this.1, this.2.1, this.2.2.1, this.2.2.2.1, this.2.2.2.2.1⟩
  · split at h
    · have := mkCF_ok h; exact ⟨this.1, this.2.1, this.2.2.1, this.2.2.2.1, this.2.2.2.2.1⟩
    · have := mkCF_ok h; exact ⟨this.1, this.2.1, this.2.2.1, this.2.2.2.1, this.2.2.2.2.1⟩

/-- labels and mapping of a forward transform of a labelled field -/
theorem finish_labels_fwd {f : CF R} {mesh : Mesh} {data : NDA (List R)} {g : CF R} (vs : List String)
    (hv : f.vdims = some vs) (hne : vs ≠ []) (h : finish f mesh data false = .ok g) :
    g.vdims = some (vs.map ("ft_" ++ ·)) ∧
      g.vmap = renameMap f.vmap ("ft_" ++ ·) ("k_" ++ ·) vs [] := by
  unfold finish at h
  rw [hv] at h
  simp only [Bool.false_eq_true, if_false] at h
  have := mkCF_ok h
  obtain ⟨_, _, _, _, _, hvd, hmp⟩ := this
  rcases vdimsSetter_some _ _ _ hvd with ⟨he, _⟩ | ⟨_, _, _, hr⟩
  · exact absurd (List.map_eq_nil_iff.mp he) hne
  · rw [hr] at hmp
    exact ⟨hr, vmapSetter_some _ _ _ _ _ hmp⟩

/-- labels and mapping of an inverse transform of a labelled field -/
theorem finish_labels_inv {f : CF R} {mesh : Mesh} {data : NDA (List R)} {g : CF R} (vs : List String)
    (hv : f.vdims = some vs) (hne : vs ≠ []) (h : finish f mesh data true = .ok g) :
    g.vdims = some (vs.map (stripPre "ft_")) ∧
      g.vmap = renameMap f.vmap (stripPre "ft_") (stripPre "k_") vs [] := by
  unfold finish at h
  rw [hv] at h
  simp only [if_true] at h
  have := mkCF_ok h
  obtain ⟨_, _, _, _, _, hvd, hmp⟩ := this
  rcases vdimsSetter_some _ _ _ hvd with ⟨he, _⟩ | ⟨_, _, _, hr⟩
  · exact absurd (List.map_eq_nil_iff.mp he) hne
  · rw [hr] at hmp
    exact ⟨hr, vmapSetter_some _ _ _ _ _ hmp⟩

end

/-! ### dictionaries -/

theorem dictGet_nil (k : String) : dictGet [] k = none := rfl

theorem dictGet_cons (k' v' : String) (m : List (String × String)) (k : String) :
    dictGet ((k', v') :: m) k = if k' = k then some v' else dictGet m k := by
  unfold dictGet Fld.lookup
  simp only [List.find?_cons]
  by_cases h : k' = k
  · simp [h]
  · have : (k' == k) = false := by simpa using h
    simp [this, h]

theorem dictGet_set_same (m : List (String × String)) (k v : String) : dictGet (dictSet m k v) k = some v := by
  induction m with
  | nil => simp [dictSet, dictGet_cons]
  | cons p m ih =>
    obtain ⟨k', v'⟩ := p
    simp only [dictSet]
    by_cases h : k' = k
    · have : (k' == k) = true := by simpa using h
      rw [this]; simp [dictGet_cons]
    · have : (k' == k) = false := by simpa using h
      rw [this]
      simp only [Bool.false_eq_true, if_false]
      rw [dictGet_cons, if_neg h, ih]

theorem dictGet_set_other (m : List (String × String)) (k v k2 : String) (hne : k2 ≠ k) :
    dictGet (dictSet m k v) k2 = dictGet m k2 := by
  induction m with
  | nil => simp [dictSet, dictGet_cons, dictGet_nil, Ne.symm hne]
  | cons p m ih =>
    obtain ⟨k', v'⟩ := p
    simp only [dictSet]
    by_cases h : k' = k
    · have : (k' == k) = true := by simpa using h
      rw [this]
      simp only [if_true]
      rw [dictGet_cons, dictGet_cons, h, if_neg (Ne.symm hne), if_neg (Ne.symm hne)]
    · have : (k' == k) = false := by simpa using h
      rw [this]
      simp only [Bool.false_eq_true, if_false]
      rw [dictGet_cons, dictGet_cons, ih]

/-- spec of the mapping loop of `_fftn`: the entry of the renamed label `fk v` is the renamed
entry of `v` -/
theorem renameMap_get (vmap : List (String × String)) (fk fv : String → String) (vs : List String)
    (acc : List (String × String)) (v : String) (hinj : ∀ u ∈ vs, fk u = fk v → u = v) :
    dictGet (renameMap vmap fk fv vs acc) (fk v) =
      if v ∈ vs then (match dictGet vmap v with
        | some d => some (fv d)
        | none => dictGet acc (fk v))
      else dictGet acc (fk v) := by
  induction vs generalizing acc with
  | nil => simp [renameMap]
  | cons u us ih =>
    have hinj' : ∀ w ∈ us, fk w = fk v → w = v := fun w hw => hinj w (List.mem_cons_of_mem _ hw)
    simp only [renameMap]
    by_cases huv : u = v
    · subst huv
      cases hd : dictGet vmap u with
      | none =>
        simp only
        rw [ih acc hinj']
        simp [hd]
      | some d =>
        simp only
        rw [ih _ hinj']
        simp [hd, dictGet_set_same]
    · have hk : fk v ≠ fk u := fun e => huv (hinj u (by simp) e.symm)
      have hmem : (v ∈ u :: us) ↔ v ∈ us := by
        simp [List.mem_cons, Ne.symm huv]
      cases hd : dictGet vmap u with
      | none =>
        simp only
        rw [ih acc hinj']
        simp only [hmem]
      | some d =>
        simp only
        rw [ih _ hinj', dictGet_set_other _ _ _ _ hk]
        simp only [hmem]

theorem ft_inj (a b : String) (h : "ft_" ++ a = "ft_" ++ b) : a = b := (String.append_right_inj _).mp h

/-- forward renaming: label `ft_v` is mapped to `k_d` iff `v` was mapped to `d` -/
theorem renameMap_fwd (vmap : List (String × String)) (vs : List String) (v : String) (hv : v ∈ vs) :
    dictGet (renameMap vmap ("ft_" ++ ·) ("k_" ++ ·) vs []) ("ft_" ++ v) = (dictGet vmap v).map ("k_" ++ ·) := by
  rw [renameMap_get vmap ("ft_" ++ ·) ("k_" ++ ·) vs [] v (fun u _ e => ft_inj u v e), if_pos hv]
  cases dictGet vmap v <;> simp [dictGet_nil]

/-- inverse ∘ forward renaming restores the labels -/
theorem labels_roundtrip (vs : List String) : (vs.map ("ft_" ++ ·)).map (stripPre "ft_") = vs := by
  rw [List.map_map]
  conv => rhs; rw [← List.map_id vs]
  apply List.map_congr_left
  intro d _
  simp only [Function.comp, id]
  exact stripPre_add "ft_" d

/-- inverse ∘ forward renaming restores every entry of the mapping -/
theorem renameMap_roundtrip (vmap : List (String × String)) (vs : List String) (v : String) (hv : v ∈ vs) :
    dictGet (renameMap (renameMap vmap ("ft_" ++ ·) ("k_" ++ ·) vs []) (stripPre "ft_") (stripPre "k_")
        (vs.map ("ft_" ++ ·)) []) v = dictGet vmap v := by
  have hkey : stripPre "ft_" ("ft_" ++ v) = v := stripPre_add "ft_" v
  have h := renameMap_get (renameMap vmap ("ft_" ++ ·) ("k_" ++ ·) vs []) (stripPre "ft_") (stripPre "k_")
    (vs.map ("ft_" ++ ·)) [] ("ft_" ++ v) (by
      intro u hu e
      obtain ⟨w, _, rfl⟩ := List.mem_map.mp hu
      rw [stripPre_add, stripPre_add] at e
      rw [e])
  rw [hkey] at h
  rw [h, if_pos (List.mem_map.mpr ⟨v, hv, rfl⟩), renameMap_fwd vmap vs v hv]
  cases dictGet vmap v with
  | none => simp [dictGet_nil]
  | some d => simp [stripPre_add]

end DFV.C11
