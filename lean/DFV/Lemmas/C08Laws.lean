import DFV.Lemmas.C08Sess
/-! C08 helper lemmas, part 8: laws of the mapping operations — padding and taking the original
block back is the identity on validity. -/
namespace DFV.C08
open DFV

/-- in-range variant: the readings need to agree on the cells of the shape only -/
theorem same_mask_of_spec_in (env : Nat → Mask) (P p : Prog) (hsh : shapeOf env P = shapeOf env p)
    (hsp : ∀ j, inRange (shapeOf env p) j = true → spec env P j = spec env p j)
    (hwf : wf env P = true → wf env p = true) (m : Mask) (h : eval env P = .ok m) :
    ∃ m0, eval env p = .ok m0 ∧ m.shape = m0.shape ∧ ∀ j, inRange m0.shape j = true → m.get j = m0.get j := by
  obtain ⟨m0, hm0⟩ := (eval_ok_iff env p).mpr (hwf ((eval_ok_iff env P).mp ⟨m, h⟩))
  obtain ⟨h1, h2⟩ := eval_spec env P m h
  obtain ⟨h3, h4⟩ := eval_spec env p m0 hm0
  have hs : m.shape = m0.shape := by rw [h1, h3, hsh]
  refine ⟨m0, hm0, hs, fun j hj => ?_⟩
  rw [h2 j (by rw [hs]; exact hj), h4 j hj, hsp j (by rw [← h3]; exact hj)]

theorem list_eq_tab_getD (s : List Nat) : s = tab s.length fun b => s.getD b 0 :=
  eq_tab_of_getD s s.length _ 0 rfl (fun _ _ => rfl)

theorem unpad_pad_shape (mode : PadMode) (w : List (Nat × Nat)) (s : List Nat) :
    (unpad w s).shape ((MapOp.pad mode w).shape s) = s := by
  simp only [unpad, MapOp.shape, tab_length]
  rw [list_eq_tab_getD s]
  simp only [tab_length]
  apply tab_congr
  intro b hb
  rw [getD_tab _ _ _ _ hb, getD_tab _ _ _ _ hb, getD_tab _ _ _ _ hb]
  omega

theorem unpad_pad_src (mode : PadMode) (w : List (Nat × Nat)) (s j : List Nat) (hj : inRange s j = true) :
    ∃ i, (unpad w s).src ((MapOp.pad mode w).shape s) j = some i ∧ (MapOp.pad mode w).src s i = some j := by
  obtain ⟨hl, hlt⟩ := (inRange_iff s j).mp hj
  refine ⟨tab s.length fun b => j.getD b 0 + (w.getD b (0, 0)).1, ?_, ?_⟩
  · simp only [unpad, MapOp.src, MapOp.shape, tab_length]
    congr 1
    apply tab_congr
    intro b hb
    rw [getD_tab _ _ _ _ hb]
  · rw [pad_src_inside mode w s _ (by rw [tab_length]) (fun b hb => by rw [getD_tab _ _ _ _ hb]; have := hlt b hb; omega)]
    congr 1
    rw [eq_tab_of_getD j s.length (fun b => j.getD b 0) 0 hl (fun _ _ => rfl)]
    apply tab_congr
    intro b hb
    rw [getD_tab _ _ _ _ hb, getD_tab _ _ _ _ hb]
    omega

theorem unpad_pad_ok (mode : PadMode) (w : List (Nat × Nat)) (s : List Nat) (hw : w.length = s.length)
    (hpos : ∀ b, b < s.length → 0 < s.getD b 0) :
    (MapOp.pad mode w).ok s = true ∧ (unpad w s).ok ((MapOp.pad mode w).shape s) = true := by
  constructor
  · simp only [MapOp.ok, Bool.and_eq_true, decide_eq_true_eq, allLt_iff]
    exact ⟨hw, hpos⟩
  · simp only [unpad, MapOp.ok, MapOp.shape, tab_length, Bool.and_eq_true, decide_eq_true_eq, allLt_iff, true_and]
    intro b hb
    rw [getD_tab _ _ _ _ hb, getD_tab _ _ _ _ hb, getD_tab _ _ _ _ hb]
    have := hpos b hb
    exact ⟨by omega, by omega⟩

theorem unpad_pad_facts (env : Nat → Mask) (mode : PadMode) (w : List (Nat × Nat)) (p : Prog) :
    shapeOf env (.map (unpad w (shapeOf env p)) (.map (.pad mode w) p)) = shapeOf env p ∧
    (∀ j, inRange (shapeOf env p) j = true →
      spec env (.map (unpad w (shapeOf env p)) (.map (.pad mode w) p)) j = spec env p j) ∧
    (wf env (.map (unpad w (shapeOf env p)) (.map (.pad mode w) p)) = true → wf env p = true) ∧
    (wf env p = true → w.length = (shapeOf env p).length →
      (∀ b, b < (shapeOf env p).length → 0 < (shapeOf env p).getD b 0) →
      wf env (.map (unpad w (shapeOf env p)) (.map (.pad mode w) p)) = true) := by
  refine ⟨unpad_pad_shape mode w _, fun j hj => ?_, fun h => ?_, fun h hw hpos => ?_⟩
  · obtain ⟨i, h1, h2⟩ := unpad_pad_src mode w (shapeOf env p) j hj
    show (match (unpad w (shapeOf env p)).src ((MapOp.pad mode w).shape (shapeOf env p)) j with
      | some i => (match (MapOp.pad mode w).src (shapeOf env p) i with
        | some i' => spec env p i'
        | none => false)
      | none => false) = spec env p j
    rw [h1]; simp only; rw [h2]
  · simp only [wf, Bool.and_eq_true] at h
    exact h.1.1
  · obtain ⟨o1, o2⟩ := unpad_pad_ok mode w (shapeOf env p) hw hpos
    simp only [wf, shapeOf, Bool.and_eq_true]
    exact ⟨⟨h, o1⟩, o2⟩

end DFV.C08
