import DFV.Lemmas.C07SelFld
/-! Requests with non-finite coordinates (`ExtRat`): the IEEE containment test accepts finite
points only, on finite points every extended function is the rational one, and a non-finite
coordinate is refused. -/
namespace DFV.C07
open DFV DFV.Mesh

/-- the finite selection value as an extended one -/
def SelArg.toE : SelArg → SelArgE
  | .centre => .centre
  | .point x => .point (.fin x)
  | .range x y => .range (.fin x) (.fin y)
  | .bad => .bad

theorem finList_map_fin (l : List Rat) : finList? (l.map .fin) = some l := by
  induction l with
  | nil => rfl
  | cons x rest ih =>
    show (match (ExtRat.fin x).toRat?, finList? (rest.map .fin) with
      | some q, some l => some (q :: l)
      | _, _ => none) = _
    rw [ih]; rfl

theorem finList_some (p : List ExtRat) (q : List Rat) (h : finList? p = some q) : p = q.map .fin := by
  induction p generalizing q with
  | nil =>
    unfold finList? at h
    injection h with h; subst h; rfl
  | cons x rest ih =>
    unfold finList? at h
    cases x with
    | fin z =>
      cases hr : finList? rest with
      | none => rw [hr] at h; simp [ExtRat.toRat?] at h
      | some l =>
        rw [hr] at h
        simp only [ExtRat.toRat?] at h
        injection h with h; subst h
        rw [ih l hr]; rfl
    | posInf => simp [ExtRat.toRat?] at h
    | negInf => simp [ExtRat.toRat?] at h
    | nan => simp [ExtRat.toRat?] at h

theorem getD_map_fin (l : List Rat) (a : Nat) : (l.map ExtRat.fin).getD a (.fin 0) = .fin (l.getD a 0) := by
  rw [List.getD_eq_getElem?_getD, List.getD_eq_getElem?_getD, List.getElem?_map]
  cases l[a]? <;> rfl

/-- a list all of whose entries are finite is the image of a rational list -/
theorem eq_map_fin_of_getD (p : List ExtRat) (h : ∀ a, a < p.length → ∃ q, p.getD a (.fin 0) = .fin q) :
    ∃ l : List Rat, p = l.map .fin := by
  induction p with
  | nil => exact ⟨[], rfl⟩
  | cons x rest ih =>
    obtain ⟨q, hq⟩ := h 0 (by simp)
    simp only [List.getD_cons_zero] at hq
    obtain ⟨l, hl⟩ := ih (fun a ha => by
      have := h (a + 1) (by simp; omega)
      simpa using this)
    exact ⟨q :: l, by rw [hq, hl]; rfl⟩

theorem containsAxE_fin (r : Region) (a : Nat) (q : Rat) : containsAxE r a (.fin q) = r.containsAx a q := rfl

/-- the containment test is false for `+inf`, `-inf` and `nan` -/
theorem containsAxE_true_fin (r : Region) (a : Nat) (x : ExtRat) (h : containsAxE r a x = true) :
    ∃ q, x = .fin q := by
  cases x with
  | fin q => exact ⟨q, rfl⟩
  | posInf => simp [containsAxE, ExtRat.le, iscloseE] at h
  | negInf => simp [containsAxE, ExtRat.le, iscloseE] at h
  | nan => simp [containsAxE, ExtRat.le, iscloseE] at h

theorem containsPtE_map_fin (r : Region) (p : List Rat) : containsPtE r (p.map .fin) = r.containsPt p := by
  unfold containsPtE Region.containsPt
  rw [List.length_map]
  congr 1
  unfold allLt
  apply List.all_congr rfl
  intro a
  rw [getD_map_fin, containsAxE_fin]

/-- a point that passes the containment test has finite coordinates only -/
theorem containsPtE_true_fin (r : Region) (p : List ExtRat) (h : containsPtE r p = true) :
    ∃ l : List Rat, p = l.map .fin := by
  unfold containsPtE at h
  rw [Bool.and_eq_true, decide_eq_true_iff, allLt_iff] at h
  obtain ⟨hl, hall⟩ := h
  apply eq_map_fin_of_getD
  intro a ha
  exact containsAxE_true_fin r a _ (hall a (by omega))

/-- on finite points the extended lookup is `Mesh.point2index` -/
theorem point2indexE_fin (m : Mesh) (p : List Rat) : point2indexE m (p.map .fin) = m.point2index p := by
  unfold point2indexE Mesh.point2index
  rw [List.length_map, containsPtE_map_fin, finList_map_fin]

/-- the extended lookup accepts exactly the finite points the rational lookup accepts, with the
same answer -/
theorem point2indexE_ok_iff (m : Mesh) (p : List ExtRat) (i : List Nat) :
    point2indexE m p = .ok i ↔ ∃ q : List Rat, p = q.map .fin ∧ m.point2index q = .ok i := by
  constructor
  · intro h
    have hc : containsPtE m.region p = true := by
      unfold point2indexE at h
      split at h
      · cases h
      · split at h
        · cases h
        · rename_i hc; simpa using hc
    obtain ⟨q, hq⟩ := containsPtE_true_fin m.region p hc
    subst hq
    rw [point2indexE_fin] at h
    exact ⟨q, rfl, h⟩
  · rintro ⟨q, hq, h⟩
    subst hq
    rw [point2indexE_fin]; exact h

/-- a point with a non-finite coordinate on one of the mesh's axes is refused -/
theorem point2indexE_nonfin (m : Mesh) (p : List ExtRat) (a : Nat) (ha : a < m.ndim)
    (hx : ∀ q, p.getD a (.fin 0) ≠ .fin q) : ∃ e, point2indexE m p = .error e := by
  cases h : point2indexE m p with
  | error e => exact ⟨e, rfl⟩
  | ok i =>
    obtain ⟨q, hq, _⟩ := (point2indexE_ok_iff m p i).mp h
    subst hq
    exact absurd (getD_map_fin q a) (hx _)

theorem setAt_map {α β} (f : α → β) (l : List α) (a : Nat) (x : α) :
    setAt (l.map f) a (f x) = (setAt l a x).map f := by
  induction l generalizing a with
  | nil => rfl
  | cons y rest ih =>
    cases a with
    | zero => rfl
    | succ a => simp [setAt, ih]

theorem testPointE_fin (m : Mesh) (a : Nat) (x : Rat) :
    testPointE m a (.fin x) = (testPoint m a x).map .fin := by
  unfold testPointE testPoint; exact setAt_map _ _ _ _

theorem cellOfE_fin (m : Mesh) (a : Nat) (p : List Rat) : cellOfE m a (p.map .fin) = cellOf m a p := by
  unfold cellOfE cellOf; rw [point2indexE_fin]

theorem selOneE_fin (m : Mesh) (a : Nat) (x : Rat) : selOneE m a (.fin x) = selOne m a x := by
  unfold selOneE selOne
  rw [testPointE_fin, cellOfE_fin]
  by_cases h : x < m.region.lo a ∨ m.region.hi a < x
  · rw [if_pos h, if_pos (by simpa [ExtRat.lt] using h)]
  · rw [if_neg h, if_neg (by simpa [ExtRat.lt] using h)]

/-- a non-finite selection coordinate is refused: `±inf` by the range test, `nan` — for which
both comparisons of the range test are false — by the containment test of `point2index` -/
theorem selOneE_nonfin (m : Mesh) (a : Nat) (ha : a < m.ndim) (x : ExtRat) (hx : ∀ q, x ≠ .fin q) :
    ∃ e, selOneE m a x = .error e := by
  unfold selOneE
  cases x with
  | fin q => exact absurd rfl (hx q)
  | posInf => exact ⟨.value, by simp [ExtRat.lt]⟩
  | negInf => exact ⟨.value, by simp [ExtRat.lt]⟩
  | nan =>
    have hc : (ExtRat.lt .nan (.fin (m.region.lo a)) || ExtRat.lt (.fin (m.region.hi a)) .nan) = false := rfl
    rw [hc]
    simp only [Bool.false_eq_true, if_false]
    unfold cellOfE
    obtain ⟨e, he⟩ := point2indexE_nonfin m (testPointE m a .nan) a ha (by
      intro q
      unfold testPointE
      rw [getD_setAt_eq _ _ _ _ (by rw [List.length_map]; exact ha)]
      exact fun h => ExtRat.noConfusion h)
    rw [he]
    exact ⟨e, rfl⟩

theorem sort2_fin (x y : Rat) : sort2 (.fin x) (.fin y) = (.fin (min x y), .fin (max x y)) := by
  unfold sort2
  by_cases h : y < x
  · rw [if_pos (by simpa [ExtRat.lt] using h), min_eq_right h.le, max_eq_left h.le]
  · rw [if_neg (by simpa [ExtRat.lt] using h), min_eq_left (not_lt.mp h), max_eq_right (not_lt.mp h)]

theorem sort2_perm (x y : ExtRat) : sort2 x y = (x, y) ∨ sort2 x y = (y, x) := by
  unfold sort2; split
  · exact Or.inr rfl
  · exact Or.inl rfl

/-- on finite values the extended normalisation is `selConvert` -/
theorem selConvertE_fin (m : Mesh) (dim : String) (arg : SelArg) :
    selConvertE m dim arg.toE = selConvert m dim arg := by
  unfold selConvertE selConvert
  cases m.region.dim2index dim with
  | error e => rfl
  | ok a =>
    cases arg with
    | centre => rfl
    | bad => rfl
    | point x => simp only [SelArg.toE]; rw [selOneE_fin]
    | range x y => simp only [SelArg.toE]; rw [sort2_fin]; simp only; rw [selOneE_fin, selOneE_fin]

theorem selMeshE_fin (m : Mesh) (dim : String) (arg : SelArg) :
    selMeshE m dim arg.toE = selMesh m dim arg := by
  unfold selMeshE selMesh; rw [selConvertE_fin]

theorem selFldE_fin (f : Fld) (dim : String) (arg : SelArg) :
    selFldE f dim arg.toE = selFld f dim arg := by
  unfold selFldE selFld; rw [selConvertE_fin, selMeshE_fin]

/-- a selection value is finite iff it is the image of a rational one -/
def SelArgE.NonFinite : SelArgE → Prop
  | .point x => ∀ q, x ≠ .fin q
  | .range x y => (∀ q, x ≠ .fin q) ∨ (∀ q, y ≠ .fin q)
  | _ => False

theorem selArgE_cases (arg : SelArgE) : (∃ a : SelArg, arg = a.toE) ∨ arg.NonFinite := by
  cases arg with
  | centre => exact Or.inl ⟨.centre, rfl⟩
  | bad => exact Or.inl ⟨.bad, rfl⟩
  | point x =>
    cases x with
    | fin q => exact Or.inl ⟨.point q, rfl⟩
    | posInf => exact Or.inr (fun q h => ExtRat.noConfusion h)
    | negInf => exact Or.inr (fun q h => ExtRat.noConfusion h)
    | nan => exact Or.inr (fun q h => ExtRat.noConfusion h)
  | range x y =>
    cases x with
    | fin q =>
      cases y with
      | fin q' => exact Or.inl ⟨.range q q', rfl⟩
      | posInf => exact Or.inr (Or.inr (fun q h => ExtRat.noConfusion h))
      | negInf => exact Or.inr (Or.inr (fun q h => ExtRat.noConfusion h))
      | nan => exact Or.inr (Or.inr (fun q h => ExtRat.noConfusion h))
    | posInf => exact Or.inr (Or.inl (fun q h => ExtRat.noConfusion h))
    | negInf => exact Or.inr (Or.inl (fun q h => ExtRat.noConfusion h))
    | nan => exact Or.inr (Or.inl (fun q h => ExtRat.noConfusion h))

theorem toE_not_nonfinite (a : SelArg) : ¬ a.toE.NonFinite := by
  cases a with
  | centre => exact fun h => h
  | bad => exact fun h => h
  | point x => exact fun h => h x rfl
  | range x y =>
    rintro (h | h)
    · exact h x rfl
    · exact h y rfl

/-- a non-finite selection value is refused by the normalisation -/
theorem selConvertE_nonfin (m : Mesh) (hm : m.Inv) (dim : String) (arg : SelArgE) (h : arg.NonFinite) :
    ∃ e, selConvertE m dim arg = .error e := by
  unfold selConvertE
  cases hd : m.region.dim2index dim with
  | error e => exact ⟨e, rfl⟩
  | ok a =>
    have ha := dim2index_ndim hm hd
    cases arg with
    | centre => exact absurd h (fun h => h)
    | bad => exact absurd h (fun h => h)
    | point x =>
      obtain ⟨e, he⟩ := selOneE_nonfin m a ha x h
      simp only; rw [he]; exact ⟨e, rfl⟩
    | range x y =>
      simp only
      rcases sort2_perm x y with hs | hs
      · rw [hs]
        simp only
        rcases h with h | h
        · obtain ⟨e, he⟩ := selOneE_nonfin m a ha x h
          rw [he]; exact ⟨e, rfl⟩
        · cases h1 : selOneE m a x with
          | error e => exact ⟨e, rfl⟩
          | ok ck =>
            obtain ⟨e, he⟩ := selOneE_nonfin m a ha y h
            simp only; rw [he]; exact ⟨e, rfl⟩
      · rw [hs]
        simp only
        rcases h with h | h
        · cases h1 : selOneE m a y with
          | error e => exact ⟨e, rfl⟩
          | ok ck =>
            obtain ⟨e, he⟩ := selOneE_nonfin m a ha x h
            simp only; rw [he]; exact ⟨e, rfl⟩
        · obtain ⟨e, he⟩ := selOneE_nonfin m a ha y h
          rw [he]; exact ⟨e, rfl⟩

/-! ### boxes with non-finite corners -/

theorem getRegionE_fin (m : Mesh) (pmin pmax : List Rat) :
    getRegionE m (pmin.map .fin) (pmax.map .fin) = getRegion m (boxRegion pmin pmax) := by
  unfold getRegionE
  rw [containsPtE_map_fin, containsPtE_map_fin, finList_map_fin, finList_map_fin]
  simp only
  by_cases hc : (m.region.containsPt pmin && m.region.containsPt pmax) = true
  · rw [hc]; rfl
  · have hc' : (m.region.containsPt pmin && m.region.containsPt pmax) = false := by
      cases hh : (m.region.containsPt pmin && m.region.containsPt pmax) with
      | true => exact absurd hh hc
      | false => rfl
    rw [hc']
    simp only [Bool.not_false, if_true]
    unfold getRegion Region.containsReg
    show _ = if (!(m.region.containsPt pmin && m.region.containsPt pmax)) = true then _ else _
    rw [hc']; rfl

theorem getItemE_fin (f : Fld) (pmin pmax : List Rat) :
    getItemE f (pmin.map .fin) (pmax.map .fin) = getItem f (.region (boxRegion pmin pmax)) := by
  unfold getItemE getItem
  rw [getRegionE_fin]; rfl

/-- `mesh[region]` refuses a region one of whose corners has a non-finite coordinate -/
theorem getRegionE_nonfin (m : Mesh) (pmin pmax : List ExtRat)
    (h : ¬ ((∃ l : List Rat, pmin = l.map .fin) ∧ ∃ l : List Rat, pmax = l.map .fin)) :
    ∃ e, getRegionE m pmin pmax = .error e := by
  unfold getRegionE
  by_cases hc : (containsPtE m.region pmin && containsPtE m.region pmax) = true
  · rw [Bool.and_eq_true] at hc
    exact absurd ⟨containsPtE_true_fin _ _ hc.1, containsPtE_true_fin _ _ hc.2⟩ h
  · have hc' : (containsPtE m.region pmin && containsPtE m.region pmax) = false := by
      cases hh : (containsPtE m.region pmin && containsPtE m.region pmax) with
      | true => exact absurd hh hc
      | false => rfl
    rw [hc']
    exact ⟨_, rfl⟩

theorem addRat_fin (q c : Rat) : (ExtRat.fin q).addRat c = .fin (q + c) := rfl

theorem addRat_nonfin (x : ExtRat) (c : Rat) (h : ∀ q, x ≠ .fin q) : ∀ q, x.addRat c ≠ .fin q := by
  cases x with
  | fin z => exact absurd rfl (h z)
  | posInf => exact fun q hq => ExtRat.noConfusion hq
  | negInf => exact fun q hq => ExtRat.noConfusion hq
  | nan => exact fun q hq => ExtRat.noConfusion hq

theorem region2slicesE_fin (m : Mesh) (pmin pmax : List Rat) :
    region2slicesE m (pmin.map .fin) (pmax.map .fin) = region2slices m (boxRegion pmin pmax) := by
  unfold region2slicesE region2slices
  rw [List.length_map]
  have e1 : (tab m.ndim fun a => ((pmin.map ExtRat.fin).getD a (.fin 0)).addRat (m.cellAt a / 2))
      = (tab m.ndim fun a => (boxRegion pmin pmax).lo a + m.cellAt a / 2).map .fin := by
    unfold tab; rw [List.map_map]
    apply List.map_congr_left
    intro a _
    rw [getD_map_fin, addRat_fin]; rfl
  have e2 : (tab m.ndim fun a => ((pmax.map ExtRat.fin).getD a (.fin 0)).addRat (-(m.cellAt a / 2)))
      = (tab m.ndim fun a => (boxRegion pmin pmax).hi a - m.cellAt a / 2).map .fin := by
    unfold tab; rw [List.map_map]
    apply List.map_congr_left
    intro a _
    rw [getD_map_fin, addRat_fin]
    show ExtRat.fin _ = ExtRat.fin _
    congr 1
    show pmax.getD a 0 + -(m.cellAt a / 2) = pmax.getD a 0 - m.cellAt a / 2
    exact (Rat.sub_eq_add_neg _ _).symm
  rw [e1, e2, point2indexE_fin, point2indexE_fin]
  rfl

/-- `region2slices` refuses a region with a non-finite corner coordinate on one of the mesh's axes -/
theorem region2slicesE_nonfin (m : Mesh) (pmin pmax : List ExtRat) (a : Nat) (ha : a < m.ndim)
    (h : (∀ q, pmin.getD a (.fin 0) ≠ .fin q) ∨ (∀ q, pmax.getD a (.fin 0) ≠ .fin q)) :
    ∃ e, region2slicesE m pmin pmax = .error e := by
  unfold region2slicesE
  by_cases hl : pmin.length ≠ m.ndim
  · rw [if_pos hl]; exact ⟨_, rfl⟩
  · rw [if_neg hl]
    rcases h with h | h
    · obtain ⟨e, he⟩ := point2indexE_nonfin m
        (tab m.ndim fun a => (pmin.getD a (.fin 0)).addRat (m.cellAt a / 2)) a ha (by
          rw [getD_tab _ _ _ _ ha]; exact addRat_nonfin _ _ h)
      rw [he]; exact ⟨e, rfl⟩
    · cases h1 : point2indexE m (tab m.ndim fun a => (pmin.getD a (.fin 0)).addRat (m.cellAt a / 2)) with
      | error e => exact ⟨e, rfl⟩
      | ok i1 =>
        obtain ⟨e, he⟩ := point2indexE_nonfin m
          (tab m.ndim fun a => (pmax.getD a (.fin 0)).addRat (-(m.cellAt a / 2))) a ha (by
            rw [getD_tab _ _ _ _ ha]; exact addRat_nonfin _ _ h)
        simp only; rw [he]; exact ⟨e, rfl⟩

/-- `Region(p1, p2)` keeps non-finite coordinates: the corner that received one is non-finite -/
theorem boxMkE_nonfin (p1 p2 pmin pmax : List ExtRat) (h : boxMkE? p1 p2 = .ok (pmin, pmax)) (a : Nat)
    (ha : a < p1.length)
    (hx : (∀ q, p1.getD a (.fin 0) ≠ .fin q) ∨ (∀ q, p2.getD a (.fin 0) ≠ .fin q)) :
    pmin.length = p1.length ∧ pmax.length = p1.length ∧
    ((∀ q, pmin.getD a (.fin 0) ≠ .fin q) ∨ (∀ q, pmax.getD a (.fin 0) ≠ .fin q)) := by
  unfold boxMkE? at h
  split at h
  · cases h
  · split at h
    · cases h
    · split at h
      · cases h
      · injection h with h
        injection h with h1 h2
        subst h1; subst h2
        refine ⟨by rw [tab_length], by rw [tab_length], ?_⟩
        rw [getD_tab _ _ _ _ ha, getD_tab _ _ _ _ ha]
        generalize p1.getD a (.fin 0) = u at hx ⊢
        generalize p2.getD a (.fin 0) = v at hx ⊢
        cases u <;> cases v <;>
          simp only [ExtRat.minE, ExtRat.maxE, ExtRat.lt] <;>
          first
            | (exfalso; rcases hx with hx | hx <;> exact hx _ rfl)
            | (left; intro q hq; split at hq <;> exact ExtRat.noConfusion hq)
            | (right; intro q hq; split at hq <;> exact ExtRat.noConfusion hq)
            | (left; intro q hq; exact ExtRat.noConfusion hq)
            | (right; intro q hq; exact ExtRat.noConfusion hq)

end DFV.C07
