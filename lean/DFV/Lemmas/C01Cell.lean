import DFV.Lemmas.C01Tol
/-! C01 helper lemmas, round 2: the 0.1 % divisibility test of `Mesh(cell=…)` as an
equivalence ("within `t` of a whole multiple"), `round` near a whole number, uniqueness of
the whole number. -/
namespace DFV.C01
open DFV DFV.Mesh

/-- `np.round` of a number less than half away from a whole number is that number -/
theorem roundHalfEven_of_near (q : Rat) (k : Int) (h : |q - (k : Rat)| < 1/2) : roundHalfEven q = k := by
  rw [abs_lt] at h
  have hfl := rat_floor_le q
  have hfu := rat_lt_floor_add_one q
  unfold roundHalfEven
  by_cases hk : (k : Rat) ≤ q
  · have hf : q.floor = k := rat_floor_eq q k hk (by linarith)
    rw [hf, if_pos (by linarith)]
  · have hf : q.floor = k - 1 := by
      apply rat_floor_eq
      · push_cast; linarith
      · push_cast; linarith [not_le.mp hk]
    rw [hf]
    have h1 : ¬ (q - ((k - 1 : Int) : Rat) < 1/2) := by push_cast; linarith
    have h2 : 1/2 < q - ((k - 1 : Int) : Rat) := by push_cast; linarith
    rw [if_neg h1, if_pos h2]; omega

/-- the divisibility test passes exactly when the edge is within `t` of a whole multiple of the cell -/
theorem notDivisible_false_iff (e c t : Rat) (hc : 0 < c) (_ht : 0 ≤ t) (htc : t < c / 2) :
    notDivisible e c t = false ↔ ∃ k : Int, |e - (k : Rat) * c| ≤ t := by
  constructor
  · intro h
    exact ⟨roundHalfEven (e / c), round_near e c t hc _ht htc h⟩
  · rintro ⟨k, hk⟩
    rw [abs_le] at hk
    have hfl := rat_floor_le (e / c)
    have hfu := rat_lt_floor_add_one (e / c)
    have he : e = (e / c) * c := by field_simp
    unfold notDivisible remainder
    by_cases hge : (k : Rat) * c ≤ e
    · -- floor = k, remainder = e - k c ≤ t
      have hf : (e / c).floor = k := by
        apply rat_floor_eq
        · rw [le_div_iff₀ hc]; exact hge
        · rw [div_lt_iff₀ hc]; linarith
      rw [hf]
      have h2 : decide (t < e - (k : Rat) * c) = false := by
        rw [decide_eq_false_iff_not]; linarith
      rw [h2, Bool.false_and]
    · -- floor = k - 1, remainder = e - (k-1) c ≥ c - t
      have hlt := not_le.mp hge
      have hf : (e / c).floor = k - 1 := by
        apply rat_floor_eq
        · push_cast; rw [le_div_iff₀ hc]; linarith
        · push_cast; rw [div_lt_iff₀ hc]; linarith
      rw [hf]
      have h2 : decide (e - ((k - 1 : Int) : Rat) * c < c - t) = false := by
        rw [decide_eq_false_iff_not]; push_cast; linarith
      rw [h2, Bool.and_false]

/-- at most one whole number is that close -/
theorem multiple_unique (e c t : Rat) (hc : 0 < c) (htc : t < c / 2) (j k : Int)
    (hj : |e - (j : Rat) * c| ≤ t) (hk : |e - (k : Rat) * c| ≤ t) : j = k := by
  rw [abs_le] at hj hk
  have h1 : ((j : Rat) - k) * c < c := by linarith
  have h2 : ((k : Rat) - j) * c < c := by linarith
  have h3 : (j : Rat) - k < 1 := by
    by_contra hcon
    have : c ≤ ((j : Rat) - k) * c := by nlinarith [not_lt.mp hcon]
    linarith
  have h4 : (k : Rat) - j < 1 := by
    by_contra hcon
    have : c ≤ ((k : Rat) - j) * c := by nlinarith [not_lt.mp hcon]
    linarith
  have h3' : j - k < 1 := by exact_mod_cast h3
  have h4' : k - j < 1 := by exact_mod_cast h4
  omega

/-- a whole number that close is what `round(edge / cell)` returns -/
theorem round_of_multiple (e c t : Rat) (hc : 0 < c) (htc : t < c / 2) (k : Int)
    (hk : |e - (k : Rat) * c| ≤ t) : roundHalfEven (e / c) = k := by
  apply roundHalfEven_of_near
  have : e / c - (k : Rat) = (e - (k : Rat) * c) / c := by field_simp
  rw [this, abs_div, abs_of_pos hc, div_lt_iff₀ hc]
  linarith

theorem getD_mem_of_lt {α} (l : List α) (a : Nat) (d : α) (h : a < l.length) : l.getD a d ∈ l := by
  rw [List.getD_eq_getElem?_getD, List.getElem?_eq_getElem h]
  exact List.getElem_mem _

/-- **acceptance from the inputs**: a cell that is positive, not larger than the edge (up to the
region's comparison tolerance) and within `min(cell)/1000` of dividing every edge a whole number
`k ≥ 1` of times is accepted, with `n = k`. -/
theorem mkCell_accepts (r : Region) (hr : r.Inv) (ht : 0 ≤ r.tol) (cell : List Rat) (k : Nat → Nat) (bc : String)
    (hlen : cell.length = r.ndim) (hpos : ∀ c ∈ cell, 0 < c)
    (hfit : ∀ a, a < r.ndim → cell.getD a 0 - r.edge a ≤ band r (r.lo a + cell.getD a 0))
    (hk : ∀ a, a < r.ndim → 1 ≤ k a ∧ |r.edge a - (k a : Rat) * cell.getD a 0| ≤ listMin cell / 1000)
    (hbc : bcOk r.dims bc.toLower = true) :
    Mesh.mkCell? r cell bc = .ok { region := r, n := tab r.ndim k, bc := bc.toLower, subs := [] } := by
  have hc : ∀ a, a < r.ndim → 0 < cell.getD a 0 := fun a ha =>
    hpos _ (getD_mem_of_lt cell a 0 (by rw [hlen]; exact ha))
  have ht0 : 0 ≤ listMin cell / 1000 := by
    have := listMin_nonneg cell hpos; linarith
  have htc : ∀ a, a < r.ndim → listMin cell / 1000 < cell.getD a 0 / 2 := by
    intro a ha
    have := listMin_le_mem cell _ (getD_mem_of_lt cell a 0 (by rw [hlen]; exact ha))
    have := hc a ha
    linarith
  have hround : ∀ a, a < r.ndim → roundHalfEven (r.edge a / cell.getD a 0) = (k a : Int) := by
    intro a ha
    exact round_of_multiple _ _ _ (hc a ha) (htc a ha) (k a : Int) (by exact_mod_cast (hk a ha).2)
  unfold Mesh.mkCell?
  rw [if_neg (not_not.mpr hlen)]
  have h1 : cell.any (fun c => decide (c ≤ 0)) = false := by
    rw [List.any_eq_false]; intro c hcm; have := hpos c hcm; simp; exact this
  rw [h1]
  simp only [Bool.false_eq_true, if_false]
  have h2 : r.containsPt (tab r.ndim fun a => r.lo a + cell.getD a 0) = true := by
    rw [containsPt_iff r hr ht]
    refine ⟨by simp, fun a ha => ?_⟩
    rw [getD_tab _ _ _ _ ha]
    have hb := band_nonneg r hr ht (r.lo a + cell.getD a 0)
    have := hc a ha
    have := hfit a ha
    unfold Region.edge at this
    constructor <;> linarith
  rw [h2]
  simp only [Bool.not_true, Bool.false_eq_true, if_false]
  have h3 : allLt r.ndim (fun a => !notDivisible (r.edge a) (cell.getD a 0) (listMin cell / 1000)) = true := by
    rw [allLt_iff]; intro a ha
    have := (notDivisible_false_iff (r.edge a) (cell.getD a 0) (listMin cell / 1000) (hc a ha) ht0 (htc a ha)).mpr
      ⟨(k a : Int), by exact_mod_cast (hk a ha).2⟩
    rw [this]; rfl
  rw [h3]
  simp only [Bool.not_true, Bool.false_eq_true, if_false]
  have h3b : allLt r.ndim (fun a => decide (1 ≤ (roundHalfEven (r.edge a / cell.getD a 0)).toNat)) = true := by
    rw [allLt_iff]; intro a ha
    rw [hround a ha]
    simp only [Int.toNat_natCast, decide_eq_true_eq]
    exact (hk a ha).1
  rw [h3b]
  simp only [Bool.not_true, Bool.false_eq_true, if_false]
  rw [hbc]
  simp only [Bool.not_true, Bool.false_eq_true, if_false]
  have h5 : (tab r.ndim fun a => (roundHalfEven (r.edge a / cell.getD a 0)).toNat) = tab r.ndim k := by
    apply tab_congr; intro a ha
    rw [hround a ha]; simp
  rw [h5]

end DFV.C01
