import Mathlib.Tactic.Ring
import Mathlib.Tactic.Linarith
import Mathlib.Tactic.FieldSimp
import Mathlib.Tactic.Push
import Mathlib.Tactic.NormNum
import Mathlib.Data.Rat.Cast.CharZero
import DFV.Model.C19
import Mathlib.Tactic.LinearCombination
import DFV.Lemmas.RatFloor
/-! helper lemmas for C19: the Newell functions evaluated in any field of characteristic 0 -/
namespace DFV.C19
open DFV
variable {K : Type} [Field K] [CharZero K]

def evalK (lv : Leaf → K) : List Term → K
  | [] => 0
  | t :: ts => (t.coef : K) * lv t.leaf + evalK lv ts

omit [CharZero K] in
theorem evalK_append (lv : Leaf → K) (a b : List Term) : evalK lv (a ++ b) = evalK lv a + evalK lv b := by
  induction a with
  | nil => simp [evalK]
  | cons t ts ih => simp only [List.cons_append, evalK, ih]; ring

theorem evalK_scale (lv : Leaf → K) (s : Rat) (ts : List Term) : evalK lv (scaleTerms s ts) = (s : K) * evalK lv ts := by
  induction ts with
  | nil => simp [scaleTerms, evalK]
  | cons t ts ih =>
    simp only [scaleTerms, List.map_cons, evalK] at *
    rw [ih]; push_cast; ring

theorem evalK_flatMap_scale {α : Type} (lv : Leaf → K) (l : List α) (s : α → Rat) (g : α → List Term) :
    evalK lv (l.flatMap fun i => scaleTerms (s i) (g i)) = (l.map fun i => ((s i : Rat) : K) * evalK lv (g i)).sum := by
  induction l with
  | nil => simp [evalK]
  | cons a l ih => simp only [List.flatMap_cons, evalK_append, evalK_scale, ih, List.map_cons, List.sum_cons]

/-- for `K = ℚ` and leaf values given by leaf functions this is the model's `evalTerms` -/
theorem evalK_rat (asinh atan sqrt : Rat → Rat) (ts : List Term) :
    evalK (K := Rat) (evalLeaf asinh atan sqrt) ts = evalTerms asinh atan sqrt ts := by
  induction ts with
  | nil => simp [evalK, evalTerms, lsum]
  | cons t ts ih =>
    simp only [evalK, evalTerms, List.map_cons, lsum] at *
    rw [ih]; simp

/-- the pointwise trace of the Newell function `f`: the arcsinh and the square-root terms
cancel, whatever the leaves are -/
theorem newellF_trace (lv : Leaf → K) (x y z : Rat) :
    evalK lv (newellF x y z) + evalK lv (newellF y z x) + evalK lv (newellF z x y)
      = -((absR (x * y * z) : Rat) : K) *
          (lv (.atan (absR (y * z)) (absR x) (x ^ 2 + y ^ 2 + z ^ 2)) +
           lv (.atan (absR (z * x)) (absR y) (x ^ 2 + y ^ 2 + z ^ 2)) +
           lv (.atan (absR (x * y)) (absR z) (x ^ 2 + y ^ 2 + z ^ 2))) := by
  simp only [newellF, evalK]
  rw [show y ^ 2 + z ^ 2 + x ^ 2 = x ^ 2 + y ^ 2 + z ^ 2 by ring, show z ^ 2 + x ^ 2 + y ^ 2 = x ^ 2 + y ^ 2 + z ^ 2 by ring,
    show y ^ 2 + x ^ 2 = x ^ 2 + y ^ 2 by ring, show z ^ 2 + x ^ 2 = x ^ 2 + z ^ 2 by ring,
    show z ^ 2 + y ^ 2 = y ^ 2 + z ^ 2 by ring, show y * z * x = x * y * z by ring, show z * x * y = x * y * z by ring]
  push_cast
  ring

theorem stencil_eq : stencil = [[0,0,0,0,0,0],[0,0,0,0,0,1],[0,0,0,0,1,0],[0,0,0,0,1,1],[0,0,0,1,0,0],[0,0,0,1,0,1],[0,0,0,1,1,0],[0,0,0,1,1,1],
  [0,0,1,0,0,0],[0,0,1,0,0,1],[0,0,1,0,1,0],[0,0,1,0,1,1],[0,0,1,1,0,0],[0,0,1,1,0,1],[0,0,1,1,1,0],[0,0,1,1,1,1],
  [0,1,0,0,0,0],[0,1,0,0,0,1],[0,1,0,0,1,0],[0,1,0,0,1,1],[0,1,0,1,0,0],[0,1,0,1,0,1],[0,1,0,1,1,0],[0,1,0,1,1,1],
  [0,1,1,0,0,0],[0,1,1,0,0,1],[0,1,1,0,1,0],[0,1,1,0,1,1],[0,1,1,1,0,0],[0,1,1,1,0,1],[0,1,1,1,1,0],[0,1,1,1,1,1],
  [1,0,0,0,0,0],[1,0,0,0,0,1],[1,0,0,0,1,0],[1,0,0,0,1,1],[1,0,0,1,0,0],[1,0,0,1,0,1],[1,0,0,1,1,0],[1,0,0,1,1,1],
  [1,0,1,0,0,0],[1,0,1,0,0,1],[1,0,1,0,1,0],[1,0,1,0,1,1],[1,0,1,1,0,0],[1,0,1,1,0,1],[1,0,1,1,1,0],[1,0,1,1,1,1],
  [1,1,0,0,0,0],[1,1,0,0,0,1],[1,1,0,0,1,0],[1,1,0,0,1,1],[1,1,0,1,0,0],[1,1,0,1,0,1],[1,1,0,1,1,0],[1,1,0,1,1,1],
  [1,1,1,0,0,0],[1,1,1,0,0,1],[1,1,1,0,1,0],[1,1,1,0,1,1],[1,1,1,1,0,0],[1,1,1,1,0,1],[1,1,1,1,1,0],[1,1,1,1,1,1]] := by
  decide

def w3 (g : Rat → K) : K := 2 * g 0 - g 1 - g (-1)

omit [CharZero K] in
theorem stencil_collapse (H : Rat → Rat → Rat → K) :
    (stencil.map fun i => ((sgn i : Rat) : K) * H (((i.getD 0 0 : Nat) : Rat) - ((i.getD 3 0 : Nat) : Rat))
      (((i.getD 1 0 : Nat) : Rat) - ((i.getD 4 0 : Nat) : Rat)) (((i.getD 2 0 : Nat) : Rat) - ((i.getD 5 0 : Nat) : Rat))).sum
    = w3 fun a => w3 fun b => w3 fun c => H a b c := by
  rw [stencil_eq]
  simp only [List.map_cons, List.map_nil, List.sum_cons, List.sum_nil, sgn, List.foldl_cons, List.foldl_nil,
    List.getD_cons_zero, List.getD_cons_succ, w3]
  norm_num
  ring

theorem evalK_stencilSum (lv : Leaf → K) (fn : Rat → Rat → Rat → List Term) (x y z dx dy dz : Rat) :
    evalK lv (stencilSum fn x y z dx dy dz)
      = w3 fun a => w3 fun b => w3 fun c => evalK lv (fn (x + a * dx) (y + b * dy) (z + c * dz)) := by
  unfold stencilSum
  rw [evalK_flatMap_scale]
  exact stencil_collapse (fun a b c => evalK lv (fn (x + a * dx) (y + b * dy) (z + c * dz)))

theorem absR_mul (x y : Rat) : absR (x * y) = absR x * absR y := by
  rw [absR_eq_abs, absR_eq_abs, absR_eq_abs, abs_mul]

theorem absR_sq (x : Rat) : absR x ^ 2 = x ^ 2 := by
  rw [absR_eq_abs, sq_abs]

theorem absR_pos (x : Rat) (h : x ≠ 0) : 0 < absR x := by
  rw [absR_eq_abs]; exact abs_pos.mpr h

/-- pointwise trace with the three arctangents summed to `P` -/
theorem point_trace (lv : Leaf → K) (P : K)
    (hat : ∀ a b c : Rat, 0 < a → 0 < b → 0 < c →
      lv (.atan (b * c) a (a ^ 2 + b ^ 2 + c ^ 2)) + lv (.atan (c * a) b (a ^ 2 + b ^ 2 + c ^ 2)) +
      lv (.atan (a * b) c (a ^ 2 + b ^ 2 + c ^ 2)) = P) (x y z : Rat) :
    evalK lv (newellF x y z) + evalK lv (newellF y z x) + evalK lv (newellF z x y)
      = -((absR x * absR y * absR z : Rat) : K) * P := by
  rw [newellF_trace]
  by_cases h0 : x * y * z = 0
  · have e : absR x * absR y * absR z = 0 := by rw [← absR_mul, ← absR_mul, h0]; simp [absR]
    rw [h0, e]; simp [absR]
  · have hx : x ≠ 0 := fun h => h0 (by rw [h]; ring)
    have hy : y ≠ 0 := fun h => h0 (by rw [h]; ring)
    have hz : z ≠ 0 := fun h => h0 (by rw [h]; ring)
    have := hat (absR x) (absR y) (absR z) (absR_pos x hx) (absR_pos y hy) (absR_pos z hz)
    rw [absR_sq, absR_sq, absR_sq, ← absR_mul, ← absR_mul, ← absR_mul] at this
    rw [this, absR_mul, absR_mul]

/-- second difference of `|·|` with the offsets spelled as in the stencil -/
def d2abs (x d : Rat) : Rat := w3 (K := Rat) fun a => absR (x + a * d)

/-- the 64-point stencil sums of the three diagonal components add up to `−P` times the
product of the three second differences of `|·|` -/
theorem trace_stencil (lv : Leaf → K) (P : K)
    (hat : ∀ a b c : Rat, 0 < a → 0 < b → 0 < c →
      lv (.atan (b * c) a (a ^ 2 + b ^ 2 + c ^ 2)) + lv (.atan (c * a) b (a ^ 2 + b ^ 2 + c ^ 2)) +
      lv (.atan (a * b) c (a ^ 2 + b ^ 2 + c ^ 2)) = P) (x y z dx dy dz : Rat) :
    evalK lv (stencilSum newellF x y z dx dy dz) + evalK lv (stencilSum newellF y z x dy dz dx)
        + evalK lv (stencilSum newellF z x y dz dx dy)
      = -P * ((d2abs x dx * d2abs y dy * d2abs z dz : Rat) : K) := by
  have h := fun a b c : Rat => point_trace lv P hat (x + a * dx) (y + b * dy) (z + c * dz)
  rw [evalK_stencilSum, evalK_stencilSum, evalK_stencilSum]
  simp only [w3, d2abs]
  push_cast at h ⊢
  linear_combination
    (8 : K) * h 0 0 0 +
    (-4 : K) * h 0 0 1 +
    (-4 : K) * h 0 0 (-1) +
    (-4 : K) * h 0 1 0 +
    (2 : K) * h 0 1 1 +
    (2 : K) * h 0 1 (-1) +
    (-4 : K) * h 0 (-1) 0 +
    (2 : K) * h 0 (-1) 1 +
    (2 : K) * h 0 (-1) (-1) +
    (-4 : K) * h 1 0 0 +
    (2 : K) * h 1 0 1 +
    (2 : K) * h 1 0 (-1) +
    (2 : K) * h 1 1 0 +
    (-1 : K) * h 1 1 1 +
    (-1 : K) * h 1 1 (-1) +
    (2 : K) * h 1 (-1) 0 +
    (-1 : K) * h 1 (-1) 1 +
    (-1 : K) * h 1 (-1) (-1) +
    (-4 : K) * h (-1) 0 0 +
    (2 : K) * h (-1) 0 1 +
    (2 : K) * h (-1) 0 (-1) +
    (2 : K) * h (-1) 1 0 +
    (-1 : K) * h (-1) 1 1 +
    (-1 : K) * h (-1) 1 (-1) +
    (2 : K) * h (-1) (-1) 0 +
    (-1 : K) * h (-1) (-1) 1 +
    (-1 : K) * h (-1) (-1) (-1)

/-- on the grid `x = i·d`, `d > 0`, the second difference of `|·|` is `−2d` at `i = 0` and 0 elsewhere -/
theorem d2abs_grid (i : Int) (d : Rat) (hd : 0 < d) : d2abs ((i : Rat) * d) d = if i = 0 then -2 * d else 0 := by
  unfold d2abs w3
  simp only [absR_eq_abs]
  rcases lt_trichotomy i 0 with h | h | h
  · have hi : (i : Rat) ≤ -1 := by exact_mod_cast (by omega : i ≤ -1)
    have hne : ¬ i = 0 := by omega
    rw [abs_of_nonpos (by nlinarith), abs_of_nonpos (by nlinarith), abs_of_nonpos (by nlinarith)]
    simp only [hne, if_false]; ring
  · subst h
    have e1 : ((0 : Int) : Rat) * d + 0 * d = 0 := by simp
    have e2 : ((0 : Int) : Rat) * d + 1 * d = d := by simp
    have e3 : ((0 : Int) : Rat) * d + -1 * d = -d := by simp
    rw [e1, e2, e3, abs_zero, abs_of_pos hd, abs_neg, abs_of_pos hd]
    simp; ring
  · have hi : (1 : Rat) ≤ (i : Rat) := by exact_mod_cast (by omega : 1 ≤ i)
    have hne : ¬ i = 0 := by omega
    rw [abs_of_nonneg (by nlinarith), abs_of_nonneg (by nlinarith), abs_of_nonneg (by nlinarith)]
    simp only [hne, if_false]; ring

/-- sum of the three diagonal components of `_N` at displacement `(x,y,z)` -/
def traceK (lv : Leaf → K) (pi c0 c1 c2 x y z : Rat) : K :=
  evalK lv ((nAll pi c0 c1 c2 x y z).getD 0 []) + evalK lv ((nAll pi c0 c1 c2 x y z).getD 1 [])
    + evalK lv ((nAll pi c0 c1 c2 x y z).getD 2 [])

/-- real-space trace of the demagnetisation tensor at grid displacement `(i·c0, j·c1, k·c2)`:
`−(2P/π)` at the origin, 0 elsewhere (`P` = the value of the arctangent sum, `π/2` for the real arctangent) -/
theorem trace_grid (lv : Leaf → K) (P : K) (pi c0 c1 c2 : Rat) (hpi : pi ≠ 0) (h0 : 0 < c0) (h1 : 0 < c1) (h2 : 0 < c2)
    (hat : ∀ a b c : Rat, 0 < a → 0 < b → 0 < c →
      lv (.atan (b * c) a (a ^ 2 + b ^ 2 + c ^ 2)) + lv (.atan (c * a) b (a ^ 2 + b ^ 2 + c ^ 2)) +
      lv (.atan (a * b) c (a ^ 2 + b ^ 2 + c ^ 2)) = P) (i j k : Int) :
    traceK lv pi c0 c1 c2 ((i : Rat) * c0) ((j : Rat) * c1) ((k : Rat) * c2)
      = if i = 0 ∧ j = 0 ∧ k = 0 then -(2 * P / (pi : K)) else 0 := by
  unfold traceK nAll nElement
  simp only [List.getD_cons_zero, List.getD_cons_succ, evalK_scale]
  rw [← mul_add, ← mul_add, trace_stencil lv P hat, d2abs_grid i c0 h0, d2abs_grid j c1 h1, d2abs_grid k c2 h2]
  have hpiK : (pi : K) ≠ 0 := by exact_mod_cast hpi
  have hc0 : (c0 : K) ≠ 0 := by exact_mod_cast h0.ne'
  have hc1 : (c1 : K) ≠ 0 := by exact_mod_cast h1.ne'
  have hc2 : (c2 : K) ≠ 0 := by exact_mod_cast h2.ne'
  by_cases hi : i = 0 <;> by_cases hj : j = 0 <;> by_cases hk : k = 0 <;>
    simp only [hi, hj, hk, if_true, if_false, and_self, and_true, and_false,
      mul_zero, zero_mul, Rat.cast_zero]
  push_cast
  field_simp
  ring

end DFV.C19
