import DFV.Lemmas.C19Quarter
import DFV.Lemmas.C19Real
/-!
# C19 — the Berg–Lüscher density with the leaf `Ω` valued in any field of characteristic 0, and
its instantiation with the REAL formula `omegaR` (`2·Im log((1+Σd + i t)/ρ)/(4π)` over ℝ/ℂ).

The model's `tcdBLAt` is the case `K = ℚ`.  For `K = ℝ`, `Ω = omegaR` the reversal theorem needs no
hypothesis on the leaf any more (`omegaR_flip`).
-/
namespace DFV.C19
open DFV

section generic
variable {K : Type} [Field K] [CharZero K]

/-- `util.bergluescher_angle` with a `K`-valued leaf -/
def blAngleK (Om : Tri → K) (tr : Tri) : K := if tr.t = 0 then 0 else Om tr

/-- Berg–Lüscher density of cell `(i, j)` with a `K`-valued leaf (same triangles, same area, same count) -/
def tcdBLAtK (Om : Tri → K) (o : Fld) (i j : Nat) : K :=
  if o.valid.get [i, j] then
    if 0 < (triangles o i j).length then
      ((triangles o i j).map (blAngleK Om)).sum / (((triArea o.mesh : Rat) : K) * ((triangles o i j).length : K))
    else 0
  else 0

omit [CharZero K] in
theorem tcdBLAtK_rotF (Om : Tri → K) (q : M3) (h : q.IsRot) (o : Fld) (i j : Nat) :
    tcdBLAtK Om (rotF q o) i j = tcdBLAtK Om o i j := by
  unfold tcdBLAtK
  rw [triangles_rotF q h]
  rfl

omit [CharZero K] in
theorem blAngleK_flip (Om : Tri → K) (hOm : ∀ tr, tr.t ≠ 0 → Om (flipT tr) = -Om tr) (tr : Tri) :
    blAngleK Om (flipT tr) = -blAngleK Om tr := by
  unfold blAngleK
  by_cases h : tr.t = 0
  · simp [flipT, h]
  · have h' : ¬ (flipT tr).t = 0 := by simpa [flipT] using h
    simp only [h, h', if_false]
    exact hOm tr h

omit [CharZero K] in
theorem sum_map_neg {α} (l : List α) (g : α → K) : (l.map fun x => -g x).sum = -(l.map g).sum := by
  induction l with
  | nil => simp
  | cons x xs ih => simp only [List.map_cons, List.sum_cons, ih]; ring

omit [CharZero K] in
theorem tcdBLAtK_negF (Om : Tri → K) (hOm : ∀ tr, tr.t ≠ 0 → Om (flipT tr) = -Om tr) (o : Fld) (i j : Nat) :
    tcdBLAtK Om (negF o) i j = -tcdBLAtK Om o i j := by
  unfold tcdBLAtK
  rw [triangles_negF]
  show (if o.valid.get [i, j] = true then _ else _) = _
  simp only [List.length_map, List.map_map]
  have e : (blAngleK Om ∘ flipT) = fun tr => -blAngleK Om tr := by
    funext tr; exact blAngleK_flip Om hOm tr
  rw [e, sum_map_neg]
  show _ = -(if o.valid.get [i, j] = true then _ else _)
  have ha : triArea (negF o).mesh = triArea o.mesh := rfl
  rw [ha]
  split
  · split
    · ring
    · simp
  · simp

omit [CharZero K] in
theorem tcdBLAtK_uniform (Om : Tri → K) (o : Fld) (u : V3) (hu : ∀ i, cellV o i = u) (i j : Nat) :
    tcdBLAtK Om o i j = 0 := by
  obtain ⟨hE, hN, hW, hS⟩ := nb_uniform o u hu i j
  have hall : ∀ tr ∈ triangles o i j, tr.t = 0 := by
    intro tr htr
    unfold triangles at htr
    rw [hu [i, j]] at htr
    simp only [List.mem_append] at htr
    rcases htr with ((h | h) | h) | h
    · exact tri?_t_zero_of_same u _ _ hE hN tr h
    · exact tri?_t_zero_of_same u _ _ hN hW tr h
    · exact tri?_t_zero_of_same u _ _ hW hS tr h
    · exact tri?_t_zero_of_same u _ _ hS hE tr h
  have hs : ((triangles o i j).map (blAngleK Om)).sum = 0 := by
    apply List.sum_eq_zero
    intro x hx
    obtain ⟨tr, htr, rfl⟩ := List.mem_map.mp hx
    simp [blAngleK, hall tr htr]
  unfold tcdBLAtK
  rw [hs]
  split
  · split
    · simp
    · rfl
  · rfl

omit [CharZero K] in
/-- quarter turn of the sample: the same triangles are summed, in rotated order -/
theorem tcdBLAtK_turn (Om : Tri → K) {o g : Fld} (h : SpTurn o g) (i j : Nat) (hi : i < o.mesh.nAt 1) (hj : j < o.mesh.nAt 0) :
    tcdBLAtK Om g i j = tcdBLAtK Om o j (o.mesh.nAt 1 - 1 - i) := by
  have ha : triArea g.mesh = triArea o.mesh := by
    unfold triArea; rw [h.c0, h.c1]; ring
  have hs : ((triangles g i j).map (blAngleK Om)).sum = ((triangles o j (o.mesh.nAt 1 - 1 - i)).map (blAngleK Om)).sum := by
    rw [triangles_turn h i j hi hj]
    unfold triangles
    simp only [List.map_append, List.sum_append]
    ring
  have hl : (triangles g i j).length = (triangles o j (o.mesh.nAt 1 - 1 - i)).length := by
    rw [triangles_turn h i j hi hj]
    unfold triangles
    simp only [List.length_append]
    omega
  unfold tcdBLAtK
  rw [h.ok i j hi hj, ha, hs, hl]

/-- mesh scaling by `lam` and translation: the density is divided by `lam²` -/
theorem tcdBLAtK_affF (Om : Tri → K) (lam : Rat) (t : List Rat) (o : Fld) (h2 : o.mesh.ndim = 2) (i j : Nat) :
    tcdBLAtK Om (affF lam t o) i j = tcdBLAtK Om o i j / ((lam : K) * (lam : K)) := by
  have ht : triangles (affF lam t o) i j = triangles o i j := rfl
  have ha : triArea (affF lam t o).mesh = lam * lam * triArea o.mesh := by
    unfold triArea
    show 1 / 2 * (affMesh lam t o.mesh).cellAt 0 * (affMesh lam t o.mesh).cellAt 1 = _
    rw [affMesh_cellAt lam t o.mesh 0 (Or.inl (by omega)), affMesh_cellAt lam t o.mesh 1 (Or.inl (by omega))]
    ring
  unfold tcdBLAtK
  rw [ht, ha]
  show (if o.valid.get [i, j] = true then _ else _) = _
  split
  · split
    · push_cast; rw [div_div]; congr 1; ring
    · simp
  · simp

end generic

/-- the model's density is the case `K = ℚ` -/
theorem tcdBLAt_eq_K (Om : Tri → Rat) (o : Fld) (i j : Nat) : tcdBLAt Om o i j = tcdBLAtK (K := Rat) Om o i j := by
  unfold tcdBLAt tcdBLAtK
  have e : ∀ l : List Tri, lsum (l.map (blAngle Om)) = (l.map (blAngleK Om)).sum := by
    intro l
    induction l with
    | nil => rfl
    | cons x xs ih => simp only [List.map_cons, lsum, List.sum_cons, ih]; rfl
  rw [e]
  simp

/-! ## the real Berg–Lüscher density -/

/-- the Berg–Lüscher density value of cell `i` of `field` with the REAL solid-angle formula -/
noncomputable def tcdBLReal (sq : Rat → Rat) (f : Fld) (i : List Nat) : ℝ :=
  tcdBLAtK omegaR (orientation sq f) (i.getD 0 0) (i.getD 1 0)

theorem tcdBLReal_rotF (sq : Rat → Rat) (q : M3) (hq : q.IsRot) (f : Fld) (i : List Nat) :
    tcdBLReal sq (rotF q f) i = tcdBLReal sq f i := by
  unfold tcdBLReal
  rw [orientation_rotF sq q hq.1, tcdBLAtK_rotF omegaR q hq]

theorem tcdBLReal_negF (sq : Rat → Rat) (f : Fld) (i : List Nat) : tcdBLReal sq (negF f) i = -tcdBLReal sq f i := by
  unfold tcdBLReal
  rw [orientation_negF, tcdBLAtK_negF omegaR omegaR_flip]

theorem tcdBLReal_uniform (sq : Rat → Rat) (f : Fld) (v : V3) (hu : uniformF f v) (i : List Nat) : tcdBLReal sq f i = 0 :=
  tcdBLAtK_uniform omegaR _ (orient sq v) (orientation_uniform sq f v hu) _ _

theorem tcdBLReal_turn (sq : Rat → Rat) (Q : M3) (hQ : Q.IsRot) {f g : Fld} (h : QTurn Q f g) (i j : Nat)
    (hi : i < f.mesh.nAt 1) (hj : j < f.mesh.nAt 0) :
    tcdBLReal sq g [i, j] = tcdBLReal sq f [j, f.mesh.nAt 1 - 1 - i] := by
  show tcdBLAtK omegaR (orientation sq g) i j = tcdBLAtK omegaR (orientation sq f) j (f.mesh.nAt 1 - 1 - i)
  rw [tcdBLAtK_turn omegaR (h.orientation sq) i j hi hj, orientation_rotF sq Q hQ.1, tcdBLAtK_rotF omegaR Q hQ]
  rfl

theorem tcdBLReal_affF (sq : Rat → Rat) (lam : Rat) (t : List Rat) (f : Fld) (h2 : f.mesh.ndim = 2) (i : List Nat) :
    tcdBLReal sq (affF lam t f) i = tcdBLReal sq f i / ((lam : ℝ) * (lam : ℝ)) := by
  unfold tcdBLReal
  rw [orientation_affF, tcdBLAtK_affF omegaR lam t _ (by exact h2)]

/-- one triangle covers at most half the sphere: the real Berg–Lüscher angle lies in `(−1/2, 1/2]`
(in units of the full sphere) whenever `ρ > 0` -/
theorem omegaR_range (tr : Tri) (hρ : 0 < 2 * (1 + (tr.d12 : ℝ)) * (1 + tr.d23) * (1 + tr.d31)) :
    -(1 / 2 : ℝ) < omegaR tr ∧ omegaR tr ≤ 1 / 2 := by
  rw [omegaR_eq_arg tr hρ]
  have h1 := Complex.neg_pi_lt_arg (⟨1 + (tr.d12 : ℝ) + tr.d23 + tr.d31, (tr.t : ℝ)⟩ : ℂ)
  have h2 := Complex.arg_le_pi (⟨1 + (tr.d12 : ℝ) + tr.d23 + tr.d31, (tr.t : ℝ)⟩ : ℂ)
  have hp := Real.pi_pos
  constructor
  · rw [lt_div_iff₀ (by positivity)]; nlinarith
  · rw [div_le_iff₀ (by positivity)]; nlinarith

end DFV.C19
