import DFV.Lemmas.C20Img
/-!
C20 helper lemmas, second part: invariants from the Boolean checkers, label lookups,
`max` of optional multipliers, arrow arrays, lightness inversion.
-/
namespace DFV.C20
open DFV

/-! ## invariants -/

theorem region_inv_of_invB (r : Region) (h : r.invB = true) : r.Inv := by
  unfold Region.invB at h
  simp only [Bool.and_eq_true, decide_eq_true_eq, Bool.not_eq_true'] at h
  obtain ⟨⟨⟨⟨⟨h1, h2⟩, h3⟩, h4⟩, h5⟩, h6⟩ := h
  refine ⟨h1, h2, h3, h4, h5, ?_⟩
  intro a ha
  have := (allLt_iff _ _).mp h6 a ha
  simpa using this

theorem mesh_inv_of_invB (m : Mesh) (h : m.invB = true) : m.Inv := by
  unfold Mesh.invB at h
  simp only [Bool.and_eq_true, decide_eq_true_eq] at h
  obtain ⟨⟨h1, h2⟩, h3⟩ := h
  refine ⟨region_inv_of_invB _ h1, h2, ?_⟩
  intro a ha
  have := (allLt_iff _ _).mp h3 a ha
  simpa using this

/-! ## label lookups -/

theorem indexOf_go_spec (xs : List String) (x : String) (s k : Nat) (h : indexOf?.go x xs s = some k) :
    s ≤ k ∧ xs.getD (k - s) "" = x := by
  induction xs generalizing s with
  | nil => simp [indexOf?.go] at h
  | cons y ys ih =>
    unfold indexOf?.go at h
    split at h
    · rename_i hy
      injection h with h
      subst h
      simp [hy]
    · obtain ⟨h1, h2⟩ := ih (s + 1) h
      refine ⟨by omega, ?_⟩
      have : k - s = (k - (s + 1)) + 1 := by omega
      rw [this]
      simpa using h2

/-- `vdims.index(label) = k` : the `k`-th label is `label` -/
theorem indexOf_spec (xs : List String) (x : String) (k : Nat) (h : indexOf? xs x = some k) :
    xs.getD k "" = x := by
  have := (indexOf_go_spec xs x 0 k h).2
  simpa using this

/-- `_r_dim_mapping[dim] = label` : the mapping sends `label` to `dim` -/
theorem rDimLast_mem (f : Fld) (d l : String) (h : rDimLast f d = some l) : (l, d) ∈ f.vmap := by
  unfold rDimLast at h
  cases hf : f.vmap.reverse.find? (fun p => p.2 == d) with
  | none => rw [hf] at h; cases h
  | some q =>
    rw [hf] at h
    have hm : q ∈ f.vmap := by simpa using List.mem_of_find?_eq_some hf
    have hp := List.find?_some hf
    have h1 : q.1 = l := by simpa using h
    have h2 : q.2 = d := by simpa using hp
    have : q = (l, d) := by rw [← h1, ← h2]
    rw [← this]; exact hm

theorem arrowIdx_some_inv (f : Fld) (l : Option String) (k : Nat) (h : arrowIdx f l = .ok (some k)) :
    ∃ s vs, l = some s ∧ s ≠ "" ∧ f.vdims = some vs ∧ vs.getD k "" = s := by
  unfold arrowIdx at h
  split at h
  · cases h
  · rename_i s
    split at h
    · cases h
    · rename_i hs
      split at h
      · cases h
      · rename_i vs hvs
        split at h
        · cases h
        · rename_i c hc
          injection h with h
          injection h with h
          subst h
          exact ⟨s, vs, rfl, hs, hvs, indexOf_spec vs s c hc⟩

theorem arrowIdx_none_inv (f : Fld) (l : Option String) (h : arrowIdx f l = .ok none) :
    l = none ∨ l = some "" := by
  unfold arrowIdx at h
  split at h
  · left; rfl
  · rename_i s
    split at h
    · rename_i hs; right; rw [hs]
    · split at h
      · cases h
      · split at h
        · cases h
        · cases h

/-! ## arrow / colour arrays -/

theorem arrowArr_shape (f : Fld) (keep : NDA Bool) (k : Option Nat) :
    (arrowArr f keep k).shape = [f.mesh.nAt 1, f.mesh.nAt 0] := by
  cases k <;> simp only [arrowArr, imgOf_shape] <;> rfl

theorem arrowArr_some_get (f : Fld) (hn : f.mesh.n.length = 2) (keep : NDA Bool) (k r c : Nat) :
    (arrowArr f keep (some k)).get [r, c] =
      if keep.get [c, r] then some ((f.data.get [c, r]).getD k 0) else none := by
  simp only [arrowArr]
  rw [imgOf_get _ hn]

theorem arrowArr_none_get (f : Fld) (hn : f.mesh.n.length = 2) (keep : NDA Bool) (r c : Nat) :
    (arrowArr f keep none).get [r, c] = some 0 := by
  simp only [arrowArr]
  rw [imgOf_get _ hn]
  simp

/-! ## `max` of optional multipliers -/

theorem maxOpt_ok (l : List (Option Rat)) (m : Rat) (h : maxOpt l = .ok m) :
    some m ∈ l ∧ ∀ x ∈ l, ∃ a, x = some a ∧ a ≤ m := by
  induction l generalizing m with
  | nil => simp [maxOpt] at h
  | cons x xs ih =>
    cases x with
    | none => simp [maxOpt] at h
    | some a =>
      cases xs with
      | nil =>
        simp only [maxOpt] at h
        injection h with h
        subst h
        simp
      | cons y ys =>
        simp only [maxOpt] at h
        split at h
        · cases h
        · rename_i b hb
          injection h with h
          obtain ⟨hmem, hall⟩ := ih b hb
          subst h
          constructor
          · rcases le_total a b with hab | hab
            · rw [max_eq_right hab]; exact List.mem_cons_of_mem _ hmem
            · rw [max_eq_left hab]; exact List.mem_cons_self
          · intro x hx
            rcases List.mem_cons.mp hx with rfl | hx
            · exact ⟨a, rfl, le_max_left _ _⟩
            · obtain ⟨c, hc, hcb⟩ := hall x hx
              exact ⟨c, hc, le_trans hcb (le_max_right _ _)⟩

theorem maxOpt_total (l : List (Option Rat)) (hne : l ≠ []) (h : ∀ x ∈ l, ∃ a, x = some a) :
    ∃ m, maxOpt l = .ok m := by
  induction l with
  | nil => exact absurd rfl hne
  | cons x xs ih =>
    obtain ⟨a, rfl⟩ := h x List.mem_cons_self
    cases xs with
    | nil => exact ⟨a, rfl⟩
    | cons y ys =>
      obtain ⟨b, hb⟩ := ih (by simp) (fun z hz => h z (List.mem_cons_of_mem _ hz))
      exact ⟨max a b, by simp only [maxOpt, hb]⟩

/-! ## lightness -/

theorem lightCore_ok_inv (f : Fld) (o : Opts) (hue : List Nat → Hue) (dflt : NDA Rat) (flt : Fld)
    (calls : List PlotCall) (h : lightCore f o hue dflt flt = .ok calls) :
    ∃ m ext l keep lab, setupMultiplier f o.mult = .ok m ∧ extent f.mesh.region m = .ok ext ∧
      lightSrc f o.aux dflt = .ok l ∧ filterKeep f flt = .ok keep ∧
      axisLabels f.mesh.region m = .ok lab ∧
      calls = [.imshowHL (imgOf f.mesh.n keep fun i =>
                  (hue i, normalise (ndaMin ⟨f.mesh.n, l.get⟩) (ndaMax ⟨f.mesh.n, l.get⟩)
                            (o.clim.getD (0, 1)) (l.get i))) "lower" ext, lab] := by
  unfold lightCore at h
  split at h
  · cases h
  · rename_i m hm
    split at h
    · cases h
    · rename_i ext he
      split at h
      · cases h
      · rename_i l hl
        split at h
        · cases h
        · rename_i keep hk
          split at h
          · cases h
          · rename_i lab hlab
            injection h with h
            exact ⟨m, ext, l, keep, lab, hm, he, hl, hk, hlab, h.symm⟩

theorem angleComps_ok_inv (f : Fld) (cx cy : Nat) (h : angleComps f = .ok (cx, cy)) :
    ∃ lx ly, rDimLast f (f.mesh.region.dims.getD 0 "") = some lx ∧
      rDimLast f (f.mesh.region.dims.getD 1 "") = some ly ∧
      f.vdimIndex lx = some cx ∧ f.vdimIndex ly = some cy := by
  unfold angleComps at h
  split at h
  · rename_i lx ly hx hy
    split at h
    · rename_i a b ha hb
      injection h with h
      injection h with h1 h2
      subst h1; subst h2
      exact ⟨lx, ly, hx, hy, ha, hb⟩
    · cases h
  · cases h
  · cases h

theorem vdimIndex_spec (f : Fld) (l : String) (k : Nat) (h : f.vdimIndex l = some k) :
    ∃ vs, f.vdims = some vs ∧ vs.getD k "" = l := by
  unfold Fld.vdimIndex at h
  split at h
  · cases h
  · rename_i vs hvs
    exact ⟨vs, hvs, indexOf_spec vs l k h⟩

/-! ## colour argument -/

theorem thirdComp_single (f : Fld) (vd : List (Option String)) (l : String) (pick k : Nat)
    (hleft : leftover f vd = [l]) (hk : f.vdimIndex l = some k) : thirdComp f vd pick = .ok k := by
  unfold thirdComp
  rw [hleft]
  simp [Nat.mod_one, hk]

theorem thirdComp_single_none (f : Fld) (vd : List (Option String)) (l : String) (pick : Nat)
    (hleft : leftover f vd = [l]) (hk : f.vdimIndex l = none) : thirdComp f vd pick = .error .value := by
  unfold thirdComp
  rw [hleft]
  simp [Nat.mod_one, hk]

theorem colourOf_aux (f g : Fld) (o : Opts) (vd : List (Option String)) (huse : o.useColor = true)
    (haux : o.aux = some g) :
    colourOf f o vd =
      if g.nvdim ≠ 1 then .error .value
      else if g.mesh.region.ndim ≠ 2 then .error .value
      else
        match auxOnMesh f g with
        | .error e => .error e
        | .ok a => .ok (some (colourArr f.mesh.n a)) := by
  unfold colourOf
  rw [huse, haux]
  rfl

theorem colourOf_third (f : Fld) (o : Opts) (vd : List (Option String)) (huse : o.useColor = true)
    (haux : o.aux = none) (h3 : f.nvdim = 3) (c : Nat) (hc : thirdComp f vd o.pick = .ok c) :
    colourOf f o vd =
      .ok (some (colourArr f.mesh.n ⟨f.mesh.n, fun i => [(f.data.get i).getD c 0]⟩)) := by
  unfold colourOf
  rw [huse, haux]
  simp [h3, hc]

theorem colourOf_third_err (f : Fld) (o : Opts) (vd : List (Option String)) (huse : o.useColor = true)
    (haux : o.aux = none) (h3 : f.nvdim = 3) (e : Err) (hc : thirdComp f vd o.pick = .error e) :
    colourOf f o vd = .error e := by
  unfold colourOf
  rw [huse, haux]
  simp [h3, hc]

theorem colourOf_off (f : Fld) (o : Opts) (vd : List (Option String)) (huse : o.useColor = false) :
    colourOf f o vd = .ok none := by
  unfold colourOf
  rw [huse]
  rfl

/-! ## success as a Boolean (for closed examples) -/

def okB {α} (x : M α) : Bool := match x with | .ok _ => true | .error _ => false

theorem ok_of_okB {α} (x : M α) (h : okB x = true) : ∃ v, x = .ok v := by
  cases x with
  | ok v => exact ⟨v, rfl⟩
  | error e => simp [okB] at h

/-- the call list ends with the axis labels announcing the multiplier `m` -/
def EndsWithLabels (r : Region) (m : Rat) (calls : List PlotCall) : Prop :=
  ∃ pre, (pre, m) ∈ siTable ∧
    calls.getLast? = some (.labels (r.dims.getD 0 "" ++ " (" ++ pre ++ r.units.getD 0 "" ++ ")")
                                   (r.dims.getD 1 "" ++ " (" ++ pre ++ r.units.getD 1 "" ++ ")"))

theorem endsWithLabels_of (r : Region) (m : Rat) (lab : PlotCall) (pre : List PlotCall)
    (h : axisLabels r m = .ok lab) : EndsWithLabels r m (pre ++ [lab]) := by
  obtain ⟨p, hp, hl⟩ := axisLabels_ok_inv r m lab h
  exact ⟨p, rsiPrefix_some m p hp, by rw [hl]; simp⟩

/-! ## default plot -/

theorem mplDefault_ok_inv (f : Fld) (o : Opts) (calls : List PlotCall) (h : mplDefault f o = .ok calls) :
    f.mesh.region.ndim = 2 ∧ ∃ m lab, setupMultiplier f o.mult = .ok m ∧ axisLabels f.mesh.region m = .ok lab ∧
      ((f.nvdim = 1 ∧ ∃ cs, mplScalar f { o with mult := some m, filter := some (filterOf f o) } = .ok cs ∧
          calls = cs ++ [lab]) ∨
       (f.nvdim = 2 ∧ ∃ cv, mplVector f { o with mult := some m } = .ok cv ∧ calls = cv ++ [lab]) ∨
       (f.nvdim = 3 ∧ ∃ c cs cv, thirdComp f (inplaneVdims f) o.pick = .ok c ∧
          mplScalar (compField f c) { o with mult := some m, filter := some (filterOf f o) } = .ok cs ∧
          mplVector f { o with mult := some m } = .ok cv ∧ calls = cs ++ cv ++ [lab])) := by
  unfold mplDefault at h
  split at h
  · cases h
  · rename_i h2
    split at h
    · cases h
    · rename_i m hm
      refine ⟨not_not.mp h2, m, ?_⟩
      split at h
      · rename_i h1
        split at h
        · cases h
        · rename_i cs hcs
          split at h
          · cases h
          · rename_i lab hl
            injection h with h
            exact ⟨lab, hm, hl, Or.inl ⟨h1, cs, hcs, h.symm⟩⟩
      · split at h
        · rename_i h2'
          split at h
          · cases h
          · rename_i cv hcv
            split at h
            · cases h
            · rename_i lab hl
              injection h with h
              exact ⟨lab, hm, hl, Or.inr (Or.inl ⟨h2', cv, hcv, h.symm⟩)⟩
        · split at h
          · rename_i h3
            split at h
            · cases h
            · rename_i c hc
              split at h
              · cases h
              · rename_i cs hcs
                split at h
                · cases h
                · rename_i cv hcv
                  split at h
                  · cases h
                  · rename_i lab hl
                    injection h with h
                    exact ⟨lab, hm, hl, Or.inr (Or.inr ⟨h3, c, cs, cv, hc, hcs, hcv, h.symm⟩)⟩
          · cases h

/-! ## auxiliary fields on another resolution -/

theorem resample_data (g : Fld) (n : List Int) (h : Fld) (hr : C07.resample g n = .ok h) :
    ∃ m, Mesh.mkN? g.mesh.region (n.map Int.toNat) = .ok m ∧ h.mesh = m ∧
      h.data = C07.resampleNDA g.mesh m g.data := by
  unfold C07.resample at hr
  split at hr
  · cases hr
  · split at hr
    · cases hr
    · split at hr
      · cases hr
      · rename_i m hm
        split at hr
        · cases hr
        · unfold C07.mkFld at hr
          split at hr
          · cases hr
          · injection hr with hr
            subst hr
            exact ⟨m, hm, rfl, rfl⟩

theorem mkN_ok_inv (r : Region) (n : List Nat) (m : Mesh) (h : Mesh.mkN? r n = .ok m) :
    m.region = r ∧ m.n = n := by
  unfold Mesh.mkN? at h
  split at h
  · cases h
  · split at h
    · cases h
    · split at h
      · cases h
      · injection h with h
        subst h
        exact ⟨rfl, rfl⟩

/-! ## closed examples used by `Props/C20.lean` for non-vacuity -/

def exRegion : Region :=
  { pmin := [0, 0], pmax := [4, 6], dims := ["x", "y"], units := ["m", "m"], tol := 1/1000000000000 }
def exMesh : Mesh := { region := exRegion, n := [2, 3], bc := "", subs := [] }
/-- scalar field with values 1..6 (C order), cell (0, 2) invalid -/
def exS : Fld :=
  { mesh := exMesh, nvdim := 1, data := NDA.ofList [2, 3] [[1], [2], [3], [4], [5], [6]] [],
    valid := NDA.ofList [2, 3] [true, true, false, true, true, true] false,
    vdims := none, vmap := [], unit := none }
/-- 3-component field, labels a b c, `a ↦ y`, `b ↦ x`, `c ↦ z` -/
def exV : Fld :=
  { mesh := exMesh, nvdim := 3,
    data := NDA.ofList [2, 3] [[0, 1, 2], [3, 4, 5], [6, 7, 8], [9, 10, 11], [12, 13, 14], [15, 16, 17]] [],
    valid := NDA.ofList [2, 3] [true, true, false, true, true, true] false,
    vdims := some ["a", "b", "c"], vmap := [("a", "y"), ("b", "x"), ("c", "z")], unit := none }
/-- filter that is non-zero everywhere -/
def exOnes : Fld := { exS with data := NDA.ofList [2, 3] [[1], [1], [1], [1], [1], [1]] [],
                               valid := NDA.ofList [2, 3] [true, true, true, true, true, true] false }
/-- a filter on 4 × 3 cells of the same region, zero in its cells with first index 0 and 1 -/
def exFine : Fld :=
  { exS with mesh := { exMesh with n := [4, 3] },
             data := NDA.ofList [4, 3] [[0], [0], [0], [0], [0], [0], [1], [1], [1], [1], [1], [1]] [],
             valid := NDA.ofList [4, 3] (List.replicate 12 true) false }

theorem exMesh_inv : exMesh.Inv := mesh_inv_of_invB exMesh (by decide +kernel)

end DFV.C20
