import DFV.Lemmas.C14Copy
import DFV.Lemmas.C13Reject
import DFV.Model.C13Store
/-! C13 / C14 (round 3): the store model of Region and Mesh objects — basic facts, the in-place
mutation of the Region objects a mesh holds, and the value model as its abstraction. -/
namespace DFV.S
open DFV DFV.T DFV.C14

/-! ## the store -/

theorem reg_setReg_eq (s : Store) (i : Nat) (r : Region) (h : i < s.regs.length) : (s.setReg i r).reg i = r :=
  getD_setAt_eq s.regs i r default h

theorem reg_setReg_ne (s : Store) (i j : Nat) (r : Region) (h : j ≠ i) : (s.setReg i r).reg j = s.reg j :=
  getD_setAt_ne s.regs i j r default h

theorem setReg_length (s : Store) (i : Nat) (r : Region) : (s.setReg i r).regs.length = s.regs.length :=
  setAt_length _ _ _

theorem reg_allocs_lt (s : Store) (rs : List Region) (i : Nat) (h : i < s.regs.length) : (s.allocs rs).reg i = s.reg i := by
  unfold Store.reg Store.allocs
  simp only [List.getD_eq_getElem?_getD]
  rw [List.getElem?_append_left h]

theorem reg_allocs_ge (s : Store) (rs : List Region) (k : Nat) : (s.allocs rs).reg (s.regs.length + k) = rs.getD k default := by
  unfold Store.reg Store.allocs
  simp only [List.getD_eq_getElem?_getD]
  rw [List.getElem?_append_right (by omega)]
  congr 2; omega

theorem allocs_length (s : Store) (rs : List Region) : (s.allocs rs).regs.length = s.regs.length + rs.length := by
  simp [Store.allocs]

/-! ## fresh ids -/

theorem freshIds_names {α} (base : Nat) (l : List (String × α)) : (freshIds base l).map (·.1) = l.map (·.1) := by
  induction l generalizing base with
  | nil => rfl
  | cons p ps ih => simp only [freshIds, List.map_cons, ih]

theorem freshIds_ids {α} (base : Nat) (l : List (String × α)) : (freshIds base l).map (·.2) = List.range' base l.length := by
  induction l generalizing base with
  | nil => rfl
  | cons p ps ih => simp only [freshIds, List.map_cons, ih, List.length_cons, List.range'_succ]

theorem freshIds_mem {α} (base : Nat) (l : List (String × α)) (p : String × Nat) (h : p ∈ freshIds base l) :
    base ≤ p.2 ∧ p.2 < base + l.length := by
  have : p.2 ∈ (freshIds base l).map (·.2) := List.mem_map_of_mem h
  rw [freshIds_ids, List.mem_range'_1] at this
  exact this

theorem freshIds_nodup {α} (base : Nat) (l : List (String × α)) : ((freshIds base l).map (·.2)).Nodup := by
  rw [freshIds_ids]; exact List.nodup_range'

/-- the values of the fresh copies -/
theorem valsOf_freshIds {α} (s : Store) (l : List (String × α)) (vals : α → Region) (pre : List Region) (rest : List Region)
    (h : s.regs = pre ++ l.map (fun p => vals p.2) ++ rest) :
    valsOf s (freshIds pre.length l) = l.map fun p => (p.1, vals p.2) := by
  induction l generalizing pre with
  | nil => rfl
  | cons p ps ih =>
    simp only [freshIds, valsOf, List.map_cons]
    congr 1
    · congr 1
      unfold Store.reg
      rw [h, List.getD_eq_getElem?_getD]
      simp
    · have := ih (pre ++ [vals p.2]) (by rw [h]; simp)
      simp only [List.length_append, List.length_singleton] at this
      exact this

/-! ## in-place calls on Region objects -/

/-- the in-place form of a region step returns its receiver -/
theorem stepR_inplace_same (r : Region) (op : Op) (a b : Region) (h : stepR r (op.withInplace true) = .ok (a, b)) : a = b := by
  cases op with
  | translate v i =>
    simp only [Op.withInplace, stepR, translateR] at h
    split at h
    · cases h
    · simp only [if_true] at h
      split at h
      · cases h
      · injection h with h; injection h with h1 h2; rw [← h1, ← h2]
  | scale f ref i =>
    simp only [Op.withInplace, stepR, scaleR] at h
    split at h
    · cases h
    · split at h
      · cases h
      · simp only [if_true] at h
        split at h
        · cases h
        · injection h with h; injection h with h1 h2; rw [← h1, ← h2]
  | rotate90 a1 a2 k ref i =>
    simp only [Op.withInplace, stepR, rotate90R] at h
    split at h
    · cases h
    · split at h
      · cases h
      · split at h
        · cases h
        · cases h
        · simp only [if_true] at h
          split at h
          · cases h
          · injection h with h; injection h with h1 h2; rw [← h1, ← h2]

theorem updReg_ok (s s' : Store) (i : Nat) (op : Op) (h : updReg s i op = .ok s') :
    ∃ r', stepR (s.reg i) (op.withInplace true) = .ok (r', r') ∧ s' = s.setReg i r' := by
  unfold updReg at h
  split at h
  · cases h
  · rename_i recv ret hst
    injection h with h
    have := stepR_inplace_same _ _ _ _ hst
    subst this
    exact ⟨recv, hst, h.symm⟩

/-- the in-place method applied to pairwise different objects: each object is replaced by the
receiver state of its own step, nothing else changes — and the values are those of `mapSubs` -/
theorem updSubs_spec (s s' : Store) (subs : List (String × Nat)) (op : Op) (h : updSubs s subs op = (s', true))
    (hnd : (subs.map (·.2)).Nodup) (hin : ∀ p ∈ subs, p.2 < s.regs.length) :
    s'.meshes = s.meshes ∧ s'.regs.length = s.regs.length ∧ (∀ i, i ∉ subs.map (·.2) → s'.reg i = s.reg i) ∧
    mapSubs (valsOf s subs) (fun c => stepR c (op.withInplace true)) = .ok (valsOf s' subs) := by
  induction subs generalizing s with
  | nil =>
    simp only [updSubs] at h
    injection h with h1 _
    subst h1
    exact ⟨rfl, rfl, fun _ _ => rfl, rfl⟩
  | cons p ps ih =>
    simp only [updSubs] at h
    cases hu : updReg s p.2 op with
    | error e => rw [hu] at h; cases h
    | ok s1 =>
      rw [hu] at h
      obtain ⟨r', hst, e1⟩ := updReg_ok s s1 p.2 op hu
      rw [List.map_cons, List.nodup_cons] at hnd
      have hin1 : ∀ q ∈ ps, q.2 < s1.regs.length := by
        intro q hq; rw [e1, setReg_length]; exact hin q (List.mem_cons_of_mem _ hq)
      obtain ⟨a1, a2, a3, a4⟩ := ih s1 h hnd.2 hin1
      have hp : p.2 < s.regs.length := hin p (by simp)
      have hvals : valsOf s1 ps = valsOf s ps := by
        unfold valsOf
        apply List.map_congr_left
        intro q hq
        have : q.2 ≠ p.2 := by
          intro e; apply hnd.1; rw [← e]; exact List.mem_map_of_mem hq
        rw [e1, reg_setReg_ne _ _ _ _ this]
      refine ⟨by rw [a1, e1]; rfl, by rw [a2, e1, setReg_length], ?_, ?_⟩
      · intro i hi
        simp only [List.map_cons, List.mem_cons, not_or] at hi
        rw [a3 i hi.2, e1, reg_setReg_ne _ _ _ _ hi.1]
      · show mapSubs ((p.1, s.reg p.2) :: valsOf s ps) _ = .ok ((p.1, s'.reg p.2) :: valsOf s' ps)
        rw [mapSubs_cons]
        simp only [hst]
        rw [← hvals, a4]
        simp only
        rw [a3 p.2 hnd.1, e1, reg_setReg_eq _ _ _ hp]

/-- if every object accepts the step, the sequence runs through -/
theorem updSubs_ok_of (s : Store) (subs : List (String × Nat)) (op : Op)
    (hall : ∀ p ∈ subs, ∃ x y, stepR (s.reg p.2) (op.withInplace true) = .ok (x, y))
    (hnd : (subs.map (·.2)).Nodup) (hin : ∀ p ∈ subs, p.2 < s.regs.length) :
    ∃ s', updSubs s subs op = (s', true) := by
  induction subs generalizing s with
  | nil => exact ⟨s, rfl⟩
  | cons p ps ih =>
    obtain ⟨x, y, hst⟩ := hall p (by simp)
    rw [List.map_cons, List.nodup_cons] at hnd
    simp only [updSubs, updReg, hst]
    apply ih
    · intro q hq
      have : q.2 ≠ p.2 := by
        intro e; apply hnd.1; rw [← e]; exact List.mem_map_of_mem hq
      rw [reg_setReg_ne _ _ _ _ this]
      exact hall q (List.mem_cons_of_mem _ hq)
    · exact hnd.2
    · intro q hq; rw [setReg_length]; exact hin q (List.mem_cons_of_mem _ hq)

/-! ## `rotate90` reads the centre after the region has been turned: same point -/

theorem center_getD (r : Region) (a : Nat) (ha : a < r.ndim) : r.center.getD a 0 = (r.lo a + r.hi a) / 2 := by
  unfold Region.center; rw [getD_tab _ _ _ _ ha]

/-- a region turned about its own centre keeps its centre -/
theorem rot_center_eq (r r' x : Region) (hr : r.Inv) (a1 a2 : String) (k : Int) (b : Bool)
    (h : rotate90R r a1 a2 k none b = .ok (x, r')) : r'.center = r.center := by
  obtain ⟨_, _, i1, i2, h1, h2, h12, l1, l2, _, e, _⟩ := rotate90R_inv r a1 a2 k none b x r' h
  have hd : r.dims.length = r.ndim := hr.2.2.1
  rw [hd] at l1 l2
  have c1 := center_getD r i1 l1
  have c2 := center_getD r i2 l2
  simp only [Option.getD_none] at e
  obtain ⟨C, hC⟩ : ∃ C, C = r.center := ⟨_, rfl⟩
  rw [← hC] at e c1 c2
  have hgoal : (target r (rotCoord r.pmin C i1 i2 k) (rotCoord r.pmax C i1 i2 k) (rotUnits r.units i1 i2 k)).center
      = tab r.ndim fun a => (r.lo a + r.hi a) / 2 := by
    unfold Region.center
    rw [target_ndim]
    apply tab_congr
    intro a ha
    rw [target_lo _ _ _ _ _ ha, target_hi _ _ _ _ _ ha, min_add_max]
    have p1 : r.pmin.getD i1 0 = r.lo i1 := rfl
    have p2 : r.pmin.getD i2 0 = r.lo i2 := rfl
    have q1 : r.pmax.getD i1 0 = r.hi i1 := rfl
    have q2 : r.pmax.getD i2 0 = r.hi i2 := rfl
    unfold rotCoord
    by_cases e1 : a = i1
    · subst e1
      simp only [if_true]
      rw [c1, c2, p1, p2, q1, q2]; ring
    · by_cases e2 : a = i2
      · subst e2
        simp only [e1, if_false, if_true]
        rw [c1, c2, p1, p2, q1, q2]; ring
      · simp only [e1, e2, if_false]
        rfl
  rw [e, hgoal]
  rfl

/-! ## the in-place mesh step: the value model is its abstraction -/

/-- what makes a mesh object's Region objects its own: ids in range, the subregion ids pairwise
different and different from the region id -/
def MeshOk (s : Store) (mo : MeshObj) : Prop :=
  mo.region < s.regs.length ∧ (∀ p ∈ mo.subs, p.2 < s.regs.length) ∧ (mo.subs.map (·.2)).Nodup ∧
  ∀ p ∈ mo.subs, p.2 ≠ mo.region

/-- the subregions are proper regions with the dimension names of the mesh region (what the setter
stores; no exact fit needed) -/
def SubsProper (m : Mesh) : Prop := ∀ p ∈ m.subs, p.2.Inv ∧ p.2.dims = m.region.dims

theorem mapSubs_ok_all (l l' : List (String × Region)) (f : Region → M (Region × Region)) (h : mapSubs l f = .ok l') :
    ∀ p ∈ l, ∃ x y, f p.2 = .ok (x, y) := by
  induction l generalizing l' with
  | nil => intro p hp; cases hp
  | cons q qs ih =>
    rw [mapSubs_cons] at h
    cases hq : f q.2 with
    | error e => rw [hq] at h; cases h
    | ok xy =>
      obtain ⟨x, y⟩ := xy
      rw [hq] at h
      simp only at h
      cases hqs : mapSubs qs f with
      | error e => rw [hqs] at h; cases h
      | ok qs' =>
        intro p hp
        rcases List.mem_cons.mp hp with hp | hp
        · subst hp; exact ⟨x, y, hq⟩
        · exact ih qs' hqs p hp

theorem setAt_self {α} (l : List α) (i : Nat) (a : α) (h : l[i]? = some a) : setAt l i a = l := by
  induction l generalizing i with
  | nil => rfl
  | cons x xs ih =>
    cases i with
    | zero => simp at h; subst h; rfl
    | succ j => simp at h; simp only [setAt]; rw [ih j h]

theorem valsOf_setReg (s : Store) (i : Nat) (r : Region) (subs : List (String × Nat)) (h : ∀ p ∈ subs, p.2 ≠ i) :
    valsOf (s.setReg i r) subs = valsOf s subs := by
  unfold valsOf
  apply List.map_congr_left
  intro p hp
  rw [reg_setReg_ne _ _ _ _ (h p hp)]

/-- the call the in-place form makes on every subregion is the one the value model makes -/
theorem subOpInplace_eq (m : Mesh) (hm : m.Inv) (op : Op) (x r' : Region)
    (hreg : stepR m.region (op.withInplace true) = .ok (x, r')) :
    (subOpInplace m.region r' op).withInplace true = subOp m (op.withInplace true) := by
  cases op with
  | translate v i => rfl
  | scale f ref i => rfl
  | rotate90 a1 a2 k ref i =>
    simp only [subOpInplace, Op.withInplace, subOp, subRef]
    cases ref with
    | some R => rfl
    | none =>
      simp only [Op.withInplace, stepR] at hreg
      rw [rot_center_eq m.region r' x hm.1 a1 a2 k true hreg]

theorem subOpInplace_flag (a b : Region) (op : Op) : (subOpInplace a b op).withInplace true = subOpInplace a b op := by
  cases op <;> rfl

/-- **An accepted in-place mesh step, in the store.**  If the value model accepts the in-place step on
the value of mesh object `mid`, the store model carries it out on the mesh's own Region objects:
the statement evaluates to the mesh object itself, no object is created, every Region object outside
the mesh's footprint keeps its value, the mesh object keeps its Region objects, and its value
afterwards is exactly what the value model returns. -/
theorem meshInplace_ok (s : Store) (mid : Nat) (mo : MeshObj) (op : Op) (hmo : s.meshes[mid]? = some mo)
    (hok : MeshOk s mo) (hm : (absMesh s mo).Inv) (hb : BcWf (absMesh s mo)) (T1 T : Mesh)
    (h : stepM (absMesh s mo) (op.withInplace true) = .ok (T1, T)) :
    ∃ s' mo', meshInplace s mid op = (s', some (.mesh mid)) ∧ s'.regs.length = s.regs.length ∧
      (∀ i, i ∉ footprint mo → s'.reg i = s.reg i) ∧
      s'.meshes = setAt s.meshes mid mo' ∧ mo'.region = mo.region ∧ mo'.subs = mo.subs ∧ absMesh s' mo' = T := by
  obtain ⟨hrin, hsin, hnd, hne⟩ := hok
  have hmesh := h
  rw [stepM_eq_stepMU] at h
  unfold stepMU at h
  split at h
  · cases h
  · cases h
  · rename_i x r' subs' hreg hsub
    simp only [inplace_withInplace, if_true, opN_withInplace, opBc_withInplace] at h
    injection h with h; injection h with _ hT
    have hx : x = r' := stepR_inplace_same _ _ _ _ hreg
    subst hx
    have hreg' : stepR (s.reg mo.region) (op.withInplace true) = .ok (x, x) := hreg
    have hupd : updReg s mo.region op = .ok (s.setReg mo.region x) := by
      unfold updReg; rw [hreg']
    have h1reg : (s.setReg mo.region x).reg mo.region = x := reg_setReg_eq _ _ _ hrin
    have hvals1 : valsOf (s.setReg mo.region x) mo.subs = valsOf s mo.subs := valsOf_setReg _ _ _ _ hne
    have hsubop := subOpInplace_eq (absMesh s mo) hm op x x hreg
    have hsub' : mapSubs (valsOf (s.setReg mo.region x) mo.subs)
        (fun c => stepR c ((subOpInplace (s.reg mo.region) x op).withInplace true)) = .ok subs' := by
      rw [hvals1]
      have : (subOpInplace (s.reg mo.region) x op).withInplace true = subOp (absMesh s mo) (op.withInplace true) := hsubop
      rw [this]; exact hsub
    have hin1 : ∀ p ∈ mo.subs, p.2 < (s.setReg mo.region x).regs.length := by
      intro p hp; rw [setReg_length]; exact hsin p hp
    obtain ⟨s2, hs2⟩ := updSubs_ok_of (s.setReg mo.region x) mo.subs (subOpInplace (s.reg mo.region) x op)
      (by
        intro p hp
        have := mapSubs_ok_all _ _ _ hsub' (p.1, (s.setReg mo.region x).reg p.2) (List.mem_map_of_mem hp)
        exact this) hnd hin1
    obtain ⟨a1, a2, a3, a4⟩ := updSubs_spec _ _ _ _ hs2 hnd hin1
    rw [hsub'] at a4
    injection a4 with a4
    have hnotin : mo.region ∉ mo.subs.map (·.2) := by
      intro hmem
      obtain ⟨p, hp, e⟩ := List.mem_map.mp hmem
      exact hne p hp e
    have h2reg : s2.reg mo.region = x := by rw [a3 _ hnotin, h1reg]
    have hframe : ∀ i, i ∉ footprint mo → s2.reg i = s.reg i := by
      intro i hi
      simp only [footprint, List.mem_cons, not_or] at hi
      rw [a3 i hi.2, reg_setReg_ne _ _ _ _ hi.1]
    have hmeshes : s2.meshes = s.meshes := by rw [a1]; rfl
    have hlen : s2.regs.length = s.regs.length := by rw [a2, setReg_length]
    have hmi : meshInplace s mid op = finishInplace s2 mid mo op := by
      unfold meshInplace
      rw [hmo]
      simp only [hupd, h1reg, hs2]
    rw [hmi]
    obtain ⟨_, _, hdims, _⟩ := stepR_keeps _ hm.1 _ _ _ hreg
    cases op with
    | translate v i =>
      refine ⟨s2, mo, rfl, hlen, hframe, by rw [hmeshes, setAt_self _ _ _ hmo], rfl, rfl, ?_⟩
      rw [← hT]
      simp only [absMesh, h2reg, opN, opBc, Op.withInplace]
      exact congrArg _ a4.symm
    | scale f ref i =>
      refine ⟨s2, mo, rfl, hlen, hframe, by rw [hmeshes, setAt_self _ _ _ hmo], rfl, rfl, ?_⟩
      rw [← hT]
      simp only [absMesh, h2reg, opN, opBc, Op.withInplace]
      exact congrArg _ a4.symm
    | rotate90 a1' a2' k ref i =>
      simp only [Op.withInplace, stepR] at hreg
      obtain ⟨_, _, i1, i2, d1, d2, _⟩ := rotate90R_inv _ _ _ _ _ _ _ _ hreg
      have hd1 : (s2.reg mo.region).dim2index a1' = .ok i1 := by
        rw [h2reg]; unfold Region.dim2index; rw [hdims]; exact d1
      have hd2 : (s2.reg mo.region).dim2index a2' = .ok i2 := by
        rw [h2reg]; unfold Region.dim2index; rw [hdims]; exact d2
      obtain ⟨w1, w2, _, _⟩ := opBc_wf (absMesh s mo) hm hb (.rotate90 a1' a2' k ref true) x x hreg
      simp only [opBc] at w1 w2
      have hbc : Mesh.bcOk (s2.reg mo.region).dims (rotBc mo.bc a1' a2' k).toLower = true := by
        rw [h2reg]
        have : (absMesh s mo).bc = mo.bc := rfl
        rw [this] at w1 w2
        rw [w1]; exact w2
      refine ⟨{ s2 with meshes := setAt s2.meshes mid { mo with n := rotN mo.n i1 i2 k, bc := (rotBc mo.bc a1' a2' k).toLower } },
        { mo with n := rotN mo.n i1 i2 k, bc := (rotBc mo.bc a1' a2' k).toLower }, ?_, hlen, hframe,
        by show setAt s2.meshes mid _ = _; rw [hmeshes], rfl, rfl, ?_⟩
      · simp only [finishInplace, hd1, hd2, hbc, Bool.not_true, Bool.false_eq_true, if_false]
      · rw [← hT]
        have hN : opN (absMesh s mo) (.rotate90 a1' a2' k ref i) = rotN mo.n i1 i2 k := by
          simp only [opN]
          have e1 : (absMesh s mo).region.dim2index a1' = .ok i1 := d1
          have e2 : (absMesh s mo).region.dim2index a2' = .ok i2 := d2
          rw [e1, e2]
          rfl
        have hB : opBc (absMesh s mo) (.rotate90 a1' a2' k ref i) = (rotBc mo.bc a1' a2' k).toLower := by
          simp only [opBc]
          have : (absMesh s mo).bc = mo.bc := rfl
          rw [this] at w1
          rw [this]; exact w1.symm
        rw [hN, hB]
        simp only [absMesh]
        have h2reg' : ({ s2 with meshes := setAt s2.meshes mid { mo with n := rotN mo.n i1 i2 k, bc := (rotBc mo.bc a1' a2' k).toLower } } : Store).reg mo.region = x := h2reg
        rw [h2reg']
        exact congrArg _ a4.symm

end DFV.S
