import DFV.Lemmas.C03f
/-! C03 helper lemmas, part g: `<<` (stacking), lifted operands, `norm`, `angle`. -/
namespace DFV.C03
open DFV

theorem tab_add {α} (a b : Nat) (h : Nat → α) : tab (a + b) h = tab a h ++ tab b (fun c => h (a + c)) := by
  unfold tab
  rw [List.range_add, List.map_append, List.map_map]
  rfl

/-! ## `np.stack` of the component slices of two fields -/

theorem npStack_ok (parts : List (NDA GQ)) (res : NDA GQ) (h : npStack parts = .ok res) :
    ∃ p, parts.head? = some p ∧ res.shape = p.shape ++ [parts.length] ∧
      ∀ idx, res.get idx = (parts.getD (lastAx idx) p).get idx.dropLast := by
  unfold npStack at h
  cases hp : parts.head? with
  | none => simp [hp] at h
  | some p =>
    simp only [hp] at h
    split at h
    · injection h with h
      subst h
      exact ⟨p, rfl, rfl, fun _ => rfl⟩
    · cases h

theorem parts_getD (a b : NDA GQ) (k1 k2 c : Nat) (d : NDA GQ) (hc : c < k1 + k2) :
    ((List.range k1).map (takeLast a) ++ (List.range k2).map (takeLast b)).getD c d =
      if c < k1 then takeLast a c else takeLast b (c - k1) := by
  rw [List.getD_eq_getElem?_getD]
  by_cases h : c < k1
  · rw [List.getElem?_append_left (by simpa using h)]
    simp [h]
  · rw [List.getElem?_append_right (by simpa using h)]
    have : c - k1 < k2 := by omega
    simp [h, this]

theorem shlFF_cells (n : List Nat) (f o g : CF) (cf co : List Nat → List GQ) (vf vo : List Nat → Bool)
    (hf : Cells n f cf vf) (ho : Cells n o co vo) (h : shlFF f o = .ok g) :
    Cells n g (fun i => cf i ++ co i) (fun i => vf i && vo i) ∧ g.mesh = f.mesh ∧
      g.nvdim = f.nvdim + o.nvdim := by
  unfold shlFF at h
  split at h
  · cases h
  · cases hst : npStack ((List.range f.nvdim).map (takeLast f.data) ++ (List.range o.nvdim).map (takeLast o.data)) with
    | error e => simp [hst] at h
    | ok res =>
      simp only [hst] at h
      obtain ⟨p, hp, hshape, hget⟩ := npStack_ok _ _ hst
      have hfs := hf.1.1
      have hos := ho.1.1
      have hfp := hf.1.2.2
      -- the first part is the first component slice of `f`
      have hp0 : p = takeLast f.data 0 := by
        obtain ⟨k, hk⟩ : ∃ k, f.nvdim = k + 1 := ⟨f.nvdim - 1, by omega⟩
        rw [hk, List.range_succ_eq_map] at hp
        simp at hp
        exact hp.symm
      have hps : p.shape = n := by
        rw [hp0]; show f.data.shape.dropLast = n
        rw [hfs, hf.2.1]; simp
      have hlen : ((List.range f.nvdim).map (takeLast f.data) ++ (List.range o.nvdim).map (takeLast o.data)).length
          = f.nvdim + o.nvdim := by simp
      rw [hlen, hps] at hshape
      have hvs : ∀ v, some (NDA.zipWith (fun x y => x && y) f.valid o.valid) = some v → v.shape = f.mesh.n := by
        intro v hv; injection hv with hv; subst hv
        exact hf.1.2.1
      obtain ⟨hm, hnv, _, _, hcells⟩ :=
        mkField_of_cells n f.mesh hf.2.1 (f.nvdim + o.nvdim) res hshape _ _ _ _ _ g hvs h
      refine ⟨⟨hcells.1, hcells.2.1, ?_⟩, hm, hnv⟩
      intro i hi
      obtain ⟨hc, hv⟩ := hcells.2.2 i hi
      refine ⟨?_, ?_⟩
      · rw [hc]
        show cellOf res i (f.nvdim + o.nvdim) = cf i ++ co i
        rw [← (hf.2.2 i hi).1, ← (ho.2.2 i hi).1]
        unfold cellOf
        rw [tab_add]
        congr 1
        · apply tab_congr
          intro c hcc
          rw [hget, getLastD_append_single, parts_getD _ _ _ _ _ _ (by omega)]
          simp [hcc, takeLast]
        · apply tab_congr
          intro c hcc
          rw [hget, getLastD_append_single, parts_getD _ _ _ _ _ _ (by omega)]
          have : ¬ (f.nvdim + c < f.nvdim) := by omega
          simp [this, takeLast]
      · rw [hv]
        show (f.valid.get i && o.valid.get i) = _
        rw [(hf.2.2 i hi).2, (ho.2.2 i hi).2]

/-! ## operands lifted to fields (`Field(mesh, nvdim=…, value=other)`) -/

theorem mkField_num_cells (mesh : Mesh) (nv : Nat) (z : GQ) (kind : Kind) (g : CF)
    (h : mkField mesh nv (.num z) kind none none none none = .ok g) :
    g.mesh = mesh ∧ g.nvdim = nv ∧ Cells mesh.n g (fun _ => List.replicate nv z) (fun _ => true) := by
  obtain ⟨hm, hn, hpos, _, arr, own, vl, ha, hv, hd, hvl, _, _, _⟩ := mkField_ok _ _ _ _ _ _ _ _ _ h
  have harr : arr = NDA.const (mesh.n ++ [nv]) z := by
    simp only [asArray] at ha
    split at ha
    · cases ha
    · injection ha with ha; injection ha with ha1 ha2; exact ha1.symm
  have hvl' := validSet_none _ _ hv
  refine ⟨hm, hn, ⟨?_, ?_, ?_⟩, by rw [hm], ?_⟩
  · rw [hd, hm, hn, harr]; rfl
  · rw [hvl, hm, hvl']; rfl
  · rw [hn]; exact hpos
  · intro i hi
    refine ⟨?_, ?_⟩
    · rw [hn]
      apply List.ext_getElem
      · simp [cellOf]
      · intro c h1 h2
        simp only [cellOf, getElem_tab, List.getElem_replicate]
        rw [hd, force_get _ _ _ (by
          rw [harr]; show inRange (mesh.n ++ [nv]) (i ++ [c]) = true
          rw [inRange_append_single]; exact ⟨hi, by simpa [cellOf] using h1⟩), harr]
        rfl
    · rw [hvl, force_get _ _ _ (by rw [hvl']; exact hi), hvl']; rfl

theorem mkField_arr_cells (mesh : Mesh) (nv : Nat) (a : NDA GQ) (kind : Kind) (g : CF)
    (hne : a.shape ≠ mesh.n)
    (h : mkField mesh nv (.arr a) kind none none none none = .ok g) :
    g.mesh = mesh ∧ g.nvdim = nv ∧ lastDim a.shape = nv ∧ Cells mesh.n g (opdCell a) (fun _ => true) := by
  obtain ⟨hm, hn, hwf, _, _, hl, hnil, _, hdata, hvalid⟩ :=
    mkField_arr' mesh nv a kind none none none none g (fun hh => hne hh.2) (by intro v hv; cases hv) h
  refine ⟨hm, hn, by rw [lastDim_eq_lastAx _ hnil]; exact hl, hwf, by rw [hm], ?_⟩
  intro i hi
  refine ⟨?_, by rw [hvalid i hi]; rfl⟩
  rw [hn]
  unfold opdCell cellOfB cellOf
  simp only [hnil, if_false, hl]
  apply tab_congr
  intro c hc
  rw [hdata _ (by rw [inRange_append_single]; exact ⟨hi, hc⟩)]

/-- array-like operands that stand directly under `<<` / `angle` must not be mesh-shaped
(a mesh-shaped array is taken as per-cell scalar values by the constructor) -/
def OpdLiftOk (n : List Nat) : Opd → Prop
  | .num _ _ _ => True
  | .arr a _ _ => a.shape ≠ n

theorem liftOpd_cells (mesh : Mesh) (od : Opd) (L : CF) (hok : OpdLiftOk mesh.n od)
    (h : liftOpd mesh od = .ok L) :
    L.mesh = mesh ∧ Cells mesh.n L (rawCell od) (fun _ => true) := by
  cases od with
  | num z k np =>
    simp only [liftOpd] at h
    obtain ⟨hm, _, hc⟩ := mkField_num_cells _ _ _ _ _ h
    exact ⟨hm, hc⟩
  | arr a k np =>
    simp only [liftOpd] at h
    split at h
    · cases h
    · obtain ⟨hm, _, _, hc⟩ := mkField_arr_cells _ _ _ _ _ hok h
      exact ⟨hm, hc⟩

/-! ## `norm` -/

theorem normOp_cells (sq : Rat → Rat) (n : List Nat) (f g : CF) (cf : List Nat → List GQ) (vf : List Nat → Bool)
    (hf : Cells n f cf vf) (h : normOp sq f = .ok g) :
    Cells n g (fun i => [⟨sq (normSqCell (cf i)), 0⟩]) vf ∧ g.mesh = f.mesh ∧ g.nvdim = 1 := by
  unfold normOp at h
  have hfs := hf.1.1
  have hshape : (f.data.shape.dropLast ++ [1]) = n ++ [1] := by rw [hfs, hf.2.1]; simp
  have hvs : ∀ v, some f.valid = some v → v.shape = f.mesh.n := by
    intro v hv; injection hv with hv; subst hv
    exact hf.1.2.1
  obtain ⟨hm, hnv, _, _, hcells⟩ := mkField_of_cells n f.mesh hf.2.1 1 _ hshape _ _ _ _ _ g hvs h
  refine ⟨⟨hcells.1, hcells.2.1, ?_⟩, hm, hnv⟩
  intro i hi
  obtain ⟨hc, hv⟩ := hcells.2.2 i hi
  refine ⟨?_, by rw [hv]; exact (hf.2.2 i hi).2⟩
  rw [hc]
  show cellOf _ i 1 = [⟨sq (normSqCell (cf i)), 0⟩]
  simp only [cellOf, tab, List.range_one, List.map_cons, List.map_nil, List.dropLast_concat]
  congr 2
  unfold normSqCell
  rw [hfs, getLastD_append_single, ← (hf.2.2 i hi).1, cellOf_length]
  congr 2
  apply sumTo_congr
  intro c hcc
  simp only [cellOf]
  rw [getD_tab _ _ _ _ hcc]

/-! ## `angle` -/

theorem bz_single (fn : GQ → GQ → GQ) (a b : GQ) : bz fn [a] [b] = [fn a b] := by
  simp [bz, tab]

theorem angleVec_cells (n : List Nat) (f : CF) (v : Val) (vec : CF) (valid : NDA Bool)
    (cf cv : List Nat → List GQ) (vf vv : List Nat → Bool)
    (hf : Cells n f cf vf) (hv : ValCells n v cv vv)
    (hok : ∀ od, v = .raw od → OpdLiftOk n od)
    (h : angleVec f v = .ok (vec, valid)) :
    (∃ vv', Cells n vec cv vv') ∧ valid.shape = f.mesh.n ∧
      ∀ i, inRange n i = true → valid.get i = (vf i && vv i) := by
  cases v with
  | fld o =>
    have ho : Cells n o cv vv := hv
    simp only [angleVec] at h
    cases hcs : checkSame f o false with
    | error e => simp [hcs] at h
    | ok u =>
      simp only [hcs] at h
      injection h with h
      injection h with h1 h2
      subst h1; subst h2
      refine ⟨⟨vv, ho⟩, hf.1.2.1, ?_⟩
      intro i hi
      show (f.valid.get i && o.valid.get i) = _
      rw [(hf.2.2 i hi).2, (ho.2.2 i hi).2]
  | raw od =>
    have hcv : ∀ i, cv i = rawCell od i := hv.1
    have hvv : ∀ i, vv i = true := hv.2
    have hokk := hok od rfl
    cases od with
    | num z k np =>
      simp only [angleVec] at h
      split at h
      · rename_i h1
        cases hmk : mkField f.mesh f.nvdim (.num z) k none none none none with
        | error e => simp [hmk] at h
        | ok o =>
          simp only [hmk] at h
          injection h with h
          injection h with ha hb
          subst ha; subst hb
          obtain ⟨_, _, hc⟩ := mkField_num_cells _ _ _ _ _ hmk
          rw [hf.2.1, h1] at hc
          refine ⟨⟨_, hc.congr (fun i => by rw [hcv i]; rfl) (fun _ => rfl)⟩, hf.1.2.1, ?_⟩
          intro i hi
          rw [(hf.2.2 i hi).2, hvv i]; simp
      · cases h
    | arr a k np =>
      simp only [angleVec] at h
      cases hmk : mkField f.mesh f.nvdim (.arr a) k none none none none with
      | error e => simp [hmk] at h
      | ok o =>
        simp only [hmk] at h
        injection h with h
        injection h with ha hb
        subst ha; subst hb
        have hne : a.shape ≠ f.mesh.n := by rw [hf.2.1]; exact hokk
        obtain ⟨_, _, _, hc⟩ := mkField_arr_cells _ _ _ _ _ hne hmk
        rw [hf.2.1] at hc
        refine ⟨⟨_, hc.congr (fun i => by rw [hcv i]; rfl) (fun _ => rfl)⟩, hf.1.2.1, ?_⟩
        intro i hi
        rw [(hf.2.2 i hi).2, hvv i]; simp

theorem angleOp_cells (sq acos : Rat → Rat) (n : List Nat) (f g : CF) (v : Val)
    (cf cv : List Nat → List GQ) (vf vv : List Nat → Bool)
    (hf : Cells n f cf vf) (hv : ValCells n v cv vv)
    (hok : ∀ od, v = .raw od → OpdLiftOk n od)
    (h : angleOp sq acos f v = .ok g) :
    Cells n g (fun i => angleCell sq acos (cf i) (cv i)) (fun i => vf i && vv i) ∧ g.mesh = f.mesh := by
  unfold angleOp at h
  cases hav : angleVec f v with
  | error e => simp [hav] at h
  | ok p =>
    obtain ⟨vec, valid⟩ := p
    simp only [hav] at h
    obtain ⟨⟨vv', hvec⟩, hvsh, hvget⟩ := angleVec_cells n f v vec valid cf cv vf vv hf hv hok hav
    cases hd : dotOp f (.fld vec) with
    | error e => simp [hd] at h
    | ok d =>
      simp only [hd] at h
      obtain ⟨hdc, hdm, hdn, _⟩ := dotOp_fld_cells n f vec d cf cv vf vv' hf hvec hd
      cases hn1 : normOp sq f with
      | error e => simp [hn1] at h
      | ok n1 =>
        simp only [hn1] at h
        obtain ⟨hn1c, _, hn1n⟩ := normOp_cells sq n f n1 cf vf hf hn1
        cases hn2 : normOp sq vec with
        | error e => simp [hn2] at h
        | ok n2 =>
          simp only [hn2] at h
          obtain ⟨hn2c, _, hn2n⟩ := normOp_cells sq n vec n2 cv vv' hvec hn2
          cases hp : applyOperator GQ.mul false n1 (.fld n2) with
          | error e => simp [hp] at h
          | ok p =>
            simp only [hp] at h
            obtain ⟨hpc, _, hpn⟩ := applyOperator_fld_cells GQ.mul false n n1 n2 p _ _ _ _ hn1c hn2c hp
            cases hq : applyOperator GQ.div false d (.fld p) with
            | error e => simp [hq] at h
            | ok q =>
              simp only [hq] at h
              obtain ⟨hqc, hqm, hqn⟩ := applyOperator_fld_cells GQ.div false n d p q _ _ _ _ hdc hpc hq
              have hp1 : p.nvdim = 1 := by
                rw [hn1n, hn2n] at hpn; simp [bdim] at hpn; exact hpn.symm
              have hq1 : q.nvdim = 1 := by
                rw [hdn, hp1] at hqn; simp [bdim] at hqn; exact hqn.symm
              have hqs : (q.data.map fun z => (⟨acos z.re, 0⟩ : GQ)).shape = n ++ [1] := by
                show q.data.shape = n ++ [1]
                rw [hqc.1.1, hqc.2.1, hq1]
              have hvs : ∀ w, some valid = some w → w.shape = f.mesh.n := by
                intro w hw; injection hw with hw; subst hw; exact hvsh
              obtain ⟨hm, hnv, _, _, hcells⟩ := mkField_of_cells n f.mesh hf.2.1 1 _ hqs _ _ _ _ _ g hvs h
              refine ⟨⟨hcells.1, hcells.2.1, ?_⟩, hm⟩
              intro i hi
              obtain ⟨hc, hvg⟩ := hcells.2.2 i hi
              refine ⟨?_, ?_⟩
              · rw [hc]
                show cellOf (q.data.map fun z => (⟨acos z.re, 0⟩ : GQ)) i 1 = angleCell sq acos (cf i) (cv i)
                have hqcell := (hqc.2.2 i hi).1
                rw [hq1] at hqcell
                simp only [bz_single] at hqcell
                have : cellOf (q.data.map fun z => (⟨acos z.re, 0⟩ : GQ)) i 1
                    = (cellOf q.data i 1).map (fun z => (⟨acos z.re, 0⟩ : GQ)) := by
                  unfold cellOf; rw [tab_map]; rfl
                rw [this, hqcell]
                rfl
              · rw [hvg]
                show valid.get i = _
                exact hvget i hi

end DFV.C03
