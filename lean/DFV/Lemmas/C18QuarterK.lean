import DFV.Lemmas.C18Lattice
import DFV.Lemmas.Rot
/-! Quarter turns in any coordinate plane, any `k`: the matrix `Rq p q k` is a signed
permutation matrix whose index map is `np.rot90`'s and whose action on cell values is C12's
`rotVec`. -/
namespace DFV.C18
open DFV DFV.Mesh

theorem M3.ofFn_e (e : Nat → Nat → Rat) (i j : Nat) (hi : i < 3) (hj : j < 3) : (M3.ofFn e).e i j = e i j := by
  have ci : i = 0 ∨ i = 1 ∨ i = 2 := by omega
  have cj : j = 0 ∨ j = 1 ∨ j = 2 := by omega
  rcases ci with e1 | e1 | e1 <;> rcases cj with e2 | e2 | e2 <;> subst e1 <;> subst e2 <;> rfl

/-- entry function of `Rcs` -/
def entryB (p q : Nat) (c s : Rat) (i j : Nat) : Rat :=
  if i = p ∧ j = p then c else if i = p ∧ j = q then -s
  else if i = q ∧ j = p then s else if i = q ∧ j = q then c
  else if i = j then 1 else 0

def piB (p q : Nat) (odd : Bool) (j : Nat) : Nat := if odd then (if j = p then q else if j = q then p else j) else j
def sgB (p q : Nat) (c s : Rat) (j : Nat) : Rat := if j = p then c + s else if j = q then c - s else 1

theorem entryB_k0 : ∀ p, p < 3 → ∀ q, q < 3 → p ≠ q → ∀ i, i < 3 → ∀ j, j < 3 →
    entryB p q 1 0 i j = if i = piB p q false j then sgB p q 1 0 j else 0 := by decide +kernel
theorem entryB_k1 : ∀ p, p < 3 → ∀ q, q < 3 → p ≠ q → ∀ i, i < 3 → ∀ j, j < 3 →
    entryB p q 0 1 i j = if i = piB p q true j then sgB p q 0 1 j else 0 := by decide +kernel
theorem entryB_k2 : ∀ p, p < 3 → ∀ q, q < 3 → p ≠ q → ∀ i, i < 3 → ∀ j, j < 3 →
    entryB p q (-1) 0 i j = if i = piB p q false j then sgB p q (-1) 0 j else 0 := by decide +kernel
theorem entryB_k3 : ∀ p, p < 3 → ∀ q, q < 3 → p ≠ q → ∀ i, i < 3 → ∀ j, j < 3 →
    entryB p q 0 (-1) i j = if i = piB p q true j then sgB p q 0 (-1) j else 0 := by decide +kernel

/-- the four quarter turns: cosine, sine and parity -/
theorem quarter_cases3 (k : Int) :
    (k % 4 = 0 ∧ T.cosq k = 1 ∧ T.sinq k = 0 ∧ T.isOdd k = false) ∨ (k % 4 = 1 ∧ T.cosq k = 0 ∧ T.sinq k = 1 ∧ T.isOdd k = true) ∨
    (k % 4 = 2 ∧ T.cosq k = -1 ∧ T.sinq k = 0 ∧ T.isOdd k = false) ∨ (k % 4 = 3 ∧ T.cosq k = 0 ∧ T.sinq k = -1 ∧ T.isOdd k = true) := by
  unfold T.cosq T.sinq T.isOdd
  have h : k % 4 = 0 ∨ k % 4 = 1 ∨ k % 4 = 2 ∨ k % 4 = 3 := by omega
  rcases h with h | h | h | h
  · left; refine ⟨h, by simp [h], by simp [h], ?_⟩; simp; omega
  · right; left; refine ⟨h, by simp [h], by simp [h], ?_⟩; simp; omega
  · right; right; left; refine ⟨h, by simp [h], by simp [h], ?_⟩; simp; omega
  · right; right; right; refine ⟨h, by simp [h], by simp [h], ?_⟩; simp; omega

/-- axis permutation of the quarter turn `Rq p q k` -/
def piq (p q : Nat) (k : Int) (j : Nat) : Nat := piB p q (T.isOdd k) j
/-- column signs of the quarter turn `Rq p q k` -/
def sgq (p q : Nat) (k : Int) (j : Nat) : Rat := sgB p q (T.cosq k) (T.sinq k) j

theorem piB_lt (p q : Nat) (odd : Bool) (j : Nat) (hp : p < 3) (hq : q < 3) (hj : j < 3) : piB p q odd j < 3 := by
  unfold piB; split
  · split
    · exact hq
    · split
      · exact hp
      · exact hj
  · exact hj

theorem piB_invol (p q : Nat) (odd : Bool) (hpq : p ≠ q) (j : Nat) : piB p q odd (piB p q odd j) = j := by
  unfold piB
  cases odd
  · simp
  · simp only [if_true]
    by_cases h1 : j = p
    · rw [if_pos h1, if_neg (Ne.symm hpq), if_pos rfl, h1]
    · rw [if_neg h1]
      by_cases h2 : j = q
      · rw [if_pos h2, if_pos rfl, h2]
      · rw [if_neg h2, if_neg h1, if_neg h2]

theorem piB_inj (p q : Nat) (odd : Bool) (hpq : p ≠ q) (i j : Nat) (e : piB p q odd i = piB p q odd j) : i = j := by
  rw [← piB_invol p q odd hpq i, ← piB_invol p q odd hpq j, e]

/-- **a quarter turn is a signed permutation matrix** -/
theorem Rq_isLat (p q : Nat) (k : Int) (hp : p < 3) (hq : q < 3) (hpq : p ≠ q) : IsLat (Rq p q k) (piq p q k) (sgq p q k) := by
  refine ⟨fun j hj => piB_lt p q _ j hp hq hj, fun i j _ _ e => piB_inj p q _ hpq i j e, ?_, ?_⟩
  · intro j _
    unfold sgq sgB
    rcases T.quarter_cases' k with ⟨hc, hs⟩ | ⟨hc, hs⟩ | ⟨hc, hs⟩ | ⟨hc, hs⟩ <;> rw [hc, hs] <;>
      (split
       · norm_num
       · split
         · norm_num
         · left; rfl)
  · intro i j hi hj
    unfold Rq Rcs
    rw [M3.ofFn_e _ i j hi hj]
    show entryB p q (T.cosq k) (T.sinq k) i j = if i = piB p q (T.isOdd k) j then sgB p q (T.cosq k) (T.sinq k) j else 0
    rcases quarter_cases3 k with ⟨_, hc, hs, ho⟩ | ⟨_, hc, hs, ho⟩ | ⟨_, hc, hs, ho⟩ | ⟨_, hc, hs, ho⟩ <;> rw [hc, hs, ho]
    · exact entryB_k0 p hp q hq hpq i hi j hj
    · exact entryB_k1 p hp q hq hpq i hi j hj
    · exact entryB_k2 p hp q hq hpq i hi j hj
    · exact entryB_k3 p hp q hq hpq i hi j hj

theorem pinv_piq (p q : Nat) (k : Int) (hp : p < 3) (hq : q < 3) (hpq : p ≠ q) (i : Nat) (hi : i < 3) :
    pinv (piq p q k) i = piq p q k i := by
  have hL := Rq_isLat p q k hp hq hpq
  have h1 := pi_pinv hL i hi
  have h2 : piq p q k (piq p q k i) = i := piB_invol p q _ hpq i
  exact hL.inj _ _ (pinv_lt _ _) (hL.lt i hi) (by rw [h1, h2])

theorem list3_eq (l : List Nat) (h : l.length = 3) : l = [l.getD 0 0, l.getD 1 0, l.getD 2 0] := by
  match l, h with
  | [a, b, c], _ => rfl

/-- the permuted cell counts of a quarter turn are C12's `rotN` -/
theorem rotN_eq_tab (n : List Nat) (hn : n.length = 3) (p q : Nat) (k : Int) (hp : p < 3) (hq : q < 3) (hpq : p ≠ q) :
    T.rotN n p q k = tab 3 fun i => n.getD (pinv (piq p q k) i) 0 := by
  have hl : (T.rotN n p q k).length = 3 := by
    unfold T.rotN; split <;> simp [T.swapAt_length, hn]
  apply eq_tab_of_getD _ _ _ 0 hl
  intro i hi
  rw [pinv_piq p q k hp hq hpq i hi]
  unfold T.rotN piq piB
  have dflt : (default : Nat) = 0 := rfl
  cases T.isOdd k
  · simp
  · simp only [if_true]
    by_cases h1 : i = p
    · rw [if_pos h1, h1, T.getD_swapAt_left _ _ _ _ hpq (by omega), dflt]
    · rw [if_neg h1]
      by_cases h2 : i = q
      · rw [if_pos h2, h2, T.getD_swapAt_right _ _ _ _ (by omega), dflt]
      · rw [if_neg h2, T.getD_swapAt_other _ _ _ _ _ h1 h2]

/-- the source cell of a quarter turn is the one `np.rot90` reads (`srcIdx`) -/
theorem latSrc_eq_srcIdx (n : List Nat) (hn : n.length = 3) (p q : Nat) (k : Int) (hp : p < 3) (hq : q < 3) (hpq : p ≠ q)
    (idx : List Nat) (hidx : idx.length = 3) :
    [latSrc (fun a => n.getD a 0) (piq p q k) (sgq p q k) idx 0, latSrc (fun a => n.getD a 0) (piq p q k) (sgq p q k) idx 1,
     latSrc (fun a => n.getD a 0) (piq p q k) (sgq p q k) idx 2] = T.srcIdx n p q k idx := by
  have hl : (T.srcIdx n p q k idx).length = 3 := by
    unfold T.srcIdx
    split
    · exact hidx
    · split
      · simp [T.setAt_length, hidx]
      · split <;> simp [T.setAt_length, T.swapAt_length, hidx]
  rw [list3_eq _ hl]
  obtain ⟨c0, c2, c1, c3⟩ := T.srcIdx_comp n idx p q k hpq (by omega) (by omega) (by omega)
  have key : ∀ a, a < 3 → latSrc (fun a => n.getD a 0) (piq p q k) (sgq p q k) idx a = (T.srcIdx n p q k idx).getD a 0 := by
    intro a ha
    unfold latSrc piq piB sgq sgB
    rcases quarter_cases3 k with ⟨hk, hc, hs, ho⟩ | ⟨hk, hc, hs, ho⟩ | ⟨hk, hc, hs, ho⟩ | ⟨hk, hc, hs, ho⟩ <;> rw [hc, hs, ho]
    · rw [c0 hk a]
      simp only [Bool.false_eq_true, if_false]
      rw [if_pos]
      split
      · norm_num
      · split
        · norm_num
        · rfl
    · obtain ⟨s1, s2, s3⟩ := c1 hk
      simp only [if_true]
      by_cases h1 : a = p
      · rw [if_pos h1, if_pos h1, if_pos (by norm_num), h1, s1]
      · rw [if_neg h1, if_neg h1]
        by_cases h2 : a = q
        · rw [if_pos h2, if_pos h2, if_neg (by norm_num), h2, s2]
        · rw [if_neg h2, if_neg h2, if_pos rfl, s3 a h1 h2]
    · obtain ⟨s1, s2, s3⟩ := c2 hk
      simp only [Bool.false_eq_true, if_false]
      by_cases h1 : a = p
      · rw [if_pos h1, if_neg (by norm_num), h1, s1]
      · rw [if_neg h1]
        by_cases h2 : a = q
        · rw [if_pos h2, if_neg (by norm_num), h2, s2]
        · rw [if_neg h2, if_pos rfl, s3 a h1 h2]
    · obtain ⟨s1, s2, s3⟩ := c3 hk
      simp only [if_true]
      by_cases h1 : a = p
      · rw [if_pos h1, if_pos h1, if_neg (by norm_num), h1, s1]
      · rw [if_neg h1, if_neg h1]
        by_cases h2 : a = q
        · rw [if_pos h2, if_pos h2, if_pos (by norm_num), h2, s2]
        · rw [if_neg h2, if_neg h2, if_pos rfl, s3 a h1 h2]
  rw [key 0 (by omega), key 1 (by omega), key 2 (by omega)]

/-! ## the quarter turn on cell values -/

/-- `ord` lists three distinct component positions -/
def PermOrd (ord : List Nat) : Prop :=
  ord.getD 0 0 < 3 ∧ ord.getD 1 0 < 3 ∧ ord.getD 2 0 < 3 ∧
  ord.getD 0 0 ≠ ord.getD 1 0 ∧ ord.getD 0 0 ≠ ord.getD 2 0 ∧ ord.getD 1 0 ≠ ord.getD 2 0

theorem PermOrd.lt {ord} (h : PermOrd ord) (a : Nat) (ha : a < 3) : ord.getD a 0 < 3 := by
  have : a = 0 ∨ a = 1 ∨ a = 2 := by omega
  rcases this with e | e | e <;> subst e
  · exact h.1
  · exact h.2.1
  · exact h.2.2.1

theorem PermOrd.inj {ord} (h : PermOrd ord) (a b : Nat) (ha : a < 3) (hb : b < 3) (e : ord.getD a 0 = ord.getD b 0) : a = b := by
  obtain ⟨_, _, _, d01, d02, d12⟩ := h
  have ca : a = 0 ∨ a = 1 ∨ a = 2 := by omega
  have cb : b = 0 ∨ b = 1 ∨ b = 2 := by omega
  rcases ca with e1 | e1 | e1 <;> rcases cb with e2 | e2 | e2 <;> subst e1 <;> subst e2 <;> first | rfl | (exfalso; omega)

theorem PermOrd.surj {ord} (h : PermOrd ord) (c : Nat) (hc : c < 3) : ∃ a, a < 3 ∧ ord.getD a 0 = c := by
  obtain ⟨l0, l1, l2, d01, d02, d12⟩ := h
  by_cases e0 : ord.getD 0 0 = c
  · exact ⟨0, by omega, e0⟩
  · by_cases e1 : ord.getD 1 0 = c
    · exact ⟨1, by omega, e1⟩
    · exact ⟨2, by omega, by omega⟩

/-- `argsort` of a permutation is its inverse: the position that holds `ord[a]` is `a` -/
theorem invAt_ord {ord} (h : PermOrd ord) (a : Nat) (ha : a < 3) : invAt ord (ord.getD a 0) = a := by
  obtain ⟨_, _, _, d01, d02, d12⟩ := h
  unfold invAt
  have ca : a = 0 ∨ a = 1 ∨ a = 2 := by omega
  rcases ca with e | e | e <;> subst e
  · rw [if_pos rfl]
  · rw [if_neg d01, if_pos rfl]
  · rw [if_neg d02, if_neg d12]

def argsortChk : Bool :=
  (List.range 3).all fun a => (List.range 3).all fun b => (List.range 3).all fun c => (List.range 3).all fun x =>
    !(decide (a ≠ b) && decide (a ≠ c) && decide (b ≠ c)) || ((argsortL [a, b, c]).getD x 0 == invAt [a, b, c] x)

theorem argsortChk_true : argsortChk = true := by decide +kernel

theorem argsort_cases (a : Nat) (ha : a < 3) (b : Nat) (hb : b < 3) (c : Nat) (hc : c < 3) (x : Nat) (hx : x < 3)
    (hd : a ≠ b ∧ a ≠ c ∧ b ≠ c) : (argsortL [a, b, c]).getD x 0 = invAt [a, b, c] x := by
  have h := argsortChk_true
  unfold argsortChk at h
  rw [List.all_eq_true] at h
  have h1 := h a (List.mem_range.mpr ha)
  rw [List.all_eq_true] at h1
  have h2 := h1 b (List.mem_range.mpr hb)
  rw [List.all_eq_true] at h2
  have h3 := h2 c (List.mem_range.mpr hc)
  rw [List.all_eq_true] at h3
  have h4 := h3 x (List.mem_range.mpr hx)
  simp only [hd.1, hd.2.1, hd.2.2, ne_eq, not_false_eq_true, decide_true, Bool.and_self, Bool.not_true, Bool.false_or,
    beq_iff_eq] at h4
  exact h4

/-- **`argsort` of a permutation is the model's `invAt`** (the inverse permutation) -/
theorem argsort_eq_invAt {ord : List Nat} (h : PermOrd ord) (hl : ord.length = 3) (x : Nat) (hx : x < 3) :
    (argsortL ord).getD x 0 = invAt ord x := by
  obtain ⟨l0, l1, l2, d01, d02, d12⟩ := h
  match ord, hl with
  | [a, b, c], _ => exact argsort_cases a l0 b l1 c l2 x hx ⟨d01, d02, d12⟩

/-- the vector in spatial order that the code hands to `Rotation.apply` -/
def spatial (ord : List Nat) (v : List Rat) : V3 :=
  ⟨v.getD (ord.getD 0 0) 0, v.getD (ord.getD 1 0) 0, v.getD (ord.getD 2 0) 0⟩

theorem spatial_get (ord : List Nat) (v : List Rat) (a : Nat) (ha : a < 3) : (spatial ord v).get a = v.getD (ord.getD a 0) 0 := by
  have : a = 0 ∨ a = 1 ∨ a = 2 := by omega
  rcases this with e | e | e <;> subst e <;> rfl

/-- **vectors through the permutation and back**: the component that belongs to spatial axis
`a` of the stored value is component `a` of `R` applied to the vector in spatial order -/
theorem rotVal_spatial' (R : M3) {ord : List Nat} (h : PermOrd ord) (v : List Rat) (a : Nat) (ha : a < 3) :
    (rotVal 3 R ord v).getD (ord.getD a 0) 0 = (R.apply (spatial ord v)).get a := by
  unfold rotVal
  rw [if_neg (by decide), getD_tab _ _ _ _ (h.lt a ha), invAt_ord h a ha]
  rfl

theorem rotVal_length3 (R : M3) (ord : List Nat) (v : List Rat) : (rotVal 3 R ord v).length = 3 := by
  unfold rotVal; rw [if_neg (by decide)]; simp

/-- action of the plane rotation on a vector -/
theorem Rcs_apply_get (p q : Nat) (c s : Rat) (hp : p < 3) (hq : q < 3) (hpq : p ≠ q) (v : V3) (a : Nat) (ha : a < 3) :
    ((Rcs p q c s).apply v).get a =
      if a = p then c * v.get p - s * v.get q else if a = q then s * v.get p + c * v.get q else v.get a := by
  rw [M3.apply_get]
  unfold Rcs
  rw [M3.ofFn_e _ a 0 ha (by omega), M3.ofFn_e _ a 1 ha (by omega), M3.ofFn_e _ a 2 ha (by omega)]
  have cp : p = 0 ∨ p = 1 ∨ p = 2 := by omega
  have cq : q = 0 ∨ q = 1 ∨ q = 2 := by omega
  have ca : a = 0 ∨ a = 1 ∨ a = 2 := by omega
  rcases cp with e1 | e1 | e1 <;> rcases cq with e2 | e2 | e2 <;> subst e1 <;> subst e2 <;>
    first
      | (exfalso; exact hpq rfl)
      | (rcases ca with e3 | e3 | e3 <;> subst e3 <;> simp [V3.get] <;> ring)

/-- **the quarter turn of a cell value is C12's `rotVec`** on the two components that belong to
the axes of the rotated plane — every plane, every `k`, every component permutation -/
theorem rotVal_Rq (p q : Nat) (k : Int) (hp : p < 3) (hq : q < 3) (hpq : p ≠ q) {ord : List Nat} (h : PermOrd ord)
    (v : List Rat) (hv : v.length = 3) :
    rotVal 3 (Rq p q k) ord v = T.rotVec v (ord.getD p 0) (ord.getD q 0) k := by
  have hr : T.rotVec v (ord.getD p 0) (ord.getD q 0) k = tab 3 fun c =>
      if c = ord.getD p 0 then T.cosq k * v.getD (ord.getD p 0) 0 - T.sinq k * v.getD (ord.getD q 0) 0
      else if c = ord.getD q 0 then T.sinq k * v.getD (ord.getD p 0) 0 + T.cosq k * v.getD (ord.getD q 0) 0
      else v.getD c 0 := by
    unfold T.rotVec; rw [hv]
  rw [hr]
  apply eq_tab_of_getD _ _ _ 0 (rotVal_length3 _ _ _)
  intro c hc
  obtain ⟨a, ha, rfl⟩ := h.surj c hc
  rw [rotVal_spatial' _ h v a ha]
  unfold Rq
  rw [Rcs_apply_get p q _ _ hp hq hpq _ a ha, spatial_get _ _ p hp, spatial_get _ _ q hq, spatial_get _ _ a ha]
  by_cases e1 : a = p
  · rw [if_pos e1, if_pos (by rw [e1])]
  · rw [if_neg e1, if_neg (fun e => e1 (h.inj a p ha hp e))]
    by_cases e2 : a = q
    · rw [if_pos e2, if_pos (by rw [e2])]
    · rw [if_neg e2, if_neg (fun e => e2 (h.inj a q ha hq e))]

end DFV.C18
