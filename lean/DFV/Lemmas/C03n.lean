import DFV.Lemmas.C03m
/-! C03 helper lemmas, part n: `dot`, `cross` and binary ufuncs accept well-formed operands
on one mesh. -/
namespace DFV.C03
open DFV

theorem vdimsSet_one_none : vdimsSet 1 none = .ok none := rfl

theorem vmapSet_one_none (nd : Nat) (vd : Option (List String)) (dims : List String) :
    vmapSet 1 nd vd dims none = .ok [] := by
  simp [vmapSet]

/-- the default mapping exists unless labels are missing where it needs them -/
theorem vmapSet_none_accepts (nv nd : Nat) (vd : Option (List String)) (dims : List String)
    (h : vd = none → nv = 1 ∨ nv ≠ nd) : ∃ m, vmapSet nv nd vd dims none = .ok m := by
  simp only [vmapSet]
  by_cases h1 : nv = 1
  · rw [if_pos h1]; exact ⟨_, rfl⟩
  · rw [if_neg h1]
    by_cases h2 : nv = nd
    · rw [if_pos h2]
      cases vd with
      | none => rcases h rfl with h | h <;> contradiction
      | some l => exact ⟨_, rfl⟩
    · rw [if_neg h2]; exact ⟨_, rfl⟩

/-- a freshly built unlabelled scalar field (result of `dot`, `norm`, `angle`) -/
theorem mkField_scalar_accepts (M : Mesh) (res : NDA GQ) (kind : Kind) (valid : Option (NDA Bool))
    (unit : Option String) (hs : res.shape = M.n ++ [1]) (hv : ∀ v, valid = some v → v.shape = M.n) :
    ∃ g, mkField M 1 (.arr res) kind none valid none unit = .ok g ∧ Good M g ∧ g.nvdim = 1 ∧ g.vdims = none ∧
      g.vmap = [] ∧ g.unit = unit ∧ g.kind = kind.ctor := by
  obtain ⟨g, hg, hgm, hgn, hgvd, hgvm, hgu, hgk, hgwf⟩ :=
    mkField_accepts M 1 res kind none valid none unit (by omega) hs hv none [] vdimsSet_one_none
      (vmapSet_one_none _ _ _)
  refine ⟨g, hg, ⟨hgwf, ⟨?_, ?_⟩, hgm⟩, hgn, hgvd, hgvm, hgu, hgk⟩
  · rw [hgn, hgvd]; rfl
  · rw [hgn, hgvd, hgvm]; simp [vmapSet]

theorem einsumDot_shape (A B : NDA GQ) (s : List Nat) (k : Nat) (hA : A.shape = s ++ [k])
    (hB : B.shape = s ++ [k] ∨ B.shape = [k]) : ∃ res, einsumDot A B = .ok res ∧ res.shape = s := by
  have hb : bshape A.shape B.shape = some (s ++ [k]) := by
    rw [hA]
    rcases hB with h | h <;> rw [h]
    · exact bshape_self _
    · exact bshape_suffix _ _
  have hne : ¬ (A.shape = [] ∨ B.shape = []) := by
    rw [hA]
    rcases hB with h | h <;> rw [h] <;> simp
  unfold einsumDot
  rw [if_neg hne, hb]
  exact ⟨_, rfl, by simp⟩

/-- **`dot` accepts two fields with equal component counts on one mesh**: the result is an
unlabelled scalar field without mapping and unit -/
theorem dotOp_fld_accepts (M : Mesh) (hM : MeshOk M) (f o : CF) (hf : Good M f) (ho : Good M o)
    (hn : f.nvdim = o.nvdim) :
    ∃ g, dotOp f (.fld o) = .ok g ∧ Good M g ∧ g.nvdim = 1 ∧ g.vdims = none ∧ g.vmap = [] ∧ g.unit = none ∧
      g.kind = (f.kind.join o.kind).ctor := by
  obtain ⟨hwf, hsf, hmf⟩ := hf
  obtain ⟨hwo, hso, hmo⟩ := ho
  have hcs : checkSame f o false = .ok () :=
    checkSame_accepts f o false (by rw [hmf, hmo]; exact hM.2) (Or.inr hn)
  obtain ⟨res, hres, hrs⟩ := einsumDot_shape f.data o.data M.n f.nvdim (by rw [hwf.1, hmf])
    (Or.inl (by rw [hwo.1, hmo, hn]))
  obtain ⟨g, hg, hrest⟩ := mkField_scalar_accepts M ⟨res.shape ++ [1], fun idx => res.get idx.dropLast⟩
    (f.kind.join o.kind) (some (NDA.zipWith (fun x y => x && y) f.valid o.valid)) none
    (by show res.shape ++ [1] = _; rw [hrs])
    (by intro v hv; injection hv with hv; subst hv; show f.valid.shape = _; rw [hwf.2.1, hmf])
  refine ⟨g, ?_, hrest⟩
  simp only [dotOp, hcs, hres]
  rw [hmf]; exact hg

/-- **`dot` accepts a constant vector of matching length or a per-cell array** -/
theorem dotOp_raw_accepts (M : Mesh) (f : CF) (hf : Good M f) (a : NDA GQ) (k : Kind) (np : Bool)
    (hfit : RawFits f.mesh.n f.nvdim (.arr a k np)) :
    ∃ g, dotOp f (.raw (.arr a k np)) = .ok g ∧ Good M g ∧ g.nvdim = 1 ∧ g.vdims = none ∧ g.vmap = [] ∧
      g.unit = none ∧ g.kind = (f.kind.join k).ctor := by
  obtain ⟨hwf, hsf, hmf⟩ := hf
  obtain ⟨res, hres, hrs⟩ := einsumDot_shape f.data a M.n f.nvdim (by rw [hwf.1, hmf])
    (by rcases hfit with h | h
        · exact Or.inr h
        · left; rw [h, hmf])
  obtain ⟨g, hg, hrest⟩ := mkField_scalar_accepts M ⟨res.shape ++ [1], fun idx => res.get idx.dropLast⟩
    (f.kind.join k) (some f.valid) none
    (by show res.shape ++ [1] = _; rw [hrs])
    (by intro v hv; injection hv with hv; subst hv; rw [hwf.2.1, hmf])
  refine ⟨g, ?_, hrest⟩
  simp only [dotOp, hres]
  rw [hmf]; exact hg

theorem npCross_shape (A B : NDA GQ) (s : List Nat) (hA : A.shape = s ++ [3])
    (hB : B.shape = s ++ [3] ∨ B.shape = [3]) : ∃ res, npCross A B = .ok res ∧ res.shape = s ++ [3] := by
  have hb : bshape A.shape B.shape = some (s ++ [3]) := by
    rw [hA]
    rcases hB with h | h <;> rw [h]
    · exact bshape_self _
    · exact bshape_suffix _ _
  have hne : ¬ (lastAx A.shape ≠ 3 ∨ lastAx B.shape ≠ 3) := by
    rw [hA, getLastD_append_single]
    rcases hB with h | h <;> rw [h]
    · rw [getLastD_append_single]; simp
    · simp [lastAx]
  unfold npCross
  rw [if_neg hne, hb]
  exact ⟨_, rfl, rfl⟩

/-- the constructor call at the end of `cross`: labels of `self`, default mapping -/
theorem mkField_cross_accepts (M : Mesh) (hM : MeshOk M) (f : CF) (hf : Good M f) (h3 : f.nvdim = 3)
    (res : NDA GQ) (kind : Kind) (valid : NDA Bool) (hs : res.shape = M.n ++ [3]) (hv : valid.shape = M.n) :
    ∃ g, mkField M 3 (.arr res) kind f.vdims (some valid) none none = .ok g ∧ Good M g ∧ g.nvdim = 3 ∧
      g.vdims = f.vdims ∧ vmapSet 3 M.region.ndim f.vdims M.region.dims none = .ok g.vmap ∧ g.unit = none ∧
      g.kind = kind.ctor := by
  obtain ⟨hwf, hsf, hmf⟩ := hf
  have hvd : vdimsSet 3 f.vdims = .ok f.vdims := by rw [← h3]; exact hsf.1
  have hnone : f.vdims = none → (3 : Nat) = 1 ∨ 3 ≠ M.region.ndim := by
    intro h0
    rw [h0] at hvd
    exact absurd hvd (by decide)
  obtain ⟨m, hm⟩ := vmapSet_none_accepts 3 M.region.ndim f.vdims M.region.dims hnone
  obtain ⟨g, hg, hgm, hgn, hgvd, hgvm, hgu, hgk, hgwf⟩ :=
    mkField_accepts M 3 res kind f.vdims (some valid) none none (by omega) hs
      (by intro v hv'; injection hv' with hv'; subst hv'; exact hv) f.vdims m hvd hm
  have hne : f.vdims ≠ some [] := by
    intro h0
    have := (hsf.labels hwf.2.2 [] h0).1
    exact this rfl
  refine ⟨g, hg, ⟨hgwf, ?_, hgm⟩, hgn, hgvd, by rw [hgvm]; exact hm, hgu, hgk⟩
  exact mkField_stable M 3 _ _ _ _ _ _ g (by rw [hM.1]) hne hg

/-- **`cross` accepts two three-component fields on one mesh**: labels of `self`, default
mapping, no unit -/
theorem crossOp_fld_accepts (M : Mesh) (hM : MeshOk M) (f o : CF) (hf : Good M f) (ho : Good M o)
    (h3 : f.nvdim = 3) (h3' : o.nvdim = 3) :
    ∃ g, crossOp f (.fld o) = .ok g ∧ Good M g ∧ g.nvdim = 3 ∧ g.vdims = f.vdims ∧
      vmapSet 3 M.region.ndim f.vdims M.region.dims none = .ok g.vmap ∧ g.unit = none ∧
      g.kind = (f.kind.join o.kind).ctor := by
  have hcs : checkSame f o false = .ok () :=
    checkSame_accepts f o false (by rw [hf.2.2, ho.2.2]; exact hM.2) (Or.inr (by rw [h3, h3']))
  obtain ⟨res, hres, hrs⟩ := npCross_shape f.data o.data M.n (by rw [hf.1.1, hf.2.2, h3])
    (Or.inl (by rw [ho.1.1, ho.2.2, h3']))
  obtain ⟨g, hg, hrest⟩ := mkField_cross_accepts M hM f hf h3 res (f.kind.join o.kind)
    (NDA.zipWith (fun x y => x && y) f.valid o.valid) hrs (by show f.valid.shape = _; rw [hf.1.2.1, hf.2.2])
  refine ⟨g, ?_, hrest⟩
  have hnot : ¬ (f.nvdim ≠ 3 ∨ o.nvdim ≠ 3) := by simp [h3, h3']
  simp only [crossOp, hcs, hres]
  rw [if_neg hnot, hf.2.2]
  exact hg

/-- **`cross` accepts a constant 3-vector or a per-cell array of 3-vectors** -/
theorem crossOp_raw_accepts (M : Mesh) (hM : MeshOk M) (f : CF) (hf : Good M f) (h3 : f.nvdim = 3)
    (a : NDA GQ) (k : Kind) (np : Bool) (hfit : RawFits f.mesh.n f.nvdim (.arr a k np)) :
    ∃ g, crossOp f (.raw (.arr a k np)) = .ok g ∧ Good M g ∧ g.nvdim = 3 ∧ g.vdims = f.vdims ∧
      vmapSet 3 M.region.ndim f.vdims M.region.dims none = .ok g.vmap ∧ g.unit = none ∧
      g.kind = (f.kind.join k).ctor := by
  obtain ⟨res, hres, hrs⟩ := npCross_shape f.data a M.n (by rw [hf.1.1, hf.2.2, h3])
    (by rcases hfit with h | h
        · right; rw [h, h3]
        · left; rw [h, hf.2.2, h3])
  obtain ⟨g, hg, hrest⟩ := mkField_cross_accepts M hM f hf h3 res (f.kind.join k) f.valid hrs
    (by rw [hf.1.2.1, hf.2.2])
  refine ⟨g, ?_, hrest⟩
  simp only [crossOp, hres]
  rw [hf.2.2]
  exact hg

/-! ## binary ufuncs -/

/-- a non-field input the ufunc protocol takes: a number or a NumPy array -/
def UfuncOpd : Opd → Prop
  | .num _ _ _ => True
  | .arr _ _ np => np = true

theorem ufuncInput_raw_accepts (od : Opd) (h : UfuncOpd od) : ufuncInput (.raw od) = .ok (rawArr od, rawKind od) := by
  cases od with
  | num z k np => rfl
  | arr a k np =>
    have : np = true := h
    subst this
    rfl

/-- **binary ufunc on two fields**: accepted when the result has `self`'s component count -/
theorem ufunc2_ff_accepts (fn : GQ → GQ → GQ) (pw : Bool) (M : Mesh) (hM : MeshOk M) (f o : CF)
    (hf : Good M f) (ho : Good M o) (hd : bdim f.nvdim o.nvdim = some f.nvdim)
    (hpw : negIntPow pw f.kind o.kind o.data = false) :
    ∃ g, ufunc2 fn pw (.fld f) (.fld o) = .ok g ∧ Good M g ∧ g.nvdim = f.nvdim ∧ g.vdims = f.vdims ∧
      g.vmap = f.vmap ∧ g.unit = none ∧ g.kind = (f.kind.join o.kind).ctor := by
  have hshape : bshape f.data.shape o.data.shape = some (f.mesh.n ++ [f.nvdim]) := by
    rw [hf.1.1, ho.1.1, hf.2.2, ho.2.2]
    exact bshape_cells _ _ _ _ hd
  obtain ⟨res, hres, hrs⟩ := npBin_shape fn f.data o.data _ hshape
  obtain ⟨g, hg, hrest⟩ := ufuncWrap_accepts M f hf res (f.kind.join o.kind)
    (NDA.zipWith (fun x y => x && y) f.valid o.valid) hrs hf.1.2.1
  refine ⟨g, ?_, hrest⟩
  simp only [ufunc2, firstFld, ufuncInput, ufuncMeshOk, ufuncValid]
  rw [hf.2.2, ho.2.2, hM.2]
  simp only [hpw, hres, Bool.false_eq_true, if_false]
  exact hg

/-- **binary ufunc, field first, then a number or NumPy array** -/
theorem ufunc2_fr_accepts (fn : GQ → GQ → GQ) (pw : Bool) (M : Mesh) (hM : MeshOk M) (f : CF)
    (hf : Good M f) (od : Opd) (hfit : RawFits f.mesh.n f.nvdim od) (hu : UfuncOpd od)
    (hpw : negIntPow pw f.kind (rawKind od) (rawArr od) = false) :
    ∃ g, ufunc2 fn pw (.fld f) (.raw od) = .ok g ∧ Good M g ∧ g.nvdim = f.nvdim ∧ g.vdims = f.vdims ∧
      g.vmap = f.vmap ∧ g.unit = none ∧ g.kind = (f.kind.join (rawKind od)).ctor := by
  obtain ⟨res, hres, hrs⟩ := npBin_shape fn f.data (rawArr od) _ (rawFits_bshape f hf.1 od hfit).1
  obtain ⟨g, hg, hrest⟩ := ufuncWrap_accepts M f hf res (f.kind.join (rawKind od)) f.valid hrs hf.1.2.1
  refine ⟨g, ?_, hrest⟩
  unfold ufunc2
  rw [ufuncInput_raw_accepts od hu]
  simp only [firstFld, ufuncInput, ufuncMeshOk, ufuncValid]
  rw [hf.2.2, hM.2]
  simp only [hpw, hres, Bool.false_eq_true, if_false]
  exact hg

/-- **binary ufunc, a number or NumPy array first, then the field** (also the path of
`np.float64(2) * f`, `ndarray + f`) -/
theorem ufunc2_rf_accepts (fn : GQ → GQ → GQ) (pw : Bool) (M : Mesh) (hM : MeshOk M) (f : CF)
    (hf : Good M f) (od : Opd) (hfit : RawFits f.mesh.n f.nvdim od) (hu : UfuncOpd od)
    (hpw : negIntPow pw (rawKind od) f.kind f.data = false) :
    ∃ g, ufunc2 fn pw (.raw od) (.fld f) = .ok g ∧ Good M g ∧ g.nvdim = f.nvdim ∧ g.vdims = f.vdims ∧
      g.vmap = f.vmap ∧ g.unit = none ∧ g.kind = ((rawKind od).join f.kind).ctor := by
  obtain ⟨res, hres, hrs⟩ := npBin_shape fn (rawArr od) f.data _ (rawFits_bshape f hf.1 od hfit).2
  obtain ⟨g, hg, hrest⟩ := ufuncWrap_accepts M f hf res ((rawKind od).join f.kind) f.valid hrs hf.1.2.1
  refine ⟨g, ?_, hrest⟩
  unfold ufunc2
  rw [ufuncInput_raw_accepts od hu]
  simp only [firstFld, ufuncInput, ufuncMeshOk, ufuncValid]
  rw [hf.2.2, hM.2]
  simp only [hpw, hres, Bool.false_eq_true, if_false]
  exact hg

end DFV.C03
