import DFV.Lemmas.C03j
/-! C03 helper lemmas, part k: components and stacking them back. -/
namespace DFV.C03
open DFV

theorem indexOf_go_getD (xs : List String) (j k : Nat) (hj : j < xs.length) (hnd : hasDup xs = false) :
    indexOf?.go (xs.getD j "") xs k = some (k + j) := by
  induction xs generalizing j k with
  | nil => simp at hj
  | cons y ys ih =>
    simp only [hasDup, Bool.or_eq_false_iff] at hnd
    cases j with
    | zero => simp [indexOf?.go]
    | succ j =>
      have hj' : j < ys.length := by simpa using hj
      simp only [List.getD_cons_succ, indexOf?.go]
      have hne : ¬ y = ys.getD j "" := by
        intro h
        have hmem : ys.getD j "" ∈ ys := by
          rw [List.getD_eq_getElem?_getD, List.getElem?_eq_getElem hj']
          simp
        rw [← h] at hmem
        have := List.contains_iff_mem.mpr hmem
        rw [this] at hnd
        exact absurd hnd.1 (by simp)
      simp only [hne, if_false]
      rw [ih j (k + 1) hj' hnd.2]
      congr 1
      omega

theorem indexOf_getD (xs : List String) (j : Nat) (hj : j < xs.length) (hnd : hasDup xs = false) :
    indexOf? xs (xs.getD j "") = some j := by
  unfold indexOf?
  rw [indexOf_go_getD xs j 0 hj hnd]
  simp

/-- `f.label`: the scalar field of one component; it has no label and no mapping -/
theorem getComp_cells (n : List Nat) (f comp : CF) (cf : List Nat → List GQ) (vf : List Nat → Bool)
    (hf : Cells n f cf vf) (vd : List String) (hvd : f.vdims = some vd) (l : String) (c : Nat)
    (hc : c < f.nvdim) (hidx : indexOf? vd l = some c)
    (h : getComp f l = .ok comp) :
    Cells n comp (fun i => [(cf i).getD c GQ.zero]) vf ∧ comp.mesh = f.mesh ∧ comp.nvdim = 1 ∧
      comp.vdims = none ∧ comp.vmap = [] ∧ comp.unit = f.unit := by
  unfold getComp at h
  simp only [hvd, hidx] at h
  have hfs := hf.1.1
  have hshape : (f.data.shape.dropLast ++ [1]) = n ++ [1] := by rw [hfs, hf.2.1]; simp
  have hvs : ∀ v, some f.valid = some v → v.shape = f.mesh.n := by
    intro v hv; injection hv with hv; subst hv
    exact hf.1.2.1
  obtain ⟨hm, hnv, hu, _, hcells⟩ := mkField_of_cells n f.mesh hf.2.1 1 _ hshape _ _ _ _ _ comp hvs h
  obtain ⟨_, _, _, _, _, _, _, _, _, _, _, hvdm, hvmm, _⟩ := mkField_ok _ _ _ _ _ _ _ _ _ h
  have hvd0 : comp.vdims = none := by
    simp only [vdimsSet, Fld.defaultVdims] at hvdm
    injection hvdm with hvdm
    exact hvdm.symm
  have hvm0 : comp.vmap = [] := by
    rw [hvd0] at hvmm
    cases hfind : f.vmap.find? (fun p => p.1 == l) with
    | none =>
      simp only [hfind, vmapSet] at hvmm
      simp at hvmm
      exact hvmm
    | some p =>
      simp only [hfind, vmapSet] at hvmm
      simp at hvmm
      exact hvmm
  refine ⟨⟨hcells.1, hcells.2.1, ?_⟩, hm, hnv, hvd0, hvm0, hu⟩
  intro i hi
  obtain ⟨hcc, hv⟩ := hcells.2.2 i hi
  refine ⟨?_, by rw [hv]; exact (hf.2.2 i hi).2⟩
  rw [hcc]
  show cellOf _ i 1 = [(cf i).getD c GQ.zero]
  simp only [cellOf, tab, List.range_one, List.map_cons, List.map_nil, List.dropLast_concat]
  rw [← (hf.2.2 i hi).1]
  simp only [cellOf]
  rw [getD_tab _ _ _ _ hc]

theorem meshEq_self (m : Mesh) : meshEq m m = true := by
  simp [meshEq]

theorem defaultVdims_length (k : Nat) (l : List String) (h : Fld.defaultVdims k = some l) : l.length = k := by
  unfold Fld.defaultVdims at h
  split at h
  · cases h
  · split at h
    · injection h with h; subst h; simp; omega
    · injection h with h; subst h; simp

/-- labels and mapping that `<<` hands to the constructor -/
theorem shlFF_meta (f o g : CF) (h : shlFF f o = .ok g) :
    vdimsSet (f.nvdim + o.nvdim)
      (match f.vdims, o.vdims with
       | some a, some b => if hasDup (a ++ b) then none else some (a ++ b)
       | _, _ => none) = .ok g.vdims ∧
    vmapSet (f.nvdim + o.nvdim) f.mesh.region.ndim g.vdims f.mesh.region.dims
      (if (dictUpdate f.vmap o.vmap).length ≠ f.nvdim + o.nvdim then none
       else some (dictUpdate f.vmap o.vmap)) = .ok g.vmap := by
  unfold shlFF at h
  split at h
  · cases h
  · cases hst : npStack ((List.range f.nvdim).map (takeLast f.data) ++ (List.range o.nvdim).map (takeLast o.data)) with
    | error e => simp [hst] at h
    | ok res =>
      simp only [hst] at h
      obtain ⟨_, _, _, _, _, _, _, _, _, _, _, hvd, hvm, _⟩ := mkField_ok _ _ _ _ _ _ _ _ _ h
      exact ⟨hvd, hvm⟩

theorem vmapSet_none_length (nv nd : Nat) (vd : Option (List String)) (dims : List String) (m : VMap)
    (hl : ∀ l, vd = some l → l.length = nv) (h : vmapSet nv nd vd dims none = .ok m) : m.length ≤ nv := by
  simp only [vmapSet] at h
  split at h
  · injection h with h; subst h; simp
  · split at h
    · cases vd with
      | none => simp at h; subst h; simp
      | some l =>
        simp only at h
        injection h with h
        subst h
        simp only [List.length_zip, List.length_map]
        have := hl l rfl
        omega
    · injection h with h; subst h; simp

/-- state after stacking the first `j` components -/
def StackInv (f : CF) (n : List Nat) (cf : List Nat → List GQ) (vf : List Nat → Bool) (j : Nat) (acc : CF) : Prop :=
  Cells n acc (fun i => (cf i).take j) vf ∧ acc.mesh = f.mesh ∧ acc.nvdim = j ∧
    acc.vdims = Fld.defaultVdims j ∧
    vmapSet j f.mesh.region.ndim (Fld.defaultVdims j) f.mesh.region.dims none = .ok acc.vmap

theorem stackFrom_inv (n : List Nat) (f : CF) (cf : List Nat → List GQ) (vf : List Nat → Bool)
    (hf : Cells n f cf vf) (vd : List String) (hvd : f.vdims = some vd) (hlen : vd.length = f.nvdim)
    (hnd : hasDup vd = false) :
    ∀ (ls : List String) (j : Nat) (acc g : CF), 1 ≤ j → j ≤ f.nvdim → vd.drop j = ls →
      StackInv f n cf vf j acc → stackFrom f acc ls = .ok g → StackInv f n cf vf f.nvdim g := by
  intro ls
  induction ls with
  | nil =>
    intro j acc g _ hjle hdrop hinv h
    simp only [stackFrom] at h
    injection h with h
    subst h
    have : f.nvdim ≤ j := by
      have := congrArg List.length hdrop
      simp at this
      omega
    have : j = f.nvdim := by omega
    subst this
    exact hinv
  | cons l ls ih =>
    intro j acc g hj1 _ hdrop hinv h
    simp only [stackFrom] at h
    cases hgc : getComp f l with
    | error e => simp [hgc] at h
    | ok comp =>
      simp only [hgc] at h
      cases hsh : shlFF acc comp with
      | error e => simp [hsh] at h
      | ok acc' =>
        simp only [hsh] at h
        have hjlt : j < vd.length := by
          by_contra hcon
          have : vd.drop j = [] := List.drop_eq_nil_of_le (by omega)
          rw [this] at hdrop; cases hdrop
        have hl : l = vd.getD j "" := by
          have := congrArg List.head? hdrop
          simp only [List.head?_drop, List.head?_cons] at this
          rw [List.getD_eq_getElem?_getD, this]; rfl
        have hidx : indexOf? vd l = some j := by rw [hl]; exact indexOf_getD vd j hjlt hnd
        have hjn : j < f.nvdim := by rw [← hlen]; exact hjlt
        obtain ⟨hcc, hcm, hcn, hcvd, hcvm, _⟩ := getComp_cells n f comp cf vf hf vd hvd l j hjn hidx hgc
        obtain ⟨hacc, haccm, haccn, haccvd, haccvm⟩ := hinv
        obtain ⟨hcells, hm', hnv'⟩ := shlFF_cells n acc comp acc' _ _ _ _ hacc hcc hsh
        obtain ⟨hvd', hvm'⟩ := shlFF_meta acc comp acc' hsh
        rw [hcvd] at hvd'
        have hvd'' : acc'.vdims = Fld.defaultVdims (j + 1) := by
          have : (match acc.vdims, (none : Option (List String)) with
                  | some a, some b => if hasDup (a ++ b) then none else some (a ++ b)
                  | _, _ => none) = none := by
            cases acc.vdims <;> rfl
          rw [this, haccn, hcn] at hvd'
          simp only [vdimsSet] at hvd'
          injection hvd' with hvd'
          exact hvd'.symm
        have hvmlen : acc.vmap.length ≤ j :=
          vmapSet_none_length j _ _ _ _ (fun l hl => defaultVdims_length j l hl) haccvm
        have hvm'' : vmapSet (j + 1) f.mesh.region.ndim (Fld.defaultVdims (j + 1)) f.mesh.region.dims none
            = .ok acc'.vmap := by
          rw [hcvm] at hvm'
          have hdu : dictUpdate acc.vmap [] = acc.vmap := rfl
          rw [hdu, haccn, hcn] at hvm'
          have : acc.vmap.length ≠ j + 1 := by omega
          simp only [this, ne_eq, not_false_eq_true, if_true] at hvm'
          rw [hvd'', haccm] at hvm'
          exact hvm'
        refine ih (j + 1) acc' g (by omega) (by omega) ?_
          ⟨⟨hcells.1, hcells.2.1, ?_⟩, by rw [hm', haccm], by rw [hnv', haccn, hcn], hvd'', hvm''⟩ h
        · rw [← List.drop_drop, hdrop]; rfl
        · intro i hi
          obtain ⟨h1, h2⟩ := hcells.2.2 i hi
          refine ⟨?_, by rw [h2]; simp⟩
          rw [h1]
          have hji : j < (cf i).length := by rw [hf.length i hi]; exact hjn
          show (cf i).take j ++ [(cf i).getD j GQ.zero] = (cf i).take (j + 1)
          rw [List.getD_eq_getElem?_getD, List.getElem?_eq_getElem hji]
          simp only [Option.getD_some]
          exact List.take_append_getElem hji

/-- `f.l₀ << f.l₁ << … << f.lₖ₋₁` reproduces values, validity, mesh and component count;
the labels are the default labels and the mapping the default mapping -/
theorem stackComps_inv (n : List Nat) (f g : CF) (cf : List Nat → List GQ) (vf : List Nat → Bool)
    (hf : Cells n f cf vf) (vd : List String) (hvd : f.vdims = some vd) (hlen : vd.length = f.nvdim)
    (hnd : hasDup vd = false) (h : stackComps f = .ok g) : StackInv f n cf vf f.nvdim g := by
  unfold stackComps at h
  have hpos := hf.1.2.2
  cases vd with
  | nil => simp at hlen; omega
  | cons l ls =>
    simp only [hvd] at h
    cases hgc : getComp f l with
    | error e => simp [hgc] at h
    | ok comp =>
      simp only [hgc] at h
      have hidx : indexOf? (l :: ls) l = some 0 := by simp [indexOf?, indexOf?.go]
      obtain ⟨hcc, hcm, hcn, hcvd, hcvm, _⟩ := getComp_cells n f comp cf vf hf (l :: ls) hvd l 0 hpos hidx hgc
      refine stackFrom_inv n f cf vf hf (l :: ls) hvd hlen hnd ls 1 comp g (by omega) (by omega) rfl
        ⟨⟨hcc.1, hcc.2.1, ?_⟩, hcm, hcn, by rw [hcvd]; rfl, by rw [hcvm]; rfl⟩ h
      intro i hi
      obtain ⟨h1, h2⟩ := hcc.2.2 i hi
      refine ⟨?_, h2⟩
      rw [h1]
      have h0 : 0 < (cf i).length := by rw [hf.length i hi]; exact hpos
      show [(cf i).getD 0 GQ.zero] = (cf i).take 1
      cases hcf : cf i with
      | nil => rw [hcf] at h0; simp at h0
      | cons x xs => simp

end DFV.C03
