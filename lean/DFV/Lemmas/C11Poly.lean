import Mathlib.Algebra.Ring.Hom.Defs
import Mathlib.Algebra.Ring.Rat
import Mathlib.Tactic.LinearCombination
import DFV.Lemmas.C11Arr
import DFV.Lemmas.C11Nat
/-!
C11: evaluation of the driver's formal root-of-unity arithmetic (`Poly`, `Model/C11.lean`) into
an arbitrary commutative ring.

`Ev R` = a ring homomorphism `q : ℚ → R`, an element `I` with `I·I = -1` and one element `ζ a`
per axis.  `ev.eval d p` = `Σ_terms (q re + q im · I) · Π_{a<d} ζ_a^(e_a)`.

* `eval` preserves `0 1 + *` for ANY `ζ` (`eval_isHom`): sums-as-concatenation and
  products-as-added-exponent-vectors are sound without any hypothesis on the roots;
* `eval (Poly.conj ns p) = conj (eval p)` and `Σ_k dense[k]·ζ^(unflat k) = eval p` when
  `ζ_a^(n_a) = 1` (exponent reduction mod the counts, collection of like monomials);
* the driver's formal roots `Poly.roots ns` evaluate to roots in the sense of `Roots`
  whenever every `ζ_a` is a primitive `n_a`-th root of unity (`PrimRoot`).
-/
namespace DFV.C11
open DFV

variable {R : Type} [CommRing R]

/-! ### finite products -/

/-- `f 0 * f 1 * … * f (n-1)` -/
def prodN : Nat → (Nat → R) → R
  | 0, _ => 1
  | n + 1, f => prodN n f * f n

theorem prodN_congr (n : Nat) (f g : Nat → R) (h : ∀ i, i < n → f i = g i) : prodN n f = prodN n g := by
  induction n with
  | zero => rfl
  | succ n ih =>
    simp only [prodN]
    rw [ih (fun i hi => h i (by omega)), h n (by omega)]

theorem prodN_one (n : Nat) : prodN n (fun _ => (1 : R)) = 1 := by
  induction n with
  | zero => rfl
  | succ n ih => simp [prodN, ih]

theorem prodN_mul (n : Nat) (f g : Nat → R) : prodN n (fun i => f i * g i) = prodN n f * prodN n g := by
  induction n with
  | zero => simp [prodN]
  | succ n ih => simp only [prodN, ih]; ring

/-- a product with a single factor different from 1 -/
theorem prodN_single (n : Nat) (f : Nat → R) (j : Nat) (hj : j < n) (h : ∀ i, i < n → i ≠ j → f i = 1) :
    prodN n f = f j := by
  induction n with
  | zero => omega
  | succ n ih =>
    simp only [prodN]
    by_cases hjn : j = n
    · subst hjn
      rw [prodN_congr j f (fun _ => 1) (fun i hi => h i (by omega) (by omega)), prodN_one]; ring
    · rw [ih (by omega) (fun i hi hne => h i (by omega) hne), h n (by omega) (fun e => hjn e.symm)]; ring

/-! ### evaluation data and evaluation -/

/-- where the formal symbols go: rationals through `q`, the imaginary unit to `I`, the formal
root of axis `a` to `ζ a` -/
structure Ev (R : Type) [CommRing R] where
  q : ℚ →+* R
  I : R
  I_sq : I * I = -1
  ζ : Nat → R

namespace Ev
variable (ev : Ev R)

/-- value of a Gaussian-rational coefficient `re + i·im` -/
def coef (re im : Rat) : R := ev.q re + ev.q im * ev.I

/-- value of the monomial with exponent vector `e` among `d` axes: `Π_{a<d} ζ_a^(e_a)` -/
def mono (d : Nat) (e : List Nat) : R := prodN d fun a => ev.ζ a ^ e.getD a 0

def term (d : Nat) (t : List Nat × Rat × Rat) : R := ev.coef t.2.1 t.2.2 * ev.mono d t.1

def evalL (d : Nat) : List (List Nat × Rat × Rat) → R
  | [] => 0
  | t :: ts => ev.term d t + evalL d ts

/-- value of a formal combination -/
def eval (d : Nat) (p : Poly) : R := ev.evalL d p.terms

theorem coef_add (a b c e : Rat) : ev.coef (a + c) (b + e) = ev.coef a b + ev.coef c e := by
  simp only [coef, map_add]; ring

theorem coef_zero : ev.coef 0 0 = 0 := by simp [coef]

theorem coef_mul (a b c e : Rat) :
    ev.coef a b * ev.coef c e = ev.coef (a * c - b * e) (a * e + b * c) := by
  simp only [coef, map_add, map_sub, map_mul]
  linear_combination (ev.q b * ev.q e) * ev.I_sq

theorem addExp_nil_right (x : List Nat) : addExp x [] = x := by
  cases x <;> simp [addExp]

theorem addExp_getD (x y : List Nat) (a : Nat) : (addExp x y).getD a 0 = x.getD a 0 + y.getD a 0 := by
  induction x generalizing y a with
  | nil => simp [addExp]
  | cons x xs ih =>
    cases y with
    | nil => simp [addExp]
    | cons y ys =>
      cases a with
      | zero => simp [addExp]
      | succ a => simpa [addExp] using ih ys a

theorem mono_addExp (d : Nat) (x y : List Nat) : ev.mono d (addExp x y) = ev.mono d x * ev.mono d y := by
  unfold mono
  rw [← prodN_mul]
  apply prodN_congr
  intro a _
  rw [addExp_getD, pow_add]

theorem mono_nil (d : Nat) : ev.mono d [] = 1 := by
  unfold mono
  rw [prodN_congr d _ (fun _ => 1) (fun a _ => by simp), prodN_one]

theorem evalL_append (d : Nat) (xs ys : List (List Nat × Rat × Rat)) :
    ev.evalL d (xs ++ ys) = ev.evalL d xs + ev.evalL d ys := by
  induction xs with
  | nil => simp [evalL]
  | cons x xs ih => simp only [List.cons_append, evalL, ih]; ring

/-- the product of two terms, as the `Mul Poly` instance forms it -/
def mulT (t1 t2 : List Nat × Rat × Rat) : List Nat × Rat × Rat :=
  (addExp t1.1 t2.1, t1.2.1 * t2.2.1 - t1.2.2 * t2.2.2, t1.2.1 * t2.2.2 + t1.2.2 * t2.2.1)

theorem term_mulT (d : Nat) (t1 t2 : List Nat × Rat × Rat) :
    ev.term d (mulT t1 t2) = ev.term d t1 * ev.term d t2 := by
  simp only [term, mulT, mono_addExp, ← coef_mul]; ring

theorem evalL_map_mulT (d : Nat) (t1 : List Nat × Rat × Rat) (ts : List (List Nat × Rat × Rat)) :
    ev.evalL d (ts.map (mulT t1)) = ev.term d t1 * ev.evalL d ts := by
  induction ts with
  | nil => simp [evalL]
  | cons t ts ih => simp only [List.map_cons, evalL, ih, term_mulT]; ring

theorem evalL_flatMap (d : Nat) (xs ys : List (List Nat × Rat × Rat)) :
    ev.evalL d (xs.flatMap fun t1 => ys.map (mulT t1)) = ev.evalL d xs * ev.evalL d ys := by
  induction xs with
  | nil => simp [evalL]
  | cons x xs ih => simp only [List.flatMap_cons, evalL_append, evalL_map_mulT, ih, evalL]; ring

theorem eval_zero (d : Nat) : ev.eval d 0 = 0 := rfl

theorem eval_one (d : Nat) : ev.eval d 1 = 1 := by
  show ev.evalL d [([], 1, 0)] = 1
  simp [evalL, term, coef, mono_nil]

theorem eval_add (d : Nat) (a b : Poly) : ev.eval d (a + b) = ev.eval d a + ev.eval d b :=
  ev.evalL_append d a.terms b.terms

theorem eval_mul (d : Nat) (a b : Poly) : ev.eval d (a * b) = ev.eval d a * ev.eval d b :=
  ev.evalL_flatMap d a.terms b.terms

/-- **the formal arithmetic is sound**: evaluation preserves `0 1 + *`, whatever the `ζ_a` are -/
theorem eval_isHom (d : Nat) : IsHom (ev.eval d) :=
  ⟨ev.eval_zero d, ev.eval_one d, ev.eval_add d, ev.eval_mul d⟩

theorem eval_const (d : Nat) (re im : Rat) : ev.eval d (Poly.const re im) = ev.coef re im := by
  show ev.evalL d [([], re, im)] = _
  simp [evalL, term, mono_nil]

theorem getD_replicate_append (a k b : Nat) :
    (List.replicate a 0 ++ [k]).getD b 0 = if b = a then k else 0 := by
  induction a generalizing b with
  | zero =>
    cases b with
    | zero => simp
    | succ b => simp
  | succ a ih =>
    cases b with
    | zero => simp [List.replicate_succ]
    | succ b => simpa [List.replicate_succ] using ih b

theorem eval_mono (d a k : Nat) (ha : a < d) : ev.eval d (Poly.mono a k) = ev.ζ a ^ k := by
  show ev.evalL d [(List.replicate a 0 ++ [k], 1, 0)] = _
  simp only [evalL, term, coef, map_one, map_zero, zero_mul, add_zero, one_mul, mono]
  rw [prodN_single d _ a ha (fun i _ hne => by rw [getD_replicate_append, if_neg hne, pow_zero]),
    getD_replicate_append, if_pos rfl]

/-- the values of the driver's formal root parameters of axis `a` with `n` samples -/
def root (a n : Nat) : Root R := ⟨ev.ζ a, ev.ζ a ^ (n - 1), ev.q (1 / (n : Rat))⟩

theorem eval_root (d a n : Nat) (ha : a < d) : Root.map (ev.eval d) (Poly.root a n) = ev.root a n := by
  simp only [Root.map, Poly.root, root, eval_mono _ _ _ _ ha, eval_const, coef, map_zero, zero_mul, add_zero,
    pow_one]

/-- the values of `Poly.roots ns` -/
def roots (ns : List Nat) : List (Root R) := tab ns.length fun a => ev.root a (ns.getD a 1)

theorem eval_roots (ns : List Nat) :
    (Poly.roots ns).map (Root.map (ev.eval ns.length)) = ev.roots ns := by
  unfold Poly.roots roots
  rw [tab_map]
  apply tab_congr
  intro a ha
  exact ev.eval_root _ _ _ ha

end Ev

/-! ### primitive roots: the formal roots evaluate to roots in the sense of `Roots` -/

/-- `z` is a primitive `n`-th root of unity, in the form the value theorems use -/
structure PrimRoot (n : Nat) (z : R) : Prop where
  pow_n : z ^ n = 1
  orth : ∀ k, 0 < k → k < n → sumN n (fun j => z ^ (j * k)) = 0

theorem Ev.root_isRoot (ev : Ev R) (a n : Nat) (hn : 0 < n) (h : PrimRoot n (ev.ζ a)) : IsRoot n (ev.root a n) := by
  refine ⟨h.pow_n, ?_, ?_, h.orth⟩
  · show ev.ζ a * ev.ζ a ^ (n - 1) = 1
    rw [← pow_succ', Nat.sub_add_cancel hn]; exact h.pow_n
  · show ev.q (1 / (n : Rat)) * (n : R) = 1
    have hn0 : (n : ℚ) ≠ 0 := by exact_mod_cast (Nat.pos_iff_ne_zero.mp hn)
    rw [← map_natCast ev.q n, ← map_mul, one_div, inv_mul_cancel₀ hn0, map_one]

theorem Roots_tab (ns : List Nat) (g : Nat → Root R) (h : ∀ a, a < ns.length → IsRoot (ns.getD a 1) (g a)) :
    Roots ns (tab ns.length g) := by
  induction ns generalizing g with
  | nil => trivial
  | cons n ns ih =>
    have e : tab (n :: ns).length g = g 0 :: tab ns.length (fun a => g (a + 1)) := by
      simp [tab, List.range_succ_eq_map, Function.comp_def]
    rw [e]
    refine ⟨?_, ?_⟩
    · simpa using h 0 (by simp)
    · simp only [List.tail_cons]
      apply ih
      intro a ha
      simpa using h (a + 1) (by simpa using ha)

/-- every axis has a positive count and a primitive root -/
def PrimRoots (ev : Ev R) (ns : List Nat) : Prop :=
  ∀ a, a < ns.length → 0 < ns.getD a 1 ∧ PrimRoot (ns.getD a 1) (ev.ζ a)

theorem Ev.roots_Roots (ev : Ev R) (ns : List Nat) (h : PrimRoots ev ns) : Roots ns (ev.roots ns) :=
  Roots_tab ns _ fun a ha => ev.root_isRoot a _ (h a ha).1 (h a ha).2

/-! ### conjugation -/

/-- `z^((n - e mod n) mod n) = z⁻¹^e` when `z^n = 1` -/
theorem pow_neg_mod (z zi : R) (n e : Nat) (hn : 0 < n) (hz : z ^ n = 1) (hi : z * zi = 1) :
    z ^ ((n - e % n) % n) = zi ^ e := by
  have h1 : z ^ ((n - e % n) % n) * z ^ e = 1 := by
    rw [← pow_add, ← pow_mod_of_pow_eq_one z n _ hz]
    have : ((n - e % n) % n + e) % n = 0 := by
      have hlt : e % n < n := Nat.mod_lt _ hn
      have h0 : ((n - e % n) % n + e) % n = ((n - e % n) + e % n) % n := by
        rw [Nat.add_mod, Nat.mod_mod, Nat.add_mod (n - e % n) (e % n) n, Nat.mod_mod]
      have : n - e % n + e % n = n := by omega
      rw [h0, this, Nat.mod_self]
    rw [this, pow_zero]
  have h2 : z ^ e * zi ^ e = 1 := by rw [← mul_pow, hi, one_pow]
  calc z ^ ((n - e % n) % n) = z ^ ((n - e % n) % n) * (z ^ e * zi ^ e) := by rw [h2, mul_one]
    _ = (z ^ ((n - e % n) % n) * z ^ e) * zi ^ e := by ring
    _ = zi ^ e := by rw [h1, one_mul]

/-- the hypotheses on a conjugation of `R` relative to the evaluation data: a ring
endomorphism fixing the rationals, negating `I` and inverting every `ζ_a` (a < d) -/
structure Ev.ConjOK (ev : Ev R) (conj : R → R) (d : Nat) : Prop where
  isConj : IsConj conj
  fix_q : ∀ x, conj (ev.q x) = ev.q x
  neg_I : conj ev.I = -ev.I
  inv_ζ : ∀ a, a < d → ev.ζ a * conj (ev.ζ a) = 1

theorem IsConj.map_prodN {conj : R → R} (h : IsConj conj) (n : Nat) (f : Nat → R) :
    conj (prodN n f) = prodN n (fun i => conj (f i)) := by
  induction n with
  | zero => simp [prodN, h.map_one]
  | succ n ih => simp only [prodN, h.map_mul, ih]

theorem Ev.conj_term (ev : Ev R) (conj : R → R) (ns : List Nat) (hc : ev.ConjOK conj ns.length)
    (hpos : ∀ a, a < ns.length → 0 < ns.getD a 1) (hζ : ∀ a, a < ns.length → ev.ζ a ^ ns.getD a 1 = 1)
    (t : List Nat × Rat × Rat) :
    ev.term ns.length
        (tab ns.length (fun a => (ns.getD a 1 - t.1.getD a 0 % ns.getD a 1) % ns.getD a 1), t.2.1, -t.2.2)
      = conj (ev.term ns.length t) := by
  simp only [Ev.term]
  rw [hc.isConj.map_mul]
  congr 1
  · simp only [Ev.coef, hc.isConj.map_add, hc.isConj.map_mul, hc.fix_q, hc.neg_I, map_neg]; ring
  · unfold Ev.mono
    rw [hc.isConj.map_prodN]
    apply prodN_congr
    intro a ha
    rw [getD_tab _ _ _ _ ha, hc.isConj.map_pow]
    exact pow_neg_mod _ _ _ _ (hpos a ha) (hζ a ha) (hc.inv_ζ a ha)

/-- **`Poly.conj` is conjugation** once `ζ_a^(n_a) = 1` -/
theorem Ev.eval_conj (ev : Ev R) (conj : R → R) (ns : List Nat) (hc : ev.ConjOK conj ns.length)
    (hpos : ∀ a, a < ns.length → 0 < ns.getD a 1) (hζ : ∀ a, a < ns.length → ev.ζ a ^ ns.getD a 1 = 1)
    (p : Poly) : ev.eval ns.length (Poly.conj ns p) = conj (ev.eval ns.length p) := by
  unfold Ev.eval Poly.conj
  simp only
  induction p.terms with
  | nil => simp [Ev.evalL, hc.isConj.map_zero]
  | cons t ts ih =>
    simp only [List.map_cons, Ev.evalL, hc.isConj.map_add, ih]
    rw [ev.conj_term conj ns hc hpos hζ t]

theorem ConjRoots_tab (conj : R → R) (ns : List Nat) (g : Nat → Root R)
    (h : ∀ a, a < ns.length → conj (g a).w = (g a).wi) : ConjRoots conj ns (tab ns.length g) := by
  induction ns generalizing g with
  | nil => trivial
  | cons n ns ih =>
    have e : tab (n :: ns).length g = g 0 :: tab ns.length (fun a => g (a + 1)) := by
      simp [tab, List.range_succ_eq_map, Function.comp_def]
    rw [e]
    refine ⟨?_, ?_⟩
    · simpa using h 0 (by simp)
    · simp only [List.tail_cons]
      apply ih
      intro a ha
      exact h (a + 1) (by simpa using ha)

/-- the conjugation inverts the evaluated formal roots -/
theorem Ev.roots_ConjRoots (ev : Ev R) (conj : R → R) (ns : List Nat) (hc : ev.ConjOK conj ns.length)
    (hpos : ∀ a, a < ns.length → 0 < ns.getD a 1) (hζ : ∀ a, a < ns.length → ev.ζ a ^ ns.getD a 1 = 1) :
    ConjRoots conj ns (ev.roots ns) := by
  unfold Ev.roots
  apply ConjRoots_tab
  intro a ha
  show conj (ev.ζ a) = ev.ζ a ^ (ns.getD a 1 - 1)
  have h1 : ev.ζ a * ev.ζ a ^ (ns.getD a 1 - 1) = 1 := by
    rw [← pow_succ', Nat.sub_add_cancel (hpos a ha)]; exact hζ a ha
  calc conj (ev.ζ a) = conj (ev.ζ a) * (ev.ζ a * ev.ζ a ^ (ns.getD a 1 - 1)) := by rw [h1, mul_one]
    _ = (ev.ζ a * conj (ev.ζ a)) * ev.ζ a ^ (ns.getD a 1 - 1) := by ring
    _ = ev.ζ a ^ (ns.getD a 1 - 1) := by rw [hc.inv_ζ a ha, one_mul]

/-! ### collection of like monomials, exponents reduced mod the counts -/

theorem redExp_inRange (ns e : List Nat) (hpos : ∀ a, a < ns.length → 0 < ns.getD a 1) :
    inRange ns (Poly.redExp ns e) = true := by
  unfold Poly.redExp
  induction ns generalizing e with
  | nil => simp [tab, inRange]
  | cons n ns ih =>
    have e1 : tab (n :: ns).length (fun a => e.getD a 0 % (n :: ns).getD a 1)
        = (e.getD 0 0 % n) :: tab ns.length (fun a => e.tail.getD a 0 % ns.getD a 1) := by
      cases e with
      | nil => simp [tab, List.range_succ_eq_map, Function.comp_def]
      | cons x xs => simp [tab, List.range_succ_eq_map, Function.comp_def]
    rw [e1, inRange_cons]
    refine ⟨Nat.mod_lt _ (by simpa using hpos 0 (by simp)), ih e.tail ?_⟩
    intro a ha
    simpa using hpos (a + 1) (by simpa using ha)

theorem Ev.mono_redExp (ev : Ev R) (ns e : List Nat) (hζ : ∀ a, a < ns.length → ev.ζ a ^ ns.getD a 1 = 1) :
    ev.mono ns.length (Poly.redExp ns e) = ev.mono ns.length e := by
  unfold Ev.mono Poly.redExp
  apply prodN_congr
  intro a ha
  rw [getD_tab _ _ _ _ ha]
  exact pow_mod_of_pow_eq_one _ _ _ (hζ a ha)

/-- value of a dense coefficient table: `Σ_k c_k · ζ^(unflat k)` — what the harness computes
from the driver's output with `ζ_a = exp(-2πi/n_a)` -/
def Ev.evalDense (ev : Ev R) (ns : List Nat) (tbl : List (Rat × Rat)) : R :=
  sumN (natProd ns) fun k => ev.coef (tbl.getD k (0, 0)).1 (tbl.getD k (0, 0)).2 * ev.mono ns.length (unflatC ns k)

theorem Ev.coefAt_sum (ev : Ev R) (N : Nat) (Mo : Nat → R) (ts : List (Nat × Rat × Rat))
    (hts : ∀ t ∈ ts, t.1 < N) :
    sumN N (fun k => ev.coef (Poly.coefAt k ts).1 (Poly.coefAt k ts).2 * Mo k)
      = (ts.map fun t => ev.coef t.2.1 t.2.2 * Mo t.1).sum := by
  induction ts with
  | nil => simp [Poly.coefAt, ev.coef_zero, sumN_zero]
  | cons t ts ih =>
    have hstep : ∀ k, ev.coef (Poly.coefAt k (t :: ts)).1 (Poly.coefAt k (t :: ts)).2 * Mo k
        = (if k = t.1 then ev.coef t.2.1 t.2.2 * Mo k else 0)
          + ev.coef (Poly.coefAt k ts).1 (Poly.coefAt k ts).2 * Mo k := by
      intro k
      simp only [Poly.coefAt]
      by_cases hk : t.1 = k
      · rw [if_pos hk, if_pos hk.symm, ev.coef_add]; ring
      · rw [if_neg hk, if_neg (fun e => hk e.symm)]; ring
    rw [sumN_congr N _ _ (fun k _ => hstep k), sumN_add, ih (fun t' ht' => hts t' (by simp [ht'])),
      sumN_single N _ t.1 (hts t (by simp)) (fun i _ hne => by rw [if_neg hne])]
    simp

theorem Ev.evalL_eq_sum (ev : Ev R) (d : Nat) (ts : List (List Nat × Rat × Rat)) :
    ev.evalL d ts = (ts.map (ev.term d)).sum := by
  induction ts with
  | nil => simp [Ev.evalL]
  | cons t ts ih => simp [Ev.evalL, ih]

/-- **the printed form has the value of the combination**: collecting like monomials with
exponents reduced mod the counts does not change the value once `ζ_a^(n_a) = 1` -/
theorem Ev.evalDense_dense (ev : Ev R) (ns : List Nat) (hpos : ∀ a, a < ns.length → 0 < ns.getD a 1)
    (hζ : ∀ a, a < ns.length → ev.ζ a ^ ns.getD a 1 = 1) (p : Poly) :
    ev.evalDense ns (Poly.dense ns p) = ev.eval ns.length p := by
  unfold Ev.evalDense Poly.dense Poly.denseOf
  have hget : ∀ k, k < natProd ns →
      (tab (natProd ns) fun k => Poly.coefAt k (p.terms.map fun t => (flatC ns (Poly.redExp ns t.1), t.2.1, t.2.2))).getD k (0, 0)
        = Poly.coefAt k (p.terms.map fun t => (flatC ns (Poly.redExp ns t.1), t.2.1, t.2.2)) :=
    fun k hk => getD_tab _ _ _ _ hk
  rw [sumN_congr _ _ _ (fun k hk => by rw [hget k hk])]
  rw [ev.coefAt_sum (natProd ns) (fun k => ev.mono ns.length (unflatC ns k))]
  · rw [Ev.eval, ev.evalL_eq_sum, List.map_map]
    congr 1
    apply List.map_congr_left
    intro t _
    simp only [Function.comp, Ev.term]
    rw [unflatC_flatC ns _ (redExp_inRange ns t.1 hpos), ev.mono_redExp ns t.1 hζ]
  · intro t ht
    obtain ⟨t0, _, rfl⟩ := List.mem_map.mp ht
    exact flatC_lt ns _ (redExp_inRange ns t0.1 hpos)

end DFV.C11
