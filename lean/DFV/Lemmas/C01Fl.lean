import DFV.Lemmas.Rounding
import DFV.Lemmas.C01Tol
import DFV.Model.C01
/-! C01 helper lemmas, round 2: error of the quotient `fl(fl(x − pmin) / fl(fl(pmax − pmin)/n))`
that `Mesh.point2index` floors, for the exact sequence of rounded operations of the code
(the cell size itself is a rounded quantity), and what it means for the index. -/
namespace DFV.C01
open DFV DFV.Mesh

/-- two roundings, sharp form: `|fl(fl(y)/c) − y/c| ≤ (2u + u²)·|y/c|` -/
theorem quot_err2 (R : Rounding) (y c : Rat) (hc : 0 < c) :
    |R.fl (R.fl y / c) - y / c| ≤ (2 * R.u + R.u * R.u) * |y / c| := by
  have hu := R.u_nonneg
  have h1 := R.err y
  have h2 := R.err (R.fl y / c)
  have hd : |R.fl y / c - y / c| ≤ R.u * |y / c| := by
    have e : R.fl y / c - y / c = (R.fl y - y) / c := by field_simp
    rw [e, abs_div, abs_div, abs_of_pos hc]
    rw [← mul_div_assoc, div_le_div_iff_of_pos_right hc]
    exact h1
  have hq : |R.fl y / c| ≤ (1 + R.u) * |y / c| := abs_le_of_err R.u (y / c) (R.fl y / c) hd
  have e : R.fl (R.fl y / c) - y / c = (R.fl (R.fl y / c) - R.fl y / c) + (R.fl y / c - y / c) := by ring
  rw [e]
  have t := abs_add_le (R.fl (R.fl y / c) - R.fl y / c) (R.fl y / c - y / c)
  have hn := abs_nonneg (y / c)
  have : R.u * |R.fl y / c| ≤ R.u * ((1 + R.u) * |y / c|) := mul_le_mul_of_nonneg_left hq hu
  nlinarith

/-- the quotient with a perturbed divisor: if `|c' − c| ≤ (2u + u²)·c` then
`|fl(fl(y)/c') − y/c| ≤ 5u·|y/c|` -/
theorem quot_err_cell (R : Rounding) (y c c' : Rat) (hc : 0 < c)
    (hcc : |c' - c| ≤ (2 * R.u + R.u * R.u) * c) :
    0 < c' ∧ |R.fl (R.fl y / c') - y / c| ≤ 5 * R.u * |y / c| := by
  have hu := R.u_nonneg
  have hu16 := R.u_small
  set g := 2 * R.u + R.u * R.u with hg
  have hg0 : 0 ≤ g := by positivity
  have huu : R.u * R.u ≤ 1 / 16 * R.u := by nlinarith
  have hg1 : g ≤ 33 / 256 := by rw [hg]; nlinarith
  rw [abs_le] at hcc
  have hc' : 0 < c' := by nlinarith
  refine ⟨hc', ?_⟩
  have h1 := quot_err2 R y c' hc'
  rw [← hg] at h1
  -- Q' := |y / c'|,  Q := |y / c|
  have hQ : |y / c'| * c' = |y / c| * c := by
    rw [abs_div, abs_div, abs_of_pos hc, abs_of_pos hc']
    field_simp
  have hQ'0 := abs_nonneg (y / c')
  have hQ0 := abs_nonneg (y / c)
  have hrel : |y / c'| * (1 - g) ≤ |y / c| := by
    have : |y / c'| * ((1 - g) * c) ≤ |y / c'| * c' := mul_le_mul_of_nonneg_left (by linarith) hQ'0
    have : |y / c'| * (1 - g) * c ≤ |y / c| * c := by rw [← hQ]; linarith
    exact le_of_mul_le_mul_right this hc
  have h2 : |y / c' - y / c| ≤ g * |y / c'| := by
    have e : y / c' - y / c = (y / c') * ((c - c') / c) := by field_simp
    rw [e, abs_mul]
    have : |(c - c') / c| ≤ g := by
      rw [abs_div, abs_of_pos hc, div_le_iff₀ hc, abs_le]
      constructor <;> linarith
    nlinarith
  have e : R.fl (R.fl y / c') - y / c = (R.fl (R.fl y / c') - y / c') + (y / c' - y / c) := by ring
  rw [e]
  have t := abs_add_le (R.fl (R.fl y / c') - y / c') (y / c' - y / c)
  -- 2 g Q' ≤ 5 u (1 - g) Q' ≤ 5 u Q
  have hkey : 2 * g ≤ 5 * R.u * (1 - g) := by rw [hg]; nlinarith
  have h3 : 2 * g * |y / c'| ≤ 5 * R.u * (1 - g) * |y / c'| := mul_le_mul_of_nonneg_right hkey hQ'0
  have h4 : 5 * R.u * (|y / c'| * (1 - g)) ≤ 5 * R.u * |y / c| :=
    mul_le_mul_of_nonneg_left hrel (by positivity)
  nlinarith

section Axis
variable (R : Rounding) (m : Mesh) (a : Nat)

/-- the computed cell size is within `(2u + u²)` of `edge / n`, and positive -/
theorem cellAtFl_err (hn : 0 < m.nAt a) (hr : m.region.lo a < m.region.hi a) :
    |m.cellAtFl R.fl a - m.cellAt a| ≤ (2 * R.u + R.u * R.u) * m.cellAt a := by
  have hN : (0 : Rat) < (m.nAt a : Rat) := by exact_mod_cast hn
  have := quot_err2 R (m.region.hi a - m.region.lo a) (m.nAt a : Rat) hN
  unfold cellAtFl cellAt Region.edge
  rwa [abs_of_pos (div_pos (by linarith) hN)] at this

/-- **error of the quotient that `point2index` floors**, for the operations the code performs:
`|fl(fl(x − pmin)/cell_fl) − (x − pmin)/cell| ≤ 5u·|(x − pmin)/cell|`, `cell_fl = fl(fl(pmax − pmin)/n)` -/
theorem quotAxFl_err (hn : 0 < m.nAt a) (hr : m.region.lo a < m.region.hi a) (x : Rat) :
    0 < m.cellAtFl R.fl a ∧
    |m.quotAxFl R.fl a x - (x - m.region.lo a) / m.cellAt a| ≤ 5 * R.u * |(x - m.region.lo a) / m.cellAt a| := by
  have hc : 0 < m.cellAt a := by
    unfold cellAt Region.edge
    have : (0 : Rat) < (m.nAt a : Rat) := by exact_mod_cast hn
    exact div_pos (by linarith) this
  exact quot_err_cell R (x - m.region.lo a) (m.cellAt a) (m.cellAtFl R.fl a) hc (cellAtFl_err R m a hn hr)

/-- facts about the exact index of a point of the closed edge, in cell units -/
theorem indexAx_facts (hn : 0 < m.nAt a) (hr : m.region.lo a < m.region.hi a) (x : Rat)
    (hlo : m.region.lo a ≤ x) (hhi : x ≤ m.region.hi a) :
    0 < m.cellAt a ∧ 0 ≤ (x - m.region.lo a) / m.cellAt a ∧ (x - m.region.lo a) / m.cellAt a ≤ (m.nAt a : Rat) ∧
    m.indexAx a x < m.nAt a ∧ (m.indexAx a x : Rat) ≤ (x - m.region.lo a) / m.cellAt a ∧
    ((x - m.region.lo a) / m.cellAt a < (m.indexAx a x : Rat) + 1 ∨ m.indexAx a x = m.nAt a - 1) := by
  have hc : 0 < m.cellAt a := by
    unfold cellAt Region.edge
    have : (0 : Rat) < (m.nAt a : Rat) := by exact_mod_cast hn
    exact div_pos (by linarith) this
  have hcov : (m.nAt a : Rat) * m.cellAt a = m.region.hi a - m.region.lo a := by
    unfold cellAt Region.edge
    have : (m.nAt a : Rat) ≠ 0 := by exact_mod_cast (Nat.pos_iff_ne_zero.mp hn)
    field_simp
  set q := (x - m.region.lo a) / m.cellAt a with hq
  have hq0 : 0 ≤ q := div_nonneg (by linarith) hc.le
  have hqn : q ≤ (m.nAt a : Rat) := by rw [hq, div_le_iff₀ hc]; linarith
  have hfl := rat_floor_le q
  have hfu := rat_lt_floor_add_one q
  have hf0 := rat_floor_nonneg q hq0
  have hfn : q.floor ≤ (m.nAt a : Int) := by
    have : (q.floor : Rat) ≤ (m.nAt a : Rat) := le_trans hfl hqn
    exact_mod_cast this
  refine ⟨hc, hq0, hqn, ?_⟩
  unfold indexAx
  rw [← hq]
  unfold clipInt
  have h1 : ¬ (q.floor < 0) := by omega
  simp only [h1, if_false]
  by_cases hlast : ((m.nAt a : Int) - 1 < q.floor)
  · simp only [hlast, if_true]
    have e : ((m.nAt a : Int) - 1).toNat = m.nAt a - 1 := by omega
    rw [e]
    refine ⟨by omega, ?_, Or.inr rfl⟩
    have : ((m.nAt a - 1 : Nat) : Rat) = (m.nAt a : Rat) - 1 := by
      push_cast [Nat.cast_sub (by omega : 1 ≤ m.nAt a)]; ring
    rw [this]
    have : ((m.nAt a : Int) : Rat) ≤ (q.floor : Rat) := by exact_mod_cast (by omega : (m.nAt a : Int) ≤ q.floor)
    push_cast at this
    linarith
  · simp only [hlast, if_false]
    have hcast : ((q.floor.toNat : Nat) : Rat) = (q.floor : Rat) := by
      have : ((q.floor.toNat : Nat) : Int) = q.floor := Int.toNat_of_nonneg hf0
      exact_mod_cast this
    refine ⟨by omega, by rw [hcast]; exact hfl, Or.inl (by rw [hcast]; exact hfu)⟩

/-- the clipped floor of a number `q'` lying between two consecutive admissible whole numbers -/
theorem clip_floor_eq (q' : Rat) (n k : Nat) (hk : k < n)
    (hlo : (k : Rat) ≤ q') (hhi : q' < (k : Rat) + 1 ∨ k = n - 1) :
    (clipInt q'.floor 0 ((n : Int) - 1)).toNat = k := by
  have hf1 : (k : Int) ≤ q'.floor := rat_le_floor q' k (by exact_mod_cast hlo)
  unfold clipInt
  have h1 : ¬ (q'.floor < 0) := by omega
  simp only [h1, if_false]
  rcases hhi with h | h
  · have hf2 : q'.floor < (k : Int) + 1 := rat_floor_lt q' (k + 1) (by push_cast; exact h)
    have h2 : ¬ ((n : Int) - 1 < q'.floor) := by omega
    simp only [h2, if_false]; omega
  · by_cases h2 : (n : Int) - 1 < q'.floor
    · simp only [h2, if_true]; omega
    · simp only [h2, if_false]; omega

/-- **away from every interior face the computed index is the exact one**: if the point's
distance (in cells) from every interior face `j = 1 … n−1` exceeds `5u·q`, `q = (x − pmin)/cell`,
the rounded computation returns the index of the cell that contains the point.  The faces of
the region itself need no margin (`clip`, and the error is relative to `q`). -/
theorem indexAxFl_eq (hn : 0 < m.nAt a) (hr : m.region.lo a < m.region.hi a) (x : Rat)
    (hlo : m.region.lo a ≤ x) (hhi : x ≤ m.region.hi a)
    (hs : 5 * R.u * (m.nAt a : Rat) < 1)
    (haway : ∀ j : Nat, 0 < j → j < m.nAt a →
      5 * R.u * ((x - m.region.lo a) / m.cellAt a) < |(x - m.region.lo a) / m.cellAt a - (j : Rat)|) :
    m.indexAxFl R.fl a x = m.indexAx a x := by
  obtain ⟨hc, hq0, hqn, hk, hkq, hkq'⟩ := indexAx_facts m a hn hr x hlo hhi
  obtain ⟨_, herr⟩ := quotAxFl_err R m a hn hr x
  set q := (x - m.region.lo a) / m.cellAt a with hq
  set k := m.indexAx a x with hkdef
  rw [abs_of_nonneg hq0, abs_le] at herr
  have hu := R.u_nonneg
  have h5q : 5 * R.u * q ≤ 5 * R.u * (m.nAt a : Rat) := mul_le_mul_of_nonneg_left hqn (by positivity)
  unfold indexAxFl
  apply clip_floor_eq _ _ _ hk
  · -- lower bound
    rcases Nat.eq_zero_or_pos k with h0 | h0
    · rw [h0]; push_cast
      have hN1 : (1 : Rat) ≤ (m.nAt a : Rat) := by exact_mod_cast hn
      have h5u : 5 * R.u ≤ 1 := by nlinarith
      have : 5 * R.u * q ≤ q := mul_le_of_le_one_left hq0 h5u
      linarith
    · have := haway k h0 hk
      rw [abs_of_nonneg (by linarith)] at this
      linarith
  · by_cases hl : k = m.nAt a - 1
    · exact Or.inr hl
    · left
      have hq1 : q < (k : Rat) + 1 := by
        rcases hkq' with h | h
        · exact h
        · exact absurd h hl
      have := haway (k + 1) (by omega) (by omega)
      rw [abs_of_neg (by push_cast; linarith)] at this
      push_cast at this
      linarith

/-- **next to an interior face one of the two adjacent cells**: whatever the point of the closed
edge, the computed index is the exact one, or the point lies within `5u·q` cells of an interior
face `j` and computed and exact index are the two cells `j − 1`, `j` that share it. -/
theorem indexAxFl_band (hn : 0 < m.nAt a) (hr : m.region.lo a < m.region.hi a) (x : Rat)
    (hlo : m.region.lo a ≤ x) (hhi : x ≤ m.region.hi a)
    (hs : 10 * R.u * (m.nAt a : Rat) < 1) :
    m.indexAxFl R.fl a x = m.indexAx a x ∨
    ∃ j : Nat, 0 < j ∧ j < m.nAt a ∧
      |(x - m.region.lo a) / m.cellAt a - (j : Rat)| ≤ 5 * R.u * ((x - m.region.lo a) / m.cellAt a) ∧
      (m.indexAxFl R.fl a x = j - 1 ∨ m.indexAxFl R.fl a x = j) ∧ (m.indexAx a x = j - 1 ∨ m.indexAx a x = j) := by
  have hu := R.u_nonneg
  have hN : (0 : Rat) < (m.nAt a : Rat) := by exact_mod_cast hn
  by_cases haway : ∀ j : Nat, 0 < j → j < m.nAt a →
      5 * R.u * ((x - m.region.lo a) / m.cellAt a) < |(x - m.region.lo a) / m.cellAt a - (j : Rat)|
  · exact Or.inl (indexAxFl_eq R m a hn hr x hlo hhi (by linarith) haway)
  · right
    simp only [not_forall, not_lt] at haway
    obtain ⟨j, hj0, hjn, hnear⟩ := haway
    obtain ⟨hc, hq0, hqn, hk, hkq, hkq'⟩ := indexAx_facts m a hn hr x hlo hhi
    obtain ⟨_, herr⟩ := quotAxFl_err R m a hn hr x
    set q := (x - m.region.lo a) / m.cellAt a with hq
    rw [abs_of_nonneg hq0, abs_le] at herr
    have h5q : 5 * R.u * q ≤ 5 * R.u * (m.nAt a : Rat) := mul_le_mul_of_nonneg_left hqn (by positivity)
    have hnear' := abs_le.mp hnear
    have hj1 : ((j - 1 : Nat) : Rat) = (j : Rat) - 1 := by
      push_cast [Nat.cast_sub (by omega : 1 ≤ j)]; ring
    refine ⟨j, hj0, hjn, hnear, ?_, ?_⟩
    · -- computed: j - 1 ≤ q' < j + 1
      set q' := m.quotAxFl R.fl a x with hq'
      have l1 : (j : Rat) - 1 ≤ q' := by linarith
      have l2 : q' < (j : Rat) + 1 := by linarith
      unfold indexAxFl
      rw [← hq']
      by_cases hge : (j : Rat) ≤ q'
      · right
        apply clip_floor_eq _ _ _ hjn hge (Or.inl l2)
      · left
        apply clip_floor_eq _ _ _ (by omega) (by rw [hj1]; exact l1)
        left; rw [hj1]; linarith [not_le.mp hge]
    · -- exact: j - 1 ≤ k ≤ j
      have l1 : (j : Rat) - 1 < q := by linarith
      have l2 : q < (j : Rat) + 1 := by linarith
      have a1 : (m.indexAx a x : Rat) < (j : Rat) + 1 := by linarith
      have a1' : m.indexAx a x < j + 1 := by exact_mod_cast a1
      rcases hkq' with h | h
      · have a2 : (j : Rat) - 1 < (m.indexAx a x : Rat) + 1 := by linarith
        have a2' : (j : Int) - 1 < (m.indexAx a x : Int) + 1 := by exact_mod_cast a2
        omega
      · omega

end Axis

/-- the computed centre `fl(lo + fl(A·c'))` of a cell lies strictly inside `(lo, lo + n·c)` when
`½ ≤ A ≤ n − ½`, the computed cell size `c'` is within `2u + u²` of `c`, and
`12u·(|lo|/c + n) < 1` -/
theorem centre_inside_core (u lo c c' A n a p : Rat) (hc : 0 < c) (hu0 : 0 ≤ u) (hu : u ≤ 1/16)
    (hA1 : 1/2 ≤ A) (hA2 : A ≤ n - 1/2)
    (hcc : |c' - c| ≤ (2 * u + u * u) * c)
    (h1 : |a - A * c'| ≤ u * |A * c'|) (h2 : |p - (lo + a)| ≤ u * |lo + a|)
    (hs : 12 * u * (|lo| / c + n) < 1) :
    lo < p ∧ p < lo + n * c := by
  have huu : u * u ≤ 1 / 16 * u := by nlinarith
  set g := 2 * u + u * u with hg
  have hg0 : 0 ≤ g := by positivity
  have hg1 : g ≤ 33 / 16 * u := by rw [hg]; linarith
  have hg2 : g ≤ 33 / 256 := by linarith
  rw [abs_le] at hcc
  have hc1 : 223 / 256 * c ≤ c' := by nlinarith
  have hc2 : c' ≤ (1 + g) * c := by linarith
  have hc' : 0 < c' := by linarith
  have hA0 : 0 < A := by linarith
  have hAc : 0 < A * c' := mul_pos hA0 hc'
  rw [abs_of_pos hAc] at h1
  have ha_abs : |a| ≤ (1 + u) * (A * c') := by
    have := abs_le_of_err u (A * c') a (by rwa [abs_of_pos hAc])
    rwa [abs_of_pos hAc] at this
  have hpa : |lo + a| ≤ |lo| + (1 + u) * (A * c') := by
    have := abs_add_le lo a
    linarith
  -- K = u |lo|
  have hK : 12 * (u * |lo|) + 12 * (u * (n * c)) < c := by
    have e : (|lo| / c + n) * c = |lo| + n * c := by field_simp
    have := mul_lt_mul_of_pos_right hs hc
    have e2 : 12 * u * (|lo| / c + n) * c = 12 * (u * |lo|) + 12 * (u * (n * c)) := by
      rw [mul_assoc (12 * u), e]; ring
    linarith
  have hL0 : 0 ≤ u * |lo| := mul_nonneg hu0 (abs_nonneg _)
  have hn0 : 1 ≤ n := by linarith
  have hunc : 0 ≤ u * (n * c) := by positivity
  -- distance of p from lo + A c'
  have hD : |p - (lo + A * c')| ≤ g * (A * c') + u * |lo| := by
    have e : p - (lo + A * c') = (p - (lo + a)) + (a - A * c') := by ring
    rw [e]
    have t := abs_add_le (p - (lo + a)) (a - A * c')
    have : u * |lo + a| ≤ u * (|lo| + (1 + u) * (A * c')) := mul_le_mul_of_nonneg_left hpa hu0
    rw [hg]
    nlinarith
  rw [abs_le] at hD
  constructor
  · -- lower
    have k1 : 1 / 2 * c' ≤ A * c' := mul_le_mul_of_nonneg_right hA1 hc'.le
    have k2 : g * (A * c') ≤ 33 / 256 * (A * c') := mul_le_mul_of_nonneg_right hg2 hAc.le
    have k3 : u * |lo| < c / 12 := by linarith
    nlinarith
  · -- upper
    have k1 : A * c' ≤ (n - 1 / 2) * c' := mul_le_mul_of_nonneg_right hA2 hc'.le
    have k2 : (n - 1 / 2) * c' ≤ (n - 1 / 2) * ((1 + g) * c) := mul_le_mul_of_nonneg_left hc2 (by linarith)
    have k3 : (1 + g) * (A * c') ≤ (1 + g) * ((n - 1 / 2) * ((1 + g) * c)) :=
      mul_le_mul_of_nonneg_left (le_trans k1 k2) (by linarith)
    -- (1+g)^2 ≤ 1 + 9/2 u
    have k4 : (1 + g) * (1 + g) ≤ 1 + 9 / 2 * u := by
      have : g * g ≤ 33 / 256 * g := mul_le_mul_of_nonneg_right hg2 hg0
      nlinarith
    have k5 : (1 + g) * ((n - 1 / 2) * ((1 + g) * c)) = ((1 + g) * (1 + g)) * ((n - 1 / 2) * c) := by ring
    have k6 : ((1 + g) * (1 + g)) * ((n - 1 / 2) * c) ≤ (1 + 9 / 2 * u) * ((n - 1 / 2) * c) :=
      mul_le_mul_of_nonneg_right k4 (by nlinarith)
    have k7 : (1 + 9 / 2 * u) * ((n - 1 / 2) * c) ≤ n * c - 1 / 2 * c + 9 / 2 * (u * (n * c)) := by
      have : 0 ≤ u * c := by positivity
      nlinarith
    rw [k5] at k3
    have k8 : u * (n * c) < c / 12 := by linarith
    have k9 : p ≤ lo + (1 + g) * (A * c') + u * |lo| := by linarith [hD.2]
    linarith


section Axis2
variable (R : Rounding) (m : Mesh) (a : Nat)

/-- the computed index is always in range (`clip`) -/
theorem indexAxFl_lt (fl : Rat → Rat) (hn : 0 < m.nAt a) (x : Rat) : m.indexAxFl fl a x < m.nAt a := by
  unfold indexAxFl clipInt
  split
  · simpa using hn
  · split
    · omega
    · omega

/-- a point that is exactly inside passes the containment test whatever the rounding: the two
comparisons `pmin ≤ x`, `x ≤ pmax` are exact in floating point -/
theorem containsPtFl_of_exact (fl : Rat → Rat) (r : Region) (p : List Rat) (h : r.containsExact p) :
    r.containsPtFl fl p = true := by
  obtain ⟨hl, hb⟩ := h
  unfold Region.containsPtFl
  have : decide (p.length = r.ndim) = true := by simpa using hl
  rw [this, Bool.true_and, allLt_iff]
  intro a ha
  unfold Region.containsAxFl
  have h1 : decide (r.lo a ≤ p.getD a 0) = true := by simpa using (hb a ha).1
  have h2 : decide (p.getD a 0 ≤ r.hi a) = true := by simpa using (hb a ha).2
  rw [h1, h2]; rfl

/-- **the computed centre of every cell lies strictly inside the edge** when
`12u·(|pmin|/cell + n) < 1` (so the containment test of `point2index` accepts it by exact comparison) -/
theorem centreAxFl_inside (hn : 0 < m.nAt a) (hr : m.region.lo a < m.region.hi a) (i : Nat) (hi : i < m.nAt a)
    (hs : 12 * R.u * (|m.region.lo a| / m.cellAt a + (m.nAt a : Rat)) < 1) :
    m.region.lo a < m.centreAxFl R.fl a (i : Int) ∧ m.centreAxFl R.fl a (i : Int) < m.region.hi a := by
  have hN : (0 : Rat) < (m.nAt a : Rat) := by exact_mod_cast hn
  have hc : 0 < m.cellAt a := by
    unfold cellAt Region.edge; exact div_pos (by linarith) hN
  have hcov : m.region.hi a = m.region.lo a + (m.nAt a : Rat) * m.cellAt a := by
    unfold cellAt Region.edge; field_simp; ring
  have hi' : ((i : Int) : Rat) + 1 ≤ (m.nAt a : Rat) := by
    have : (i : Int) + 1 ≤ (m.nAt a : Int) := by omega
    exact_mod_cast this
  have hi0 : (0 : Rat) ≤ ((i : Int) : Rat) := by exact_mod_cast (Int.natCast_nonneg i)
  have := centre_inside_core R.u (m.region.lo a) (m.cellAt a) (m.cellAtFl R.fl a) (((i : Int) : Rat) + 1/2)
    (m.nAt a : Rat) (R.fl ((((i : Int) : Rat) + 1/2) * m.cellAtFl R.fl a)) (m.centreAxFl R.fl a (i : Int))
    hc R.u_nonneg R.u_small (by linarith) (by linarith) (cellAtFl_err R m a hn hr) (R.err _) (R.err _) hs
  rw [hcov]; exact this

end Axis2

/-- relative distance from face `j`, in coordinates ⇔ in cell units -/
theorem away_coord (m : Mesh) (a : Nat) (hc : 0 < m.cellAt a) (x u5 : Rat) (j : Nat) :
    (u5 * ((x - m.region.lo a) / m.cellAt a) < |(x - m.region.lo a) / m.cellAt a - (j : Rat)|) ↔
      u5 * (x - m.region.lo a) < |x - (m.region.lo a + (j : Rat) * m.cellAt a)| := by
  have e : (x - m.region.lo a) / m.cellAt a - (j : Rat) = (x - (m.region.lo a + (j : Rat) * m.cellAt a)) / m.cellAt a := by
    field_simp; ring
  rw [e, abs_div, abs_of_pos hc, ← mul_div_assoc, div_lt_div_iff_of_pos_right hc]


end DFV.C01
