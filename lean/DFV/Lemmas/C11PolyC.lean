import DFV.Lemmas.C11Complex
import DFV.Lemmas.C11Poly
/-!
C11: the evaluation data the harness uses — rationals into ℂ, `I ↦ i`, `ζ_a ↦ exp(-2πi/n_a)` —
satisfy every hypothesis of the evaluation theorems, and the driver's formal roots evaluate to
exactly the complex root structures `cRoot n` of `C11Complex.lean`.
-/
namespace DFV.C11
open DFV Complex

/-- the harness's evaluation: `ζ_a ↦ exp(-2πi/n_a)` -/
noncomputable def cEv (ns : List Nat) : Ev ℂ :=
  ⟨Rat.castHom ℂ, Complex.I, Complex.I_mul_I, fun a => (cRoot (ns.getD a 1)).w⟩

theorem getD_one_mem (ns : List Nat) (a : Nat) (ha : a < ns.length) : ns.getD a 1 ∈ ns := by
  rw [List.getD_eq_getElem?_getD, List.getElem?_eq_getElem ha]
  simp

theorem cEv_prim (ns : List Nat) (h : ∀ n ∈ ns, 0 < n) : PrimRoots (cEv ns) ns := by
  intro a ha
  have hp := h _ (getD_one_mem ns a ha)
  have hr := cRoot_isRoot _ hp
  exact ⟨hp, hr.pow_n, hr.orth⟩

theorem cEv_root (ns : List Nat) (a : Nat) (hp : 0 < ns.getD a 1) :
    (cEv ns).root a (ns.getD a 1) = cRoot (ns.getD a 1) := by
  have hr := cRoot_isRoot _ hp
  have hwi := hr.wi_eq hp
  show (⟨(cRoot (ns.getD a 1)).w, (cRoot (ns.getD a 1)).w ^ (ns.getD a 1 - 1),
    ((1 / (ns.getD a 1 : ℚ) : ℚ) : ℂ)⟩ : Root ℂ) = cRoot (ns.getD a 1)
  rw [← hwi]
  simp [cRoot]

/-- the driver's formal roots, evaluated the harness's way, are the complex roots `cRoot n_a` -/
theorem cEv_roots (ns : List Nat) (h : ∀ n ∈ ns, 0 < n) : (cEv ns).roots ns = ns.map cRoot := by
  symm
  unfold Ev.roots
  apply eq_tab_of_getD _ _ _ ⟨1, 1, 1⟩ (by simp)
  intro a ha
  rw [cEv_root ns a (h _ (getD_one_mem ns a ha))]
  simp [List.getD_eq_getElem?_getD, List.getElem?_eq_getElem ha]

theorem cEv_conj (ns : List Nat) (h : ∀ n ∈ ns, 0 < n) : (cEv ns).ConjOK (starRingEnd ℂ) ns.length := by
  refine ⟨conj_isConj, ?_, ?_, ?_⟩
  · intro x
    show (starRingEnd ℂ) ((x : ℚ) : ℂ) = ((x : ℚ) : ℂ)
    exact map_ratCast _ x
  · exact Complex.conj_I
  · intro a ha
    have hr := cRoot_isRoot _ (h _ (getD_one_mem ns a ha))
    show (cRoot (ns.getD a 1)).w * (starRingEnd ℂ) (cRoot (ns.getD a 1)).w = 1
    have hc : (starRingEnd ℂ) (cRoot (ns.getD a 1)).w = (cRoot (ns.getD a 1)).wi := by
      have := cConjRoots [ns.getD a 1]
      exact this.1
    rw [hc]; exact hr.inv

end DFV.C11
