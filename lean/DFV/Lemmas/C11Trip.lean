import DFV.Lemmas.C11Inv
/-!
C11: `Field.fftn` / `rfftn` succeed on every valid field (explicit results), and the inverse
transforms of those results succeed and restore mesh counts, extent, names, units, labels,
mapping and unit on the origin-centred mesh.
-/
namespace DFV.C11
open DFV

section
variable {R : Type} [Zero R] [One R] [Add R] [Mul R]

/-- labels after a forward transform -/
def fwdLabels (vd : Option (List String)) : Option (List String) := vd.map fun vs => vs.map ("ft_" ++ ·)
/-- mapping after a forward transform -/
def fwdMap (mp : List (String × String)) : List (String × String) := mp.map fun p => ("ft_" ++ p.1, "k_" ++ p.2)

theorem kMesh_n_half (m : Mesh) (hm : m.Inv) : (kMesh m true).n = halfShape m.n := by
  rw [kMesh_n]
  unfold halfShape
  rw [hm.2.1]
  apply tab_congr
  intro a ha
  by_cases hl : a + 1 = m.ndim
  · have : a = m.ndim - 1 := by omega
    subst this
    have hl' : m.ndim - 1 + 1 = m.region.ndim := hl
    rw [kN_half m true _ (flag_last m), if_pos hl']; rfl
  · have hl' : ¬ a + 1 = m.region.ndim := hl
    rw [kN_full m true a (flag_notlast m a (by omega)), if_neg hl']; rfl

/-- `Field.fftn` succeeds on every valid field, with this result -/
theorem fftn_ok (ρs : List (Root R)) (f : CF R) (hf : CFInv f) :
    fftn ρs f = .ok { mesh := kMesh f.mesh false, nvdim := f.nvdim, data := fftnArr ρs f.nvdim f.data,
                      vdims := fwdLabels f.vdims, vmap := fwdMap f.vmap, unit := f.unit } := by
  unfold fftn
  rw [meshFftn_ok f.mesh false hf.mesh]
  simp only
  rw [finish_ok_of_inv f hf _ _ false (by rw [kMesh_n_full f.mesh hf.mesh]; exact hf.shape)
    (fun _ _ h => by cases h)]
  simp only [Bool.false_eq_true, if_false]
  rfl

/-- `Field.rfftn` succeeds on every valid field, with this result -/
theorem rfftn_ok (ρs : List (Root R)) (f : CF R) (hf : CFInv f) :
    rfftn ρs f = .ok { mesh := kMesh f.mesh true, nvdim := f.nvdim, data := rfftnArr ρs f.nvdim f.data,
                       vdims := fwdLabels f.vdims, vmap := fwdMap f.vmap, unit := f.unit } := by
  unfold rfftn
  rw [meshFftn_ok f.mesh true hf.mesh]
  simp only
  rw [finish_ok_of_inv f hf _ _ false
    (by rw [kMesh_n_half f.mesh hf.mesh, ← hf.shape]; rfl) (fun _ _ h => by cases h)]
  simp only [Bool.false_eq_true, if_false]
  rfl

omit [Zero R] [One R] [Add R] [Mul R] in
/-- the result of a forward transform is again a valid field, and stripping the prefix from
its labels keeps them distinct -/
theorem fwd_inv (f : CF R) (hf : CFInv f) (mesh : Mesh) (hmesh : mesh.Inv) (data : NDA (List R))
    (hshape : data.shape = mesh.n) :
    CFInv ({ mesh := mesh, nvdim := f.nvdim, data := data, vdims := fwdLabels f.vdims,
             vmap := fwdMap f.vmap, unit := f.unit } : CF R) := by
  refine ⟨hmesh, hshape, hf.nv, ?_⟩
  rcases hf.labels with ⟨hv, hnv, hmp⟩ | ⟨vs, hv, hne, hlen, hnd, hk⟩
  · left; simp [fwdLabels, fwdMap, hv, hnv, hmp]
  · right
    refine ⟨vs.map ("ft_" ++ ·), by simp [fwdLabels, hv], by simpa using hne, by simpa using hlen,
      by rw [hasDup_map_inj _ ft_inj]; exact hnd, ?_⟩
    rcases hk with h | h
    · left; simp [fwdMap, h]
    · right; simp only [fwdMap, List.map_map]; rw [← h, List.map_map]; rfl

theorem strip_fwd_distinct (vd : Option (List String)) (hnd : ∀ vs, vd = some vs → hasDup vs = false) :
    ∀ vs', fwdLabels vd = some vs' → true = true →
      hasDup (vs'.map (stripPre "ft_")) = false ∧
      ∀ u ∈ vs', ∀ v ∈ vs', stripPre "ft_" u = stripPre "ft_" v → u = v := by
  intro vs' h _
  cases vd with
  | none => simp [fwdLabels] at h
  | some vs =>
    simp only [fwdLabels, Option.map_some, Option.some.injEq] at h
    subst h
    refine ⟨by rw [labels_roundtrip]; exact hnd vs rfl, ?_⟩
    intro u hu v hv e
    obtain ⟨a, _, rfl⟩ := List.mem_map.mp hu
    obtain ⟨b, _, rfl⟩ := List.mem_map.mp hv
    rw [stripPre_add, stripPre_add] at e
    rw [e]

theorem back_labels (vd : Option (List String)) :
    (fwdLabels vd).map (fun vs => vs.map (stripPre "ft_")) = vd := by
  cases vd with
  | none => rfl
  | some vs => simp only [fwdLabels, Option.map_some, labels_roundtrip]

theorem back_map (mp : List (String × String)) :
    (fwdMap mp).map (fun p => (stripPre "ft_" p.1, stripPre "k_" p.2)) = mp := by
  unfold fwdMap
  rw [List.map_map]
  conv => rhs; rw [← List.map_id mp]
  apply List.map_congr_left
  intro p _
  simp only [Function.comp, id, stripPre_add]

omit [Zero R] [One R] [Add R] [Mul R] in
theorem cfinv_nodup (f : CF R) (hf : CFInv f) : ∀ vs, f.vdims = some vs → hasDup vs = false := by
  intro vs h
  rcases hf.labels with ⟨hv, _, _⟩ | ⟨vs', hv, _, _, hnd, _⟩
  · rw [hv] at h; cases h
  · rw [hv] at h; injection h with h; subst h; exact hnd

/-- `Field.ifftn` of `Field.fftn` succeeds on every valid field and restores counts, cell size,
dims, units, labels, mapping and unit, on the mesh centred at the origin -/
theorem ifftn_fftn_ok (ρs : List (Root R)) (f : CF R) (hf : CFInv f) :
    ifftn ρs { mesh := kMesh f.mesh false, nvdim := f.nvdim, data := fftnArr ρs f.nvdim f.data,
               vdims := fwdLabels f.vdims, vmap := fwdMap f.vmap, unit := f.unit }
      = .ok { mesh := originMesh f.mesh f.mesh.n, nvdim := f.nvdim,
              data := ifftnArr ρs f.nvdim (fftnArr ρs f.nvdim f.data),
              vdims := f.vdims, vmap := f.vmap, unit := f.unit } := by
  have hshape : (fftnArr ρs f.nvdim f.data).shape = (kMesh f.mesh false).n := by
    rw [kMesh_n_full f.mesh hf.mesh]; exact hf.shape
  have hg := fwd_inv f hf (kMesh f.mesh false) (kMesh_inv f.mesh false hf.mesh) _ hshape
  unfold ifftn
  simp only
  rw [mesh_roundtrip_full f.mesh hf.mesh]
  simp only
  rw [finish_ok_of_inv _ hg _ _ true (by show f.data.shape = f.mesh.n; exact hf.shape)
    (fun vs' h e => strip_fwd_distinct f.vdims (cfinv_nodup f hf) vs' h (by simp))]
  simp only [if_true, back_labels, back_map]

/-- `Field.irfftn(shape = n)` of `Field.rfftn` succeeds on every valid field and restores the
same state -/
theorem irfftn_rfftn_ok (conj : R → R) (ρs : List (Root R)) (f : CF R) (hf : CFInv f) :
    irfftn conj ρs { mesh := kMesh f.mesh true, nvdim := f.nvdim, data := rfftnArr ρs f.nvdim f.data,
                     vdims := fwdLabels f.vdims, vmap := fwdMap f.vmap, unit := f.unit } (some f.mesh.n)
      = .ok { mesh := originMesh f.mesh f.mesh.n, nvdim := f.nvdim,
              data := irfftnArr conj ρs f.nvdim f.mesh.n (rfftnArr ρs f.nvdim f.data),
              vdims := f.vdims, vmap := f.vmap, unit := f.unit } := by
  have hshape : (rfftnArr ρs f.nvdim f.data).shape = (kMesh f.mesh true).n := by
    rw [kMesh_n_half f.mesh hf.mesh, ← hf.shape]; rfl
  have hg := fwd_inv f hf (kMesh f.mesh true) (kMesh_inv f.mesh true hf.mesh) _ hshape
  unfold irfftn
  simp only
  rw [mesh_roundtrip_half_shape f.mesh hf.mesh]
  simp only
  rw [finish_ok_of_inv _ hg _ _ true (by rfl)
    (fun vs' h e => strip_fwd_distinct f.vdims (cfinv_nodup f hf) vs' h (by simp))]
  simp only [if_true, back_labels, back_map]
  rfl

omit [Zero R] [One R] [Add R] [Mul R] in
theorem half_none_counts (m : Mesh) (h : m.nAt (m.ndim - 1) % 2 = 0 ∨ m.nAt (m.ndim - 1) = 1) :
    (if m.nAt (m.ndim - 1) = 1 then m.n else setAt m.n (m.ndim - 1) (m.nAt (m.ndim - 1) / 2 * 2)) = m.n := by
  by_cases h1 : m.nAt (m.ndim - 1) = 1
  · rw [if_pos h1]
  · rw [if_neg h1]
    have e : m.nAt (m.ndim - 1) / 2 * 2 = m.nAt (m.ndim - 1) := by omega
    rw [e]
    exact setAt_getD_self m.n (m.ndim - 1)

/-- `Field.irfftn()` (no shape) of `Field.rfftn` restores the field when the last count is even or 1 -/
theorem irfftn_rfftn_ok_default (conj : R → R) (ρs : List (Root R)) (f : CF R) (hf : CFInv f)
    (h : f.mesh.nAt (f.mesh.ndim - 1) % 2 = 0 ∨ f.mesh.nAt (f.mesh.ndim - 1) = 1) :
    irfftn conj ρs { mesh := kMesh f.mesh true, nvdim := f.nvdim, data := rfftnArr ρs f.nvdim f.data,
                     vdims := fwdLabels f.vdims, vmap := fwdMap f.vmap, unit := f.unit } none
      = .ok { mesh := originMesh f.mesh f.mesh.n, nvdim := f.nvdim,
              data := irfftnArr conj ρs f.nvdim f.mesh.n (rfftnArr ρs f.nvdim f.data),
              vdims := f.vdims, vmap := f.vmap, unit := f.unit } := by
  have hshape : (rfftnArr ρs f.nvdim f.data).shape = (kMesh f.mesh true).n := by
    rw [kMesh_n_half f.mesh hf.mesh, ← hf.shape]; rfl
  have hg := fwd_inv f hf (kMesh f.mesh true) (kMesh_inv f.mesh true hf.mesh) _ hshape
  unfold irfftn
  simp only
  rw [mesh_roundtrip_half_none f.mesh hf.mesh, half_none_counts f.mesh h]
  simp only
  rw [finish_ok_of_inv _ hg _ _ true (by rfl)
    (fun vs' h e => strip_fwd_distinct f.vdims (cfinv_nodup f hf) vs' h (by simp))]
  simp only [if_true, back_labels, back_map]
  rfl

end

end DFV.C11
