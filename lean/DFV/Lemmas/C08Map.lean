import DFV.Lemmas.C08Basic
/-! C08 helper lemmas, part 2: the index maps of `sel`, `__getitem__`, `pad`, `resample`,
`rotate90` read inside the source array, and NumPy's `rot90` (flips + axis swap) is the
pointwise map `rotSrc`. -/
namespace DFV.C08
open DFV

theorem inRange_tab_inv (L : Nat) (f : Nat → Nat) (j : List Nat) (h : inRange (tab L f) j = true) :
    j.length = L ∧ ∀ a, a < L → j.getD a 0 < f a := by
  rw [inRange_iff] at h
  rw [tab_length] at h
  refine ⟨h.1, ?_⟩
  intro a ha
  have := h.2 a ha
  rwa [getD_tab _ _ _ _ ha] at this

/-! ## padding -/

theorem padSrc_lt (mode : PadMode) (n lo j t : Nat) (hn : 0 < n) (h : padSrc mode n lo j = some t) :
    t < n := by
  unfold padSrc at h
  cases mode with
  | constant =>
    simp only at h
    split at h
    · injection h with h; omega
    · cases h
  | edge =>
    simp only at h
    injection h with h
    subst h
    split
    · exact hn
    · split <;> omega
  | wrap =>
    simp only at h
    injection h with h
    subst h
    exact Nat.mod_lt _ hn
  | symmetric =>
    simp only at h
    injection h with h
    subst h
    have hr : (j + lo * (2 * n - 1)) % (2 * n) < 2 * n := Nat.mod_lt _ (by omega)
    generalize (j + lo * (2 * n - 1)) % (2 * n) = r at hr ⊢
    split <;> omega
  | reflect =>
    simp only at h
    split at h
    · injection h with h; omega
    · injection h with h
      subst h
      have hr : (j + lo * (2 * n - 3)) % (2 * n - 2) < 2 * n - 2 := Nat.mod_lt _ (by omega)
      generalize (j + lo * (2 * n - 3)) % (2 * n - 2) = r at hr ⊢
      split <;> omega

/-- inside the original cells every mode is the identity shifted by the front width -/
theorem padSrc_inside (mode : PadMode) (n lo j : Nat) (h1 : lo ≤ j) (h2 : j < lo + n) :
    padSrc mode n lo j = some (j - lo) := by
  have hn : 0 < n := by omega
  obtain ⟨d, rfl⟩ : ∃ d, j = lo + d := ⟨j - lo, by omega⟩
  have hd : d < n := by omega
  have e1 : lo + d - lo = d := by omega
  unfold padSrc
  cases mode with
  | constant => simp [h2]
  | edge =>
    simp only
    rw [if_neg (by omega), if_pos h2]
  | wrap =>
    simp only
    have : lo + d + lo * (n - 1) = d + lo * n := by
      obtain ⟨m, rfl⟩ : ∃ m, n = m + 1 := ⟨n - 1, by omega⟩
      simp only [Nat.add_sub_cancel]; ring
    rw [this, Nat.add_mul_mod_self_right, Nat.mod_eq_of_lt hd, e1]
  | symmetric =>
    simp only
    have : lo + d + lo * (2 * n - 1) = d + lo * (2 * n) := by
      obtain ⟨m, rfl⟩ : ∃ m, n = m + 1 := ⟨n - 1, by omega⟩
      have : 2 * (m + 1) - 1 = 2 * m + 1 := by omega
      rw [this]; ring
    rw [this, Nat.add_mul_mod_self_right, Nat.mod_eq_of_lt (by omega : d < 2 * n), if_pos hd, e1]
  | reflect =>
    simp only
    split
    · congr 1; omega
    · have hn2 : 2 ≤ n := by omega
      have : lo + d + lo * (2 * n - 3) = d + lo * (2 * n - 2) := by
        obtain ⟨m, rfl⟩ : ∃ m, n = m + 2 := ⟨n - 2, by omega⟩
        have h1 : 2 * (m + 2) - 3 = 2 * m + 1 := by omega
        have h2 : 2 * (m + 2) - 2 = 2 * m + 2 := by omega
        rw [h1, h2]; ring
      rw [this, Nat.add_mul_mod_self_right]
      by_cases hlt : d < 2 * n - 2
      · rw [Nat.mod_eq_of_lt hlt, if_pos hd, e1]
      · -- d = n - 1 = 2n - 2 only if n = 1; otherwise d < n ≤ 2n-2
        omega

/-! ## nearest-cell lookup -/

theorem nearestUpTo_le (cs : Nat → Rat) (x : Rat) (m : Nat) : nearestUpTo cs x m ≤ m := by
  induction m with
  | zero => simp [nearestUpTo]
  | succ k ih =>
    unfold nearestUpTo
    split
    · exact Nat.le_refl _
    · omega

theorem nearest_lt (n n' j : Nat) (hn : 0 < n) : nearest n n' j < n := by
  unfold nearest
  have := nearestUpTo_le (centre01 n) (centre01 n' j) (n - 1)
  omega

/-! ## quarter turns -/

theorem srcIdx_length (s j : List Nat) (p q : Nat) (k : Int) : (T.srcIdx s p q k j).length = j.length := by
  unfold T.srcIdx
  split
  · rfl
  · split
    · simp [T.setAt_length]
    · split <;> simp [T.setAt_length, T.swapAt_length]

/-- NumPy's `rot90` index map (composition of flips and an axis swap) is `rotSrc`, pointwise -/
theorem srcIdx_eq_rotSrc (s j : List Nat) (p q : Nat) (k : Int) (hpq : p ≠ q) (hp : p < s.length)
    (hq : q < s.length) (hj : j.length = s.length) : T.srcIdx s p q k j = rotSrc s p q k j := by
  unfold rotSrc
  apply eq_tab_of_getD _ _ _ 0
  · rw [srcIdx_length, hj]
  · intro b hb
    obtain ⟨c0, c2, c1, c3⟩ := T.srcIdx_comp s j p q k hpq (by omega) (by omega) hj.symm
    have h4 : k % 4 = 0 ∨ k % 4 = 1 ∨ k % 4 = 2 ∨ k % 4 = 3 := by omega
    rcases h4 with h | h | h | h
    · rw [if_pos h]; exact c0 h b
    · have n0 : ¬ k % 4 = 0 := by omega
      have n2 : ¬ k % 4 = 2 := by omega
      rw [if_neg n0, if_neg n2, if_pos h]
      obtain ⟨e1, e2, e3⟩ := c1 h
      by_cases hbp : b = p
      · subst hbp; rw [if_pos rfl]; exact e1
      · rw [if_neg hbp]
        by_cases hbq : b = q
        · subst hbq; rw [if_pos rfl]; exact e2
        · rw [if_neg hbq]; exact e3 b hbp hbq
    · have n0 : ¬ k % 4 = 0 := by omega
      rw [if_neg n0, if_pos h]
      obtain ⟨e1, e2, e3⟩ := c2 h
      by_cases hbp : b = p
      · subst hbp; rw [if_pos rfl]; exact e1
      · rw [if_neg hbp]
        by_cases hbq : b = q
        · subst hbq; rw [if_pos rfl]; exact e2
        · rw [if_neg hbq]; exact e3 b hbp hbq
    · have n0 : ¬ k % 4 = 0 := by omega
      have n2 : ¬ k % 4 = 2 := by omega
      have n1 : ¬ k % 4 = 1 := by omega
      rw [if_neg n0, if_neg n2, if_neg n1]
      obtain ⟨e1, e2, e3⟩ := c3 h
      by_cases hbp : b = p
      · subst hbp; rw [if_pos rfl]; exact e1
      · rw [if_neg hbp]
        by_cases hbq : b = q
        · subst hbq; rw [if_pos rfl]; exact e2
        · rw [if_neg hbq]; exact e3 b hbp hbq

theorem rot90_shape {α} (x : NDA α) (p q : Nat) (k : Int) :
    (T.rot90 x p q k).shape = (MapOp.rot p q k).shape x.shape := by
  simp only [MapOp.shape]
  unfold T.rot90
  have h4 : k % 4 = 0 ∨ k % 4 = 1 ∨ k % 4 = 2 ∨ k % 4 = 3 := by omega
  rcases h4 with h | h | h | h
  · rw [if_pos h, if_neg (by omega)]
  · rw [if_neg (by omega), if_neg (by omega), if_pos h, if_pos (Or.inl h)]; rfl
  · rw [if_neg (by omega), if_pos h, if_neg (by omega)]; rfl
  · rw [if_neg (by omega), if_neg (by omega), if_neg (by omega), if_pos (Or.inr h)]; rfl

theorem getD_swapAt (s : List Nat) (p q b : Nat) (hp : p < s.length) (hq : q < s.length) (hpq : p ≠ q) :
    (swapAt s p q).getD b 0 = if b = p then s.getD q 0 else if b = q then s.getD p 0 else s.getD b 0 := by
  have dflt : (default : Nat) = 0 := rfl
  by_cases hbp : b = p
  · subst hbp; rw [if_pos rfl, T.getD_swapAt_left _ _ _ _ hpq hp, dflt]
  · rw [if_neg hbp]
    by_cases hbq : b = q
    · subst hbq; rw [if_pos rfl, T.getD_swapAt_right _ _ _ _ hq, dflt]
    · rw [if_neg hbq, T.getD_swapAt_other _ _ _ _ _ hbp hbq]

/-! ## every index map reads inside the source -/

theorem src_inRange (op : MapOp) (s : List Nat) (hok : op.ok s = true) (j : List Nat)
    (hj : inRange (op.shape s) j = true) (i : List Nat) (hs : op.src s j = some i) :
    inRange s i = true := by
  cases op with
  | take ax k =>
    simp only [MapOp.ok, Bool.and_eq_true, decide_eq_true_eq] at hok
    obtain ⟨⟨h1, h2⟩, h3⟩ := hok
    simp only [MapOp.src, Option.some.injEq] at hs
    subst hs
    obtain ⟨hl, hp⟩ := inRange_tab_inv _ _ _ hj
    apply inRange_tab _ _ _ rfl
    intro b hb
    by_cases c1 : b < ax
    · rw [if_pos c1]
      have := hp b (by omega)
      rwa [if_pos c1] at this
    · rw [if_neg c1]
      by_cases c2 : b = ax
      · rw [if_pos c2, c2]; exact h2
      · rw [if_neg c2]
        have := hp (b - 1) (by omega)
        rw [if_neg (by omega)] at this
        have e : b - 1 + 1 = b := by omega
        rwa [e] at this
  | slice ax lo hi =>
    simp only [MapOp.ok, Bool.and_eq_true, decide_eq_true_eq] at hok
    obtain ⟨⟨h1, h2⟩, h3⟩ := hok
    simp only [MapOp.src, Option.some.injEq] at hs
    subst hs
    obtain ⟨hl, hp⟩ := inRange_tab_inv _ _ _ hj
    apply inRange_tab _ _ _ rfl
    intro b hb
    have := hp b hb
    by_cases c : b = ax
    · subst c
      rw [if_pos rfl] at this ⊢
      omega
    · rw [if_neg c] at this ⊢
      exact this
  | crop lo hi =>
    simp only [MapOp.ok, Bool.and_eq_true, decide_eq_true_eq] at hok
    obtain ⟨⟨h1, h2⟩, h3⟩ := hok
    rw [allLt_iff] at h3
    simp only [MapOp.src, Option.some.injEq] at hs
    subst hs
    obtain ⟨hl, hp⟩ := inRange_tab_inv _ _ _ hj
    apply inRange_tab _ _ _ rfl
    intro b hb
    have := hp b hb
    have h3b := h3 b hb
    simp only [Bool.and_eq_true, decide_eq_true_eq] at h3b
    omega
  | pad mode w =>
    simp only [MapOp.ok, Bool.and_eq_true, decide_eq_true_eq] at hok
    obtain ⟨h1, h2⟩ := hok
    rw [allLt_iff] at h2
    simp only [MapOp.src] at hs
    split at hs
    · rename_i hall
      rw [allLt_iff] at hall
      injection hs with hs
      subst hs
      apply inRange_tab _ _ _ rfl
      intro b hb
      have hsome := hall b hb
      have hpos := h2 b hb
      simp only [decide_eq_true_eq] at hpos
      cases hps : padSrc mode (s.getD b 0) (w.getD b (0, 0)).1 (j.getD b 0) with
      | none => rw [hps] at hsome; cases hsome
      | some t =>
        simp only [Option.getD_some]
        exact padSrc_lt _ _ _ _ _ hpos hps
    · cases hs
  | resample n =>
    simp only [MapOp.ok, Bool.and_eq_true, decide_eq_true_eq] at hok
    obtain ⟨h1, h2⟩ := hok
    rw [allLt_iff] at h2
    simp only [MapOp.src, Option.some.injEq] at hs
    subst hs
    apply inRange_tab _ _ _ rfl
    intro b hb
    have := h2 b hb
    simp only [Bool.and_eq_true, decide_eq_true_eq] at this
    exact nearest_lt _ _ _ this.2
  | rot p q k =>
    simp only [MapOp.ok, Bool.and_eq_true, decide_eq_true_eq] at hok
    obtain ⟨⟨hp, hq⟩, hpq⟩ := hok
    simp only [MapOp.src, Option.some.injEq] at hs
    subst hs
    unfold rotSrc
    apply inRange_tab _ _ _ rfl
    intro b hb
    simp only [MapOp.shape] at hj
    have h4 : k % 4 = 0 ∨ k % 4 = 1 ∨ k % 4 = 2 ∨ k % 4 = 3 := by omega
    rcases h4 with h | h | h | h
    · rw [if_pos h]
      rw [if_neg (by omega)] at hj
      exact ((inRange_iff _ _).mp hj).2 b hb
    · rw [if_neg (by omega), if_neg (by omega), if_pos h]
      rw [if_pos (Or.inl h)] at hj
      obtain ⟨hl, hpt⟩ := (inRange_iff _ _).mp hj
      rw [T.swapAt_length] at hl hpt
      have jp := hpt p hp
      have jq := hpt q hq
      have jb := hpt b hb
      rw [getD_swapAt s p q _ hp hq hpq] at jp jq jb
      rw [if_pos rfl] at jp
      rw [if_neg (Ne.symm hpq), if_pos rfl] at jq
      by_cases c1 : b = p
      · rw [if_pos c1, c1]; exact jq
      · rw [if_neg c1] at jb ⊢
        by_cases c2 : b = q
        · rw [if_pos c2, c2]; omega
        · rw [if_neg c2] at jb ⊢; exact jb
    · rw [if_neg (by omega), if_pos h]
      rw [if_neg (by omega)] at hj
      obtain ⟨hl, hpt⟩ := (inRange_iff _ _).mp hj
      have jp := hpt p hp
      have jq := hpt q hq
      have jb := hpt b hb
      by_cases c1 : b = p
      · rw [if_pos c1, c1]; omega
      · rw [if_neg c1]
        by_cases c2 : b = q
        · rw [if_pos c2, c2]; omega
        · rw [if_neg c2]; exact jb
    · rw [if_neg (by omega), if_neg (by omega), if_neg (by omega)]
      rw [if_pos (Or.inr h)] at hj
      obtain ⟨hl, hpt⟩ := (inRange_iff _ _).mp hj
      rw [T.swapAt_length] at hl hpt
      have jp := hpt p hp
      have jq := hpt q hq
      have jb := hpt b hb
      rw [getD_swapAt s p q _ hp hq hpq] at jp jq jb
      rw [if_pos rfl] at jp
      rw [if_neg (Ne.symm hpq), if_pos rfl] at jq
      by_cases c1 : b = p
      · rw [if_pos c1, c1]; omega
      · rw [if_neg c1] at jb ⊢
        by_cases c2 : b = q
        · rw [if_pos c2, c2]; exact jp
        · rw [if_neg c2] at jb ⊢; exact jb

/-! ## the array call is the gather through `src`, for any entry type -/

theorem apply_shape {α} (op : MapOp) (x : NDA α) (fill : α) : (op.apply x fill).shape = op.shape x.shape := by
  cases op with
  | rot p q k => exact rot90_shape x p q k
  | take ax k => rfl
  | slice ax lo hi => rfl
  | crop lo hi => rfl
  | pad m w => rfl
  | resample n => rfl

theorem apply_get {α} (op : MapOp) (x : NDA α) (fill : α) (hok : op.ok x.shape = true) (j : List Nat)
    (hj : inRange (op.shape x.shape) j = true) :
    (op.apply x fill).get j = match op.src x.shape j with
      | some i => x.get i
      | none => fill := by
  cases op with
  | rot p q k =>
    simp only [MapOp.ok, Bool.and_eq_true, decide_eq_true_eq] at hok
    obtain ⟨⟨hp, hq⟩, hpq⟩ := hok
    have hl : j.length = x.shape.length := by
      have := ((inRange_iff _ _).mp hj).1
      rw [this]
      simp only [MapOp.shape]
      split
      · exact T.swapAt_length _ _ _
      · rfl
    show (T.rot90 x p q k).get j = x.get (rotSrc x.shape p q k j)
    rw [T.rot90_get, srcIdx_eq_rotSrc _ _ _ _ _ hpq hp hq hl]
  | take ax k => rfl
  | slice ax lo hi => rfl
  | crop lo hi => rfl
  | pad m w => rfl
  | resample n => rfl

end DFV.C08
