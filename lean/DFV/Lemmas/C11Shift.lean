import DFV.Lemmas.C11Ring
/-!
C11: index rotations (`fftshift`/`ifftshift`) are mutually inverse, the zero-frequency index,
the phase factor at a shifted index.
-/
namespace DFV.C11
open DFV

variable {R : Type} [CommRing R]

/-! ### index rotations -/

theorem shift1_inv (n j : Nat) (hj : j < n) : ((j + n / 2) % n + (n - n / 2)) % n = j := by
  rw [Nat.mod_add_mod]
  have : j + n / 2 + (n - n / 2) = j + n := by omega
  rw [this, Nat.add_mod_right, Nat.mod_eq_of_lt hj]

theorem shift1_inv' (n j : Nat) (hj : j < n) : ((j + (n - n / 2)) % n + n / 2) % n = j := by
  rw [Nat.mod_add_mod]
  have : j + (n - n / 2) + n / 2 = j + n := by omega
  rw [this, Nat.add_mod_right, Nat.mod_eq_of_lt hj]

/-- `fftshift ∘ ifftshift = id` on every in-range index, any shape -/
theorem fshift_ishift (ns m : List Nat) (h : inRange ns m = true) : fshift ns (ishift ns m) = m := by
  induction ns generalizing m with
  | nil => cases m <;> simp_all [inRange, fshift]
  | cons n ns ih =>
    cases m with
    | nil => simp [inRange] at h
    | cons j js =>
      rw [inRange_cons] at h
      simp only [ishift, fshift, shift1_inv n j h.1, ih js h.2]

/-- `ifftshift ∘ fftshift = id` -/
theorem ishift_fshift (ns m : List Nat) (h : inRange ns m = true) : ishift ns (fshift ns m) = m := by
  induction ns generalizing m with
  | nil => cases m <;> simp_all [inRange, ishift]
  | cons n ns ih =>
    cases m with
    | nil => simp [inRange] at h
    | cons j js =>
      rw [inRange_cons] at h
      simp only [ishift, fshift, shift1_inv' n j h.1, ih js h.2]

theorem ishift_inRange (ns m : List Nat) (h : inRange ns m = true) : inRange ns (ishift ns m) = true := by
  induction ns generalizing m with
  | nil => cases m <;> simp_all [inRange, ishift]
  | cons n ns ih =>
    cases m with
    | nil => simp [inRange] at h
    | cons j js =>
      rw [inRange_cons] at h
      simp only [ishift, inRange_cons]
      exact ⟨Nat.mod_lt _ (by omega), ih js h.2⟩

theorem fshift_inRange (ns m : List Nat) (h : inRange ns m = true) : inRange ns (fshift ns m) = true := by
  induction ns generalizing m with
  | nil => cases m <;> simp_all [inRange, fshift]
  | cons n ns ih =>
    cases m with
    | nil => simp [inRange] at h
    | cons j js =>
      rw [inRange_cons] at h
      simp only [fshift, inRange_cons]
      exact ⟨Nat.mod_lt _ (by omega), ih js h.2⟩

/-- at the index `⌊n/2⌋` of every axis the shifted array reads the zero-frequency entry -/
theorem fshift_centre (ns : List Nat) (h : ∀ n ∈ ns, 0 < n) (a : Nat) :
    (fshift ns (ns.map (· / 2))).getD a 0 = 0 := by
  induction ns generalizing a with
  | nil => simp [fshift]
  | cons n ns ih =>
    simp only [List.map_cons, fshift]
    have hn := h n (by simp)
    have e : (n / 2 + (n - n / 2)) % n = 0 := by
      have : n / 2 + (n - n / 2) = n := by omega
      rw [this, Nat.mod_self]
    cases a with
    | zero => simp [e]
    | succ a =>
      simp only [List.getD_cons_succ]
      exact ih (fun k hk => h k (by simp [hk])) a

/-! ### the phase factor at a shifted index: `w^((m - ⌊n/2⌋)·r)` -/

theorem tw_shift {n : Nat} {ρ : Root R} (h : IsRoot n ρ) (m r : Nat) (hm : m < n) :
    tw ρ.w n ((m + (n - n / 2)) % n) r = ρ.w ^ (m * r) * ρ.wi ^ (n / 2 * r) := by
  have hn : 0 < n := by omega
  rw [tw_eq _ _ _ _ h.pow_n]
  -- multiply both sides by w^(⌊n/2⌋ r), which is invertible
  have hinv : ρ.w ^ (n / 2 * r) * ρ.wi ^ (n / 2 * r) = 1 := by rw [← mul_pow, h.inv, one_pow]
  have key : ρ.w ^ ((m + (n - n / 2)) % n * r) * ρ.w ^ (n / 2 * r) = ρ.w ^ (m * r) := by
    rw [← pow_add, ← pow_mod_of_pow_eq_one ρ.w n _ h.pow_n, ← pow_mod_of_pow_eq_one ρ.w n (m * r) h.pow_n]
    congr 1
    have e1 : (m + (n - n / 2)) % n * r + n / 2 * r = ((m + (n - n / 2)) % n + n / 2) * r := by ring
    rw [e1, Nat.mul_mod, shift1_inv' n m hm, Nat.mul_mod m r n, Nat.mod_eq_of_lt hm]
  calc ρ.w ^ ((m + (n - n / 2)) % n * r)
      = ρ.w ^ ((m + (n - n / 2)) % n * r) * (ρ.w ^ (n / 2 * r) * ρ.wi ^ (n / 2 * r)) := by rw [hinv, mul_one]
    _ = (ρ.w ^ ((m + (n - n / 2)) % n * r) * ρ.w ^ (n / 2 * r)) * ρ.wi ^ (n / 2 * r) := by ring
    _ = ρ.w ^ (m * r) * ρ.wi ^ (n / 2 * r) := by rw [key]

/-- `Π_a w_a^(m_a r_a) · wi_a^(⌊n_a/2⌋ r_a)`: the phase `exp(-2πi Σ_a (m_a - ⌊n_a/2⌋) r_a / n_a)` -/
def phase : List (Root R) → List Nat → List Nat → List Nat → R
  | _, [], _, _ => 1
  | ρs, n :: ns, m, r =>
    ((ρs.headD ⟨1, 1, 1⟩).w ^ (m.headD 0 * r.headD 0) * (ρs.headD ⟨1, 1, 1⟩).wi ^ (n / 2 * r.headD 0)) *
      phase ρs.tail ns m.tail r.tail

theorem twProd_fshift (ρs : List (Root R)) (ns : List Nat) (hρ : Roots ns ρs) (m r : List Nat)
    (hm : inRange ns m = true) : twProd ρs ns (fshift ns m) r = phase ρs ns m r := by
  induction ns generalizing ρs m r with
  | nil => simp [twProd, phase]
  | cons n ns ih =>
    cases m with
    | nil => simp [inRange] at hm
    | cons j js =>
      rw [inRange_cons] at hm
      obtain ⟨hr, hrs⟩ := hρ
      simp only [fshift, twProd, phase, List.headD_cons, List.tail_cons]
      rw [tw_shift hr j _ hm.1, ih ρs.tail hrs js r.tail hm.2]

end DFV.C11
