import DFV.Model.C07
import DFV.Lemmas.C08Wf
import Mathlib.Tactic.FieldSimp
/-! C08 helper lemmas, part 13: the object-level link to the C07 model.  The array calls of
`C07.selFld`, `C07.getItem`, `C07.padFld`, `C07.resample` (`NDA.take`, `NDA.slice`, `sliceBlock`,
`padNDA`, `resampleNDA`) are, entry by entry, the polymorphic array call `MapOp.apply` of the C08
model — for ANY entry type, hence for the value array and the validity array alike. -/
namespace DFV.C08
open DFV

/-! ## list helpers -/

theorem length_removeAt {α} (l : List α) (a : Nat) (h : a < l.length) : (removeAt l a).length = l.length - 1 := by
  induction l generalizing a with
  | nil => simp at h
  | cons x xs ih =>
    cases a with
    | zero => simp [removeAt]
    | succ a =>
      simp only [removeAt, List.length_cons] at h ⊢
      rw [ih a (by omega)]; omega

theorem getD_removeAt {α} (l : List α) (a b : Nat) (d : α) :
    (removeAt l a).getD b d = if b < a then l.getD b d else l.getD (b + 1) d := by
  induction l generalizing a b with
  | nil => simp [removeAt]
  | cons x xs ih =>
    cases a with
    | zero => simp [removeAt]
    | succ a =>
      cases b with
      | zero => simp [removeAt]
      | succ b =>
        simp only [removeAt, List.getD_cons_succ, ih a b]
        by_cases c : b < a
        · simp [c]
        · simp [c]

theorem removeAt_eq_tab (s : List Nat) (a : Nat) (h : a < s.length) :
    removeAt s a = tab (s.length - 1) fun b => if b < a then s.getD b 0 else s.getD (b + 1) 0 :=
  eq_tab_of_getD _ _ _ 0 (length_removeAt s a h) fun i _ => getD_removeAt s a i 0

theorem length_setAt' {α} (l : List α) (a : Nat) (x : α) : (setAt l a x).length = l.length := by
  induction l generalizing a with
  | nil => rfl
  | cons y ys ih =>
    cases a with
    | zero => rfl
    | succ a => simp [setAt, ih a]

theorem setAt_eq_tab (l : List Nat) (a x : Nat) :
    setAt l a x = tab l.length fun b => if b = a then x else l.getD b 0 := by
  refine eq_tab_of_getD _ _ _ 0 (length_setAt' l a x) fun i hi => ?_
  by_cases c : i = a
  · subst c; rw [T.getD_setAt_eq _ _ _ _ hi]; simp
  · rw [T.getD_setAt_ne _ _ _ _ _ c]; simp [c]

theorem insert_eq_tab (j : List Nat) (a k L : Nat) (hl : j.length + 1 = L) (ha : a < L) :
    j.take a ++ k :: j.drop a = tab L fun b => if b < a then j.getD b 0 else if b = a then k else j.getD (b - 1) 0 := by
  have hta : (j.take a).length = a := by rw [List.length_take]; omega
  refine eq_tab_of_getD _ _ _ 0 (by simp; omega) fun i hi => ?_
  rw [List.getD_eq_getElem?_getD]
  by_cases c : i < a
  · rw [List.getElem?_append_left (by omega), List.getElem?_take_of_lt c]
    simp [c, List.getD_eq_getElem?_getD]
  · rw [List.getElem?_append_right (by omega), hta]
    by_cases c2 : i = a
    · subst c2; simp
    · have : i - a = (i - a - 1) + 1 := by omega
      rw [this, List.getElem?_cons_succ, List.getElem?_drop]
      have e : a + (i - a - 1) = i - 1 := by omega
      rw [e]
      simp [c, c2, List.getD_eq_getElem?_getD]

/-! ## `sel` on a plane / a range, `field[region]` -/

/-- `a.take(k, axis)` = the mapping operation `take` -/
theorem take_link {α} (x : NDA α) (a k : Nat) (fill : α) (ha : a < x.shape.length) :
    (x.take a k).shape = ((MapOp.take a k).apply x fill).shape ∧
    ∀ j, j.length + 1 = x.shape.length → (x.take a k).get j = ((MapOp.take a k).apply x fill).get j := by
  refine ⟨?_, fun j hj => ?_⟩
  · show removeAt x.shape a = _
    rw [removeAt_eq_tab _ _ ha]; rfl
  · show x.get (j.take a ++ k :: j.drop a) = x.get _
    rw [insert_eq_tab j a k x.shape.length hj ha]

/-- `a[..., lo:hi, ...]` = the mapping operation `slice` -/
theorem slice_link {α} (x : NDA α) (a lo hi : Nat) (fill : α) :
    (x.slice a lo hi).shape = ((MapOp.slice a lo hi).apply x fill).shape ∧
    ∀ j, j.length = x.shape.length → (x.slice a lo hi).get j = ((MapOp.slice a lo hi).apply x fill).get j := by
  refine ⟨?_, fun j hj => ?_⟩
  · show setAt x.shape a (hi - lo) = _
    rw [setAt_eq_tab]; rfl
  · show x.get (setAt j a (j.getD a 0 + lo)) = x.get _
    rw [setAt_eq_tab, hj]
    congr 1
    apply tab_congr
    intro i _
    by_cases c : i = a
    · subst c; simp
    · simp [c]

/-- the array part of `Field.sel` is ONE mapping operation for every entry type -/
def selOp (a : Nat) : C07.SelIdx → MapOp
  | .plane _ k => .take a k
  | .range _ _ k1 k2 => .slice a k1 (k2 + 1)

theorem selData_link {α} (x : NDA α) (a : Nat) (idx : C07.SelIdx) (fill : α) (ha : a < x.shape.length) :
    (C07.selData x a idx).shape = ((selOp a idx).apply x fill).shape ∧
    ∀ j, inRange (C07.selData x a idx).shape j = true →
      (C07.selData x a idx).get j = ((selOp a idx).apply x fill).get j := by
  cases idx with
  | plane c k =>
    obtain ⟨h1, h2⟩ := take_link x a k fill ha
    refine ⟨h1, fun j hj => h2 j ?_⟩
    have := inRange_length _ _ hj
    have hl : (removeAt x.shape a).length = x.shape.length - 1 := length_removeAt _ _ ha
    have : j.length = (removeAt x.shape a).length := this
    omega
  | range c1 c2 k1 k2 =>
    obtain ⟨h1, h2⟩ := slice_link x a k1 (k2 + 1) fill
    refine ⟨h1, fun j hj => h2 j ?_⟩
    have := inRange_length _ _ hj
    have : j.length = (setAt x.shape a (k2 + 1 - k1)).length := this
    rw [length_setAt'] at this
    exact this

/-- `a[lo₀:lo₀+n₀, …]` (with NumPy's clamping) = the mapping operation `crop`; the block fits -/
theorem sliceBlock_link {α} (x : NDA α) (lo n : List Nat) (fill : α)
    (hfit : ∀ b, b < x.shape.length → lo.getD b 0 + n.getD b 0 ≤ x.shape.getD b 0) :
    (C07.sliceBlock x lo n).shape
      = ((MapOp.crop lo (tab x.shape.length fun b => lo.getD b 0 + n.getD b 0)).apply x fill).shape ∧
    ∀ j, (C07.sliceBlock x lo n).get j
      = ((MapOp.crop lo (tab x.shape.length fun b => lo.getD b 0 + n.getD b 0)).apply x fill).get j := by
  refine ⟨?_, fun j => rfl⟩
  show tab _ _ = tab _ _
  apply tab_congr
  intro b hb
  rw [getD_tab _ _ _ _ hb]
  have := hfit b hb
  omega

/-! ## padding -/

def padModeOf : C07.PadMode → PadMode
  | .constant => .constant
  | .edge => .edge
  | .wrap => .wrap
  | .symmetric => .symmetric
  | .reflect => .reflect

/-- `(j − lo) mod P` computed in ℤ is `(j + lo·(P−1)) mod P` computed in ℕ -/
theorem int_mod_shift (j lo P : Nat) (hP : 0 < P) :
    (((j : Int) - (lo : Int)) % (P : Int)) = (((j + lo * (P - 1)) % P : Nat) : Int) := by
  have h1 : ((j + lo * (P - 1) : Nat) : Int) = (j : Int) - lo + lo * P := by
    have : ((P - 1 : Nat) : Int) = (P : Int) - 1 := by omega
    push_cast [this]; ring
  rw [Int.natCast_mod, h1, Int.add_mul_emod_self_right]

theorem padSrc_link (mode : C07.PadMode) (n lo j : Nat) (hn : 0 < n) :
    C07.padSrc mode n lo j = padSrc (padModeOf mode) n lo j := by
  unfold C07.padSrc
  by_cases hin : lo ≤ j ∧ j < lo + n
  · rw [if_pos hin]
    have hlt : j - lo < n := by omega
    cases mode with
    | constant => simp [padModeOf, padSrc, hin]
    | edge =>
      simp only [padModeOf, padSrc]
      rw [if_neg (by omega), if_pos hin.2]
    | wrap =>
      simp only [padModeOf, padSrc]
      have : j + lo * (n - 1) = (j - lo) + lo * n := by
        have : lo * (n - 1) + lo = lo * n := by
          rw [← Nat.mul_succ]; congr 1; omega
        omega
      rw [this, Nat.add_mul_mod_self_right, Nat.mod_eq_of_lt hlt]
    | symmetric =>
      simp only [padModeOf, padSrc]
      have : j + lo * (2 * n - 1) = (j - lo) + lo * (2 * n) := by
        have : lo * (2 * n - 1) + lo = lo * (2 * n) := by
          rw [← Nat.mul_succ]; congr 1; omega
        omega
      rw [this, Nat.add_mul_mod_self_right, Nat.mod_eq_of_lt (by omega : j - lo < 2 * n), if_pos hlt]
    | reflect =>
      simp only [padModeOf, padSrc]
      by_cases h1 : n = 1
      · subst h1; rw [if_pos rfl]; congr 1; omega
      · rw [if_neg h1]
        have : j + lo * (2 * n - 3) = (j - lo) + lo * (2 * n - 2) := by
          have : lo * (2 * n - 3) + lo = lo * (2 * n - 2) := by
            rw [← Nat.mul_succ]; congr 1; omega
          omega
        rw [this, Nat.add_mul_mod_self_right, Nat.mod_eq_of_lt (by omega : j - lo < 2 * n - 2), if_pos hlt]
  · rw [if_neg hin]
    cases mode with
    | constant => simp [padModeOf, padSrc, hin]
    | edge =>
      simp only [padModeOf, padSrc]
      by_cases c : j < lo
      · simp [c]
      · rw [if_neg c, if_neg c, if_neg (by omega)]
    | wrap =>
      simp only [padModeOf, padSrc]
      rw [int_mod_shift j lo n hn, Int.toNat_natCast]
    | symmetric =>
      simp only [padModeOf, padSrc]
      have h2 : (2 * (n : Int)) = ((2 * n : Nat) : Int) := by push_cast; ring
      rw [h2, int_mod_shift j lo (2 * n) (by omega)]
      have hm : (j + lo * (2 * n - 1)) % (2 * n) < 2 * n := Nat.mod_lt _ (by omega)
      by_cases c : (j + lo * (2 * n - 1)) % (2 * n) < n
      · rw [if_pos (by exact_mod_cast c), if_pos c, Int.toNat_natCast]
      · rw [if_neg (by exact_mod_cast c), if_neg c]
        congr 1
        omega
    | reflect =>
      simp only [padModeOf, padSrc]
      by_cases h1 : n = 1
      · rw [if_pos h1, if_pos h1]
      · rw [if_neg h1, if_neg h1]
        have h2 : (2 * (n : Int) - 2) = ((2 * n - 2 : Nat) : Int) := by omega
        rw [h2, int_mod_shift j lo (2 * n - 2) (by omega)]
        have e3 : 2 * n - 2 - 1 = 2 * n - 3 := by omega
        rw [e3]
        have hm : (j + lo * (2 * n - 3)) % (2 * n - 2) < 2 * n - 2 := Nat.mod_lt _ (by omega)
        by_cases c : (j + lo * (2 * n - 3)) % (2 * n - 2) < n
        · rw [if_pos (by exact_mod_cast c), if_pos c, Int.toNat_natCast]
        · rw [if_neg (by exact_mod_cast c), if_neg c]
          congr 1
          omega

/-- the pad widths of `Field.pad` as the list `np.pad` receives -/
def padWidths (s : List Nat) (w : Nat → Int × Int) : List (Nat × Nat) :=
  tab s.length fun b => ((w b).1.toNat, (w b).2.toNat)

/-- `np.pad(x, widths, mode)` of the C07 model = the mapping operation `pad` -/
theorem padNDA_link {α} (mode : C07.PadMode) (w : Nat → Int × Int) (fill : α) (x : NDA α)
    (hpos : ∀ b, b < x.shape.length → 0 < x.shape.getD b 0) :
    (C07.padNDA mode w fill x).shape = ((MapOp.pad (padModeOf mode) (padWidths x.shape w)).apply x fill).shape ∧
    ∀ j, (C07.padNDA mode w fill x).get j = ((MapOp.pad (padModeOf mode) (padWidths x.shape w)).apply x fill).get j := by
  have hw : ∀ b, b < x.shape.length → (padWidths x.shape w).getD b (0, 0) = ((w b).1.toNat, (w b).2.toNat) :=
    fun b hb => getD_tab _ _ _ _ hb
  refine ⟨?_, fun j => ?_⟩
  · show tab _ _ = tab _ _
    apply tab_congr
    intro b hb
    rw [hw b hb]
  · show (match C07.padSrcIdx mode x.shape w j with
      | some i => x.get i
      | none => fill) = (match (MapOp.pad (padModeOf mode) (padWidths x.shape w)).src x.shape j with
      | some i => x.get i
      | none => fill)
    have hsrc : C07.padSrcIdx mode x.shape w j = (MapOp.pad (padModeOf mode) (padWidths x.shape w)).src x.shape j := by
      unfold C07.padSrcIdx MapOp.src
      have e1 : allLt x.shape.length (fun b => (C07.padSrc mode (x.shape.getD b 0) (w b).1.toNat (j.getD b 0)).isSome)
          = allLt x.shape.length (fun b => (padSrc (padModeOf mode) (x.shape.getD b 0)
              ((padWidths x.shape w).getD b (0, 0)).1 (j.getD b 0)).isSome) := by
        rw [Bool.eq_iff_iff, allLt_iff, allLt_iff]
        refine forall_congr' fun b => forall_congr' fun hb' => ?_
        rw [hw b hb', padSrc_link _ _ _ _ (hpos b hb')]
      have e2 : (tab x.shape.length fun b => (C07.padSrc mode (x.shape.getD b 0) (w b).1.toNat (j.getD b 0)).getD 0)
          = tab x.shape.length fun b => (padSrc (padModeOf mode) (x.shape.getD b 0)
              ((padWidths x.shape w).getD b (0, 0)).1 (j.getD b 0)).getD 0 := by
        apply tab_congr
        intro b hb
        rw [hw b hb, padSrc_link _ _ _ _ (hpos b hb)]
      rw [e1, e2]
    rw [hsrc]

/-! ## resampling -/

theorem nearestUpTo_link (cs : Nat → Rat) (x : Rat) (m : Nat) : C07.nearestUpTo cs x m = nearestUpTo cs x m := by
  induction m with
  | zero => rfl
  | succ k ih => simp only [C07.nearestUpTo, nearestUpTo, ih]

/-- the search reads the coordinate table only up to its bound -/
theorem nearestUpTo_congr (cs cs' : Nat → Rat) (x : Rat) (m : Nat) (h : ∀ k, k ≤ m → cs k = cs' k) :
    nearestUpTo cs x m = nearestUpTo cs' x m := by
  induction m with
  | zero => rfl
  | succ k ih =>
    have ihk := ih (fun i hi => h i (by omega))
    have hle := nearestUpTo_le cs' x k
    simp only [nearestUpTo, ihk, h (k + 1) (by omega), h (nearestUpTo cs' x k) (by omega)]

/-- `mesh.cells[a][k]` is the centre of cell `k`: `lo + (k + 1/2)·(E / n)` -/
theorem coord_affine (m : Mesh) (a k : Nat) (ha : a < m.ndim) (hk : k < m.nAt a) :
    C07.coord m a k = m.region.lo a + ((k : Rat) + 1 / 2) * (m.region.edge a / (m.nAt a : Rat)) := by
  unfold C07.coord Mesh.cells
  rw [getD_tab _ _ _ _ ha]
  unfold Mesh.linspace
  have hn : (0 : Rat) < (m.nAt a : Rat) := by exact_mod_cast (by omega : 0 < m.nAt a)
  by_cases c : m.nAt a = 1
  · rw [if_pos c]
    have hk0 : k = 0 := by omega
    subst hk0
    simp only [List.getD_cons_zero, Mesh.cellAt, c]
    push_cast; ring
  · rw [if_neg c, getD_tab _ _ _ _ hk]
    have hn1 : ((m.nAt a : Rat) - 1) ≠ 0 := by
      have : (1 : Rat) < (m.nAt a : Rat) := by exact_mod_cast (by omega : 1 < m.nAt a)
      linarith
    simp only [Mesh.cellAt, Region.edge]
    field_simp
    ring

/-- the lookup `to_xarray().sel(..., method="nearest")` of the C07 model = the mapping operation
`resample`, when source and target mesh cover the same region -/
theorem resampleNDA_link {α} (src tgt : Mesh) (x : NDA α) (fill : α) (hr : tgt.region = src.region)
    (hxs : x.shape = src.n) (hsl : src.n.length = src.ndim) (htl : tgt.n.length = tgt.ndim)
    (hspos : ∀ a, a < src.ndim → 0 < src.nAt a) (hE : ∀ a, a < src.ndim → 0 < src.region.edge a) :
    (C07.resampleNDA src tgt x).shape = ((MapOp.resample tgt.n).apply x fill).shape ∧
    ∀ j, inRange tgt.n j = true →
      (C07.resampleNDA src tgt x).get j = ((MapOp.resample tgt.n).apply x fill).get j := by
  refine ⟨rfl, fun j hj => ?_⟩
  show x.get _ = x.get (tab x.shape.length fun b => nearest (x.shape.getD b 0) (tgt.n.getD b 0) (j.getD b 0))
  congr 1
  rw [hxs, hsl]
  apply tab_congr
  intro a ha
  have hnd : tgt.ndim = src.ndim := by unfold Mesh.ndim; rw [hr]
  have hja : j.getD a 0 < tgt.n.getD a 0 := inRange_getD _ _ hj a (by rw [htl, hnd]; exact ha)
  unfold C07.nearestAx
  rw [nearestUpTo_link]
  rw [coord_affine tgt a (j.getD a 0) (by rw [hnd]; exact ha) hja, hr]
  rw [nearestUpTo_congr (C07.coord src a)
      (fun k => src.region.lo a + ((k : Rat) + 1 / 2) * (src.region.edge a / (src.nAt a : Rat))) _ _
      (fun k hk => coord_affine src a k ha (by have := hspos a ha; omega))]
  exact resample_geometry_free' (src.region.lo a) (src.region.edge a) (hE a ha) (src.nAt a) (tgt.nAt a) (j.getD a 0)
where
  resample_geometry_free' (lo E : Rat) (hE : 0 < E) (n n' j : Nat) :
      nearestUpTo (fun k => lo + ((k : Rat) + 1 / 2) * (E / (n : Rat))) (lo + ((j : Rat) + 1 / 2) * (E / (n' : Rat))) (n - 1)
        = nearest n n' j := by
    unfold nearest
    simp only [centre_affine]
    exact nearestUpTo_affine (centre01 n) (centre01 n' j) lo E hE (n - 1)

end DFV.C08
