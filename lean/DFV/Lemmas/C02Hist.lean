import DFV.Lemmas.C02Shape
/-! C02 helper lemmas, part 15: sequences of assignments (histories). -/
namespace DFV.C02
open DFV

variable {V : Type} [Inhabited V]

/-- the array an assignment produces on mesh `m` with `nv` components — it does not depend on what
the field held before -/
def Assign.result (isZero : V → Bool) (m : Mesh) (nv : Nat) : Assign V → M (NDA V)
  | .set l => asLeaf isZero l m nv
  | .upd s => updateValues isZero s m nv
  | .setS s => asArray isZero s m nv

/-- array of the last accepted assignment of a history (`acc` if there is none) -/
def lastResult (isZero : V → Bool) (m : Mesh) (nv : Nat) (acc : Option (NDA V)) (ops : List (Assign V)) :
    Option (NDA V) :=
  ops.foldl (fun acc op => match Assign.result isZero m nv op with
    | .ok a => some a
    | .error _ => acc) acc

/-- field `f` with the array replaced (or kept) -/
def withData (f : VF V) (o : Option (NDA V)) : VF V :=
  match o with
  | none => f
  | some a => { f with data := a }

theorem step_eq (isZero : V → Bool) (f : VF V) (op : Assign V) :
    VF.step isZero f op = match Assign.result isZero f.mesh f.nvdim op with
      | .ok a => { f with data := a }
      | .error _ => f := by
  cases op with
  | set l =>
    simp only [VF.step, VF.setArray, Assign.result]
    cases asLeaf isZero l f.mesh f.nvdim <;> rfl
  | upd s =>
    simp only [VF.step, VF.update, Assign.result]
    cases updateValues isZero s f.mesh f.nvdim <;> rfl
  | setS s =>
    simp only [VF.step, VF.setSpec, Assign.result]
    cases asArray isZero s f.mesh f.nvdim <;> rfl

theorem step_withData (isZero : V → Bool) (f : VF V) (acc : Option (NDA V)) (op : Assign V) :
    VF.step isZero (withData f acc) op = withData f (match Assign.result isZero f.mesh f.nvdim op with
      | .ok a => some a
      | .error _ => acc) := by
  rw [step_eq]
  cases acc with
  | none =>
    simp only [withData]
    cases Assign.result isZero f.mesh f.nvdim op <;> rfl
  | some b =>
    simp only [withData]
    cases Assign.result isZero f.mesh f.nvdim op <;> rfl

theorem run_withData (isZero : V → Bool) (f : VF V) (acc : Option (NDA V)) (ops : List (Assign V)) :
    VF.run isZero (withData f acc) ops = withData f (lastResult isZero f.mesh f.nvdim acc ops) := by
  induction ops generalizing acc with
  | nil => rfl
  | cons op rest ih =>
    simp only [VF.run, List.foldl_cons, lastResult] at ih ⊢
    rw [step_withData]
    exact ih _

theorem result_shape (isZero : V → Bool) (m : Mesh) (nv : Nat) (op : Assign V) (a : NDA V)
    (h : Assign.result isZero m nv op = .ok a) : a.shape = m.n ++ [nv] := by
  cases op with
  | set l => exact asLeaf_shape isZero l m nv a h
  | upd s =>
    simp only [Assign.result, updateValues] at h
    split at h
    · cases h
    · exact asLeaf_shape isZero _ m nv a h
  | setS s => exact asArray_shape_any isZero s m nv a h

theorem lastResult_shape (isZero : V → Bool) (m : Mesh) (nv : Nat) (acc : Option (NDA V)) (ops : List (Assign V))
    (hacc : ∀ a, acc = some a → a.shape = m.n ++ [nv]) :
    ∀ a, lastResult isZero m nv acc ops = some a → a.shape = m.n ++ [nv] := by
  induction ops generalizing acc with
  | nil => exact hacc
  | cons op rest ih =>
    simp only [lastResult, List.foldl_cons] at ih ⊢
    apply ih
    intro a ha
    split at ha
    · rename_i b hb
      injection ha with ha; subst ha
      exact result_shape isZero m nv op b hb
    · exact hacc a ha

theorem lastResult_append_ok (isZero : V → Bool) (m : Mesh) (nv : Nat) (acc : Option (NDA V))
    (pre post : List (Assign V)) (op : Assign V) (a : NDA V)
    (hop : Assign.result isZero m nv op = .ok a)
    (hpost : ∀ q ∈ post, ∃ e, Assign.result isZero m nv q = .error e) :
    lastResult isZero m nv acc (pre ++ op :: post) = some a := by
  simp only [lastResult, List.foldl_append, List.foldl_cons, hop]
  induction post with
  | nil => rfl
  | cons q rest ih =>
    obtain ⟨e, he⟩ := hpost q (by simp)
    simp only [List.foldl_cons, he]
    exact ih fun q' hq' => hpost q' (by simp [hq'])

end DFV.C02
