import DFV.Lemmas.C19Bps
import DFV.Lemmas.C19Angle
import DFV.Lemmas.C19Mesh
/-!
# C19 — acceptance of every tool as an EQUIVALENCE (accepted ⇔ well-formed input), and the arithmetic
of the Bloch-point count
-/
namespace DFV.C19
open DFV

/-! ## accepted ⇔ well-formed -/

theorem tcd_ok_iff' (sq : Rat → Rat) (pi : Rat) (Om : Tri → Rat) (f : Fld) (m : Method) :
    (∃ q, tcd sq pi Om f m = .ok q) ↔ (f.nvdim = 3 ∧ f.mesh.ndim = 2 ∧ m ≠ .other) := by
  constructor
  · rintro ⟨q, hq⟩
    obtain ⟨a, b, c, _⟩ := tcd_ok sq pi Om f q m hq
    exact ⟨a, b, c⟩
  · rintro ⟨a, b, c⟩
    exact ⟨_, tcd_succeeds sq pi Om f m a b c⟩

theorem charge_ok_iff' (sq : Rat → Rat) (pi : Rat) (Om : Tri → Rat) (f : Fld) (m : Method) (a : Bool) :
    (∃ c, charge sq pi Om f m a = .ok c) ↔ (f.nvdim = 3 ∧ f.mesh.ndim = 2 ∧ m ≠ .other) := by
  constructor
  · rintro ⟨c, hc⟩
    obtain ⟨q, hq, _⟩ := charge_ok_inv sq pi Om f m a c hc
    exact (tcd_ok_iff' sq pi Om f m).mp ⟨q, hq⟩
  · intro h
    obtain ⟨q, hq⟩ := (tcd_ok_iff' sq pi Om f m).mpr h
    exact ⟨_, charge_of_tcd sq pi Om f q m a hq⟩

theorem emergent_ok_iff' (f : Fld) : (∃ e, emergent f = .ok e) ↔ (f.nvdim = 3 ∧ f.mesh.ndim = 3) := by
  constructor
  · rintro ⟨e, he⟩
    have h3 : f.nvdim = 3 := by
      by_cases hc : f.nvdim = 3
      · exact hc
      · unfold emergent at he; rw [if_pos hc] at he; cases he
    have hd : f.mesh.ndim = 3 := by
      by_cases hc : f.mesh.ndim = 3
      · exact hc
      · unfold emergent at he; rw [if_neg (by simp [h3]), if_pos hc] at he; cases he
    exact ⟨h3, hd⟩
  · rintro ⟨h3, hd⟩
    exact ⟨_, emergent_eq f h3 hd⟩

theorem angle_ok_iff' (sq acos deg : Rat → Rat) (f : Fld) (dir units : String) (hm : f.mesh.Inv) :
    (∃ g, neighbourAngle sq acos deg f dir units = .ok g) ↔
      (f.nvdim = 3 ∧ (units = "rad" ∨ units = "deg") ∧
        ∃ ax, indexOf? f.mesh.region.dims dir = some ax ∧ 2 ≤ f.mesh.nAt ax) := by
  constructor
  · rintro ⟨g, hg⟩
    obtain ⟨h3, hu, ax, hax, hmesh, _⟩ := neighbourAngle_inv sq acos deg f g dir units hg
    refine ⟨h3, hu, ax, hax, ?_⟩
    have hl : ax < f.mesh.ndim := by
      have := indexOf_lt' _ _ _ hax
      rw [hm.1.2.2.1] at this
      exact this
    have hp := hm.2.2 ax hl
    by_cases h1 : f.mesh.nAt ax = 1
    · obtain ⟨e, he⟩ := angleMesh_single f.mesh hm ax hl h1
      rw [he] at hmesh; cases hmesh
    · omega
  · rintro ⟨h3, hu, ax, hax, h2⟩
    obtain ⟨g, _, hg, _⟩ := neighbourAngle_ok sq acos deg f dir units ax h3 hm hax hu h2
    exact ⟨g, hg⟩

theorem demagField_ok_iff' (T : NDA (List Rat)) (f : Fld) :
    (∃ g, demagField T f = .ok g) ↔
      (f.mesh.ndim = 3 ∧ f.nvdim = 3 ∧ f.mesh.region.dims = ["x", "y", "z"] ∧
        T.shape = [2 * f.mesh.nAt 0 - 1, 2 * f.mesh.nAt 1 - 1, 2 * f.mesh.nAt 2 - 1]) := by
  unfold demagField
  constructor
  · rintro ⟨g, hg⟩
    split at hg
    · cases hg
    · split at hg
      · cases hg
      · split at hg
        · cases hg
        · split at hg
          · cases hg
          · rename_i a b c d
            exact ⟨not_not.mp a, not_not.mp b, not_not.mp c, not_not.mp d⟩
  · rintro ⟨a, b, c, d⟩
    rw [if_neg (by simp [a]), if_neg (by simp [b]), if_neg (by simp [c]), if_neg (by simp [d])]
    exact ⟨_, rfl⟩

theorem demagTensor_ok_iff' (fb : Bool) (pi : Rat) (m : Mesh) (hm : m.Inv) :
    (∃ r, demagTensor fb pi m = .ok r) ↔ m.ndim = 3 := by
  unfold demagTensor
  constructor
  · rintro ⟨r, hr⟩
    split at hr
    · cases hr
    · rename_i a; exact not_not.mp a
  · intro h3
    obtain ⟨tm, htm, _⟩ := tensorMesh_ok m hm
    rw [if_neg (by simp [h3]), htm]
    exact ⟨_, rfl⟩

theorem emOri_succeeds (sq : Rat → Rat) (f : Fld) (h3 : f.nvdim = 3) (hd : f.mesh.ndim = 3) :
    ∃ e, emOri sq f = .ok e ∧ e.nvdim = 3 ∧ e.mesh = f.mesh :=
  ⟨_, emergent_eq (forceF (orientation sq f)) h3 hd, rfl, rfl⟩

theorem countBps_ok_iff' (sq : Rat → Rat) (pi : Rat) (f : Fld) (dir : String) :
    (∃ r, countBps sq pi f dir = .ok r) ↔
      (f.mesh.ndim = 3 ∧ f.nvdim = 3 ∧ ∃ ax, indexOf? f.mesh.region.dims dir = some ax ∧ 2 ≤ f.mesh.nAt ax) := by
  rw [countBps_eq]
  constructor
  · rintro ⟨r, hr⟩
    split at hr
    · cases hr
    · rename_i a
      split at hr
      · cases hr
      · rename_i b
        have hd : f.mesh.ndim = 3 := not_not.mp a
        have h3 : f.nvdim = 3 := not_not.mp b
        split at hr
        · cases hr
        · rename_i ax hax
          obtain ⟨e, he, e3, em⟩ := emOri_succeeds sq f h3 hd
          rw [he] at hr
          simp only at hr
          rw [divCount_eq pi f.mesh ax (forceF e) e3 (by show e.mesh.ndim = 3; rw [em]; exact hd)] at hr
          split at hr
          · cases hr
          · rename_i hn
            exact ⟨hd, h3, ax, hax, by omega⟩
  · rintro ⟨hd, h3, ax, hax, h2⟩
    rw [if_neg (by simp [hd]), if_neg (by simp [h3]), hax]
    obtain ⟨e, he, e3, em⟩ := emOri_succeeds sq f h3 hd
    rw [he]
    simp only
    rw [divCount_eq pi f.mesh ax (forceF e) e3 (by show e.mesh.ndim = 3; rw [em]; exact hd), if_neg (by omega)]
    exact ⟨_, rfl⟩

/-! ## arithmetic of the count -/

/-- positive part plus negative part -/
theorem isum_split (l : List Int) :
    isum (l.filter (0 < ·)) + isum (l.filter (· < 0)) = isum l ∧
    isum (l.filter (0 < ·)) - isum (l.filter (· < 0)) = isum (l.map fun d => (d.natAbs : Int)) := by
  induction l with
  | nil => simp [isum]
  | cons x xs ih =>
    obtain ⟨i1, i2⟩ := ih
    simp only [List.filter_cons, List.map_cons, isum]
    by_cases hp : 0 < x
    · have hn : ¬ x < 0 := by omega
      simp only [hp, hn, decide_true, decide_false, if_true, isum, Bool.false_eq_true, if_false]
      constructor <;> omega
    · by_cases hn : x < 0
      · simp only [hp, hn, decide_true, decide_false, if_true, isum, Bool.false_eq_true, if_false]
        constructor <;> omega
      · have : x = 0 := by omega
        subst this
        simp only [hp, decide_false, Bool.false_eq_true, if_false, Int.natAbs_zero]
        constructor <;> omega

/-- the differences of a list telescope -/
theorem isum_diffs (xs : List Int) : isum (diffs xs) = xs.getD (xs.length - 1) 0 - xs.getD 0 0 := by
  unfold diffs
  have key : ∀ n, n ≤ xs.length - 1 → isum (tab n fun k => xs.getD (k + 1) 0 - xs.getD k 0) = xs.getD n 0 - xs.getD 0 0 := by
    intro n
    induction n with
    | zero => intro _; simp [tab, isum]
    | succ n ih =>
      intro hn
      have e : tab (n + 1) (fun k => xs.getD (k + 1) 0 - xs.getD k 0)
          = tab n (fun k => xs.getD (k + 1) 0 - xs.getD k 0) ++ [xs.getD (n + 1) 0 - xs.getD n 0] := by
        unfold tab
        rw [List.range_succ, List.map_append]
        rfl
      rw [e, isum_append, ih (by omega)]
      simp only [isum]
      omega
  exact key _ (Nat.le_refl _)

theorem isum_filter_neg_nonpos (l : List Int) : isum (l.filter (· < 0)) ≤ 0 := by
  apply isum_nonpos
  intro x hx
  have := (List.mem_filter.mp hx).2
  simp only [decide_eq_true_eq] at this
  omega

/-- ARITHMETIC OF `count_bps`' RESULT: `bp_number_hh + bp_number_tt = bp_number`, and
`bp_number_tt − bp_number_hh` is the rounded cumulative flux at the last cell minus the one at the first -/
theorem bpOf_arith (fint : List Rat) (pi : Rat) :
    (bpOf fint pi).hh + (bpOf fint pi).tt = (bpOf fint pi).total ∧
    (bpOf fint pi).tt - (bpOf fint pi).hh
      = (bpOf fint pi).number.getD ((bpOf fint pi).number.length - 1) 0 - (bpOf fint pi).number.getD 0 0 ∧
    0 ≤ (bpOf fint pi).hh ∧ 0 ≤ (bpOf fint pi).tt ∧ (bpOf fint pi).number.length = fint.length := by
  unfold bpOf
  simp only
  obtain ⟨s1, s2⟩ := isum_split (diffs (fint.map fun x => Mesh.roundHalfEven (x / (4 * pi))))
  have hneg := isum_filter_neg_nonpos (diffs (fint.map fun x => Mesh.roundHalfEven (x / (4 * pi))))
  have hpos : 0 ≤ isum ((diffs (fint.map fun x => Mesh.roundHalfEven (x / (4 * pi)))).filter (0 < ·)) := by
    apply isum_nonneg
    intro x hx
    have := (List.mem_filter.mp hx).2
    simp only [decide_eq_true_eq] at this
    omega
  have ht := isum_diffs (fint.map fun x => Mesh.roundHalfEven (x / (4 * pi)))
  have habs : (Int.ofNat (isum ((diffs (fint.map fun x => Mesh.roundHalfEven (x / (4 * pi)))).filter (· < 0))).natAbs : Int)
      = -isum ((diffs (fint.map fun x => Mesh.roundHalfEven (x / (4 * pi)))).filter (· < 0)) := by
    simp only [Int.ofNat_eq_natCast]
    omega
  rw [habs]
  refine ⟨by omega, by omega, by omega, hpos, by simp⟩

/-- the run-length pattern decodes to the list of local numbers -/
theorem rle_decode (l : List Int) : (rle l).flatMap (fun p => List.replicate p.2 p.1) = l := by
  induction l with
  | nil => rfl
  | cons x xs ih =>
    simp only [rle]
    cases h : rle xs with
    | nil =>
      rw [h] at ih
      simp only [List.flatMap_nil] at ih
      simp [← ih]
    | cons p r =>
      obtain ⟨y, c⟩ := p
      rw [h] at ih
      simp only
      by_cases hxy : x = y
      · subst hxy
        rw [if_pos rfl, ← ih]
        simp [List.replicate_succ]
      · rw [if_neg hxy, ← ih]
        simp

end DFV.C19
