import Mathlib.Tactic.Ring
import Mathlib.Tactic.Linarith
import Mathlib.Tactic.FieldSimp
import Mathlib.Data.Rat.Floor
import DFV.Lemmas.Tab
/-! Floor / clip lemmas over `Rat`. -/
namespace DFV

theorem rat_floor_eq (q : Rat) (i : Int) (h1 : (i : Rat) ≤ q) (h2 : q < (i : Rat) + 1) :
    q.floor = i := by
  have : q.floor = ⌊q⌋ := rfl
  rw [this, Int.floor_eq_iff]
  exact ⟨h1, h2⟩

theorem rat_floor_le (q : Rat) : (q.floor : Rat) ≤ q := Rat.floor_le q
theorem rat_lt_floor_add_one (q : Rat) : q < (q.floor : Rat) + 1 := by
  have := Rat.lt_floor_add_one q
  push_cast at this
  exact this

theorem rat_floor_nonneg (q : Rat) (h : 0 ≤ q) : 0 ≤ q.floor := by
  have : q.floor = ⌊q⌋ := rfl
  rw [this]; exact Int.floor_nonneg.mpr h

theorem rat_floor_lt (q : Rat) (k : Int) (h : q < (k : Rat)) : q.floor < k := by
  have : q.floor = ⌊q⌋ := rfl
  rw [this]; exact Int.floor_lt.mpr h

theorem rat_le_floor (q : Rat) (k : Int) (h : (k : Rat) ≤ q) : k ≤ q.floor := by
  have : q.floor = ⌊q⌋ := rfl
  rw [this]; exact Int.le_floor.mpr h

theorem absR_eq_abs (x : Rat) : absR x = |x| := by
  unfold absR
  split
  · rw [abs_of_neg]; assumption
  · rw [abs_of_nonneg]; linarith

theorem absR_nonneg (x : Rat) : 0 ≤ absR x := by rw [absR_eq_abs]; exact abs_nonneg x

end DFV
