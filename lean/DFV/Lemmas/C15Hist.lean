import DFV.Lemmas.C15Near
/-!
Histories (`run`) for C15: frame invariants, independence of the array from the validity
mask, well-formedness predicates under which every statement is accepted.
-/
namespace DFV.C15
open DFV

theorem step_frame {sqrt : Rat → Rat} {atol : Rat} {f g : Fld} {s : Step}
    (h : step sqrt atol f s = .ok g) :
    g.mesh = f.mesh ∧ g.nvdim = f.nvdim ∧ g.unit = f.unit ∧ g.vdims = f.vdims ∧ g.vmap = f.vmap := by
  cases s with
  | setNorm s =>
    cases s with
    | none =>
      simp only [step, setNorm_none, Except.ok.injEq] at h
      subst h; exact ⟨rfl, rfl, rfl, rfl, rfl⟩
    | some s =>
      obtain ⟨t, _, rfl⟩ := setNorm_some_ok (show setNorm sqrt f (some s) = .ok g from h)
      exact ⟨rfl, rfl, rfl, rfl, rfl⟩
  | update v =>
    obtain ⟨a, _, rfl⟩ := updateValues_ok (show updateValues f v = .ok g from h)
    exact ⟨rfl, rfl, rfl, rfl, rfl⟩
  | setValid s =>
    obtain ⟨v, _, rfl⟩ := setValid_ok (show setValid sqrt atol f s = .ok g from h)
    exact ⟨rfl, rfl, rfl, rfl, rfl⟩

theorem run_cons_ok {sqrt : Rat → Rat} {atol : Rat} {f g : Fld} {s : Step} {rest : List Step}
    (h : run sqrt atol f (s :: rest) = .ok g) :
    ∃ f1, step sqrt atol f s = .ok f1 ∧ run sqrt atol f1 rest = .ok g := by
  simp only [run] at h
  cases hs : step sqrt atol f s with
  | error e => rw [hs] at h; cases h
  | ok f1 => rw [hs] at h; exact ⟨f1, rfl, h⟩

theorem run_cons_of {sqrt : Rat → Rat} {atol : Rat} {f f1 : Fld} {s : Step} (rest : List Step)
    (h : step sqrt atol f s = .ok f1) : run sqrt atol f (s :: rest) = run sqrt atol f1 rest := by
  simp only [run, h]

theorem run_append_ok {sqrt : Rat → Rat} {atol : Rat} (h1 h2 : List Step) {f g : Fld}
    (h : run sqrt atol f (h1 ++ h2) = .ok g) :
    ∃ f1, run sqrt atol f h1 = .ok f1 ∧ run sqrt atol f1 h2 = .ok g := by
  induction h1 generalizing f with
  | nil => exact ⟨f, rfl, h⟩
  | cons s rest ih =>
    obtain ⟨f1, hs, hr⟩ := run_cons_ok (show run sqrt atol f (s :: (rest ++ h2)) = .ok g from h)
    obtain ⟨f2, h2', h3⟩ := ih hr
    exact ⟨f2, by rw [run_cons_of rest hs]; exact h2', h3⟩

/-! ### the array does not depend on the validity mask -/

/-- same mesh, component count and array (validity, labels, unit may differ) -/
def SameArr (f f' : Fld) : Prop := f.mesh = f'.mesh ∧ f.nvdim = f'.nvdim ∧ f.data = f'.data

def isSetValid : Step → Bool
  | .setValid _ => true
  | _ => false

theorem step_sameArr {sqrt : Rat → Rat} {atol : Rat} {f f' g : Fld} {s : Step} (hs : SameArr f f')
    (hv : isSetValid s = false) (h : step sqrt atol f s = .ok g) :
    ∃ g', step sqrt atol f' s = .ok g' ∧ SameArr g g' := by
  obtain ⟨hm, hn, hd⟩ := hs
  cases s with
  | setNorm s =>
    cases s with
    | none =>
      simp only [step, setNorm_none, Except.ok.injEq] at h
      subst h
      exact ⟨f', rfl, hm, hn, hd⟩
    | some s =>
      obtain ⟨t, ht, rfl⟩ := setNorm_some_ok (show setNorm sqrt f (some s) = .ok g from h)
      refine ⟨_, setNorm_of_target (f := f') (by rw [← hm]; exact ht), hm, hn, ?_⟩
      show (⟨f.mesh.n, _⟩ : NDA (List Rat)) = ⟨f'.mesh.n, _⟩
      rw [hm, hd]
  | update v =>
    obtain ⟨a, ha, rfl⟩ := updateValues_ok (show updateValues f v = .ok g from h)
    refine ⟨{ f' with data := a }, ?_, hm, hn, rfl⟩
    show updateValues f' v = _
    unfold updateValues
    rw [← hm, ← hn, ha]
  | setValid s => cases hv

theorem step_setValid_sameArr {sqrt : Rat → Rat} {atol : Rat} {f g : Fld} {s : ValidSpec}
    (h : step sqrt atol f (.setValid s) = .ok g) : SameArr f g := by
  obtain ⟨v, _, rfl⟩ := setValid_ok (show setValid sqrt atol f s = .ok g from h)
  exact ⟨rfl, rfl, rfl⟩

theorem SameArr.trans {f g h : Fld} (a : SameArr f g) (b : SameArr g h) : SameArr f h :=
  ⟨a.1.trans b.1, a.2.1.trans b.2.1, a.2.2.trans b.2.2⟩

theorem SameArr.symm {f g : Fld} (a : SameArr f g) : SameArr g f := ⟨a.1.symm, a.2.1.symm, a.2.2.symm⟩

theorem run_sameArr {sqrt : Rat → Rat} {atol : Rat} (hist : List Step) {f f' g : Fld}
    (hs : SameArr f f') (h : run sqrt atol f hist = .ok g) :
    ∃ g', run sqrt atol f' (hist.filter fun s => !isSetValid s) = .ok g' ∧ SameArr g g' := by
  induction hist generalizing f f' with
  | nil =>
    simp only [run, Except.ok.injEq] at h
    subst h
    exact ⟨f', rfl, hs⟩
  | cons s rest ih =>
    obtain ⟨f1, h1, hr⟩ := run_cons_ok h
    by_cases hv : isSetValid s = true
    · rw [List.filter_cons_of_neg (by simp [hv])]
      cases s with
      | setValid sv => exact ih ((step_setValid_sameArr h1).symm.trans hs) hr
      | setNorm _ => cases hv
      | update _ => cases hv
    · have hv' : isSetValid s = false := by simpa using hv
      rw [List.filter_cons_of_pos (by simp [hv'])]
      obtain ⟨g1, hg1, hs1⟩ := step_sameArr hs hv' h1
      obtain ⟨g', hg', hs'⟩ := ih hs1 hr
      exact ⟨g', by rw [run_cons_of _ hg1]; exact hg', hs'⟩

theorem step_valid_unchanged {sqrt : Rat → Rat} {atol : Rat} {f g : Fld} {s : Step}
    (hv : isSetValid s = false) (h : step sqrt atol f s = .ok g) : g.valid = f.valid := by
  cases s with
  | setNorm s =>
    cases s with
    | none =>
      simp only [step, setNorm_none, Except.ok.injEq] at h
      subst h; rfl
    | some s =>
      obtain ⟨t, _, rfl⟩ := setNorm_some_ok (show setNorm sqrt f (some s) = .ok g from h)
      rfl
  | update v =>
    obtain ⟨a, _, rfl⟩ := updateValues_ok (show updateValues f v = .ok g from h)
    rfl
  | setValid s => cases hv

/-! ### well-formed specifications are accepted -/

/-- norm specifications the property ranges over (sufficient for acceptance) -/
def NSpec.WF (m : Mesh) : NSpec → Prop
  | .const _ => True
  | .fn _ => True
  | .arr a => a.shape = m.n ∨ a.shape = m.n ++ [1]
  | .field h => h.mesh = m ∧ h.nvdim = 1
  | .spec s => ∃ a, C02.asArray (fun v => v == 0) s m 1 = .ok a

def VSpec.WF (m : Mesh) (nvdim : Nat) : VSpec → Prop
  | .scalar c => nvdim = 1 ∨ c = 0
  | .vec v => v.length = nvdim
  | .arr a => a.shape = m.n ∧ ∀ i, (a.get i).length = nvdim
  | .fn g => ∀ p, (g p).length = nvdim

def ValidSpec.WF (m : Mesh) : ValidSpec → Prop
  | .arr a => a.shape = m.n
  | _ => True

def Step.WF (m : Mesh) (nvdim : Nat) : Step → Prop
  | .setNorm none => True
  | .setNorm (some s) => s.WF m
  | .update v => v.WF m nvdim
  | .setValid s => s.WF m

theorem asArray1_accepts (m : Mesh) (hm : m.Inv) (s : NSpec) (hs : s.WF m) :
    ∃ t, asArray1 m s = .ok t := by
  cases s with
  | const c => exact ⟨_, rfl⟩
  | fn g => exact ⟨_, rfl⟩
  | arr a =>
    rcases hs with h | h
    · exact ⟨_, asArray1_arr m a h⟩
    · obtain ⟨t, ht, _⟩ := bcastArr_col m a h
      exact ⟨t, ht⟩
  | field h =>
    obtain ⟨t, ht, _⟩ := fieldAsArray1_same m h hm hs.1 hs.2
    exact ⟨t, ht⟩
  | spec s =>
    obtain ⟨a, ha⟩ := hs
    exact ⟨⟨m.n, fun i => a.get (i ++ [0])⟩, by simp only [asArray1, ha]⟩

theorem valuesOf_accepts (m : Mesh) (nvdim : Nat) (v : VSpec) (hv : v.WF m nvdim) :
    ∃ a, valuesOf m nvdim v = .ok a := by
  cases v with
  | scalar c =>
    have hv' : nvdim = 1 ∨ c = 0 := hv
    simp only [valuesOf]
    rw [if_neg]
    · exact ⟨_, rfl⟩
    · rintro ⟨h1, h2⟩
      rcases hv' with h | h
      · omega
      · exact h2 h
  | vec v =>
    have hv' : v.length = nvdim := hv
    simp only [valuesOf]
    split
    · exact ⟨_, rfl⟩
    · rw [if_neg (not_not.mpr hv')]
      exact ⟨_, rfl⟩
  | arr a =>
    have hv' : a.shape = m.n ∧ ∀ i, (a.get i).length = nvdim := hv
    simp only [valuesOf]
    rw [if_neg (not_not.mpr hv'.1), if_neg]
    · exact ⟨_, rfl⟩
    · simp [hv'.2]
  | fn g =>
    have hv' : ∀ p, (g p).length = nvdim := hv
    simp only [valuesOf]
    rw [if_neg]
    · exact ⟨_, rfl⟩
    · simp [hv']

theorem validOf_accepts (sqrt : Rat → Rat) (atol : Rat) (f : Fld) (s : ValidSpec) (hs : s.WF f.mesh) :
    ∃ v, validOf sqrt atol f s = .ok v := by
  cases s with
  | none => exact ⟨_, rfl⟩
  | all b => exact ⟨_, rfl⟩
  | byNorm => exact ⟨_, rfl⟩
  | arr a => exact ⟨_, bcastArr_same f.mesh a hs⟩

theorem step_accepts (sqrt : Rat → Rat) (atol : Rat) (f : Fld) (hm : f.mesh.Inv) (s : Step)
    (hs : s.WF f.mesh f.nvdim) : ∃ g, step sqrt atol f s = .ok g := by
  cases s with
  | setNorm s =>
    cases s with
    | none => exact ⟨f, rfl⟩
    | some s =>
      obtain ⟨t, ht⟩ := asArray1_accepts f.mesh hm s hs
      exact ⟨_, setNorm_of_target ht⟩
  | update v =>
    obtain ⟨a, ha⟩ := valuesOf_accepts f.mesh f.nvdim v hs
    exact ⟨{ f with data := a }, by simp only [step, updateValues, ha]⟩
  | setValid s =>
    obtain ⟨v, hv⟩ := validOf_accepts sqrt atol f s hs
    exact ⟨{ f with valid := v }, by simp only [step, setValid, hv]⟩

/-! ### a concrete well-formed mesh for the non-vacuity examples -/

theorem region_inv_of_invB (r : Region) (h : r.invB = true) : r.Inv := by
  unfold Region.invB at h
  simp only [Bool.and_eq_true, decide_eq_true_eq, Bool.not_eq_true'] at h
  obtain ⟨⟨⟨⟨⟨h1, h2⟩, h3⟩, h4⟩, h5⟩, h6⟩ := h
  refine ⟨h1, h2, h3, h4, h5, ?_⟩
  intro a ha
  have := (allLt_iff _ _).mp h6 a ha
  simpa using this

theorem mesh_inv_of_invB (m : Mesh) (h : m.invB = true) : m.Inv := by
  unfold Mesh.invB at h
  simp only [Bool.and_eq_true, decide_eq_true_eq] at h
  obtain ⟨⟨h1, h2⟩, h3⟩ := h
  refine ⟨region_inv_of_invB _ h1, h2, ?_⟩
  intro a ha
  have := (allLt_iff _ _).mp h3 a ha
  simpa using this

/-- two cells of width 1 on `[0, 2]` -/
def exMesh : Mesh :=
  { region := { pmin := [0], pmax := [2], dims := ["x"], units := ["m"], tol := 0 },
    n := [2], bc := "", subs := [] }

theorem exMesh_inv : exMesh.Inv := mesh_inv_of_invB exMesh (by decide +kernel)

end DFV.C15
