import DFV.Lemmas.C02Line
/-! C02 helper lemmas, part 14: component labels — position of a label in a duplicate-free list,
the `vdims` setter. -/
namespace DFV.C02
open DFV

theorem indexOf?_go_nodup (vs : List String) (k0 k : Nat) (hk : k < vs.length) (hnd : hasDup vs = false) :
    indexOf?.go (vs.getD k "") vs k0 = some (k0 + k) := by
  induction vs generalizing k0 k with
  | nil => simp at hk
  | cons y ys ih =>
    simp only [hasDup, Bool.or_eq_false_iff] at hnd
    cases k with
    | zero => simp [indexOf?.go]
    | succ k' =>
      have hk' : k' < ys.length := by simpa using hk
      have hx : (y :: ys).getD (k' + 1) "" = ys.getD k' "" := by simp [List.getD_eq_getElem?_getD]
      rw [hx]
      have hmem : ys.getD k' "" ∈ ys := by
        simp [List.getD_eq_getElem?_getD, hk']
      have hne : ¬ y = ys.getD k' "" := by
        intro e
        have : ys.contains y = true := by rw [e]; simpa using hmem
        rw [this] at hnd; simp at hnd
      simp only [indexOf?.go, hne, if_false]
      rw [ih (k0 + 1) k' hk' hnd.2]
      congr 1; omega

/-- in a list without duplicates the `k`-th label is found at position `k` -/
theorem indexOf?_nodup (vs : List String) (k : Nat) (hk : k < vs.length) (hnd : hasDup vs = false) :
    indexOf? vs (vs.getD k "") = some k := by
  unfold indexOf?
  rw [indexOf?_go_nodup vs 0 k hk hnd]; simp

/-- what the `vdims` setter accepts and returns -/
theorem vdimsSet_ok (reserved : List String) (nv : Nat) (vdims r : Option (List String))
    (h : vdimsSet reserved nv vdims = .ok r) :
    (vdims = none ∧ r = defaultLabels nv) ∨
    (vdims = some [] ∧ r = none) ∨
    (∃ vs, vdims = some vs ∧ r = some vs ∧ vs.length = nv ∧ 0 < nv ∧ hasDup vs = false ∧
      ∀ c ∈ vs, c ∉ reserved) := by
  unfold vdimsSet at h
  split at h
  · injection h with h; exact Or.inl ⟨rfl, h.symm⟩
  · rename_i vs
    split at h
    · rename_i h0
      injection h with h
      have : vs = [] := List.eq_nil_of_length_eq_zero h0
      exact Or.inr (Or.inl ⟨by rw [this], h.symm⟩)
    · rename_i h0
      split at h
      · cases h
      · rename_i h1
        split at h
        · cases h
        · rename_i h2
          split at h
          · cases h
          · rename_i h3
            injection h with h
            have hl : vs.length = nv := by simpa using h1
            refine Or.inr (Or.inr ⟨vs, rfl, h.symm, hl, by omega, by simpa using h2, fun c hc hr => h3 ?_⟩)
            rw [List.any_eq_true]
            exact ⟨c, hc, by simpa using hr⟩

theorem defaultLabels_spec (nv : Nat) :
    (nv = 2 → defaultLabels nv = some ["x", "y"]) ∧ (nv = 3 → defaultLabels nv = some ["x", "y", "z"]) ∧
    (nv ≤ 1 → defaultLabels nv = none) ∧
    (3 < nv → ∃ vs, defaultLabels nv = some vs ∧ vs.length = nv ∧ ∀ k, k < nv → vs.getD k "" = s!"v{k}") := by
  refine ⟨fun h => by subst h; rfl, fun h => by subst h; rfl, fun h => ?_, fun h => ?_⟩
  · unfold defaultLabels
    have h1 : ¬ (2 ≤ nv ∧ nv ≤ 3) := by omega
    have h2 : ¬ 3 < nv := by omega
    simp [h1, h2]
  · unfold defaultLabels
    have h1 : ¬ (2 ≤ nv ∧ nv ≤ 3) := by omega
    simp only [h1, if_false, h, if_true]
    refine ⟨_, rfl, by simp, fun k hk => ?_⟩
    simp [List.getD_eq_getElem?_getD, hk]

end DFV.C02
