import DFV.Lemmas.C03l
/-! C03 helper lemmas, part m: the operator paths accept well-formed operands on one mesh
(`_apply_operator`, the unary rebuilds, `dot`, `cross`, `__array_ufunc__`), and what
labels / mapping / unit the accepted result carries. -/
namespace DFV.C03
open DFV

/-- a field as the algebra meets it: array and mask of the mesh's shape, labels and mapping
in the state a constructor leaves, living on the mesh `M` -/
def Good (M : Mesh) (f : CF) : Prop := CFwf f ∧ MetaStable f ∧ f.mesh = M

/-- the mesh names all its axes and is close to itself (non-negative tolerances) -/
def MeshOk (M : Mesh) : Prop := M.region.dims.length = M.region.ndim ∧ meshAllclose M M = .ok true

theorem npBin_shape {α β γ : Type} (fn : α → β → γ) (A : NDA α) (B : NDA β) (r : List Nat)
    (h : bshape A.shape B.shape = some r) : ∃ res, npBin fn A B = .ok res ∧ res.shape = r := by
  unfold npBin
  rw [h]
  exact ⟨_, rfl, rfl⟩

theorem checkSame_accepts (f o : CF) (ign : Bool) (hm : meshAllclose f.mesh o.mesh = .ok true)
    (h : (ign = true ∧ (f.nvdim = 1 ∨ o.nvdim = 1)) ∨ f.nvdim = o.nvdim) : checkSame f o ign = .ok () := by
  unfold checkSame
  rw [hm]
  simp only
  rcases h with h | h
  · rw [if_pos h]
  · by_cases hc : ign = true ∧ (f.nvdim = 1 ∨ o.nvdim = 1)
    · rw [if_pos hc]
    · rw [if_neg hc, if_neg (by simpa using h)]

/-- the operand whose labels and mapping `self ∘ other` carries -/
def metaSrc (f o : CF) : CF := if f.nvdim = 1 ∧ 1 < o.nvdim then o else f

theorem metaSrc_nvdim (f o : CF) (d : Nat) (_hf : 0 < f.nvdim) (ho : 0 < o.nvdim)
    (h : bdim f.nvdim o.nvdim = some d) : (metaSrc f o).nvdim = d := by
  unfold metaSrc
  obtain ⟨h1, h2⟩ := bdim_some _ _ _ h
  by_cases h3 : f.nvdim = 1
  · rw [if_pos h3] at h1
    by_cases h4 : 1 < o.nvdim
    · rw [if_pos ⟨h3, h4⟩, h1]
    · rw [if_neg (fun hc => h4 hc.2)]; omega
  · rw [if_neg h3] at h1
    rw [if_neg (fun hc => h3 hc.1), h1]

theorem metaSrc_good (M : Mesh) (f o : CF) (hf : Good M f) (ho : Good M o) : Good M (metaSrc f o) := by
  unfold metaSrc; split <;> assumption

/-- **`_apply_operator` accepts two fields on one mesh** whose component counts are equal or
one of them 1; the result carries the labels and mapping of the vector operand (of `self`
when both counts agree) and no unit -/
theorem applyOperator_fld_accepts (fn : GQ → GQ → GQ) (pw : Bool) (M : Mesh) (hM : MeshOk M) (f o : CF)
    (hf : Good M f) (ho : Good M o) (d : Nat) (hd : bdim f.nvdim o.nvdim = some d)
    (hpw : negIntPow pw f.kind o.kind o.data = false) :
    ∃ g, applyOperator fn pw f (.fld o) = .ok g ∧ Good M g ∧ g.nvdim = d ∧
      g.vdims = (metaSrc f o).vdims ∧ g.vmap = (metaSrc f o).vmap ∧ g.unit = none ∧
      g.kind = (f.kind.join o.kind).ctor := by
  obtain ⟨hwf, hsf, hmf⟩ := hf
  obtain ⟨hwo, hso, hmo⟩ := ho
  have hcs : checkSame f o true = .ok () := by
    apply checkSame_accepts
    · rw [hmf, hmo]; exact hM.2
    · obtain ⟨h1, h2⟩ := bdim_some _ _ _ hd
      by_cases h3 : f.nvdim = 1
      · exact Or.inl ⟨rfl, Or.inl h3⟩
      · rw [if_neg h3] at h1
        rcases h2 with h2 | h2
        · exact Or.inl ⟨rfl, Or.inr h2⟩
        · exact Or.inr (by rw [← h1, h2])
  have hshape : bshape f.data.shape o.data.shape = some (M.n ++ [d]) := by
    rw [hwf.1, hwo.1, hmf, hmo]
    exact bshape_cells _ _ _ _ hd
  obtain ⟨res, hres, hrs⟩ := npBin_shape fn f.data o.data _ hshape
  have hlast : lastAx res.shape = (metaSrc f o).nvdim := by
    rw [hrs, getLastD_append_single, metaSrc_nvdim f o d hwf.2.2 hwo.2.2 hd]
  have hsrc : Good M (metaSrc f o) := metaSrc_good M f o ⟨hwf, hsf, hmf⟩ ⟨hwo, hso, hmo⟩
  have hp : 0 < (metaSrc f o).nvdim := hsrc.1.2.2
  obtain ⟨g, hg, hgm, hgn, hgvd, hgvm, hgu, hgk, hgwf⟩ :=
    mkField_from_stable (metaSrc f o) hsrc.2.1 hp f.mesh res (f.kind.join o.kind)
      (some (NDA.zipWith (fun x y => x && y) f.valid o.valid)) none
      (by rw [hrs, hmf, metaSrc_nvdim f o d hwf.2.2 hwo.2.2 hd])
      (by intro v hv; injection hv with hv; subst hv; exact hwf.2.1)
  refine ⟨g, ?_, ⟨hgwf, ?_, by rw [hgm, hmf]⟩, by rw [hgn, metaSrc_nvdim f o d hwf.2.2 hwo.2.2 hd], hgvd, hgvm, hgu, hgk⟩
  · simp only [applyOperator, hcs, hpw, hres]
    rw [hlast]
    simp only [Bool.false_eq_true, if_false]
    have e1 : (if f.nvdim = 1 ∧ 1 < o.nvdim then o.vdims else f.vdims) = (metaSrc f o).vdims := by
      unfold metaSrc; split <;> rfl
    have e2 : (if f.nvdim = 1 ∧ 1 < o.nvdim then o.vmap else f.vmap) = (metaSrc f o).vmap := by
      unfold metaSrc; split <;> rfl
    rw [e1, e2, hsrc.2.1.fix hp]
    exact hg
  · refine ⟨?_, ?_⟩
    · rw [hgn, hgvd]; exact hsrc.2.1.1
    · rw [hgn, hgvd, hgvm, hgm]
      exact vmapSet_some_stable _ _ _ _ _ _ _ hsrc.2.1.2

/-- a non-field operand `_apply_operator` combines with every field of `k` components: a
number, a constant vector of length `k`, or a per-cell array of the field's own shape -/
def RawFits (n : List Nat) (nv : Nat) : Opd → Prop
  | .num _ _ _ => True
  | .arr a _ _ => a.shape = [nv] ∨ a.shape = n ++ [nv]

def rawArr : Opd → NDA GQ
  | .num z _ _ => scalarArr z
  | .arr a _ _ => a

def rawKind : Opd → Kind
  | .num _ k _ => k
  | .arr _ k _ => k

theorem rawFits_bshape (f : CF) (hw : CFwf f) (od : Opd) (h : RawFits f.mesh.n f.nvdim od) :
    bshape f.data.shape (rawArr od).shape = some (f.mesh.n ++ [f.nvdim]) ∧
    bshape (rawArr od).shape f.data.shape = some (f.mesh.n ++ [f.nvdim]) := by
  rw [bshape_comm (rawArr od).shape, and_self, hw.1]
  cases od with
  | num z k np => exact bshape_nil_right _
  | arr a k np =>
    rcases h with h | h
    · show bshape _ a.shape = _
      rw [h]; exact bshape_suffix _ _
    · show bshape _ a.shape = _
      rw [h]; exact bshape_self _

/-- **`_apply_operator` accepts a number, a constant vector of matching length, a per-cell
array**: labels and mapping of the field are kept, the unit is dropped -/
theorem applyOperator_raw_accepts (fn : GQ → GQ → GQ) (pw : Bool) (M : Mesh) (f : CF) (hf : Good M f)
    (od : Opd) (hfit : RawFits f.mesh.n f.nvdim od) (hpw : negIntPow pw f.kind (rawKind od) (rawArr od) = false) :
    ∃ g, applyOperator fn pw f (.raw od) = .ok g ∧ Good M g ∧ g.nvdim = f.nvdim ∧
      g.vdims = f.vdims ∧ g.vmap = f.vmap ∧ g.unit = none ∧ g.kind = (f.kind.join (rawKind od)).ctor := by
  obtain ⟨hwf, hsf, hmf⟩ := hf
  have hp : 0 < f.nvdim := hwf.2.2
  obtain ⟨res, hres, hrs⟩ := npBin_shape fn f.data (rawArr od) _ (rawFits_bshape f hwf od hfit).1
  have hlast : lastAx res.shape = f.nvdim := by rw [hrs, getLastD_append_single]
  obtain ⟨g, hg, hgm, hgn, hgvd, hgvm, hgu, hgk, hgwf⟩ :=
    mkField_from_stable f hsf hp f.mesh res (f.kind.join (rawKind od)) (some f.valid) none hrs
      (by intro v hv; injection hv with hv; subst hv; exact hwf.2.1)
  refine ⟨g, ?_, ⟨hgwf, ⟨?_, ?_⟩, by rw [hgm, hmf]⟩, hgn, hgvd, hgvm, hgu, hgk⟩
  · cases od with
    | num z k np =>
      simp only [rawArr, rawKind] at hres hpw hg
      simp only [applyOperator, hpw, hres, Bool.false_eq_true, if_false]
      rw [hlast, hsf.fix hp]
      exact hg
    | arr a k np =>
      simp only [rawArr, rawKind] at hres hpw hg
      have h1 : ¬ a.shape = [] := by rcases hfit with h | h <;> rw [h] <;> simp
      have h2 : f.data.shape = a.shape ∨ f.nvdim = a.shape.headD 0 ∨ f.nvdim = 1 := by
        rcases hfit with h | h
        · right; left; rw [h]; rfl
        · left; rw [hwf.1, h]
      simp only [applyOperator, hpw, hres, Bool.false_eq_true, if_false, h1, h2, not_true_eq_false]
      rw [hlast, hsf.fix hp]
      exact hg
  · rw [hgn, hgvd]; exact hsf.1
  · rw [hgn, hgvd, hgvm, hgm]; exact hsf.2

/-- **the unary rebuilds accept** (`-f`, `abs(f)`, `real`, `imag`, `conjugate`, `abs`, `phase`) -/
theorem mapField_accepts (fn : GQ → GQ) (rk : Kind → Kind) (keepUnit : Bool) (M : Mesh) (f : CF) (hf : Good M f) :
    ∃ g, mapField fn rk keepUnit f = .ok g ∧ Good M g ∧ g.nvdim = f.nvdim ∧ g.vdims = f.vdims ∧
      g.vmap = f.vmap ∧ g.unit = (if keepUnit then f.unit else none) ∧ g.kind = (rk f.kind).ctor := by
  obtain ⟨hwf, hsf, hmf⟩ := hf
  have hp : 0 < f.nvdim := hwf.2.2
  obtain ⟨g, hg, hgm, hgn, hgvd, hgvm, hgu, hgk, hgwf⟩ :=
    mkField_from_stable f hsf hp f.mesh (f.data.map fn) (rk f.kind) (some f.valid)
      (if keepUnit then f.unit else none) hwf.1
      (by intro v hv; injection hv with hv; subst hv; exact hwf.2.1)
  refine ⟨g, hg, ⟨hgwf, ⟨?_, ?_⟩, by rw [hgm, hmf]⟩, hgn, hgvd, hgvm, hgu, hgk⟩
  · rw [hgn, hgvd]; exact hsf.1
  · rw [hgn, hgvd, hgvm, hgm]; exact hsf.2

/-- **the ufunc protocol accepts a result of the field's shape**: labels and mapping of
`self` are kept, no unit -/
theorem ufuncWrap_accepts (M : Mesh) (self : CF) (hf : Good M self) (res : NDA GQ) (k : Kind) (valid : NDA Bool)
    (hrs : res.shape = self.mesh.n ++ [self.nvdim]) (hv : valid.shape = self.mesh.n) :
    ∃ g, ufuncWrap self res k valid = .ok g ∧ Good M g ∧ g.nvdim = self.nvdim ∧ g.vdims = self.vdims ∧
      g.vmap = self.vmap ∧ g.unit = none ∧ g.kind = k.ctor := by
  obtain ⟨hwf, hsf, hmf⟩ := hf
  have hp : 0 < self.nvdim := hwf.2.2
  obtain ⟨g, hg, hgm, hgn, hgvd, hgvm, hgu, hgk, hgwf⟩ :=
    mkField_from_stable self hsf hp self.mesh res k (some valid) none hrs
      (by intro v hv'; injection hv' with hv'; subst hv'; exact hv)
  refine ⟨g, ?_, ⟨hgwf, ⟨?_, ?_⟩, by rw [hgm, hmf]⟩, hgn, hgvd, hgvm, hgu, hgk⟩
  · unfold ufuncWrap
    rw [if_neg (by rw [hrs]; simp), hrs, getLastD_append_single, hg]
  · rw [hgn, hgvd]; exact hsf.1
  · rw [hgn, hgvd, hgvm, hgm]; exact hsf.2

theorem ufunc1_accepts (fn : GQ → GQ) (rk : Kind → Kind) (M : Mesh) (hM : MeshOk M) (f : CF) (hf : Good M f) :
    ∃ g, ufunc1 fn rk f = .ok g ∧ Good M g ∧ g.nvdim = f.nvdim ∧ g.vdims = f.vdims ∧
      g.vmap = f.vmap ∧ g.unit = none ∧ g.kind = (rk f.kind).ctor := by
  obtain ⟨g, hg, hrest⟩ := ufuncWrap_accepts M f hf (f.data.map fn) (rk f.kind) f.valid hf.1.1 hf.1.2.1
  refine ⟨g, ?_, hrest⟩
  simp only [ufunc1, ufuncMeshOk]
  rw [hf.2.2, hM.2]
  exact hg

end DFV.C03
