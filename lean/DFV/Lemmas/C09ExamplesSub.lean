import DFV.Lemmas.C09Examples
import DFV.Lemmas.C09Sub
/-! A concrete field with a subregion of whole cells (non-vacuity of the side-car theorems). -/
namespace DFV.C09
open DFV

/-- `exField` with one subregion: cells `0 ≤ ix < 1`, `0 ≤ iy < 1`, `1 ≤ iz < 3` -/
def exSub : Region :=
  { pmin := [0, -1/2, 3], pmax := [1/2, 0, 5], dims := ["x", "y", "z"], units := ["nm", "nm", "nm"],
    tol := 1 / 1000000000000 }

def exFieldS : OField Nat := { exField with mesh := { exField.mesh with subs := [("top_half", exSub)] } }

theorem exSub_of : SubOf exFieldS.mesh exSub (fun a => if a = 2 then 1 else 0) (fun a => if a = 2 then 3 else 1) := by
  refine ⟨rfl, rfl, ⟨rfl, by decide⟩, rfl, ?_, ?_, ?_⟩ <;> intro a ha <;>
    (match a, ha with
     | 0, _ => decide +kernel
     | 1, _ => decide +kernel
     | 2, _ => decide +kernel)


theorem exFieldS_valid : Valid exFieldS := by
  have V := exField_valid
  exact ⟨V.pmin3, V.pmax3, V.n3, V.lt, V.npos, V.units, V.nv, V.shape⟩

theorem exFieldS_labels : LabelsOk isWordC (fun s => s == "norm") exFieldS := by
  have h := exField_labels
  exact h

end DFV.C09
