import DFV.Lemmas.C06Mean
/-! The coordinate a bare-name selection `Mesh.sel(d)` picks (C06): the centre of cell ⌊n/2⌋
along the removed axis (the cell that contains the region centre). -/
namespace DFV.C06
open DFV

theorem floor_nat_half (n : Nat) : ((n : Rat) / 2).floor = ((n / 2 : Nat) : Int) := by
  have h := Nat.div_add_mod n 2
  have hlt : n % 2 < 2 := Nat.mod_lt _ (by omega)
  generalize n / 2 = k at h ⊢
  generalize n % 2 = r at h hlt
  have h2 : (n : Rat) = 2 * (k : Rat) + (r : Rat) := by rw [← h]; push_cast; ring
  have hr0 : (0 : Rat) ≤ (r : Rat) := by positivity
  have hr2 : (r : Rat) < 2 := by exact_mod_cast hlt
  apply rat_floor_eq
  · rw [Int.cast_natCast, h2]; linarith
  · rw [Int.cast_natCast, h2]; linarith

/-- index along axis `a` of the region centre: ⌊n/2⌋ -/
theorem indexAx_centre (m : Mesh) (hm : m.Inv) (a : Nat) (ha : a < m.ndim) :
    m.indexAx a (m.region.center.getD a 0) = m.nAt a / 2 := by
  have hc := cell_pos' m hm a ha
  have hcov := cells_cover m hm a ha
  have hnpos := hm.2.2 a ha
  unfold Region.center
  rw [getD_tab _ _ _ _ (show a < m.region.ndim from ha)]
  unfold Mesh.indexAx
  have hq : ((m.region.lo a + m.region.hi a) / 2 - m.region.lo a) / m.cellAt a = (m.nAt a : Rat) / 2 := by
    unfold Region.edge at hcov
    have : (m.region.lo a + m.region.hi a) / 2 - m.region.lo a = (m.nAt a : Rat) * m.cellAt a / 2 := by
      rw [hcov]; ring
    rw [this]
    field_simp
  rw [hq, floor_nat_half]
  unfold Mesh.clipInt
  have h1 : ¬ (((m.nAt a / 2 : Nat) : Int) < 0) := by omega
  have h2 : ¬ ((m.nAt a : Int) - 1 < ((m.nAt a / 2 : Nat) : Int)) := by omega
  simp only [h1, h2, if_false]
  rfl

/-- the coordinate a bare-name selection picks along the removed axis: the centre of cell
⌊n/2⌋ (the region centre itself when `n` is odd, half a cell above it when `n` is even) -/
theorem selCentre_eq (m : Mesh) (hm : m.Inv) (ax : Nat) (hax : ax < m.ndim) :
    selCentre m ax = .ok (m.region.lo ax + (((m.nAt ax / 2 : Nat) : Rat) + 1/2) * m.cellAt ax) := by
  obtain ⟨⟨hpos, hmax, hdims, hunits, hdup, hlt⟩, hnlen, hnpos⟩ := hm
  have hm' : m.Inv := ⟨⟨hpos, hmax, hdims, hunits, hdup, hlt⟩, hnlen, hnpos⟩
  have hcl : m.region.center.length = m.ndim := by simp [Region.center, Mesh.ndim]
  have hcont : m.region.containsPt m.region.center = true := by
    apply containsPt_of_exact _ _ hcl
    intro a ha
    have := hlt a ha
    unfold Region.center
    rw [getD_tab _ _ _ _ ha]
    constructor <;> linarith
  unfold selCentre Mesh.point2index
  simp only [hcl, ne_eq, not_true_eq_false, if_false, hcont, Bool.not_true, Bool.false_eq_true]
  unfold Mesh.index2point
  have hl2 : ((tab m.ndim fun a => m.indexAx a (m.region.center.getD a 0)).map Int.ofNat).length = m.ndim := by
    simp
  have hrange : allLt m.ndim (fun a =>
      decide (0 ≤ ((tab m.ndim fun a => m.indexAx a (m.region.center.getD a 0)).map Int.ofNat).getD a 0) &&
      decide (((tab m.ndim fun a => m.indexAx a (m.region.center.getD a 0)).map Int.ofNat).getD a 0 < (m.nAt a : Int))) = true := by
    rw [allLt_iff]
    intro a ha
    rw [getD_map_ofNat, getD_tab _ _ _ _ ha]
    have := indexAx_lt m a (m.region.center.getD a 0) (hnpos a ha)
    simp only [Bool.and_eq_true, decide_eq_true_eq]
    constructor
    · exact Int.natCast_nonneg _
    · exact_mod_cast this
  simp only [hl2, ne_eq, not_true_eq_false, if_false, hrange, Bool.not_true, Bool.false_eq_true]
  rw [getD_tab _ _ _ _ hax, getD_map_ofNat, getD_tab _ _ _ _ hax, indexAx_centre m hm' ax hax]
  unfold Mesh.centreAx
  push_cast
  rfl

/-! ## a concrete mesh with subregions (non-vacuity of `SubsFit`) -/

/-- `exFld` with two subregions: `r0` = [1,2]×[1,3] (one cell in, one cell wide along x; two
cells long along y) and `r1` = [0,1]×[3,4] -/
def exFldS : Fld :=
  { exFld with mesh := { exFld.mesh with subs :=
      [("r0", { pmin := [1, 1], pmax := [2, 3], dims := ["x", "y"], units := ["m", "m"], tol := 1/1000000000000 }),
       ("r1", { pmin := [0, 3], pmax := [1, 4], dims := ["x", "y"], units := ["m", "m"], tol := 1/1000000000000 })] } }

theorem exFldS_wf : WF exFldS := ⟨exFld_wf.1, exFld_wf.2⟩

theorem exFldS_fits : SubsFit exFldS.mesh := by
  intro p hp
  have hp' : p = ("r0", { pmin := [1, 1], pmax := [2, 3], dims := ["x", "y"], units := ["m", "m"], tol := 1/1000000000000 })
      ∨ p = ("r1", { pmin := [0, 3], pmax := [1, 4], dims := ["x", "y"], units := ["m", "m"], tol := 1/1000000000000 }) := by
    simpa [exFldS] using hp
  rcases hp' with rfl | rfl
  · refine ⟨rfl, rfl, ?_⟩
    intro a ha
    have : a = 0 ∨ a = 1 := by
      have : a < 2 := ha
      omega
    rcases this with rfl | rfl
    · exact ⟨1, 1, by decide, by decide, by norm_num [exFldS, exFld, Region.lo, Mesh.cellAt, Region.edge, Region.hi, Mesh.nAt],
        by norm_num [exFldS, exFld, Region.lo, Mesh.cellAt, Region.edge, Region.hi, Mesh.nAt]⟩
    · exact ⟨0, 2, by decide, by decide, by norm_num [exFldS, exFld, Region.lo, Mesh.cellAt, Region.edge, Region.hi, Mesh.nAt],
        by norm_num [exFldS, exFld, Region.lo, Mesh.cellAt, Region.edge, Region.hi, Mesh.nAt]⟩
  · refine ⟨rfl, rfl, ?_⟩
    intro a ha
    have : a = 0 ∨ a = 1 := by
      have : a < 2 := ha
      omega
    rcases this with rfl | rfl
    · exact ⟨0, 1, by decide, by decide, by norm_num [exFldS, exFld, Region.lo, Mesh.cellAt, Region.edge, Region.hi, Mesh.nAt],
        by norm_num [exFldS, exFld, Region.lo, Mesh.cellAt, Region.edge, Region.hi, Mesh.nAt]⟩
    · exact ⟨2, 1, by decide, by decide, by norm_num [exFldS, exFld, Region.lo, Mesh.cellAt, Region.edge, Region.hi, Mesh.nAt],
        by norm_num [exFldS, exFld, Region.lo, Mesh.cellAt, Region.edge, Region.hi, Mesh.nAt]⟩

end DFV.C06
