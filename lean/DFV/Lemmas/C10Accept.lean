import DFV.Lemmas.C10LegacyIff
/-! C10: which files of the versioned layout does the reader accept?  Acceptance of every
constructor on the reader's path characterised from its inputs, and composed. -/
namespace DFV.C10
open DFV

/-! ## plumbing -/

theorem bind_ok_iff {α β : Type} (x : M α) (k : α → M β) :
    (∃ b, x.bind k = .ok b) ↔ ∃ a, x = .ok a ∧ ∃ b, k a = .ok b := by
  cases x with
  | error e =>
    constructor
    · rintro ⟨b, hb⟩; cases hb
    · rintro ⟨a, ha, _⟩; cases ha
  | ok a =>
    constructor
    · rintro ⟨b, hb⟩; exact ⟨a, rfl, b, hb⟩
    · rintro ⟨a', ha, b, hb⟩; cases ha; exact ⟨b, hb⟩

theorem mapE_ok_iff {α β : Type} (f : α → M β) (l : List α) :
    (∃ l', mapE f l = .ok l') ↔ ∀ a ∈ l, ∃ b, f a = .ok b := by
  induction l with
  | nil => exact ⟨fun _ a ha => (by cases ha), fun _ => ⟨[], rfl⟩⟩
  | cons a t ih =>
    simp only [mapE]
    rw [bind_ok_iff]
    constructor
    · rintro ⟨b, hb, l', hl'⟩
      obtain ⟨bs, hbs, _⟩ := (bind_ok_iff _ _).mp ⟨l', hl'⟩
      intro x hx
      rcases List.mem_cons.mp hx with rfl | hx
      · exact ⟨b, hb⟩
      · exact ih.mp ⟨bs, hbs⟩ x hx
    · intro h
      obtain ⟨b, hb⟩ := h a (List.mem_cons_self)
      obtain ⟨bs, hbs⟩ := ih.mpr (fun x hx => h x (List.mem_cons_of_mem _ hx))
      exact ⟨b, hb, b :: bs, by rw [hbs]; rfl⟩

/-! ## the region -/

/-- the stored region attributes `Region(pmin=…, pmax=…, dims=…, units=…)` accepts -/
def H5Region.okB (h : H5Region) : Bool :=
  decide (h.pmax.length = h.pmin.length) && decide (0 < h.pmin.length) &&
  (allLt h.pmin.length fun a => decide (h.pmin.vals.getD a 0 < h.pmax.vals.getD a 0)) &&
  decide (h.dims.length = h.pmin.length) && !hasDup h.dims && decide (h.units.length = h.pmin.length)

theorem H5Region.ok_iff (h : H5Region) : h.okB = true ↔
    h.pmax.length = h.pmin.length ∧ 0 < h.pmin.length ∧
    (∀ a, a < h.pmin.length → h.pmin.vals.getD a 0 < h.pmax.vals.getD a 0) ∧
    h.dims.length = h.pmin.length ∧ hasDup h.dims = false ∧ h.units.length = h.pmin.length := by
  unfold H5Region.okB
  simp only [Bool.and_eq_true, decide_eq_true_eq, allLt_iff, Bool.not_eq_true']
  tauto

/-- **`_RegionIO_HDF5._h5_load` accepts exactly the well-formed attribute sets**, and returns
the region they describe -/
theorem regionLoad_ok_iff (h : H5Region) (r : TReg) : regionLoad h = .ok r ↔ h.okB = true ∧ r = h.region := by
  constructor
  · intro hl
    have hinit := initKw_ok _ _ _ _ _ _ hl
    obtain ⟨hinv, _, _, _, hlen, hrl, hd, hu, _, _⟩ := init_ok _ _ _ _ _ _ hinit
    obtain ⟨h0, _, _, hdl, hul, hdup, _⟩ := (TReg.inv_iff r).mp hinv
    have hlt : ∀ a, a < h.pmin.length → h.pmin.vals.getD a 0 < h.pmax.vals.getD a 0 := by
      unfold regionLoad TReg.initKw at hl
      split at hl
      · cases hl
      · split at hl
        · cases hl
        · rename_i h2
          have : allLt h.pmin.length (fun a => decide (h.pmin.vals.getD a 0 < h.pmax.vals.getD a 0)) = true := by simpa using h2
          rw [allLt_iff] at this
          intro a ha
          simpa using this a ha
    have hok : h.okB = true := by
      rw [H5Region.ok_iff]
      refine ⟨hlen, by rw [← hrl]; exact h0, hlt, ?_, ?_, ?_⟩
      · rw [← hd h.dims rfl, hdl, hrl]
      · rw [← hd h.dims rfl]; exact hdup
      · rw [← hu h.units rfl, hul, hrl]
    refine ⟨hok, ?_⟩
    obtain ⟨a1, a2, a3, a4, a5, a6⟩ := (H5Region.ok_iff h).mp hok
    have := regionLoad_ordered h a2 a1 a4 a5 a6 a3
    rw [this] at hl
    cases hl
    rfl
  · rintro ⟨hok, rfl⟩
    obtain ⟨a1, a2, a3, a4, a5, a6⟩ := (H5Region.ok_iff h).mp hok
    exact regionLoad_ordered h a2 a1 a4 a5 a6 a3

theorem H5Region.region_inv (h : H5Region) (hok : h.okB = true) : h.region.Inv :=
  (init_ok _ _ _ _ _ _ (initKw_ok _ _ _ _ _ _ ((regionLoad_ok_iff h h.region).mpr ⟨hok, rfl⟩))).1

theorem H5Region.region_ndim (h : H5Region) : h.region.ndim = h.pmin.length := by
  show (h.pmin.cast _).length = _
  rw [NumArr.cast_length]

/-! ## the subregions setter -/

/-- the setter accepts a list of (valid) candidate regions iff each passes its test -/
theorem setSubs_ok_iff (r : TReg) (hr : r.Inv) (n : List Nat) (subs : List (String × TReg)) (hinv : ∀ p ∈ subs, p.2.Inv) :
    (∃ ss, setSubs r n subs = .ok ss) ↔ ∀ p ∈ subs, candOk r n p.2 = true := by
  constructor
  · rintro ⟨ss, h⟩
    exact (setSubs_ok r hr n subs ss hinv h).2.2.1
  · intro hacc
    exact ⟨_, setSubs_of_ok r hr n subs hinv hacc⟩

theorem subsLoad_inv (ndim : Nat) (s : Option H5Subs) (ss : List (String × TReg)) (h : subsLoad ndim s = .ok ss) :
    ∀ p ∈ ss, p.2.Inv := subsLoad_cands_inv ndim s ss h

/-- one row of the corner table describes a region: its two halves have the same positive length
and differ in every component -/
def rowOkB (ndim : Nat) (row : NumArr) : Bool :=
  decide (0 < (row.take ndim).length) && decide ((row.drop ndim).length = (row.take ndim).length) &&
  allLt (row.take ndim).length fun a => decide ((row.take ndim).vals.getD a 0 ≠ (row.drop ndim).vals.getD a 0)

theorem rowRegion_ok_iff (ndim : Nat) (p : String × NumArr) : (∃ q, rowRegion ndim p = .ok q) ↔ rowOkB ndim p.2 = true := by
  unfold rowRegion rowOkB
  rw [bind_ok_iff]
  simp only [Bool.and_eq_true, decide_eq_true_eq, allLt_iff]
  constructor
  · rintro ⟨s, hs, _⟩
    obtain ⟨a, b, c⟩ := (init_plain_ok_iff _ _ _).mp ⟨s, hs⟩
    exact ⟨⟨a, b⟩, c⟩
  · rintro ⟨⟨a, b⟩, c⟩
    obtain ⟨s, hs⟩ := (init_plain_ok_iff _ _ TReg.defaultTol).mpr ⟨a, b, c⟩
    exact ⟨s, hs, _, rfl⟩

theorem subsLoad_ok_iff (ndim : Nat) (s : H5Subs) :
    (∃ ss, subsLoad ndim (some s) = .ok ss) ↔ ∀ p ∈ List.zip s.names s.rows, rowOkB ndim p.2 = true := by
  simp only [subsLoad]
  rw [bind_ok_iff]
  constructor
  · rintro ⟨l, hl, _⟩ p hp
    exact (rowRegion_ok_iff ndim p).mp ((mapE_ok_iff _ _).mp ⟨l, hl⟩ p hp)
  · intro h
    obtain ⟨l, hl⟩ := (mapE_ok_iff (rowRegion ndim) _).mpr (fun p hp => (rowRegion_ok_iff ndim p).mpr (h p hp))
    exact ⟨l, hl, _, rfl⟩

/-! ## the mesh -/

theorem meshInit_ok_iff (r : TReg) (hr : r.Inv) (n : List Int) (bc : String) (subs : List (String × TReg))
    (hinv : ∀ p ∈ subs, p.2.Inv) :
    (∃ m, TMesh.init r n bc subs = .ok m) ↔
      n.length = r.ndim ∧ (∀ k ∈ n, 0 < k) ∧ Mesh.bcOk r.dims bc.toLower = true ∧
      ∀ p ∈ subs, candOk r (n.map Int.toNat) p.2 = true := by
  constructor
  · rintro ⟨m, h⟩
    unfold TMesh.init at h
    split at h
    · cases h
    · rename_i h1
      split at h
      · cases h
      · rename_i h2
        split at h
        · cases h
        · rename_i h3
          obtain ⟨ss, hss, _⟩ := bind_eq_ok _ _ _ h
          refine ⟨by simpa using h1, ?_, by simpa using h3, (setSubs_ok_iff r hr _ subs hinv).mp ⟨ss, hss⟩⟩
          intro k hk
          have : ¬ k ≤ 0 := by
            intro hle
            exact h2 (List.any_eq_true.mpr ⟨k, hk, by simpa using hle⟩)
          omega
  · rintro ⟨hn, hpos, hbc, hacc⟩
    unfold TMesh.init
    have h1 : ¬ n.length ≠ r.ndim := by omega
    have h2 : n.any (fun k => decide (k ≤ 0)) = false := by
      rw [List.any_eq_false]
      intro k hk
      have := hpos k hk
      simp only [decide_eq_true_eq]
      omega
    obtain ⟨ss, hss⟩ := (setSubs_ok_iff r hr _ subs hinv).mpr hacc
    simp only [h1, h2, hbc, if_false, Bool.not_true, Bool.false_eq_true, hss, bind_ok]
    exact ⟨_, rfl⟩

/-- the mesh group the reader accepts -/
def H5Mesh.Accepted (h : H5Mesh) : Prop :=
  h.region.okB = true ∧
  (∃ ss, subsLoad h.region.pmin.length h.subs = .ok ss ∧
    ∀ p ∈ ss, candOk h.region.region (h.n.map Int.toNat) p.2 = true) ∧
  h.n.length = h.region.pmin.length ∧ (∀ k ∈ h.n, 0 < k) ∧ Mesh.bcOk h.region.dims h.bc.toLower = true

theorem meshLoad_ok_iff (h : H5Mesh) : (∃ m, meshLoad h = .ok m) ↔ h.Accepted := by
  unfold meshLoad H5Mesh.Accepted
  rw [bind_ok_iff]
  constructor
  · rintro ⟨r, hr, m, hm⟩
    obtain ⟨hok, rfl⟩ := (regionLoad_ok_iff _ _).mp hr
    obtain ⟨ss, hss, m', hm'⟩ := (bind_ok_iff _ _).mp ⟨m, hm⟩
    rw [H5Region.region_ndim] at hss
    obtain ⟨a1, a2, a3, a4⟩ := (meshInit_ok_iff _ (H5Region.region_inv _ hok) _ _ _ (subsLoad_inv _ _ _ hss)).mp ⟨m', hm'⟩
    rw [H5Region.region_ndim] at a1
    exact ⟨hok, ⟨ss, hss, a4⟩, a1, a2, a3⟩
  · rintro ⟨hok, ⟨ss, hss, hacc⟩, a1, a2, a3⟩
    refine ⟨h.region.region, (regionLoad_ok_iff _ _).mpr ⟨hok, rfl⟩, ?_⟩
    rw [bind_ok_iff]
    refine ⟨ss, by rw [H5Region.region_ndim]; exact hss, ?_⟩
    apply (meshInit_ok_iff _ (H5Region.region_inv _ hok) _ _ _ (subsLoad_inv _ _ _ hss)).mpr
    exact ⟨by rw [H5Region.region_ndim]; exact a1, a2, a3, hacc⟩

/-! ## the field -/

/-- the `valid` shapes `_as_array(valid, mesh, 1, bool)` accepts -/
def validAcceptB (shape n : List Nat) : Bool :=
  decide (shape = n) || (decide (shape.getLast? = some 1) && bcastOk shape (n ++ [1]))

theorem asValid_ok_iff (v : VArr) (n : List Nat) : (∃ v', asValid (some v) n = .ok v') ↔ validAcceptB v.shape n = true := by
  unfold asValid validAcceptB
  simp only
  by_cases h1 : v.shape = n
  · simp [h1]
  · rw [if_neg h1]
    have : decide (v.shape = n) = false := by simpa using h1
    rw [this, Bool.false_or]
    by_cases h2 : v.shape.getLast? = some 1
    · have h2' : ¬ v.shape.getLast? ≠ some 1 := by simpa using h2
      rw [if_neg h2']
      by_cases h3 : bcastOk v.shape (n ++ [1]) = true
      · simp [h2, h3]
      · have h3' : bcastOk v.shape (n ++ [1]) = false := by simpa using h3
        simp [h2, h3']
    · rw [if_pos h2]
      simp [h2]

/-- the labels the `vdims` setter accepts for `k` components: none given (defaults), the empty
list (no labels), or `k` distinct names -/
def vdimsAcceptB (k : Nat) : Option (List String) → Bool
  | none => true
  | some [] => true
  | some (x :: l) => decide ((x :: l).length = k) && !hasDup (x :: l)

theorem vdimsSet_ok_iff (k : Nat) (v : Option (List String)) : (∃ v', vdimsSet k v = .ok v') ↔ vdimsAcceptB k v = true := by
  cases v with
  | none => exact ⟨fun _ => rfl, fun _ => ⟨_, rfl⟩⟩
  | some l =>
    cases l with
    | nil => exact ⟨fun _ => rfl, fun _ => ⟨_, rfl⟩⟩
    | cons x t =>
      simp only [vdimsSet, vdimsAcceptB, Bool.and_eq_true, decide_eq_true_eq, Bool.not_eq_true']
      by_cases h1 : (x :: t).length = k
      · have h1' : ¬ (x :: t).length ≠ k := by simpa using h1
        rw [if_neg h1']
        by_cases h2 : hasDup (x :: t) = true
        · rw [if_pos h2]
          constructor
          · rintro ⟨v', hv'⟩; cases hv'
          · rintro ⟨_, h⟩; rw [h2] at h; cases h
        · rw [if_neg h2]
          exact ⟨fun _ => ⟨h1, by simpa using h2⟩, fun _ => ⟨_, rfl⟩⟩
      · have h1' : (x :: t).length ≠ k := h1
        rw [if_pos h1']
        constructor
        · rintro ⟨v', hv'⟩; cases hv'
        · rintro ⟨h, _⟩; exact absurd h h1

/-- the attribute `vdims`: a list of strings, or the string `"None"` -/
def vdimsAttrAcceptB (k : Nat) : VdimsAttr → Bool
  | .str s => decide (s = "None")
  | .list l => vdimsAcceptB k (some l)

theorem fieldInit_ok_iff (m : TMesh) (k : Int) (value : DArr) (hwf : value.wf) (vd : Option (List String)) (u : Option String)
    (valid : VArr) :
    (∃ f, TFld.init m (some k) value vd u (some valid) = .ok f) ↔
      1 ≤ k ∧ arrAcceptB value.shape m.n k.toNat = true ∧ validAcceptB valid.shape m.n = true ∧ vdimsAcceptB k.toNat vd = true := by
  unfold TFld.init
  simp only
  constructor
  · rintro ⟨f, h⟩
    split at h
    · cases h
    · rename_i hk
      obtain ⟨d1, hd1, h⟩ := bind_eq_ok _ _ _ h
      obtain ⟨d2, _, h⟩ := bind_eq_ok _ _ _ h
      obtain ⟨v, hv, h⟩ := bind_eq_ok _ _ _ h
      obtain ⟨vd', hvd, _⟩ := bind_eq_ok _ _ _ h
      exact ⟨by omega, (asArray_ok_iff _ _ _).mp ⟨d1, hd1⟩, (asValid_ok_iff _ _).mp ⟨v, hv⟩, (vdimsSet_ok_iff _ _).mp ⟨vd', hvd⟩⟩
  · rintro ⟨hk, ha, hv, hvd⟩
    have h1 : ¬ k < 1 := by omega
    rw [if_neg h1]
    have htw := asArray_twice value m.n k.toNat hwf ha
    cases hd1 : asArray value m.n k.toNat with
    | error e => rw [hd1] at htw; cases htw
    | ok d1 =>
      rw [hd1] at htw
      simp only [bind_ok] at htw ⊢
      rw [htw]
      obtain ⟨v, hv'⟩ := (asValid_ok_iff _ _).mpr hv
      obtain ⟨vd', hvd'⟩ := (vdimsSet_ok_iff _ _).mpr hvd
      simp only [bind_ok, hv', hvd']
      exact ⟨_, rfl⟩

/-- the group `field` the reader accepts -/
def H5Field.Accepted (h : H5Field) : Prop :=
  h.mesh.Accepted ∧ 1 ≤ h.nvdim ∧ vdimsAttrAcceptB h.nvdim.toNat h.vdims = true ∧
  arrAcceptB h.array.shape (h.mesh.n.map Int.toNat) h.nvdim.toNat = true ∧
  validAcceptB h.valid.shape (h.mesh.n.map Int.toNat) = true

theorem meshLoad_n (h : H5Mesh) (m : TMesh) (hm : meshLoad h = .ok m) : m.n = h.n.map Int.toNat := by
  unfold meshLoad at hm
  obtain ⟨r, _, hm⟩ := bind_eq_ok _ _ _ hm
  obtain ⟨ss, _, hm⟩ := bind_eq_ok _ _ _ hm
  unfold TMesh.init at hm
  split at hm
  · cases hm
  · split at hm
    · cases hm
    · split at hm
      · cases hm
      · obtain ⟨ss', _, hm⟩ := bind_eq_ok _ _ _ hm
        cases hm
        rfl

theorem fieldLoad_ok_iff (h : H5Field) (hwf : h.array.wf) : (∃ f, fieldLoad h = .ok f) ↔ h.Accepted := by
  unfold fieldLoad fieldLoadAt H5Field.Accepted
  rw [bind_ok_iff]
  constructor
  · rintro ⟨m, hm, f, hf⟩
    obtain ⟨vd, hvd, f', hf'⟩ := (bind_ok_iff _ _).mp ⟨f, hf⟩
    simp only [readLoc, bind_ok] at hf'
    obtain ⟨a1, a2, a3, a4⟩ := (fieldInit_ok_iff m h.nvdim h.array hwf vd _ h.valid).mp ⟨f', hf'⟩
    rw [meshLoad_n h.mesh m hm] at a2 a3
    refine ⟨(meshLoad_ok_iff _).mp ⟨m, hm⟩, a1, ?_, a2, a3⟩
    cases hv : h.vdims with
    | str s =>
      rw [hv] at hvd
      simp only [decVdims] at hvd
      split at hvd
      · rename_i hs; simp [vdimsAttrAcceptB, hs]
      · cases hvd
    | list l =>
      rw [hv] at hvd
      simp only [decVdims] at hvd
      cases hvd
      exact a4
  · rintro ⟨hm, a1, a2, a3, a4⟩
    obtain ⟨m, hm'⟩ := (meshLoad_ok_iff _).mpr hm
    refine ⟨m, hm', ?_⟩
    rw [bind_ok_iff]
    have hn := meshLoad_n h.mesh m hm'
    cases hv : h.vdims with
    | str s =>
      rw [hv] at a2
      have hs : s = "None" := by simpa [vdimsAttrAcceptB] using a2
      refine ⟨none, by simp [decVdims, hs], ?_⟩
      simp only [readLoc, bind_ok]
      exact (fieldInit_ok_iff m h.nvdim h.array hwf none _ h.valid).mpr ⟨a1, by rw [hn]; exact a3, by rw [hn]; exact a4, rfl⟩
    | list l =>
      rw [hv] at a2
      refine ⟨some l, rfl, ?_⟩
      simp only [readLoc, bind_ok]
      exact (fieldInit_ok_iff m h.nvdim h.array hwf (some l) _ h.valid).mpr ⟨a1, by rw [hn]; exact a3, by rw [hn]; exact a4, a2⟩

end DFV.C10
