import DFV.Lemmas.C02Geom
/-! C02 helper lemmas, part 8: lines, component lookup. -/
namespace DFV.C02
open DFV DFV.Mesh

variable {V : Type}

theorem meshLine_ok (m : Mesh) (p1 p2 : List Rat) (n : Nat) (pts : List (List Rat))
    (h : meshLine m p1 p2 n = .ok pts) :
    m.region.containsPt p1 = true ∧ m.region.containsPt p2 = true ∧ 2 ≤ n ∧
    pts = tab n fun i => tab m.ndim fun a =>
      p1.getD a 0 + (i : Rat) * ((p2.getD a 0 - p1.getD a 0) / ((n : Rat) - 1)) := by
  unfold meshLine at h
  split at h
  · cases h
  · rename_i hc
    split at h
    · cases h
    · rename_i hn
      injection h with h
      simp only [Bool.or_eq_true, Bool.not_eq_eq_eq_not, Bool.not_true, not_or, Bool.not_eq_false] at hc
      exact ⟨hc.1, hc.2, by omega, h.symm⟩

theorem line_ok (f : VF V) (p1 p2 : List Rat) (n : Nat) (o : LineOut V) (h : f.line p1 p2 n = .ok o) :
    meshLine f.mesh p1 p2 n = .ok o.points ∧
    o.points.map f.call = o.values.map .ok ∧
    o.r2 = o.points.map fun p => sqDist p (o.points.getD 0 []) := by
  unfold VF.line at h
  split at h
  · cases h
  · rename_i pts hpts
    split at h
    · cases h
    · rename_i vals hvals
      injection h with h; subst h
      exact ⟨hpts, seqM_ok _ _ hvals, rfl⟩

theorem containsPt_length (r : Region) (p : List Rat) (h : r.containsPt p = true) : p.length = r.ndim := by
  unfold Region.containsPt at h
  simp only [Bool.and_eq_true, decide_eq_true_eq] at h
  exact h.1

theorem listSum_map_mul {α} (l : List α) (k : Rat) (g : α → Rat) :
    listSum (l.map fun a => k * g a) = k * listSum (l.map g) := by
  induction l with
  | nil => simp [listSum]
  | cons x xs ih => simp only [List.map_cons, listSum, ih]; ring

theorem listSum_tab_mul (n : Nat) (k : Rat) (g : Nat → Rat) :
    listSum (tab n fun a => k * g a) = k * listSum (tab n g) := listSum_map_mul _ k g

/-- squared distance of the `j`-th point of a line from its first point -/
theorem sqDist_line (nd n j : Nat) (p1 p2 : List Rat) (hp2 : p2.length = nd) (hn : 2 ≤ n) :
    sqDist (tab nd fun a => p1.getD a 0 + (j : Rat) * ((p2.getD a 0 - p1.getD a 0) / ((n : Rat) - 1)))
           (tab nd fun a => p1.getD a 0 + ((0 : Nat) : Rat) * ((p2.getD a 0 - p1.getD a 0) / ((n : Rat) - 1)))
      = ((j : Rat) * (j : Rat)) / (((n : Rat) - 1) * ((n : Rat) - 1)) * sqDist p2 p1 := by
  have hne : (n : Rat) - 1 ≠ 0 := by
    have : (2 : Rat) ≤ (n : Rat) := by exact_mod_cast hn
    linarith
  unfold sqDist
  rw [tab_length, hp2, ← listSum_tab_mul]
  congr 1
  apply tab_congr
  intro a ha
  rw [getD_tab _ _ _ _ ha, getD_tab _ _ _ _ ha]
  field_simp
  ring

theorem indexOf?_go_spec (xs : List String) (x : String) (k0 k : Nat) (h : indexOf?.go x xs k0 = some k) :
    k0 ≤ k ∧ k - k0 < xs.length ∧ xs.getD (k - k0) "" = x := by
  induction xs generalizing k0 with
  | nil => simp [indexOf?.go] at h
  | cons y ys ih =>
    simp only [indexOf?.go] at h
    split at h
    · rename_i hy
      injection h with h; subst h
      simp [hy]
    · obtain ⟨h1, h2, h3⟩ := ih _ h
      refine ⟨by omega, by simp; omega, ?_⟩
      have : k - k0 = (k - (k0 + 1)) + 1 := by omega
      rw [this]; simpa using h3

/-- `vdims.index(label)` -/
theorem indexOf?_spec (xs : List String) (x : String) (k : Nat) (h : indexOf? xs x = some k) :
    k < xs.length ∧ xs.getD k "" = x := by
  have := indexOf?_go_spec xs x 0 k h
  simpa using this.2

theorem seqM_map_ok {α β} (l : List α) (g : α → M β) (h : ∀ x ∈ l, ∃ v, g x = .ok v) :
    ∃ vs, seqM (l.map g) = .ok vs := by
  induction l with
  | nil => exact ⟨[], rfl⟩
  | cons x xs ih =>
    obtain ⟨v, hv⟩ := h x (by simp)
    obtain ⟨vs, hvs⟩ := ih fun y hy => h y (by simp [hy])
    exact ⟨v :: vs, by simp [seqM, hv, hvs]⟩

/-- a point of the segment between two points of a closed interval lies in the interval -/
theorem segment_in (lo hi x1 x2 : Rat) (j n : Nat) (hn : 2 ≤ n) (hj : j < n)
    (h1 : lo ≤ x1 ∧ x1 ≤ hi) (h2 : lo ≤ x2 ∧ x2 ≤ hi) :
    lo ≤ x1 + (j : Rat) * ((x2 - x1) / ((n : Rat) - 1)) ∧ x1 + (j : Rat) * ((x2 - x1) / ((n : Rat) - 1)) ≤ hi := by
  have hn' : (0 : Rat) < (n : Rat) - 1 := by
    have : (2 : Rat) ≤ (n : Rat) := by exact_mod_cast hn
    linarith
  have hj0 : (0 : Rat) ≤ (j : Rat) := by exact_mod_cast Nat.zero_le j
  have hj1 : (j : Rat) ≤ (n : Rat) - 1 := by
    have : (j : Rat) + 1 ≤ (n : Rat) := by exact_mod_cast hj
    linarith
  have e : x1 + (j : Rat) * ((x2 - x1) / ((n : Rat) - 1)) =
      (1 - (j : Rat) / ((n : Rat) - 1)) * x1 + ((j : Rat) / ((n : Rat) - 1)) * x2 := by
    field_simp; ring
  have t0 : 0 ≤ (j : Rat) / ((n : Rat) - 1) := div_nonneg hj0 hn'.le
  have t1 : (j : Rat) / ((n : Rat) - 1) ≤ 1 := by rw [div_le_one hn']; exact hj1
  rw [e]
  constructor <;> nlinarith [h1.1, h1.2, h2.1, h2.2]

end DFV.C02
