import DFV.Lemmas.C03g
/-! C03 helper lemmas, part h: every step of `evalF` read cell by cell; the induction over
expression trees. -/
namespace DFV.C03
open DFV

/-! ## unary step -/

theorem applyUn_cells (env : Env) (u : UnOp) (n : List Nat) (f g : CF)
    (cf : List Nat → List GQ) (vf : List Nat → Bool) (hf : Cells n f cf vf)
    (h : applyUn env u f = .ok g) :
    Cells n g (fun i => (cf i).map (unFn env u)) vf ∧ g.mesh = f.mesh := by
  cases u <;> simp only [applyUn] at h
  case pos =>
    injection h with h; subst h
    exact ⟨hf.congr (fun i => by simp [unFn]) (fun _ => rfl), rfl⟩
  case neg =>
    obtain ⟨hc, hm, _⟩ := mapField_cells _ _ _ n f g cf vf hf h
    exact ⟨hc.congr (fun _ => rfl) (fun _ => rfl), hm⟩
  case abs =>
    obtain ⟨hc, hm, _⟩ := mapField_cells _ _ _ n f g cf vf hf h
    exact ⟨hc.congr (fun _ => rfl) (fun _ => rfl), hm⟩
  case real =>
    obtain ⟨hc, hm, _⟩ := mapField_cells _ _ _ n f g cf vf hf h
    exact ⟨hc.congr (fun _ => rfl) (fun _ => rfl), hm⟩
  case imag =>
    obtain ⟨hc, hm, _⟩ := mapField_cells _ _ _ n f g cf vf hf h
    exact ⟨hc.congr (fun _ => rfl) (fun _ => rfl), hm⟩
  case conj =>
    obtain ⟨hc, hm, _⟩ := mapField_cells _ _ _ n f g cf vf hf h
    exact ⟨hc.congr (fun _ => rfl) (fun _ => rfl), hm⟩
  case absP =>
    obtain ⟨hc, hm, _⟩ := mapField_cells _ _ _ n f g cf vf hf h
    exact ⟨hc.congr (fun _ => rfl) (fun _ => rfl), hm⟩
  case phase =>
    obtain ⟨hc, hm, _⟩ := mapField_cells _ _ _ n f g cf vf hf h
    exact ⟨hc.congr (fun _ => rfl) (fun _ => rfl), hm⟩
  case unegative =>
    obtain ⟨hc, hm, _⟩ := ufunc1_cells _ _ n f g cf vf hf h
    exact ⟨hc.congr (fun _ => rfl) (fun _ => rfl), hm⟩
  case upositive =>
    obtain ⟨hc, hm, _⟩ := ufunc1_cells _ _ n f g cf vf hf h
    exact ⟨hc.congr (fun _ => rfl) (fun _ => rfl), hm⟩
  case uabsolute =>
    obtain ⟨hc, hm, _⟩ := ufunc1_cells _ _ n f g cf vf hf h
    exact ⟨hc.congr (fun _ => rfl) (fun _ => rfl), hm⟩
  case usquare =>
    obtain ⟨hc, hm, _⟩ := ufunc1_cells _ _ n f g cf vf hf h
    exact ⟨hc.congr (fun _ => rfl) (fun _ => rfl), hm⟩
  case uconjugate =>
    obtain ⟨hc, hm, _⟩ := ufunc1_cells _ _ n f g cf vf hf h
    exact ⟨hc.congr (fun _ => rfl) (fun _ => rfl), hm⟩
  case usign =>
    obtain ⟨hc, hm, _⟩ := ufunc1_cells _ _ n f g cf vf hf h
    exact ⟨hc.congr (fun _ => rfl) (fun _ => rfl), hm⟩

/-! ## forward operators -/

theorem applyOperator_val_cells (fn : GQ → GQ → GQ) (pw : Bool) (n : List Nat) (f g : CF) (v : Val)
    (cf cv : List Nat → List GQ) (vf vv : List Nat → Bool)
    (hf : Cells n f cf vf) (hv : ValCells n v cv vv)
    (h : applyOperator fn pw f v = .ok g) :
    Cells n g (fun i => bz fn (cf i) (cv i)) (fun i => vf i && vv i) ∧ g.mesh = f.mesh ∧
      ∀ i, inRange n i = true → Compat (cf i).length (cv i).length := by
  cases v with
  | fld o =>
    have ho : Cells n o cv vv := hv
    obtain ⟨hc, hm, hbd⟩ := applyOperator_fld_cells fn pw n f o g cf cv vf vv hf ho h
    refine ⟨hc, hm, fun i hi => ?_⟩
    rw [hf.length i hi, ho.length i hi]
    exact compat_of_bdim _ _ _ hbd
  | raw od =>
    obtain ⟨hc, hm, hbd⟩ := applyOperator_raw_cells fn pw n f g od cf vf hf h
    refine ⟨hc.congr (fun i => by rw [hv.1 i]) (fun i => by rw [hv.2 i]; simp), hm, fun i hi => ?_⟩
    rw [hf.length i hi, hv.1 i, rawCell_length]
    exact compat_of_bdim _ _ _ hbd

theorem dotOp_val_cells (n : List Nat) (f g : CF) (v : Val)
    (cf cv : List Nat → List GQ) (vf vv : List Nat → Bool)
    (hf : Cells n f cf vf) (hv : ValCells n v cv vv) (h : dotOp f v = .ok g) :
    Cells n g (fun i => [dotCell (cf i) (cv i)]) (fun i => vf i && vv i) ∧ g.mesh = f.mesh ∧
      ∀ i, inRange n i = true → Compat (cf i).length (cv i).length := by
  cases v with
  | fld o =>
    have ho : Cells n o cv vv := hv
    obtain ⟨hc, hm, _, hcp⟩ := dotOp_fld_cells n f o g cf cv vf vv hf ho h
    refine ⟨hc, hm, fun i hi => ?_⟩
    rw [hf.length i hi, ho.length i hi]; exact hcp
  | raw od =>
    obtain ⟨hc, hm, _, hcp⟩ := dotOp_raw_cells n f g od cf vf hf h
    refine ⟨hc.congr (fun i => by rw [hv.1 i]) (fun i => by rw [hv.2 i]; simp), hm, fun i hi => ?_⟩
    rw [hf.length i hi, hv.1 i, rawCell_length]; exact hcp

theorem crossOp_val_cells (n : List Nat) (f g : CF) (v : Val)
    (cf cv : List Nat → List GQ) (vf vv : List Nat → Bool)
    (hf : Cells n f cf vf) (hv : ValCells n v cv vv) (h : crossOp f v = .ok g) :
    Cells n g (fun i => crossCell (cf i) (cv i)) (fun i => vf i && vv i) ∧ g.mesh = f.mesh := by
  cases v with
  | fld o =>
    have ho : Cells n o cv vv := hv
    obtain ⟨hc, hm, _⟩ := crossOp_fld_cells n f o g cf cv vf vv hf ho h
    exact ⟨hc, hm⟩
  | raw od =>
    obtain ⟨hc, hm, _⟩ := crossOp_raw_cells n f g od cf vf hf h
    exact ⟨hc.congr (fun i => by rw [hv.1 i]) (fun i => by rw [hv.2 i]; simp), hm⟩

theorem shlOp_val_cells (n : List Nat) (f g : CF) (v : Val)
    (cf cv : List Nat → List GQ) (vf vv : List Nat → Bool)
    (hf : Cells n f cf vf) (hv : ValCells n v cv vv)
    (hok : ∀ od, v = .raw od → OpdLiftOk n od) (h : shlOp f v = .ok g) :
    Cells n g (fun i => cf i ++ cv i) (fun i => vf i && vv i) ∧ g.mesh = f.mesh := by
  cases v with
  | fld o =>
    have ho : Cells n o cv vv := hv
    simp only [shlOp] at h
    obtain ⟨hc, hm, _⟩ := shlFF_cells n f o g cf cv vf vv hf ho h
    exact ⟨hc, hm⟩
  | raw od =>
    simp only [shlOp] at h
    cases hl : liftOpd f.mesh od with
    | error e => simp [hl] at h
    | ok L =>
      simp only [hl] at h
      have hok' : OpdLiftOk f.mesh.n od := by rw [hf.2.1]; exact hok od rfl
      obtain ⟨_, hL⟩ := liftOpd_cells f.mesh od L hok' hl
      rw [hf.2.1] at hL
      obtain ⟨hc, hm, _⟩ := shlFF_cells n f L g cf _ vf _ hf hL h
      exact ⟨hc.congr (fun i => by rw [hv.1 i]) (fun i => by rw [hv.2 i]), hm⟩

theorem forwardOp_cells (env : Env) (b : BinOp) (n : List Nat) (f g : CF) (v : Val)
    (cf cv : List Nat → List GQ) (vf vv : List Nat → Bool)
    (hf : Cells n f cf vf) (hv : ValCells n v cv vv)
    (hok : (b = .shl ∨ b = .angle) → ∀ od, v = .raw od → OpdLiftOk n od)
    (h : forwardOp env b f v = .ok g) :
    Cells n g (fun i => binCell env b (cf i) (cv i)) (fun i => vf i && vv i) ∧ g.mesh = f.mesh := by
  cases b <;> simp only [forwardOp] at h
  case add => obtain ⟨hc, hm, _⟩ := applyOperator_val_cells _ _ n f g v cf cv vf vv hf hv h; exact ⟨hc, hm⟩
  case sub => obtain ⟨hc, hm, _⟩ := applyOperator_val_cells _ _ n f g v cf cv vf vv hf hv h; exact ⟨hc, hm⟩
  case mul => obtain ⟨hc, hm, _⟩ := applyOperator_val_cells _ _ n f g v cf cv vf vv hf hv h; exact ⟨hc, hm⟩
  case div => obtain ⟨hc, hm, _⟩ := applyOperator_val_cells _ _ n f g v cf cv vf vv hf hv h; exact ⟨hc, hm⟩
  case pow => obtain ⟨hc, hm, _⟩ := applyOperator_val_cells _ _ n f g v cf cv vf vv hf hv h; exact ⟨hc, hm⟩
  case dot => obtain ⟨hc, hm, _⟩ := dotOp_val_cells n f g v cf cv vf vv hf hv h; exact ⟨hc, hm⟩
  case cross => exact crossOp_val_cells n f g v cf cv vf vv hf hv h
  case shl => exact shlOp_val_cells n f g v cf cv vf vv hf hv (hok (Or.inl rfl)) h
  case angle => exact angleOp_cells env.sq env.acos n f g v cf cv vf vv hf hv (hok (Or.inr rfl)) h
  all_goals cases h

/-! ## reflected operators -/

theorem dotCell_comm (xs ys : List GQ) (hc : Compat xs.length ys.length) : dotCell xs ys = dotCell ys xs := by
  unfold dotCell
  rw [bz_comm GQ.mul GQ.mul_comm' xs ys hc]

theorem crossCell_neg (xs ys : List GQ) : (crossCell xs ys).map GQ.neg = crossCell ys xs := by
  unfold crossCell
  rw [tab_map]
  apply tab_congr
  intro c _
  exact crossAt_anticomm _ _ c

theorem compat_symm {a b : Nat} (h : Compat a b) : Compat b a := by
  unfold Compat at *; omega

theorem reflectedOp_cells (env : Env) (b : BinOp) (n : List Nat) (od : Opd) (f g : CF)
    (cf : List Nat → List GQ) (vf : List Nat → Bool)
    (hf : Cells n f cf vf) (hok : b = .shl → OpdLiftOk n od)
    (h : reflectedOp b od f = .ok g) :
    Cells n g (fun i => binCell env b (rawCell od i) (cf i)) vf ∧ g.mesh = f.mesh := by
  have hraw : ValCells n (.raw od) (rawCell od) (fun _ => true) := ⟨fun _ => rfl, fun _ => rfl⟩
  cases b <;> simp only [reflectedOp] at h
  case add =>
    obtain ⟨hc, hm, hcp⟩ := applyOperator_val_cells _ _ n f g _ cf _ vf _ hf hraw h
    refine ⟨⟨hc.1, hc.2.1, fun i hi => ?_⟩, hm⟩
    obtain ⟨h1, h2⟩ := hc.2.2 i hi
    refine ⟨?_, by rw [h2]; simp⟩
    rw [h1]
    exact bz_comm GQ.add GQ.add_comm' _ _ (hcp i hi)
  case mul =>
    obtain ⟨hc, hm, hcp⟩ := applyOperator_val_cells _ _ n f g _ cf _ vf _ hf hraw h
    refine ⟨⟨hc.1, hc.2.1, fun i hi => ?_⟩, hm⟩
    obtain ⟨h1, h2⟩ := hc.2.2 i hi
    refine ⟨?_, by rw [h2]; simp⟩
    rw [h1]
    exact bz_comm GQ.mul GQ.mul_comm' _ _ (hcp i hi)
  case sub =>
    cases hn : mapField GQ.neg id false f with
    | error e => simp [hn] at h
    | ok f' =>
      simp only [hn] at h
      obtain ⟨hf', hm', _⟩ := mapField_cells _ _ _ n f f' cf vf hf hn
      obtain ⟨hc, hm, hcp⟩ := applyOperator_val_cells _ _ n f' g _ _ _ vf _ hf' hraw h
      refine ⟨⟨hc.1, hc.2.1, fun i hi => ?_⟩, by rw [hm, hm']⟩
      obtain ⟨h1, h2⟩ := hc.2.2 i hi
      refine ⟨?_, by rw [h2]; simp⟩
      rw [h1]
      have := hcp i hi
      simp only [List.length_map] at this
      exact bz_neg_add _ _ this
  case div =>
    obtain ⟨hc, hm, hcp⟩ := applyOperator_val_cells _ _ n f g _ cf _ vf _ hf hraw h
    refine ⟨⟨hc.1, hc.2.1, fun i hi => ?_⟩, hm⟩
    obtain ⟨h1, h2⟩ := hc.2.2 i hi
    refine ⟨?_, by rw [h2]; simp⟩
    rw [h1]
    exact (bz_swap GQ.div _ _ (compat_symm (hcp i hi))).symm
  case dot =>
    obtain ⟨hc, hm, hcp⟩ := dotOp_val_cells n f g _ cf _ vf _ hf hraw h
    refine ⟨⟨hc.1, hc.2.1, fun i hi => ?_⟩, hm⟩
    obtain ⟨h1, h2⟩ := hc.2.2 i hi
    refine ⟨?_, by rw [h2]; simp⟩
    rw [h1]
    show [dotCell (cf i) (rawCell od i)] = [dotCell (rawCell od i) (cf i)]
    rw [dotCell_comm _ _ (hcp i hi)]
  case cross =>
    cases hx : crossOp f (.raw od) with
    | error e => simp [hx] at h
    | ok g1 =>
      simp only [hx] at h
      obtain ⟨hc1, hm1⟩ := crossOp_val_cells n f g1 _ cf _ vf _ hf hraw hx
      obtain ⟨hc, hm, _⟩ := mapField_cells _ _ _ n g1 g _ _ hc1 h
      refine ⟨⟨hc.1, hc.2.1, fun i hi => ?_⟩, by rw [hm, hm1]⟩
      obtain ⟨h1, h2⟩ := hc.2.2 i hi
      refine ⟨?_, by rw [h2]; simp⟩
      rw [h1]
      exact crossCell_neg _ _
  case shl =>
    cases hl : liftOpd f.mesh od with
    | error e => simp [hl] at h
    | ok L =>
      simp only [hl] at h
      have hok' : OpdLiftOk f.mesh.n od := by rw [hf.2.1]; exact hok rfl
      obtain ⟨hLm, hL⟩ := liftOpd_cells f.mesh od L hok' hl
      rw [hf.2.1] at hL
      obtain ⟨hc, hm, _⟩ := shlFF_cells n L f g _ cf _ vf hL hf h
      exact ⟨hc.congr (fun _ => rfl) (fun i => by simp), by rw [hm, hLm]⟩
  all_goals cases h

/-! ## one binary step -/

/-- the field operand whose mesh the result of a binary step lives on -/
def meshOf : Val → Val → Option CF
  | .fld f, _ => some f
  | .raw _, .fld g => some g
  | _, _ => none

theorem firstFld_eq_meshOf (l r : Val) : firstFld l r = meshOf l r := by
  cases l <;> cases r <;> rfl

theorem binCell_ufunc (env : Env) (b : BinOp) (hb : isUfuncBin b = true) (xs ys : List GQ) :
    binCell env b xs ys = bz (binFn b) xs ys := by
  cases b <;> simp [isUfuncBin] at hb <;> rfl

theorem wrap_ok {x : M CF} {g : CF}
    (h : (match x with
          | .error e => (.error e : M Val)
          | .ok g => .ok (.fld g)) = .ok (.fld g)) : x = .ok g := by
  cases x with
  | error e => cases h
  | ok g' => injection h with h; injection h with h; subst h; rfl

theorem applyBin_cells (env : Env) (b : BinOp) (n : List Nat) (l r : Val) (g : CF)
    (cl cr : List Nat → List GQ) (vl vr : List Nat → Bool)
    (hl : ValCells n l cl vl) (hr : ValCells n r cr vr)
    (hok : (b = .shl ∨ b = .angle) → (∀ od, l = .raw od → OpdLiftOk n od) ∧ (∀ od, r = .raw od → OpdLiftOk n od))
    (h : applyBin env b l r = .ok (.fld g)) :
    Cells n g (fun i => binCell env b (cl i) (cr i)) (fun i => vl i && vr i) ∧
    ∃ self, meshOf l r = some self ∧ g.mesh = self.mesh := by
  by_cases hu : isUfuncBin b = true
  · -- explicit ufunc call
    have h' : ufunc2 (binFn b) (isPow b) l r = .ok g := by
      cases b <;> simp [isUfuncBin] at hu <;> simp only [applyBin] at h <;> exact wrap_ok h
    obtain ⟨hc, ⟨self, hs, hm⟩, _⟩ := ufunc2_cells _ _ n l r g cl cr vl vr hl hr h'
    refine ⟨hc.congr (fun i => (binCell_ufunc env b hu _ _).symm) (fun _ => rfl), self, ?_, hm⟩
    rw [← firstFld_eq_meshOf]; exact hs
  · have hu' : isUfuncBin b = false := by simpa using hu
    cases l with
    | fld f =>
      have hf : Cells n f cl vl := hl
      have h' : forwardOp env b f r = .ok g := by
        cases b <;> simp [isUfuncBin] at hu' <;> simp only [applyBin] at h <;> exact wrap_ok h
      obtain ⟨hc, hm⟩ := forwardOp_cells env b n f g r cl cr vl vr hf hr (fun hb => (hok hb).2) h'
      exact ⟨hc, f, rfl, hm⟩
    | raw o =>
      cases r with
      | raw o2 =>
        cases b <;> simp [isUfuncBin] at hu' <;> simp [applyBin] at h
      | fld f =>
        have hf : Cells n f cr vr := hr
        by_cases hnp : isNp o = true
        · -- NumPy object on the left: `__array_ufunc__`
          have h' : ufunc2 (binFn b) (isPow b) (.raw o) (.fld f) = .ok g := by
            cases b <;> simp [isUfuncBin] at hu' <;> simp only [applyBin, hnp, if_true] at h <;>
              first
                | exact wrap_ok h
                | cases h
          obtain ⟨hc, ⟨self, hs, hm⟩, _⟩ := ufunc2_cells _ _ n _ _ g cl cr vl vr hl hr h'
          have hbc : ∀ xs ys, binCell env b xs ys = bz (binFn b) xs ys := by
            intro xs ys
            cases b <;> simp [isUfuncBin] at hu' <;> first | rfl | (simp [applyBin, hnp] at h)
          refine ⟨hc.congr (fun i => (hbc _ _).symm) (fun _ => rfl), self, ?_, hm⟩
          rw [← firstFld_eq_meshOf]; exact hs
        · have hnp' : isNp o = false := by simpa using hnp
          have h' : reflectedOp b o f = .ok g := by
            cases b <;> simp [isUfuncBin] at hu' <;>
              simp only [applyBin, hnp', Bool.false_eq_true, if_false] at h <;> exact wrap_ok h
          obtain ⟨hc, hm⟩ := reflectedOp_cells env b n o f g cr vr hf (fun hb => (hok (Or.inl hb)).1 o rfl) h'
          refine ⟨hc.congr (fun i => by rw [hl.1 i]) (fun i => by simp [hl.2 i]), f, rfl, hm⟩

theorem wrap_fld {x : M CF} {v : Val}
    (h : (match x with
          | .error e => (.error e : M Val)
          | .ok g => .ok (.fld g)) = .ok v) : ∃ g, v = .fld g := by
  cases x with
  | error e => cases h
  | ok g' => injection h with h; exact ⟨g', h.symm⟩

theorem applyBin_fld (env : Env) (b : BinOp) (l r : Val) (v : Val) (h : applyBin env b l r = .ok v) :
    ∃ g, v = .fld g := by
  cases l with
  | fld f =>
    cases b <;> simp only [applyBin] at h <;> exact wrap_fld h
  | raw o =>
    cases r with
    | raw o2 => cases b <;> simp only [applyBin] at h <;> first | exact wrap_fld h | cases h
    | fld f =>
      by_cases hnp : isNp o = true
      · cases b <;> simp only [applyBin, hnp, if_true] at h <;> first | exact wrap_fld h | cases h
      · have hnp' : isNp o = false := by simpa using hnp
        cases b <;> simp only [applyBin, hnp', Bool.false_eq_true, if_false] at h <;>
          first | exact wrap_fld h | cases h

end DFV.C03
