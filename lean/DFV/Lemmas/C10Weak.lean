import DFV.Lemmas.C10Inv
/-! C10: the weak invariant `InvW` (what the constructors guarantee for every input, tolerant
candidates included), its relation to `Inv`, and the exact condition under which the reader
accepts the file the writer leaves behind. -/
namespace DFV.C10
open DFV

theorem subInvW_iff (r s : TReg) : subInvWB r s = true ↔
    s.pmin.length = r.ndim ∧ s.pmax.length = r.ndim ∧ s.pmin.kind = s.pmax.kind ∧
    s.dims = r.dims ∧ s.units = r.units ∧ s.tol = r.tol ∧
    (∀ a, a < r.ndim → s.pmin.vals.getD a 0 < s.pmax.vals.getD a 0) := by
  unfold subInvWB
  simp only [Bool.and_eq_true, decide_eq_true_eq, allLt_iff]
  tauto

theorem subInv_iff_weak (r : TReg) (n : List Nat) (s : TReg) : subInvB r n s = true ↔
    subInvWB r s = true ∧ subAccept r.toRegion n s.toRegion = true := by
  rw [subInv_iff, subInvW_iff]
  tauto

theorem TMesh.invW_iff (m : TMesh) : m.InvW ↔
    m.region.Inv ∧ m.n.length = m.region.ndim ∧ (∀ k ∈ m.n, 0 < k) ∧
    m.bc.toLower = m.bc ∧ Mesh.bcOk m.region.dims m.bc = true ∧
    hasDup (m.subs.map fun p => p.1) = false ∧
    ∀ p ∈ m.subs, subInvWB m.region p.2 = true := by
  unfold TMesh.InvW TMesh.invWB TReg.Inv
  simp only [Bool.and_eq_true, decide_eq_true_eq, List.all_eq_true, Bool.not_eq_true']
  tauto

theorem TMesh.rereadable_iff (m : TMesh) : m.rereadableB = true ↔
    ∀ p ∈ m.subs, subAccept m.region.toRegion m.n p.2.toRegion = true := by
  unfold TMesh.rereadableB
  rw [List.all_eq_true]

/-- `Inv` = `InvW` + every stored subregion passes the setter's three tests -/
theorem TMesh.inv_iff_weak (m : TMesh) : m.Inv ↔ m.InvW ∧ m.rereadableB = true := by
  rw [TMesh.inv_iff, TMesh.invW_iff, TMesh.rereadable_iff]
  constructor
  · rintro ⟨h1, h2, h3, h4, h5, h6, h7⟩
    exact ⟨⟨h1, h2, h3, h4, h5, h6, fun p hp => ((subInv_iff_weak _ _ _).mp (h7 p hp)).1⟩,
      fun p hp => ((subInv_iff_weak _ _ _).mp (h7 p hp)).2⟩
  · rintro ⟨⟨h1, h2, h3, h4, h5, h6, h7⟩, h8⟩
    exact ⟨h1, h2, h3, h4, h5, h6, fun p hp => (subInv_iff_weak _ _ _).mpr ⟨h7 p hp, h8 p hp⟩⟩

theorem TFld.invW_iff (f : TFld) : f.InvW ↔
    f.mesh.InvW ∧ 1 ≤ f.nvdim ∧
    f.data.shape = f.mesh.n ++ [f.nvdim] ∧ f.data.buf.length = natProd (f.mesh.n ++ [f.nvdim]) ∧
    f.valid.shape = f.mesh.n ∧ f.valid.buf.length = natProd f.mesh.n ∧
    VdimsOk f.nvdim f.vdims := by
  unfold TFld.InvW TFld.invWB TMesh.InvW
  cases hv : f.vdims with
  | none =>
    simp only [Bool.and_eq_true, decide_eq_true_eq, VdimsOk]
    tauto
  | some l =>
    simp only [Bool.and_eq_true, decide_eq_true_eq, Bool.not_eq_true', List.isEmpty_eq_false_iff, VdimsOk]
    tauto

theorem TFld.inv_iff_weak (f : TFld) : f.Inv ↔ f.InvW ∧ f.mesh.rereadableB = true := by
  rw [TFld.inv_iff, TFld.invW_iff, TMesh.inv_iff_weak]
  tauto

/-! ## the reader on the writer's corner table, under the weak invariant -/

theorem subsLoad_subsSave_w (m : TMesh) (hm : m.InvW) :
    subsLoad m.region.ndim (subsSave m)
      = .ok (m.subs.map fun p => (p.1, plainOf (tableKind m) m.region.ndim p.2)) := by
  obtain ⟨hr, _, _, _, _, hnd, hsub⟩ := (TMesh.invW_iff m).mp hm
  obtain ⟨h0, _⟩ := (TReg.inv_iff m.region).mp hr
  unfold subsSave
  split
  · simp only [subsLoad, List.zip_map']
    rw [mapE_map_ok_of (rowRegion m.region.ndim) (fun (p : String × TReg) => (p.1, subRow (tableKind m) p.2))
      (fun (p : String × TReg) => (p.1, plainOf (tableKind m) m.region.ndim p.2))]
    · simp only [bind_ok]
      rw [dictOf_nodup]
      simpa [List.map_map, Function.comp_def] using hnd
    · intro p hp
      obtain ⟨hl1, hl2, hk, _, _, _, hlt⟩ := (subInvW_iff _ _).mp (hsub p hp)
      exact rowRegion_subRow _ _ _ _ h0 hl1 hl2 hk hlt (tableKind_lossless m p hp)
  · rename_i hlen
    have : m.subs = [] := by
      cases hs : m.subs with
      | nil => rfl
      | cons a t => rw [hs] at hlen; simp at hlen
    simp [subsLoad, this]

/-- **The reader accepts the writer's mesh group iff every stored subregion passes the setter's
three tests** (with the mesh's tolerance: the reader's setter re-stamps the re-read corner pair). -/
theorem meshLoad_meshSave_ok_iff (m : TMesh) (hm : m.InvW) :
    (∃ g, meshLoad (meshSave m) = .ok g) ↔ m.Inv := by
  constructor
  · rintro ⟨g, hg⟩
    rw [TMesh.inv_iff_weak]
    refine ⟨hm, ?_⟩
    obtain ⟨hr, hn, hpos, hbcl, hbc, hnd, hsub⟩ := (TMesh.invW_iff m).mp hm
    unfold meshLoad meshSave at hg
    simp only [regionLoad_regionSave m.region hr, bind_ok, subsLoad_subsSave_w m hm] at hg
    unfold TMesh.init at hg
    have h1 : ¬ (m.n.map fun (k : Nat) => (k : Int)).length ≠ m.region.ndim := by simp [hn]
    have h2 : (m.n.map fun (k : Nat) => (k : Int)).any (fun k => decide (k ≤ 0)) = false := by
      rw [List.any_eq_false]
      intro k hk
      simp only [List.mem_map] at hk
      obtain ⟨j, hj, rfl⟩ := hk
      have := hpos j hj
      simp only [decide_eq_true_eq]
      omega
    have h3 : (m.n.map fun (k : Nat) => (k : Int)).map Int.toNat = m.n := by
      rw [List.map_map]
      conv_rhs => rw [← List.map_id m.n]
      apply List.map_congr_left
      intro a _
      simp
    simp only [h1, h2, h3, hbcl, hbc, if_false, Bool.not_true, Bool.false_eq_true] at hg
    obtain ⟨ss, hss, _⟩ := bind_eq_ok _ _ _ hg
    unfold setSubs at hss
    split at hss
    · cases hss
    · rename_i hall
      have hall' : (m.subs.map fun p => (p.1, plainOf (tableKind m) m.region.ndim p.2)).all
          (fun p => candOk m.region m.n p.2) = true := by simpa using hall
      rw [TMesh.rereadable_iff]
      intro p hp
      obtain ⟨hl1, hl2, hk, hsd, hsu, hst, hlt⟩ := (subInvW_iff _ _).mp (hsub p hp)
      have hloss := tableKind_lossless m p hp
      have := List.all_eq_true.mp hall' (p.1, plainOf (tableKind m) m.region.ndim p.2)
        (List.mem_map.mpr ⟨p, hp, rfl⟩)
      simp only at this
      have hnd : (plainOf (tableKind m) m.region.ndim p.2).ndim = m.region.ndim := by
        show (p.2.pmin.cast (tableKind m)).length = m.region.ndim
        rw [NumArr.cast_length, hl1]
      rw [candOk_of_init m.region m.n _ _ hnd (init_plainOf_w _ _ _ hr hl1 hl2 hk hsd hsu hst hlt hloss),
        castCorners_toRegion _ _ hloss] at this
      exact this
  · intro h
    exact ⟨_, meshLoad_meshSave m h⟩

/-- … and so for whole files -/
theorem h5Load_h5Save_ok_iff (f : TFld) (hf : f.InvW) : (∃ g, h5Load (h5Save f) = .ok g) ↔ f.Inv := by
  constructor
  · rintro ⟨g, hg⟩
    rw [TFld.inv_iff_weak]
    refine ⟨hf, ?_⟩
    have hmw := ((TFld.invW_iff f).mp hf).1
    simp only [h5Load, h5Save, ne_eq, not_true_eq_false, if_false] at hg
    unfold fieldLoad fieldLoadAt fieldSave at hg
    obtain ⟨m, hm, _⟩ := bind_eq_ok _ _ _ hg
    exact ((TMesh.inv_iff_weak f.mesh).mp ((meshLoad_meshSave_ok_iff f.mesh hmw).mp ⟨m, hm⟩)).2
  · intro h
    refine ⟨reread f, ?_⟩
    simp only [h5Load, h5Save, ne_eq, not_true_eq_false, if_false]
    exact fieldLoad_fieldSave_gen f h

/-- the setter accepts every list of (valid) candidates that pass its test, and stores them re-stamped -/
theorem setSubs_of_ok (r : TReg) (hr : r.Inv) (n : List Nat) (subs : List (String × TReg)) (hinv : ∀ p ∈ subs, p.2.Inv)
    (hacc : ∀ p ∈ subs, candOk r n p.2 = true) : setSubs r n subs = .ok (subs.map (restampT r)) := by
  have hnd : r.toRegion.ndim = r.ndim := by
    show r.pmin.vals.length = r.pmin.length
    rw [NumArr.vals_length]
  unfold setSubs
  have hall : subs.all (fun p => candOk r n p.2) = true := List.all_eq_true.mpr hacc
  simp only [hall, Bool.not_true, Bool.false_eq_true, if_false]
  apply mapE_ok_of
  intro p hp
  obtain ⟨h0, hl, hk, _, _, _, hlt⟩ := (TReg.inv_iff p.2).mp (hinv p hp)
  obtain ⟨_, _, _, hd, hu, hdup, _⟩ := (TReg.inv_iff r).mp hr
  have hc := hacc p hp
  rw [candOk_eq r hr n p.2 (hinv p hp)] at hc
  obtain ⟨a1, _⟩ := subAccept_length _ _ _ hc
  have l1 : p.2.pmin.length = r.pmin.length := by
    have : p.2.pmin.vals.length = r.toRegion.ndim := a1
    rwa [NumArr.vals_length, hnd] at this
  unfold rebuildSub
  rw [init_ordered p.2.pmin p.2.pmax (some r.dims) (some r.units) r.dims r.units r.tol h0 hl hk
    (dimsOk_some _ _ (by rw [l1, hd]) hdup) (unitsOk_some _ _ (by rw [l1, hu])) hlt]
  rfl

/-! ## what the setter tested (for C14's theorems about loaded meshes) -/

/-- the copy of a candidate the setter tests and stores: its corners, the mesh region's names,
units and tolerance factor -/
def stampC (r s : TReg) : TReg := { s with dims := r.dims, units := r.units, tol := r.tol }

theorem candOk_eq_stampC (r : TReg) (hr : r.Inv) (n : List Nat) (s : TReg) (hs : s.Inv) :
    candOk r n s = subAccept r.toRegion n (stampC r s).toRegion := by
  rw [candOk_eq r hr n s hs]
  have : (stampC r s).toRegion = { ({ s.toRegion with tol := r.tol.val } : Region) with dims := r.dims, units := r.units } := rfl
  rw [this, subAccept_dims_units]

/-- **what an accepted `subregions` assignment tested**: every (valid) candidate, re-stamped with
the mesh region's names, units and tolerance factor, passed the three tests -/
theorem setSubs_tests (r : TReg) (hr : r.Inv) (n : List Nat) (subs ss : List (String × TReg))
    (hinv : ∀ p ∈ subs, p.2.Inv) (h : setSubs r n subs = .ok ss) :
    ∀ c ∈ subs, subAccept r.toRegion n (stampC r c.2).toRegion = true := by
  intro c hc
  rw [← candOk_eq_stampC r hr n c.2 (hinv c hc)]
  exact (setSubs_ok r hr n subs ss hinv h).2.2.1 c hc

/-- the candidates the HDF5 reader builds from the corner table are valid regions -/
theorem subsLoad_cands_inv (ndim : Nat) (s : Option H5Subs) (ss : List (String × TReg)) (h : subsLoad ndim s = .ok ss) :
    ∀ p ∈ ss, p.2.Inv := by
  cases s with
  | none =>
    simp only [subsLoad] at h
    cases h
    intro p hp
    cases hp
  | some s =>
    simp only [subsLoad] at h
    obtain ⟨l, hl, h⟩ := bind_eq_ok _ _ _ h
    cases h
    intro p hp
    obtain ⟨a, _, hrow⟩ := mapE_ok_mem _ _ _ hl p (mem_dictOf l p hp)
    unfold rowRegion at hrow
    obtain ⟨s', hs', hp'⟩ := bind_eq_ok _ _ _ hrow
    cases hp'
    exact (init_ok _ _ _ _ _ _ hs').1

/-- **whatever an HDF5 file contains, the loaded subregions went through the setter**: they are
the setter's result on some candidate list, every candidate — re-stamped with the loaded mesh
region's names, units and tolerance factor — passed the three tests of the loaded mesh, and the
stored subregions are the re-stamped candidates -/
theorem meshLoad_cands_tested (h : H5Mesh) (g : TMesh) (hg : meshLoad h = .ok g) :
    ∃ cands : List (String × TReg), setSubs g.region g.n cands = .ok g.subs ∧
      (∀ c ∈ cands, subAccept g.region.toRegion g.n (stampC g.region c.2).toRegion = true) ∧
      g.subs = cands.map (restampT g.region) := by
  unfold meshLoad at hg
  obtain ⟨r, hr, hg⟩ := bind_eq_ok _ _ _ hg
  obtain ⟨ss, hss, hg⟩ := bind_eq_ok _ _ _ hg
  have hrinv : r.Inv := (init_ok _ _ _ _ _ _ (initKw_ok _ _ _ _ _ _ hr)).1
  have hinv := subsLoad_cands_inv _ _ _ hss
  unfold TMesh.init at hg
  split at hg
  · cases hg
  · split at hg
    · cases hg
    · split at hg
      · cases hg
      · obtain ⟨ss', hset, hg⟩ := bind_eq_ok _ _ _ hg
        cases hg
        exact ⟨ss, hset, setSubs_tests r hrinv _ ss ss' hinv hset, (setSubs_ok r hrinv _ ss ss' hinv hset).2.2.2⟩

/-! ## the constructors establish the full invariant, whatever the candidates' tolerance -/

/-- **`Mesh.__init__` establishes the invariant `Inv`** for any region, counts, boundary condition
and any dict of candidate regions (distinct names: they are dict keys) — whatever names, units and
tolerance factor the candidates carry (repo fix 5591fed0: the tests are made on the copy that is
stored). -/
theorem TMesh.init_inv (r : TReg) (hr : r.Inv) (n : List Int) (bc : String) (subs : List (String × TReg))
    (hinv : ∀ p ∈ subs, p.2.Inv) (hnd : hasDup (subs.map fun p => p.1) = false) (m : TMesh)
    (h : TMesh.init r n bc subs = .ok m) : m.Inv := by
  unfold TMesh.init at h
  split at h
  · cases h
  · rename_i h1
    split at h
    · cases h
    · rename_i h2
      split at h
      · cases h
      · rename_i h3
        obtain ⟨ss', hset, h⟩ := bind_eq_ok _ _ _ h
        cases h
        obtain ⟨hnames, hsub, _, _⟩ := setSubs_ok r hr _ subs ss' hinv hset
        rw [TMesh.inv_iff]
        refine ⟨hr, by simpa using h1, ?_, toLower_idem _, by simpa using h3, by rw [hnames]; exact hnd, hsub⟩
        intro k hk
        simp only [List.mem_map] at hk
        obtain ⟨j, hj, rfl⟩ := hk
        have : ¬ j ≤ 0 := by
          intro hle
          have : n.any (fun k => decide (k ≤ 0)) = true := List.any_eq_true.mpr ⟨j, hj, by simpa using hle⟩
          exact h2 this
        omega

/-- what the constructor stores and what it tested -/
theorem TMesh.init_items (r : TReg) (hr : r.Inv) (n : List Int) (bc : String) (subs : List (String × TReg))
    (hinv : ∀ p ∈ subs, p.2.Inv) (m : TMesh) (h : TMesh.init r n bc subs = .ok m) :
    m.region = r ∧ m.n = n.map Int.toNat ∧ m.bc = bc.toLower ∧ m.subs = subs.map (restampT r) ∧
    ∀ p ∈ subs, candOk r (n.map Int.toNat) p.2 = true := by
  unfold TMesh.init at h
  split at h
  · cases h
  · split at h
    · cases h
    · split at h
      · cases h
      · obtain ⟨ss', hset, h⟩ := bind_eq_ok _ _ _ h
        cases h
        obtain ⟨_, _, hacc, heq⟩ := setSubs_ok r hr _ subs ss' hinv hset
        exact ⟨rfl, rfl, rfl, heq, hacc⟩

/-- `Field.__init__` establishes the weak invariant on a mesh that has it -/
theorem init_invW (m : TMesh) (hm : m.InvW) (nvdim : Option Int) (value : DArr) (vdims : Option (List String))
    (unit : Option String) (valid : Option VArr) (hwf : value.wf)
    (hvwf : ∀ w, valid = some w → w.buf.length = natProd w.shape) (f : TFld)
    (h : TFld.init m nvdim value vdims unit valid = .ok f) : f.InvW := by
  unfold TFld.init at h
  cases nvdim with
  | none => cases h
  | some k =>
    simp only at h
    split at h
    · cases h
    · rename_i hk
      obtain ⟨d1, hd1, h⟩ := bind_eq_ok _ _ _ h
      obtain ⟨data, hdata, h⟩ := bind_eq_ok _ _ _ h
      obtain ⟨v, hv, h⟩ := bind_eq_ok _ _ _ h
      obtain ⟨vd, hvd, h⟩ := bind_eq_ok _ _ _ h
      cases h
      obtain ⟨_, hwf1⟩ := asArray_ok _ _ _ _ hwf hd1
      obtain ⟨hs2, hwf2⟩ := asArray_ok _ _ _ _ hwf1 hdata
      obtain ⟨hv1, hv2⟩ := asValid_ok _ _ _ hvwf hv
      have hk1 : 1 ≤ k.toNat := by omega
      rw [TFld.invW_iff]
      exact ⟨hm, hk1, hs2, by rw [← hs2]; exact hwf2, hv1, hv2, vdimsSet_ok _ hk1 _ _ hvd⟩

theorem inv_of_invW_nosubs (m : TMesh) (hm : m.InvW) (hs : m.subs = []) : m.Inv := by
  rw [TMesh.inv_iff_weak]
  refine ⟨hm, ?_⟩
  rw [TMesh.rereadable_iff, hs]
  intro p hp
  cases hp

end DFV.C10
