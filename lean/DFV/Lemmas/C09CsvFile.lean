import DFV.Lemmas.C09Csv
/-! C09, second round: text files at byte level - reading the bytes of a text file is reading the
file; short text data sections are rejected; cuts of the rows. -/
namespace DFV.C09
open DFV

/-! ## what `readText` returns -/

theorem flatMap_length_uniform {α β} (l : List α) (g : α → List β) (k : Nat) (h : ∀ x ∈ l, (g x).length = k) :
    (l.flatMap g).length = l.length * k := by
  induction l with
  | nil => simp
  | cons x l ih =>
    simp only [List.flatMap_cons, List.length_append, List.length_cons, h x (by simp),
      ih (fun y hy => h y (by simp [hy]))]
    ring

theorem padRow_length {α} (nan : α) (k : Nat) (r : List α) (h : r.length ≤ k) : (padRow nan k r).length = k := by
  unfold padRow; simp; omega

/-- with a first record of at most `vd` fields, `readText` returns at most `vd` values per record -/
theorem readText_ok_length_le {α} (nan : α) (rows : List (List α)) (nodes vd : Nat) (flat : List α)
    (h : readText nan rows nodes vd = .ok flat) (hc : (rows.headD []).length ≤ vd) :
    flat.length ≤ rows.length * vd := by
  unfold readText at h
  have htl : (rows.take nodes).length ≤ rows.length := by simp [List.length_take]
  have hhead : ((rows.take nodes).headD []).length ≤ vd := by
    cases nodes with
    | zero => simp
    | succ k =>
      cases rows with
      | nil => simp
      | cons r rs => simpa using hc
  split at h
  · cases h
  · split at h
    · cases h
    · split at h
      · cases h
      · rename_i hall
        simp only [Bool.not_eq_true', Bool.not_eq_false] at hall
        split at h
        · omega
        · injection h with h
          subst h
          rw [flatMap_length_uniform _ _ ((rows.take nodes).headD []).length (by
            intro r hr
            apply padRow_length
            have hall' : ∀ x ∈ rows.take nodes, x.length ≤ ((rows.take nodes).headD []).length := by
              simpa using hall
            exact hall' r hr)]
          calc (rows.take nodes).length * ((rows.take nodes).headD []).length
              ≤ rows.length * vd := Nat.mul_le_mul htl hhead

/-- a file that is read has at least one component -/
theorem fromOvf_ok_vd {α} [DecidableEq α] (c : Codec α) (isWord : Char → Bool) (reserved : String → Bool)
    (F : OvfFile α) (side : Option (List (String × Region))) (g : OField α)
    (h : fromOvf c isWord reserved F side = .ok g) :
    ∃ p mesh arr, parse c F = .ok p ∧ loadSide p.mesh side = .ok mesh ∧
      unflatten mesh.n p.vd p.flat c.zero = .ok arr ∧ 1 ≤ p.vd := by
  unfold fromOvf at h
  split at h
  · cases h
  · rename_i p hp
    split at h
    · cases h
    · rename_i mesh hm
      split at h
      · cases h
      · rename_i arr ha
        split at h
        · cases h
        · rename_i hvd
          exact ⟨p, mesh, arr, hp, hm, ha, by omega⟩

/-- **a text data section with too few records is rejected**: fewer records than cells, the first
with at most `valuedim` fields -/
theorem short_rows_rejected' {α} [DecidableEq α] (c : Codec α) (isWord : Char → Bool)
    (reserved : String → Bool) (F : OvfFile α) (side : Option (List (String × Region)))
    (rows : List (List α)) (footer : List String) (hbody : F.body = .text rows footer)
    (hshort : ∀ h ws mesh vd, scan F.lines [] = some (h, ws) → readMesh h = .ok mesh →
      valueDim F.first h = .ok vd → rows.length < natProd mesh.n ∧ (rows.headD []).length ≤ vd) :
    ∃ e, fromOvf c isWord reserved F side = .error e := by
  cases hres : fromOvf c isWord reserved F side with
  | error e => exact ⟨e, rfl⟩
  | ok g =>
    exfalso
    obtain ⟨p, mesh, arr, hp, hm, ha, hvd1⟩ := fromOvf_ok_vd c isWord reserved F side g hres
    obtain ⟨ws, nodes, hscan, hvd, hmesh, hflat⟩ := parse_ok_inv c F p hp
    obtain ⟨hlt, hhead⟩ := hshort p.header ws p.mesh p.vd hscan hmesh hvd
    unfold readBody at hflat
    rw [hbody] at hflat
    simp only at hflat
    split at hflat
    · cases hflat
    · have hlen := readText_ok_length_le c.nan rows (natProd nodes) p.vd p.flat hflat hhead
      have hn : mesh.n = p.mesh.n := loadSide_n _ _ _ hm
      unfold unflatten at ha
      split at ha
      · cases ha
      · rename_i hne
        rw [natProd_append1, natProd_reverse, hn] at hne
        have h1 : p.flat.length = natProd p.mesh.n * p.vd := by omega
        have h2 : rows.length * p.vd < natProd p.mesh.n * p.vd := Nat.mul_lt_mul_of_pos_right hlt (by omega)
        omega

/-! ## reading the bytes of a text file -/

theorem csvBody_nil {α} (T : TextIO α) (nan : α) : (csvBody T nan []).1 = [] := rfl

/-- the bytes of the header of a text file followed by anything: the byte-level reader sees the file
with the records the model of `read_csv` makes of what follows -/
theorem fromOvfBytes_text_tail {α} [DecidableEq α] (N : NumIO) (L : N.Lawful)
    (tb : List Byte → List (List α) × List String) (c : Codec α) (isWord : Char → Bool)
    (reserved : String → Bool) (F : OvfFile α) (hs : List HLine) (ws : List String) (K : FileOk N F hs ws)
    (hb : isBinary ws = false) (tail : List Byte) (side : Option (List (String × Region))) :
    fromOvfBytes N tb c isWord reserved (headerBytes N F ++ tail) side
      = fromOvf c isWord reserved ({ F with body := .text (tb tail).1 (tb tail).2 } : OvfFile α) side := by
  have K' : FileOk N ({ F with body := .text (tb tail).1 (tb tail).2 } : OvfFile α) hs ws :=
    { lines := K.lines, first := K.first, ok := K.ok, words := K.words }
  exact fromOvfBytes_text N L tb c isWord reserved _ hs ws K' hb _ _ rfl tail rfl side

/-- **reading the bytes of a text file = reading the file** -/
theorem fromOvfBytesT_text {α} [DecidableEq α] (N : NumIO) (LN : N.Lawful) (T : TextIO α) (P : α → Prop)
    (LT : T.LawfulOn P) (c : Codec α) (isWord : Char → Bool) (reserved : String → Bool)
    (F : OvfFile α) (hs : List HLine) (ws : List String) (K : FileOk N F hs ws) (hb : isBinary ws = false)
    (rows : List (List α)) (footer : List String) (hF : F.body = .text rows footer)
    (R : RowsOk T P rows) (Fo : FooterOk footer) (side : Option (List (String × Region))) :
    fromOvfBytesT N T c isWord reserved (fileBytesT N T F) side = fromOvf c isWord reserved F side := by
  unfold fromOvfBytesT fileBytesT
  rw [hF]
  simp only
  exact fromOvfBytes_text N LN _ c isWord reserved F hs ws K hb rows footer hF _
    (csvBody_textBytes T P LT c.nan rows footer R Fo) side

theorem fromOvfBytesT_bin {α} [DecidableEq α] (N : NumIO) (LN : N.Lawful) (T : TextIO α)
    (c : Codec α) (isWord : Char → Bool) (reserved : String → Bool)
    (F : OvfFile α) (hs : List HLine) (ws : List String) (K : FileOk N F hs ws) (hb : isBinary ws = true)
    (b : List Byte) (hF : F.body = .bin b) (side : Option (List (String × Region))) :
    fromOvfBytesT N T c isWord reserved (fileBytesT N T F) side = fromOvf c isWord reserved F side := by
  have := fromOvfBytes_bin N LN (csvBody T c.nan) c isWord reserved F hs ws K hb b hF side
  unfold fromOvfBytesT fileBytesT
  unfold fileBytes at this
  rw [hF] at this ⊢
  exact this

theorem footerOk_text : FooterOk (footerLines ["Text"]) := by
  intro l hl
  simp only [footerLines, List.mem_cons, List.mem_nil_iff, or_false] at hl
  rcases hl with rfl | rfl
  · exact ⟨by decide, by decide⟩
  · exact ⟨by decide, by decide⟩

/-! ## prefixes of the rows -/

/-- the bytes of the rows -/
def rowsBytes {α} (T : TextIO α) (rows : List (List α)) : List Byte :=
  rows.flatMap fun r => utf8Enc (rowChars T r) ++ [10]

theorem textBytes_split {α} (T : TextIO α) (rows : List (List α)) (footer : List String) :
    textBytes T rows footer = rowsBytes T rows ++ footer.flatMap (fun l => utf8Enc l.toList ++ [10]) := rfl

theorem rowsBytes_eq {α} (T : TextIO α) (rows : List (List α)) :
    rowsBytes T rows = (rows.map fun r => utf8Enc (rowChars T r)).flatMap (fun l => l ++ [10]) := by
  unfold rowsBytes; rw [List.flatMap_map]

/-- a prefix of the bytes of `k` rows holds at most `k` records -/
theorem csvBody_prefix_count {α} (T : TextIO α) (P : α → Prop) (L : T.LawfulOn P) (nan : α)
    (rows : List (List α)) (R : RowsOk T P rows) (p : List Byte) (hp : p <+: rowsBytes T rows) :
    (csvBody T nan p).1.length ≤ rows.length := by
  unfold csvBody
  simp only
  calc _ ≤ (csvLines p []).length := List.length_filterMap_le _ _
    _ ≤ (rows.map fun r => utf8Enc (rowChars T r)).length := by
        apply csvLines_prefix_length
        · intro l hl
          obtain ⟨r, hr, rfl⟩ := List.mem_map.mp hl
          exact (row_line T P L nan r (R.ne r hr) (R.vals r hr)).1
        · rw [← rowsBytes_eq]; exact hp
    _ = rows.length := by simp

/-- ... and its first record has at most as many fields as the first row -/
theorem csvBody_prefix_head {α} (T : TextIO α) (P : α → Prop) (L : T.LawfulOn P) (nan : α)
    (rows : List (List α)) (R : RowsOk T P rows) (vd : Nat) (hvd : 1 ≤ vd) (hu : ∀ r ∈ rows, r.length = vd)
    (p : List Byte) (hp : p <+: rowsBytes T rows) :
    ((csvBody T nan p).1.headD []).length ≤ vd := by
  cases rows with
  | nil =>
    simp only [rowsBytes, List.flatMap_nil, List.prefix_nil] at hp
    subst hp
    simp [csvBody, csvLines]
  | cons r rs =>
    have hr := R.vals r (by simp)
    have hne := R.ne r (by simp)
    obtain ⟨h10, hrec, _⟩ := row_line T P L nan r hne hr
    have hasc := rowChars_ascii T P L r hr
    have e : rowsBytes T (r :: rs) = utf8Enc (rowChars T r) ++ 10 :: rowsBytes T rs := by
      simp [rowsBytes]
    rw [e] at hp
    -- a piece of the first line
    have partial_case : ∀ q, q <+: utf8Enc (rowChars T r) → ((csvBody T nan q).1.headD []).length ≤ vd := by
      intro q hq
      unfold csvBody
      simp only
      have hl : csvLines q [] = if q.isEmpty then [] else [q] := by
        have := csvLines_last q (not_mem_of_prefix 10 q _ hq h10) []
        simpa using this
      rw [hl]
      cases hqe : q.isEmpty with
      | true => simp
      | false =>
        simp only [Bool.false_eq_true, if_false, List.filterMap_cons, List.filterMap_nil]
        cases hrq : csvRecord (q.map Char.ofNat) with
        | none => simp
        | some fs =>
          simp only [Option.map_some, List.headD_cons]
          have hq' := prefix_enc_ascii _ (fun ch hch => (hasc ch hch).1) q hq
          have := csvRecord_prefix_length (r.map T.fmt) (rowWords_ok T P L r hr) _ hq' fs hrq
          have h2 := csvConv_length_le T nan fs
          rw [List.length_map, hu r (by simp)] at this
          omega
    rcases prefix_append_cases p _ _ hp with h1 | ⟨t, rfl, ht⟩
    · exact partial_case p h1
    · rcases List.prefix_cons_iff.mp ht with rfl | ⟨t', rfl, _⟩
      · rw [List.append_nil]; exact partial_case _ (List.prefix_refl _)
      · unfold csvBody
        simp only
        rw [csvLines_line _ t' h10 []]
        simp only [List.reverse_nil, List.nil_append, List.filterMap_cons, hrec, List.headD_cons]
        rw [hu r (by simp)]

theorem rowsBytes_dropLast_prefix {α} (T : TextIO α) (rows : List (List α)) :
    rowsBytes T rows.dropLast <+: rowsBytes T rows := by
  cases h : rows.getLast? with
  | none =>
    have : rows = [] := List.getLast?_eq_none_iff.mp h
    subst this; exact List.prefix_refl _
  | some l =>
    have : rows = rows.dropLast ++ [l] := by
      have := List.dropLast_append_getLast? l (by rw [h]; rfl)
      exact this.symm
    conv => rhs; rw [this]
    unfold rowsBytes
    rw [List.flatMap_append]
    exact List.prefix_append _ _

/-! ## after the rows: footer lines, whole or cut, give no record -/

/-- every line of a prefix of the footer bytes starts with `#` -/
theorem csvLines_footer_prefix (footer : List String) (Fo : FooterOk footer) (p : List Byte)
    (hp : p <+: footer.flatMap (fun l => utf8Enc l.toList ++ [10])) :
    ∀ l ∈ csvLines p [], l.head? = some 35 := by
  induction footer generalizing p with
  | nil =>
    simp only [List.flatMap_nil, List.prefix_nil] at hp
    subst hp; intro l hl; simp [csvLines] at hl
  | cons s footer ih =>
    obtain ⟨h10, _, hh, _⟩ := footer_line s (Fo s (by simp))
    have hh' : (utf8Enc s.toList).head? = some 35 := by simpa using hh
    have e : (s :: footer).flatMap (fun l => utf8Enc l.toList ++ [10])
        = utf8Enc s.toList ++ 10 :: footer.flatMap (fun l => utf8Enc l.toList ++ [10]) := by simp
    rw [e] at hp
    have partial_case : ∀ q, q <+: utf8Enc s.toList → ∀ l ∈ csvLines q [], l.head? = some 35 := by
      intro q hq l hl
      have hl' : csvLines q [] = if q.isEmpty then [] else [q] := by
        have := csvLines_last q (not_mem_of_prefix 10 q _ hq h10) []
        simpa using this
      rw [hl'] at hl
      cases hqe : q.isEmpty with
      | true => rw [hqe] at hl; simp at hl
      | false =>
        rw [hqe] at hl
        simp only [Bool.false_eq_true, if_false, List.mem_singleton] at hl
        subst hl
        cases l with
        | nil => simp at hqe
        | cons b l' =>
          obtain ⟨r, hr⟩ := hq
          rw [← hr] at hh'
          simpa using hh'
    rcases prefix_append_cases p _ _ hp with h1 | ⟨t, rfl, ht⟩
    · exact partial_case p h1
    · rcases List.prefix_cons_iff.mp ht with rfl | ⟨t', rfl, ht'⟩
      · rw [List.append_nil]; exact partial_case _ (List.prefix_refl _)
      · rw [csvLines_line _ t' h10 []]
        intro l hl
        simp only [List.reverse_nil, List.nil_append, List.mem_cons] at hl
        rcases hl with rfl | hl
        · exact hh'
        · exact ih (fun x hx => Fo x (by simp [hx])) t' ht' l hl

theorem csvRecord_comment (l : List Byte) (h : l.head? = some 35) : csvRecord (l.map Char.ofNat) = none := by
  cases l with
  | nil => cases h
  | cons b l =>
    simp only [List.head?_cons, Option.some.injEq] at h
    subst h
    simp [csvRecord]

/-- **the rows followed by a cut footer**: the records are the rows -/
theorem csvBody_rows_then {α} (T : TextIO α) (P : α → Prop) (L : T.LawfulOn P) (nan : α)
    (rows : List (List α)) (R : RowsOk T P rows) (x : List Byte)
    (hx : ∀ l ∈ csvLines x [], l.head? = some 35) :
    (csvBody T nan (rowsBytes T rows ++ x)).1 = rows := by
  unfold csvBody
  simp only
  rw [rowsBytes_eq, csvLines_block _ (by
    intro l hl
    obtain ⟨r, hr, rfl⟩ := List.mem_map.mp hl
    exact (row_line T P L nan r (R.ne r hr) (R.vals r hr)).1), List.filterMap_append]
  have h1 : (rows.map fun r => utf8Enc (rowChars T r)).filterMap
      (fun l => (csvRecord (l.map Char.ofNat)).map (csvConv T nan)) = rows := by
    rw [List.filterMap_map]
    conv => rhs; rw [← List.filterMap_some (l := rows)]
    apply List.filterMap_congr
    intro r hr
    exact (row_line T P L nan r (R.ne r hr) (R.vals r hr)).2.1
  have h2 : (csvLines x []).filterMap (fun l => (csvRecord (l.map Char.ofNat)).map (csvConv T nan)) = [] := by
    rw [List.filterMap_eq_nil_iff]
    intro l hl
    rw [csvRecord_comment l (hx l hl)]
    rfl
  rw [h1, h2, List.append_nil]

end DFV.C09
