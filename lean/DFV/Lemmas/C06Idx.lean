import DFV.Lemmas.C06Sum
/-! Index-list lemmas for C06: `insertAt` / `removeAt` / `setAt`, in-range multi-indices,
summing out one axis of a nested sum, materialised arrays (`NDA.force`). -/
namespace DFV.C06
open DFV

@[simp] theorem insertAt_zero {α} (i : List α) (k : α) : insertAt i 0 k = k :: i := by
  simp [insertAt]

@[simp] theorem insertAt_cons_succ {α} (x : α) (xs : List α) (ax : Nat) (k : α) :
    insertAt (x :: xs) (ax + 1) k = x :: insertAt xs ax k := by
  simp [insertAt]

@[simp] theorem insertAt_nil {α} (ax : Nat) (k : α) : insertAt ([] : List α) ax k = [k] := by
  simp [insertAt]

theorem insertAt_length {α} (i : List α) (ax : Nat) (k : α) : (insertAt i ax k).length = i.length + 1 := by
  induction i generalizing ax with
  | nil => simp
  | cons x xs ih =>
    cases ax with
    | zero => simp
    | succ ax => simp [ih]

theorem removeAt_length {α} (l : List α) (ax : Nat) (h : ax < l.length) :
    (removeAt l ax).length = l.length - 1 := by
  induction l generalizing ax with
  | nil => simp at h
  | cons x xs ih =>
    cases ax with
    | zero => simp [removeAt]
    | succ ax =>
      simp only [removeAt, List.length_cons]
      have := ih ax (by simpa using h)
      have hx : 0 < xs.length := by simp at h; omega
      omega

theorem getD_removeAt {α} (l : List α) (ax p : Nat) (d : α) :
    (removeAt l ax).getD p d = if p < ax then l.getD p d else l.getD (p + 1) d := by
  induction l generalizing ax p with
  | nil => simp [removeAt]
  | cons x xs ih =>
    cases ax with
    | zero => simp [removeAt]
    | succ ax =>
      cases p with
      | zero => simp [removeAt]
      | succ p =>
        simp only [removeAt, List.getD_cons_succ, ih]
        simp

theorem getD_insertAt_self (i : List Nat) (ax k : Nat) (h : ax ≤ i.length) :
    (insertAt i ax k).getD ax 0 = k := by
  induction i generalizing ax with
  | nil => have : ax = 0 := by simpa using h
           subst this; simp
  | cons x xs ih =>
    cases ax with
    | zero => simp
    | succ ax => simp only [insertAt_cons_succ, List.getD_cons_succ]; exact ih ax (by simpa using h)

theorem removeAt_insertAt {α} (i : List α) (ax : Nat) (k : α) (h : ax ≤ i.length) :
    removeAt (insertAt i ax k) ax = i := by
  induction i generalizing ax with
  | nil => have : ax = 0 := by simpa using h
           subst this; simp [removeAt]
  | cons x xs ih =>
    cases ax with
    | zero => simp [removeAt]
    | succ ax => simp only [insertAt_cons_succ, removeAt]; rw [ih ax (by simpa using h)]

/-- putting `j` back where an entry was removed overwrites that entry -/
theorem insertAt_removeAt (i : List Nat) (ax j : Nat) (h : ax < i.length) :
    insertAt (removeAt i ax) ax j = setAt i ax j := by
  induction i generalizing ax with
  | nil => simp at h
  | cons x xs ih =>
    cases ax with
    | zero => simp [removeAt, setAt]
    | succ ax => simp only [removeAt, insertAt_cons_succ, setAt]; rw [ih ax (by simpa using h)]

theorem setAt_getD_self (i : List Nat) (ax : Nat) : setAt i ax (i.getD ax 0) = i := by
  induction i generalizing ax with
  | nil => simp [setAt]
  | cons x xs ih =>
    cases ax with
    | zero => simp [setAt]
    | succ ax => simp only [setAt, List.getD_cons_succ]; rw [ih ax]

theorem setAt_length {α} (i : List α) (ax : Nat) (k : α) : (setAt i ax k).length = i.length := by
  induction i generalizing ax with
  | nil => simp [setAt]
  | cons x xs ih =>
    cases ax with
    | zero => simp [setAt]
    | succ ax => simp [setAt, ih]

theorem getD_setAt_self (i : List Nat) (ax k : Nat) (h : ax < i.length) : (setAt i ax k).getD ax 0 = k := by
  induction i generalizing ax with
  | nil => simp at h
  | cons x xs ih =>
    cases ax with
    | zero => simp [setAt]
    | succ ax => simp only [setAt, List.getD_cons_succ]; exact ih ax (by simpa using h)

/-! ## in-range multi-indices -/

theorem inRange_insertAt (shape i : List Nat) (ax j : Nat) (hax : ax < shape.length)
    (hi : inRange (removeAt shape ax) i = true) (hj : j < shape.getD ax 0) :
    inRange shape (insertAt i ax j) = true := by
  induction shape generalizing ax i with
  | nil => simp at hax
  | cons n ns ih =>
    cases ax with
    | zero =>
      simp only [removeAt] at hi
      simp only [insertAt_zero, inRange_cons]
      exact ⟨by simpa using hj, hi⟩
    | succ ax =>
      cases i with
      | nil => simp [removeAt, inRange] at hi
      | cons x xs =>
        simp only [removeAt, inRange_cons] at hi
        simp only [insertAt_cons_succ, inRange_cons]
        exact ⟨hi.1, ih xs ax (by simpa using hax) hi.2 (by simpa using hj)⟩

theorem inRange_removeAt (shape i : List Nat) (ax : Nat) (h : inRange shape i = true) :
    inRange (removeAt shape ax) (removeAt i ax) = true := by
  induction shape generalizing ax i with
  | nil => cases i <;> simp_all [inRange, removeAt]
  | cons n ns ih =>
    cases i with
    | nil => simp [inRange] at h
    | cons x xs =>
      rw [inRange_cons] at h
      cases ax with
      | zero => simpa [removeAt] using h.2
      | succ ax => simp only [removeAt, inRange_cons]; exact ⟨h.1, ih xs ax h.2⟩

theorem inRange_setAt (shape i : List Nat) (ax j : Nat) (h : inRange shape i = true)
    (hj : j < shape.getD ax 0) : inRange shape (setAt i ax j) = true := by
  induction shape generalizing ax i with
  | nil => simp at hj
  | cons n ns ih =>
    cases i with
    | nil => simp [inRange] at h
    | cons x xs =>
      rw [inRange_cons] at h
      cases ax with
      | zero => simp only [setAt, inRange_cons]; exact ⟨by simpa using hj, h.2⟩
      | succ ax => simp only [setAt, inRange_cons]; exact ⟨h.1, ih xs ax h.2 (by simpa using hj)⟩

theorem inRange_nil_iff (i : List Nat) (h : inRange [] i = true) : i = [] := by
  cases i with
  | nil => rfl
  | cons x xs => simp [inRange] at h

/-! ## summing out one axis -/

/-- Summing out axis `ax` first and then everything else is the sum over the whole shape. -/
theorem nestSum_removeAt (shape : List Nat) (ax : Nat) (hax : ax < shape.length) (g : List Nat → Rat) :
    nestSum (removeAt shape ax) (fun i => sumTo (shape.getD ax 0) fun j => g (insertAt i ax j))
      = nestSum shape g := by
  induction shape generalizing ax g with
  | nil => simp at hax
  | cons n ns ih =>
    cases ax with
    | zero =>
      simp only [removeAt, List.getD_cons_zero, insertAt_zero, nestSum]
      exact nestSum_sumTo ns n (fun j t => g (j :: t))
    | succ ax =>
      simp only [removeAt, List.getD_cons_succ, nestSum, insertAt_cons_succ]
      apply sumTo_congr
      intro x _
      exact ih ax (by simpa using hax) (fun t => g (x :: t))

/-! ## materialised arrays -/

theorem force_shape {α} (a : NDA α) (d : α) : (a.force d).shape = a.shape := rfl

/-- materialising an array does not change its in-range entries -/
theorem force_get {α} (a : NDA α) (d : α) (i : List Nat) (h : inRange a.shape i = true) :
    (a.force d).get i = a.get i := by
  have hpos := inRange_pos a.shape i h
  have hlt := flatC_lt a.shape i h
  simp only [NDA.force, NDA.ofList, NDA.ofArray, NDA.toList, indicesC]
  simp [hlt, unflatC_flatC a.shape i h]

end DFV.C06
