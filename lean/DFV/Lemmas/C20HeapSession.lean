import DFV.Lemmas.C20HeapDefault
/-!
C20 helper lemmas, twelfth part: sessions of DIRECT method calls (`field.mpl.scalar(...)`, …,
`field.mpl(...)`) on one heap — every call answers like the value model on the initial heap and
leaves every buffer that existed before the session alone (induction over histories).
-/
namespace DFV.C20
open DFV

/-- input conditions of one direct call on the heap `h`: the plotted field is a well-formed field
object whose arrays live on `h` and hold numbers, it has at least one component and no more labels
than components; the filter / colour / lightness fields handed in live on `h`; a lightness field
holds numbers -/
def HReqOk (h : AHeap) (r : HReq) : Prop :=
  r.field.mesh.Inv ∧ r.field.On h ∧ (∀ i, (h.buf r.field.arr i).isSome) ∧ 1 ≤ r.field.nvdim ∧
  (∀ g, r.opts.filter = some g → g.On h) ∧ (∀ g, r.opts.aux = some g → g.On h) ∧
  (∀ vs, r.field.vdims = some vs → vs.length ≤ r.field.nvdim) ∧
  (r.kind = .lightness → ∀ g, r.opts.aux = some g → ∀ i, (h.buf g.arr i).isSome)

theorem HReqOk.frame {h h' : AHeap} {r : HReq} (ok : HReqOk h r) (fr : Frame h h') : HReqOk h' r := by
  obtain ⟨a, b, c, d, e, f, g, k⟩ := ok
  refine ⟨a, On.frame b fr, fun i => by rw [fr.2 _ b.1]; exact c i, d, fun x hx => On.frame (e x hx) fr,
    fun x hx => On.frame (f x hx) fr, g, fun hk x hx i => ?_⟩
  rw [fr.2 _ (f x hx).1]
  exact k hk x hx i

/-- the scalar plot on the heap refines the value model also for fields it refuses -/
theorem scalarH_refines_ge (h : AHeap) (f : HFld) (o : HOpts) (hinv : f.mesh.Inv) (hf : f.On h)
    (hnum : ∀ i, (h.buf f.arr i).isSome) (hg : ∀ g, o.filter = some g → g.On h) (hnv : 1 ≤ f.nvdim) :
    (scalarH h f o).2 = mplScalar (f.abs h) (o.abs h) := by
  by_cases h1 : f.nvdim = 1
  · exact scalarH_refines h f o hinv hf hnum hg h1
  · unfold scalarH mplScalar
    by_cases h2 : f.mesh.region.ndim ≠ 2
    · rw [if_pos h2, if_pos (show (f.abs h).mesh.region.ndim ≠ 2 from h2)]
    · rw [if_neg h2, if_neg (show ¬ (f.abs h).mesh.region.ndim ≠ 2 from h2),
        if_pos (by omega), if_pos (show (f.abs h).nvdim > 1 by show f.nvdim > 1; omega)]

theorem callH_frame (sqrtF : Rat → Rat) (h : AHeap) (r : HReq) : Frame h (callH sqrtF h r).1 := by
  unfold callH
  cases r.kind with
  | scalar => exact frame_scalarH h _ _
  | contour => exact frame_contourH h _ _
  | vector => exact frame_vectorH h _ _
  | lightness => exact frame_lightnessH sqrtF h _ _ _
  | default => exact frame_defaultH h _ _

/-- one direct call answers like the value model on the fields as they read on the heap -/
theorem callH_spec (sqrtF : Rat → Rat) (h : AHeap) (r : HReq) (ok : HReqOk h r) :
    (callH sqrtF h r).2 = specH sqrtF h r := by
  obtain ⟨hinv, hon, hnum, hnv, hflt, haux, hlab, hlight⟩ := ok
  unfold callH specH
  cases hk : r.kind with
  | scalar => exact scalarH_refines_ge h _ _ hinv hon hnum hflt hnv
  | contour => exact contourH_refines h _ _ hinv hon hnum hflt
  | vector => exact vectorH_refines h _ _ hinv hon hnum hflt haux hlab
  | lightness =>
    exact lightnessH_refines sqrtF h _ _ _ hinv hon hflt (fun g hg => ⟨haux g hg, hlight hk g hg⟩)
  | default => exact defaultH_refines h _ _ hinv hon hnum hflt haux hlab

/-- the specification of a call reads the same on every later heap -/
theorem specH_frame (sqrtF : Rat → Rat) (h h' : AHeap) (r : HReq) (ok : HReqOk h r) (fr : Frame h h') :
    specH sqrtF h' r = specH sqrtF h r := by
  obtain ⟨_, hon, _, _, hflt, haux, _, _⟩ := ok
  unfold specH
  rw [abs_frame h h' r.field fr hon, oabs_frame h h' r.opts fr hflt haux]

theorem runHeapSession_length (sqrtF : Rat → Rat) (h : AHeap) (rs : List HReq) :
    (runHeapSession sqrtF h rs).2.length = rs.length := by
  induction rs generalizing h with
  | nil => rfl
  | cons r rs ih => simp only [runHeapSession, List.length_cons, ih]

/-- **Sessions of direct calls, by induction over the history**: started on any heap `h` that
extends the initial heap `h0` without changing it, the session answers every request like the
value model on `h0` and ends on a heap that still extends `h0` unchanged. -/
theorem runHeapSession_spec (sqrtF : Rat → Rat) (h0 : AHeap) (rs : List HReq)
    (ok : ∀ r ∈ rs, HReqOk h0 r) (h : AHeap) (fr : Frame h0 h) :
    (runHeapSession sqrtF h rs).2 = rs.map (specH sqrtF h0) ∧ Frame h0 (runHeapSession sqrtF h rs).1 := by
  induction rs generalizing h with
  | nil => exact ⟨rfl, fr⟩
  | cons r rs ih =>
    have okr := ok r (List.mem_cons_self)
    have fr' : Frame h0 (callH sqrtF h r).1 := fr.trans (callH_frame sqrtF h r)
    obtain ⟨i1, i2⟩ := ih (fun r' hr' => ok r' (List.mem_cons_of_mem _ hr')) _ fr'
    refine ⟨?_, i2⟩
    simp only [runHeapSession, List.map_cons]
    rw [i1, callH_spec sqrtF h r (okr.frame fr), specH_frame sqrtF h0 h r okr fr]

/-! ## closed example used by `Props/C20.lean` for non-vacuity -/

/-- one heap with the arrays of the vector example (addresses 0, 1) and of the scalar example (2, 3) -/
def exHeap2 : AHeap := exHeapV ++ exHeap

/-- the scalar example field with its arrays at addresses 2, 3 -/
def exHS2 : HFld := { exHS with arr := 2, val := 3 }

/-- a history of five direct calls of all kinds that share the two fields -/
def exHReqs : List HReq :=
  [{ kind := .default, field := exHV, opts := { useColor := false } },
   { kind := .scalar, field := exHS2 },
   { kind := .vector, field := exHV, opts := { aux := some exHS2 } },
   { kind := .lightness, field := exHV, opts := { filter := some exHS2, aux := some exHS2 } },
   { kind := .contour, field := exHS2, opts := { filter := some exHS2 } }]

theorem exHReqs_ok : ∀ r ∈ exHReqs, HReqOk exHeap2 r := by
  intro r hr
  simp only [exHReqs, List.mem_cons, List.mem_nil_iff, or_false] at hr
  rcases hr with rfl | rfl | rfl | rfl | rfl <;>
    exact ⟨exMesh_inv, ⟨by decide, by decide⟩, fun _ => rfl, by decide,
      fun g hg => by cases hg <;> exact ⟨by decide, by decide⟩,
      fun g hg => by cases hg <;> exact ⟨by decide, by decide⟩,
      fun vs hvs => by cases hvs <;> decide,
      fun _ g hg i => by cases hg <;> rfl⟩

end DFV.C20
