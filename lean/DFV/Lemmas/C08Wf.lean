import DFV.Lemmas.C08Set
/-! C08 helper lemmas, part 5: acceptance.  A program is accepted exactly when it is well formed
(`wf`): the setter accepts exactly the arguments `MSpec.ok` describes. -/
namespace DFV.C08
open DFV

theorem setMask_ok_iff (n : List Nat) (s : MSpec) : (∃ m, setMask n s = .ok m) ↔ s.ok n = true := by
  cases s with
  | none => simp [setMask, MSpec.ok]
  | const v => simp [setMask, MSpec.ok]
  | cells g => simp [setMask, MSpec.ok]
  | norm sq => simp [setMask, MSpec.ok]
  | bad => simp [setMask, MSpec.ok]
  | lookup src inside cs xs =>
    simp only [setMask, MSpec.ok, Bool.and_eq_true, decide_eq_true_eq]
    cases inside with
    | false => simp
    | true =>
      by_cases hl : src.shape.length = n.length
      · simp [hl]
      · simp [hl]
  | arr a =>
    simp only [setMask, MSpec.ok, Bool.or_eq_true, Bool.and_eq_true, decide_eq_true_eq]
    by_cases h1 : a.shape = n
    · simp [h1]
    · rw [if_neg h1]
      by_cases h2 : a.shape.getLast? = some 1
      · rw [if_neg (by simp [h2])]
        by_cases h3 : bcastOk a.shape (n ++ [1]) = true
        · simp [h1, h2, h3]
        · simp [h1, h2, h3]
      · rw [if_pos h2]
        simp [h1, h2]

theorem eval_ok_iff (env : Nat → Mask) (p : Prog) : (∃ m, eval env p = .ok m) ↔ wf env p = true := by
  induction p with
  | leaf k => simp [eval, wf]
  | pos p ih => simpa [eval, wf] using ih
  | un p ih =>
    simp only [wf, ← ih, eval]
    constructor
    · rintro ⟨m, h⟩
      split at h
      · cases h
      · rename_i m0 hm0; exact ⟨m0, hm0⟩
    · rintro ⟨m0, hm0⟩
      exact ⟨own m0, by simp [hm0]⟩
  | binC p ih =>
    simp only [wf, ← ih, eval]
    constructor
    · rintro ⟨m, h⟩
      split at h
      · cases h
      · rename_i m0 hm0; exact ⟨m0, hm0⟩
    · rintro ⟨m0, hm0⟩
      exact ⟨own m0, by simp [hm0]⟩
  | hdf5 p ih =>
    simp only [wf, ← ih, eval]
    constructor
    · rintro ⟨m, h⟩
      split at h
      · cases h
      · rename_i m0 hm0; exact ⟨m0, hm0⟩
    · rintro ⟨m0, hm0⟩
      exact ⟨_, by simp only [hm0]; rfl⟩
  | binF p q ihp ihq =>
    simp only [wf, Bool.and_eq_true, decide_eq_true_eq, ← ihp, ← ihq, eval]
    constructor
    · rintro ⟨m, h⟩
      split at h
      · cases h
      · rename_i a ha
        split at h
        · cases h
        · rename_i b hb
          split at h
          · rename_i hab
            exact ⟨⟨⟨a, ha⟩, ⟨b, hb⟩⟩, by rw [← (eval_spec env p a ha).1, ← (eval_spec env q b hb).1]; exact hab⟩
          · cases h
    · rintro ⟨⟨⟨a, ha⟩, ⟨b, hb⟩⟩, hs⟩
      have hab : a.shape = b.shape := by rw [(eval_spec env p a ha).1, (eval_spec env q b hb).1]; exact hs
      exact ⟨_, by simp only [ha, hb, if_pos hab]; rfl⟩
  | map op p ih =>
    simp only [wf, Bool.and_eq_true, ← ih, eval]
    constructor
    · rintro ⟨m, h⟩
      split at h
      · cases h
      · rename_i m0 hm0
        split at h
        · rename_i hok
          exact ⟨⟨m0, hm0⟩, by rw [← (eval_spec env p m0 hm0).1]; exact hok⟩
        · cases h
    · rintro ⟨⟨m0, hm0⟩, hok⟩
      rw [← (eval_spec env p m0 hm0).1] at hok
      exact ⟨_, by simp only [hm0, if_pos hok]; rfl⟩
  | vtk p ih =>
    simp only [wf, Bool.and_eq_true, decide_eq_true_eq, ← ih, eval]
    constructor
    · rintro ⟨m, h⟩
      split at h
      · cases h
      · rename_i m0 hm0
        split at h
        · rename_i hok
          exact ⟨⟨m0, hm0⟩, by rw [← (eval_spec env p m0 hm0).1]; exact hok⟩
        · cases h
    · rintro ⟨⟨m0, hm0⟩, hok⟩
      rw [← (eval_spec env p m0 hm0).1] at hok
      exact ⟨_, by simp only [hm0, if_pos hok]; rfl⟩
  | setv s p ih =>
    simp only [wf, Bool.and_eq_true, ← ih, eval]
    constructor
    · rintro ⟨m, h⟩
      split at h
      · cases h
      · rename_i m0 hm0
        refine ⟨⟨m0, hm0⟩, ?_⟩
        rw [← (eval_spec env p m0 hm0).1]
        exact (setMask_ok_iff _ _).mp ⟨m, h⟩
    · rintro ⟨⟨m0, hm0⟩, hok⟩
      rw [← (eval_spec env p m0 hm0).1] at hok
      obtain ⟨m, hm⟩ := (setMask_ok_iff _ _).mpr hok
      exact ⟨m, by simp only [hm0, hm]⟩
  | fresh k p ih =>
    simp only [wf, Bool.and_eq_true, ← ih, eval]
    constructor
    · rintro ⟨m, h⟩
      split at h
      · cases h
      · rename_i m0 hm0
        split at h
        · rename_i hok
          exact ⟨⟨m0, hm0⟩, by rw [← (eval_spec env p m0 hm0).1]; exact hok⟩
        · cases h
    · rintro ⟨⟨m0, hm0⟩, hok⟩
      rw [← (eval_spec env p m0 hm0).1] at hok
      exact ⟨_, by simp only [hm0, if_pos hok, setMask]; rfl⟩

end DFV.C08
