import DFV.Lemmas.C09Examples
/-! Text representation lemmas (C09): rows of the csv writer and `read_csv`. -/
namespace DFV.C09
open DFV

theorem flatten_uniform_length {α} (L : List (List α)) (nv : Nat) (h : ∀ r ∈ L, r.length = nv) :
    L.flatten.length = L.length * nv := by
  induction L with
  | nil => simp
  | cons r rs ih =>
    simp only [List.flatten_cons, List.length_append, List.length_cons]
    rw [ih (fun x hx => h x (by simp [hx])), h r (by simp)]; ring

theorem flatten_uniform_getD {α} (L : List (List α)) (nv : Nat) (hnv : 0 < nv) (h : ∀ r ∈ L, r.length = nv)
    (p : Nat) (hp : p < L.length * nv) (d : α) :
    L.flatten.getD p d = (L.getD (p / nv) []).getD (p % nv) d := by
  induction L generalizing p with
  | nil => simp at hp
  | cons r rs ih =>
    have hr : r.length = nv := h r (by simp)
    by_cases hlt : p < nv
    · rw [Nat.div_eq_of_lt hlt, Nat.mod_eq_of_lt hlt]
      simp only [List.flatten_cons, List.getD_cons_zero]
      simp [List.getD_eq_getElem?_getD, List.getElem?_append_left (by omega : p < r.length)]
    · have hge : nv ≤ p := by omega
      have e1 : p / nv = (p - nv) / nv + 1 := by
        have : p = (p - nv) + nv := by omega
        conv => lhs; rw [this]
        exact Nat.add_div_right _ hnv
      have e2 : p % nv = (p - nv) % nv := by
        have : p = (p - nv) + nv := by omega
        conv => lhs; rw [this]
        exact Nat.add_mod_right _ _
      rw [e1, e2]
      simp only [List.flatten_cons, List.getD_cons_succ]
      have hp' : p - nv < rs.length * nv := by
        simp only [List.length_cons] at hp
        have : (rs.length + 1) * nv = rs.length * nv + nv := by ring
        omega
      rw [← ih (fun x hx => h x (by simp [hx])) (p - nv) hp']
      simp [List.getD_eq_getElem?_getD, List.getElem?_append_right (by omega : r.length ≤ p), hr]

/-- rows of `reshape((-1, nv))`, concatenated, are the flat payload again -/
theorem rows_flatten {α} (l : List α) (m nv : Nat) (hnv : 0 < nv) (hl : l.length = m * nv) (d : α) :
    (tab m fun r => tab nv fun k => l.getD (r * nv + k) d).flatten = l := by
  have hu : ∀ r ∈ (tab m fun r => tab nv fun k => l.getD (r * nv + k) d), r.length = nv := by
    intro r hr
    obtain ⟨a, _, rfl⟩ := mem_tab _ _ _ hr
    simp
  apply List.ext_getElem
  · rw [flatten_uniform_length _ nv hu]; simp [hl]
  · intro p h1 h2
    have hp : p < m * nv := by rw [← hl]; exact h2
    have := flatten_uniform_getD _ nv hnv hu p (by simpa using hp) d
    have hdiv : p / nv < m := by rw [Nat.div_lt_iff_lt_mul hnv]; exact hp
    rw [getD_tab _ _ _ _ hdiv, getD_tab _ _ _ _ (Nat.mod_lt _ hnv)] at this
    have e : p / nv * nv + p % nv = p := by rw [Nat.mul_comm]; exact Nat.div_add_mod p nv
    rw [e] at this
    have g1 : ∀ (x : List α) (q : Nat) (hq : q < x.length), x.getD q d = x[q] := by
      intro x q hq; simp [List.getD_eq_getElem?_getD, hq]
    rw [g1 _ _ h1, g1 _ _ h2] at this
    exact this

theorem padRow_full {α} (nan : α) (k : Nat) (r : List α) (h : r.length = k) : padRow nan k r = r := by
  unfold padRow; rw [h]; simp

/-- rows that all have `vd > 0` entries: nothing is refused, padded or dropped -/
theorem readText_uniform {α} (nan : α) (rows : List (List α)) (m vd : Nat) (hm : 0 < m) (hlen : rows.length = m)
    (hvd : 0 < vd) (hu : ∀ r ∈ rows, r.length = vd) : readText nan rows m vd = .ok rows.flatten := by
  unfold readText
  have ht : rows.take m = rows := List.take_of_length_le (by omega)
  rw [ht]
  cases rows with
  | nil => simp at hlen; omega
  | cons r rs =>
    have hr : r.length = vd := hu r (by simp)
    have h1 : (r :: rs).any (fun x => x.isEmpty) = false := by
      rw [List.any_eq_false]
      intro x hx
      have := hu x hx
      cases x with
      | nil => simp at this; omega
      | cons _ _ => simp
    have h2 : ((r :: rs).all fun x => decide (x.length ≤ ((r :: rs).headD []).length)) = true := by
      rw [List.all_eq_true]
      intro x hx
      simp [hu x hx, hr]
    have hne : ¬ (vd = vd + 1) := by omega
    rw [h1, h2]
    simp only [List.isEmpty_cons, Bool.false_eq_true, if_false, Bool.not_true, List.headD_cons, hr, hne]
    congr 1
    rw [List.flatten_eq_flatMap]
    apply List.flatMap_congr
    intro x hx
    exact padRow_full nan vd x (hu x hx)

theorem readText_rows {α} (nan : α) (l : List α) (m nv : Nat) (hm : 0 < m) (hnv : 0 < nv) (hl : l.length = m * nv) (d : α) :
    readText nan (tab m fun r => tab nv fun k => l.getD (r * nv + k) d) m nv = .ok l := by
  rw [readText_uniform nan _ m nv hm (by simp) hnv (by
    intro r hr
    obtain ⟨a, _, rfl⟩ := mem_tab _ _ _ hr
    simp), rows_flatten l m nv hnv hl d]

theorem parse_txt_ok {α} [DecidableEq α] (c : Codec α) (F : OvfFile α)
    (h : List (String × HVal)) (lo hi cell : Nat → Rat) (n : Nat → Nat) (mu : String)
    (H : HeaderOf h lo hi cell n mu)
    (hlt : ∀ a, a < 3 → lo a < hi a) (hn : ∀ a, a < 3 → 0 < n a)
    (hc : ∀ a, a < 3 → cell a = (hi a - lo a) / (n a : Rat))
    (ws : List String) (hws : isBinary ws = false) (hne : ws.isEmpty = false)
    (hscan : scan F.lines [] = some (h, ws))
    (vd : Nat) (hvdim : valueDim F.first h = .ok vd)
    (rows : List (List α)) (footer : List String) (hbody : F.body = .text rows footer)
    (flat : List α) (hrows : readText c.nan rows (natProd [n 0, n 1, n 2]) vd = .ok flat) :
    parse c F = .ok { mesh := meshOf lo hi n mu, vd := vd, flat := flat, header := h } := by
  unfold parse
  rw [hscan]
  simp only
  have e2 : (isBinary ws && (dataWidth ws).isNone) = false := by rw [hws]; rfl
  rw [hne, e2, hvdim, readMesh_ok h lo hi cell n mu H hlt hn hc, H.nodes]
  simp only [Bool.false_eq_true, if_false]
  unfold readBody
  rw [hbody]
  simp only [hws, Bool.false_eq_true, if_false]
  rw [hrows]

theorem toOvf_txt {α} (c : Codec α) (f : OField α) (V : Valid f) (labels : String)
    (hlab : valueLabels f false = .ok labels) :
    toOvfE c f "txt" false = .ok
      { first := "# OOMMF OVF 2.0", lines := headerLines f false labels ["Text"],
        body := .text (textRows c f false) (footerLines ["Text"]) } := by
  unfold toOvfE
  have h3 : ¬ (f.mesh.region.ndim ≠ 3) := by simp [Region.ndim, V.pmin3]
  have hu : allSame f.mesh.region.units = true := by
    rw [V.units]; simp [allSame]
  rw [if_neg h3, hlab]
  have hw : repWidth "txt" = 0 := by decide +kernel
  have hr : repWords "txt" = .ok ["Text"] := by decide +kernel
  simp only [hr, hw, hu, Bool.not_true, Bool.false_eq_true, if_false, if_true]


end DFV.C09
