import DFV.Lemmas.Transform
import DFV.Lemmas.C16Arr
/-! C16 helper lemmas, part 4: `_from_vtk` on the grid `to_vtk` builds — the name scan, the
reshape/transposes, the mesh rebuilt from bounds and dimensions, the side-car. -/
namespace DFV.C16
open DFV DFV.Mesh

/-! ## the loop over array names -/

theorem scan_append (l1 l2 : List VArr) (i : Nat) (s : Scan) :
    scan (l1 ++ l2) i s = scan l2 (i + l1.length) (scan l1 i s) := by
  induction l1 generalizing i s with
  | nil => simp [scan]
  | cons a as ih =>
    simp only [List.cons_append, scan, List.length_cons]
    split
    · rw [ih]; congr 1; omega
    · split
      · rw [ih]; congr 1; omega
      · split
        · rw [ih]; congr 1; omega
        · rw [ih]; congr 1; omega

theorem scan_plain (cs : List VArr) (i : Nat) (s : Scan)
    (h : ∀ b ∈ cs, b.name ≠ "norm" ∧ b.name ≠ "field" ∧ b.name ≠ "valid") :
    scan cs i s = { s with vdims := s.vdims ++ cs.map fun b => b.name } := by
  induction cs generalizing i s with
  | nil => simp [scan]
  | cons a as ih =>
    obtain ⟨h1, h2, h3⟩ := h a (by simp)
    simp only [scan, if_neg h2, if_neg h3, h1, ne_eq, not_false_eq_true, if_true]
    rw [ih _ _ fun b hb => h b (by simp [hb])]
    simp

theorem scan_toVtk (f : Fld) (nx ny nz : Nat) (h : WF f nx ny nz) :
    scan (normVArr f :: (comps f ++ [fieldVArr f, validVArr f])) 0 ⟨none, none, []⟩ =
      ⟨some (1 + (comps f).length), some (2 + (comps f).length), (comps f).map fun b => b.name⟩ := by
  have e : normVArr f :: (comps f ++ [fieldVArr f, validVArr f]) =
      [normVArr f] ++ (comps f ++ [fieldVArr f, validVArr f]) := rfl
  rw [e, scan_append, scan_append, scan_plain (comps f) _ _ (comps_names f nx ny nz h)]
  simp [scan, normVArr, fieldVArr, validVArr]
  omega

theorem getD_field (f : Fld) :
    (normVArr f :: (comps f ++ [fieldVArr f, validVArr f])).getD (1 + (comps f).length) default = fieldVArr f := by
  rw [Nat.add_comm, List.getD_cons_succ, List.getD_eq_getElem?_getD, List.getElem?_append_right (by omega)]
  simp

theorem getD_valid (f : Fld) :
    (normVArr f :: (comps f ++ [fieldVArr f, validVArr f])).getD (2 + (comps f).length) default = validVArr f := by
  have : 2 + (comps f).length = ((comps f).length + 1) + 1 := by omega
  rw [this, List.getD_cons_succ, List.getD_eq_getElem?_getD, List.getElem?_append_right (by omega)]
  simp

theorem comps_names_eq (f : Fld) (hnv : 1 < f.nvdim) (vs : List String) (hvs : f.vdims = some vs) :
    (comps f).map (fun b => b.name) = vs := by
  unfold comps
  simp only [hnv, if_true, hvs, Option.getD_some, List.map_map]
  have : ((fun b : VArr => b.name) ∘ compVArr f vs) = id := by
    funext l; rfl
  rw [this]; simp

theorem comps_scalar (f : Fld) (hnv : ¬ 1 < f.nvdim) : comps f = [] := by
  unfold comps; simp [hnv]

/-! ## reshape + transpose of the reader -/

theorem unflat4_get (nx ny nz nv : Nat) (vals : List Rat) (arr : NDA Rat)
    (h : unflat4 [nx, ny, nz] nv vals = .ok arr) (i j k c : Nat) :
    arr.get [i, j, k, c] = vals.getD (flatF [nx, ny, nz] [i, j, k] * nv + c) 0 := by
  unfold unflat4 at h
  split at h
  · cases h
  · injection h with h
    subst h
    rw [transpose_get4 _ (by simp [NDA.ofList, NDA.ofArray]), ofList_get]
    have := flatC_reverse_comp [nx, ny, nz] [i, j, k] nv c rfl
    simp only [List.reverse_cons, List.reverse_nil, List.nil_append, List.cons_append] at this
    simp only [List.reverse_cons, List.reverse_nil, List.nil_append, List.cons_append]
    rw [this]

theorem unflat3_get (nx ny nz : Nat) (vals : List Rat) (arr : NDA Rat)
    (h : unflat3 [nx, ny, nz] vals = .ok arr) (i j k : Nat) :
    arr.get [i, j, k] = vals.getD (flatF [nx, ny, nz] [i, j, k]) 0 := by
  unfold unflat3 at h
  split at h
  · cases h
  · injection h with h
    subst h
    rw [transpose_get3 _ (by simp [NDA.ofList, NDA.ofArray]), ofList_get]
    have := flatC_reverse [nx, ny, nz] [i, j, k] rfl
    simp only [List.reverse_cons, List.reverse_nil, List.nil_append, List.cons_append] at this
    simp only [List.reverse_cons, List.reverse_nil, List.nil_append, List.cons_append]
    rw [this]

theorem unflat4_ok (nx ny nz nv : Nat) (vals : List Rat) (h : vals.length = natProd [nx, ny, nz] * nv) :
    ∃ arr, unflat4 [nx, ny, nz] nv vals = .ok arr := by
  unfold unflat4
  rw [if_neg (not_not.mpr h)]
  exact ⟨_, rfl⟩

theorem unflat3_ok (nx ny nz : Nat) (vals : List Rat) (h : vals.length = natProd [nx, ny, nz]) :
    ∃ arr, unflat3 [nx, ny, nz] vals = .ok arr := by
  unfold unflat3
  rw [if_neg (not_not.mpr h)]
  exact ⟨_, rfl⟩

/-! ## the mesh from bounds and dimensions -/

theorem mk?_plain (p1 p2 : List Rat) (h1 : p1.length = 3) (h2 : p2.length = 3)
    (hlt : ∀ a, a < 3 → p1.getD a 0 < p2.getD a 0) :
    Region.mk? p1 p2 none none = .ok (plainRegion p1 p2) := by
  have hall : allLt p1.length (fun a => decide (p1.getD a 0 ≠ p2.getD a 0)) = true := by
    rw [allLt_iff]; intro a ha
    have := hlt a (by omega)
    simp only [ne_eq, decide_eq_true_eq]
    exact ne_of_lt this
  unfold Region.mk?
  rw [if_neg (by omega), if_neg (by omega)]
  simp only [Region.dimsOk, Region.unitsOk, hall]
  simp only [Bool.not_true, Bool.false_eq_true, if_false, plainRegion, h1]
  congr 1
  have e1 : (tab 3 fun a => min (p1.getD a 0) (p2.getD a 0)) = p1 := by
    symm; apply eq_tab_of_getD p1 3 _ 0 h1
    intro a ha; exact (min_eq_left (le_of_lt (hlt a ha))).symm
  have e2 : (tab 3 fun a => max (p1.getD a 0) (p2.getD a 0)) = p2 := by
    symm; apply eq_tab_of_getD p2 3 _ 0 h2
    intro a ha; exact (max_eq_right (le_of_lt (hlt a ha))).symm
  rw [e1, e2]
  rfl

theorem toLower_empty : "".toLower = "" := by simp [String.toLower]

theorem mesh_axes (f : Fld) (nx ny nz : Nat) (h : WF f nx ny nz) :
    f.mesh.ndim = 3 ∧ f.mesh.region.pmin.length = 3 ∧ f.mesh.region.pmax.length = 3 ∧
    (∀ a, a < 3 → 0 < f.mesh.nAt a ∧ f.mesh.region.lo a < f.mesh.region.hi a) ∧
    f.mesh.nAt 0 = nx ∧ f.mesh.nAt 1 = ny ∧ f.mesh.nAt 2 = nz := by
  obtain ⟨hr, hn, hpos⟩ := h.mesh
  have hnd : f.mesh.ndim = 3 := by
    rw [h.n] at hn
    have : f.mesh.region.ndim = 3 := by simpa using hn.symm
    exact this
  have hnd' : f.mesh.region.pmin.length = 3 := hnd
  refine ⟨hnd, hnd', by rw [hr.2.1]; exact hnd', ?_, by simp [nAt, h.n], by simp [nAt, h.n], by simp [nAt, h.n]⟩
  intro a ha
  exact ⟨hpos a (by omega), hr.2.2.2.2.2 a (by omega)⟩

/-- bounds and dimensions of the grid of a well-formed field give back corners and counts -/
theorem meshOf_toVtk (f : Fld) (nx ny nz : Nat) (h : WF f nx ny nz) (g : Grid) (hg : toVtk f = .ok g) :
    g.n = [nx, ny, nz] ∧
    meshOf g.p1 g.p2 g.n =
      .ok { region := plainRegion f.mesh.region.pmin f.mesh.region.pmax, n := [nx, ny, nz], bc := "", subs := [] } := by
  obtain ⟨hnd, hl1, hl2, hax, hn0, hn1, hn2⟩ := mesh_axes f nx ny nz h
  rw [toVtk_ok f nx ny nz h] at hg
  injection hg with hg
  subst hg
  have hn : Grid.n { dims := [nx + 1, ny + 1, nz + 1], coords := tab 3 fun a => f.mesh.vertices.getD a [],
                     cell := normVArr f :: (comps f ++ [fieldVArr f, validVArr f]) } = [nx, ny, nz] := by
    simp [Grid.n]
  refine ⟨hn, ?_⟩
  rw [hn]
  have hax' : ∀ a, a < 3 →
      (Grid.ax { dims := [nx + 1, ny + 1, nz + 1], coords := tab 3 fun a => f.mesh.vertices.getD a [],
                 cell := normVArr f :: (comps f ++ [fieldVArr f, validVArr f]) } a) = f.mesh.vertices.getD a [] := by
    intro a ha
    simp only [Grid.ax]
    rw [getD_tab _ _ _ _ ha]
  have hp1 : Grid.p1 { dims := [nx + 1, ny + 1, nz + 1], coords := tab 3 fun a => f.mesh.vertices.getD a [],
                       cell := normVArr f :: (comps f ++ [fieldVArr f, validVArr f]) } = f.mesh.region.pmin := by
    symm
    apply eq_tab_of_getD _ 3 _ 0 hl1
    intro a ha
    rw [hax' a ha, C01.vertices_eq_faces f.mesh a (by omega) (hax a ha).1 0 (by omega)]
    simp [Region.lo]
  have hp2 : Grid.p2 { dims := [nx + 1, ny + 1, nz + 1], coords := tab 3 fun a => f.mesh.vertices.getD a [],
                       cell := normVArr f :: (comps f ++ [fieldVArr f, validVArr f]) } = f.mesh.region.pmax := by
    symm
    apply eq_tab_of_getD _ 3 _ 0 hl2
    intro a ha
    rw [hax' a ha, vertices_length f.mesh a (by omega)]
    have : f.mesh.nAt a + 1 - 1 = f.mesh.nAt a := by omega
    rw [this, C01.vertices_eq_faces f.mesh a (by omega) (hax a ha).1 _ (le_refl _)]
    have hcov := C01.cells_cover_edges f.mesh a (hax a ha).1
    unfold Region.edge at hcov
    have : f.mesh.region.hi a = f.mesh.region.pmax.getD a 0 := rfl
    rw [← this]; linarith
  rw [hp1, hp2]
  unfold meshOf
  rw [mk?_plain _ _ hl1 hl2 (fun a ha => (hax a ha).2)]
  simp only
  unfold Mesh.mkN?
  have hnd3 : (plainRegion f.mesh.region.pmin f.mesh.region.pmax).ndim = 3 := hl1
  rw [if_neg (by simp [hnd3])]
  have hz : ([nx, ny, nz].any fun x => decide (x = 0)) = false := by
    have := (hax 0 (by omega)).1; have := (hax 1 (by omega)).1; have := (hax 2 (by omega)).1
    simp only [List.any_cons, List.any_nil, Bool.or_false, Bool.or_eq_false_iff, decide_eq_false_iff_not]
    omega
  rw [hz]
  simp [toLower_empty, bcOk]

/-! ## the side-car -/

theorem mapE_ok {α β : Type} (f : α → M β) (g : α → β) (l : List α) (h : ∀ x ∈ l, f x = .ok (g x)) :
    mapE f l = .ok (l.map g) := by
  induction l with
  | nil => rfl
  | cons x xs ih =>
    simp only [mapE, h x (by simp), ih fun y hy => h y (by simp [hy])]
    rfl

/-- `Region(**val)` returns a stored, well-formed region unchanged -/
theorem regionKw_inv (s : Region) (hs : s.Inv) : regionKw s = .ok s := by
  obtain ⟨h0, h1, h2, h3, h4, h5⟩ := hs
  unfold regionKw
  rw [if_neg (by omega)]
  have hall : allLt s.pmin.length (fun a => decide (s.pmin.getD a 0 < s.pmax.getD a 0)) = true := by
    rw [allLt_iff]; intro a ha
    have := h5 a ha
    simp only [decide_eq_true_eq]
    exact this
  simp only [hall, Bool.not_true, Bool.false_eq_true, if_false]
  rw [T.mk?_ok_of s.pmin s.pmax s.dims s.units s.tol h1.symm (by omega) h2 h4 h3
    (fun a ha => ne_of_lt (h5 a ha))]
  congr 1
  unfold T.normalised
  have e1 : (tab s.pmin.length fun a => min (s.pmin.getD a 0) (s.pmax.getD a 0)) = s.pmin := by
    symm; apply eq_tab_of_getD s.pmin _ _ 0 rfl
    intro a ha; exact (min_eq_left (le_of_lt (h5 a ha))).symm
  have e2 : (tab s.pmin.length fun a => max (s.pmin.getD a 0) (s.pmax.getD a 0)) = s.pmax := by
    symm; apply eq_tab_of_getD s.pmax _ _ 0 h1
    intro a ha; exact (max_eq_right (le_of_lt (h5 a ha))).symm
  rw [e1, e2]

/-- what the subregion setter stores for an accepted candidate -/
def rebuilt (m : Mesh) (p : String × Region) : String × Region :=
  (p.1, { pmin := p.2.pmin, pmax := p.2.pmax, dims := m.region.dims, units := m.region.units, tol := m.region.tol })

theorem loadSubs_ok (m : Mesh) (l : List (String × Region)) (hinv : ∀ p ∈ l, p.2.Inv)
    (hok : ∀ p ∈ l, T.candOk m p.2 = true) :
    loadSubs m (some l) = .ok { m with subs := l.map (rebuilt m) } := by
  unfold loadSubs
  simp only
  rw [mapE_ok _ id l (by
    intro p hp
    rw [regionKw_inv p.2 (hinv p hp)]
    rfl)]
  simp only [List.map_id]
  unfold T.setSubs
  have : (l.all fun p => T.candOk m p.2) = true := by
    rw [List.all_eq_true]; exact hok
  rw [if_pos this]
  rfl

end DFV.C16
