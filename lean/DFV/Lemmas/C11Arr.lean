import DFV.Lemmas.C11Shift
/-!
C11: array-level statements about the four transforms — inverse ∘ forward = id, the real
transform is the matching half of the full one, Hermitian symmetry of the transform of
conj-fixed data and the real round trip.
-/
namespace DFV.C11
open DFV

variable {R : Type} [CommRing R]

/-! ### array-level statements about the four transforms -/

theorem fftnArr_get (ρs : List (Root R)) (nv : Nat) (a : NDA (List R)) (m : List Nat) (c : Nat) (hc : c < nv) :
    compA (fftnArr ρs nv a) c m = dftN ρs a.shape (compA a c) (fshift a.shape m) := by
  simp only [compA, fftnArr]; exact getD_tab _ _ _ _ hc

theorem rfftnArr_get (ρs : List (Root R)) (nv : Nat) (a : NDA (List R)) (m : List Nat) (c : Nat) (hc : c < nv) :
    compA (rfftnArr ρs nv a) c m = dftN ρs a.shape (compA a c) (fshiftR a.shape m) := by
  simp only [compA, rfftnArr]; exact getD_tab _ _ _ _ hc

theorem ifftnArr_get (ρs : List (Root R)) (nv : Nat) (a : NDA (List R)) (j : List Nat) (c : Nat) (hc : c < nv) :
    compA (ifftnArr ρs nv a) c j = idftN ρs a.shape (fun m => compA a c (ishift a.shape m)) j := by
  simp only [compA, ifftnArr]; exact getD_tab _ _ _ _ hc

theorem irfftnArr_get (conj : R → R) (ρs : List (Root R)) (nv : Nat) (s : List Nat) (a : NDA (List R))
    (j : List Nat) (c : Nat) (hc : c < nv) :
    compA (irfftnArr conj ρs nv s a) c j
      = idftN ρs s (hermExt conj s fun m => compA a c (ishiftR a.shape m)) j := by
  simp only [compA, irfftnArr]; exact getD_tab _ _ _ _ hc

/-- `ifftn(ifftshift(fftshift(fftn(a)))) = a` on every cell and component -/
theorem ifftn_fftn_arr (ρs : List (Root R)) (nv : Nat) (a : NDA (List R)) (hρ : Roots a.shape ρs)
    (j : List Nat) (hj : inRange a.shape j = true) (c : Nat) (hc : c < nv) :
    compA (ifftnArr ρs nv (fftnArr ρs nv a)) c j = compA a c j := by
  rw [ifftnArr_get _ _ _ _ _ hc]
  have hs : (fftnArr ρs nv a).shape = a.shape := rfl
  rw [hs, idftN_congr ρs a.shape _ (dftN ρs a.shape (compA a c)) j
    (fun m hm => by rw [fftnArr_get _ _ _ _ _ hc, fshift_ishift a.shape m hm])]
  exact idftN_dftN ρs a.shape hρ _ j hj

/-! ### the real transform is the matching half of the full one -/

/-- index of the cell of the full (shifted) transform that holds DFT frequency `j ≥ 0` of the
last axis: `(j + ⌊n/2⌋) mod n` there, other entries unchanged -/
def lastShift (ns m : List Nat) : List Nat :=
  tab m.length fun a => if a + 1 = m.length then (m.getD a 0 + ns.getD a 0 / 2) % ns.getD a 0 else m.getD a 0

theorem fshift_length (ns m : List Nat) (h : m.length = ns.length) : (fshift ns m).length = ns.length := by
  induction ns generalizing m with
  | nil => cases m <;> simp [fshift]
  | cons n ns ih =>
    cases m with
    | nil => simp at h
    | cons j js => simp only [fshift, List.length_cons]; rw [ih js (by simpa using h)]

theorem fshift_getD (ns m : List Nat) (h : m.length = ns.length) (a : Nat) (ha : a < ns.length) :
    (fshift ns m).getD a 0 = (m.getD a 0 + (ns.getD a 0 - ns.getD a 0 / 2)) % ns.getD a 0 := by
  induction ns generalizing m a with
  | nil => simp at ha
  | cons n ns ih =>
    cases m with
    | nil => simp at h
    | cons j js =>
      cases a with
      | zero => simp [fshift]
      | succ a =>
        simp only [fshift, List.getD_cons_succ]
        exact ih js (by simpa using h) a (by simpa using ha)

theorem halfShape_length (ns : List Nat) : (halfShape ns).length = ns.length := by simp [halfShape]

theorem halfShape_getD (ns : List Nat) (a : Nat) (ha : a < ns.length) :
    (halfShape ns).getD a 0 = if a + 1 = ns.length then ns.getD a 0 / 2 + 1 else ns.getD a 0 := by
  unfold halfShape; rw [getD_tab _ _ _ _ ha]

theorem pos_getD (ns : List Nat) (hpos : ∀ n ∈ ns, 0 < n) (a : Nat) (ha : a < ns.length) : 0 < ns.getD a 0 := by
  apply hpos
  rw [List.getD_eq_getElem?_getD, List.getElem?_eq_getElem ha]
  simp

theorem fshift_lastShift (ns m : List Nat) (hpos : ∀ n ∈ ns, 0 < n) (h : inRange (halfShape ns) m = true) :
    fshift ns (lastShift ns m) = fshiftR ns m := by
  have hlen : m.length = ns.length := by rw [inRange_length _ _ h, halfShape_length]
  have hl2 : (lastShift ns m).length = ns.length := by simp [lastShift, hlen]
  unfold fshiftR
  apply eq_tab_of_getD _ _ _ 0 (by rw [fshift_length ns _ hl2, hlen])
  intro a ha
  rw [hlen] at ha
  rw [fshift_getD ns _ hl2 a ha]
  have hla : (lastShift ns m).getD a 0
      = if a + 1 = m.length then (m.getD a 0 + ns.getD a 0 / 2) % ns.getD a 0 else m.getD a 0 := by
    unfold lastShift; rw [getD_tab _ _ _ _ (by omega)]
  rw [hla]
  by_cases hlast : a + 1 = m.length
  · rw [if_pos hlast, if_pos hlast]
    have hb := inRange_getD _ _ h a (by rw [halfShape_length]; exact ha)
    rw [halfShape_getD ns a ha, if_pos (by omega)] at hb
    have hn := pos_getD ns hpos a ha
    exact shift1_inv _ _ (by omega)
  · rw [if_neg hlast, if_neg hlast]

/-- index of the zero-frequency cell of the real transform: `⌊n/2⌋` on the shifted axes, 0 on
the last -/
def zeroIdxR (ns : List Nat) : List Nat :=
  tab ns.length fun b => if b + 1 = ns.length then 0 else ns.getD b 0 / 2

theorem fshiftR_zeroIdxR (ns : List Nat) (hpos : ∀ n ∈ ns, 0 < n) (b : Nat) :
    (fshiftR ns (zeroIdxR ns)).getD b 0 = 0 := by
  have hl : (zeroIdxR ns).length = ns.length := by simp [zeroIdxR]
  unfold fshiftR
  rw [hl]
  by_cases hb : b < ns.length
  · rw [getD_tab _ _ _ _ hb]
    have hz : (zeroIdxR ns).getD b 0 = if b + 1 = ns.length then 0 else ns.getD b 0 / 2 := by
      unfold zeroIdxR; rw [getD_tab _ _ _ _ hb]
    rw [hz]
    by_cases hlast : b + 1 = ns.length
    · rw [if_pos hlast, if_pos hlast]
    · rw [if_neg hlast, if_neg hlast]
      have hn := pos_getD ns hpos b hb
      have : ns.getD b 0 / 2 + (ns.getD b 0 - ns.getD b 0 / 2) = ns.getD b 0 := by omega
      rw [this, Nat.mod_self]
  · exact getD_tab_ge _ _ _ _ (by omega)

/-- `rfftn` holds, cell by cell, what `fftn` holds in the cell of the same DFT frequency -/
theorem rfftn_half_arr (ρs : List (Root R)) (nv : Nat) (a : NDA (List R)) (hpos : ∀ n ∈ a.shape, 0 < n)
    (m : List Nat) (hm : inRange (halfShape a.shape) m = true) (c : Nat) (hc : c < nv) :
    compA (rfftnArr ρs nv a) c m = compA (fftnArr ρs nv a) c (lastShift a.shape m) := by
  rw [rfftnArr_get _ _ _ _ _ hc, fftnArr_get _ _ _ _ _ hc, fshift_lastShift a.shape m hpos hm]

/-! ### Hermitian symmetry and the real round trip -/

/-- `conj` is a ring endomorphism (complex conjugation in ℂ) -/
structure IsConj (conj : R → R) : Prop where
  map_zero : conj 0 = 0
  map_one : conj 1 = 1
  map_add : ∀ x y, conj (x + y) = conj x + conj y
  map_mul : ∀ x y, conj (x * y) = conj x * conj y

/-- `conj` inverts the root of every axis -/
def ConjRoots (conj : R → R) : List Nat → List (Root R) → Prop
  | [], _ => True
  | _ :: ns, ρs => conj (ρs.headD ⟨1, 1, 1⟩).w = (ρs.headD ⟨1, 1, 1⟩).wi ∧ ConjRoots conj ns ρs.tail

theorem IsConj.map_sumN {conj : R → R} (h : IsConj conj) (n : Nat) (f : Nat → R) :
    conj (sumN n f) = sumN n (fun i => conj (f i)) := by
  induction n with
  | zero => simp [sumN, h.map_zero]
  | succ n ih => simp only [sumN, h.map_add, ih]

theorem IsConj.map_pow {conj : R → R} (h : IsConj conj) (x : R) (k : Nat) : conj (x ^ k) = conj x ^ k := by
  induction k with
  | zero => simp [h.map_one]
  | succ k ih => rw [pow_succ, h.map_mul, ih, pow_succ]

theorem tw_neg {n : Nat} {ρ : Root R} (h : IsRoot n ρ) (k r : Nat) (hk : k < n) :
    ρ.wi ^ (((n - k % n) % n) * r) = ρ.w ^ (k * r) := by
  rw [Nat.mod_eq_of_lt hk]
  by_cases h0 : k = 0
  · subst h0; simp
  · rw [Nat.mod_eq_of_lt (by omega)]
    have h1 : ρ.w ^ ((n - k) * r) * ρ.wi ^ ((n - k) * r) = 1 := by rw [← mul_pow, h.inv, one_pow]
    have h2 : ρ.w ^ (k * r) * ρ.w ^ ((n - k) * r) = 1 := by
      rw [← pow_add]
      have : k * r + (n - k) * r = n * r := by
        have : k + (n - k) = n := by omega
        rw [← Nat.add_mul, this]
      rw [this, pow_mul, h.pow_n, one_pow]
    calc ρ.wi ^ ((n - k) * r) = (ρ.w ^ (k * r) * ρ.w ^ ((n - k) * r)) * ρ.wi ^ ((n - k) * r) := by rw [h2, one_mul]
      _ = ρ.w ^ (k * r) * (ρ.w ^ ((n - k) * r) * ρ.wi ^ ((n - k) * r)) := by ring
      _ = ρ.w ^ (k * r) := by rw [h1, mul_one]

/-- Hermitian symmetry of the transform of conj-fixed ("real") data -/
theorem conj_dftN_neg (conj : R → R) (hc : IsConj conj) (ρs : List (Root R)) (ns : List Nat)
    (hρ : Roots ns ρs) (hcr : ConjRoots conj ns ρs) (f : List Nat → R) (hf : ∀ i, conj (f i) = f i)
    (k : List Nat) (hk : inRange ns k = true) :
    conj (dftN ρs ns f (negIdx ns k)) = dftN ρs ns f k := by
  induction ns generalizing ρs f k with
  | nil => simp only [dftN_nil]; exact hf []
  | cons n ns ih =>
    cases k with
    | nil => simp [inRange] at hk
    | cons k0 ks =>
      rw [inRange_cons] at hk
      obtain ⟨hr, hrs⟩ := hρ
      obtain ⟨hc0, hcs⟩ := hcr
      simp only [negIdx, dftN_cons, List.headD_cons, List.tail_cons]
      rw [hc.map_sumN]
      apply sumN_congr
      intro r _
      rw [hc.map_mul, ih ρs.tail hrs hcs (fun rs => f (r :: rs)) (fun rs => hf _) ks hk.2]
      congr 1
      rw [tw_eq _ _ _ _ hr.pow_n, tw_eq _ _ _ _ hr.pow_n, hc.map_pow, hc0]
      exact tw_neg hr k0 r hk.1

theorem negIdx_inRange (ns k : List Nat) (hk : inRange ns k = true) : inRange ns (negIdx ns k) = true := by
  induction ns generalizing k with
  | nil => cases k <;> simp_all [inRange, negIdx]
  | cons n ns ih =>
    cases k with
    | nil => simp [inRange] at hk
    | cons k0 ks =>
      rw [inRange_cons] at hk
      simp only [negIdx, inRange_cons]
      exact ⟨Nat.mod_lt _ (by omega), ih ks hk.2⟩

theorem fshiftR_ishiftR (ns m : List Nat) (h : inRange ns m = true) :
    fshiftR ns (ishiftR (halfShape ns) m) = m := by
  have hlen : m.length = ns.length := inRange_length _ _ h
  have hl2 : (ishiftR (halfShape ns) m).length = m.length := by simp [ishiftR]
  unfold fshiftR
  rw [hl2]
  symm
  apply eq_tab_of_getD m _ _ 0 rfl
  intro a ha
  have hy : (ishiftR (halfShape ns) m).getD a 0
      = if a + 1 = m.length then m.getD a 0
        else (m.getD a 0 + (halfShape ns).getD a 0 / 2) % (halfShape ns).getD a 0 := by
    unfold ishiftR; rw [getD_tab _ _ _ _ ha]
  rw [hy]
  by_cases hlast : a + 1 = m.length
  · rw [if_pos hlast, if_pos hlast]
  · rw [if_neg hlast, if_neg hlast, halfShape_getD ns a (by omega), if_neg (by omega)]
    exact (shift1_inv _ _ (inRange_getD _ _ h a (by omega))).symm

/-- the half spectrum of conj-fixed data, extended by Hermitian symmetry, is the full spectrum -/
theorem hermExt_rdft (conj : R → R) (hc : IsConj conj) (ρs : List (Root R)) (ns : List Nat)
    (hρ : Roots ns ρs) (hcr : ConjRoots conj ns ρs) (f : List Nat → R) (hf : ∀ i, conj (f i) = f i)
    (G : List Nat → R) (hG : ∀ m, inRange ns m = true → G m = dftN ρs ns f m)
    (k : List Nat) (hk : inRange ns k = true) :
    hermExt conj ns G k = dftN ρs ns f k := by
  unfold hermExt
  split
  · exact hG k hk
  · rw [hG _ (negIdx_inRange ns k hk)]
    exact conj_dftN_neg conj hc ρs ns hρ hcr f hf k hk

/-- `irfftn(ifftshift(fftshift(rfftn(a)), …), s = shape of a) = a` for conj-fixed data -/
theorem irfftn_rfftn_arr (conj : R → R) (hc : IsConj conj) (ρs : List (Root R)) (nv : Nat) (a : NDA (List R))
    (hρ : Roots a.shape ρs) (hcr : ConjRoots conj a.shape ρs)
    (hreal : ∀ i c, conj (compA a c i) = compA a c i)
    (j : List Nat) (hj : inRange a.shape j = true) (c : Nat) (hcv : c < nv) :
    compA (irfftnArr conj ρs nv a.shape (rfftnArr ρs nv a)) c j = compA a c j := by
  rw [irfftnArr_get _ _ _ _ _ _ _ hcv]
  have hs : (rfftnArr ρs nv a).shape = halfShape a.shape := rfl
  rw [hs, idftN_congr ρs a.shape _ (dftN ρs a.shape (compA a c)) j
    (fun k hk => hermExt_rdft conj hc ρs a.shape hρ hcr (compA a c) (fun i => hreal i c) _
      (fun m hm => by rw [rfftnArr_get _ _ _ _ _ hcv, fshiftR_ishiftR a.shape m hm]) k hk)]
  exact idftN_dftN ρs a.shape hρ _ j hj

end DFV.C11
