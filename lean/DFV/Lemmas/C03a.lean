import Mathlib.Tactic.Ring
import Mathlib.Tactic.Linarith
import DFV.Model.C03
import DFV.Lemmas.Tab
import DFV.Lemmas.Index
/-! C03 helper lemmas, part a: materialised arrays, in-range indices, NumPy broadcasting. -/
namespace DFV.C03
open DFV

/-! ## `NDA.force` is the identity on in-range indices -/

theorem force_shape {α} (a : NDA α) (d : α) : (a.force d).shape = a.shape := rfl

theorem force_get {α} (a : NDA α) (d : α) (idx : List Nat) (h : inRange a.shape idx = true) :
    (a.force d).get idx = a.get idx := by
  have hlt := flatC_lt a.shape idx h
  have hpos := inRange_pos a.shape idx h
  show (NDA.ofList a.shape a.toList d).get idx = a.get idx
  unfold NDA.ofList NDA.ofArray NDA.toList indicesC
  simp only
  rw [Array.getD_eq_getD_getElem?]
  simp only [List.getElem?_toArray, List.getElem?_map]
  rw [List.getElem?_range hlt]
  simp [unflatC_flatC a.shape idx h]

/-! ## in-range indices of `n ++ [k]` -/

theorem inRange_append_single (n i : List Nat) (k c : Nat) :
    inRange (n ++ [k]) (i ++ [c]) = true ↔ inRange n i = true ∧ c < k := by
  induction n generalizing i with
  | nil =>
    cases i with
    | nil => simp [inRange]
    | cons j js =>
      cases js <;> simp [inRange]
  | cons m ms ih =>
    cases i with
    | nil =>
      cases ms <;> simp [inRange]
    | cons j js =>
      simp only [List.cons_append, inRange_cons, ih js]
      constructor
      · rintro ⟨a, b, c⟩; exact ⟨⟨a, b⟩, c⟩
      · rintro ⟨⟨a, b⟩, c⟩; exact ⟨a, b, c⟩

/-- pairwise `i_a < n_a` on lists of equal length (the form that survives `reverse`) -/
def Below : List Nat → List Nat → Prop
  | [], [] => True
  | i :: is, n :: ns => i < n ∧ Below is ns
  | _, _ => False

theorem below_of_inRange (n i : List Nat) (h : inRange n i = true) : Below i n := by
  induction n generalizing i with
  | nil => cases i <;> simp_all [inRange, Below]
  | cons m ms ih =>
    cases i with
    | nil => simp [inRange] at h
    | cons j js =>
      rw [inRange_cons] at h
      exact ⟨h.1, ih js h.2⟩

theorem below_length (i n : List Nat) (h : Below i n) : i.length = n.length := by
  induction i generalizing n with
  | nil => cases n <;> simp_all [Below]
  | cons j js ih =>
    cases n with
    | nil => simp [Below] at h
    | cons m ms => simp [ih ms h.2]

theorem below_append (i n : List Nat) (c k : Nat) (h : Below i n) (hc : c < k) : Below (i ++ [c]) (n ++ [k]) := by
  induction i generalizing n with
  | nil => cases n <;> simp_all [Below]
  | cons j js ih =>
    cases n with
    | nil => simp [Below] at h
    | cons m ms => exact ⟨h.1, ih ms h.2⟩

theorem below_reverse (i n : List Nat) (h : Below i n) : Below i.reverse n.reverse := by
  induction i generalizing n with
  | nil => cases n <;> simp_all [Below]
  | cons j js ih =>
    cases n with
    | nil => simp [Below] at h
    | cons m ms =>
      simp only [List.reverse_cons]
      exact below_append _ _ _ _ (ih ms h.2) h.1

/-! ## broadcasting -/

theorem bdim_self (x : Nat) : bdim x x = some x := by simp [bdim]

theorem bshapeRev_self (r : List Nat) : bshapeRev r r = some r := by
  induction r with
  | nil => rfl
  | cons x xs ih => simp [bshapeRev, bdim_self, ih]

theorem bshapeRev_nil_right (r : List Nat) : bshapeRev r [] = some r := by
  cases r <;> rfl

/-- the broadcast shape is as long as the longer operand -/
theorem bshapeRev_length (s t r : List Nat) (h : bshapeRev s t = some r) :
    r.length = max s.length t.length := by
  induction s generalizing t r with
  | nil => simp [bshapeRev] at h; subst h; simp
  | cons x xs ih =>
    cases t with
    | nil => simp [bshapeRev] at h; subst h; simp
    | cons y ys =>
      simp only [bshapeRev] at h
      cases hd : bdim x y with
      | none => simp [hd] at h
      | some d =>
        cases hr : bshapeRev xs ys with
        | none => simp [hd, hr] at h
        | some r' =>
          simp [hd, hr] at h
          subst h
          have := ih ys r' hr
          simp [this]

/-- projecting an in-range index onto an operand of the same shape changes nothing -/
theorem bprojRev_below (s idx : List Nat) (h : Below idx s) : bprojRev s idx = idx := by
  induction s generalizing idx with
  | nil => cases idx <;> simp_all [Below, bprojRev]
  | cons x xs ih =>
    cases idx with
    | nil => simp [Below] at h
    | cons j js =>
      simp only [bprojRev]
      rw [ih js h.2]
      by_cases hx : x = 1
      · have : j = 0 := by have := h.1; omega
        simp [hx, this]
      · simp [hx]

theorem bproj_inRange (s idx : List Nat) (h : inRange s idx = true) : bproj s idx = idx := by
  unfold bproj
  rw [bprojRev_below _ _ (below_reverse _ _ (below_of_inRange _ _ h))]
  simp

/-- `t` broadcasts into `s`: wherever `s` has length 1 so has `t`, and `t` is not longer -/
def Into : List Nat → List Nat → Prop
  | [], _ => True
  | _ :: _, [] => False
  | t :: ts, s :: ss => (s = 1 → t = 1) ∧ Into ts ss

theorem into_of_bshapeRev_left (s t r : List Nat) (h : bshapeRev s t = some r) : Into s r := by
  induction s generalizing t r with
  | nil => simp [Into]
  | cons x xs ih =>
    cases t with
    | nil =>
      simp [bshapeRev] at h; subst h
      refine ⟨fun h => h, ?_⟩
      exact ih [] xs (bshapeRev_nil_right xs)
    | cons y ys =>
      simp only [bshapeRev] at h
      cases hd : bdim x y with
      | none => simp [hd] at h
      | some d =>
        cases hr : bshapeRev xs ys with
        | none => simp [hd, hr] at h
        | some r' =>
          simp [hd, hr] at h
          subst h
          refine ⟨?_, ih ys r' hr⟩
          intro hd1
          unfold bdim at hd
          split at hd
          · simp at hd; omega
          · split at hd
            · assumption
            · split at hd
              · simp at hd; omega
              · simp at hd

theorem bshapeRev_comm (s t : List Nat) : bshapeRev s t = bshapeRev t s := by
  induction s generalizing t with
  | nil => cases t <;> simp [bshapeRev]
  | cons x xs ih =>
    cases t with
    | nil => simp [bshapeRev]
    | cons y ys =>
      simp only [bshapeRev]
      rw [ih ys]
      have : bdim x y = bdim y x := by
        unfold bdim
        by_cases h1 : x = y
        · subst h1; simp
        · have h2 : ¬ y = x := fun h => h1 h.symm
          simp only [h1, h2, if_false]
          by_cases hx : x = 1 <;> by_cases hy : y = 1 <;> simp [hx, hy]
      rw [this]

theorem into_of_bshapeRev_right (s t r : List Nat) (h : bshapeRev s t = some r) : Into t r := by
  rw [bshapeRev_comm] at h
  exact into_of_bshapeRev_left t s r h

/-- projecting twice = projecting once -/
theorem bprojRev_bprojRev (t s idx : List Nat) (h : Into t s) (hl : s.length ≤ idx.length) :
    bprojRev t (bprojRev s idx) = bprojRev t idx := by
  induction t generalizing s idx with
  | nil => simp [bprojRev]
  | cons x xs ih =>
    cases s with
    | nil => simp [Into] at h
    | cons y ys =>
      cases idx with
      | nil => simp at hl
      | cons j js =>
        simp only [bprojRev]
        rw [ih ys js h.2 (by simpa using hl)]
        by_cases hy : y = 1
        · simp [h.1 hy]
        · simp [hy]

theorem bprojRev_length (s idx : List Nat) (hl : s.length ≤ idx.length) : (bprojRev s idx).length = s.length := by
  induction s generalizing idx with
  | nil => simp [bprojRev]
  | cons x xs ih =>
    cases idx with
    | nil => simp at hl
    | cons j js => simp [bprojRev, ih js (by simpa using hl)]

end DFV.C03
