import DFV.Lemmas.C18Algebra
import DFV.Lemmas.C18Accept
import DFV.Lemmas.C12Obj
/-! FieldRotator's quarter turns against C12's model of `Field.rotate90` (`T.rotate90F`):
same region corners, same cell counts, same cell values. -/
namespace DFV.C18
open DFV DFV.Mesh

/-- C12's corner map is the matrix action: `rotCoord P ref = ref + Rq (P − ref)` -/
theorem rotCoord_eq_apply (P ref : List Rat) (p q : Nat) (k : Int) (hp : p < 3) (hq : q < 3) (hpq : p ≠ q)
    (a : Nat) (ha : a < 3) :
    T.rotCoord P ref p q k a = ref.getD a 0 + ((Rq p q k).apply ((V3.ofList P).sub (V3.ofList ref))).get a := by
  unfold T.rotCoord Rq
  rw [Rcs_apply_get p q _ _ hp hq hpq _ a ha, V3.get_sub, V3.get_sub, V3.get_sub, V3.get_ofList _ _ hp, V3.get_ofList _ _ hq,
      V3.get_ofList _ _ ha, V3.get_ofList _ _ hp, V3.get_ofList _ _ hq, V3.get_ofList _ _ ha]
  by_cases e1 : a = p
  · rw [if_pos e1, if_pos e1, e1]
  · rw [if_neg e1, if_neg e1]
    by_cases e2 : a = q
    · rw [if_pos e2, if_pos e2, e2]
    · rw [if_neg e2, if_neg e2]; ring

theorem min_pm (c e s : Rat) (he : 0 < e) (hs : s = 1 ∨ s = -1) :
    min (c + s * (-(e / 2))) (c + s * (e / 2)) = c - e / 2 ∧ max (c + s * (-(e / 2))) (c + s * (e / 2)) = c + e / 2 := by
  rcases hs with h | h <;> subst h
  · constructor
    · rw [min_eq_left (by linarith)]; ring
    · rw [max_eq_right (by linarith)]; ring
  · constructor
    · rw [min_eq_right (by linarith)]; ring
    · rw [max_eq_left (by linarith)]; ring

/-- **the bounding box of a quarter-turned region is C12's rotated region** (the corners
`Region.rotate90` computes about the centre), for every plane and every `k` -/
theorem quarter_region_c12 (f : Fld) (hm : Mesh3 f.mesh) (hnd : f.mesh.region.ndim = 3) (p q : Nat) (k : Int)
    (hp : p < 3) (hq : q < 3) (hpq : p ≠ q) (reg : Region) (h : newRegion f (Rq p q k) = .ok reg) (a : Nat) (ha : a < 3) :
    reg.lo a = min (T.rotCoord f.mesh.region.pmin f.mesh.region.center p q k a) (T.rotCoord f.mesh.region.pmax f.mesh.region.center p q k a) ∧
    reg.hi a = max (T.rotCoord f.mesh.region.pmin f.mesh.region.center p q k a) (T.rotCoord f.mesh.region.pmax f.mesh.region.center p q k a) := by
  have hL := Rq_isLat p q k hp hq hpq
  obtain ⟨l0, l1⟩ := lat_region f hm hL reg h a ha
  have hj := pinv_lt (piq p q k) a
  have hc : ∀ j, j < 3 → f.mesh.region.center.getD j 0 = centreAt f.mesh j := by
    intro j hj; unfold Region.center; rw [hnd, getD_tab _ _ _ _ hj]; rfl
  rw [rotCoord_eq_apply _ _ p q k hp hq hpq a ha, rotCoord_eq_apply _ _ p q k hp hq hpq a ha,
      hL.apply_get _ a ha, hL.apply_get _ a ha, V3.get_sub, V3.get_sub, V3.get_ofList _ _ hj, V3.get_ofList _ _ hj,
      V3.get_ofList _ _ hj, hc _ hj, hc a ha, l0, l1]
  have e1 : f.mesh.region.pmin.getD (pinv (piq p q k) a) 0 - centreAt f.mesh (pinv (piq p q k) a)
      = -(f.mesh.region.edge (pinv (piq p q k) a) / 2) := by
    show f.mesh.region.lo _ - _ = _
    unfold centreAt Region.edge; ring
  have e2 : f.mesh.region.pmax.getD (pinv (piq p q k) a) 0 - centreAt f.mesh (pinv (piq p q k) a)
      = f.mesh.region.edge (pinv (piq p q k) a) / 2 := by
    show f.mesh.region.hi _ - _ = _
    unfold centreAt Region.edge; ring
  rw [e1, e2]
  obtain ⟨m1, m2⟩ := min_pm (centreAt f.mesh a) (f.mesh.region.edge (pinv (piq p q k) a)) (sgq p q k (pinv (piq p q k) a))
    (edge_pos _ _ (hm _ hj)) (hL.sign _ hj)
  exact ⟨m1.symm, m2.symm⟩

theorem dim2index_getD (r : Region) (d : String) (i : Nat) (h : r.dim2index d = .ok i) : r.dims.getD i "" = d := by
  unfold Region.dim2index at h
  cases hi : indexOf? r.dims d with
  | none => rw [hi] at h; cases h
  | some j =>
    rw [hi] at h
    injection h with h
    subst h
    exact indexOf?_getD _ _ _ hi

/-- the component position C12 reads for the axis named `dims[a]` is the one FieldRotator's
`ordered_idx` holds at position `a` (one-to-one mapping) -/
theorem ord_is_c12_component (f : Fld) (ord : List Nat) (ho : ordFor f = .ok ord) (h1 : f.nvdim ≠ 1)
    (hval : ∀ x ∈ f.vmap, ∀ y ∈ f.vmap, x.2 = y.2 → x = y) (a : Nat) (ha : a < 3) (d : String)
    (hd : f.mesh.region.dims.getD a "" = d) : (f.rDim d).bind f.vdimIndex = some (ord.getD a 0) := by
  have := ordFor_getD f ord ho h1 a ha
  unfold ordAt at this
  rw [hd, rDimLast_eq_rDim f hval] at this
  exact this

theorem dims3_distinct (d : List String) (hl : d.length = 3) (hd : hasDup d = false) (a b : Nat) (ha : a < 3) (hb : b < 3)
    (hab : a ≠ b) : d.getD a "" ≠ d.getD b "" := by
  match d, hl with
  | [x, y, z], _ =>
    simp only [hasDup, List.contains_cons, List.contains_nil, Bool.or_false, Bool.or_eq_false_iff, beq_eq_false_iff_ne, ne_eq] at hd
    obtain ⟨⟨h1, h2⟩, h3⟩ := hd
    have ca : a = 0 ∨ a = 1 ∨ a = 2 := by omega
    have cb : b = 0 ∨ b = 1 ∨ b = 2 := by omega
    rcases ca with e1 | e1 | e1 <;> rcases cb with e2 | e2 | e2 <;> subst e1 <;> subst e2 <;>
      first
        | (exfalso; exact hab rfl)
        | (simp only [List.getD_cons_zero, List.getD_cons_succ]; intro e; first | exact h1 e | exact h2 e | exact h3 e | exact h1 e.symm | exact h2 e.symm | exact h3 e.symm)

theorem mem_getD_pos (n : List Nat) (h : ∀ a, a < n.length → 0 < n.getD a 0) : ∀ k ∈ n, k ≠ 0 := by
  intro k hk
  obtain ⟨i, hi, rfl⟩ := List.getElem_of_mem hk
  have := h i hi
  simp only [List.getD_eq_getElem?_getD, List.getElem?_eq_getElem hi, Option.getD_some] at this
  omega

/-- **FieldRotator's quarter turn is C12's `Field.rotate90`.** Whenever C12's model of
`Field.rotate90(ax1, ax2, k)` (about the centre, copying form) accepts a field that FieldRotator
can rotate (complete one-to-one mapping), `rotate` with the quarter-turn matrix `Rq p q k` —
with the turned cell counts or with the automatic ones — is accepted and yields the same region
corners, the same cell counts and the same value in every cell, for every plane, every integer
`k` and any cell sizes. -/
theorem quarter_matches_rotate90F (f : Fld) (hf : WF f) (hF : T.FldInv f) (hnd : f.mesh.region.ndim = 3)
    (hlen : ∀ idx, (f.data.get idx).length = f.nvdim) (ord : List Nat) (ho : ordFor f = .ok ord)
    (hkey : ∀ x ∈ f.vmap, ∀ y ∈ f.vmap, x.1 = y.1 → x = y) (hval : ∀ x ∈ f.vmap, ∀ y ∈ f.vmap, x.2 = y.2 → x = y)
    (a1 a2 : String) (k : Int) (x g' : Fld) (h' : T.rotate90F f a1 a2 k none false = .ok (x, g')) :
    ∃ p q g, p < 3 ∧ q < 3 ∧ p ≠ q ∧ f.mesh.region.dim2index a1 = .ok p ∧ f.mesh.region.dim2index a2 = .ok q ∧
      rotateOnce f (Rq p q k) (some g'.mesh.n) = .ok g ∧ rotateOnce f (Rq p q k) none = .ok g ∧
      (∀ a, a < 3 → g.mesh.region.lo a = g'.mesh.region.lo a ∧ g.mesh.region.hi a = g'.mesh.region.hi a) ∧
      g.mesh.n = g'.mesh.n ∧
      ∀ i0 i1 i2, i0 < g'.mesh.nAt 0 → i1 < g'.mesh.nAt 1 → i2 < g'.mesh.nAt 2 →
        g.data.get [i0, i1, i2] = g'.data.get [i0, i1, i2] := by
  obtain ⟨y, m', p, q, hm', d1, d2, e1, _, _, _, _, _, e7, _⟩ := T.rotate90F_inv f a1 a2 k none false x g' h'
  have hn3 : f.mesh.n.length = 3 := by rw [hF.1.2.1]; exact hnd
  obtain ⟨p', q', d1', d2', hpq, lp, lq, _⟩ := T.stepM_rot_axes f.mesh hF.1 a1 a2 k none false y m' hm'
  rw [d1] at d1'; rw [d2] at d2'
  injection d1' with d1'; injection d2' with d2'
  subst d1' d2'
  have hp : p < 3 := by omega
  have hq : q < 3 := by omega
  obtain ⟨_, hmi, hn', xr, hxr⟩ := T.stepM_keeps f.mesh hF.1 _ _ _ hm'
  simp only [T.stepR] at hxr
  obtain ⟨_, _, p', q', d1', d2', _, _, _, _, hreg', _⟩ := T.rotate90R_inv _ _ _ _ _ _ _ _ hxr
  rw [d1] at d1'; rw [d2] at d2'
  injection d1' with d1'; injection d2' with d2'
  subst d1' d2'
  simp only [T.opN, d1, d2] at hn'
  simp only [Option.getD_none] at hreg'
  have hR := Rq_isRot p q k hp hq hpq
  have hL := Rq_isLat p q k hp hq hpq
  have hreg := newRegion_accepts f hf.1 hR
  -- cell counts
  have hnt : T.rotN f.mesh.n p q k = tab 3 fun i => f.mesh.nAt (pinv (piq p q k) i) :=
    rotN_eq_tab f.mesh.n hn3 p q k hp hq hpq
  have hgn : g'.mesh.n = T.rotN f.mesh.n p q k := by rw [e1, hn']
  have hl3 : g'.mesh.n.length = 3 := by rw [hgn, hnt]; simp
  have hpos : ∀ k' ∈ g'.mesh.n, k' ≠ 0 := by
    apply mem_getD_pos
    intro a ha
    rw [e1] at ha ⊢
    exact hmi.2.2 a (by unfold Mesh.ndim; rw [← hmi.2.1]; exact ha)
  have hmk := mkN_accepts (boxRegion f (Rq p q k)) (boxRegion_ndim _ _) g'.mesh.n hl3 hpos
  have hauto : autoN f (Rq p q k) (boxRegion f (Rq p q k)) = g'.mesh.n := by
    rw [lat_autoN f hf.1 hL _ hreg, hgn, hnt]
  have hro : rotateOnce f (Rq p q k) (some g'.mesh.n)
      = .ok (rotated f (Rq p q k) ord ⟨boxRegion f (Rq p q k), g'.mesh.n, "", []⟩) := by
    unfold rotateOnce
    rw [hreg]
    simp only [Option.getD_some]
    rw [hmk, ho]
  have hro' : rotateOnce f (Rq p q k) none
      = .ok (rotated f (Rq p q k) ord ⟨boxRegion f (Rq p q k), g'.mesh.n, "", []⟩) := by
    unfold rotateOnce
    rw [hreg]
    simp only [Option.getD_none]
    rw [hauto, hmk, ho]
  refine ⟨p, q, _, hp, hq, hpq, d1, d2, hro, hro', ?_, rfl, ?_⟩
  · intro a ha
    obtain ⟨r1, r2⟩ := quarter_region_c12 f hf.1 hnd p q k hp hq hpq _ hreg a ha
    have : g'.mesh.region = m'.region := by rw [e1]
    rw [this, hreg', T.target_lo _ _ _ _ a (by rw [hnd]; exact ha), T.target_hi _ _ _ _ a (by rw [hnd]; exact ha)]
    exact ⟨r1, r2⟩
  · intro i0 i1 i2 h0 h1 h2
    obtain ⟨ord', ho', hv⟩ := lat_values f hf hlen hL g'.mesh.n (by rw [hgn, hnt]) _ hro
    rw [ho] at ho'
    injection ho' with ho'
    subst ho'
    have hidx : ∀ i, i < 3 → [i0, i1, i2].getD i 0 < g'.mesh.n.getD i 0 := by
      intro i hi
      have : i = 0 ∨ i = 1 ∨ i = 2 := by omega
      rcases this with e | e | e <;> subst e <;> assumption
    rw [hv _ hidx]
    have hsrc := latSrc_eq_srcIdx f.mesh.n hn3 p q k hp hq hpq [i0, i1, i2] rfl
    have hsrc' : [latSrc f.mesh.nAt (piq p q k) (sgq p q k) [i0, i1, i2] 0, latSrc f.mesh.nAt (piq p q k) (sgq p q k) [i0, i1, i2] 1,
        latSrc f.mesh.nAt (piq p q k) (sgq p q k) [i0, i1, i2] 2] = T.srcIdx f.mesh.n p q k [i0, i1, i2] := hsrc
    rw [hsrc']
    rcases e7 with ⟨hle, hd⟩ | ⟨hgt, c1, c2, hc1, hc2, hd⟩
    · have h1 : f.nvdim = 1 := by rcases hf.2 with h | ⟨h, _⟩ <;> omega
      rw [hd, T.rot90_get, hF.2.1]
      unfold rotVal
      rw [if_pos h1]
    · have h3 : f.nvdim = 3 := by rcases hf.2 with h | ⟨h, _⟩ <;> omega
      have hl : (f.vdims.getD []).length = 3 := by rcases hf.2 with h | ⟨_, h⟩ <;> [omega; exact h]
      have hperm := ordFor_perm f ord ho h3 hl
        (dims3_distinct _ (by rw [hF.1.1.2.2.1]; exact hnd) hF.1.1.2.2.2.2.1) hkey
      have hc1' := ord_is_c12_component f ord ho (by omega) hval p hp a1 (dim2index_getD _ _ _ d1)
      have hc2' := ord_is_c12_component f ord ho (by omega) hval q hq a2 (dim2index_getD _ _ _ d2)
      rw [hc1] at hc1'; rw [hc2] at hc2'
      injection hc1' with hc1'; injection hc2' with hc2'
      rw [hd]
      simp only [NDA.map]
      rw [T.rot90_get, hF.2.1, h3, rotVal_Rq p q k hp hq hpq hperm _ (by rw [hlen, h3]), hc1', hc2']

end DFV.C18
