import DFV.Lemmas.C15RoundCell
/-!
Rounded arithmetic for C15, part 3: the kernel with a *rounded* root.  `SqrtOk sq u` says
that `sq` returns a non-negative number whose square is within `2u + 3u²` of the radicand
(relative error `u` of the root, stated without the root).  Everything is rational — no
exact root of the radicand is needed — so it applies to the executable `sqrt64`/`fl64` the
driver runs.
-/
namespace DFV.C15
set_option linter.unusedSectionVars false
variable {K : Type} [Field K] [LinearOrder K] [IsStrictOrderedRing K]

/-- contract of a rounded square root -/
def SqrtOk (sq : K → K) (u : K) : Prop :=
  (∀ x, 0 < x → 0 ≤ sq x ∧ |sq x * sq x - x| ≤ (2 * u + 3 * (u * u)) * x) ∧ ∀ x, x ≤ 0 → sq x = 0

theorem chain_up {X Y Z a b c : K} (h1 : X ≤ a * Y) (h2 : Y ≤ b * Z) (ha : 0 ≤ a) (hZ : 0 ≤ Z)
    (hab : a * b ≤ c) : X ≤ c * Z :=
  calc X ≤ a * Y := h1
    _ ≤ a * (b * Z) := mul_le_mul_of_nonneg_left h2 ha
    _ = a * b * Z := by ring
    _ ≤ c * Z := mul_le_mul_of_nonneg_right hab hZ

theorem chain_lo {X Y Z a b c : K} (h1 : a * Y ≤ X) (h2 : b * Z ≤ Y) (ha : 0 ≤ a) (hZ : 0 ≤ Z)
    (hab : c ≤ a * b) : c * Z ≤ X :=
  calc c * Z ≤ a * b * Z := mul_le_mul_of_nonneg_right hab hZ
    _ = a * (b * Z) := by ring
    _ ≤ a * Y := mul_le_mul_of_nonneg_left h2 ha
    _ ≤ X := h1

theorem poly_u {u : K} (hu0 : 0 ≤ u) (hu : u ≤ 1 / 1024) :
    (1 + 205 / 100 * u) * (1 + 51 / 10 * u) ≤ 1 + 72 / 10 * u ∧
    1 - 72 / 10 * u ≤ (1 - 205 / 100 * u) * (1 - 51 / 10 * u) ∧
    (1 + 21 / 10 * u) * (1 + 72 / 10 * u) ≤ 1 + 10 * u ∧
    1 - 10 * u ≤ (1 - 2 * u) * (1 - 72 / 10 * u) ∧
    (1 + u) * (1 + u) ≤ 1 + 21 / 10 * u ∧ 1 - 2 * u ≤ (1 - u) * (1 - u) := by
  have huu : u * u ≤ u / 1024 := by nlinarith
  have huu0 : 0 ≤ u * u := mul_nonneg hu0 hu0
  refine ⟨?_, ?_, ?_, ?_, ?_, ?_⟩ <;> nlinarith

/-- pure algebra of the norm chain: radicand within `51/10·u`, root's square within
`2u + 3u²`, one more rounding within `u` ⇒ the square of the result within `10u` -/
theorem norm_sq_chain {u S S' r n : K} (hu0 : 0 ≤ u) (hu : u ≤ 1 / 1024) (hS : 0 ≤ S)
    (h1 : |S' - S| ≤ 51 / 10 * u * S) (hr0 : 0 ≤ r)
    (h2 : |r * r - S'| ≤ (2 * u + 3 * (u * u)) * S') (hn0 : 0 ≤ n) (h3 : |n - r| ≤ u * r) :
    |n * n - S| ≤ 10 * u * S := by
  obtain ⟨p1, p2, p3, p4, p5, p6⟩ := poly_u hu0 hu
  have hb := abs_le.mp h1
  have hrb := abs_le.mp h2
  have hfl := abs_le.mp h3
  have huu : u * u ≤ u / 1024 := by nlinarith
  have hS'0 : 0 ≤ S' := by
    have : (1 - 51 / 10 * u) * S ≤ S' := by linarith
    exact le_trans (mul_nonneg (by linarith) hS) this
  have hc : 2 * u + 3 * (u * u) ≤ 205 / 100 * u := by linarith
  have hcS := mul_le_mul_of_nonneg_right hc hS'0
  have hr2u : r * r ≤ (1 + 205 / 100 * u) * S' := by linarith
  have hr2l : (1 - 205 / 100 * u) * S' ≤ r * r := by linarith
  have hS'u : S' ≤ (1 + 51 / 10 * u) * S := by linarith
  have hS'l : (1 - 51 / 10 * u) * S ≤ S' := by linarith
  have hr2u' : r * r ≤ (1 + 72 / 10 * u) * S := chain_up hr2u hS'u (by linarith) hS p1
  have hr2l' : (1 - 72 / 10 * u) * S ≤ r * r := chain_lo hr2l hS'l (by linarith) hS p2
  have hrr0 := mul_self_nonneg r
  have hnu : n * n ≤ (1 + 21 / 10 * u) * (r * r) := by
    have k1 : n ≤ (1 + u) * r := by linarith
    have k2 : n * n ≤ ((1 + u) * r) * ((1 + u) * r) :=
      mul_le_mul k1 k1 hn0 (mul_nonneg (by linarith) hr0)
    have k3 : ((1 + u) * r) * ((1 + u) * r) = (1 + u) * (1 + u) * (r * r) := by ring
    have k4 := mul_le_mul_of_nonneg_right p5 hrr0
    linarith
  have hnl : (1 - 2 * u) * (r * r) ≤ n * n := by
    have k1 : (1 - u) * r ≤ n := by linarith
    have k0 : 0 ≤ (1 - u) * r := mul_nonneg (by linarith) hr0
    have k2 : ((1 - u) * r) * ((1 - u) * r) ≤ n * n := mul_le_mul k1 k1 k0 hn0
    have k3 : ((1 - u) * r) * ((1 - u) * r) = (1 - u) * (1 - u) * (r * r) := by ring
    have k4 := mul_le_mul_of_nonneg_right p6 hrr0
    linarith
  rw [abs_le]
  constructor
  · have := chain_lo hnl hr2l' (by linarith) hS p4
    linarith
  · have := chain_up hnu hr2u' (by linarith) hS p3
    linarith

/-- the computed norm with a rounded root: non-negative, its square within `10u` of the sum of
squares, zero exactly on the zero vector -/
theorem flNormCell_exec {fl sq : K → K} {u : K} (h : FlOk fl u) (hq : SqrtOk sq u) (hu : u ≤ 1 / 1024)
    (v : List K) (hlen : v.length ≤ 4) :
    0 ≤ flNormCell fl sq v ∧
    |flNormCell fl sq v * flNormCell fl sq v - sqLen v| ≤ 10 * u * sqLen v ∧
    (flNormCell fl sq v = 0 ↔ sqLen v = 0) := by
  have hu0 := h.1
  have hγ := gam_le_of_len hu0 hu hlen
  have herr := flSqLen_err h v
  have hS := sqLen_nonneg v
  have herr' : |flSqLen fl v - sqLen v| ≤ 51 / 10 * u * sqLen v :=
    le_trans herr (mul_le_mul_of_nonneg_right hγ hS)
  unfold flNormCell
  rcases eq_or_lt_of_le hS with hz | hpos
  · have hS'z : flSqLen fl v = 0 := by
      rw [← hz, mul_zero, sub_zero] at herr
      exact abs_eq_zero.mp (le_antisymm herr (abs_nonneg _))
    rw [hS'z, hq.2 0 le_rfl, h.zero, ← hz]
    simp
  · have hb := abs_le.mp herr'
    have hS'pos : 0 < flSqLen fl v := by
      have h1 : (1 - 51 / 10 * u) * sqLen v ≤ flSqLen fl v := by linarith
      exact lt_of_lt_of_le (mul_pos (by linarith) hpos) h1
    obtain ⟨hr0, hrr⟩ := hq.1 _ hS'pos
    have hn0 : 0 ≤ fl (sq (flSqLen fl v)) := h.nonneg (by linarith) hr0
    have hfl := h.2 (sq (flSqLen fl v))
    rw [abs_of_nonneg hr0] at hfl
    refine ⟨hn0, norm_sq_chain hu0 hu hS herr' hr0 hrr hn0 hfl, ?_⟩
    constructor
    · intro e
      exfalso
      rw [h.eq_zero_iff (by linarith)] at e
      rw [e, mul_zero, zero_sub, abs_neg, abs_of_pos hS'pos] at hrr
      have huu : u * u ≤ u / 1024 := by nlinarith
      have : (2 * u + 3 * (u * u)) * flSqLen fl v < 1 * flSqLen fl v :=
        mul_lt_mul_of_pos_right (by linarith) hS'pos
      linarith
    · intro e; exact absurd e hpos.ne'

/-- with a norm whose square is within `10u` of `S`: `|S/n² − 1| ≤ 41/4·u` -/
theorem ratio_err {u S n : K} (hu0 : 0 ≤ u) (hu : u ≤ 1 / 1024) (_hS : 0 < S) (hn : 0 < n)
    (h : |n * n - S| ≤ 10 * u * S) : |S / (n * n) - 1| ≤ 41 / 4 * u := by
  have hnn : 0 < n * n := mul_pos hn hn
  have hb := abs_le.mp h
  rw [abs_le]
  constructor
  · rw [le_sub_iff_add_le, le_div_iff₀ hnn]
    nlinarith
  · rw [sub_le_iff_le_add, div_le_iff₀ hnn]
    have : (1 - 10 * u) * S ≤ n * n := by linarith
    have : 1 ≤ (41 / 4 * u + 1) * (1 - 10 * u) := by nlinarith
    nlinarith

/-- two roundings on top of an exact quotient and product: within `17/8·u` -/
theorem quot_mul_exec {fl : K → K} {u : K} (h : FlOk fl u) (hu : u ≤ 1 / 1024) (n x t : K) :
    |fl (x / n) - x / n| ≤ u * |x / n| ∧
    |fl (fl (x / n) * t) - t / n * x| ≤ 17 / 8 * u * |t / n * x| := by
  have hu0 := h.1
  refine ⟨h.2 _, ?_⟩
  have e2 : t / n * x = x / n * t := by ring
  rw [e2]
  have h2 : |fl (x / n) * t - x / n * t| ≤ u * |x / n * t| := by
    have : fl (x / n) * t - x / n * t = (fl (x / n) - x / n) * t := by ring
    rw [this, abs_mul, abs_mul, ← mul_assoc]
    exact mul_le_mul_of_nonneg_right (h.2 _) (abs_nonneg t)
  have c2 := h.compose hu0 h2
  have : (1 + u) * (1 + u) - 1 ≤ 17 / 8 * u := by nlinarith
  have := mul_le_mul_of_nonneg_right this (abs_nonneg (x / n * t))
  linarith

end DFV.C15
