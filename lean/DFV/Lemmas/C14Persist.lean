import DFV.Lemmas.C14Sel
/-! C14: the JSON side-car of subregions — decode ∘ encode, load ∘ save. -/
namespace DFV.C14
open DFV DFV.T DFV.Mesh

theorem lookup5 (v1 v2 v3 v4 v5 : JV) :
    lookupJV [("pmin", v1), ("pmax", v2), ("dims", v3), ("units", v4), ("tolerance_factor", v5)] "pmin" = some v1 ∧
    lookupJV [("pmin", v1), ("pmax", v2), ("dims", v3), ("units", v4), ("tolerance_factor", v5)] "pmax" = some v2 ∧
    lookupJV [("pmin", v1), ("pmax", v2), ("dims", v3), ("units", v4), ("tolerance_factor", v5)] "dims" = some v3 ∧
    lookupJV [("pmin", v1), ("pmax", v2), ("dims", v3), ("units", v4), ("tolerance_factor", v5)] "units" = some v4 ∧
    lookupJV [("pmin", v1), ("pmax", v2), ("dims", v3), ("units", v4), ("tolerance_factor", v5)] "tolerance_factor" = some v5 := by
  refine ⟨?_, ?_, ?_, ?_, ?_⟩ <;> simp [lookupJV, List.find?]

theorem mapM_numOf (l : List Rat) : (l.map JV.num).mapM numOf = (.ok l : M _) := by
  induction l with
  | nil => rfl
  | cons x xs ih =>
    rw [List.map_cons, List.mapM_cons, ih]; rfl

theorem mapM_strOf (l : List String) : (l.map JV.str).mapM strOf = (.ok l : M _) := by
  induction l with
  | nil => rfl
  | cons x xs ih =>
    rw [List.map_cons, List.mapM_cons, ih]; rfl

/-- a proper region is its own normalisation -/
theorem normalised_self (r : Region) (hr : r.Inv) : normalised r.pmin r.pmax r.dims r.units r.tol = r := by
  obtain ⟨r0, r1, r2, r3, r4, r5⟩ := hr
  unfold normalised
  have e1 : (tab r.pmin.length fun a => min (r.pmin.getD a 0) (r.pmax.getD a 0)) = r.pmin := by
    symm; apply eq_tab_of_getD _ _ _ 0 rfl
    intro a ha; exact (min_eq_left (r5 a ha).le).symm
  have e2 : (tab r.pmin.length fun a => max (r.pmin.getD a 0) (r.pmax.getD a 0)) = r.pmax := by
    symm; apply eq_tab_of_getD _ _ _ 0 r1
    intro a ha; exact (max_eq_right (r5 a ha).le).symm
  rw [e1, e2]

/-- **decode ∘ encode = id on proper regions** -/
theorem regionOfJV_toJV (r : Region) (hr : r.Inv) : regionOfJV (regionToJV r) = .ok r := by
  have hr' := hr
  obtain ⟨r0, r1, r2, r3, r4, r5⟩ := hr
  unfold regionToJV regionOfJV
  obtain ⟨l1, l2, l3, l4, l5⟩ := lookup5 (.arr (r.pmin.map .num)) (.arr (r.pmax.map .num)) (.arr (r.dims.map .str))
    (.arr (r.units.map .str)) (.num r.tol)
  simp only [l1, l2, l3, l4, l5, numsOf, strsOf, optStrs, optTol, numOf, mapM_numOf, mapM_strOf]
  rw [if_neg (not_not.mpr r1.symm)]
  have hall : allLt r.pmin.length (fun a => decide (r.pmin.getD a 0 < r.pmax.getD a 0)) = true := by
    rw [allLt_iff]; intro a ha; exact decide_eq_true (r5 a ha)
  rw [hall]
  simp only [Bool.not_true, Bool.false_eq_true, if_false]
  rw [mk?_ok_of _ _ _ _ _ r1.symm (Nat.pos_iff_ne_zero.mp r0) r2 r4 r3 (fun a ha => (r5 a ha).ne), normalised_self r hr']

/-- **decoding what `save_subregions` wrote gives back the subregions** (names, order, corners,
names of dimensions, units, tolerance) -/
theorem subsOfJV_save (m : Mesh) (h : ∀ p ∈ m.subs, p.2.Inv) : subsOfJV (saveSubs m) = .ok m.subs := by
  unfold saveSubs subsOfJV
  simp only
  generalize m.subs = l at h
  induction l with
  | nil => rfl
  | cons p ps ih =>
    rw [List.map_cons, List.mapM_cons]
    simp only [regionOfJV_toJV p.2 (h p (by simp))]
    rw [ih (fun q hq => h q (List.mem_cons_of_mem _ hq))]
    rfl
theorem meshInv_congr (m m0 : Mesh) (hr : m0.region = m.region) (hn : m0.n = m.n) (hm : m.Inv) : m0.Inv := by
  unfold Mesh.Inv Mesh.ndim Mesh.nAt at *
  rw [hr, hn]; exact hm

/-- **load ∘ save = id**: the side-car written for a mesh satisfying `SubInv`, loaded into any mesh
of the same geometry, is accepted by the setter and re-attaches exactly the saved subregions -/
theorem load_save' (m m0 : Mesh) (hm : m.Inv) (hs : SubInv m) (hr : m0.region = m.region) (hn : m0.n = m.n) :
    loadSubs m0 (saveSubs m) = .ok { m0 with subs := m.subs } := by
  unfold loadSubs
  rw [subsOfJV_save m (fun p hp => subOkE_regionInv m hm p.2 (hs p hp))]
  have hm0 := meshInv_congr m m0 hr hn hm
  have hfit : ∀ p ∈ m.subs, FitsE m0 p.2 := fun p hp => fitsE_congr m m0 p.2 p.2 hr hn rfl rfl (hs p hp).2.2.2
  show setSubs m0 m.subs = _
  rw [(setSubs_of_fits m0 hm0 m.subs hfit).1]
  have : m.subs.map (restamp m0.region) = m.subs := by
    conv => rhs; rw [← List.map_id m.subs]
    apply List.map_congr_left
    intro p hp
    obtain ⟨h1, h2, h3, _⟩ := hs p hp
    obtain ⟨nm, rg⟩ := p
    unfold restamp
    simp only [id]
    rw [hr, ← h1, ← h2, ← h3]
  rw [this]

/-- what a successful load did: the decoded dictionary went through the setter -/
theorem load_inv' (m m' : Mesh) (j : JV) (h : loadSubs m j = .ok m') :
    ∃ subs, subsOfJV j = .ok subs ∧ setSubs m subs = .ok m' := by
  unfold loadSubs at h
  split at h
  · rename_i subs hs; exact ⟨subs, hs, h⟩
  · cases h
end DFV.C14
