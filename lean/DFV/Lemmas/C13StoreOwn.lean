import DFV.Lemmas.C13StoreInv
/-! C13 / C14 (round 3): exclusive ownership of Region objects (after EVERY session since repo fix
12c808de: the constructor copies the region object too), the frame of an in-place mesh step, and how
the list of mesh objects changes with every statement. -/
namespace DFV.S
open DFV DFV.T DFV.C14

/-- the region object of one mesh is not held by another mesh (neither as region nor as subregion) -/
def RegExcl (s : Store) : Prop :=
  ∀ (i j : Nat) (mo mo' : MeshObj), s.meshes[i]? = some mo → s.meshes[j]? = some mo' → i ≠ j → mo.region ∉ footprint mo'

/-- how a statement changes the list of mesh objects: not at all; or one mesh object is replaced by one
with the same region object and either the same subregion objects or new ones; or a mesh object is
appended whose region object and subregion objects are all new -/
def MeshesStep (s s' : Store) : Prop :=
  s'.meshes = s.meshes ∨
  (∃ (mid : Nat) (mo mo' : MeshObj), s.meshes[mid]? = some mo ∧ s'.meshes = setAt s.meshes mid mo' ∧ mo'.region = mo.region ∧
    (mo'.subs = mo.subs ∨ ∀ p ∈ mo'.subs, s.regs.length ≤ p.2)) ∨
  (∃ mo', s'.meshes = s.meshes ++ [mo'] ∧ (∀ p ∈ mo'.subs, s.regs.length ≤ p.2) ∧ s.regs.length ≤ mo'.region)

theorem meshInplace_step (s : Store) (mid : Nat) (op : Op) : MeshesStep s (meshInplace s mid op).1 := by
  unfold meshInplace
  cases hmo : s.meshes[mid]? with
  | none => exact Or.inl rfl
  | some mo =>
    simp only
    cases hu : updReg s mo.region op with
    | error e => exact Or.inl rfl
    | ok s1 =>
      simp only
      obtain ⟨r', _, e1⟩ := updReg_ok s s1 _ _ hu
      have hm1 : s1.meshes = s.meshes := by rw [e1]; rfl
      cases hs : updSubs s1 mo.subs (subOpInplace (s.reg mo.region) (s1.reg mo.region) op) with
      | mk s2 b =>
        have hm2 : s2.meshes = s.meshes := by
          have : ∀ (t t' : Store) (l : List (String × Nat)) (o : Op) (c : Bool), updSubs t l o = (t', c) → t'.meshes = t.meshes := by
            intro t t' l o c h
            induction l generalizing t with
            | nil => simp only [updSubs] at h; injection h with h1 _; rw [← h1]
            | cons p ps ih =>
              simp only [updSubs] at h
              cases hq : updReg t p.2 o with
              | error e => rw [hq] at h; injection h with h1 _; rw [← h1]
              | ok t1 =>
                rw [hq] at h
                obtain ⟨_, _, e⟩ := updReg_ok t t1 _ _ hq
                rw [ih t1 h, e]; rfl
          rw [this _ _ _ _ _ hs, hm1]
        cases b with
        | false => exact Or.inl hm2
        | true =>
          simp only
          cases op with
          | translate v i => exact Or.inl hm2
          | scale f ref i => exact Or.inl hm2
          | rotate90 a1 a2 k ref i =>
            simp only [finishInplace]
            cases (s2.reg mo.region).dim2index a1 with
            | error e => exact Or.inl hm2
            | ok i1 =>
              cases (s2.reg mo.region).dim2index a2 with
              | error e => exact Or.inl hm2
              | ok i2 =>
                simp only
                split
                · exact Or.inr (Or.inl ⟨mid, mo, { mo with n := rotN mo.n i1 i2 k }, hmo,
                    by show setAt s2.meshes mid _ = _; rw [hm2], rfl, Or.inl rfl⟩)
                · exact Or.inr (Or.inl ⟨mid, mo, { mo with n := rotN mo.n i1 i2 k, bc := (rotBc mo.bc a1 a2 k).toLower }, hmo,
                    by show setAt s2.meshes mid _ = _; rw [hm2], rfl, Or.inl rfl⟩)

/-- **how every statement changes the list of mesh objects** (from a good store) -/
theorem exec_step (s : Store) (hg : Good s) (st : Stmt) : MeshesStep s (exec s st).1 := by
  cases st with
  | newRegion r =>
    simp only [exec]
    split <;> exact Or.inl rfl
  | newMesh rid n bc subs =>
    simp only [exec]
    cases hmk : mkMeshS s rid n bc subs with
    | error e => exact Or.inl rfl
    | ok s' =>
      obtain ⟨_, _, _, mo', h1, h2, _, _, h4⟩ := mkMeshS_good s s' hg _ _ _ _ hmk
      exact Or.inr (Or.inr ⟨mo', h1, fun p hp => Nat.le_of_lt (h4 p hp), by rw [h2]⟩)
  | setSubs mid subs =>
    simp only [exec]
    cases hmo : s.meshes[mid]? with
    | none => exact Or.inl rfl
    | some mo =>
      simp only
      by_cases hidsb : idsOk s subs = true
      · rw [hidsb]
        simp only [Bool.not_true, Bool.false_eq_true, if_false]
        cases hat : attach s (absMesh s mo) subs with
        | error e => exact Or.inl rfl
        | ok r =>
          obtain ⟨s1, ids⟩ := r
          simp only
          have hmem : mo ∈ s.meshes := List.mem_of_getElem? hmo
          obtain ⟨f1, _, _, _, _, f6⟩ := attach_facts s s1 (absMesh s mo) subs ids hat hg.1 (hg.1 _ (hg.2.2 mo hmem).1)
            ((idsOk_iff s subs).mp hidsb)
          exact Or.inr (Or.inl ⟨mid, mo, { mo with subs := ids }, hmo, by show setAt s1.meshes mid _ = _; rw [f1], rfl,
            Or.inr fun p hp => (f6 p hp).1⟩)
      · have : idsOk s subs = false := by simpa using hidsb
        rw [this]; exact Or.inl rfl
  | meshOp mid op =>
    simp only [exec]
    split
    · exact meshInplace_step s mid op
    · unfold meshCopy
      cases hmo : s.meshes[mid]? with
      | none => exact Or.inl rfl
      | some mo =>
        simp only
        cases hr : stepR (s.reg mo.region) (op.withInplace false) with
        | error e => exact Or.inl rfl
        | ok xr =>
          obtain ⟨x, r'⟩ := xr
          cases hsub : mapSubs (valsOf s mo.subs) (fun c => stepR c (subOpCopy (s.reg mo.region) op)) with
          | error e => exact Or.inl rfl
          | ok subs' =>
            simp only
            cases hmk : mkMeshS (s.allocs (r' :: subs'.map (·.2))) s.regs.length (opNS (s.reg mo.region) mo.n op) (opBcS mo.bc op)
                (freshIds (s.regs.length + 1) subs') with
            | error e => exact Or.inl rfl
            | ok s' =>
              have hg1 : Good (s.allocs (r' :: subs'.map (·.2))) := by
                have := meshCopy_good s hg mid op
                -- re-derive goodness of the intermediate store from the same facts
                have hmem : mo ∈ s.meshes := List.mem_of_getElem? hmo
                obtain ⟨v1, v2, _⟩ := hg.2.2 mo hmem
                have hr' : r'.Inv := (stepR_keeps _ (hg.1 _ v1) _ _ _ hr).1
                have hsubs' : ∀ q ∈ subs', q.2.Inv := by
                  apply mapSubs_all_inv _ _ _ hsub
                  · intro p hp
                    obtain ⟨q, hq, e⟩ := List.mem_map.mp hp
                    rw [← e]; exact hg.1 _ (v2 q hq).2
                  · intro c a b hc hab; exact (stepR_keeps c hc _ _ _ hab).1
                apply good_same_meshes s (s.allocs (r' :: subs'.map (·.2))) hg rfl (by rw [allocs_length]; omega)
                  (fun j hj => by rw [reg_allocs_lt _ _ _ hj]; exact similar_refl _ (hg.1 j hj))
                intro j h1 h2
                rw [allocs_length] at h2
                have : j = s.regs.length + (j - s.regs.length) := by omega
                rw [this, reg_allocs_ge]
                cases hk : j - s.regs.length with
                | zero => exact hr'
                | succ k =>
                  simp only [List.getD_cons_succ]
                  have hk' : k < subs'.length := by simp at h2; omega
                  rw [getD_map_of_lt _ _ _ _ hk']
                  exact hsubs' _ (List.getElem_mem _)
              obtain ⟨_, _, _, mo', h1, h2, _, _, h4⟩ := mkMeshS_good _ s' hg1 _ _ _ _ hmk
              refine Or.inr (Or.inr ⟨mo', h1, fun p hp => ?_, by rw [h2, allocs_length]; omega⟩)
              have := h4 p hp
              rw [allocs_length] at this
              omega
  | regionOp rid op =>
    simp only [exec]
    split
    · exact Or.inl rfl
    · split
      · cases hu : updReg s rid op with
        | error e => exact Or.inl rfl
        | ok s' =>
          obtain ⟨_, _, e⟩ := updReg_ok s s' _ _ hu
          exact Or.inl (by rw [e]; rfl)
      · cases hst : stepR (s.reg rid) (op.withInplace false) with
        | error e => exact Or.inl rfl
        | ok xr => exact Or.inl rfl

theorem getElem?_append_singleton {α} (l : List α) (a x : α) (i : Nat) (h : (l ++ [a])[i]? = some x) :
    l[i]? = some x ∨ (i = l.length ∧ x = a) := by
  by_cases hi : i < l.length
  · rw [List.getElem?_append_left hi] at h; exact Or.inl h
  · rw [List.getElem?_append_right (by omega)] at h
    have : i - l.length = 0 := by
      cases hk : i - l.length with
      | zero => rfl
      | succ k => rw [hk] at h; simp at h
    rw [this] at h
    simp at h
    exact Or.inr ⟨by omega, h.symm⟩

theorem owned_of_getElem? (s : Store) (i : Nat) (mo : MeshObj) (h : s.meshes[i]? = some mo) (a : Nat) (ha : a ∈ footprint mo) :
    Owned s a := ⟨mo, List.mem_of_getElem? h, ha⟩

theorem footprint_lt (s : Store) (hg : Good s) (i : Nat) (mo : MeshObj) (h : s.meshes[i]? = some mo) (a : Nat) (ha : a ∈ footprint mo) :
    a < s.regs.length := by
  obtain ⟨v1, v2, _⟩ := hg.2.2 mo (List.mem_of_getElem? h)
  simp only [footprint, List.mem_cons] at ha
  rcases ha with e | e
  · rw [e]; exact v1
  · obtain ⟨p, hp, e2⟩ := List.mem_map.mp e
    rw [← e2]; exact (v2 p hp).2

/-- **every statement keeps the region objects exclusive**: a new mesh object gets a region object of
its own (repo fix 12c808de), an existing one keeps its region object -/
theorem exec_regExcl (s : Store) (hg : Good s) (he : RegExcl s) (st : Stmt) : RegExcl (exec s st).1 := by
  rcases exec_step s hg st with h | ⟨mid, mo, mo', hmo, hm, hreg, hsubs⟩ | ⟨mo', hm, hfresh, hnr⟩
  · intro i j a b ha hb hij
    rw [h] at ha hb
    exact he i j a b ha hb hij
  · intro i j a b ha hb hij
    rw [hm] at ha hb
    have hmid : mid < s.meshes.length := by
      by_contra hc
      rw [List.getElem?_eq_none (by omega)] at hmo; cases hmo
    by_cases hi : i = mid
    · subst hi
      rw [getElem?_setAt_eq _ _ _ hmid] at ha
      injection ha with ha; subst ha
      rw [getElem?_setAt_ne _ _ _ _ (Ne.symm hij)] at hb
      rw [hreg]; exact he i j mo b hmo hb hij
    · rw [getElem?_setAt_ne _ _ _ _ hi] at ha
      by_cases hj : j = mid
      · subst hj
        rw [getElem?_setAt_eq _ _ _ hmid] at hb
        injection hb with hb; subst hb
        have hold := he i j a mo ha hmo hij
        simp only [footprint, List.mem_cons, not_or] at hold ⊢
        refine ⟨by rw [hreg]; exact hold.1, ?_⟩
        rcases hsubs with e | e
        · rw [e]; exact hold.2
        · intro hmem
          obtain ⟨p, hp, e2⟩ := List.mem_map.mp hmem
          have := e p hp
          have := footprint_lt s hg i a ha a.region (by simp [footprint])
          omega
      · rw [getElem?_setAt_ne _ _ _ _ hj] at hb
        exact he i j a b ha hb hij
  · intro i j a b ha hb hij
    rw [hm] at ha hb
    rcases getElem?_append_singleton _ _ _ _ ha with ha' | ⟨hi, ea⟩ <;>
      rcases getElem?_append_singleton _ _ _ _ hb with hb' | ⟨hj, eb⟩
    · exact he i j a b ha' hb' hij
    · -- an old region against the new mesh: all its objects are new
      subst eb
      have hlt := footprint_lt s hg i a ha' a.region (by simp [footprint])
      simp only [footprint, List.mem_cons, not_or]
      constructor
      · omega
      · intro hmem
        obtain ⟨p, hp, e2⟩ := List.mem_map.mp hmem
        have := hfresh p hp
        omega
    · -- the new region against an old mesh
      subst ea
      intro hmem
      have hlt := footprint_lt s hg j b hb' _ hmem
      omega
    · omega

/-- **the region objects are exclusive after ANY session** -/
theorem run_regExcl (s : Store) (hg : Good s) (he : RegExcl s) (sts : List Stmt) : RegExcl (run s sts) := by
  induction sts generalizing s with
  | nil => exact he
  | cons st sts ih => exact ih _ (exec_good s hg st) (exec_regExcl s hg he st)

theorem mem_take_or_drop {α} (l : List α) (i j : Nat) (x : α) (h : l[j]? = some x) (hij : j ≠ i) :
    x ∈ l.take i ∨ x ∈ l.drop (i + 1) := by
  by_cases hlt : j < i
  · left
    have : (l.take i)[j]? = some x := by rw [List.getElem?_take_of_lt hlt]; exact h
    exact List.mem_of_getElem? this
  · right
    have : (l.drop (i + 1))[j - (i + 1)]? = some x := by
      rw [List.getElem?_drop]
      have : i + 1 + (j - (i + 1)) = j := by omega
      rw [this]; exact h
    exact List.mem_of_getElem? this

/-- the subregion objects of two different mesh objects are different objects (every good store) -/
theorem subs_disjoint (s : Store) (hg : Good s) (i j : Nat) (mo mo' : MeshObj) (hi : s.meshes[i]? = some mo)
    (hj : s.meshes[j]? = some mo') (hij : i ≠ j) (p q : String × Nat) (hp : p ∈ mo.subs) (hq : q ∈ mo'.subs) : p.2 ≠ q.2 := by
  have hnd := hg.2.1
  unfold subIds at hnd
  rw [flatMap_split _ _ _ _ hi, List.nodup_append] at hnd
  obtain ⟨h1, _, h3⟩ := hnd
  rw [List.nodup_append] at h1
  have hp' : p.2 ∈ mo.subs.map (·.2) := List.mem_map_of_mem hp
  have hq' : q.2 ∈ mo'.subs.map (·.2) := List.mem_map_of_mem hq
  rcases mem_take_or_drop _ i j mo' hj (Ne.symm hij) with hm | hm
  · intro e
    exact h1.2.2 q.2 (List.mem_flatMap.mpr ⟨mo', hm, hq'⟩) p.2 hp' e.symm
  · intro e
    exact h3 p.2 (List.mem_append_right _ hp') q.2 (List.mem_flatMap.mpr ⟨mo', hm, hq'⟩) e

/-- **No Region object is reachable from two meshes, nor twice from one** — in every good store with
exclusive region objects: the footprints of two different mesh objects are disjoint, and the
footprint of a mesh object lists pairwise different objects -/
theorem footprints_disjoint (s : Store) (hg : Good s) (he : RegExcl s) (i j : Nat) (mo mo' : MeshObj)
    (hi : s.meshes[i]? = some mo) (hj : s.meshes[j]? = some mo') :
    (footprint mo).Nodup ∧ (i ≠ j → ∀ a, a ∈ footprint mo → a ∉ footprint mo') := by
  obtain ⟨v1, v2, _⟩ := hg.2.2 mo (List.mem_of_getElem? hi)
  constructor
  · unfold footprint
    rw [List.nodup_cons]
    refine ⟨?_, nodup_of_flatMap _ _ hg.2.1 mo (List.mem_of_getElem? hi)⟩
    intro hmem
    obtain ⟨p, hp, e⟩ := List.mem_map.mp hmem
    have := (v2 p hp).1
    omega
  · intro hij a ha ha'
    simp only [footprint, List.mem_cons] at ha ha'
    rcases ha with e | e
    · subst e
      exact he i j mo mo' hi hj hij (by simpa [footprint] using ha')
    · rcases ha' with e' | e'
      · subst e'
        exact he j i mo' mo hj hi (Ne.symm hij) (by simp only [footprint, List.mem_cons]; exact Or.inr e)
      · obtain ⟨p, hp, e1⟩ := List.mem_map.mp e
        obtain ⟨q, hq, e2⟩ := List.mem_map.mp e'
        exact subs_disjoint s hg i j mo mo' hi hj hij p q hp hq (e1.trans e2.symm)

end DFV.S
