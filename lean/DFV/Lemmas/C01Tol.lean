import DFV.Lemmas.C01
/-! C01 helper lemmas, round 2: the tolerance band of `Region.__contains__` as an explicit
inequality, acceptance/refusal of `point2index` / `index2point` as equivalences, `clip` after
`floor` = `floor` after clamping the point into the closed edge. -/
namespace DFV.C01
open DFV DFV.Mesh

/-- the comparison tolerance of `Region.__contains__` at coordinate `x`:
`atol + rtol·|x|` with `atol = min(edges)·tolerance_factor`, `rtol = tolerance_factor` -/
def band (r : Region) (x : Rat) : Rat := r.atol + r.tol * |x|

/-- `p` is in the region up to the comparison tolerance (the exact expression of the code) -/
def TolInside (r : Region) (p : List Rat) : Prop :=
  p.length = r.ndim ∧ ∀ a, a < r.ndim →
    r.lo a - p.getD a 0 ≤ band r (p.getD a 0) ∧ p.getD a 0 - r.hi a ≤ band r (p.getD a 0)

/-- a coordinate moved onto the closed edge `[lo, hi]` -/
def clampAx (r : Region) (a : Nat) (x : Rat) : Rat := max (r.lo a) (min (r.hi a) x)

def clampPt (r : Region) (p : List Rat) : List Rat := tab r.ndim fun a => clampAx r a (p.getD a 0)

theorem mem_tab {α} (n : Nat) (f : Nat → α) (y : α) (h : y ∈ tab n f) : ∃ a, a < n ∧ y = f a := by
  unfold tab at h
  rw [List.mem_map] at h
  obtain ⟨a, ha, e⟩ := h
  exact ⟨a, List.mem_range.mp ha, e.symm⟩

theorem atol_nonneg (r : Region) (hr : r.Inv) (ht : 0 ≤ r.tol) : 0 ≤ r.atol := by
  unfold Region.atol
  apply mul_nonneg _ ht
  apply listMin_nonneg
  intro y hy
  obtain ⟨a, ha, e⟩ := mem_tab _ _ _ hy
  rw [e]
  have := hr.2.2.2.2.2 a ha
  unfold Region.edge; linarith

theorem band_nonneg (r : Region) (hr : r.Inv) (ht : 0 ≤ r.tol) (x : Rat) : 0 ≤ band r x := by
  unfold band
  have := atol_nonneg r hr ht
  have := mul_nonneg ht (abs_nonneg x)
  linarith

/-- one axis of `point in region`, as the inequality the code evaluates -/
theorem containsAx_iff (r : Region) (a : Nat) (x : Rat) (hb : 0 ≤ band r x) :
    r.containsAx a x = true ↔ r.lo a - x ≤ band r x ∧ x - r.hi a ≤ band r x := by
  unfold Region.containsAx Region.isclose
  rw [absR_eq_abs, absR_eq_abs, absR_eq_abs]
  unfold band at *
  simp only [Bool.and_eq_true, Bool.or_eq_true, decide_eq_true_eq]
  constructor
  · rintro ⟨h1, h2⟩
    constructor
    · rcases h1 with h | h
      · linarith
      · exact le_trans (le_abs_self _) h
    · rcases h2 with h | h
      · linarith
      · have := neg_abs_le (r.hi a - x); linarith
  · rintro ⟨h1, h2⟩
    constructor
    · by_cases h : r.lo a ≤ x
      · exact Or.inl h
      · right
        rw [abs_of_pos (by linarith [not_le.mp h])]; exact h1
    · by_cases h : x ≤ r.hi a
      · exact Or.inl h
      · right
        rw [abs_of_neg (by linarith [not_le.mp h])]; linarith

theorem containsPt_iff (r : Region) (hr : r.Inv) (ht : 0 ≤ r.tol) (p : List Rat) :
    r.containsPt p = true ↔ TolInside r p := by
  unfold Region.containsPt TolInside
  simp only [Bool.and_eq_true, decide_eq_true_eq, allLt_iff]
  constructor
  · rintro ⟨h1, h2⟩
    exact ⟨h1, fun a ha => (containsAx_iff r a _ (band_nonneg r hr ht _)).mp (h2 a ha)⟩
  · rintro ⟨h1, h2⟩
    exact ⟨h1, fun a ha => (containsAx_iff r a _ (band_nonneg r hr ht _)).mpr (h2 a ha)⟩

/-- exact membership implies membership up to tolerance -/
theorem tolInside_of_exact (r : Region) (hr : r.Inv) (ht : 0 ≤ r.tol) (p : List Rat)
    (h : r.containsExact p) : TolInside r p := by
  refine ⟨h.1, fun a ha => ?_⟩
  have hb := band_nonneg r hr ht (p.getD a 0)
  have := h.2 a ha
  constructor <;> linarith

/-- `clip(floor(·))` of the code = `floor` of the point moved onto the closed edge: below the
region the index is 0, above it `n − 1`, inside nothing changes. -/
theorem indexAx_clamp (m : Mesh) (a : Nat) (x : Rat) (hn : 0 < m.nAt a)
    (hr : m.region.lo a < m.region.hi a) :
    m.indexAx a x = m.indexAx a (clampAx m.region a x) := by
  have hc : 0 < m.cellAt a := by
    unfold cellAt Region.edge
    have : (0 : Rat) < (m.nAt a : Rat) := by exact_mod_cast hn
    exact div_pos (by linarith) this
  have hcov : (m.nAt a : Rat) * m.cellAt a = m.region.hi a - m.region.lo a := by
    unfold cellAt Region.edge
    have : (m.nAt a : Rat) ≠ 0 := by exact_mod_cast (Nat.pos_iff_ne_zero.mp hn)
    field_simp
  unfold clampAx
  by_cases h1 : x < m.region.lo a
  · -- below: both are 0
    have e : max (m.region.lo a) (min (m.region.hi a) x) = m.region.lo a := by
      rw [min_eq_right (by linarith), max_eq_left h1.le]
    rw [e]
    unfold indexAx
    have hq : (x - m.region.lo a) / m.cellAt a < 0 := div_neg_of_neg_of_pos (by linarith) hc
    have hf : ((x - m.region.lo a) / m.cellAt a).floor < 0 := by
      apply rat_floor_lt; simpa using hq
    have h0 : ((m.region.lo a - m.region.lo a) / m.cellAt a).floor = 0 := by
      rw [sub_self, zero_div]; rfl
    rw [h0]
    unfold clipInt
    have : ¬ ((m.nAt a : Int) - 1 < 0) := by omega
    simp [hf, this]
  · by_cases h2 : m.region.hi a < x
    · -- above: both are n - 1
      have e : max (m.region.lo a) (min (m.region.hi a) x) = m.region.hi a := by
        rw [min_eq_left h2.le, max_eq_right hr.le]
      rw [e]
      unfold indexAx
      have hqn : (m.region.hi a - m.region.lo a) / m.cellAt a = (m.nAt a : Rat) := by
        rw [← hcov]; field_simp
      have hfn : ((m.region.hi a - m.region.lo a) / m.cellAt a).floor = (m.nAt a : Int) := by
        rw [hqn]
        apply rat_floor_eq
        · push_cast; exact le_refl _
        · push_cast; linarith
      have hqx : (m.nAt a : Rat) ≤ (x - m.region.lo a) / m.cellAt a := by
        rw [le_div_iff₀ hc]; linarith
      have hfx : (m.nAt a : Int) ≤ ((x - m.region.lo a) / m.cellAt a).floor := by
        apply rat_le_floor; push_cast; exact hqx
      rw [hfn]
      unfold clipInt
      have a1 : ¬ (((x - m.region.lo a) / m.cellAt a).floor < 0) := by omega
      have a2 : (m.nAt a : Int) - 1 < ((x - m.region.lo a) / m.cellAt a).floor := by omega
      have a3 : ¬ ((m.nAt a : Int) < 0) := by omega
      have a4 : (m.nAt a : Int) - 1 < (m.nAt a : Int) := by omega
      simp [a1, a2, a3, a4]
    · have e : max (m.region.lo a) (min (m.region.hi a) x) = x := by
        rw [min_eq_right (not_lt.mp h2), max_eq_right (not_lt.mp h1)]
      rw [e]

theorem clampAx_mem (r : Region) (a : Nat) (x : Rat) (hr : r.lo a < r.hi a) :
    r.lo a ≤ clampAx r a x ∧ clampAx r a x ≤ r.hi a := by
  unfold clampAx
  exact ⟨le_max_left _ _, max_le hr.le (min_le_left _ _)⟩

/-- the clamped coordinate is within the tolerance band of the original one -/
theorem clampAx_near (r : Region) (a : Nat) (x : Rat) (hr : r.lo a < r.hi a)
    (h : r.lo a - x ≤ band r x ∧ x - r.hi a ≤ band r x) (hb : 0 ≤ band r x) :
    |clampAx r a x - x| ≤ band r x := by
  unfold clampAx
  by_cases h1 : x < r.lo a
  · rw [min_eq_right (by linarith), max_eq_left h1.le, abs_of_pos (by linarith)]; exact h.1
  · by_cases h2 : r.hi a < x
    · rw [min_eq_left h2.le, max_eq_right hr.le, abs_of_neg (by linarith)]; linarith
    · rw [min_eq_right (not_lt.mp h2), max_eq_right (not_lt.mp h1)]; simpa using hb

theorem clampPt_exact (r : Region) (hr : r.Inv) (p : List Rat) : r.containsExact (clampPt r p) := by
  refine ⟨by simp [clampPt, Region.ndim], fun a ha => ?_⟩
  unfold clampPt
  rw [getD_tab _ _ _ _ ha]
  exact clampAx_mem r a _ (hr.2.2.2.2.2 a ha)

/-- acceptance of `index2point`, from the index alone -/
theorem index2point_ok_iff' (m : Mesh) (idx : List Int) (p : List Rat) :
    m.index2point idx = .ok p ↔
      idx.length = m.ndim ∧ (∀ a, a < m.ndim → 0 ≤ idx.getD a 0 ∧ idx.getD a 0 < (m.nAt a : Int)) ∧
      p = tab m.ndim fun a => m.centreAx a (idx.getD a 0) := by
  unfold index2point
  by_cases hl : idx.length = m.ndim
  · rw [if_neg (not_not.mpr hl)]
    by_cases hall : allLt m.ndim (fun a => decide (0 ≤ idx.getD a 0) && decide (idx.getD a 0 < (m.nAt a : Int))) = true
    · rw [hall]
      simp only [Bool.not_true, Bool.false_eq_true, if_false]
      have := (allLt_iff _ _).mp hall
      constructor
      · intro h; injection h with h
        refine ⟨hl, fun a ha => ?_, h.symm⟩
        simpa using this a ha
      · rintro ⟨_, _, h3⟩; rw [h3]
    · have hf : allLt m.ndim (fun a => decide (0 ≤ idx.getD a 0) && decide (idx.getD a 0 < (m.nAt a : Int))) = false := by
        simpa using hall
      rw [hf]
      simp only [Bool.not_false, if_true]
      constructor
      · intro h; cases h
      · rintro ⟨_, h2, _⟩
        exfalso; apply hall
        rw [allLt_iff]; intro a ha
        simpa using h2 a ha
  · rw [if_pos hl]
    constructor
    · intro h; cases h
    · rintro ⟨h1, _⟩; exact absurd h1 hl

theorem index2point_cases (m : Mesh) (idx : List Int) :
    m.index2point idx = .error .index ∨ ∃ p, m.index2point idx = .ok p := by
  unfold index2point
  split
  · exact Or.inl rfl
  · split
    · exact Or.inl rfl
    · exact Or.inr ⟨_, rfl⟩

theorem point2index_cases (m : Mesh) (p : List Rat) :
    m.point2index p = .error .value ∨ ∃ i, m.point2index p = .ok i := by
  unfold point2index
  split
  · exact Or.inl rfl
  · split
    · exact Or.inl rfl
    · exact Or.inr ⟨_, rfl⟩

theorem point2index_ok_iff' (m : Mesh) (hm : m.Inv) (ht : 0 ≤ m.region.tol) (p : List Rat) (i : List Nat) :
    m.point2index p = .ok i ↔
      TolInside m.region p ∧ i = tab m.ndim fun a => m.indexAx a (p.getD a 0) := by
  unfold point2index
  by_cases hl : p.length = m.ndim
  · rw [if_neg (not_not.mpr hl)]
    by_cases hc : m.region.containsPt p = true
    · rw [hc]
      simp only [Bool.not_true, Bool.false_eq_true, if_false]
      have ht' := (containsPt_iff m.region hm.1 ht p).mp hc
      constructor
      · intro h; injection h with h; exact ⟨ht', h.symm⟩
      · rintro ⟨_, h⟩; rw [h]
    · have hf : m.region.containsPt p = false := by simpa using hc
      rw [hf]
      simp only [Bool.not_false, if_true]
      constructor
      · intro h; cases h
      · rintro ⟨h1, _⟩
        exact absurd ((containsPt_iff m.region hm.1 ht p).mpr h1) hc
  · rw [if_pos hl]
    constructor
    · intro h; cases h
    · rintro ⟨h1, _⟩; exact absurd h1.1 hl

end DFV.C01
