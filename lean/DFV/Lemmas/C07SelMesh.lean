import DFV.Lemmas.C07Block
/-! What the meshes built by `Mesh.sel` look like (inversion of the constructor paths). -/
namespace DFV.C07
open DFV DFV.Mesh

theorem lo_def (r : Region) (a : Nat) : r.lo a = r.pmin.getD a 0 := rfl
theorem hi_def (r : Region) (a : Nat) : r.hi a = r.pmax.getD a 0 := rfl
theorem nAt_def (m : Mesh) (a : Nat) : m.nAt a = m.n.getD a 0 := rfl

theorem cell_getD (m : Mesh) (a : Nat) (ha : a < m.ndim) : m.cell.getD a 0 = m.cellAt a := by
  unfold Mesh.cell; rw [getD_tab _ _ _ _ ha]

theorem cell_length (m : Mesh) : m.cell.length = m.ndim := by unfold Mesh.cell; simp

/-- mesh of a plane selection: axis `a` removed, every other axis kept whole -/
theorem selPlaneMesh_inv (m : Mesh) (hm : m.Inv) (a : Nat) (ha : a < m.ndim) (c : Rat) (g : Mesh)
    (h : selPlaneMesh m a c = .ok g) :
    g.ndim = m.ndim - 1 ∧ g.n.length = m.ndim - 1 ∧
    g.region.dims = removeAt m.region.dims a ∧ g.region.units = removeAt m.region.units a ∧
    g.region.tol = m.region.tol ∧ g.region.pmax.length = m.ndim - 1 ∧
    hasDup g.region.dims = false ∧ 0 < m.ndim - 1 ∧
    ∀ b, b < m.ndim - 1 →
      g.region.lo b = m.region.lo (skip a b) ∧ g.region.hi b = m.region.hi (skip a b) ∧
      g.nAt b = m.nAt (skip a b) := by
  unfold selPlaneMesh at h
  split at h
  · cases h
  · split at h
    · cases h
    · rename_i subs _ r hr
      obtain ⟨e1, e2, e3, e4, e5, _, e7, e8, e9, e10, e11⟩ := regionMk_inv _ _ _ _ _ _ hr
      obtain ⟨g1, g2, _, _⟩ := mkMesh_inv _ _ _ _ _ h
      have hlen : (removeAt m.region.pmin a).length = m.ndim - 1 := length_removeAt _ _ ha
      have hrn : r.ndim = m.ndim - 1 := by
        unfold Region.ndim; rw [e7, tab_length, hlen]
      have hpm : r.pmax.length = m.ndim - 1 := by rw [e8, tab_length, hlen]
      refine ⟨by unfold Mesh.ndim; rw [g1]; exact hrn, by rw [g2, tab_length, hrn],
        by rw [g1, e9], by rw [g1, e10], by rw [g1, e11], by rw [g1]; exact hpm,
        by rw [g1, e9]; exact e4, by omega, ?_⟩
      intro b hb
      have hs : skip a b < m.ndim := skip_lt a b m.ndim ha hb
      have hlt := inv_lo_lt_hi hm hs
      have hlo : r.lo b = m.region.lo (skip a b) := by
        rw [lo_def, e7, getD_tab _ _ _ _ (by omega), getD_removeAt, getD_removeAt]
        exact min_eq_left hlt.le
      have hhi : r.hi b = m.region.hi (skip a b) := by
        rw [hi_def, e8, getD_tab _ _ _ _ (by omega), getD_removeAt, getD_removeAt]
        exact max_eq_right hlt.le
      refine ⟨by rw [g1]; exact hlo, by rw [g1]; exact hhi, ?_⟩
      rw [nAt_def, g2, getD_tab _ _ _ _ (by omega), getD_removeAt, cell_getD m _ hs]
      apply count_of_edge
      · exact (inv_cell_pos hm hs).ne'
      · unfold Region.edge; rw [hlo, hhi]; exact (cover m _ (inv_n_pos hm hs)).symm

/-- mesh of a range selection between the cells with centres `c1 ≤ c2`: the faces of those
cells replace the corners along axis `a`; everything else is kept -/
theorem selRangeMesh_inv (m : Mesh) (hm : m.Inv) (a : Nat) (ha : a < m.ndim) (k1 k2 : Nat)
    (hk : k1 ≤ k2) (hk2 : k2 < m.nAt a) (g : Mesh)
    (h : selRangeMesh m a (m.centreAx a (k1 : Int)) (m.centreAx a (k2 : Int)) = .ok g) :
    g.ndim = m.ndim ∧ g.n.length = m.ndim ∧ g.region.dims = m.region.dims ∧
    g.region.units = m.region.units ∧ g.region.tol = m.region.tol ∧
    g.region.pmax.length = m.ndim ∧
    AxisBlock g m a a k1 (k2 - k1 + 1) ∧
    ∀ b, b < m.ndim → b ≠ a → AxisBlock g m b b 0 (m.nAt b) := by
  unfold selRangeMesh at h
  split at h
  · cases h
  · split at h
    · cases h
    · rename_i subs _ r hr
      obtain ⟨e1, e2, e3, e4, e5, _, e7, e8, e9, e10, e11⟩ := regionMk_inv _ _ _ _ _ _ hr
      obtain ⟨g1, g2, _, _⟩ := mkMesh_inv _ _ _ _ _ h
      have hlen : (setAt m.region.pmin a (m.centreAx a (k1 : Int) - m.cellAt a / 2)).length = m.ndim :=
        length_setAt _ _ _
      have hrn : r.ndim = m.ndim := by unfold Region.ndim; rw [e7, tab_length, hlen]
      have hca := inv_cell_pos hm ha
      have hna := inv_n_pos hm ha
      have hloa : r.lo a = m.region.lo a + (k1 : Rat) * m.cellAt a := by
        rw [lo_def, e7, getD_tab _ _ _ _ (by omega), getD_setAt_eq _ _ _ _ ha,
          getD_setAt_eq _ _ _ _ (by rw [inv_pmax_length hm]; exact ha), centreAx_cast, centreAx_cast]
        have : (k1 : Rat) ≤ (k2 : Rat) := by exact_mod_cast hk
        rw [min_eq_left (by nlinarith)]; ring
      have hhia : r.hi a = m.region.lo a + ((k1 : Rat) + ((k2 - k1 + 1 : Nat) : Rat)) * m.cellAt a := by
        rw [hi_def, e8, getD_tab _ _ _ _ (by omega), getD_setAt_eq _ _ _ _ ha,
          getD_setAt_eq _ _ _ _ (by rw [inv_pmax_length hm]; exact ha), centreAx_cast, centreAx_cast]
        have : (k1 : Rat) ≤ (k2 : Rat) := by exact_mod_cast hk
        rw [max_eq_right (by nlinarith)]
        push_cast [Nat.cast_sub hk]; ring
      have hother : ∀ b, b < m.ndim → b ≠ a → r.lo b = m.region.lo b ∧ r.hi b = m.region.hi b := by
        intro b hb hba
        have hlt := inv_lo_lt_hi hm hb
        constructor
        · rw [lo_def, e7, getD_tab _ _ _ _ (by omega), getD_setAt_ne _ _ _ _ _ hba,
            getD_setAt_ne _ _ _ _ _ hba]
          exact min_eq_left hlt.le
        · rw [hi_def, e8, getD_tab _ _ _ _ (by omega), getD_setAt_ne _ _ _ _ _ hba,
            getD_setAt_ne _ _ _ _ _ hba]
          exact max_eq_right hlt.le
      have hpm : r.pmax.length = m.ndim := by rw [e8, tab_length, hlen]
      have hnA : g.nAt a = k2 - k1 + 1 := by
        rw [nAt_def, g2, getD_tab _ _ _ _ (by omega), cell_getD m _ ha]
        apply count_of_edge _ _ _ hca.ne'
        unfold Region.edge; rw [hloa, hhia]; ring
      refine ⟨by unfold Mesh.ndim; rw [g1]; exact hrn, by rw [g2, tab_length, hrn],
        by rw [g1, e9], by rw [g1, e10], by rw [g1, e11], by rw [g1]; exact hpm, ?_, ?_⟩
      · exact axisBlock_of g m a a k1 (k2 - k1 + 1) (by omega) (by rw [g1]; exact hloa)
          (by rw [g1]; exact hhia) hnA (by omega)
      · intro b hb hba
        obtain ⟨hl, hh⟩ := hother b hb hba
        have hnb : g.nAt b = m.nAt b := by
          rw [nAt_def, g2, getD_tab _ _ _ _ (by omega), cell_getD m _ hb]
          apply count_of_edge _ _ _ (inv_cell_pos hm hb).ne'
          unfold Region.edge; rw [hl, hh]; exact (cover m _ (inv_n_pos hm hb)).symm
        exact axisBlock_of g m b b 0 (m.nAt b) (inv_n_pos hm hb) (by rw [g1, hl]; simp)
          (by rw [g1, hh, hi_eq m b (inv_n_pos hm hb)]; simp) hnb (by omega)

end DFV.C07
