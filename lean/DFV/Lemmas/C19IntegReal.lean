import Mathlib.Analysis.SpecialFunctions.Complex.Arg
import Mathlib.Analysis.SpecialFunctions.Trigonometric.Angle
import DFV.Lemmas.C19Integ
/-!
# C19 — Berg–Lüscher integrality with the REAL solid-angle formula

For unit vectors `a, b, c` the number whose argument `util.bergluescher_angle` takes,
`N(a,b,c) = 1 + a·b + b·c + c·a + i·a·(b×c)`, is — up to a positive factor — the product
`⟨a|b⟩⟨b|c⟩⟨c|a⟩` of spinor overlaps (`|a⟩⟨a| = (1 + a·σ)/2`).  Hence `arg N`, taken modulo `2π`, is the
coboundary of the antisymmetric link `θ(a,b) = arg⟨a|b⟩`, which is exactly the hypothesis of
`bl_closed_sum` for `φ : ℝ → ℝ/2πℤ`, `x ↦ 2πx`.
-/
namespace DFV.C19
open DFV Finset
open scoped ComplexConjugate

/-! ## spinors of rational unit vectors -/

/-- spinor of the unit vector `a` (first component), gauge fixed at the south pole -/
noncomputable def psi1 (a : V3) : ℂ := if a.z = -1 then 0 else (((1 + a.z : Rat) : ℝ) : ℂ)
/-- second component -/
noncomputable def psi2 (a : V3) : ℂ := if a.z = -1 then 1 else ⟨(a.x : ℝ), (a.y : ℝ)⟩
/-- `|a⟩⟨a| = lam a · (1 + a·σ)` -/
noncomputable def lam (a : V3) : ℝ := if a.z = -1 then 1 / 2 else ((1 + a.z : Rat) : ℝ)

theorem unit_z_range (a : V3) (h : a.normSq = 1) : -1 ≤ a.z ∧ a.z ≤ 1 := by
  simp only [V3.normSq, V3.dot] at h
  constructor <;> nlinarith [mul_self_nonneg a.x, mul_self_nonneg a.y, mul_self_nonneg (a.z + 1), mul_self_nonneg (a.z - 1)]

theorem unit_south (a : V3) (h : a.normSq = 1) (hz : a.z = -1) : a.x = 0 ∧ a.y = 0 := by
  simp only [V3.normSq, V3.dot, hz] at h
  have hx : a.x * a.x = 0 := by nlinarith [mul_self_nonneg a.x, mul_self_nonneg a.y]
  have hy : a.y * a.y = 0 := by nlinarith [mul_self_nonneg a.x, mul_self_nonneg a.y]
  exact ⟨mul_self_eq_zero.mp hx, mul_self_eq_zero.mp hy⟩

theorem lam_pos (a : V3) (h : a.normSq = 1) : 0 < lam a := by
  unfold lam
  split
  · norm_num
  · rename_i hz
    have := (unit_z_range a h).1
    have : (0 : Rat) < 1 + a.z := by
      rcases lt_or_eq_of_le this with h' | h'
      · linarith
      · exact absurd h'.symm hz
    exact_mod_cast this

/-- the real form of the unit-norm condition -/
theorem unit_real (a : V3) (h : a.normSq = 1) : (a.x : ℝ) * a.x + (a.y : ℝ) * a.y + (a.z : ℝ) * a.z = 1 := by
  simp only [V3.normSq, V3.dot] at h
  exact_mod_cast h

theorem spin11 (a : V3) (_h : a.normSq = 1) : psi1 a * conj (psi1 a) = ((lam a * (1 + (a.z : ℝ)) : ℝ) : ℂ) := by
  unfold psi1 lam
  split
  · rename_i hz; simp [hz]
  · apply Complex.ext <;> simp

theorem spin22 (a : V3) (h : a.normSq = 1) : psi2 a * conj (psi2 a) = ((lam a * (1 - (a.z : ℝ)) : ℝ) : ℂ) := by
  unfold psi2 lam
  split
  · rename_i hz; simp [hz]; norm_num
  · have hr := unit_real a h
    apply Complex.ext
    · simp; nlinarith
    · simp; ring

theorem spin21 (a : V3) (h : a.normSq = 1) : psi2 a * conj (psi1 a) = ((lam a : ℝ) : ℂ) * ⟨(a.x : ℝ), (a.y : ℝ)⟩ := by
  unfold psi2 psi1 lam
  split
  · rename_i hz
    obtain ⟨hx, hy⟩ := unit_south a h hz
    apply Complex.ext <;> simp [hx, hy]
  · apply Complex.ext <;> simp <;> ring

theorem spin12 (a : V3) (h : a.normSq = 1) : psi1 a * conj (psi2 a) = ((lam a : ℝ) : ℂ) * ⟨(a.x : ℝ), -(a.y : ℝ)⟩ := by
  unfold psi2 psi1 lam
  split
  · rename_i hz
    obtain ⟨hx, hy⟩ := unit_south a h hz
    apply Complex.ext <;> simp [hx, hy]
  · apply Complex.ext <;> simp

/-- the overlap `⟨a|b⟩` -/
noncomputable def link (a b : V3) : ℂ := conj (psi1 a) * psi1 b + conj (psi2 a) * psi2 b

theorem link_conj (a b : V3) : link b a = conj (link a b) := by
  unfold link
  simp only [map_add, map_mul, Complex.conj_conj]
  ring

theorem link_self (a : V3) (h : a.normSq = 1) : link a a = ((2 * lam a : ℝ) : ℂ) := by
  unfold link
  rw [mul_comm (conj (psi1 a)), mul_comm (conj (psi2 a)), spin11 a h, spin22 a h]
  push_cast; ring

/-- `⟨a|b⟩⟨b|a⟩ = 2 λ_a λ_b (1 + a·b)` -/
theorem link_norm (a b : V3) (ha : a.normSq = 1) (hb : b.normSq = 1) :
    link a b * link b a = ((2 * lam a * lam b * (1 + ((V3.dot a b : Rat) : ℝ)) : ℝ) : ℂ) := by
  have expand : link a b * link b a
      = (psi1 a * conj (psi1 a)) * (psi1 b * conj (psi1 b)) + (psi2 a * conj (psi1 a)) * (psi1 b * conj (psi2 b))
        + (psi1 a * conj (psi2 a)) * (psi2 b * conj (psi1 b)) + (psi2 a * conj (psi2 a)) * (psi2 b * conj (psi2 b)) := by
    unfold link; ring
  rw [expand, spin11 a ha, spin11 b hb, spin22 a ha, spin22 b hb, spin21 a ha, spin21 b hb, spin12 a ha, spin12 b hb]
  simp only [V3.dot]
  apply Complex.ext
  · simp; ring
  · simp; ring

/-- the number whose argument `bergluescher_angle` takes -/
noncomputable def nC (tr : Tri) : ℂ := ⟨1 + (tr.d12 : ℝ) + tr.d23 + tr.d31, (tr.t : ℝ)⟩

/-- `⟨a|b⟩⟨b|c⟩⟨c|a⟩ = 2 λ_a λ_b λ_c · N(a, b, c)` -/
theorem link_triple (a b c : V3) (ha : a.normSq = 1) (hb : b.normSq = 1) (hc : c.normSq = 1) :
    link a b * link b c * link c a = ((2 * lam a * lam b * lam c : ℝ) : ℂ) * nC (triOf a b c) := by
  have expand : link a b * link b c * link c a
      = (psi1 a * conj (psi1 a)) * (psi1 b * conj (psi1 b)) * (psi1 c * conj (psi1 c))
        + (psi1 a * conj (psi1 a)) * (psi1 b * conj (psi2 b)) * (psi2 c * conj (psi1 c))
        + (psi1 a * conj (psi2 a)) * (psi2 b * conj (psi1 b)) * (psi1 c * conj (psi1 c))
        + (psi1 a * conj (psi2 a)) * (psi2 b * conj (psi2 b)) * (psi2 c * conj (psi1 c))
        + (psi2 a * conj (psi1 a)) * (psi1 b * conj (psi1 b)) * (psi1 c * conj (psi2 c))
        + (psi2 a * conj (psi1 a)) * (psi1 b * conj (psi2 b)) * (psi2 c * conj (psi2 c))
        + (psi2 a * conj (psi2 a)) * (psi2 b * conj (psi1 b)) * (psi1 c * conj (psi2 c))
        + (psi2 a * conj (psi2 a)) * (psi2 b * conj (psi2 b)) * (psi2 c * conj (psi2 c)) := by
    unfold link; ring
  rw [expand, spin11 a ha, spin11 b hb, spin11 c hc, spin22 a ha, spin22 b hb, spin22 c hc,
    spin21 a ha, spin21 b hb, spin21 c hc, spin12 a ha, spin12 b hb, spin12 c hc]
  simp only [nC, triOf, V3.dot, V3.cross]
  apply Complex.ext
  · simp; ring
  · simp; ring

/-! ## the link angle and the coboundary property of the real solid angle -/

/-- `θ(a, b) = arg⟨a|b⟩` modulo `2π` -/
noncomputable def linkAngle (a b : V3) : Real.Angle := ((Complex.arg (link a b) : ℝ) : Real.Angle)

theorem linkAngle_anti (a b : V3) : linkAngle b a = -linkAngle a b := by
  unfold linkAngle
  rw [link_conj a b, Complex.arg_conj_coe_angle]

theorem linkAngle_self (r : V3) (h : r.normSq = 1) : linkAngle r r = 0 := by
  unfold linkAngle
  rw [link_self r h, Complex.arg_ofReal_of_nonneg (by have := lam_pos r h; linarith)]
  rfl

/-- `x ↦ 2πx` modulo `2π`: its kernel is `ℤ` -/
noncomputable def turns : ℝ →+ Real.Angle := Real.Angle.coeHom.comp (AddMonoidHom.mulLeft (2 * Real.pi))

theorem turns_apply (x : ℝ) : turns x = ((2 * Real.pi * x : ℝ) : Real.Angle) := rfl

theorem turns_eq_zero (x : ℝ) (h : turns x = 0) : ∃ k : ℤ, x = k := by
  rw [turns_apply, Real.Angle.coe_eq_zero_iff] at h
  obtain ⟨n, hn⟩ := h
  refine ⟨n, ?_⟩
  have hp : (2 * Real.pi) ≠ 0 := by have := Real.pi_pos; positivity
  rw [zsmul_eq_mul] at hn
  have : (2 * Real.pi) * x = (2 * Real.pi) * n := by rw [← hn]; ring
  exact mul_left_cancel₀ hp this

theorem one_add_dot_pos (a b : V3) (ha : a.normSq = 1) (hb : b.normSq = 1) (h : 1 + V3.dot a b ≠ 0) :
    (0 : ℝ) < 1 + ((V3.dot a b : Rat) : ℝ) := by
  have := (dot_unit_range a b ha hb).1
  have : (0 : Rat) < 1 + V3.dot a b := by
    rcases lt_or_eq_of_le this with h' | h'
    · linarith
    · exfalso; apply h; rw [← h']; ring
  exact_mod_cast this

theorem link_ne_zero (a b : V3) (ha : a.normSq = 1) (hb : b.normSq = 1) (h : 1 + V3.dot a b ≠ 0) : link a b ≠ 0 := by
  intro h0
  have := link_norm a b ha hb
  rw [h0, zero_mul] at this
  have hp : (0 : ℝ) < 2 * lam a * lam b * (1 + ((V3.dot a b : Rat) : ℝ)) := by
    have := lam_pos a ha; have := lam_pos b hb; have := one_add_dot_pos a b ha hb h
    positivity
  have : ((2 * lam a * lam b * (1 + ((V3.dot a b : Rat) : ℝ)) : ℝ) : ℂ) = 0 := this.symm
  rw [Complex.ofReal_eq_zero] at this
  linarith

/-- `arg N(a,b,c) = θ(a,b) + θ(b,c) + θ(c,a)` modulo `2π` -/
theorem arg_nC_cob (a b c : V3) (h : GoodTri a b c) :
    ((Complex.arg (nC (triOf a b c)) : ℝ) : Real.Angle) = linkAngle a b + linkAngle b c + linkAngle c a := by
  obtain ⟨ha, hb, hc, hab, hbc, hca, _⟩ := h
  have n1 := link_ne_zero a b ha hb hab
  have n2 := link_ne_zero b c hb hc hbc
  have n3 := link_ne_zero c a hc ha hca
  have hp : (0 : ℝ) < 2 * lam a * lam b * lam c := by
    have := lam_pos a ha; have := lam_pos b hb; have := lam_pos c hc
    positivity
  unfold linkAngle
  rw [← Complex.arg_mul_coe_angle n1 n2, ← Complex.arg_mul_coe_angle (mul_ne_zero n1 n2) n3,
    link_triple a b c ha hb hc, Complex.arg_real_mul _ hp]

/-- the radicand of `ρ` is positive on a good triangle -/
theorem goodTri_rho (a b c : V3) (h : GoodTri a b c) :
    0 < 2 * (1 + ((triOf a b c).d12 : ℝ)) * (1 + (triOf a b c).d23) * (1 + (triOf a b c).d31) := by
  obtain ⟨ha, hb, hc, hab, hbc, hca, _⟩ := h
  have p1 := one_add_dot_pos a b ha hb hab
  have p2 := one_add_dot_pos b c hb hc hbc
  have p3 := one_add_dot_pos c a hc ha hca
  simp only [triOf]
  positivity

/-- THE REAL SOLID ANGLE IS A COBOUNDARY MODULO THE FULL SPHERE: on a good triangle
`2π · bergluescher_angle(a, b, c) ≡ θ(a,b) + θ(b,c) + θ(c,a)  (mod 2π)` -/
theorem omegaR_cob (a b c : V3) (h : GoodTri a b c) : Cob turns omegaR linkAngle a b c := by
  unfold Cob
  rw [← arg_nC_cob a b c h]
  unfold blAngleK
  by_cases ht : (triOf a b c).t = 0
  · rw [if_pos ht, map_zero]
    have hre := h.2.2.2.2.2.2 ht
    have : nC (triOf a b c) = (((1 + V3.dot a b + V3.dot b c + V3.dot c a : Rat) : ℝ) : ℂ) := by
      apply Complex.ext
      · simp [nC, triOf]
      · simp only [nC, Complex.ofReal_im]; exact_mod_cast ht
    rw [this, Complex.arg_ofReal_of_nonneg (by exact_mod_cast hre.le)]
    rfl
  · rw [if_neg ht, turns_apply, omegaR_eq_arg _ (goodTri_rho a b c h)]
    congr 1
    unfold nC
    have := Real.pi_pos
    field_simp
    ring

/-! ## integrality of the lattice charge with the real formula -/

/-- the lattice (Berg–Lüscher) charge of `field` with the REAL solid-angle formula: the sum of the
density over all cells times the cell area -/
noncomputable def chargeBLReal (sq : Rat → Rat) (f : Fld) : ℝ :=
  ∑ i ∈ range (f.mesh.nAt 0), ∑ j ∈ range (f.mesh.nAt 1),
    tcdBLReal sq f [i, j] * (((f.mesh.cellAt 0 * f.mesh.cellAt 1 : Rat)) : ℝ)

theorem chargeBLReal_eq (sq : Rat → Rat) (f : Fld) :
    chargeBLReal sq f = ∑ i ∈ range ((orientation sq f).mesh.nAt 0), ∑ j ∈ range ((orientation sq f).mesh.nAt 1),
      tcdBLAtK omegaR (orientation sq f) i j *
        ((((orientation sq f).mesh.cellAt 0 * (orientation sq f).mesh.cellAt 1 : Rat)) : ℝ) := rfl

theorem squareCob_real (o : Fld) (r : V3) (hs : ClosedSheet o r) (i j : Nat) (hi : i + 1 < o.mesh.nAt 0)
    (hj : j + 1 < o.mesh.nAt 1) : SquareCob turns omegaR linkAngle o i j := by
  obtain ⟨g1, g2, g3, g4⟩ := hs.good i j hi hj
  exact ⟨omegaR_cob _ _ _ g1, omegaR_cob _ _ _ g2, omegaR_cob _ _ _ g3, omegaR_cob _ _ _ g4⟩

/-- HALF-INTEGRALITY: on a closed sheet twice the real lattice charge is an integer -/
theorem chargeBLReal_half_integer (sq : Rat → Rat) (f : Fld) (r : V3) (hs : ClosedSheet (orientation sq f) r) :
    ∃ k : ℤ, 2 * chargeBLReal sq f = k := by
  apply turns_eq_zero
  rw [chargeBLReal_eq]
  exact bl_closed_sum turns omegaR linkAngle (orientation sq f) r hs.valid hs.rim hs.c0 hs.c1 linkAngle_anti
    (linkAngle_self r hs.runit) (fun i j hi hj => squareCob_real _ r hs i j hi hj)

/-- a triangle covering less than a quarter of the sphere has `|Ω| < 1/4` (of the full sphere) -/
theorem blAngle_small (a b c : V3) (hg : GoodTri a b c) (h : SmallTri a b c) :
    |blAngleK omegaR (triOf a b c)| < 1 / 4 := by
  unfold blAngleK
  split
  · simp
  · rw [omegaR_eq_arg _ (goodTri_rho a b c hg)]
    have hre : 0 < (nC (triOf a b c)).re := by
      unfold SmallTri at h
      simp only [nC, triOf]
      exact_mod_cast h
    have := Complex.abs_arg_lt_pi_div_two_iff.mpr (Or.inl hre)
    have hp := Real.pi_pos
    unfold nC at this
    rw [abs_div, abs_mul, abs_of_pos (by positivity : (0 : ℝ) < 4 * Real.pi), abs_of_pos (by norm_num : (0 : ℝ) < 2),
      div_lt_iff₀ (by positivity)]
    linarith

/-- INTEGRALITY: on a closed smooth sheet the real lattice charge is an integer -/
theorem chargeBLReal_integer (sq : Rat → Rat) (f : Fld) (r : V3) (hs : ClosedSheet (orientation sq f) r)
    (hsm : SmoothSheet (orientation sq f)) : ∃ k : ℤ, chargeBLReal sq f = k := by
  apply turns_eq_zero
  rw [chargeBLReal_eq]
  apply bl_closed_sum_one turns omegaR linkAngle (orientation sq f) r hs.valid hs.rim hs.c0 hs.c1 linkAngle_anti
    (linkAngle_self r hs.runit) (fun i j hi hj => squareCob_real _ r hs i j hi hj)
  intro i j hi hj
  -- both triangulations of the square have the circulation of the links as their angle mod 1 …
  obtain ⟨s1, s2⟩ := square_cob turns omegaR linkAngle (orientation sq f) linkAngle_anti i j (squareCob_real _ r hs i j hi hj)
  have hz : turns ((blAngleK omegaR (tNE (orientation sq f) i j) + blAngleK omegaR (tSW (orientation sq f) (i + 1) (j + 1)))
      - (blAngleK omegaR (tNW (orientation sq f) (i + 1) j) + blAngleK omegaR (tSE (orientation sq f) i (j + 1)))) = 0 := by
    rw [map_sub, s1, s2, sub_self]
  obtain ⟨k, hk⟩ := turns_eq_zero _ hz
  -- … and each of the four angles is smaller than a quarter
  obtain ⟨g1, g2, g3, g4⟩ := hs.good i j hi hj
  obtain ⟨m1, m2, m3, m4⟩ := hsm i j hi hj
  have d2 : tNW (orientation sq f) (i + 1) j
      = triOf (pv (orientation sq f) (i + 1) j) (pv (orientation sq f) (i + 1) (j + 1)) (pv (orientation sq f) i j) := by
    unfold tNW; simp
  have d3 : tSW (orientation sq f) (i + 1) (j + 1)
      = triOf (pv (orientation sq f) (i + 1) (j + 1)) (pv (orientation sq f) i (j + 1)) (pv (orientation sq f) (i + 1) j) := by
    unfold tSW; simp
  have d4 : tSE (orientation sq f) i (j + 1)
      = triOf (pv (orientation sq f) i (j + 1)) (pv (orientation sq f) i j) (pv (orientation sq f) (i + 1) (j + 1)) := by
    unfold tSE; simp
  have b1 := blAngle_small _ _ _ g1 m1
  have b2 := blAngle_small _ _ _ g2 m2
  have b3 := blAngle_small _ _ _ g3 m3
  have b4 := blAngle_small _ _ _ g4 m4
  rw [← d2] at b2; rw [← d3] at b3; rw [← d4] at b4
  have b1' : |blAngleK omegaR (tNE (orientation sq f) i j)| < 1 / 4 := b1
  rw [abs_lt] at b1' b2 b3 b4
  have hk0 : k = 0 := by
    by_contra hne
    have h1 : (1 : ℝ) ≤ |(k : ℝ)| := by
      have := Int.one_le_abs hne
      exact_mod_cast this
    rw [← hk] at h1
    rw [le_abs] at h1
    rcases h1 with h1 | h1 <;> linarith
  rw [hk0] at hk
  simp only [Int.cast_zero] at hk
  linarith

end DFV.C19
