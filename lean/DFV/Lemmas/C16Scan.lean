import DFV.Lemmas.C16Read
/-! C16 helper lemmas, part 14: what the reader's loop over array names extracts from ANY list
of arrays — the last array called `field`, the last array called `valid`, the names of the
other arrays except `norm` — and the reader as a function of these parts (`fromParts`), so that
statements about reordered / rounded / relabelled grids need no index bookkeeping. -/
namespace DFV.C16
open DFV DFV.Mesh

theorem scan_vdims (l : List VArr) (i : Nat) (s : Scan) :
    (scan l i s).vdims = s.vdims ++ (l.filter isLabel).map fun a => a.name := by
  induction l generalizing i s with
  | nil => simp [scan]
  | cons a as ih =>
    simp only [scan]
    split
    · rename_i h1
      rw [ih]
      simp [List.filter, isLabel, h1]
    · rename_i h1
      split
      · rename_i h2
        rw [ih]
        simp [List.filter, isLabel, h2]
      · rename_i h2
        split
        · rename_i h3
          rw [ih]
          have : isLabel a = true := by simp [isLabel, h1, h2, h3]
          simp [List.filter, this]
        · rename_i h3
          rw [ih]
          have h3' : a.name = "norm" := not_not.mp h3
          simp [List.filter, isLabel, h3']

theorem scan_single_fieldIdx (a : VArr) (i : Nat) (s : Scan) :
    (scan [a] i s).fieldIdx = if a.name = "field" then some i else s.fieldIdx := by
  simp only [scan]
  split
  · rfl
  · split
    · rfl
    · split <;> rfl

theorem scan_single_validIdx (a : VArr) (i : Nat) (s : Scan) :
    (scan [a] i s).validIdx = if a.name = "valid" then some i else s.validIdx := by
  simp only [scan]
  split
  · rename_i h
    have : a.name ≠ "valid" := by rw [h]; decide
    rw [if_neg this]
  · split
    · rfl
    · split <;> rfl

theorem lastNamed_snoc (nm : String) (l : List VArr) (a : VArr) :
    lastNamed nm (l ++ [a]) = if a.name = nm then some a else lastNamed nm l := by
  unfold lastNamed
  rw [List.filter_append]
  by_cases h : a.name = nm
  · simp [h]
  · simp [h]

theorem getD_snoc_lt {α} (l : List α) (a d : α) (i : Nat) (h : i < l.length) : (l ++ [a]).getD i d = l.getD i d := by
  simp [List.getD_eq_getElem?_getD, List.getElem?_append_left h]

theorem getD_snoc_len {α} (l : List α) (a d : α) : (l ++ [a]).getD l.length d = a := by
  simp [List.getD_eq_getElem?_getD]

/-- the `field` index the scan returns points at the LAST array called `field` -/
theorem scan_field_spec (l : List VArr) (s0 : Scan) (hs : s0.fieldIdx = none) :
    match (scan l 0 s0).fieldIdx with
    | none => lastNamed "field" l = none
    | some fi => fi < l.length ∧ lastNamed "field" l = some (l.getD fi default) := by
  induction l using List.reverseRecOn with
  | nil => simp [scan, hs, lastNamed]
  | append_singleton l a ih =>
    rw [scan_append, scan_single_fieldIdx, lastNamed_snoc]
    by_cases ha : a.name = "field"
    · simp only [ha, if_true, Nat.zero_add]
      exact ⟨by simp, by rw [getD_snoc_len]⟩
    · simp only [ha, if_false]
      cases hfi : (scan l 0 s0).fieldIdx with
      | none => rw [hfi] at ih; simpa using ih
      | some fi =>
        rw [hfi] at ih
        obtain ⟨h1, h2⟩ := ih
        exact ⟨by simp only [List.length_append, List.length_singleton]; omega, by rw [getD_snoc_lt _ _ _ _ h1]; exact h2⟩

/-- the `valid` index the scan returns points at the LAST array called `valid` -/
theorem scan_valid_spec (l : List VArr) (s0 : Scan) (hs : s0.validIdx = none) :
    match (scan l 0 s0).validIdx with
    | none => lastNamed "valid" l = none
    | some vi => vi < l.length ∧ lastNamed "valid" l = some (l.getD vi default) := by
  induction l using List.reverseRecOn with
  | nil => simp [scan, hs, lastNamed]
  | append_singleton l a ih =>
    rw [scan_append, scan_single_validIdx, lastNamed_snoc]
    by_cases ha : a.name = "valid"
    · simp only [ha, if_true, Nat.zero_add]
      exact ⟨by simp, by rw [getD_snoc_len]⟩
    · simp only [ha, if_false]
      cases hfi : (scan l 0 s0).validIdx with
      | none => rw [hfi] at ih; simpa using ih
      | some fi =>
        rw [hfi] at ih
        obtain ⟨h1, h2⟩ := ih
        exact ⟨by simp only [List.length_append, List.length_singleton]; omega, by rw [getD_snoc_lt _ _ _ _ h1]; exact h2⟩

/-! ## the reader as a function of the extracted parts -/

/-- the validity the reader builds from the `valid` array (if any) -/
def validOfArr (n : List Nat) : Option VArr → M (NDA Bool)
  | none => .ok (NDA.const n true)
  | some a =>
    match unflat3 n a.vals with
    | .error e => .error e
    | .ok v => .ok (toBool v n)

/-- `_from_vtk` in terms of what its name loop extracts: cell counts, bounds, the `field` array,
the `valid` array, the label names -/
def fromParts (n : List Nat) (p1 p2 : List Rat) (fa va : Option VArr) (labels : List String)
    (sidecar : Option (List (String × Region))) : M Fld :=
  match fa with
  | none => .error .runtime
  | some a =>
    match unflat4 n a.ncomp a.vals with
    | .error e => .error e
    | .ok value =>
      match validOfArr n va with
      | .error e => .error e
      | .ok valid =>
        match meshOf p1 p2 n with
        | .error e => .error e
        | .ok m0 =>
          match loadSubs m0 sidecar with
          | .error e => .error e
          | .ok m =>
            mkField m a.ncomp (cellsOf value n a.ncomp) valid
              (if labels.length ≠ a.ncomp then none else some labels)

/-- **the reader depends on the grid only through these parts** -/
theorem fromCells_eq (g : Grid) (sc : Option (List (String × Region))) :
    fromCells g sc = fromParts g.n g.p1 g.p2 (lastNamed "field" g.cell) (lastNamed "valid" g.cell) (labelNames g.cell) sc := by
  have hf := scan_field_spec g.cell ⟨none, none, []⟩ rfl
  have hv := scan_valid_spec g.cell ⟨none, none, []⟩ rfl
  have hl : (scan g.cell 0 ⟨none, none, []⟩).vdims = labelNames g.cell := by
    rw [scan_vdims]; rfl
  unfold fromCells fromParts
  rw [hl]
  cases hfi : (scan g.cell 0 ⟨none, none, []⟩).fieldIdx with
  | none =>
    rw [hfi] at hf
    simp only at hf
    rw [hf]
  | some fi =>
    rw [hfi] at hf
    obtain ⟨_, hf2⟩ := hf
    rw [hf2]
    simp only
    cases hvi : (scan g.cell 0 ⟨none, none, []⟩).validIdx with
    | none =>
      rw [hvi] at hv
      simp only at hv
      rw [hv]
      rfl
    | some vi =>
      rw [hvi] at hv
      obtain ⟨_, hv2⟩ := hv
      rw [hv2]
      rfl

/-! ## the legacy writer's order of the arrays -/

theorem activeAttr_cases (f : Fld) :
    (activeAttr f = (none, some "field") ∧ f.nvdim = 3) ∨ (activeAttr f = (some "field", none) ∧ f.nvdim = 1) ∨
    (activeAttr f = (none, none) ∧ f.nvdim ≠ 3 ∧ f.nvdim ≠ 1) := by
  unfold activeAttr
  by_cases h3 : f.nvdim = 3
  · left; simp [h3]
  · by_cases h1 : f.nvdim = 1
    · right; left; simp [h1]
    · right; right; simp [h3, h1]

/-- with the active attributes `to_vtk` sets, the legacy file holds the array(s) called `field`
first when the field has one or three components, and keeps the order otherwise -/
theorem legacyOrder_active (f : Fld) (cell : List VArr) :
    legacyOrder (activeAttr f) cell =
      if f.nvdim = 3 ∨ f.nvdim = 1 then (cell.filter fun a => a.name == "field") ++ cell.filter fun a => !(a.name == "field")
      else cell := by
  rcases activeAttr_cases f with ⟨e, h⟩ | ⟨e, h⟩ | ⟨e, h3, h1⟩
  · rw [e, if_pos (Or.inl h)]
    simp [legacyOrder]
  · rw [e, if_pos (Or.inr h)]
    simp [legacyOrder]
  · rw [e, if_neg (by omega)]
    simp [legacyOrder]

theorem lastNamed_split (nm : String) (cell : List VArr) :
    lastNamed nm ((cell.filter fun a => a.name == "field") ++ cell.filter fun a => !(a.name == "field")) = lastNamed nm cell := by
  unfold lastNamed
  rw [List.filter_append, List.filter_filter, List.filter_filter]
  by_cases h : nm = "field"
  · subst h
    have e1 : (cell.filter fun a => (a.name == "field") && (a.name == "field")) = cell.filter fun a => a.name == "field" := by
      apply List.filter_congr; intro a _; simp
    have e2 : (cell.filter fun a => (a.name == "field") && !(a.name == "field")) = [] := by
      rw [List.filter_eq_nil_iff]; intro a _; simp
    rw [e1, e2, List.append_nil]
  · have e1 : (cell.filter fun a => (a.name == nm) && (a.name == "field")) = [] := by
      rw [List.filter_eq_nil_iff]; intro a _
      simp only [Bool.and_eq_true, beq_iff_eq, not_and]
      intro h1 h2; exact h (h1 ▸ h2)
    have e2 : (cell.filter fun a => (a.name == nm) && !(a.name == "field")) = cell.filter fun a => a.name == nm := by
      apply List.filter_congr; intro a _
      by_cases h1 : a.name = nm
      · have : a.name ≠ "field" := fun h2 => h (h1 ▸ h2)
        simp [h1, this]
        intro h3; exact this (h1 ▸ h3)
      · simp [h1]
    rw [e1, e2, List.nil_append]

theorem labelNames_split (cell : List VArr) :
    labelNames ((cell.filter fun a => a.name == "field") ++ cell.filter fun a => !(a.name == "field")) = labelNames cell := by
  unfold labelNames
  rw [List.filter_append, List.filter_filter, List.filter_filter]
  have e1 : (cell.filter fun a => isLabel a && (a.name == "field")) = [] := by
    rw [List.filter_eq_nil_iff]; intro a _
    unfold isLabel
    by_cases h : a.name = "field" <;> simp [h]
  have e2 : (cell.filter fun a => isLabel a && !(a.name == "field")) = cell.filter isLabel := by
    apply List.filter_congr; intro a _
    unfold isLabel
    by_cases h : a.name = "field" <;> simp [h]
  rw [e1, e2, List.nil_append]

theorem lastNamed_legacyOrder (f : Fld) (nm : String) (cell : List VArr) :
    lastNamed nm (legacyOrder (activeAttr f) cell) = lastNamed nm cell := by
  rw [legacyOrder_active]
  split
  · exact lastNamed_split nm cell
  · rfl

theorem labelNames_legacyOrder (f : Fld) (cell : List VArr) :
    labelNames (legacyOrder (activeAttr f) cell) = labelNames cell := by
  rw [legacyOrder_active]
  split
  · exact labelNames_split cell
  · rfl

theorem legacyOrder_length (f : Fld) (cell : List VArr) : (legacyOrder (activeAttr f) cell).length = cell.length := by
  rw [legacyOrder_active]
  split
  · rw [List.length_append]
    have := List.length_eq_length_filter_add (l := cell) fun a => a.name == "field"
    omega
  · rfl

theorem legacyOrder_isEmpty (f : Fld) (cell : List VArr) : (legacyOrder (activeAttr f) cell).isEmpty = cell.isEmpty := by
  have h := legacyOrder_length f cell
  cases h1 : legacyOrder (activeAttr f) cell with
  | nil =>
    rw [h1] at h
    cases cell with
    | nil => rfl
    | cons _ _ => simp at h
  | cons a l =>
    rw [h1] at h
    cases cell with
    | nil => simp at h
    | cons _ _ => rfl

/-- the reader returns the same on a grid whose arrays were put in the legacy file order -/
theorem fromCells_legacyOrder (f : Fld) (g : Grid) (sc : Option (List (String × Region))) :
    fromCells { g with cell := legacyOrder (activeAttr f) g.cell } sc = fromCells g sc := by
  rw [fromCells_eq, fromCells_eq]
  simp only [lastNamed_legacyOrder, labelNames_legacyOrder]
  rfl

/-! ## the text writer's rounding -/

/-- what the text writer does to one array -/
def roundArr (r : Rat → Rat) (a : VArr) : VArr := if a.int then a else { a with vals := a.vals.map r }

theorem roundArr_name (r : Rat → Rat) (a : VArr) : (roundArr r a).name = a.name := by
  unfold roundArr; split <;> rfl

theorem mapGrid_cell (r : Rat → Rat) (g : Grid) : (mapGrid r g).cell = g.cell.map (roundArr r) := rfl

theorem filter_map_roundArr (r : Rat → Rat) (p : String → Bool) (l : List VArr) :
    (l.map (roundArr r)).filter (fun a => p a.name) = (l.filter fun a => p a.name).map (roundArr r) := by
  rw [List.filter_map]
  congr 1
  apply List.filter_congr
  intro a _
  simp [Function.comp, roundArr_name]

theorem lastNamed_map_roundArr (r : Rat → Rat) (nm : String) (l : List VArr) :
    lastNamed nm (l.map (roundArr r)) = (lastNamed nm l).map (roundArr r) := by
  unfold lastNamed
  rw [filter_map_roundArr r (fun s => s == nm), List.getLast?_map]

theorem labelNames_map_roundArr (r : Rat → Rat) (l : List VArr) : labelNames (l.map (roundArr r)) = labelNames l := by
  unfold labelNames
  have : isLabel = fun a : VArr => (fun s : String => s != "field" && s != "valid" && s != "norm") a.name := rfl
  rw [this, filter_map_roundArr r (fun s : String => s != "field" && s != "valid" && s != "norm") l, List.map_map]
  congr 1
  funext a
  simp [Function.comp, roundArr_name]

/-- the reader on the grid a VTK reader returns for the written file: for the legacy forms the
reordering of the arrays makes no difference -/
theorem fromCells_writtenGrid (f : Fld) (r : Rep) (rnd : Rat → Rat) (g : Grid) (sc : Option (List (String × Region))) :
    fromCells (writtenGrid r (activeAttr f) rnd g) sc = fromCells (if r = .txt then mapGrid rnd g else g) sc := by
  cases r with
  | xml => rfl
  | bin => exact fromCells_legacyOrder f g sc
  | txt =>
    simp only [writtenGrid, if_true]
    rw [fromCells_eq, fromCells_eq]
    simp only [mapGrid_cell, lastNamed_map_roundArr, labelNames_map_roundArr, lastNamed_legacyOrder, labelNames_legacyOrder]
    rfl

theorem writtenGrid_isEmpty (f : Fld) (r : Rep) (rnd : Rat → Rat) (g : Grid) :
    (writtenGrid r (activeAttr f) rnd g).cell.isEmpty = g.cell.isEmpty := by
  cases r with
  | xml => rfl
  | bin => exact legacyOrder_isEmpty f g.cell
  | txt =>
    simp only [writtenGrid, mapGrid_cell]
    rw [List.isEmpty_map]
    exact legacyOrder_isEmpty f g.cell

/-- the same for the whole reader (grids without cell data go to the legacy reader) -/
theorem readVtk_writtenGrid (f : Fld) (r : Rep) (rnd : Rat → Rat) (g : Grid) (lines : List LLine)
    (sc : Option (List (String × Region))) :
    readVtk (writtenGrid r (activeAttr f) rnd g) lines sc = readVtk (if r = .txt then mapGrid rnd g else g) lines sc := by
  unfold readVtk
  rw [writtenGrid_isEmpty, fromCells_writtenGrid]
  have : (if r = Rep.txt then mapGrid rnd g else g).cell.isEmpty = g.cell.isEmpty := by
    split
    · simp [mapGrid_cell]
    · rfl
  rw [this]

end DFV.C16
