import DFV.Lemmas.Transform
import DFV.Lemmas.RatFloor
import DFV.Model.C14
/-! helper lemmas for C14: `np.remainder` on rationals -/
namespace DFV.C14
open DFV DFV.T


theorem remainder_nonneg (a c : Rat) (hc : 0 < c) : 0 ≤ Mesh.remainder a c := by
  unfold Mesh.remainder
  have h := rat_floor_le (a / c)
  have : ((a / c).floor : Rat) * c ≤ a := by
    have := mul_le_mul_of_nonneg_right h hc.le
    rwa [div_mul_cancel₀ a hc.ne'] at this
  linarith

theorem remainder_lt (a c : Rat) (hc : 0 < c) : Mesh.remainder a c < c := by
  unfold Mesh.remainder
  have h := rat_lt_floor_add_one (a / c)
  have : a < (((a / c).floor : Rat) + 1) * c := by
    have := mul_lt_mul_of_pos_right h hc
    rwa [div_mul_cancel₀ a hc.ne'] at this
  linarith

theorem remainder_eq (a c : Rat) : a = ((a / c).floor : Rat) * c + Mesh.remainder a c := by
  unfold Mesh.remainder; ring

theorem remainder_of_multiple (z : Int) (c : Rat) (hc : 0 < c) : Mesh.remainder ((z : Rat) * c) c = 0 := by
  unfold Mesh.remainder
  have : ((z : Rat) * c / c) = (z : Rat) := by field_simp
  rw [this]
  have hf : ((z : Rat)).floor = z := rat_floor_eq _ z (le_refl _) (by linarith)
  rw [hf]; ring


end DFV.C14
