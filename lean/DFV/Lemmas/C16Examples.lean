import DFV.Lemmas.C16Round
/-! concrete field used by the non-vacuity `example`s of `Props/C16.lean` (data + its
well-formedness) -/
namespace DFV.C16
open DFV DFV.Mesh

/-- a 2 × 1 × 2 anisotropic mesh with negative offset, two labelled components, one invalid
cell and a one-cell subregion -/
def exField : Fld :=
  { mesh := { region := { pmin := [-1, 0, 1/2], pmax := [1, 3, 3/2], dims := ["x", "y", "z"],
                          units := ["m", "m", "m"], tol := 1/1000000000000 },
              n := [2, 1, 2], bc := "",
              subs := [("s", { pmin := [0, 0, 1/2], pmax := [1, 3, 1], dims := ["x", "y", "z"],
                               units := ["m", "m", "m"], tol := 1/1000000000000 })] },
    nvdim := 2,
    data := NDA.ofList [2, 1, 2] [[3, 4], [0, -1], [5, 12], [7, 1/2]] [],
    valid := NDA.ofList [2, 1, 2] [true, false, true, true] false,
    vdims := some ["a", "b"], vmap := [], unit := none }

theorem exField_wf : WF exField 2 1 2 := by
  refine ⟨?_, rfl, rfl, rfl, by decide, ?_⟩
  · refine ⟨⟨by decide, by decide, by decide, by decide, by decide, ?_⟩, by decide, ?_⟩
    · intro a ha
      have : a = 0 ∨ a = 1 ∨ a = 2 := by
        have : a < 3 := ha
        omega
      rcases this with rfl | rfl | rfl <;> decide +kernel
    · intro a ha
      have : a = 0 ∨ a = 1 ∨ a = 2 := by
        have : a < 3 := ha
        omega
      rcases this with rfl | rfl | rfl <;> decide
  · intro _
    exact ⟨["a", "b"], rfl, rfl, by decide, by decide, by decide, by decide⟩

/-- a rounding that keeps multiples of 1/8 (stand-in for the text writer's ten digits) -/
def rnd8 (q : Rat) : Rat := ((q * 8 + 1/2).floor : Rat) / 8

/-- the example field on a region whose x edge (2/3, cell 1/3) no multiple of 1/8 holds, with a
subregion of one cell in x -/
def exThird : Fld :=
  { exField with mesh := { region := { exField.mesh.region with pmin := [0, 0, 0], pmax := [2/3, 3, 1] },
                           n := [2, 1, 2], bc := "",
                           subs := [("s", { exField.mesh.region with pmin := [0, 0, 0], pmax := [1/3, 3, 1/2] })] } }

end DFV.C16
