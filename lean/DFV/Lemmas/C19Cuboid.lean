import DFV.Lemmas.C19Conv
import DFV.Lemmas.C19Demag
import DFV.Lemmas.C19Mesh
/-!
# C19 — the sum rule for a uniformly magnetised cuboid, composed: the tensor only has to have
trace `−δ` on the cells of the displacement grid (not outside), `demag_field` is shown to accept
the uniformly magnetised fields, and the tensor is instantiated with the model's Newell tensor
(`tensorArr`) evaluated with any rational leaves that satisfy the arctangent identity.
-/
namespace DFV.C19
open DFV

/-- the component of `linConv` along the magnetisation direction for a uniformly magnetised cuboid -/
theorem linConv_uniF (T : NDA (List Rat)) (m : Mesh) (M : Rat) (a : Nat) (ha : a < 3) (q0 q1 q2 : Nat) :
    linConv T (uniF m M a) a [q0, q1, q2]
      = sum3 (m.nAt 0) (m.nAt 1) (m.nAt 2) fun r0 r1 r2 =>
          (T.get [q0 + (m.nAt 0 - 1) - r0, q1 + (m.nAt 1 - 1) - r1, q2 + (m.nAt 2 - 1) - r2]).getD a 0 * M := by
  unfold linConv
  simp only [sumTo, uniF, NDA.const, List.getD_cons_zero, List.getD_cons_succ]
  have e : ∀ b, b < 3 → (tab 3 fun b => if b = a then M else (0 : Rat)).getD b 0 = if b = a then M else 0 :=
    fun b hb => getD_tab _ _ _ _ hb
  rcases (by omega : a = 0 ∨ a = 1 ∨ a = 2) with rfl | rfl | rfl
  · simp only [e 0 (by omega), e 1 (by omega), e 2 (by omega), symIdx]
    simp [sum3, sumTo_zero]
  · simp only [e 0 (by omega), e 1 (by omega), e 2 (by omega), symIdx]
    simp [sum3, sumTo_zero]
  · simp only [e 0 (by omega), e 1 (by omega), e 2 (by omega), symIdx]
    simp [sum3, sumTo_zero]

/-- SUM RULE with the trace hypothesis only on the cells of the `2n−1` displacement grid -/
theorem cuboid_sum_inrange (T : NDA (List Rat)) (m : Mesh) (M : Rat)
    (hT : ∀ j0 j1 j2, j0 < 2 * m.nAt 0 - 1 → j1 < 2 * m.nAt 1 - 1 → j2 < 2 * m.nAt 2 - 1 →
      (T.get [j0, j1, j2]).getD 0 0 + (T.get [j0, j1, j2]).getD 1 0 + (T.get [j0, j1, j2]).getD 2 0
      = if j0 = m.nAt 0 - 1 ∧ j1 = m.nAt 1 - 1 ∧ j2 = m.nAt 2 - 1 then -1 else 0)
    (q0 q1 q2 : Nat) (h0 : q0 < m.nAt 0) (h1 : q1 < m.nAt 1) (h2 : q2 < m.nAt 2) :
    linConv T (uniF m M 0) 0 [q0, q1, q2] + linConv T (uniF m M 1) 1 [q0, q1, q2]
      + linConv T (uniF m M 2) 2 [q0, q1, q2] = -M := by
  rw [linConv_uniF T m M 0 (by omega), linConv_uniF T m M 1 (by omega), linConv_uniF T m M 2 (by omega),
    ← sum3_add, ← sum3_add]
  rw [sum3_single (m.nAt 0) (m.nAt 1) (m.nAt 2) q0 q1 q2 h0 h1 h2]
  · have := hT (q0 + (m.nAt 0 - 1) - q0) (q1 + (m.nAt 1 - 1) - q1) (q2 + (m.nAt 2 - 1) - q2)
      (by omega) (by omega) (by omega)
    rw [if_pos ⟨by omega, by omega, by omega⟩] at this
    linear_combination M * this
  · intro r0 r1 r2 hr0 hr1 hr2 hne
    have := hT (q0 + (m.nAt 0 - 1) - r0) (q1 + (m.nAt 1 - 1) - r1) (q2 + (m.nAt 2 - 1) - r2)
      (by omega) (by omega) (by omega)
    rw [if_neg (by omega)] at this
    linear_combination M * this

/-- `demag_field` accepts a uniformly magnetised field on a 3-d mesh with axes `x, y, z` and a
tensor of the right shape, and stores the linear convolution -/
theorem demagField_uniF (T : NDA (List Rat)) (m : Mesh) (M : Rat) (a : Nat) (h3 : m.ndim = 3)
    (hdims : m.region.dims = ["x", "y", "z"]) (hT : T.shape = [2 * m.nAt 0 - 1, 2 * m.nAt 1 - 1, 2 * m.nAt 2 - 1]) :
    ∃ g, demagField T (uniF m M a) = .ok g ∧ g.mesh = m ∧ g.data.shape = m.n ∧
      ∀ c, c < 3 → ∀ q0 q1 q2, q0 < m.nAt 0 → q1 < m.nAt 1 → q2 < m.nAt 2 →
        (g.data.get [q0, q1, q2]).getD c 0 = linConv T (uniF m M a) c [q0, q1, q2] := by
  unfold demagField
  have e1 : ¬ ((uniF m M a).mesh.ndim ≠ 3) := by simp [uniF, h3]
  have e2 : ¬ ((uniF m M a).nvdim ≠ 3) := by simp [uniF]
  have e3 : ¬ ((uniF m M a).mesh.region.dims ≠ ["x", "y", "z"]) := by simp [uniF, hdims]
  have e4 : ¬ (T.shape ≠ [2 * (uniF m M a).mesh.nAt 0 - 1, 2 * (uniF m M a).mesh.nAt 1 - 1, 2 * (uniF m M a).mesh.nAt 2 - 1]) := by
    simp [uniF, hT]
  rw [if_neg e1, if_neg e2, if_neg e3, if_neg e4]
  refine ⟨_, rfl, rfl, rfl, ?_⟩
  intro c hc q0 q1 q2 h0 h1 h2
  show (tab 3 fun a' => circConv T (uniF m M a) a' _).getD c 0 = _
  rw [getD_tab _ _ _ _ hc]
  simp only [List.getD_cons_zero, List.getD_cons_succ]
  exact circConv_eq_linConv T (uniF m M a) c q0 q1 q2 h0 h1 h2

/-! ## the model's Newell tensor with rational leaves -/

/-- the real-space tensor of `demag_tensor(mesh)` with the leaves evaluated by rational functions -/
def tensorQ (asinh atan sqrt : Rat → Rat) (pi : Rat) (m : Mesh) : NDA (List Rat) :=
  ⟨[2 * m.nAt 0 - 1, 2 * m.nAt 1 - 1, 2 * m.nAt 2 - 1],
   fun j => (tensorArr pi m j).map (evalTerms asinh atan sqrt)⟩

/-- its trace is `−δ` on the displacement grid, for leaves with the arctangent identity -/
theorem tensorQ_trace (asinh atan sqrt : Rat → Rat) (pi : Rat) (hpi : pi ≠ 0) (m : Mesh) (hm : m.Inv) (h3 : m.ndim = 3)
    (hat : ∀ a b c : Rat, 0 < a → 0 < b → 0 < c →
      atan (b * c / (a * sqrt (a ^ 2 + b ^ 2 + c ^ 2))) + atan (c * a / (b * sqrt (a ^ 2 + b ^ 2 + c ^ 2)))
        + atan (a * b / (c * sqrt (a ^ 2 + b ^ 2 + c ^ 2))) = pi / 2)
    (j0 j1 j2 : Nat) (b0 : j0 < 2 * m.nAt 0 - 1) (b1 : j1 < 2 * m.nAt 1 - 1) (b2 : j2 < 2 * m.nAt 2 - 1) :
    ((tensorQ asinh atan sqrt pi m).get [j0, j1, j2]).getD 0 0 + ((tensorQ asinh atan sqrt pi m).get [j0, j1, j2]).getD 1 0
      + ((tensorQ asinh atan sqrt pi m).get [j0, j1, j2]).getD 2 0
      = if j0 = m.nAt 0 - 1 ∧ j1 = m.nAt 1 - 1 ∧ j2 = m.nAt 2 - 1 then -1 else 0 := by
  have c0 := cmCellPos m hm 0 (by omega)
  have c1 := cmCellPos m hm 1 (by omega)
  have c2 := cmCellPos m hm 2 (by omega)
  have p0 := hm.2.2 0 (by omega)
  have p1 := hm.2.2 1 (by omega)
  have p2 := hm.2.2 2 (by omega)
  have e0 : arrPoint m 0 j0 = (((j0 : Int) - ((m.nAt 0 : Int) - 1) : Int) : Rat) * m.cellAt 0 := by
    rw [arrPoint_eq m hm 0 (by omega) j0 b0]; push_cast; ring
  have e1 : arrPoint m 1 j1 = (((j1 : Int) - ((m.nAt 1 : Int) - 1) : Int) : Rat) * m.cellAt 1 := by
    rw [arrPoint_eq m hm 1 (by omega) j1 b1]; push_cast; ring
  have e2 : arrPoint m 2 j2 = (((j2 : Int) - ((m.nAt 2 : Int) - 1) : Int) : Rat) * m.cellAt 2 := by
    rw [arrPoint_eq m hm 2 (by omega) j2 b2]; push_cast; ring
  have hat' : ∀ a b c : Rat, 0 < a → 0 < b → 0 < c →
      evalLeaf asinh atan sqrt (.atan (b * c) a (a ^ 2 + b ^ 2 + c ^ 2))
        + evalLeaf asinh atan sqrt (.atan (c * a) b (a ^ 2 + b ^ 2 + c ^ 2))
        + evalLeaf asinh atan sqrt (.atan (a * b) c (a ^ 2 + b ^ 2 + c ^ 2)) = pi / 2 := by
    intro a b c ha hb hc
    simp only [evalLeaf, ha.ne', hb.ne', hc.ne', if_false]
    exact hat a b c ha hb hc
  have key := trace_grid (K := Rat) (evalLeaf asinh atan sqrt) (pi / 2) pi (m.cellAt 0) (m.cellAt 1) (m.cellAt 2) hpi c0 c1 c2 hat'
    ((j0 : Int) - ((m.nAt 0 : Int) - 1)) ((j1 : Int) - ((m.nAt 1 : Int) - 1)) ((j2 : Int) - ((m.nAt 2 : Int) - 1))
  rw [← e0, ← e1, ← e2] at key
  unfold traceK at key
  simp only [evalK_rat, Rat.cast_id] at key
  have hsum : ((tensorQ asinh atan sqrt pi m).get [j0, j1, j2]).getD 0 0 + ((tensorQ asinh atan sqrt pi m).get [j0, j1, j2]).getD 1 0
      + ((tensorQ asinh atan sqrt pi m).get [j0, j1, j2]).getD 2 0
      = evalTerms asinh atan sqrt ((nAll pi (m.cellAt 0) (m.cellAt 1) (m.cellAt 2) (arrPoint m 0 j0) (arrPoint m 1 j1) (arrPoint m 2 j2)).getD 0 [])
        + evalTerms asinh atan sqrt ((nAll pi (m.cellAt 0) (m.cellAt 1) (m.cellAt 2) (arrPoint m 0 j0) (arrPoint m 1 j1) (arrPoint m 2 j2)).getD 1 [])
        + evalTerms asinh atan sqrt ((nAll pi (m.cellAt 0) (m.cellAt 1) (m.cellAt 2) (arrPoint m 0 j0) (arrPoint m 1 j1) (arrPoint m 2 j2)).getD 2 []) := by
    unfold tensorQ tensorArr nAll
    simp only [List.map_cons, List.getD_cons_zero, List.getD_cons_succ]
  rw [hsum, key]
  have : -(2 * (pi / 2) / pi) = -1 := by field_simp
  rw [this]
  by_cases hc : j0 = m.nAt 0 - 1 ∧ j1 = m.nAt 1 - 1 ∧ j2 = m.nAt 2 - 1
  · rw [if_pos hc, if_pos (by omega)]
  · rw [if_neg hc, if_neg (by omega)]

/-! ## the cube -/

/-- for a cube each of the three summed field components is a third of the total; trace and cyclic
symmetry of the tensor are only needed on the displacement grid -/
theorem cube_third_inrange (T : NDA (List Rat)) (m : Mesh) (M : Rat) (n : Nat)
    (hn0 : m.nAt 0 = n) (hn1 : m.nAt 1 = n) (hn2 : m.nAt 2 = n)
    (hT : ∀ j0 j1 j2, j0 < 2 * n - 1 → j1 < 2 * n - 1 → j2 < 2 * n - 1 →
      (T.get [j0, j1, j2]).getD 0 0 + (T.get [j0, j1, j2]).getD 1 0 + (T.get [j0, j1, j2]).getD 2 0
      = if j0 = n - 1 ∧ j1 = n - 1 ∧ j2 = n - 1 then -1 else 0)
    (hsym : ∀ j0 j1 j2, j0 < 2 * n - 1 → j1 < 2 * n - 1 → j2 < 2 * n - 1 →
      (T.get [j0, j1, j2]).getD 1 0 = (T.get [j1, j2, j0]).getD 0 0 ∧
      (T.get [j0, j1, j2]).getD 2 0 = (T.get [j2, j0, j1]).getD 0 0)
    (a : Nat) (ha : a < 3) :
    sum3 n n n (fun q0 q1 q2 => linConv T (uniF m M a) a [q0, q1, q2]) = -M * (n : Rat) ^ 3 / 3 := by
  have key : ∀ a, a < 3 → ∀ q0 q1 q2, linConv T (uniF m M a) a [q0, q1, q2]
      = sum3 n n n fun r0 r1 r2 =>
          (T.get [q0 + (n - 1) - r0, q1 + (n - 1) - r1, q2 + (n - 1) - r2]).getD a 0 * M := by
    intro a ha q0 q1 q2
    rw [linConv_uniF T m M a ha, hn0, hn1, hn2]
  let W : Nat → Nat → Nat → Nat → Nat → Nat → Rat := fun q0 q1 q2 r0 r1 r2 =>
    (T.get [q0 + (n - 1) - r0, q1 + (n - 1) - r1, q2 + (n - 1) - r2]).getD 0 0 * M
  let S : Nat → Rat := fun a => sum3 n n n (fun q0 q1 q2 => linConv T (uniF m M a) a [q0, q1, q2])
  have hS0 : S 0 = sum3 n n n (fun q0 q1 q2 => sum3 n n n (fun r0 r1 r2 => W q0 q1 q2 r0 r1 r2)) :=
    sum3_congr n n n _ _ (fun q0 q1 q2 _ _ _ => key 0 (by omega) q0 q1 q2)
  have hS1 : S 1 = S 0 := by
    rw [hS0]
    have : S 1 = sum3 n n n (fun q0 q1 q2 => sum3 n n n (fun r0 r1 r2 => W q1 q2 q0 r1 r2 r0)) :=
      sum3_congr n n n _ _ (fun q0 q1 q2 h0 h1 h2 => by
        rw [key 1 (by omega) q0 q1 q2]
        exact sum3_congr n n n _ _ (fun r0 r1 r2 g0 g1 g2 => by
          rw [(hsym _ _ _ (by omega) (by omega) (by omega)).1]))
    rw [this]
    rw [sum3_congr n n n _ (fun q0 q1 q2 => sum3 n n n (fun r0 r1 r2 => W q1 q2 q0 r0 r1 r2))
      (fun q0 q1 q2 _ _ _ => sum3_rot n (fun r0 r1 r2 => W q1 q2 q0 r0 r1 r2))]
    exact sum3_rot n (fun q0 q1 q2 => sum3 n n n (fun r0 r1 r2 => W q0 q1 q2 r0 r1 r2))
  have hS2 : S 2 = S 0 := by
    rw [hS0]
    have : S 2 = sum3 n n n (fun q0 q1 q2 => sum3 n n n (fun r0 r1 r2 => W q2 q0 q1 r2 r0 r1)) :=
      sum3_congr n n n _ _ (fun q0 q1 q2 h0 h1 h2 => by
        rw [key 2 (by omega) q0 q1 q2]
        exact sum3_congr n n n _ _ (fun r0 r1 r2 g0 g1 g2 => by
          rw [(hsym _ _ _ (by omega) (by omega) (by omega)).2]))
    rw [this]
    rw [sum3_congr n n n _ (fun q0 q1 q2 => sum3 n n n (fun r0 r1 r2 => W q2 q0 q1 r0 r1 r2))
      (fun q0 q1 q2 _ _ _ => by
        rw [← sum3_rot n (fun r0 r1 r2 => W q2 q0 q1 r0 r1 r2)]
        exact sum3_rot n (fun r0 r1 r2 => W q2 q0 q1 r1 r2 r0))]
    rw [← sum3_rot n (fun q0 q1 q2 => sum3 n n n (fun r0 r1 r2 => W q0 q1 q2 r0 r1 r2))]
    exact sum3_rot n (fun q0 q1 q2 => sum3 n n n (fun r0 r1 r2 => W q1 q2 q0 r0 r1 r2))
  have htot : S 0 + S 1 + S 2 = -M * (n : Rat) ^ 3 := by
    show sum3 n n n _ + sum3 n n n _ + sum3 n n n _ = _
    rw [← sum3_add, ← sum3_add]
    rw [sum3_congr n n n _ (fun _ _ _ => -M) (fun q0 q1 q2 h0 h1 h2 =>
      cuboid_sum_inrange T m M (by rw [hn0, hn1, hn2]; exact hT) q0 q1 q2 (by omega) (by omega) (by omega))]
    rw [sum3_const]; ring
  have h3 : S a = S 0 := by
    rcases (by omega : a = 0 ∨ a = 1 ∨ a = 2) with rfl | rfl | rfl
    · rfl
    · exact hS1
    · exact hS2
  show S a = _
  rw [h3]
  rw [hS1, hS2] at htot
  linarith

/-- the model's tensor has the cyclic symmetry on a cube (equal counts, equal cell edges) -/
theorem tensorQ_cubic (asinh atan sqrt : Rat → Rat) (pi : Rat) (m : Mesh) (n : Nat)
    (hn0 : m.nAt 0 = n) (hn1 : m.nAt 1 = n) (hn2 : m.nAt 2 = n)
    (hc1 : m.cellAt 1 = m.cellAt 0) (hc2 : m.cellAt 2 = m.cellAt 0) (j0 j1 j2 : Nat) :
    ((tensorQ asinh atan sqrt pi m).get [j0, j1, j2]).getD 1 0 = ((tensorQ asinh atan sqrt pi m).get [j1, j2, j0]).getD 0 0 ∧
    ((tensorQ asinh atan sqrt pi m).get [j0, j1, j2]).getD 2 0 = ((tensorQ asinh atan sqrt pi m).get [j2, j0, j1]).getD 0 0 := by
  have p1 : ∀ j, arrPoint m 1 j = arrPoint m 0 j := by
    intro j; unfold arrPoint; rw [hn1, hn0, hc1]
  have p2 : ∀ j, arrPoint m 2 j = arrPoint m 0 j := by
    intro j; unfold arrPoint; rw [hn2, hn0, hc2]
  unfold tensorQ tensorArr nAll
  simp only [List.map_cons, List.getD_cons_zero, List.getD_cons_succ, hc1, hc2, p1, p2]
  trivial

end DFV.C19
