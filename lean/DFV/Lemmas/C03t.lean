import DFV.Lemmas.C03s
/-! C03 helper lemmas, part t: further refusals, the per-cell specification spelled out for
the usual operand shapes, compatibility behind `dot`, and `LiftOk` of typed trees. -/
namespace DFV.C03
open DFV

/-! ## refusals -/

theorem bshape_last_none (s t : List Nat) (k m : Nat) (h : bdim k m = none) : bshape (s ++ [k]) (t ++ [m]) = none := by
  cases hb : bshape (s ++ [k]) (t ++ [m]) with
  | none => rfl
  | some r =>
    obtain ⟨d, _, hd, _⟩ := bshape_last s t r k m hb
    rw [h] at hd; cases hd

theorem bdim_none (k m : Nat) (h : k ≠ m) (hk : k ≠ 1) (hm : m ≠ 1) : bdim k m = none := by
  simp [bdim, h, hk, hm]

theorem npBin_last_rejected {α β γ : Type} (fn : α → β → γ) (A : NDA α) (B : NDA β) (s t : List Nat) (k m : Nat)
    (hA : A.shape = s ++ [k]) (hB : B.shape = t ++ [m]) (h : k ≠ m) (hk : k ≠ 1) (hm : m ≠ 1) :
    npBin fn A B = .error .value := by
  unfold npBin
  rw [hA, hB, bshape_last_none s t k m (bdim_none k m h hk hm)]

/-- binary ufuncs refuse two fields with different component counts (both above 1) -/
theorem ufunc2_nvdim_rejected (fn : GQ → GQ → GQ) (pw : Bool) (f o : CF) (hf : CFwf f) (ho : CFwf o)
    (hne : f.nvdim ≠ o.nvdim) (h1 : f.nvdim ≠ 1) (h2 : o.nvdim ≠ 1) :
    ∃ e, ufunc2 fn pw (.fld f) (.fld o) = .error e := by
  have hnb := npBin_last_rejected fn f.data o.data _ _ _ _ hf.1 ho.1 hne h1 h2
  simp only [ufunc2, firstFld, ufuncInput]
  cases ufuncMeshOk f (.fld f) with
  | error e => exact ⟨e, rfl⟩
  | ok u =>
    simp only
    cases ufuncMeshOk f (.fld o) with
    | error e => exact ⟨e, rfl⟩
    | ok u' =>
      simp only
      split
      · exact ⟨_, rfl⟩
      · rw [hnb]; exact ⟨_, rfl⟩

/-- `_apply_operator` refuses a constant vector whose length is not the component count -/
theorem applyOperator_vector_rejected (fn : GQ → GQ → GQ) (pw : Bool) (f : CF) (hw : CFwf f) (a : NDA GQ) (k : Kind)
    (np : Bool) (m : Nat) (ha : a.shape = [m]) (hm : m ≠ f.nvdim) (h1 : f.nvdim ≠ 1) :
    applyOperator fn pw f (.raw (.arr a k np)) = .error .type := by
  have hc : ¬ (f.data.shape = a.shape ∨ f.nvdim = a.shape.headD 0 ∨ f.nvdim = 1) := by
    rw [ha, hw.1]
    rintro (h | h | h)
    · have hl := congrArg List.length h
      simp only [List.length_append, List.length_cons, List.length_nil] at hl
      have hn : f.mesh.n = [] := List.eq_nil_of_length_eq_zero (by omega)
      rw [hn] at h
      simp at h
      exact hm h.symm
    · exact hm (by simpa using h.symm)
    · exact h1 h
  simp only [applyOperator]
  rw [if_neg (by rw [ha]; simp), if_pos hc]

/-- the same vector on the left of a NumPy-dispatched operator -/
theorem ufunc2_vector_rejected (fn : GQ → GQ → GQ) (pw : Bool) (f : CF) (hw : CFwf f) (a : NDA GQ) (k : Kind)
    (m : Nat) (ha : a.shape = [m]) (hm : m ≠ f.nvdim) (h1 : f.nvdim ≠ 1) (hm1 : m ≠ 1) :
    ∃ e, ufunc2 fn pw (.raw (.arr a k true)) (.fld f) = .error e := by
  have hnb := npBin_last_rejected fn a f.data [] f.mesh.n m f.nvdim (by rw [ha]; rfl) hw.1 hm hm1 h1
  simp only [ufunc2, firstFld, ufuncInput, if_true, ufuncMeshOk]
  cases meshAllclose f.mesh f.mesh with
  | error e => exact ⟨e, rfl⟩
  | ok t =>
    cases t with
    | false => exact ⟨_, rfl⟩
    | true =>
      simp only
      split
      · exact ⟨_, rfl⟩
      · rw [hnb]; exact ⟨_, rfl⟩

/-! ## the per-cell specification for the usual operand shapes -/

/-- a constant vector contributes its `k` entries to every cell -/
theorem opdCell_vector (a : NDA GQ) (k : Nat) (ha : a.shape = [k]) (i : List Nat) :
    opdCell a i = tab k (fun c => a.get [c]) := by
  unfold opdCell cellOfB
  rw [if_neg (by rw [ha]; simp), ha]
  show tab k _ = _
  apply tab_congr
  intro c hc
  congr 1
  unfold bproj
  simp only [List.reverse_cons, List.reverse_nil, List.nil_append, List.reverse_append, List.cons_append]
  simp only [bprojRev]
  by_cases hk : k = 1
  · subst hk
    have : c = 0 := by omega
    subst this
    simp
  · simp [hk]

/-- a per-cell array contributes its own row of cell `i` -/
theorem opdCell_percell (a : NDA GQ) (n : List Nat) (k : Nat) (ha : a.shape = n ++ [k]) (i : List Nat)
    (hi : inRange n i = true) : opdCell a i = cellOf a i k := by
  unfold opdCell cellOfB cellOf
  rw [if_neg (by rw [ha]; simp), ha, getLastD_append_single]
  apply tab_congr
  intro c hc
  rw [bproj_inRange]
  rw [inRange_append_single]
  exact ⟨hi, hc⟩

/-- equal lengths: plain element-by-element combination -/
theorem bz_zipWith (fn : GQ → GQ → GQ) (xs ys : List GQ) (h : xs.length = ys.length) :
    bz fn xs ys = List.zipWith fn xs ys := by
  unfold bz
  apply List.ext_getElem
  · by_cases h1 : xs.length = 1
    · simp [h1, ← h]
    · simp [h1, ← h]
  · intro c h1 h2
    simp only [List.length_zipWith] at h2
    have hx : c < xs.length := by omega
    have hy : c < ys.length := by omega
    rw [getElem_tab, List.getElem_zipWith]
    by_cases hl : xs.length = 1
    · have hc : c = 0 := by omega
      subst hc
      have hl' : ys.length = 1 := by omega
      simp [hl, hl', List.getD_eq_getElem?_getD]
    · have hl' : ¬ ys.length = 1 := by omega
      simp [hl, hl', List.getD_eq_getElem?_getD, List.getElem?_eq_getElem hx, List.getElem?_eq_getElem hy]

/-- a one-element list on the right is combined with every component -/
theorem bz_scalar_right (fn : GQ → GQ → GQ) (xs : List GQ) (y : GQ) : bz fn xs [y] = xs.map (fun x => fn x y) := by
  unfold bz
  apply List.ext_getElem
  · by_cases h1 : xs.length = 1 <;> simp [h1]
  · intro c h1 h2
    simp only [List.length_map] at h2
    rw [getElem_tab, List.getElem_map]
    by_cases hl : xs.length = 1
    · have hc : c = 0 := by omega
      subst hc
      simp [hl, List.getD_eq_getElem?_getD]
    · simp [hl, List.getD_eq_getElem?_getD, List.getElem?_eq_getElem h2]

/-! ## compatibility of the operands of an accepted `dot` -/

theorem applyBin_dot_compat (env : Env) (n : List Nat) (l r : Val) (g : CF)
    (cl cr : List Nat → List GQ) (vl vr : List Nat → Bool)
    (hl : ValCells n l cl vl) (hr : ValCells n r cr vr)
    (h : applyBin env .dot l r = .ok (.fld g)) :
    ∀ i, inRange n i = true → Compat (cl i).length (cr i).length := by
  cases l with
  | fld f =>
    have hf : Cells n f cl vl := hl
    have h' : dotOp f r = .ok g := by
      simp only [applyBin, forwardOp] at h; exact wrap_ok h
    exact (dotOp_val_cells n f g r cl cr vl vr hf hr h').2.2
  | raw o =>
    cases r with
    | raw o2 => simp [applyBin] at h
    | fld f =>
      have hf : Cells n f cr vr := hr
      by_cases hnp : isNp o = true
      · simp [applyBin, hnp] at h
      · have hnp' : isNp o = false := by simpa using hnp
        have h' : dotOp f (.raw o) = .ok g := by
          simp only [applyBin, hnp', Bool.false_eq_true, if_false, reflectedOp] at h; exact wrap_ok h
        have hraw : ValCells n (.raw o) cl vl := hl
        intro i hi
        exact compat_symm ((dotOp_val_cells n f g _ cr cl vr vl hf hraw h').2.2 i hi)

/-! ## typed trees satisfy the side condition of the cell-wise theorems -/

theorem hasTy_not_opd (env : Env) (M : Mesh) (od : Opd) (t : Ty) : ¬ HasTy env M (.opd od) t := by
  intro h; cases h

theorem hasTy_operandOk (env : Env) (M : Mesh) (n : List Nat) (e : Expr) (t : Ty) (h : HasTy env M e t) :
    operandOk n e := by
  cases e with
  | opd od => exact absurd h (hasTy_not_opd env M od t)
  | leaf k => trivial
  | un u e => trivial
  | bin b l r => trivial

theorem hasTy_liftOk (env : Env) (M : Mesh) (e : Expr) (t : Ty) (h : HasTy env M e t) :
    LiftOk M.n e := by
  induction h with
  | leaf k f hk => trivial
  | un u e t _ ih => exact ih
  | arithFF b l r tl tr d hb _ _ _ ihl ihr =>
    exact ⟨ihl, ihr, by intro hc; rcases hc with rfl | rfl <;> simp [isArith] at hb⟩
  | arithFR b l od t hb _ _ ih =>
    refine ⟨ih, trivial, ?_⟩
    intro hc
    rcases hb with hb | ⟨hb, _⟩
    · rcases hc with rfl | rfl <;> simp [isArith] at hb
    · subst hb; rcases hc with hc | hc <;> cases hc
  | arithRF b od r t hb _ _ ih =>
    exact ⟨trivial, ih, by intro hc; rcases hc with rfl | rfl <;> simp [isArith] at hb⟩
  | dotFF l r tl tr _ _ _ ihl ihr => exact ⟨ihl, ihr, by intro hc; rcases hc with hc | hc <;> cases hc⟩
  | dotFR l a k np t _ _ ih => exact ⟨ih, trivial, by intro hc; rcases hc with hc | hc <;> cases hc⟩
  | dotRF a k r t _ _ ih => exact ⟨trivial, ih, by intro hc; rcases hc with hc | hc <;> cases hc⟩
  | crossFF l r tl tr m _ _ _ _ _ ihl ihr => exact ⟨ihl, ihr, by intro hc; rcases hc with hc | hc <;> cases hc⟩
  | crossFR l a k np t m _ _ _ _ ih => exact ⟨ih, trivial, by intro hc; rcases hc with hc | hc <;> cases hc⟩
  | crossRF a k r t m _ _ _ _ ih => exact ⟨trivial, ih, by intro hc; rcases hc with hc | hc <;> cases hc⟩
  | shlFF l r tl tr m hl hr _ ihl ihr =>
    exact ⟨ihl, ihr, fun _ => ⟨hasTy_operandOk env M M.n l tl hl, hasTy_operandOk env M M.n r tr hr⟩⟩
  | angleFF l r tl tr hl hr _ ihl ihr =>
    exact ⟨ihl, ihr, fun _ => ⟨hasTy_operandOk env M M.n l tl hl, hasTy_operandOk env M M.n r tr hr⟩⟩
  | ufuncFF b l r tl tr hb _ _ _ ihl ihr =>
    exact ⟨ihl, ihr, by intro hc; rcases hc with rfl | rfl <;> simp [isUArith] at hb⟩
  | ufuncFR b l od t hb _ _ _ ih =>
    refine ⟨ih, trivial, ?_⟩
    intro hc
    rcases hb with hb | ⟨hb, _⟩
    · rcases hc with rfl | rfl <;> simp [isUArith] at hb
    · subst hb; rcases hc with hc | hc <;> cases hc
  | ufuncRF b od r t hb _ _ _ ih =>
    exact ⟨trivial, ih, by intro hc; rcases hc with rfl | rfl <;> simp [isUArith] at hb⟩
  | powFF l r tl tr d _ _ _ _ ihl ihr => exact ⟨ihl, ihr, by intro hc; rcases hc with hc | hc <;> cases hc⟩
  | powRF od r t _ _ _ _ _ ih => exact ⟨trivial, ih, by intro hc; rcases hc with hc | hc <;> cases hc⟩
  | upowFF l r tl tr _ _ _ _ ihl ihr => exact ⟨ihl, ihr, by intro hc; rcases hc with hc | hc <;> cases hc⟩
  | upowRF od r t _ _ _ _ ih => exact ⟨trivial, ih, by intro hc; rcases hc with hc | hc <;> cases hc⟩
  | ufuncSF b l r tl tr hb _ _ _ _ _ _ ihl ihr =>
    exact ⟨ihl, ihr, by intro hc; rcases hc with rfl | rfl <;> simp [isUfuncBin] at hb⟩
  | shlFR l od t hl hfit ih =>
    refine ⟨ih, trivial, fun _ => ⟨hasTy_operandOk env M M.n l t hl, ?_⟩⟩
    cases od with
    | num z k np => trivial
    | arr a k np => obtain ⟨m, _, _, hne⟩ := hfit; exact hne
  | shlRF od r t hr hfit _ ih =>
    refine ⟨trivial, ih, fun _ => ⟨?_, hasTy_operandOk env M M.n r t hr⟩⟩
    cases od with
    | num z k np => trivial
    | arr a k np => obtain ⟨m, _, _, hne⟩ := hfit; exact hne
  | angleFR l od t hl hfit ih =>
    refine ⟨ih, trivial, fun _ => ⟨hasTy_operandOk env M M.n l t hl, ?_⟩⟩
    cases od with
    | num z k np => trivial
    | arr a k np => exact hfit.2

end DFV.C03
