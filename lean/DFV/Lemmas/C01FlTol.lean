import DFV.Lemmas.C01Fl
/-! C01 helper lemmas, round 2: the containment test of `Region.__contains__` evaluated in
rounded arithmetic (`Region.containsAxFl`) against the exact tolerance band: it accepts
everything inside `(1 − 4u)·band` and nothing outside `(1 + 5u)·band`; the rounded index of a
coordinate outside the closed edge. -/
namespace DFV.C01
open DFV DFV.Mesh

/-- inside up to the comparison tolerance scaled by `s` -/
def TolInsideS (r : Region) (s : Rat) (p : List Rat) : Prop :=
  p.length = r.ndim ∧ ∀ a, a < r.ndim →
    r.lo a - p.getD a 0 ≤ s * band r (p.getD a 0) ∧ p.getD a 0 - r.hi a ≤ s * band r (p.getD a 0)

theorem tolInsideS_one (r : Region) (p : List Rat) : TolInsideS r 1 p ↔ TolInside r p := by
  unfold TolInsideS TolInside; simp

section Basic
variable (R : Rounding)

theorem fl_bounds_nonneg (x : Rat) (hx : 0 ≤ x) : (1 - R.u) * x ≤ R.fl x ∧ R.fl x ≤ (1 + R.u) * x := by
  have := R.err x
  rw [abs_of_nonneg hx, abs_le] at this
  constructor <;> linarith

theorem fl_abs_bounds (x : Rat) : (1 - R.u) * |x| ≤ |R.fl x| ∧ |R.fl x| ≤ (1 + R.u) * |x| := by
  have h := R.err x
  constructor
  · have := abs_sub_abs_le_abs_sub x (R.fl x)
    rw [abs_sub_comm] at this
    linarith
  · have := abs_le_of_err R.u x (R.fl x) h
    exact this

theorem fl_neg_of_neg (x : Rat) (hx : x < 0) : R.fl x < 0 := by
  have := R.err x
  have hu := R.u_small
  rw [abs_of_neg hx, abs_le] at this
  nlinarith

end Basic

theorem foldl_min_mem (xs : List Rat) (x : Rat) : xs.foldl min x = x ∨ xs.foldl min x ∈ xs := by
  induction xs generalizing x with
  | nil => left; rfl
  | cons y ys ih =>
    simp only [List.foldl_cons]
    rcases ih (min x y) with h | h
    · rcases min_choice x y with e | e
      · left; rw [h, e]
      · right; rw [h, e]; simp
    · right; simp [h]

theorem listMin_mem (xs : List Rat) (h : xs ≠ []) : listMin xs ∈ xs := by
  cases xs with
  | nil => exact absurd rfl h
  | cons x xs =>
    show xs.foldl min x ∈ x :: xs
    rcases foldl_min_mem xs x with e | e
    · rw [e]; simp
    · simp [e]

/-- the smallest of the rounded edges is within `u` of the smallest edge -/
theorem listMin_fl_bounds (R : Rounding) (n : Nat) (hn : 0 < n) (f : Nat → Rat) (hf : ∀ a, a < n → 0 < f a) :
    (1 - R.u) * listMin (tab n f) ≤ listMin (tab n fun a => R.fl (f a)) ∧
    listMin (tab n fun a => R.fl (f a)) ≤ (1 + R.u) * listMin (tab n f) := by
  have hu := R.u_nonneg
  have hu1 : R.u ≤ 1 := le_trans R.u_small (by norm_num)
  have hne : ∀ g : Nat → Rat, tab n g ≠ [] := by
    intro g e
    have := congrArg List.length e
    simp at this; omega
  constructor
  · obtain ⟨b, hb, e⟩ := mem_tab _ _ _ (listMin_mem _ (hne fun a => R.fl (f a)))
    rw [e]
    have h1 := (fl_bounds_nonneg R (f b) (hf b hb).le).1
    have h2 : listMin (tab n f) ≤ f b := by
      apply listMin_le_mem
      unfold tab; exact List.mem_map.mpr ⟨b, List.mem_range.mpr hb, rfl⟩
    have : (1 - R.u) * listMin (tab n f) ≤ (1 - R.u) * f b := mul_le_mul_of_nonneg_left h2 (by linarith)
    linarith
  · obtain ⟨b, hb, e⟩ := mem_tab _ _ _ (listMin_mem _ (hne f))
    rw [e]
    have h1 := (fl_bounds_nonneg R (f b) (hf b hb).le).2
    have h2 : listMin (tab n fun a => R.fl (f a)) ≤ R.fl (f b) := by
      apply listMin_le_mem
      unfold tab; exact List.mem_map.mpr ⟨b, List.mem_range.mpr hb, rfl⟩
    linarith

section Reg
variable (R : Rounding) (r : Region)

/-- the computed threshold `fl(atol_fl + fl(rtol·|x|))` is within `(1 ± u)³` of the exact band -/
theorem thresholdFl_bounds (hr : r.Inv) (ht : 0 ≤ r.tol) (x : Rat) :
    (1 - R.u) * ((1 - R.u) * ((1 - R.u) * band r x)) ≤ R.fl (r.atolFl R.fl + R.fl (r.tol * absR x)) ∧
    R.fl (r.atolFl R.fl + R.fl (r.tol * absR x)) ≤ (1 + R.u) * ((1 + R.u) * ((1 + R.u) * band r x)) := by
  have hu := R.u_nonneg
  have hu1 : R.u ≤ 1 := le_trans R.u_small (by norm_num)
  have hpos : ∀ a, a < r.ndim → 0 < r.hi a - r.lo a := fun a ha => by
    have := hr.2.2.2.2.2 a ha; linarith
  obtain ⟨m1, m2⟩ := listMin_fl_bounds R r.ndim hr.1 (fun a => r.hi a - r.lo a) hpos
  have hM0 : 0 ≤ listMin (tab r.ndim fun a => r.hi a - r.lo a) := by
    apply listMin_nonneg
    intro y hy
    obtain ⟨a, ha, e⟩ := mem_tab _ _ _ hy
    rw [e]; exact hpos a ha
  have hatol : r.atol = listMin (tab r.ndim fun a => r.hi a - r.lo a) * r.tol := rfl
  set M := listMin (tab r.ndim fun a => r.hi a - r.lo a) with hM
  set M' := listMin (tab r.ndim fun a => R.fl (r.hi a - r.lo a)) with hM'
  have hM'0 : 0 ≤ M' := by nlinarith
  -- atolFl
  have hA : r.atolFl R.fl = R.fl (M' * r.tol) := rfl
  have hP0 : 0 ≤ M' * r.tol := mul_nonneg hM'0 ht
  obtain ⟨a1, a2⟩ := fl_bounds_nonneg R (M' * r.tol) hP0
  have a3 : (1 - R.u) * M * r.tol ≤ M' * r.tol := mul_le_mul_of_nonneg_right m1 ht
  have a4 : M' * r.tol ≤ (1 + R.u) * M * r.tol := mul_le_mul_of_nonneg_right m2 ht
  have hat0 : 0 ≤ r.atol := by rw [hatol]; exact mul_nonneg hM0 ht
  have A1 : (1 - R.u) * ((1 - R.u) * r.atol) ≤ r.atolFl R.fl := by
    rw [hA, hatol]
    have : (1 - R.u) * ((1 - R.u) * M * r.tol) ≤ (1 - R.u) * (M' * r.tol) := mul_le_mul_of_nonneg_left a3 (by linarith)
    nlinarith
  have A2 : r.atolFl R.fl ≤ (1 + R.u) * ((1 + R.u) * r.atol) := by
    rw [hA, hatol]
    have : (1 + R.u) * (M' * r.tol) ≤ (1 + R.u) * ((1 + R.u) * M * r.tol) := mul_le_mul_of_nonneg_left a4 (by linarith)
    nlinarith
  -- rtol |x|
  rw [absR_eq_abs]
  have hx0 : 0 ≤ r.tol * |x| := mul_nonneg ht (abs_nonneg x)
  obtain ⟨b1, b2⟩ := fl_bounds_nonneg R (r.tol * |x|) hx0
  have B1 : (1 - R.u) * ((1 - R.u) * (r.tol * |x|)) ≤ R.fl (r.tol * |x|) := by nlinarith
  have B2 : R.fl (r.tol * |x|) ≤ (1 + R.u) * ((1 + R.u) * (r.tol * |x|)) := by nlinarith
  have hS0 : 0 ≤ r.atolFl R.fl + R.fl (r.tol * |x|) := by
    have : 0 ≤ (1 - R.u) * ((1 - R.u) * r.atol) := by positivity
    have : 0 ≤ (1 - R.u) * ((1 - R.u) * (r.tol * |x|)) := by positivity
    linarith
  obtain ⟨c1, c2⟩ := fl_bounds_nonneg R _ hS0
  have S1 : (1 - R.u) * ((1 - R.u) * band r x) ≤ r.atolFl R.fl + R.fl (r.tol * |x|) := by
    unfold band; linarith
  have S2 : r.atolFl R.fl + R.fl (r.tol * |x|) ≤ (1 + R.u) * ((1 + R.u) * band r x) := by
    unfold band; linarith
  constructor
  · have := mul_le_mul_of_nonneg_left S1 (by linarith : 0 ≤ 1 - R.u)
    linarith
  · have := mul_le_mul_of_nonneg_left S2 (by linarith : 0 ≤ 1 + R.u)
    linarith

/-- `np.isclose(face, x)` in rounded arithmetic, against the exact band, for a coordinate at
distance `d = |face − x|` from the face -/
theorem iscloseFl_sandwich (hr : r.Inv) (ht : 0 ≤ r.tol) (face x : Rat) :
    (|face - x| ≤ (1 - 4 * R.u) * band r x → Region.iscloseFl R.fl face x r.tol (r.atolFl R.fl) = true) ∧
    (Region.iscloseFl R.fl face x r.tol (r.atolFl R.fl) = true → |face - x| ≤ (1 + 5 * R.u) * band r x) := by
  have hu := R.u_nonneg
  have hu16 := R.u_small
  obtain ⟨t1, t2⟩ := thresholdFl_bounds R r hr ht x
  obtain ⟨d1, d2⟩ := fl_abs_bounds R (face - x)
  have hb := band_nonneg r hr ht x
  have hd0 := abs_nonneg (face - x)
  unfold Region.iscloseFl
  rw [absR_eq_abs, decide_eq_true_iff]
  set T := R.fl (r.atolFl R.fl + R.fl (r.tol * absR x)) with hT
  set B := band r x with hB
  set d := |face - x| with hd
  constructor
  · intro h
    -- |fl(face - x)| ≤ (1+u) d ≤ (1+u)(1-4u) B ≤ (1-u)^3 B ≤ T
    have k1 : (1 + R.u) * d ≤ (1 + R.u) * ((1 - 4 * R.u) * B) := mul_le_mul_of_nonneg_left h (by linarith)
    have k2 : (1 + R.u) * ((1 - 4 * R.u) * B) ≤ (1 - R.u) * ((1 - R.u) * ((1 - R.u) * B)) := by
      have e : (1 - R.u) * ((1 - R.u) * ((1 - R.u) * B)) - (1 + R.u) * ((1 - 4 * R.u) * B)
          = (7 * (R.u * R.u) - R.u * R.u * R.u) * B := by ring
      have : 0 ≤ (7 * (R.u * R.u) - R.u * R.u * R.u) := by nlinarith [mul_nonneg hu hu]
      have := mul_nonneg this hb
      linarith
    linarith
  · intro h
    -- (1-u) d ≤ |fl| ≤ T ≤ (1+u)^3 B ≤ (1+5u)(1-u) B
    have k1 : (1 - R.u) * d ≤ (1 + R.u) * ((1 + R.u) * ((1 + R.u) * B)) := by linarith
    have k2 : (1 + R.u) * ((1 + R.u) * ((1 + R.u) * B)) ≤ (1 - R.u) * ((1 + 5 * R.u) * B) := by
      have e : (1 - R.u) * ((1 + 5 * R.u) * B) - (1 + R.u) * ((1 + R.u) * ((1 + R.u) * B))
          = (R.u * (1 - 8 * R.u - R.u * R.u)) * B := by ring
      have h1 : 0 ≤ 1 - 8 * R.u - R.u * R.u := by nlinarith
      have := mul_nonneg (mul_nonneg hu h1) hb
      linarith
    have k3 : (1 - R.u) * d ≤ (1 - R.u) * ((1 + 5 * R.u) * B) := le_trans k1 k2
    exact le_of_mul_le_mul_left k3 (by linarith)

/-- **the containment test in rounded arithmetic**: accepts every coordinate inside `(1 − 4u)`
times the exact tolerance band, and nothing outside `(1 + 5u)` times it -/
theorem containsAxFl_sandwich (hr : r.Inv) (ht : 0 ≤ r.tol) (a : Nat) (x : Rat) :
    ((r.lo a - x ≤ (1 - 4 * R.u) * band r x ∧ x - r.hi a ≤ (1 - 4 * R.u) * band r x) →
        r.containsAxFl R.fl a x = true) ∧
    (r.containsAxFl R.fl a x = true →
        r.lo a - x ≤ (1 + 5 * R.u) * band r x ∧ x - r.hi a ≤ (1 + 5 * R.u) * band r x) := by
  have hu := R.u_nonneg
  have hu16 := R.u_small
  have hb := band_nonneg r hr ht x
  obtain ⟨l1, l2⟩ := iscloseFl_sandwich R r hr ht (r.lo a) x
  obtain ⟨h1, h2⟩ := iscloseFl_sandwich R r hr ht (r.hi a) x
  unfold Region.containsAxFl
  simp only [Bool.and_eq_true, Bool.or_eq_true, decide_eq_true_eq]
  have hB5 : 0 ≤ (1 + 5 * R.u) * band r x := by positivity
  constructor
  · rintro ⟨a1, a2⟩
    constructor
    · by_cases h : r.lo a ≤ x
      · exact Or.inl h
      · right; apply l1
        rw [abs_of_pos (by linarith [not_le.mp h])]; exact a1
    · by_cases h : x ≤ r.hi a
      · exact Or.inl h
      · right; apply h1
        rw [abs_of_neg (by linarith [not_le.mp h])]; linarith
  · rintro ⟨a1, a2⟩
    constructor
    · rcases a1 with h | h
      · linarith
      · exact le_trans (le_abs_self _) (l2 h)
    · rcases a2 with h | h
      · linarith
      · have := h2 h
        have := neg_abs_le (r.hi a - x)
        linarith

end Reg

section Idx
variable (R : Rounding) (m : Mesh) (a : Nat)

/-- below the edge the computed index is 0, like the exact one -/
theorem indexAxFl_below (hn : 0 < m.nAt a) (hr : m.region.lo a < m.region.hi a) (x : Rat)
    (hx : x < m.region.lo a) : m.indexAxFl R.fl a x = 0 := by
  obtain ⟨hc', _⟩ := quotAxFl_err R m a hn hr x
  have h1 : R.fl (x - m.region.lo a) < 0 := fl_neg_of_neg R _ (by linarith)
  have h2 : R.fl (x - m.region.lo a) / m.cellAtFl R.fl a < 0 := div_neg_of_neg_of_pos h1 hc'
  have h3 : m.quotAxFl R.fl a x < 0 := fl_neg_of_neg R _ h2
  have hf : (m.quotAxFl R.fl a x).floor < 0 := by
    apply rat_floor_lt; simpa using h3
  unfold indexAxFl clipInt
  simp [hf]

/-- above the edge the computed index is `n − 1`, like the exact one (`5u·n ≤ 1`) -/
theorem indexAxFl_above (hn : 0 < m.nAt a) (hr : m.region.lo a < m.region.hi a) (x : Rat)
    (hx : m.region.hi a < x) (hs : 5 * R.u * (m.nAt a : Rat) ≤ 1) : m.indexAxFl R.fl a x = m.nAt a - 1 := by
  obtain ⟨_, herr⟩ := quotAxFl_err R m a hn hr x
  have hu := R.u_nonneg
  have hN : (0 : Rat) < (m.nAt a : Rat) := by exact_mod_cast hn
  have hc : 0 < m.cellAt a := by
    unfold cellAt Region.edge; exact div_pos (by linarith) hN
  have hcov : (m.nAt a : Rat) * m.cellAt a = m.region.hi a - m.region.lo a := by
    unfold cellAt Region.edge; field_simp
  set q := (x - m.region.lo a) / m.cellAt a with hq
  have hqn : (m.nAt a : Rat) < q := by rw [hq, lt_div_iff₀ hc]; linarith
  have hq0 : 0 ≤ q := by linarith
  rw [abs_of_nonneg hq0, abs_le] at herr
  have h5 : 5 * R.u ≤ 1 := by
    have : (1 : Rat) ≤ (m.nAt a : Rat) := by exact_mod_cast hn
    nlinarith
  have hq' : (m.nAt a : Rat) - 1 ≤ m.quotAxFl R.fl a x := by
    have : (1 - 5 * R.u) * (m.nAt a : Rat) ≤ (1 - 5 * R.u) * q := mul_le_mul_of_nonneg_left hqn.le (by linarith)
    nlinarith
  have hcast : ((m.nAt a - 1 : Nat) : Rat) = (m.nAt a : Rat) - 1 := by
    push_cast [Nat.cast_sub (by omega : 1 ≤ m.nAt a)]; ring
  unfold indexAxFl
  exact clip_floor_eq _ _ _ (by omega) (by rw [hcast]; exact hq') (Or.inr rfl)

end Idx

end DFV.C01
