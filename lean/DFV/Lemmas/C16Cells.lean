import DFV.Lemmas.C16Lookup
/-! C16 helper lemmas, part 9: the consumer's direction — every array of the grid has one
tuple per grid cell, and cell id `t` is mesh cell `unflatF n t`. -/
namespace DFV.C16
open DFV DFV.Mesh

theorem wf_pos (f : Fld) (nx ny nz : Nat) (h : WF f nx ny nz) : 0 < nx ∧ 0 < ny ∧ 0 < nz := by
  obtain ⟨_, hn, hpos⟩ := h.mesh
  have hnd : f.mesh.ndim = 3 := by
    rw [h.n] at hn
    exact hn.symm
  have h0 := hpos 0 (by omega)
  have h1 := hpos 1 (by omega)
  have h2 := hpos 2 (by omega)
  simp only [Mesh.nAt, h.n, List.getD_cons_zero, List.getD_cons_succ] at h0 h1 h2
  exact ⟨h0, h1, h2⟩

theorem unflatF3_inRange (nx ny nz t : Nat) (hx : 0 < nx) (hy : 0 < ny) (hz : 0 < nz) :
    inRange [nx, ny, nz] (unflatF [nx, ny, nz] t) = true := by
  apply unflatF_inRange
  intro n hn
  simp only [List.mem_cons, List.mem_nil_iff, or_false] at hn
  rcases hn with rfl | rfl | rfl <;> assumption

/-- number of values of every array the grid of a well-formed field carries -/
theorem cellData_sizes (f : Fld) (nx ny nz : Nat) (h : WF f nx ny nz) (a : VArr)
    (ha : a ∈ normVArr f :: (comps f ++ [fieldVArr f, validVArr f])) :
    a.vals.length = natProd [nx, ny, nz] * a.ncomp := by
  simp only [List.mem_cons, List.mem_append, List.mem_nil_iff, or_false] at ha
  rcases ha with rfl | ha | rfl | rfl
  · exact flat4_length (normSqArr f) nx ny nz 1 (by simp [normSqArr, h.dshape])
  · unfold comps at ha
    split at ha
    · obtain ⟨l, _, rfl⟩ := List.mem_map.mp ha
      exact flat4_length (compArr f _) nx ny nz 1 (by simp [compArr, h.dshape])
    · simp at ha
  · exact flat4_length (array4 f) nx ny nz f.nvdim (array4_shape f nx ny nz h.dshape)
  · have := flat3_length (validInt f) nx ny nz (by simp [validInt, NDA.map, h.vshape])
    simp only [validVArr, Nat.mul_one]
    exact this

/-- `inRange` multi-indices with the same structured id are equal -/
theorem flatF_inj (ns i j : List Nat) (hi : inRange ns i = true) (hj : inRange ns j = true)
    (h : flatF ns i = flatF ns j) : i = j := by
  rw [← unflatF_flatF ns i hi, ← unflatF_flatF ns j hj, h]

end DFV.C16
