import Mathlib.Algebra.BigOperators.Group.Finset.Basic
import Mathlib.Tactic.Abel
import DFV.Lemmas.C19BLReal
/-!
# C19 — the Berg–Lüscher sum over a closed lattice surface (combinatorial part)

The lattice charge of `topological_charge(method="berg-luescher")` on a fully valid 2-d mesh whose
outermost cells all hold the same vector (so that the sheet closes up to a sphere) is

  `Q = ½ Σ_squares (Ω(T₁) + Ω(T₂) + Ω(T₃) + Ω(T₄))`,

the four right triangles of every lattice square, i.e. the mean of the two triangulations of the
sheet.  If the solid angle `Ω` of a triangle `(a, b, c)` is — after a homomorphism `φ` into some
abelian group `G` (for the real formula: `ℝ → ℝ/ℤ`) — a COBOUNDARY `θ(a,b) + θ(b,c) + θ(c,a)` of an
antisymmetric link function `θ`, the links cancel in pairs (discrete Stokes theorem, by induction
over the rows and columns of the lattice) and `φ(2Q) = 0`.
-/
namespace DFV.C19
open DFV Finset

/-! ## discrete Stokes theorem on the lattice -/

section stokes
variable {G : Type} [AddCommGroup G]

/-- circulation around the unit square with lower-left corner `(i, j)`: bottom link, right link,
top link backwards, left link backwards (`h i j` = the link `(i,j) → (i+1,j)`, `v i j` = the link
`(i,j) → (i,j+1)`) -/
def plaq (h v : Nat → Nat → G) (i j : Nat) : G := h i j + v (i + 1) j - h i (j + 1) - v i j

/-- one row of squares: the inner vertical links cancel -/
theorem plaq_row (h v : Nat → Nat → G) (m j : Nat) :
    ∑ i ∈ range m, plaq h v i j
      = ∑ i ∈ range m, h i j + v m j - ∑ i ∈ range m, h i (j + 1) - v 0 j := by
  induction m with
  | zero => simp
  | succ m ih =>
    rw [sum_range_succ, sum_range_succ, sum_range_succ, ih]
    unfold plaq
    abel

/-- DISCRETE STOKES on the `m × n` block of squares: the circulations add up to the circulation
around the block (bottom, right, top backwards, left backwards) -/
theorem plaq_block (h v : Nat → Nat → G) (m n : Nat) :
    ∑ j ∈ range n, ∑ i ∈ range m, plaq h v i j
      = ∑ i ∈ range m, h i 0 + ∑ j ∈ range n, v m j - ∑ i ∈ range m, h i n - ∑ j ∈ range n, v 0 j := by
  induction n with
  | zero => simp
  | succ n ih =>
    rw [sum_range_succ, sum_range_succ, sum_range_succ, ih, plaq_row]
    abel

end stokes

/-! ## re-indexing sums over the cells as sums over the squares -/

section reindex
variable {M : Type} [AddCommMonoid M]

theorem sum_if_succ_lt (n : Nat) (F : Nat → M) :
    ∑ i ∈ range n, (if i + 1 < n then F i else 0) = ∑ i ∈ range (n - 1), F i := by
  cases n with
  | zero => simp
  | succ n =>
    rw [sum_range_succ, if_neg (by omega), add_zero]
    apply sum_congr rfl
    intro i hi
    rw [mem_range] at hi
    rw [if_pos (by omega)]

theorem sum_if_one_le (n : Nat) (F : Nat → M) :
    ∑ i ∈ range n, (if 1 ≤ i then F i else 0) = ∑ i ∈ range (n - 1), F (i + 1) := by
  cases n with
  | zero => simp
  | succ n =>
    rw [sum_range_succ', if_neg (by omega), add_zero]
    apply sum_congr rfl
    intro i _
    rw [if_pos (by omega)]

end reindex

/-! ## the four triangles of a cell, all cells valid -/

theorem nbE_allValid (o : Fld) (hv : AllValid o) (i j : Nat) (hj : j < o.mesh.nAt 1) :
    nbE o i j = if i + 1 < o.mesh.nAt 0 then some (pv o (i + 1) j) else none := by
  unfold nbE
  by_cases h : i + 1 < o.mesh.nAt 0
  · simp [h, hv (i + 1) j h hj]
  · simp [h]

theorem nbN_allValid (o : Fld) (hv : AllValid o) (i j : Nat) (hi : i < o.mesh.nAt 0) :
    nbN o i j = if j + 1 < o.mesh.nAt 1 then some (pv o i (j + 1)) else none := by
  unfold nbN
  by_cases h : j + 1 < o.mesh.nAt 1
  · simp [h, hv i (j + 1) hi h]
  · simp [h]

theorem nbW_allValid (o : Fld) (hv : AllValid o) (i j : Nat) (hi : i < o.mesh.nAt 0) (hj : j < o.mesh.nAt 1) :
    nbW o i j = if 1 ≤ i then some (pv o (i - 1) j) else none := by
  unfold nbW
  by_cases h : 1 ≤ i
  · simp [h, hv (i - 1) j (by omega) hj]
  · simp [h]

theorem nbS_allValid (o : Fld) (hv : AllValid o) (i j : Nat) (hi : i < o.mesh.nAt 0) (hj : j < o.mesh.nAt 1) :
    nbS o i j = if 1 ≤ j then some (pv o i (j - 1)) else none := by
  unfold nbS
  by_cases h : 1 ≤ j
  · simp [h, hv i (j - 1) hi (by omega)]
  · simp [h]

theorem tri?_ite (v0 a b : V3) (p q : Prop) [Decidable p] [Decidable q] :
    tri? v0 (if p then some a else none) (if q then some b else none) = if p ∧ q then [triOf v0 a b] else [] := by
  by_cases hp : p <;> by_cases hq : q <;> simp [hp, hq, tri?]

/-- the triangle list of a cell of a fully valid field -/
theorem triangles_allValid (o : Fld) (hv : AllValid o) (i j : Nat) (hi : i < o.mesh.nAt 0) (hj : j < o.mesh.nAt 1) :
    triangles o i j
      = (if i + 1 < o.mesh.nAt 0 ∧ j + 1 < o.mesh.nAt 1 then [tNE o i j] else []) ++
        (if j + 1 < o.mesh.nAt 1 ∧ 1 ≤ i then [tNW o i j] else []) ++
        (if 1 ≤ i ∧ 1 ≤ j then [tSW o i j] else []) ++
        (if 1 ≤ j ∧ i + 1 < o.mesh.nAt 0 then [tSE o i j] else []) := by
  unfold triangles
  rw [nbE_allValid o hv i j hj, nbN_allValid o hv i j hi, nbW_allValid o hv i j hi hj, nbS_allValid o hv i j hi hj]
  simp only [tri?_ite]
  rfl

section sums
variable {K : Type} [Field K]

/-- sum of `g` over the triangles of a cell -/
def triSum (g : Tri → K) (o : Fld) (i j : Nat) : K := ((triangles o i j).map g).sum

theorem triSum_allValid (g : Tri → K) (o : Fld) (hv : AllValid o) (i j : Nat) (hi : i < o.mesh.nAt 0) (hj : j < o.mesh.nAt 1) :
    triSum g o i j
      = (if i + 1 < o.mesh.nAt 0 then (if j + 1 < o.mesh.nAt 1 then g (tNE o i j) else 0) else 0) +
        (if 1 ≤ i then (if j + 1 < o.mesh.nAt 1 then g (tNW o i j) else 0) else 0) +
        (if 1 ≤ i then (if 1 ≤ j then g (tSW o i j) else 0) else 0) +
        (if i + 1 < o.mesh.nAt 0 then (if 1 ≤ j then g (tSE o i j) else 0) else 0) := by
  unfold triSum
  rw [triangles_allValid o hv i j hi hj]
  by_cases h1 : i + 1 < o.mesh.nAt 0 <;> by_cases h2 : j + 1 < o.mesh.nAt 1 <;> by_cases h3 : 1 ≤ i <;> by_cases h4 : 1 ≤ j <;>
    simp [h1, h2, h3, h4, add_assoc]

/-- SUM OVER CELLS = SUM OVER SQUARES: every triangle belongs to exactly one lattice square -/
theorem triSum_cells_eq_squares (g : Tri → K) (o : Fld) (hv : AllValid o) :
    ∑ i ∈ range (o.mesh.nAt 0), ∑ j ∈ range (o.mesh.nAt 1), triSum g o i j
      = ∑ i ∈ range (o.mesh.nAt 0 - 1), ∑ j ∈ range (o.mesh.nAt 1 - 1),
          (g (tNE o i j) + g (tNW o (i + 1) j) + g (tSW o (i + 1) (j + 1)) + g (tSE o i (j + 1))) := by
  have e : ∑ i ∈ range (o.mesh.nAt 0), ∑ j ∈ range (o.mesh.nAt 1), triSum g o i j
      = ∑ i ∈ range (o.mesh.nAt 0), ∑ j ∈ range (o.mesh.nAt 1),
        ((if i + 1 < o.mesh.nAt 0 then (if j + 1 < o.mesh.nAt 1 then g (tNE o i j) else 0) else 0) +
        (if 1 ≤ i then (if j + 1 < o.mesh.nAt 1 then g (tNW o i j) else 0) else 0) +
        (if 1 ≤ i then (if 1 ≤ j then g (tSW o i j) else 0) else 0) +
        (if i + 1 < o.mesh.nAt 0 then (if 1 ≤ j then g (tSE o i j) else 0) else 0)) := by
    apply sum_congr rfl; intro i hi
    apply sum_congr rfl; intro j hj
    rw [mem_range] at hi hj
    exact triSum_allValid g o hv i j hi hj
  rw [e]
  simp only [sum_add_distrib]
  have push : ∀ (p : Prop) [Decidable p] (F : Nat → K) (n : Nat),
      ∑ j ∈ range n, (if p then F j else 0) = if p then ∑ j ∈ range n, F j else 0 := by
    intro p _ F n; by_cases hp : p <;> simp [hp]
  simp only [push, sum_if_succ_lt, sum_if_one_le]

end sums

/-! ## the rim and the weights `1 / (area · count)` -/

theorem triOf_t_left (r x : V3) : (triOf r r x).t = 0 := by
  simp only [triOf, V3.dot, V3.cross]; ring

theorem triOf_t_right (r x : V3) : (triOf r x r).t = 0 := by
  simp only [triOf, V3.dot, V3.cross]; ring

section closed
variable {K G : Type} [Field K] [CharZero K] [AddCommGroup G]

omit [CharZero K] in
theorem blAngleK_of_t (Om : Tri → K) (tr : Tri) (h : tr.t = 0) : blAngleK Om tr = 0 := by
  unfold blAngleK; rw [if_pos h]

omit [CharZero K] in
/-- at a cell of the rim every triangle contains the rim vector twice: all angles are zero -/
theorem triSum_rim (Om : Tri → K) (o : Fld) (r : V3) (hv : AllValid o) (hr : UniformRim o r) (i j : Nat)
    (hi : i < o.mesh.nAt 0) (hj : j < o.mesh.nAt 1)
    (hrim : i = 0 ∨ i + 1 = o.mesh.nAt 0 ∨ j = 0 ∨ j + 1 = o.mesh.nAt 1) :
    triSum (blAngleK Om) o i j = 0 := by
  rw [triSum_allValid _ o hv i j hi hj]
  have h0 : pv o i j = r := hr i j hi hj hrim
  replace hr : ∀ i j, i < o.mesh.nAt 0 → j < o.mesh.nAt 1 →
      (i = 0 ∨ i + 1 = o.mesh.nAt 0 ∨ j = 0 ∨ j + 1 = o.mesh.nAt 1) → pv o i j = r := hr
  have t1 : (if i + 1 < o.mesh.nAt 0 then (if j + 1 < o.mesh.nAt 1 then blAngleK Om (tNE o i j) else 0) else 0) = 0 := by
    split
    · rename_i a
      split
      · rename_i b
        apply blAngleK_of_t
        unfold tNE
        rw [h0]
        rcases hrim with h | h | h | h
        · rw [hr i (j + 1) hi b (Or.inl h)]; exact triOf_t_right r _
        · omega
        · rw [hr (i + 1) j a hj (Or.inr (Or.inr (Or.inl h)))]; exact triOf_t_left r _
        · omega
      · rfl
    · rfl
  have t2 : (if 1 ≤ i then (if j + 1 < o.mesh.nAt 1 then blAngleK Om (tNW o i j) else 0) else 0) = 0 := by
    split
    · rename_i a
      split
      · rename_i b
        apply blAngleK_of_t
        unfold tNW
        rw [h0]
        rcases hrim with h | h | h | h
        · omega
        · rw [hr i (j + 1) hi b (Or.inr (Or.inl h))]; exact triOf_t_left r _
        · rw [hr (i - 1) j (by omega) hj (Or.inr (Or.inr (Or.inl h)))]; exact triOf_t_right r _
        · omega
      · rfl
    · rfl
  have t3 : (if 1 ≤ i then (if 1 ≤ j then blAngleK Om (tSW o i j) else 0) else 0) = 0 := by
    split
    · rename_i a
      split
      · rename_i b
        apply blAngleK_of_t
        unfold tSW
        rw [h0]
        rcases hrim with h | h | h | h
        · omega
        · rw [hr i (j - 1) hi (by omega) (Or.inr (Or.inl h))]; exact triOf_t_right r _
        · omega
        · rw [hr (i - 1) j (by omega) hj (Or.inr (Or.inr (Or.inr h)))]; exact triOf_t_left r _
      · rfl
    · rfl
  have t4 : (if i + 1 < o.mesh.nAt 0 then (if 1 ≤ j then blAngleK Om (tSE o i j) else 0) else 0) = 0 := by
    split
    · rename_i a
      split
      · rename_i b
        apply blAngleK_of_t
        unfold tSE
        rw [h0]
        rcases hrim with h | h | h | h
        · rw [hr i (j - 1) hi (by omega) (Or.inl h)]; exact triOf_t_left r _
        · omega
        · omega
        · rw [hr (i + 1) j a hj (Or.inr (Or.inr (Or.inr h)))]; exact triOf_t_right r _
      · rfl
    · rfl
  rw [t1, t2, t3, t4]; simp

/-- the weight of a cell: with a uniform rim, twice the density times the cell area is the plain sum of
the cell's triangle angles (inner cells have four triangles of area `c₀c₁/2`; at the rim both sides vanish) -/
theorem cell_weight (Om : Tri → K) (o : Fld) (r : V3) (hv : AllValid o) (hr : UniformRim o r)
    (hc0 : o.mesh.cellAt 0 ≠ 0) (hc1 : o.mesh.cellAt 1 ≠ 0) (i j : Nat)
    (hi : i < o.mesh.nAt 0) (hj : j < o.mesh.nAt 1) :
    2 * (tcdBLAtK Om o i j * (((o.mesh.cellAt 0 * o.mesh.cellAt 1 : Rat)) : K)) = triSum (blAngleK Om) o i j := by
  by_cases hrim : i = 0 ∨ i + 1 = o.mesh.nAt 0 ∨ j = 0 ∨ j + 1 = o.mesh.nAt 1
  · have hz := triSum_rim Om o r hv hr i j hi hj hrim
    rw [hz]
    unfold tcdBLAtK
    unfold triSum at hz
    rw [hz]
    split
    · split <;> simp
    · simp
  · have h1 : 1 ≤ i := by omega
    have h2 : i + 1 < o.mesh.nAt 0 := by omega
    have h3 : 1 ≤ j := by omega
    have h4 : j + 1 < o.mesh.nAt 1 := by omega
    have hl : (triangles o i j).length = 4 := by
      rw [triangles_allValid o hv i j hi hj]
      simp [h1, h2, h3, h4]
    unfold tcdBLAtK triSum
    rw [hv i j hi hj, hl]
    simp only [if_true, Nat.ofNat_pos]
    have k0 : ((o.mesh.cellAt 0 : Rat) : K) ≠ 0 := by exact_mod_cast hc0
    have k1 : ((o.mesh.cellAt 1 : Rat) : K) ≠ 0 := by exact_mod_cast hc1
    unfold triArea
    push_cast
    field_simp
    ring

/-- the solid angle of the triangle `(x, y, z)` is, after `φ`, the coboundary of the link function `θ` -/
def Cob (φ : K →+ G) (Om : Tri → K) (θ : V3 → V3 → G) (x y z : V3) : Prop :=
  φ (blAngleK Om (triOf x y z)) = θ x y + θ y z + θ z x

/-- the horizontal and vertical links of the lattice -/
def hLink (θ : V3 → V3 → G) (o : Fld) (i j : Nat) : G := θ (pv o i j) (pv o (i + 1) j)
def vLink (θ : V3 → V3 → G) (o : Fld) (i j : Nat) : G := θ (pv o i j) (pv o i (j + 1))

/-- the four coboundary hypotheses of the lattice square with lower-left cell `(i, j)` -/
def SquareCob (φ : K →+ G) (Om : Tri → K) (θ : V3 → V3 → G) (o : Fld) (i j : Nat) : Prop :=
  Cob φ Om θ (pv o i j) (pv o (i + 1) j) (pv o i (j + 1)) ∧
  Cob φ Om θ (pv o (i + 1) j) (pv o (i + 1) (j + 1)) (pv o i j) ∧
  Cob φ Om θ (pv o (i + 1) (j + 1)) (pv o i (j + 1)) (pv o (i + 1) j) ∧
  Cob φ Om θ (pv o i (j + 1)) (pv o i j) (pv o (i + 1) (j + 1))

omit [CharZero K] in
/-- each of the two triangulations of a lattice square has the circulation of `θ` around the square as
its solid angle (after `φ`): the diagonal link cancels against its reverse -/
theorem square_cob (φ : K →+ G) (Om : Tri → K) (θ : V3 → V3 → G) (o : Fld) (hanti : ∀ x y, θ y x = -θ x y)
    (i j : Nat) (hc : SquareCob φ Om θ o i j) :
    φ (blAngleK Om (tNE o i j) + blAngleK Om (tSW o (i + 1) (j + 1))) = plaq (hLink θ o) (vLink θ o) i j ∧
    φ (blAngleK Om (tNW o (i + 1) j) + blAngleK Om (tSE o i (j + 1))) = plaq (hLink θ o) (vLink θ o) i j := by
  obtain ⟨c1, c2, c3, c4⟩ := hc
  unfold Cob at c1 c2 c3 c4
  have d2 : tNW o (i + 1) j = triOf (pv o (i + 1) j) (pv o (i + 1) (j + 1)) (pv o i j) := by
    unfold tNW; simp
  have d3 : tSW o (i + 1) (j + 1) = triOf (pv o (i + 1) (j + 1)) (pv o i (j + 1)) (pv o (i + 1) j) := by
    unfold tSW; simp
  have d4 : tSE o i (j + 1) = triOf (pv o i (j + 1)) (pv o i j) (pv o (i + 1) (j + 1)) := by
    unfold tSE; simp
  rw [map_add, map_add, d2, d3, d4]
  unfold tNE
  rw [c1, c2, c3, c4]
  unfold plaq hLink vLink
  rw [hanti (pv o (i + 1) (j + 1)) (pv o i (j + 1)), hanti (pv o i (j + 1)) (pv o i j),
    hanti (pv o i (j + 1)) (pv o (i + 1) j), hanti (pv o (i + 1) (j + 1)) (pv o i j)]
  constructor <;> abel

/-- with a uniform rim the circulations of all squares add up to zero: the sheet is closed -/
theorem plaq_rim (θ : V3 → V3 → G) (o : Fld) (r : V3) (hr : UniformRim o r) (hrr : θ r r = 0) :
    ∑ j ∈ range (o.mesh.nAt 1 - 1), ∑ i ∈ range (o.mesh.nAt 0 - 1), plaq (hLink θ o) (vLink θ o) i j = 0 := by
  replace hr : ∀ i j, i < o.mesh.nAt 0 → j < o.mesh.nAt 1 →
      (i = 0 ∨ i + 1 = o.mesh.nAt 0 ∨ j = 0 ∨ j + 1 = o.mesh.nAt 1) → pv o i j = r := hr
  by_cases hs : o.mesh.nAt 0 ≤ 1 ∨ o.mesh.nAt 1 ≤ 1
  · rcases hs with hs | hs
    · have : o.mesh.nAt 0 - 1 = 0 := by omega
      rw [this]; simp
    · have : o.mesh.nAt 1 - 1 = 0 := by omega
      rw [this]; simp
  rw [plaq_block]
  have b1 : ∑ i ∈ range (o.mesh.nAt 0 - 1), hLink θ o i 0 = 0 := by
    apply sum_eq_zero; intro i hi
    rw [mem_range] at hi
    unfold hLink
    rw [hr i 0 (by omega) (by omega) (Or.inr (Or.inr (Or.inl rfl))),
      hr (i + 1) 0 (by omega) (by omega) (Or.inr (Or.inr (Or.inl rfl))), hrr]
  have b2 : ∑ j ∈ range (o.mesh.nAt 1 - 1), vLink θ o (o.mesh.nAt 0 - 1) j = 0 := by
    apply sum_eq_zero; intro j hj
    rw [mem_range] at hj
    unfold vLink
    rw [hr (o.mesh.nAt 0 - 1) j (by omega) (by omega) (Or.inr (Or.inl (by omega))),
      hr (o.mesh.nAt 0 - 1) (j + 1) (by omega) (by omega) (Or.inr (Or.inl (by omega))), hrr]
  have b3 : ∑ i ∈ range (o.mesh.nAt 0 - 1), hLink θ o i (o.mesh.nAt 1 - 1) = 0 := by
    apply sum_eq_zero; intro i hi
    rw [mem_range] at hi
    unfold hLink
    rw [hr i (o.mesh.nAt 1 - 1) (by omega) (by omega) (Or.inr (Or.inr (Or.inr (by omega)))),
      hr (i + 1) (o.mesh.nAt 1 - 1) (by omega) (by omega) (Or.inr (Or.inr (Or.inr (by omega)))), hrr]
  have b4 : ∑ j ∈ range (o.mesh.nAt 1 - 1), vLink θ o 0 j = 0 := by
    apply sum_eq_zero; intro j hj
    rw [mem_range] at hj
    unfold vLink
    rw [hr 0 j (by omega) (by omega) (Or.inl rfl), hr 0 (j + 1) (by omega) (by omega) (Or.inl rfl), hrr]
  rw [b1, b2, b3, b4]
  simp

/-- TWICE THE LATTICE CHARGE IS THE SUM OF ALL FOUR TRIANGLES OF ALL SQUARES (uniform rim, all cells valid):
the charge is the mean of the two triangulations of the sheet -/
theorem charge_as_squares (Om : Tri → K) (o : Fld) (r : V3) (hv : AllValid o) (hr : UniformRim o r)
    (hc0 : o.mesh.cellAt 0 ≠ 0) (hc1 : o.mesh.cellAt 1 ≠ 0) :
    2 * ∑ i ∈ range (o.mesh.nAt 0), ∑ j ∈ range (o.mesh.nAt 1),
        tcdBLAtK Om o i j * (((o.mesh.cellAt 0 * o.mesh.cellAt 1 : Rat)) : K)
      = ∑ i ∈ range (o.mesh.nAt 0 - 1), ∑ j ∈ range (o.mesh.nAt 1 - 1),
          (blAngleK Om (tNE o i j) + blAngleK Om (tNW o (i + 1) j) + blAngleK Om (tSW o (i + 1) (j + 1))
            + blAngleK Om (tSE o i (j + 1))) := by
  rw [← triSum_cells_eq_squares _ o hv, mul_sum]
  apply sum_congr rfl; intro i hi
  rw [mul_sum]
  apply sum_congr rfl; intro j hj
  rw [mem_range] at hi hj
  exact cell_weight Om o r hv hr hc0 hc1 i j hi hj

/-- THE BERG–LÜSCHER SUM OVER A CLOSED SHEET.  Fully valid field, the outermost cells all equal to `r`;
`φ` a homomorphism of the value field into an abelian group, `θ` an antisymmetric link function with
`θ(r, r) = 0`, and on each of the four right triangles of every lattice square the solid angle is the
coboundary of `θ` after `φ`.  Then `φ` kills twice the lattice charge `Σ_cells q·c₀c₁`. -/
theorem bl_closed_sum (φ : K →+ G) (Om : Tri → K) (θ : V3 → V3 → G) (o : Fld) (r : V3)
    (hv : AllValid o) (hr : UniformRim o r) (hc0 : o.mesh.cellAt 0 ≠ 0) (hc1 : o.mesh.cellAt 1 ≠ 0)
    (hanti : ∀ x y, θ y x = -θ x y) (hrr : θ r r = 0)
    (hcob : ∀ i j, i + 1 < o.mesh.nAt 0 → j + 1 < o.mesh.nAt 1 → SquareCob φ Om θ o i j) :
    φ (2 * ∑ i ∈ range (o.mesh.nAt 0), ∑ j ∈ range (o.mesh.nAt 1),
        tcdBLAtK Om o i j * (((o.mesh.cellAt 0 * o.mesh.cellAt 1 : Rat)) : K)) = 0 := by
  rw [charge_as_squares Om o r hv hr hc0 hc1, map_sum]
  have e2 : ∀ i ∈ range (o.mesh.nAt 0 - 1), φ (∑ j ∈ range (o.mesh.nAt 1 - 1),
        (blAngleK Om (tNE o i j) + blAngleK Om (tNW o (i + 1) j) + blAngleK Om (tSW o (i + 1) (j + 1))
          + blAngleK Om (tSE o i (j + 1))))
      = ∑ j ∈ range (o.mesh.nAt 1 - 1), (plaq (hLink θ o) (vLink θ o) i j + plaq (hLink θ o) (vLink θ o) i j) := by
    intro i hi
    rw [map_sum]
    apply sum_congr rfl; intro j hj
    rw [mem_range] at hi hj
    obtain ⟨s1, s2⟩ := square_cob φ Om θ o hanti i j (hcob i j (by omega) (by omega))
    have e : blAngleK Om (tNE o i j) + blAngleK Om (tNW o (i + 1) j) + blAngleK Om (tSW o (i + 1) (j + 1))
          + blAngleK Om (tSE o i (j + 1))
        = (blAngleK Om (tNE o i j) + blAngleK Om (tSW o (i + 1) (j + 1)))
          + (blAngleK Om (tNW o (i + 1) j) + blAngleK Om (tSE o i (j + 1))) := by ring
    rw [e, map_add, s1, s2]
  rw [sum_congr rfl e2, sum_comm]
  simp only [sum_add_distrib]
  rw [plaq_rim θ o r hr hrr]
  simp

/-- … and if on every square the two triangulations give the same solid angle, `φ` kills the lattice
charge itself -/
theorem bl_closed_sum_one (φ : K →+ G) (Om : Tri → K) (θ : V3 → V3 → G) (o : Fld) (r : V3)
    (hv : AllValid o) (hr : UniformRim o r) (hc0 : o.mesh.cellAt 0 ≠ 0) (hc1 : o.mesh.cellAt 1 ≠ 0)
    (hanti : ∀ x y, θ y x = -θ x y) (hrr : θ r r = 0)
    (hcob : ∀ i j, i + 1 < o.mesh.nAt 0 → j + 1 < o.mesh.nAt 1 → SquareCob φ Om θ o i j)
    (hAB : ∀ i j, i + 1 < o.mesh.nAt 0 → j + 1 < o.mesh.nAt 1 →
      blAngleK Om (tNE o i j) + blAngleK Om (tSW o (i + 1) (j + 1))
        = blAngleK Om (tNW o (i + 1) j) + blAngleK Om (tSE o i (j + 1))) :
    φ (∑ i ∈ range (o.mesh.nAt 0), ∑ j ∈ range (o.mesh.nAt 1),
        tcdBLAtK Om o i j * (((o.mesh.cellAt 0 * o.mesh.cellAt 1 : Rat)) : K)) = 0 := by
  have h2 := charge_as_squares Om o r hv hr hc0 hc1
  have e : ∑ i ∈ range (o.mesh.nAt 0 - 1), ∑ j ∈ range (o.mesh.nAt 1 - 1),
          (blAngleK Om (tNE o i j) + blAngleK Om (tNW o (i + 1) j) + blAngleK Om (tSW o (i + 1) (j + 1))
            + blAngleK Om (tSE o i (j + 1)))
      = 2 * ∑ i ∈ range (o.mesh.nAt 0 - 1), ∑ j ∈ range (o.mesh.nAt 1 - 1),
          (blAngleK Om (tNE o i j) + blAngleK Om (tSW o (i + 1) (j + 1))) := by
    rw [mul_sum]
    apply sum_congr rfl; intro i hi
    rw [mul_sum]
    apply sum_congr rfl; intro j hj
    rw [mem_range] at hi hj
    have := hAB i j (by omega) (by omega)
    linear_combination -this
  rw [e] at h2
  have h1 : ∑ i ∈ range (o.mesh.nAt 0), ∑ j ∈ range (o.mesh.nAt 1),
        tcdBLAtK Om o i j * (((o.mesh.cellAt 0 * o.mesh.cellAt 1 : Rat)) : K)
      = ∑ i ∈ range (o.mesh.nAt 0 - 1), ∑ j ∈ range (o.mesh.nAt 1 - 1),
          (blAngleK Om (tNE o i j) + blAngleK Om (tSW o (i + 1) (j + 1))) :=
    mul_left_cancel₀ (two_ne_zero) h2
  rw [h1, map_sum]
  have e2 : ∀ i ∈ range (o.mesh.nAt 0 - 1), φ (∑ j ∈ range (o.mesh.nAt 1 - 1),
        (blAngleK Om (tNE o i j) + blAngleK Om (tSW o (i + 1) (j + 1))))
      = ∑ j ∈ range (o.mesh.nAt 1 - 1), plaq (hLink θ o) (vLink θ o) i j := by
    intro i hi
    rw [map_sum]
    apply sum_congr rfl; intro j hj
    rw [mem_range] at hi hj
    exact (square_cob φ Om θ o hanti i j (hcob i j (by omega) (by omega))).1
  rw [sum_congr rfl e2, sum_comm]
  exact plaq_rim θ o r hr hrr

end closed

/-! ## the model's own `topological_charge(method="berg-luescher")` as that sum -/

theorem sumTo_eq_sum (n : Nat) (g : Nat → Rat) : sumTo n g = ∑ i ∈ range n, g i := by
  induction n with
  | zero => simp [sumTo]
  | succ n ih => rw [sumTo, ih, sum_range_succ]

/-- `topological_charge(field, method="berg-luescher")` of the model is the sum over all cells of the
lattice density of the orientation field times the cell area -/
theorem charge_bl_sum (sq : Rat → Rat) (pi : Rat) (Om : Tri → Rat) (f : Fld) (c : Rat)
    (hs : f.data.shape = [f.mesh.nAt 0, f.mesh.nAt 1])
    (h : charge sq pi Om f .bergLuescher false = .ok c) :
    c = ∑ i ∈ range ((orientation sq f).mesh.nAt 0), ∑ j ∈ range ((orientation sq f).mesh.nAt 1),
      tcdBLAtK (K := Rat) Om (orientation sq f) i j *
        ((((orientation sq f).mesh.cellAt 0 * (orientation sq f).mesh.cellAt 1 : Rat)) : Rat) := by
  obtain ⟨q, hq, rfl⟩ := charge_ok_inv sq pi Om f .bergLuescher false c h
  obtain ⟨_, h2, _, rfl⟩ := tcd_ok sq pi Om f q .bergLuescher hq
  rw [integrateAll_density false f _ hs h2, sumTo_eq_sum, sum_mul]
  apply sum_congr rfl; intro i _
  rw [sumTo_eq_sum, sum_mul]
  apply sum_congr rfl; intro j _
  simp only [Bool.false_eq_true, if_false]
  show tcdBLAt Om (orientation sq f) i j * _ = _
  rw [tcdBLAt_eq_K]
  rfl

/-- THE EXACT HYPOTHESIS ON THE SOLID-ANGLE FUNCTION, for the model's `topological_charge`: whatever leaf
`Ω` the lattice method is run with, if after a homomorphism `φ : ℚ → G` it is the coboundary of an
antisymmetric link function on the triangles of the lattice, then on a fully valid sheet with uniform
rim `φ(2Q) = 0` — and `φ(Q) = 0` if the two triangulations of every square agree. -/
theorem charge_bl_coboundary {G : Type} [AddCommGroup G] (φ : Rat →+ G) (sq : Rat → Rat) (pi : Rat) (Om : Tri → Rat)
    (θ : V3 → V3 → G) (f : Fld) (r : V3) (c : Rat) (hs : f.data.shape = [f.mesh.nAt 0, f.mesh.nAt 1])
    (hv : AllValid (orientation sq f)) (hr : UniformRim (orientation sq f) r)
    (hc0 : f.mesh.cellAt 0 ≠ 0) (hc1 : f.mesh.cellAt 1 ≠ 0)
    (hanti : ∀ x y, θ y x = -θ x y) (hrr : θ r r = 0)
    (hcob : ∀ i j, i + 1 < f.mesh.nAt 0 → j + 1 < f.mesh.nAt 1 → SquareCob φ Om θ (orientation sq f) i j)
    (h : charge sq pi Om f .bergLuescher false = .ok c) :
    φ (2 * c) = 0 ∧
    ((∀ i j, i + 1 < f.mesh.nAt 0 → j + 1 < f.mesh.nAt 1 →
      blAngle Om (tNE (orientation sq f) i j) + blAngle Om (tSW (orientation sq f) (i + 1) (j + 1))
        = blAngle Om (tNW (orientation sq f) (i + 1) j) + blAngle Om (tSE (orientation sq f) i (j + 1))) → φ c = 0) := by
  rw [charge_bl_sum sq pi Om f c hs h]
  exact ⟨bl_closed_sum φ Om θ (orientation sq f) r hv hr hc0 hc1 hanti hrr hcob,
    fun hAB => bl_closed_sum_one φ Om θ (orientation sq f) r hv hr hc0 hc1 hanti hrr hcob hAB⟩

/-! ## the hypotheses on the orientation field, and a decision procedure for them -/

theorem closedSheet_of_B (o : Fld) (r : V3) (h : closedSheetB o r = true) : ClosedSheet o r := by
  unfold closedSheetB at h
  simp only [Bool.and_eq_true, decide_eq_true_eq, allLt_iff] at h
  obtain ⟨⟨⟨⟨h1, h2⟩, h3⟩, h4⟩, h5⟩ := h
  refine ⟨fun i j hi hj => (h1 i hi j hj).1, fun i j hi hj hr => (h1 i hi j hj).2 hr, h2, h3, h4, ?_⟩
  intro i j hi hj
  exact h5 i (by omega) j (by omega)

theorem smoothSheet_of_B (o : Fld) (h : smoothSheetB o = true) : SmoothSheet o := by
  unfold smoothSheetB at h
  simp only [decide_eq_true_eq, allLt_iff] at h
  intro i j hi hj
  exact h i (by omega) j (by omega)

/-- a skyrmion-like texture on 4 × 4 cells of size 1 × 2: rim `(0, 0, 5)`, the four inner cells
`(±2, ±2, −1)` (not normalised: `Field.orientation` does that) -/
def fSk : Fld :=
  { mesh := { region := { pmin := [0, 0], pmax := [4, 8], dims := ["x", "y"], units := ["m", "m"], tol := 1 / 1000000000000 },
              n := [4, 4], bc := "", subs := [] },
    nvdim := 3,
    data := ⟨[4, 4], fun i =>
      if 1 ≤ i.getD 0 0 ∧ i.getD 0 0 ≤ 2 ∧ 1 ≤ i.getD 1 0 ∧ i.getD 1 0 ≤ 2
      then [2 * (2 * (i.getD 0 0 : Rat) - 3), 2 * (2 * (i.getD 1 0 : Rat) - 3), -1] else [0, 0, 5]⟩,
    valid := NDA.const [4, 4] true, vdims := some ["x", "y", "z"], vmap := [], unit := none }

theorem fSk_closed : ClosedSheet (orientation ratSqrt fSk) ⟨0, 0, 1⟩ := closedSheet_of_B _ _ (by decide +kernel)

theorem fSk_smooth : SmoothSheet (orientation ratSqrt fSk) := smoothSheet_of_B _ (by decide +kernel)

end DFV.C19
