import DFV.Lemmas.C07Geom
/-! Inversion lemmas for the constructor paths (`Region.mk?`, `Mesh.mkCell?`, subregion setter). -/
namespace DFV.C07
open DFV DFV.Mesh

theorem regionMk_inv (p1 p2 : List Rat) (d u : List String) (tol : Rat) (r : Region)
    (h : Region.mk? p1 p2 (some d) (some u) tol = .ok r) :
    p1.length = p2.length ∧ 0 < p1.length ∧ d.length = p1.length ∧ hasDup d = false ∧
    u.length = p1.length ∧ (∀ a, a < p1.length → p1.getD a 0 ≠ p2.getD a 0) ∧
    r.pmin = tab p1.length (fun a => min (p1.getD a 0) (p2.getD a 0)) ∧
    r.pmax = tab p1.length (fun a => max (p1.getD a 0) (p2.getD a 0)) ∧
    r.dims = d ∧ r.units = u ∧ r.tol = tol := by
  unfold Region.mk? at h
  by_cases h1 : p1.length ≠ p2.length
  · rw [if_pos h1] at h; cases h
  rw [if_neg h1] at h
  by_cases h2 : p1.length = 0
  · rw [if_pos h2] at h; cases h
  rw [if_neg h2] at h
  simp only [Region.dimsOk, Region.unitsOk] at h
  by_cases h3 : d.length ≠ p1.length
  · rw [if_pos h3] at h; cases h
  rw [if_neg h3] at h
  by_cases h4 : hasDup d = true
  · rw [if_pos h4] at h; cases h
  rw [if_neg h4] at h
  simp only at h
  by_cases h5 : u.length ≠ p1.length
  · rw [if_pos h5] at h; cases h
  rw [if_neg h5] at h
  simp only at h
  by_cases h6 : (!allLt p1.length fun a => decide (p1.getD a 0 ≠ p2.getD a 0)) = true
  · rw [if_pos h6] at h; cases h
  rw [if_neg h6] at h
  injection h with h
  subst h
  refine ⟨by omega, by omega, by omega, by simpa using h4, by omega, ?_, rfl, rfl, rfl, rfl, rfl⟩
  intro a ha
  have h6' : allLt p1.length (fun a => decide (p1.getD a 0 ≠ p2.getD a 0)) = true := by
    cases hh : allLt p1.length (fun a => decide (p1.getD a 0 ≠ p2.getD a 0)) with
    | true => rfl
    | false => rw [hh] at h6; exact absurd rfl h6
  have := (allLt_iff _ _).mp h6' a ha
  exact of_decide_eq_true this

theorem mkCell_inv (r : Region) (cell : List Rat) (bc : String) (m : Mesh)
    (h : Mesh.mkCell? r cell bc = .ok m) :
    m.region = r ∧ m.n = tab r.ndim (fun a => (roundHalfEven (r.edge a / cell.getD a 0)).toNat) ∧
    m.subs = [] ∧ m.bc = bc.toLower ∧ cell.length = r.ndim := by
  unfold Mesh.mkCell? at h
  split at h
  · cases h
  · split at h
    · cases h
    · split at h
      · cases h
      · split at h
        · cases h
        · split at h
          · cases h
          · split at h
            · cases h
            · injection h with h
              subst h
              refine ⟨rfl, rfl, rfl, rfl, by omega⟩

theorem setSubs_inv (m : Mesh) (subs : List (String × Region)) (m' : Mesh) (h : setSubs? m subs = .ok m') :
    m'.region = m.region ∧ m'.n = m.n ∧ m'.bc = m.bc ∧ m'.subs = subs.map (storeSub m) := by
  unfold setSubs? at h
  split at h
  · cases h
  · injection h with h
    subst h
    exact ⟨rfl, rfl, rfl, rfl⟩

theorem mkMesh_inv (r : Region) (cell : List Rat) (bc : String) (subs : List (String × Region)) (m : Mesh)
    (h : mkMesh? r cell bc subs = .ok m) :
    m.region = r ∧ m.n = tab r.ndim (fun a => (roundHalfEven (r.edge a / cell.getD a 0)).toNat) ∧
    m.bc = bc.toLower ∧ cell.length = r.ndim := by
  unfold mkMesh? at h
  split at h
  · cases h
  · rename_i m0 h0
    obtain ⟨h1, h2, _, h4, h5⟩ := mkCell_inv r cell bc m0 h0
    obtain ⟨g1, g2, g3, _⟩ := setSubs_inv m0 subs m h
    exact ⟨by rw [g1, h1], by rw [g2, h2], by rw [g3, h4], h5⟩

/-- count of an axis rebuilt from a cell size that divides the edge a whole number of times -/
theorem count_of_edge (e c : Rat) (k : Nat) (hc : c ≠ 0) (h : e = (k : Rat) * c) :
    (roundHalfEven (e / c)).toNat = k := by
  have : e / c = (k : Rat) := by rw [h]; field_simp
  rw [this]; exact roundHalfEven_nat k

theorem metaOf_of_ok (f : Fld) (h : metaOk f = true) : ctorMeta f = .ok (metaOf f) := by
  unfold metaOk at h
  unfold metaOf
  cases hc : ctorMeta f with
  | error e => rw [hc] at h; cases h
  | ok p => rfl

theorem metaOk_of_eq (f : Fld) (p : Option (List String) × List (String × String))
    (h : ctorMeta f = .ok p) : metaOk f = true ∧ metaOf f = p := by
  unfold metaOk metaOf; rw [h]; exact ⟨rfl, rfl⟩

theorem mkFld_inv (m : Mesh) (f : Fld) (d : NDA (List Rat)) (v : NDA Bool) (g : Fld)
    (h : mkFld m f d v = .ok g) :
    g.mesh = m ∧ g.data = d ∧ g.valid = v ∧ d.shape = m.n ∧ v.shape = m.n ∧ g.nvdim = f.nvdim ∧
    g.unit = f.unit ∧ ctorMeta f = .ok (g.vdims, g.vmap) := by
  unfold mkFld at h
  split at h
  · cases h
  · injection h with h
    subst h
    rename_i hs
    have : d.shape = m.n ∧ v.shape = m.n ∧ metaOk f = true := by
      refine ⟨?_, ?_, ?_⟩
      · by_contra hc; exact hs (Or.inl hc)
      · by_contra hc; exact hs (Or.inr (Or.inl hc))
      · cases hm : metaOk f with
        | true => rfl
        | false => exact absurd (Or.inr (Or.inr hm)) hs
    exact ⟨rfl, rfl, rfl, this.1, this.2.1, rfl, rfl, metaOf_of_ok f this.2.2⟩

/-- the constructor call succeeds when the arrays have the shape of the mesh and the label /
mapping setters accept -/
theorem mkFld_ok (m : Mesh) (f : Fld) (d : NDA (List Rat)) (v : NDA Bool)
    (h1 : d.shape = m.n) (h2 : v.shape = m.n) (h3 : metaOk f = true) :
    ∃ g, mkFld m f d v = .ok g := by
  unfold mkFld
  rw [if_neg (by
    intro hcon
    rcases hcon with hcon | hcon | hcon
    · exact hcon h1
    · exact hcon h2
    · rw [h3] at hcon; cases hcon)]
  exact ⟨_, rfl⟩

end DFV.C07
