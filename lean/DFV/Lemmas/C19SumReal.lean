import Mathlib.Algebra.BigOperators.Group.Finset.Basic
import DFV.Lemmas.C19Fourier
/-!
# C19 — the cuboid sum rule with the REAL Newell tensor

The linear convolution `H_a(q) = Σ_{q'} N_aa(q − q') M` of the model's tensor of `demag_tensor(mesh)`, evaluated with
the real `arcsinh`, `arctan`, `sqrt`, with a uniform magnetisation `M e_a`: the three components along the
respective magnetisation add up to `−M·π/pi` at every cell.
-/
namespace DFV.C19
open DFV Finset

/-- component `c` of the real-space tensor at cell `j` of the displacement grid, real leaves -/
noncomputable def tensorR (pi : Rat) (m : Mesh) (j : List Nat) (c : Nat) : ℝ := evalK lvR ((tensorArr pi m j).getD c [])

/-- real-space trace of the real tensor on the displacement grid -/
theorem tensorR_trace (pi : Rat) (hpi : pi ≠ 0) (m : Mesh) (hm : m.Inv) (h3 : m.ndim = 3) (i0 i1 i2 : Nat)
    (b0 : i0 < 2 * m.nAt 0 - 1) (b1 : i1 < 2 * m.nAt 1 - 1) (b2 : i2 < 2 * m.nAt 2 - 1) :
    tensorR pi m [i0, i1, i2] 0 + tensorR pi m [i0, i1, i2] 1 + tensorR pi m [i0, i1, i2] 2
      = if i0 = m.nAt 0 - 1 ∧ i1 = m.nAt 1 - 1 ∧ i2 = m.nAt 2 - 1 then -(Real.pi / (pi : ℝ)) else 0 := by
  have p0 := hm.2.2 0 (by omega)
  have p1 := hm.2.2 1 (by omega)
  have p2 := hm.2.2 2 (by omega)
  have c0 := cmCellPos m hm 0 (by omega)
  have c1 := cmCellPos m hm 1 (by omega)
  have c2 := cmCellPos m hm 2 (by omega)
  have e0 : arrPoint m 0 i0 = (((i0 : Int) - ((m.nAt 0 : Int) - 1) : Int) : Rat) * m.cellAt 0 := by
    rw [arrPoint_eq m hm 0 (by omega) i0 b0]; push_cast; ring
  have e1 : arrPoint m 1 i1 = (((i1 : Int) - ((m.nAt 1 : Int) - 1) : Int) : Rat) * m.cellAt 1 := by
    rw [arrPoint_eq m hm 1 (by omega) i1 b1]; push_cast; ring
  have e2 : arrPoint m 2 i2 = (((i2 : Int) - ((m.nAt 2 : Int) - 1) : Int) : Rat) * m.cellAt 2 := by
    rw [arrPoint_eq m hm 2 (by omega) i2 b2]; push_cast; ring
  have key := demag_trace_real pi (m.cellAt 0) (m.cellAt 1) (m.cellAt 2) hpi c0 c1 c2
    ((i0 : Int) - ((m.nAt 0 : Int) - 1)) ((i1 : Int) - ((m.nAt 1 : Int) - 1)) ((i2 : Int) - ((m.nAt 2 : Int) - 1))
  rw [← e0, ← e1, ← e2] at key
  have hsum : tensorR pi m [i0, i1, i2] 0 + tensorR pi m [i0, i1, i2] 1 + tensorR pi m [i0, i1, i2] 2
      = traceK lvR pi (m.cellAt 0) (m.cellAt 1) (m.cellAt 2) (arrPoint m 0 i0) (arrPoint m 1 i1) (arrPoint m 2 i2) := rfl
  rw [hsum, key]
  by_cases hc : i0 = m.nAt 0 - 1 ∧ i1 = m.nAt 1 - 1 ∧ i2 = m.nAt 2 - 1
  · rw [if_pos hc, if_pos (by omega)]
  · rw [if_neg hc, if_neg (by omega)]

/-- component `a` of the demagnetising field of the uniform magnetisation `M e_a` at cell `q`: the linear
convolution with the real tensor (only `N_aa` contributes) -/
noncomputable def demagUniformR (pi : Rat) (m : Mesh) (M : ℝ) (a : Nat) (q0 q1 q2 : Nat) : ℝ :=
  ∑ r0 ∈ range (m.nAt 0), ∑ r1 ∈ range (m.nAt 1), ∑ r2 ∈ range (m.nAt 2),
    tensorR pi m [q0 + (m.nAt 0 - 1) - r0, q1 + (m.nAt 1 - 1) - r1, q2 + (m.nAt 2 - 1) - r2] a * M

/-- THE SUM RULE WITH THE REAL TENSOR: at every cell of every cuboid the three components add up to `−M·π/pi` -/
theorem cuboid_sum_real (pi : Rat) (hpi : pi ≠ 0) (m : Mesh) (hm : m.Inv) (h3 : m.ndim = 3) (M : ℝ) (q0 q1 q2 : Nat)
    (h0 : q0 < m.nAt 0) (h1 : q1 < m.nAt 1) (h2 : q2 < m.nAt 2) :
    demagUniformR pi m M 0 q0 q1 q2 + demagUniformR pi m M 1 q0 q1 q2 + demagUniformR pi m M 2 q0 q1 q2
      = -M * (Real.pi / (pi : ℝ)) := by
  unfold demagUniformR
  rw [← sum_add_distrib, ← sum_add_distrib]
  have e : ∀ r0 ∈ range (m.nAt 0),
      (∑ r1 ∈ range (m.nAt 1), ∑ r2 ∈ range (m.nAt 2),
          tensorR pi m [q0 + (m.nAt 0 - 1) - r0, q1 + (m.nAt 1 - 1) - r1, q2 + (m.nAt 2 - 1) - r2] 0 * M)
        + (∑ r1 ∈ range (m.nAt 1), ∑ r2 ∈ range (m.nAt 2),
          tensorR pi m [q0 + (m.nAt 0 - 1) - r0, q1 + (m.nAt 1 - 1) - r1, q2 + (m.nAt 2 - 1) - r2] 1 * M)
        + (∑ r1 ∈ range (m.nAt 1), ∑ r2 ∈ range (m.nAt 2),
          tensorR pi m [q0 + (m.nAt 0 - 1) - r0, q1 + (m.nAt 1 - 1) - r1, q2 + (m.nAt 2 - 1) - r2] 2 * M)
      = if r0 = q0 then -M * (Real.pi / (pi : ℝ)) else 0 := by
    intro r0 hr0
    rw [mem_range] at hr0
    rw [← sum_add_distrib, ← sum_add_distrib]
    have e1 : ∀ r1 ∈ range (m.nAt 1),
        (∑ r2 ∈ range (m.nAt 2), tensorR pi m [q0 + (m.nAt 0 - 1) - r0, q1 + (m.nAt 1 - 1) - r1, q2 + (m.nAt 2 - 1) - r2] 0 * M)
          + (∑ r2 ∈ range (m.nAt 2), tensorR pi m [q0 + (m.nAt 0 - 1) - r0, q1 + (m.nAt 1 - 1) - r1, q2 + (m.nAt 2 - 1) - r2] 1 * M)
          + (∑ r2 ∈ range (m.nAt 2), tensorR pi m [q0 + (m.nAt 0 - 1) - r0, q1 + (m.nAt 1 - 1) - r1, q2 + (m.nAt 2 - 1) - r2] 2 * M)
        = if r0 = q0 ∧ r1 = q1 then -M * (Real.pi / (pi : ℝ)) else 0 := by
      intro r1 hr1
      rw [mem_range] at hr1
      rw [← sum_add_distrib, ← sum_add_distrib]
      have e2 : ∀ r2 ∈ range (m.nAt 2),
          tensorR pi m [q0 + (m.nAt 0 - 1) - r0, q1 + (m.nAt 1 - 1) - r1, q2 + (m.nAt 2 - 1) - r2] 0 * M
            + tensorR pi m [q0 + (m.nAt 0 - 1) - r0, q1 + (m.nAt 1 - 1) - r1, q2 + (m.nAt 2 - 1) - r2] 1 * M
            + tensorR pi m [q0 + (m.nAt 0 - 1) - r0, q1 + (m.nAt 1 - 1) - r1, q2 + (m.nAt 2 - 1) - r2] 2 * M
          = if r2 = q2 then (if r0 = q0 ∧ r1 = q1 then -M * (Real.pi / (pi : ℝ)) else 0) else 0 := by
        intro r2 hr2
        rw [mem_range] at hr2
        have t := tensorR_trace pi hpi m hm h3 (q0 + (m.nAt 0 - 1) - r0) (q1 + (m.nAt 1 - 1) - r1) (q2 + (m.nAt 2 - 1) - r2)
          (by omega) (by omega) (by omega)
        rw [← add_mul, ← add_mul, t]
        by_cases c2 : r2 = q2
        · by_cases c01 : r0 = q0 ∧ r1 = q1
          · rw [if_pos c2, if_pos c01, if_pos (by omega)]; ring
          · rw [if_pos c2, if_neg c01, if_neg (by omega)]; ring
        · rw [if_neg c2, if_neg (by omega)]; ring
      rw [sum_congr rfl e2, sum_ite_eq' (range (m.nAt 2)) q2, if_pos (mem_range.mpr h2)]
    rw [sum_congr rfl e1]
    by_cases c0 : r0 = q0
    · simp only [c0, true_and, if_true]
      rw [sum_ite_eq' (range (m.nAt 1)) q1, if_pos (mem_range.mpr h1)]
    · simp [c0]
  rw [sum_congr rfl e, sum_ite_eq' (range (m.nAt 0)) q0, if_pos (mem_range.mpr h0)]

/-! ## the cube -/

/-- cyclic renaming of a triple sum over a cube of indices -/
theorem sum3_rot_fin (n : Nat) (F : Nat → Nat → Nat → ℝ) :
    ∑ a ∈ range n, ∑ b ∈ range n, ∑ c ∈ range n, F b c a = ∑ a ∈ range n, ∑ b ∈ range n, ∑ c ∈ range n, F a b c := by
  rw [sum_comm]
  apply sum_congr rfl
  intro b _
  rw [sum_comm]

theorem sum3_rot2_fin (n : Nat) (F : Nat → Nat → Nat → ℝ) :
    ∑ a ∈ range n, ∑ b ∈ range n, ∑ c ∈ range n, F c a b = ∑ a ∈ range n, ∑ b ∈ range n, ∑ c ∈ range n, F a b c :=
  (sum3_rot_fin n (fun a b c => F c a b)).symm

/-- the real tensor has the cyclic symmetry on a cube (equal counts, equal cell edges) -/
theorem tensorR_cubic (pi : Rat) (m : Mesh) (n : Nat) (hn0 : m.nAt 0 = n) (hn1 : m.nAt 1 = n) (hn2 : m.nAt 2 = n)
    (hc1 : m.cellAt 1 = m.cellAt 0) (hc2 : m.cellAt 2 = m.cellAt 0) (j0 j1 j2 : Nat) :
    tensorR pi m [j0, j1, j2] 1 = tensorR pi m [j1, j2, j0] 0 ∧ tensorR pi m [j0, j1, j2] 2 = tensorR pi m [j2, j0, j1] 0 := by
  have p1 : ∀ j, arrPoint m 1 j = arrPoint m 0 j := by
    intro j; unfold arrPoint; rw [hn1, hn0, hc1]
  have p2 : ∀ j, arrPoint m 2 j = arrPoint m 0 j := by
    intro j; unfold arrPoint; rw [hn2, hn0, hc2]
  unfold tensorR tensorArr nAll
  simp only [List.getD_cons_zero, List.getD_cons_succ, hc1, hc2, p1, p2]
  trivial

/-- the `xx` entry of the tensor at displacement `q − r`, times `M` -/
noncomputable def cubeW (pi : Rat) (m : Mesh) (M : ℝ) (n : Nat) (q0 q1 q2 r0 r1 r2 : Nat) : ℝ :=
  tensorR pi m [q0 + (n - 1) - r0, q1 + (n - 1) - r1, q2 + (n - 1) - r2] 0 * M

/-- the sum over all cells of component `a` -/
noncomputable def cubeS (pi : Rat) (m : Mesh) (M : ℝ) (n : Nat) (a : Nat) : ℝ :=
  ∑ q0 ∈ range n, ∑ q1 ∈ range n, ∑ q2 ∈ range n, demagUniformR pi m M a q0 q1 q2

/-- six-fold sum of `cubeW` -/
noncomputable def cubeT (pi : Rat) (m : Mesh) (M : ℝ) (n : Nat) (q0 q1 q2 : Nat) : ℝ :=
  ∑ r0 ∈ range n, ∑ r1 ∈ range n, ∑ r2 ∈ range n, cubeW pi m M n q0 q1 q2 r0 r1 r2

theorem cubeS_zero (pi : Rat) (m : Mesh) (M : ℝ) (n : Nat) (hn0 : m.nAt 0 = n) (hn1 : m.nAt 1 = n) (hn2 : m.nAt 2 = n) :
    cubeS pi m M n 0 = ∑ q0 ∈ range n, ∑ q1 ∈ range n, ∑ q2 ∈ range n, cubeT pi m M n q0 q1 q2 := by
  simp only [cubeS, cubeT, cubeW, demagUniformR, hn0, hn1, hn2]

theorem cubeS_one (pi : Rat) (m : Mesh) (M : ℝ) (n : Nat) (hn0 : m.nAt 0 = n) (hn1 : m.nAt 1 = n) (hn2 : m.nAt 2 = n)
    (hc1 : m.cellAt 1 = m.cellAt 0) (hc2 : m.cellAt 2 = m.cellAt 0) :
    cubeS pi m M n 1 = ∑ q0 ∈ range n, ∑ q1 ∈ range n, ∑ q2 ∈ range n, cubeT pi m M n q1 q2 q0 := by
  simp only [cubeS, cubeT, demagUniformR, hn0, hn1, hn2]
  apply sum_congr rfl; intro q0 _
  apply sum_congr rfl; intro q1 _
  apply sum_congr rfl; intro q2 _
  rw [← sum3_rot_fin n (fun r0 r1 r2 => cubeW pi m M n q1 q2 q0 r0 r1 r2)]
  apply sum_congr rfl; intro r0 _
  apply sum_congr rfl; intro r1 _
  apply sum_congr rfl; intro r2 _
  unfold cubeW
  rw [(tensorR_cubic pi m n hn0 hn1 hn2 hc1 hc2 _ _ _).1]

theorem cubeS_two (pi : Rat) (m : Mesh) (M : ℝ) (n : Nat) (hn0 : m.nAt 0 = n) (hn1 : m.nAt 1 = n) (hn2 : m.nAt 2 = n)
    (hc1 : m.cellAt 1 = m.cellAt 0) (hc2 : m.cellAt 2 = m.cellAt 0) :
    cubeS pi m M n 2 = ∑ q0 ∈ range n, ∑ q1 ∈ range n, ∑ q2 ∈ range n, cubeT pi m M n q2 q0 q1 := by
  simp only [cubeS, cubeT, demagUniformR, hn0, hn1, hn2]
  apply sum_congr rfl; intro q0 _
  apply sum_congr rfl; intro q1 _
  apply sum_congr rfl; intro q2 _
  rw [← sum3_rot2_fin n (fun r0 r1 r2 => cubeW pi m M n q2 q0 q1 r0 r1 r2)]
  apply sum_congr rfl; intro r0 _
  apply sum_congr rfl; intro r1 _
  apply sum_congr rfl; intro r2 _
  unfold cubeW
  rw [(tensorR_cubic pi m n hn0 hn1 hn2 hc1 hc2 _ _ _).2]

/-- −M/3 EACH FOR A CUBE, REAL TENSOR: summed over all `n³` cells, each of the three components is a third of the total -/
theorem cube_third_real (pi : Rat) (hpi : pi ≠ 0) (m : Mesh) (hm : m.Inv) (h3 : m.ndim = 3) (M : ℝ) (n : Nat)
    (hn0 : m.nAt 0 = n) (hn1 : m.nAt 1 = n) (hn2 : m.nAt 2 = n)
    (hc1 : m.cellAt 1 = m.cellAt 0) (hc2 : m.cellAt 2 = m.cellAt 0) (a : Nat) (ha : a < 3) :
    ∑ q0 ∈ range n, ∑ q1 ∈ range n, ∑ q2 ∈ range n, demagUniformR pi m M a q0 q1 q2
      = -M * (Real.pi / (pi : ℝ)) * (n : ℝ) ^ 3 / 3 := by
  have hS1 : cubeS pi m M n 1 = cubeS pi m M n 0 := by
    rw [cubeS_one pi m M n hn0 hn1 hn2 hc1 hc2, cubeS_zero pi m M n hn0 hn1 hn2]
    exact sum3_rot_fin n (cubeT pi m M n)
  have hS2 : cubeS pi m M n 2 = cubeS pi m M n 0 := by
    rw [cubeS_two pi m M n hn0 hn1 hn2 hc1 hc2, cubeS_zero pi m M n hn0 hn1 hn2]
    exact sum3_rot2_fin n (cubeT pi m M n)
  have htot : cubeS pi m M n 0 + cubeS pi m M n 1 + cubeS pi m M n 2 = -M * (Real.pi / (pi : ℝ)) * (n : ℝ) ^ 3 := by
    unfold cubeS
    rw [← sum_add_distrib, ← sum_add_distrib]
    have e : ∀ q0 ∈ range n, (∑ q1 ∈ range n, ∑ q2 ∈ range n, demagUniformR pi m M 0 q0 q1 q2)
        + (∑ q1 ∈ range n, ∑ q2 ∈ range n, demagUniformR pi m M 1 q0 q1 q2)
        + (∑ q1 ∈ range n, ∑ q2 ∈ range n, demagUniformR pi m M 2 q0 q1 q2)
        = ∑ _q1 ∈ range n, ∑ _q2 ∈ range n, (-M * (Real.pi / (pi : ℝ))) := by
      intro q0 hq0
      rw [mem_range] at hq0
      rw [← sum_add_distrib, ← sum_add_distrib]
      apply sum_congr rfl; intro q1 hq1
      rw [mem_range] at hq1
      rw [← sum_add_distrib, ← sum_add_distrib]
      apply sum_congr rfl; intro q2 hq2
      rw [mem_range] at hq2
      exact cuboid_sum_real pi hpi m hm h3 M q0 q1 q2 (by omega) (by omega) (by omega)
    rw [sum_congr rfl e]
    simp only [sum_const, card_range, nsmul_eq_mul]
    ring
  have h3' : cubeS pi m M n a = cubeS pi m M n 0 := by
    rcases (by omega : a = 0 ∨ a = 1 ∨ a = 2) with rfl | rfl | rfl
    · rfl
    · exact hS1
    · exact hS2
  show cubeS pi m M n a = _
  rw [h3']
  rw [hS1, hS2] at htot
  linarith

end DFV.C19
