import DFV.Lemmas.C03i
/-! C03 helper lemmas, part j: labels and mapping of results, commutativity, refusals. -/
namespace DFV.C03
open DFV

/-! ## labels / mapping of `_apply_operator` results -/

theorem bdim_comm (x y : Nat) : bdim x y = bdim y x := by
  unfold bdim
  by_cases h1 : x = y
  · subst h1; simp
  · have h2 : ¬ y = x := fun h => h1 h.symm
    simp only [h1, h2, if_false]
    by_cases hx : x = 1 <;> by_cases hy : y = 1 <;> simp [hx, hy]

/-- what the constructor is handed, and what it returns, in `self ∘ other` for two fields -/
theorem applyOperator_fld_meta (fn : GQ → GQ → GQ) (pw : Bool) (f o g : CF)
    (hf : CFwf f) (ho : CFwf o) (hn : f.mesh.n = o.mesh.n)
    (h : applyOperator fn pw f (.fld o) = .ok g) :
    bdim f.nvdim o.nvdim = some g.nvdim ∧
    vdimsSet g.nvdim (fixVdims (if f.nvdim = 1 ∧ 1 < o.nvdim then o.vdims else f.vdims) g.nvdim) = .ok g.vdims ∧
    vmapSet g.nvdim f.mesh.region.ndim g.vdims f.mesh.region.dims
      (some (if f.nvdim = 1 ∧ 1 < o.nvdim then o.vmap else f.vmap)) = .ok g.vmap ∧
    g.unit = none := by
  have hcf : Cells f.mesh.n f (fun i => cellOf f.data i f.nvdim) (fun i => f.valid.get i) :=
    ⟨hf, rfl, fun _ _ => ⟨rfl, rfl⟩⟩
  have hco : Cells f.mesh.n o (fun i => cellOf o.data i o.nvdim) (fun i => o.valid.get i) :=
    ⟨ho, hn.symm, fun _ _ => ⟨rfl, rfl⟩⟩
  obtain ⟨_, _, hbd⟩ := applyOperator_fld_cells fn pw _ f o g _ _ _ _ hcf hco h
  simp only [applyOperator] at h
  cases hcs : checkSame f o true with
  | error e => simp [hcs] at h
  | ok u =>
    simp only [hcs] at h
    split at h
    · cases h
    · cases hnb : npBin fn f.data o.data with
      | error e => simp [hnb] at h
      | ok res =>
        simp only [hnb] at h
        obtain ⟨_, hnv, _, hu, _, _, _, _, _, _, _, hvd, hvm, _⟩ := mkField_ok _ _ _ _ _ _ _ _ _ h
        rw [← hnv] at hvd hvm
        exact ⟨hbd, hvd, hvm, hu⟩

/-- `vmapSet` with an explicit mapping ignores the mesh -/
theorem vmapSet_some_mesh (nv nd nd' : Nat) (vd : Option (List String)) (dims dims' : List String) (m : VMap) :
    vmapSet nv nd vd dims (some m) = vmapSet nv nd' vd dims' (some m) := by
  simp only [vmapSet]

/-! ## compatibility of the component counts behind `a ∘ b` -/

theorem ufunc2_compat (fn : GQ → GQ → GQ) (pw : Bool) (n : List Nat) (l r : Val) (g : CF)
    (cl cr : List Nat → List GQ) (vl vr : List Nat → Bool)
    (hl : ValCells n l cl vl) (hr : ValCells n r cr vr)
    (h : ufunc2 fn pw l r = .ok g) :
    ∀ i, inRange n i = true → Compat (cl i).length (cr i).length :=
  (ufunc2_cells fn pw n l r g cl cr vl vr hl hr h).2.2

/-- `a + b` / `a * b` accepted ⇒ the component lists of `a` and `b` at every cell can be broadcast -/
theorem applyBin_compat (env : Env) (b : BinOp) (hb : b = .add ∨ b = .mul) (n : List Nat) (l r : Val) (g : CF)
    (cl cr : List Nat → List GQ) (vl vr : List Nat → Bool)
    (hl : ValCells n l cl vl) (hr : ValCells n r cr vr)
    (h : applyBin env b l r = .ok (.fld g)) :
    ∀ i, inRange n i = true → Compat (cl i).length (cr i).length := by
  cases l with
  | fld f =>
    have hf : Cells n f cl vl := hl
    have h' : applyOperator (binFn b) (isPow b) f r = .ok g := by
      rcases hb with hb | hb <;> subst hb <;> simp only [applyBin, forwardOp] at h <;> exact wrap_ok h
    exact (applyOperator_val_cells _ _ n f g r cl cr vl vr hf hr h').2.2
  | raw o =>
    cases r with
    | raw o2 => rcases hb with hb | hb <;> subst hb <;> simp [applyBin] at h
    | fld f =>
      have hf : Cells n f cr vr := hr
      by_cases hnp : isNp o = true
      · have h' : ufunc2 (binFn b) (isPow b) (.raw o) (.fld f) = .ok g := by
          rcases hb with hb | hb <;> subst hb <;> simp only [applyBin, hnp, if_true] at h <;> exact wrap_ok h
        exact ufunc2_compat _ _ n _ _ g cl cr vl vr hl hr h'
      · have hnp' : isNp o = false := by simpa using hnp
        have h' : applyOperator (binFn b) (isPow b) f (.raw o) = .ok g := by
          rcases hb with hb | hb <;> subst hb <;>
            simp only [applyBin, hnp', Bool.false_eq_true, if_false, reflectedOp] at h <;> exact wrap_ok h
        have hraw : ValCells n (.raw o) cl vl := hl
        intro i hi
        exact compat_symm ((applyOperator_val_cells _ _ n f g _ cr cl vr vl hf hraw h').2.2 i hi)

/-! ## refusals -/

theorem checkSame_mesh (f o : CF) (b : Bool) (h : meshAllclose f.mesh o.mesh ≠ .ok true) :
    ∃ e, checkSame f o b = .error e := by
  unfold checkSame
  cases hm : meshAllclose f.mesh o.mesh with
  | error e => exact ⟨e, rfl⟩
  | ok t =>
    cases t with
    | false => exact ⟨_, rfl⟩
    | true => exact absurd hm h

theorem checkSame_nvdim (f o : CF) (h : f.nvdim ≠ o.nvdim) (h1 : f.nvdim ≠ 1) (h2 : o.nvdim ≠ 1) (b : Bool) :
    ∃ e, checkSame f o b = .error e := by
  unfold checkSame
  cases hm : meshAllclose f.mesh o.mesh with
  | error e => exact ⟨e, rfl⟩
  | ok t =>
    cases t with
    | false => exact ⟨_, rfl⟩
    | true =>
      simp only
      have : ¬ (b = true ∧ (f.nvdim = 1 ∨ o.nvdim = 1)) := by
        rintro ⟨_, h | h⟩
        · exact h1 h
        · exact h2 h
      simp [this, h]

theorem checkSame_nvdim_strict (f o : CF) (h : f.nvdim ≠ o.nvdim) :
    ∃ e, checkSame f o false = .error e := by
  unfold checkSame
  cases hm : meshAllclose f.mesh o.mesh with
  | error e => exact ⟨e, rfl⟩
  | ok t =>
    cases t with
    | false => exact ⟨_, rfl⟩
    | true => simp [h]

/-- an operator-path binary step between two fields starts with `_check_same_mesh_and_field_dim`
(for `<<`: with `mesh !=`) -/
theorem forwardOp_checks (env : Env) (b : BinOp) (f o : CF) (strict : Bool)
    (hstrict : strict = true → b = .dot ∨ b = .cross ∨ b = .angle)
    (hb : b ≠ .shl) (e : Err) (h : checkSame f o (!strict) = .error e) (hu : isUfuncBin b = false)
    (hs : (b = .dot ∨ b = .cross ∨ b = .angle) → strict = true) :
    ∃ e', forwardOp env b f (.fld o) = .error e' := by
  cases b <;> simp [isUfuncBin] at hu
  case add => have : strict = false := by cases strict <;> simp_all
              subst this; exact ⟨e, by simp only [forwardOp, applyOperator]; simp at h; rw [h]⟩
  case sub => have : strict = false := by cases strict <;> simp_all
              subst this; exact ⟨e, by simp only [forwardOp, applyOperator]; simp at h; rw [h]⟩
  case mul => have : strict = false := by cases strict <;> simp_all
              subst this; exact ⟨e, by simp only [forwardOp, applyOperator]; simp at h; rw [h]⟩
  case div => have : strict = false := by cases strict <;> simp_all
              subst this; exact ⟨e, by simp only [forwardOp, applyOperator]; simp at h; rw [h]⟩
  case pow => have : strict = false := by cases strict <;> simp_all
              subst this; exact ⟨e, by simp only [forwardOp, applyOperator]; simp at h; rw [h]⟩
  case dot => have : strict = true := hs (Or.inl rfl)
              subst this; exact ⟨e, by simp only [forwardOp, dotOp]; simp at h; rw [h]⟩
  case cross => have : strict = true := hs (Or.inr (Or.inl rfl))
                subst this; exact ⟨e, by simp only [forwardOp, crossOp]; simp at h; rw [h]⟩
  case angle => have : strict = true := hs (Or.inr (Or.inr rfl))
                subst this; exact ⟨e, by simp only [forwardOp, angleOp, angleVec]; simp at h; rw [h]⟩
  case shl => exact absurd rfl hb

end DFV.C03
