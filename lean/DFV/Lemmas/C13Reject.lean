import DFV.Lemmas.C13Bc
/-! C13: which steps are rejected — exactly the malformed-argument classes, in both forms, at region,
mesh and field level. -/
namespace DFV.T
open DFV DFV.C14

/-- the malformed-argument classes of a transformation call on an object with region `r`:
wrong-length vector; wrong-length factor list, wrong-length reference point, a zero factor;
equal axes, wrong-length reference point, an unknown axis name -/
def Malformed (r : Region) : Op → Prop
  | .translate v _ => v.length ≠ r.ndim
  | .scale f ref _ => f.okFor r.ndim = false ∨ (ref.getD r.center).length ≠ r.ndim ∨ ∃ a, a < r.ndim ∧ f.at a = 0
  | .rotate90 a1 a2 _ ref _ => a1 = a2 ∨ (ref.getD r.center).length ≠ r.ndim ∨
      (∃ e, r.dim2index a1 = .error e) ∨ ∃ e, r.dim2index a2 = .error e

theorem malformed_withInplace (r : Region) (op : Op) (b : Bool) : Malformed r (op.withInplace b) ↔ Malformed r op := by
  cases op <;> exact Iff.rfl

theorem scaleHi_sub (r : Region) (f : Factor) (R : List Rat) (a : Nat) :
    scaleHi r f R a = scaleLo r f R a + r.edge a * f.at a := rfl

/-- a malformed call is rejected by the region step (no hypothesis on the region) -/
theorem stepR_malformed (r : Region) (op : Op) (h : Malformed r op) : ∃ e, stepR r op = .error e := by
  cases op with
  | translate v i => exact ⟨_, translate_reject r v h i⟩
  | scale f ref i =>
    have h' : f.okFor r.ndim = false ∨ (ref.getD r.center).length ≠ r.ndim ∨
        ∃ a, a < r.ndim ∧ scaleLo r f (ref.getD r.center) a = scaleHi r f (ref.getD r.center) a := by
      rcases h with h | h | ⟨a, ha, hz⟩
      · exact Or.inl h
      · exact Or.inr (Or.inl h)
      · refine Or.inr (Or.inr ⟨a, ha, ?_⟩)
        rw [scaleHi_sub, hz]; ring
    obtain ⟨e1, e2⟩ := scale_forms_err r f ref h'
    cases i
    · exact e2
    · exact e1
  | rotate90 a1 a2 k ref i => exact rot_forms_err r a1 a2 k ref h i

/-- a well-formed call is accepted by the region step -/
theorem stepR_wellformed (r : Region) (hr : r.Inv) (op : Op) (h : ¬ Malformed r op) : ∃ x T, stepR r op = .ok (x, T) := by
  cases op with
  | translate v i =>
    have hv : v.length = r.ndim := not_not.mp h
    obtain ⟨f1, f2⟩ := translate_forms r hr v hv
    cases i
    · exact ⟨_, _, f2⟩
    · exact ⟨_, _, f1⟩
  | scale f ref i =>
    simp only [Malformed, not_or] at h
    obtain ⟨h1, h2, h3⟩ := h
    have hf : f.okFor r.ndim = true := by simpa using h1
    have hne : ∀ a, a < r.ndim → scaleLo r f (ref.getD r.center) a ≠ scaleHi r f (ref.getD r.center) a := by
      intro a ha heq
      apply h3
      refine ⟨a, ha, ?_⟩
      rw [scaleHi_sub] at heq
      have he : r.edge a ≠ 0 := by
        have := hr.2.2.2.2.2 a ha
        unfold Region.edge; intro h0; linarith
      have : r.edge a * f.at a = 0 := by linarith
      rcases mul_eq_zero.mp this with h0 | h0
      · exact absurd h0 he
      · exact h0
    obtain ⟨f1, f2⟩ := scale_forms_ok r hr f ref hf (not_not.mp h2) hne
    cases i
    · exact ⟨_, _, f2⟩
    · exact ⟨_, _, f1⟩
  | rotate90 a1 a2 k ref i =>
    simp only [Malformed, not_or, not_exists] at h
    obtain ⟨h1, h2, h3, h4⟩ := h
    cases d1 : r.dim2index a1 with
    | error e => exact absurd d1 (h3 e)
    | ok i1 =>
      cases d2 : r.dim2index a2 with
      | error e => exact absurd d2 (h4 e)
      | ok i2 =>
        obtain ⟨f1, f2⟩ := rot_forms_ok r hr a1 a2 k ref i1 i2 h1 (not_not.mp h2) d1 d2
        cases i
        · exact ⟨_, _, f2⟩
        · exact ⟨_, _, f1⟩

/-- **Region: a step is rejected exactly for the malformed-argument classes.** -/
theorem stepR_error_iff (r : Region) (hr : r.Inv) (op : Op) : (∃ e, stepR r op = .error e) ↔ Malformed r op := by
  constructor
  · rintro ⟨e, he⟩
    by_contra hn
    obtain ⟨x, T, hT⟩ := stepR_wellformed r hr op hn
    rw [he] at hT; cases hT
  · exact stepR_malformed r op

/-! ## mesh level -/

/-- a malformed call is rejected by the mesh step (the region is transformed first) -/
theorem stepM_malformed (m : Mesh) (op : Op) (h : Malformed m.region op) : ∃ e, stepM m op = .error e := by
  obtain ⟨e, he⟩ := stepR_malformed m.region op h
  rw [stepM_eq_stepMU]; unfold stepMU; rw [he]
  exact ⟨e, rfl⟩

/-- for a subregion carrying the mesh's names and dimension, the subregion step is malformed exactly
when the mesh step is -/
theorem subOp_malformed_iff (m : Mesh) (s : Region) (hd : s.dims = m.region.dims) (hn : s.ndim = m.region.ndim) (op : Op) :
    Malformed s (subOp m op) ↔ Malformed m.region op := by
  cases op with
  | translate v i => simp only [subOp, Malformed, hn]
  | scale f ref i =>
    simp only [subOp, Malformed, hn]
    have : (subRef m ref).getD s.center = ref.getD m.region.center := rfl
    rw [this]
  | rotate90 a1 a2 k ref i =>
    simp only [subOp, Malformed, hn]
    have : (subRef m ref).getD s.center = ref.getD m.region.center := rfl
    have d : ∀ a, s.dim2index a = m.region.dim2index a := by intro a; unfold Region.dim2index; rw [hd]
    rw [this, d a1, d a2]

theorem mapSubs_ok_of_all (subs : List (String × Region)) (f : Region → M (Region × Region))
    (h : ∀ p ∈ subs, ∃ x T, f p.2 = .ok (x, T)) : ∃ subs', mapSubs subs f = .ok subs' := by
  induction subs with
  | nil => exact ⟨[], rfl⟩
  | cons p ps ih =>
    obtain ⟨x, T, hp⟩ := h p (by simp)
    obtain ⟨qs, hq⟩ := ih (fun q hq => h q (List.mem_cons_of_mem _ hq))
    refine ⟨(p.1, T) :: qs, ?_⟩
    rw [mapSubs_cons, hp]; simp only [hq]

/-- a well-formed call is accepted by the mesh step, in either form -/
theorem stepM_wellformed (m : Mesh) (hm : m.Inv) (hs : SubInv m) (hb : BcWf m) (op : Op) (h : ¬ Malformed m.region op) :
    ∃ recv ret, stepM m op = .ok (recv, ret) := by
  have hin : ∃ T1 T2, stepM m (op.withInplace true) = .ok (T1, T2) := by
    obtain ⟨x, r', hreg⟩ := stepR_wellformed m.region hm.1 (op.withInplace true) (by rw [malformed_withInplace]; exact h)
    obtain ⟨subs', hsub⟩ := mapSubs_ok_of_all m.subs (fun s => stepR s (subOp m (op.withInplace true))) (by
      intro p hp
      have hfit := hs p hp
      apply stepR_wellformed p.2 (subOkE_regionInv m hm p.2 hfit)
      rw [subOp_malformed_iff m p.2 hfit.1 hfit.2.2.2.1, malformed_withInplace]; exact h)
    rw [stepM_eq_stepMU]; unfold stepMU
    rw [hreg, hsub]
    simp only [inplace_withInplace, if_true]
    exact ⟨_, _, rfl⟩
  obtain ⟨T1, T2, hT⟩ := hin
  rcases stepM_forms_bc m hm hs hb op with ⟨T, _, _, _, _, _, h4, h5⟩ | ⟨⟨e1, h4⟩, _⟩
  · cases hi : op.inplace
    · have : op = op.withInplace false := by rw [← hi, withInplace_self']
      rw [this]; exact ⟨_, _, h5⟩
    · have : op = op.withInplace true := by rw [← hi, withInplace_self']
      rw [this]; exact ⟨_, _, h4⟩
  · rw [hT] at h4; cases h4

/-- **Mesh: a step is rejected exactly for the malformed-argument classes** (mesh invariant, `SubInv`,
well-formed `bc`: the subregion steps and the constructor of the copying form never add a rejection) -/
theorem stepM_error_iff (m : Mesh) (hm : m.Inv) (hs : SubInv m) (hb : BcWf m) (op : Op) :
    (∃ e, stepM m op = .error e) ↔ Malformed m.region op := by
  constructor
  · rintro ⟨e, he⟩
    by_contra hn
    obtain ⟨x, T, hT⟩ := stepM_wellformed m hm hs hb op hn
    rw [he] at hT; cases hT
  · exact stepM_malformed m op

/-! ## field level -/

/-- malformed calls on a field: those of its mesh, and a quarter turn of a vector field whose
component-to-axis mapping does not cover the two axes -/
def MalformedF (f : Fld) : Op → Prop
  | .translate v i => Malformed f.mesh.region (.translate v i)
  | .scale s ref i => Malformed f.mesh.region (.scale s ref i)
  | .rotate90 a1 a2 k ref i => Malformed f.mesh.region (.rotate90 a1 a2 k ref i) ∨
      (f.nvdim > 1 ∧ ((f.rDim a1).bind f.vdimIndex = none ∨ (f.rDim a2).bind f.vdimIndex = none))

theorem malformedF_withInplace (f : Fld) (op : Op) (b : Bool) : MalformedF f (op.withInplace b) ↔ MalformedF f op := by
  cases op <;> exact Iff.rfl

/-- a malformed call is rejected by the field step (no hypothesis on the field) -/
theorem stepF_malformed (f : Fld) (op : Op) (h : MalformedF f op) : ∃ e, stepF f op = .error e := by
  cases op with
  | translate v i =>
    obtain ⟨e, he⟩ := stepM_malformed f.mesh (.translate v i) h
    exact ⟨e, by simp only [stepF]; rw [he]⟩
  | scale s ref i =>
    obtain ⟨e, he⟩ := stepM_malformed f.mesh (.scale s ref i) h
    exact ⟨e, by simp only [stepF]; rw [he]⟩
  | rotate90 a1 a2 k ref i =>
    simp only [stepF]
    unfold rotate90F
    rcases h with h | ⟨hv, hm⟩
    · obtain ⟨e, he⟩ := stepM_malformed f.mesh (.rotate90 a1 a2 k ref false) h
      rw [he]; exact ⟨e, rfl⟩
    · cases h0 : stepM f.mesh (.rotate90 a1 a2 k ref false) with
      | error e => exact ⟨e, rfl⟩
      | ok p =>
        cases h1 : f.mesh.region.dim2index a1 with
        | error e => exact ⟨e, rfl⟩
        | ok i1 =>
          cases h2 : f.mesh.region.dim2index a2 with
          | error e => exact ⟨e, rfl⟩
          | ok i2 =>
            simp only [hv, if_true]
            rcases hm with hm | hm
            · rw [hm]; exact ⟨.runtime, rfl⟩
            · rw [hm]
              cases (f.rDim a1).bind f.vdimIndex <;> exact ⟨.runtime, rfl⟩

/-- a well-formed call is accepted by the field step, in either form -/
theorem stepF_wellformed (f : Fld) (hf : FInv f) (op : Op) (h : ¬ MalformedF f op) : ∃ recv ret, stepF f op = .ok (recv, ret) := by
  obtain ⟨hfi, hs, hb⟩ := hf
  cases op with
  | translate v i =>
    obtain ⟨x, T, hT⟩ := stepM_wellformed f.mesh hfi.1 hs hb (.translate v i) h
    exact ⟨_, _, by simp only [stepF]; rw [hT]⟩
  | scale s ref i =>
    obtain ⟨x, T, hT⟩ := stepM_wellformed f.mesh hfi.1 hs hb (.scale s ref i) h
    exact ⟨_, _, by simp only [stepF]; rw [hT]⟩
  | rotate90 a1 a2 k ref i =>
    simp only [MalformedF, not_or, not_and] at h
    obtain ⟨hm, hv⟩ := h
    have hm' : ¬ Malformed f.mesh.region (.rotate90 a1 a2 k ref false) := hm
    obtain ⟨x, T, hT⟩ := stepM_wellformed f.mesh hfi.1 hs hb _ hm'
    simp only [Malformed, not_or, not_exists] at hm
    obtain ⟨_, _, h3, h4⟩ := hm
    simp only [stepF]
    unfold rotate90F
    rw [hT]
    cases d1 : f.mesh.region.dim2index a1 with
    | error e => exact absurd d1 (h3 e)
    | ok i1 =>
      cases d2 : f.mesh.region.dim2index a2 with
      | error e => exact absurd d2 (h4 e)
      | ok i2 =>
        dsimp only
        by_cases hgt : f.nvdim > 1
        · rw [if_pos hgt]
          obtain ⟨n1, n2⟩ := hv hgt
          cases c1 : (f.rDim a1).bind f.vdimIndex with
          | none => exact absurd c1 n1
          | some c1' =>
            cases c2 : (f.rDim a2).bind f.vdimIndex with
            | none => exact absurd c2 n2
            | some c2' => exact ⟨_, _, rfl⟩
        · rw [if_neg hgt]; exact ⟨_, _, rfl⟩

/-- **Field: a step is rejected exactly for the malformed-argument classes.** -/
theorem stepF_error_iff (f : Fld) (hf : FInv f) (op : Op) : (∃ e, stepF f op = .error e) ↔ MalformedF f op := by
  constructor
  · rintro ⟨e, he⟩
    by_contra hn
    obtain ⟨x, T, hT⟩ := stepF_wellformed f hf op hn
    rw [he] at hT; cases hT
  · exact stepF_malformed f op

end DFV.T
