import DFV.Lemmas.C19Real
import DFV.Lemmas.C19Mesh
/-!
# C19 — parities of the demagnetisation tensor under reflection of a coordinate

`N_ab(…, −r_e, …) = (−1)^{δ_ae + δ_be} N_ab(…, r_e, …)`: the diagonal components are even in every
coordinate, `N_xy` is odd in `x` and in `y` and even in `z`, and so on — theorems of the symbolic Newell
model for every leaf evaluation in which `arcsinh` and `arctan` are odd (the real functions are).
-/
namespace DFV.C19
open DFV
variable {K : Type} [Field K] [CharZero K]

/-- the leaf evaluation is odd in the numerators (and in the plain factor of the arctangent's
denominator), as `arcsinh(a/√b)` and `arctan(a/(b√c))` are -/
structure OddLeaves (lv : Leaf → K) : Prop where
  asinh : ∀ a b : Rat, lv (.asinh (-a) b) = -lv (.asinh a b)
  atanNum : ∀ a b c : Rat, lv (.atan (-a) b c) = -lv (.atan a b c)
  atanDen : ∀ a b c : Rat, lv (.atan a (-b) c) = -lv (.atan a b c)

theorem absR_neg (x : Rat) : absR (-x) = absR x := by
  rw [absR_eq_abs, absR_eq_abs, abs_neg]

/-! ## pointwise parities of the Newell functions -/

theorem newellF_neg_x (x y z : Rat) : newellF (-x) y z = newellF x y z := by
  simp only [newellF, absR_neg, neg_mul, Even.neg_pow (by decide : Even 2)]

theorem newellF_neg_y (x y z : Rat) : newellF x (-y) z = newellF x y z := by
  simp only [newellF, absR_neg, neg_mul, mul_neg, Even.neg_pow (by decide : Even 2)]

theorem newellF_neg_z (x y z : Rat) : newellF x y (-z) = newellF x y z := by
  simp only [newellF, absR_neg, mul_neg, Even.neg_pow (by decide : Even 2)]

theorem evalK_newellG_neg_x (lv : Leaf → K) (h : OddLeaves lv) (x y z : Rat) :
    evalK lv (newellG (-x) y z) = -evalK lv (newellG x y z) := by
  simp only [newellG, evalK, Even.neg_pow (by decide : Even 2)]
  rw [show -x * y = -(x * y) by ring, show -x * z = -(x * z) by ring, h.asinh, h.atanNum, h.atanNum, h.atanDen]
  push_cast
  ring

theorem evalK_newellG_neg_y (lv : Leaf → K) (h : OddLeaves lv) (x y z : Rat) :
    evalK lv (newellG x (-y) z) = -evalK lv (newellG x y z) := by
  simp only [newellG, evalK, Even.neg_pow (by decide : Even 2)]
  rw [show x * -y = -(x * y) by ring, show -y * z = -(y * z) by ring, h.asinh, h.atanNum, h.atanNum, h.atanDen]
  push_cast
  ring

theorem evalK_newellG_neg_z (lv : Leaf → K) (h : OddLeaves lv) (x y z : Rat) :
    evalK lv (newellG x y (-z)) = evalK lv (newellG x y z) := by
  simp only [newellG, evalK, Even.neg_pow (by decide : Even 2)]
  rw [show x * -z = -(x * z) by ring, show y * -z = -(y * z) by ring, h.asinh, h.atanNum, h.atanNum, h.atanDen]
  push_cast
  ring

/-! ## the 64-point stencil inherits the parity -/

omit [CharZero K] in
theorem w3_neg (g : Rat → K) : w3 (fun a => g (-a)) = w3 g := by
  simp only [w3, neg_zero, neg_neg]
  ring

theorem stencil_parity_x (lv : Leaf → K) (fn : Rat → Rat → Rat → List Term) (ε : K)
    (hp : ∀ x y z, evalK lv (fn (-x) y z) = ε * evalK lv (fn x y z)) (x y z dx dy dz : Rat) :
    evalK lv (stencilSum fn (-x) y z dx dy dz) = ε * evalK lv (stencilSum fn x y z dx dy dz) := by
  rw [evalK_stencilSum, evalK_stencilSum, ← w3_neg]
  have e : ∀ a b c : Rat, evalK lv (fn (-x + -a * dx) (y + b * dy) (z + c * dz))
      = ε * evalK lv (fn (x + a * dx) (y + b * dy) (z + c * dz)) := by
    intro a b c
    rw [show -x + -a * dx = -(x + a * dx) by ring, hp]
  simp only [e]
  unfold w3
  ring

theorem stencil_parity_y (lv : Leaf → K) (fn : Rat → Rat → Rat → List Term) (ε : K)
    (hp : ∀ x y z, evalK lv (fn x (-y) z) = ε * evalK lv (fn x y z)) (x y z dx dy dz : Rat) :
    evalK lv (stencilSum fn x (-y) z dx dy dz) = ε * evalK lv (stencilSum fn x y z dx dy dz) := by
  rw [evalK_stencilSum, evalK_stencilSum]
  have e : ∀ a : Rat, (w3 fun b => w3 fun c => evalK lv (fn (x + a * dx) (-y + b * dy) (z + c * dz)))
      = w3 fun b => w3 fun c => ε * evalK lv (fn (x + a * dx) (y + b * dy) (z + c * dz)) := by
    intro a
    rw [← w3_neg]
    have e' : ∀ b c : Rat, evalK lv (fn (x + a * dx) (-y + -b * dy) (z + c * dz))
        = ε * evalK lv (fn (x + a * dx) (y + b * dy) (z + c * dz)) := by
      intro b c
      rw [show -y + -b * dy = -(y + b * dy) by ring, hp]
    simp only [e']
  simp only [e]
  unfold w3
  ring

theorem stencil_parity_z (lv : Leaf → K) (fn : Rat → Rat → Rat → List Term) (ε : K)
    (hp : ∀ x y z, evalK lv (fn x y (-z)) = ε * evalK lv (fn x y z)) (x y z dx dy dz : Rat) :
    evalK lv (stencilSum fn x y (-z) dx dy dz) = ε * evalK lv (stencilSum fn x y z dx dy dz) := by
  rw [evalK_stencilSum, evalK_stencilSum]
  have e : ∀ a b : Rat, (w3 fun c => evalK lv (fn (x + a * dx) (y + b * dy) (-z + c * dz)))
      = w3 fun c => ε * evalK lv (fn (x + a * dx) (y + b * dy) (z + c * dz)) := by
    intro a b
    rw [← w3_neg]
    have e' : ∀ c : Rat, evalK lv (fn (x + a * dx) (y + b * dy) (-z + -c * dz))
        = ε * evalK lv (fn (x + a * dx) (y + b * dy) (z + c * dz)) := by
      intro c
      rw [show -z + -c * dz = -(z + c * dz) by ring, hp]
    simp only [e']
  simp only [e]
  unfold w3
  ring

theorem nElement_parity (lv : Leaf → K) (pi vol : Rat) (fn : Rat → Rat → Rat → List Term) (ε : K)
    (x y z x' y' z' dx dy dz : Rat)
    (h : evalK lv (stencilSum fn x' y' z' dx dy dz) = ε * evalK lv (stencilSum fn x y z dx dy dz)) :
    evalK lv (nElement pi vol fn x' y' z' dx dy dz) = ε * evalK lv (nElement pi vol fn x y z dx dy dz) := by
  unfold nElement
  rw [evalK_scale, evalK_scale, h]
  ring

/-! ## the six components -/

/-- sign of component `c` (`xx, yy, zz, xy, xz, yz`) under reflection of coordinate `e` -/
def paritySign (e c : Nat) : Int :=
  if c < 3 then 1
  else if c = 3 then (if e = 2 then 1 else -1)
  else if c = 4 then (if e = 1 then 1 else -1)
  else (if e = 0 then 1 else -1)

/-- reflect coordinate `e` of the displacement -/
def reflectAt (e : Nat) (x y z : Rat) : Rat × Rat × Rat :=
  if e = 0 then (-x, y, z) else if e = 1 then (x, -y, z) else (x, y, -z)

omit [CharZero K] in
theorem evalK_newellF_even (lv : Leaf → K) :
    (∀ x y z, evalK lv (newellF (-x) y z) = (1 : K) * evalK lv (newellF x y z)) ∧
    (∀ x y z, evalK lv (newellF x (-y) z) = (1 : K) * evalK lv (newellF x y z)) ∧
    (∀ x y z, evalK lv (newellF x y (-z)) = (1 : K) * evalK lv (newellF x y z)) :=
  ⟨fun x y z => by rw [newellF_neg_x, one_mul], fun x y z => by rw [newellF_neg_y, one_mul],
    fun x y z => by rw [newellF_neg_z, one_mul]⟩

theorem evalK_newellG_parity (lv : Leaf → K) (h : OddLeaves lv) :
    (∀ x y z, evalK lv (newellG (-x) y z) = (-1 : K) * evalK lv (newellG x y z)) ∧
    (∀ x y z, evalK lv (newellG x (-y) z) = (-1 : K) * evalK lv (newellG x y z)) ∧
    (∀ x y z, evalK lv (newellG x y (-z)) = (1 : K) * evalK lv (newellG x y z)) :=
  ⟨fun x y z => by rw [evalK_newellG_neg_x lv h]; ring, fun x y z => by rw [evalK_newellG_neg_y lv h]; ring,
    fun x y z => by rw [evalK_newellG_neg_z lv h]; ring⟩

/-- the six components under `x ↦ −x` -/
theorem nAll_parity_x (lv : Leaf → K) (h : OddLeaves lv) (pi c0 c1 c2 x y z : Rat) :
    evalK lv (nElement pi (c0 * c1 * c2) newellF (-x) y z c0 c1 c2) = 1 * evalK lv (nElement pi (c0 * c1 * c2) newellF x y z c0 c1 c2) ∧
    evalK lv (nElement pi (c0 * c1 * c2) newellF y z (-x) c1 c2 c0) = 1 * evalK lv (nElement pi (c0 * c1 * c2) newellF y z x c1 c2 c0) ∧
    evalK lv (nElement pi (c0 * c1 * c2) newellF z (-x) y c2 c0 c1) = 1 * evalK lv (nElement pi (c0 * c1 * c2) newellF z x y c2 c0 c1) ∧
    evalK lv (nElement pi (c0 * c1 * c2) newellG (-x) y z c0 c1 c2) = -1 * evalK lv (nElement pi (c0 * c1 * c2) newellG x y z c0 c1 c2) ∧
    evalK lv (nElement pi (c0 * c1 * c2) newellG (-x) z y c0 c2 c1) = -1 * evalK lv (nElement pi (c0 * c1 * c2) newellG x z y c0 c2 c1) ∧
    evalK lv (nElement pi (c0 * c1 * c2) newellG y z (-x) c1 c2 c0) = 1 * evalK lv (nElement pi (c0 * c1 * c2) newellG y z x c1 c2 c0) := by
  obtain ⟨fx, fy, fz⟩ := evalK_newellF_even lv
  obtain ⟨gx, gy, gz⟩ := evalK_newellG_parity lv h
  exact ⟨nElement_parity lv _ _ _ _ _ _ _ _ _ _ _ _ _ (stencil_parity_x lv _ _ fx _ _ _ _ _ _),
    nElement_parity lv _ _ _ _ _ _ _ _ _ _ _ _ _ (stencil_parity_z lv _ _ fz _ _ _ _ _ _),
    nElement_parity lv _ _ _ _ _ _ _ _ _ _ _ _ _ (stencil_parity_y lv _ _ fy _ _ _ _ _ _),
    nElement_parity lv _ _ _ _ _ _ _ _ _ _ _ _ _ (stencil_parity_x lv _ _ gx _ _ _ _ _ _),
    nElement_parity lv _ _ _ _ _ _ _ _ _ _ _ _ _ (stencil_parity_x lv _ _ gx _ _ _ _ _ _),
    nElement_parity lv _ _ _ _ _ _ _ _ _ _ _ _ _ (stencil_parity_z lv _ _ gz _ _ _ _ _ _)⟩

/-- the six components under `y ↦ −y` -/
theorem nAll_parity_y (lv : Leaf → K) (h : OddLeaves lv) (pi c0 c1 c2 x y z : Rat) :
    evalK lv (nElement pi (c0 * c1 * c2) newellF x (-y) z c0 c1 c2) = 1 * evalK lv (nElement pi (c0 * c1 * c2) newellF x y z c0 c1 c2) ∧
    evalK lv (nElement pi (c0 * c1 * c2) newellF (-y) z x c1 c2 c0) = 1 * evalK lv (nElement pi (c0 * c1 * c2) newellF y z x c1 c2 c0) ∧
    evalK lv (nElement pi (c0 * c1 * c2) newellF z x (-y) c2 c0 c1) = 1 * evalK lv (nElement pi (c0 * c1 * c2) newellF z x y c2 c0 c1) ∧
    evalK lv (nElement pi (c0 * c1 * c2) newellG x (-y) z c0 c1 c2) = -1 * evalK lv (nElement pi (c0 * c1 * c2) newellG x y z c0 c1 c2) ∧
    evalK lv (nElement pi (c0 * c1 * c2) newellG x z (-y) c0 c2 c1) = 1 * evalK lv (nElement pi (c0 * c1 * c2) newellG x z y c0 c2 c1) ∧
    evalK lv (nElement pi (c0 * c1 * c2) newellG (-y) z x c1 c2 c0) = -1 * evalK lv (nElement pi (c0 * c1 * c2) newellG y z x c1 c2 c0) := by
  obtain ⟨fx, fy, fz⟩ := evalK_newellF_even lv
  obtain ⟨gx, gy, gz⟩ := evalK_newellG_parity lv h
  exact ⟨nElement_parity lv _ _ _ _ _ _ _ _ _ _ _ _ _ (stencil_parity_y lv _ _ fy _ _ _ _ _ _),
    nElement_parity lv _ _ _ _ _ _ _ _ _ _ _ _ _ (stencil_parity_x lv _ _ fx _ _ _ _ _ _),
    nElement_parity lv _ _ _ _ _ _ _ _ _ _ _ _ _ (stencil_parity_z lv _ _ fz _ _ _ _ _ _),
    nElement_parity lv _ _ _ _ _ _ _ _ _ _ _ _ _ (stencil_parity_y lv _ _ gy _ _ _ _ _ _),
    nElement_parity lv _ _ _ _ _ _ _ _ _ _ _ _ _ (stencil_parity_z lv _ _ gz _ _ _ _ _ _),
    nElement_parity lv _ _ _ _ _ _ _ _ _ _ _ _ _ (stencil_parity_x lv _ _ gx _ _ _ _ _ _)⟩

/-- the six components under `z ↦ −z` -/
theorem nAll_parity_z (lv : Leaf → K) (h : OddLeaves lv) (pi c0 c1 c2 x y z : Rat) :
    evalK lv (nElement pi (c0 * c1 * c2) newellF x y (-z) c0 c1 c2) = 1 * evalK lv (nElement pi (c0 * c1 * c2) newellF x y z c0 c1 c2) ∧
    evalK lv (nElement pi (c0 * c1 * c2) newellF y (-z) x c1 c2 c0) = 1 * evalK lv (nElement pi (c0 * c1 * c2) newellF y z x c1 c2 c0) ∧
    evalK lv (nElement pi (c0 * c1 * c2) newellF (-z) x y c2 c0 c1) = 1 * evalK lv (nElement pi (c0 * c1 * c2) newellF z x y c2 c0 c1) ∧
    evalK lv (nElement pi (c0 * c1 * c2) newellG x y (-z) c0 c1 c2) = 1 * evalK lv (nElement pi (c0 * c1 * c2) newellG x y z c0 c1 c2) ∧
    evalK lv (nElement pi (c0 * c1 * c2) newellG x (-z) y c0 c2 c1) = -1 * evalK lv (nElement pi (c0 * c1 * c2) newellG x z y c0 c2 c1) ∧
    evalK lv (nElement pi (c0 * c1 * c2) newellG y (-z) x c1 c2 c0) = -1 * evalK lv (nElement pi (c0 * c1 * c2) newellG y z x c1 c2 c0) := by
  obtain ⟨fx, fy, fz⟩ := evalK_newellF_even lv
  obtain ⟨gx, gy, gz⟩ := evalK_newellG_parity lv h
  exact ⟨nElement_parity lv _ _ _ _ _ _ _ _ _ _ _ _ _ (stencil_parity_z lv _ _ fz _ _ _ _ _ _),
    nElement_parity lv _ _ _ _ _ _ _ _ _ _ _ _ _ (stencil_parity_y lv _ _ fy _ _ _ _ _ _),
    nElement_parity lv _ _ _ _ _ _ _ _ _ _ _ _ _ (stencil_parity_x lv _ _ fx _ _ _ _ _ _),
    nElement_parity lv _ _ _ _ _ _ _ _ _ _ _ _ _ (stencil_parity_z lv _ _ gz _ _ _ _ _ _),
    nElement_parity lv _ _ _ _ _ _ _ _ _ _ _ _ _ (stencil_parity_y lv _ _ gy _ _ _ _ _ _),
    nElement_parity lv _ _ _ _ _ _ _ _ _ _ _ _ _ (stencil_parity_y lv _ _ gy _ _ _ _ _ _)⟩

/-- PARITIES OF ALL SIX COMPONENTS under reflection of any coordinate -/
theorem nAll_parity (lv : Leaf → K) (h : OddLeaves lv) (pi c0 c1 c2 x y z : Rat) (e c : Nat) (he : e < 3) (hc : c < 6) :
    evalK lv ((nAll pi c0 c1 c2 (reflectAt e x y z).1 (reflectAt e x y z).2.1 (reflectAt e x y z).2.2).getD c [])
      = ((paritySign e c : Int) : K) * evalK lv ((nAll pi c0 c1 c2 x y z).getD c []) := by
  obtain ⟨x0, x1, x2, x3, x4, x5⟩ := nAll_parity_x lv h pi c0 c1 c2 x y z
  obtain ⟨y0, y1, y2, y3, y4, y5⟩ := nAll_parity_y lv h pi c0 c1 c2 x y z
  obtain ⟨z0, z1, z2, z3, z4, z5⟩ := nAll_parity_z lv h pi c0 c1 c2 x y z
  have he' : e = 0 ∨ e = 1 ∨ e = 2 := by omega
  have hc' : c = 0 ∨ c = 1 ∨ c = 2 ∨ c = 3 ∨ c = 4 ∨ c = 5 := by omega
  have p1 : ((1 : Int) : K) = 1 := Int.cast_one
  have m1 : ((-1 : Int) : K) = -1 := by rw [Int.cast_neg, Int.cast_one]
  rcases he' with rfl | rfl | rfl
  · rcases hc' with rfl | rfl | rfl | rfl | rfl | rfl
    · rw [show paritySign 0 0 = 1 from rfl, p1]; exact x0
    · rw [show paritySign 0 1 = 1 from rfl, p1]; exact x1
    · rw [show paritySign 0 2 = 1 from rfl, p1]; exact x2
    · rw [show paritySign 0 3 = -1 from rfl, m1]; exact x3
    · rw [show paritySign 0 4 = -1 from rfl, m1]; exact x4
    · rw [show paritySign 0 5 = 1 from rfl, p1]; exact x5
  · rcases hc' with rfl | rfl | rfl | rfl | rfl | rfl
    · rw [show paritySign 1 0 = 1 from rfl, p1]; exact y0
    · rw [show paritySign 1 1 = 1 from rfl, p1]; exact y1
    · rw [show paritySign 1 2 = 1 from rfl, p1]; exact y2
    · rw [show paritySign 1 3 = -1 from rfl, m1]; exact y3
    · rw [show paritySign 1 4 = 1 from rfl, p1]; exact y4
    · rw [show paritySign 1 5 = -1 from rfl, m1]; exact y5
  · rcases hc' with rfl | rfl | rfl | rfl | rfl | rfl
    · rw [show paritySign 2 0 = 1 from rfl, p1]; exact z0
    · rw [show paritySign 2 1 = 1 from rfl, p1]; exact z1
    · rw [show paritySign 2 2 = 1 from rfl, p1]; exact z2
    · rw [show paritySign 2 3 = 1 from rfl, p1]; exact z3
    · rw [show paritySign 2 4 = -1 from rfl, m1]; exact z4
    · rw [show paritySign 2 5 = -1 from rfl, m1]; exact z5

/-! ## on the displacement grid: reflection of an index about the central cell -/

/-- reflect index `e` of a cell of the `2n−1` displacement grid about the central cell `n−1` -/
def reflectIdx (m : Mesh) (e : Nat) (j : List Nat) : List Nat := setAt j e (2 * m.nAt e - 2 - j.getD e 0)

theorem arrPoint_reflect (m : Mesh) (hm : m.Inv) (a : Nat) (ha : a < m.ndim) (j : Nat) (hj : j < 2 * m.nAt a - 1) :
    arrPoint m a (2 * m.nAt a - 2 - j) = -arrPoint m a j := by
  rw [arrPoint_eq m hm a ha j hj, arrPoint_eq m hm a ha _ (by omega)]
  have : ((2 * m.nAt a - 2 - j : Nat) : Rat) = 2 * (m.nAt a : Rat) - 2 - (j : Rat) := by
    rw [Nat.cast_sub (by omega), Nat.cast_sub (by omega)]
    push_cast; ring
  rw [this]; ring

/-- PARITY OF THE TENSOR ON ITS GRID: reflecting index `e` of a cell of the displacement grid about the central
cell multiplies component `c` of the array-based tensor by `paritySign e c` -/
theorem tensorArr_parity (lv : Leaf → K) (h : OddLeaves lv) (pi : Rat) (m : Mesh) (hm : m.Inv) (h3 : m.ndim = 3)
    (j0 j1 j2 : Nat) (h0 : j0 < 2 * m.nAt 0 - 1) (h1 : j1 < 2 * m.nAt 1 - 1) (h2 : j2 < 2 * m.nAt 2 - 1)
    (e c : Nat) (he : e < 3) (hc : c < 6) :
    evalK lv ((tensorArr pi m (reflectIdx m e [j0, j1, j2])).getD c [])
      = ((paritySign e c : Int) : K) * evalK lv ((tensorArr pi m [j0, j1, j2]).getD c []) := by
  have he' : e = 0 ∨ e = 1 ∨ e = 2 := by omega
  have key := nAll_parity lv h pi (m.cellAt 0) (m.cellAt 1) (m.cellAt 2) (arrPoint m 0 j0) (arrPoint m 1 j1) (arrPoint m 2 j2) e c he hc
  have e0 : tensorArr pi m [j0, j1, j2]
      = nAll pi (m.cellAt 0) (m.cellAt 1) (m.cellAt 2) (arrPoint m 0 j0) (arrPoint m 1 j1) (arrPoint m 2 j2) := rfl
  rw [e0, ← key]
  rcases he' with rfl | rfl | rfl
  · have := arrPoint_reflect m hm 0 (by omega) j0 h0
    simp only [tensorArr, reflectIdx, reflectAt, setAt, List.getD_cons_zero, List.getD_cons_succ, if_true]
    rw [this]
  · have := arrPoint_reflect m hm 1 (by omega) j1 h1
    simp only [tensorArr, reflectIdx, reflectAt, setAt, List.getD_cons_zero, List.getD_cons_succ, if_true, one_ne_zero, if_false]
    rw [this]
  · have := arrPoint_reflect m hm 2 (by omega) j2 h2
    simp only [tensorArr, reflectIdx, reflectAt, setAt, List.getD_cons_zero, List.getD_cons_succ, OfNat.ofNat_ne_zero, OfNat.ofNat_ne_one, if_false]
    rw [this]

/-! ## the real leaves are odd -/

theorem lvR_odd : OddLeaves lvR := by
  refine ⟨?_, ?_, ?_⟩
  · intro a b
    simp only [lvR]
    split
    · simp
    · push_cast; rw [neg_div, Real.arsinh_neg]
  · intro a b c
    simp only [lvR]
    split
    · simp
    · push_cast; rw [neg_div, Real.arctan_neg]
  · intro a b c
    simp only [lvR]
    by_cases hb : b = 0
    · simp [hb]
    · have hb' : ¬ (-b = 0) := by simpa using hb
      simp only [hb, hb', if_false]
      push_cast
      rw [neg_mul, div_neg, Real.arctan_neg]

/-- rational leaf functions that are odd give odd leaves -/
theorem evalLeaf_odd (asinh atan sqrt : Rat → Rat) (h1 : ∀ x, asinh (-x) = -asinh x) (h2 : ∀ x, atan (-x) = -atan x) :
    OddLeaves (K := Rat) (evalLeaf asinh atan sqrt) := by
  refine ⟨?_, ?_, ?_⟩
  · intro a b
    simp only [evalLeaf]
    split
    · rw [← h1]; simp
    · rw [neg_div, h1]
  · intro a b c
    simp only [evalLeaf]
    split
    · rw [← h2]; simp
    · rw [neg_div, h2]
  · intro a b c
    simp only [evalLeaf]
    by_cases hb : b = 0
    · simp only [hb, neg_zero, if_true]; rw [← h2]; simp
    · have hb' : ¬ (-b = 0) := by simpa using hb
      simp only [hb, hb', if_false]
      rw [neg_mul, div_neg, h2]

end DFV.C19
