import DFV.Model.Basic
/-! Lemmas about `tab` / `allLt` (core Lean only). -/
namespace DFV

@[simp] theorem tab_length {α} (n : Nat) (f : Nat → α) : (tab n f).length = n := by
  simp [tab]

theorem getD_tab {α} (n : Nat) (f : Nat → α) (i : Nat) (d : α) (h : i < n) :
    (tab n f).getD i d = f i := by
  simp [tab, List.getD_eq_getElem?_getD, h]

theorem getElem_tab {α} (n : Nat) (f : Nat → α) (i : Nat) (h : i < (tab n f).length) :
    (tab n f)[i] = f i := by
  simp [tab]

theorem getD_tab_ge {α} (n : Nat) (f : Nat → α) (i : Nat) (d : α) (h : n ≤ i) :
    (tab n f).getD i d = d := by
  simp [tab, List.getD_eq_getElem?_getD, h]

/-- a list is the table of its `getD` -/
theorem eq_tab_of_getD {α} (l : List α) (n : Nat) (f : Nat → α) (d : α) (hl : l.length = n)
    (h : ∀ i, i < n → l.getD i d = f i) : l = tab n f := by
  apply List.ext_getElem
  · simp [hl]
  · intro i h1 h2
    have hi : i < n := by simpa [hl] using h1
    have := h i hi
    rw [getElem_tab]
    simpa [List.getD_eq_getElem?_getD, h1] using this

theorem tab_congr {α} (n : Nat) (f g : Nat → α) (h : ∀ i, i < n → f i = g i) : tab n f = tab n g := by
  unfold tab
  apply List.map_congr_left
  intro i hi
  exact h i (List.mem_range.mp hi)

theorem allLt_iff (n : Nat) (p : Nat → Bool) : allLt n p = true ↔ ∀ a, a < n → p a = true := by
  simp [allLt, List.all_eq_true]

theorem allLt_false_of (n : Nat) (p : Nat → Bool) (a : Nat) (ha : a < n) (h : p a = false) :
    allLt n p = false := by
  cases hh : allLt n p with
  | false => rfl
  | true =>
    have := (allLt_iff n p).mp hh a ha
    simp [h] at this

end DFV
