import DFV.Lemmas.C18Quarter
import DFV.Lemmas.C18Cbrt
/-! Signed permutation matrices (the 24 lattice rotations and their mirror images): bounding
box, back-rotated centres, automatic cell counts and stored values of `FieldRotator`. -/
namespace DFV.C18
open DFV DFV.Mesh

/-- `R` is the signed permutation matrix `e_j ↦ s j • e_(π j)` -/
structure IsLat (R : M3) (π : Nat → Nat) (s : Nat → Rat) : Prop where
  lt : ∀ j, j < 3 → π j < 3
  inj : ∀ i j, i < 3 → j < 3 → π i = π j → i = j
  sign : ∀ j, j < 3 → s j = 1 ∨ s j = -1
  entry : ∀ i j, i < 3 → j < 3 → R.e i j = if i = π j then s j else 0

/-- inverse of a permutation of `{0, 1, 2}` -/
def pinv (π : Nat → Nat) (i : Nat) : Nat := if π 0 = i then 0 else if π 1 = i then 1 else 2

theorem pinv_lt (π : Nat → Nat) (i : Nat) : pinv π i < 3 := by
  unfold pinv; split <;> [omega; (split <;> omega)]

theorem pi_pinv {R π s} (h : IsLat R π s) (i : Nat) (hi : i < 3) : π (pinv π i) = i := by
  have a0 := h.lt 0 (by omega)
  have a1 := h.lt 1 (by omega)
  have a2 := h.lt 2 (by omega)
  have i01 : π 0 ≠ π 1 := fun e => by have := h.inj 0 1 (by omega) (by omega) e; omega
  have i02 : π 0 ≠ π 2 := fun e => by have := h.inj 0 2 (by omega) (by omega) e; omega
  have i12 : π 1 ≠ π 2 := fun e => by have := h.inj 1 2 (by omega) (by omega) e; omega
  unfold pinv
  split
  · assumption
  · split
    · assumption
    · omega

theorem pinv_pi {R π s} (h : IsLat R π s) (j : Nat) (hj : j < 3) : pinv π (π j) = j :=
  h.inj _ _ (pinv_lt _ _) hj (pi_pinv h (π j) (h.lt j hj))

theorem pinv_inj {R π s} (h : IsLat R π s) (i j : Nat) (hi : i < 3) (hj : j < 3) (e : pinv π i = pinv π j) : i = j := by
  rw [← pi_pinv h i hi, ← pi_pinv h j hj, e]

/-- row `i` of a signed permutation matrix has its only non-zero entry in column `π⁻¹ i` -/
theorem IsLat.row {R π s} (h : IsLat R π s) (i j : Nat) (hi : i < 3) (hj : j < 3) :
    R.e i j = if j = pinv π i then s j else 0 := by
  rw [h.entry i j hi hj]
  by_cases e : i = π j
  · rw [if_pos e, if_pos (by rw [e, pinv_pi h j hj])]
  · rw [if_neg e, if_neg (fun e' => e (by rw [e', pi_pinv h i hi]))]

theorem M3.tr_apply_get (Q : M3) (v : V3) (j : Nat) :
    (Q.tr.apply v).get j = Q.e 0 j * v.x + Q.e 1 j * v.y + Q.e 2 j * v.z := by
  match j with
  | 0 => rfl
  | 1 => rfl
  | (k + 2) => rfl

theorem V3.get_cases (v : V3) (P : Nat → Rat → Prop) (h0 : P 0 v.x) (h1 : P 1 v.y) (h2 : P 2 v.z) (a : Nat) (ha : a < 3) :
    P a (v.get a) := by
  have : a = 0 ∨ a = 1 ∨ a = 2 := by omega
  rcases this with e | e | e <;> subst e <;> assumption

/-- `R v` picks component `π⁻¹ i` with its sign -/
theorem IsLat.apply_get {R π s} (h : IsLat R π s) (v : V3) (i : Nat) (hi : i < 3) :
    (R.apply v).get i = s (pinv π i) * v.get (pinv π i) := by
  rw [M3.apply_get, h.row i 0 hi (by omega), h.row i 1 hi (by omega), h.row i 2 hi (by omega)]
  have hp := pinv_lt π i
  have : pinv π i = 0 ∨ pinv π i = 1 ∨ pinv π i = 2 := by omega
  rcases this with e | e | e <;> rw [e] <;> simp [V3.get]

/-- `Rᵀ u` picks component `π j` with the sign of column `j` -/
theorem IsLat.tr_apply_get {R π s} (h : IsLat R π s) (u : V3) (j : Nat) (hj : j < 3) :
    (R.tr.apply u).get j = s j * u.get (π j) := by
  rw [M3.tr_apply_get, h.entry 0 j (by omega) hj, h.entry 1 j (by omega) hj, h.entry 2 j (by omega) hj]
  have hp := h.lt j hj
  have : π j = 0 ∨ π j = 1 ∨ π j = 2 := by omega
  rcases this with e | e | e <;> rw [e] <;> simp [V3.get]

theorem absR_sign_mul (s w : Rat) (hs : s = 1 ∨ s = -1) (hw : 0 ≤ w) : absR (s * w) = w := by
  rw [absR_eq_abs]
  rcases hs with e | e <;> rw [e]
  · rw [one_mul, abs_of_nonneg hw]
  · rw [show (-1 : Rat) * w = -w by ring, abs_neg, abs_of_nonneg hw]

theorem absR_zero_mul (w : Rat) : absR (0 * w) = 0 := by
  rw [zero_mul]; rfl

/-- summed absolute rotated extents: a signed permutation just permutes them -/
theorem IsLat.sumAbs {R π s} (h : IsLat R π s) (w : V3) (hx : 0 ≤ w.x) (hy : 0 ≤ w.y) (hz : 0 ≤ w.z) (i : Nat) (hi : i < 3) :
    sumAbs R w i = w.get (pinv π i) := by
  unfold C18.sumAbs
  rw [h.row i 0 hi (by omega), h.row i 1 hi (by omega), h.row i 2 hi (by omega)]
  have hp := pinv_lt π i
  have s0 := h.sign 0 (by omega)
  have s1 := h.sign 1 (by omega)
  have s2 := h.sign 2 (by omega)
  have : pinv π i = 0 ∨ pinv π i = 1 ∨ pinv π i = 2 := by omega
  rcases this with e | e | e <;> rw [e]
  · rw [if_pos rfl, if_neg (by omega), if_neg (by omega), absR_sign_mul _ _ s0 hx, absR_zero_mul, absR_zero_mul]
    simp [V3.get]
  · rw [if_neg (by omega), if_pos rfl, if_neg (by omega), absR_sign_mul _ _ s1 hy, absR_zero_mul, absR_zero_mul]
    simp [V3.get]
  · rw [if_neg (by omega), if_neg (by omega), if_pos rfl, absR_sign_mul _ _ s2 hz, absR_zero_mul, absR_zero_mul]
    simp [V3.get]

/-- a product over the three axes does not change under a permutation of the axes -/
theorem prod_pinv {R π s} (h : IsLat R π s) (F : Nat → Rat) :
    F (pinv π 0) * F (pinv π 1) * F (pinv π 2) = F 0 * F 1 * F 2 := by
  have l0 := pinv_lt π 0
  have l1 := pinv_lt π 1
  have l2 := pinv_lt π 2
  have i01 : pinv π 0 ≠ pinv π 1 := fun e => by have := pinv_inj h 0 1 (by omega) (by omega) e; omega
  have i02 : pinv π 0 ≠ pinv π 2 := fun e => by have := pinv_inj h 0 2 (by omega) (by omega) e; omega
  have i12 : pinv π 1 ≠ pinv π 2 := fun e => by have := pinv_inj h 1 2 (by omega) (by omega) e; omega
  have c0 : pinv π 0 = 0 ∨ pinv π 0 = 1 ∨ pinv π 0 = 2 := by omega
  have c1 : pinv π 1 = 0 ∨ pinv π 1 = 1 ∨ pinv π 1 = 2 := by omega
  have c2 : pinv π 2 = 0 ∨ pinv π 2 = 1 ∨ pinv π 2 = 2 := by omega
  rcases c0 with e0 | e0 | e0 <;> rcases c1 with e1 | e1 | e1 <;> rcases c2 with e2 | e2 | e2 <;>
    first
      | (exfalso; omega)
      | (rw [e0, e1, e2] <;> ring)

theorem V3.get_sub (a b : V3) (i : Nat) : (a.sub b).get i = a.get i - b.get i := by
  match i with
  | 0 => rfl
  | 1 => rfl
  | (k + 2) => rfl

theorem V3.get_ofList (l : List Rat) (i : Nat) (hi : i < 3) : (V3.ofList l).get i = l.getD i 0 := by
  have : i = 0 ∨ i = 1 ∨ i = 2 := by omega
  rcases this with e | e | e <;> subst e <;> rfl

theorem edgesV_nonneg (m : Mesh) (hm : Mesh3 m) : 0 ≤ (edgesV m).x ∧ 0 ≤ (edgesV m).y ∧ 0 ≤ (edgesV m).z :=
  ⟨(edge_pos m 0 (hm 0 (by omega))).le, (edge_pos m 1 (hm 1 (by omega))).le, (edge_pos m 2 (hm 2 (by omega))).le⟩

theorem cellV_nonneg (m : Mesh) (hm : Mesh3 m) : 0 ≤ (cellV m).x ∧ 0 ≤ (cellV m).y ∧ 0 ≤ (cellV m).z :=
  ⟨(cell_pos m 0 (hm 0 (by omega))).le, (cell_pos m 1 (hm 1 (by omega))).le, (cell_pos m 2 (hm 2 (by omega))).le⟩

/-- bounding box under a signed permutation: the edge lengths are permuted about the same centre -/
theorem lat_region (f : Fld) (hm : Mesh3 f.mesh) {R : M3} {π : Nat → Nat} {s : Nat → Rat} (hL : IsLat R π s)
    (reg : Region) (h : newRegion f R = .ok reg) (i : Nat) (hi : i < 3) :
    reg.lo i = centreAt f.mesh i - f.mesh.region.edge (pinv π i) / 2 ∧
    reg.hi i = centreAt f.mesh i + f.mesh.region.edge (pinv π i) / 2 := by
  obtain ⟨e0, e1, e2⟩ := edgesV_nonneg f.mesh hm
  rw [newRegion_lo f R reg h i hi, newRegion_hi f R reg h i hi]
  unfold boxLo boxHi
  rw [hL.sumAbs _ e0 e1 e2 i hi]
  unfold edgesV
  rw [V3.get_ofFn _ _ (pinv_lt π i)]
  exact ⟨rfl, rfl⟩

/-- source cell index on axis `j` of target cell `idx` under the signed permutation `(π, s)` -/
def latSrc (n : Nat → Nat) (π : Nat → Nat) (s : Nat → Rat) (idx : List Nat) (j : Nat) : Nat :=
  if s j = 1 then idx.getD (π j) 0 else n j - 1 - idx.getD (π j) 0

theorem latSrc_lt (n : Nat → Nat) (π : Nat → Nat) (s : Nat → Rat) (idx : List Nat) (j : Nat)
    (h : idx.getD (π j) 0 < n j) : latSrc n π s idx j < n j := by
  unfold latSrc; split <;> omega

/-- with the permuted cell counts, the centre of target cell `idx` is rotated back onto the
centre of the source cell `latSrc idx` — on every axis, for any cell sizes -/
theorem lat_backPos (f : Fld) (hm : Mesh3 f.mesh) {R : M3} {π : Nat → Nat} {s : Nat → Rat} (hL : IsLat R π s)
    (reg : Region) (h : newRegion f R = .ok reg) (nm : Mesh) (hr : nm.region = reg)
    (hn : ∀ i, i < 3 → nm.nAt i = f.mesh.nAt (pinv π i))
    (idx : List Nat) (hidx : ∀ i, i < 3 → idx.getD i 0 < nm.nAt i) (j : Nat) (hj : j < 3) :
    (backPos f R nm idx).get j = centreRel f.mesh j (latSrc f.mesh.nAt π s idx j) := by
  have hi := hL.lt j hj
  have hpj := pinv_pi hL j hj
  obtain ⟨q0, q1⟩ := lat_region f hm hL reg h (π j) hi
  rw [hpj] at q0 q1
  have hnd : nm.ndim = 3 := by
    unfold Mesh.ndim Region.ndim; rw [hr, (newRegion_ok_inv f R reg h).1]; simp
  have hcov := n_mul_cell f.mesh j (hm j hj)
  have hnj : (f.mesh.nAt j : Rat) ≠ 0 := by exact_mod_cast (Nat.pos_iff_ne_zero.mp (hm j hj).2)
  have hN : nm.nAt (π j) = f.mesh.nAt j := by rw [hn _ hi, hpj]
  have hE : f.mesh.region.edge j = (f.mesh.nAt j : Rat) * f.mesh.cellAt j := by unfold Region.edge; linarith
  have hcell : nm.cellAt (π j) = f.mesh.cellAt j := by
    show nm.region.edge (π j) / (nm.nAt (π j) : Rat) = f.mesh.cellAt j
    have he : nm.region.edge (π j) = (f.mesh.nAt j : Rat) * f.mesh.cellAt j := by
      unfold Region.edge; rw [hr, q0, q1, hE]; ring
    rw [he, hN]; field_simp
  have hx := hidx _ hi
  rw [hN] at hx
  unfold backPos
  rw [hL.tr_apply_get _ j hj, V3.get_sub, V3.get_ofList _ _ hi]
  unfold Mesh.centre centreV
  rw [hnd, getD_tab _ _ _ _ hi, V3.get_ofFn _ _ hi]
  unfold Mesh.centreAx
  rw [hcell, hr, q0, hE]
  unfold centreRel latSrc
  have hlo : f.mesh.region.lo j = centreAt f.mesh j - (f.mesh.nAt j : Rat) * f.mesh.cellAt j / 2 := by
    unfold centreAt; linarith
  rw [hlo]
  rcases hL.sign j hj with e | e
  · rw [if_pos e, e]; push_cast; ring
  · rw [if_neg (by rw [e]; norm_num), e]
    have hcast : (((f.mesh.nAt j - 1 - idx.getD (π j) 0 : Nat)) : Rat) = (f.mesh.nAt j : Rat) - 1 - (idx.getD (π j) 0 : Rat) := by
      rw [Nat.cast_sub (by omega), Nat.cast_sub (by omega)]; simp
    rw [hcast]; push_cast; ring

/-- **lattice rotations copy cells.** Under a signed permutation matrix with the permuted cell
counts every stored value is the rotated vector of exactly one source cell -/
theorem lat_values (f : Fld) (hf : WF f) (hlen : ∀ idx, (f.data.get idx).length = f.nvdim)
    {R : M3} {π : Nat → Nat} {s : Nat → Rat} (hL : IsLat R π s) (n : List Nat)
    (hn : n = tab 3 fun i => f.mesh.nAt (pinv π i)) (g : Fld) (h : rotateOnce f R (some n) = .ok g) :
    ∃ ord, ordFor f = .ok ord ∧ ∀ idx, (∀ i, i < 3 → idx.getD i 0 < n.getD i 0) →
      g.data.get idx = rotVal f.nvdim R ord
        (f.data.get [latSrc f.mesh.nAt π s idx 0, latSrc f.mesh.nAt π s idx 1, latSrc f.mesh.nAt π s idx 2]) := by
  obtain ⟨reg, nm, ord, hreg, hmk, ho, hg⟩ := rotateOnce_ok_inv f R _ g h
  subst hg
  obtain ⟨e1, e2, _, _, _⟩ := mkN?_ok_inv reg _ nm hmk
  simp only [Option.getD_some] at e2
  refine ⟨ord, ho, ?_⟩
  intro idx hidx
  have hN : ∀ i, i < 3 → nm.nAt i = f.mesh.nAt (pinv π i) := by
    intro i hi; unfold Mesh.nAt; rw [e2, hn, getD_tab _ _ _ _ hi]; rfl
  have hidx' : ∀ i, i < 3 → idx.getD i 0 < nm.nAt i := by
    intro i hi; have := hidx i hi; unfold Mesh.nAt; rw [e2]; exact this
  have hv : f.nvdim = 1 ∨ (f.nvdim = 3 ∧ ∀ a, a < 3 → ord.getD a 0 < 3) := by
    rcases hf.2 with h1 | ⟨h3, hl⟩
    · exact Or.inl h1
    · right
      refine ⟨h3, ?_⟩
      intro a ha
      have := ordFor_lt f ord ho (by omega) a ha
      omega
  have hsrc : ∀ j, j < 3 → latSrc f.mesh.nAt π s idx j < f.mesh.nAt j := by
    intro j hj
    apply latSrc_lt
    have := hidx' _ (hL.lt j hj)
    rwa [hN _ (hL.lt j hj), pinv_pi hL j hj] at this
  rw [rotated_data, valuesAt_eq_rot_origAt f R ord _ hv]
  congr 1
  have hd : f.data.get [latSrc f.mesh.nAt π s idx 0, latSrc f.mesh.nAt π s idx 1, latSrc f.mesh.nAt π s idx 2]
      = tab f.nvdim fun c => (f.data.get [latSrc f.mesh.nAt π s idx 0, latSrc f.mesh.nAt π s idx 1,
          latSrc f.mesh.nAt π s idx 2]).getD c 0 :=
    eq_tab_of_getD _ _ _ 0 (hlen _) (fun _ _ => rfl)
  rw [hd]
  apply eq_tab_of_getD _ _ _ 0 (origAt_length f _)
  intro c hcn
  exact origAt_centre f hf.1 _ _ _ (hsrc 0 (by omega)) (hsrc 1 (by omega)) (hsrc 2 (by omega)) c hcn _
    (lat_backPos f hf.1 hL reg hreg nm e1 hN idx hidx' 0 (by omega))
    (lat_backPos f hf.1 hL reg hreg nm e1 hN idx hidx' 1 (by omega))
    (lat_backPos f hf.1 hL reg hreg nm e1 hN idx hidx' 2 (by omega))

theorem cube_mul (a b : Rat) : cube (a * b) = cube a * cube b := by unfold cube; ring

/-- the automatic cell counts of a lattice rotation are the permuted cell counts (the rounded
cube root is taken of a perfect cube), whatever the cell sizes -/
theorem lat_autoN (f : Fld) (hm : Mesh3 f.mesh) {R : M3} {π : Nat → Nat} {s : Nat → Rat} (hL : IsLat R π s)
    (reg : Region) (h : newRegion f R = .ok reg) : autoN f R reg = tab 3 fun i => f.mesh.nAt (pinv π i) := by
  obtain ⟨c0, c1, c2⟩ := cellV_nonneg f.mesh hm
  have p0 := cell_pos f.mesh 0 (hm 0 (by omega))
  have p1 := cell_pos f.mesh 1 (hm 1 (by omega))
  have p2 := cell_pos f.mesh 2 (hm 2 (by omega))
  unfold autoN
  apply tab_congr
  intro i hi
  have hx : autoX3 f R reg i = cube (f.mesh.nAt (pinv π i) : Rat) := by
    unfold autoX3
    rw [hL.sumAbs _ c0 c1 c2 0 (by omega), hL.sumAbs _ c0 c1 c2 1 (by omega), hL.sumAbs _ c0 c1 c2 2 (by omega),
        hL.sumAbs _ c0 c1 c2 i hi]
    have hg : ∀ a, a < 3 → (cellV f.mesh).get a = f.mesh.cellAt a := fun a ha => V3.get_ofFn _ _ ha
    rw [hg _ (pinv_lt π 0), hg _ (pinv_lt π 1), hg _ (pinv_lt π 2), hg _ (pinv_lt π i),
        prod_pinv hL f.mesh.cellAt]
    obtain ⟨q0, q1⟩ := lat_region f hm hL reg h i hi
    have hj := hm _ (pinv_lt π i)
    have hcov := n_mul_cell f.mesh _ hj
    have hc := cell_pos f.mesh _ hj
    have he : reg.edge i = (f.mesh.nAt (pinv π i) : Rat) * f.mesh.cellAt (pinv π i) := by
      unfold Region.edge at *; rw [q0, q1]; linarith
    rw [he, cube_mul]
    have hc3 : cube (f.mesh.cellAt (pinv π i)) ≠ 0 := by unfold cube; positivity
    have hP : f.mesh.cellAt 0 * f.mesh.cellAt 1 * f.mesh.cellAt 2 ≠ 0 := by positivity
    field_simp
  rw [hx]
  exact roundCbrt_cube' _

/-- for a lattice rotation the default `n` is the permuted cell counts: both calls are the same -/
theorem lat_rotateOnce_none (f : Fld) (hm : Mesh3 f.mesh) {R : M3} {π : Nat → Nat} {s : Nat → Rat} (hL : IsLat R π s) :
    rotateOnce f R none = rotateOnce f R (some (tab 3 fun i => f.mesh.nAt (pinv π i))) := by
  unfold rotateOnce
  cases h : newRegion f R with
  | error e => rfl
  | ok reg => simp only [Option.getD_none, Option.getD_some, lat_autoN f hm hL reg h]

/-- the identity is the trivial signed permutation -/
theorem one_isLat : IsLat M3.one (fun j => j) (fun _ => 1) := by
  refine ⟨fun j hj => hj, fun i j _ _ e => e, fun _ _ => Or.inl rfl, ?_⟩
  intro i j hi hj
  have ci : i = 0 ∨ i = 1 ∨ i = 2 := by omega
  have cj : j = 0 ∨ j = 1 ∨ j = 2 := by omega
  rcases ci with e1 | e1 | e1 <;> rcases cj with e2 | e2 | e2 <;> subst e1 <;> subst e2 <;> decide

theorem pinv_id (i : Nat) (hi : i < 3) : pinv (fun j => j) i = i := by
  have ci : i = 0 ∨ i = 1 ∨ i = 2 := by omega
  rcases ci with e | e | e <;> subst e <;> rfl

end DFV.C18
