import DFV.Lemmas.C16Legacy2
/-! C16 helper lemmas, part 17: the legacy reader's data loop on ANY data section — when it
succeeds (exactly) and what every cell holds afterwards (truncated sections, lines starting
with a letter, one-number lines); the legacy reader on a file of the old layout whose data
section is arbitrary. -/
namespace DFV.C16
open DFV DFV.Mesh

/-- what one line must satisfy for the loop not to raise -/
def LineOk (dim : Nat) (l : LLine) : Prop := l ≠ .junk ∧ ∀ xs, l = .nums xs → xs.length = dim ∨ xs.length = 1

theorem dataOk_nil_idx (dim : Nat) (body : List LLine) : DataOk dim 0 body := by
  intro q hq; omega

theorem dataOk_nil_body (dim cnt : Nat) : DataOk dim cnt [] := by
  intro q _ hq; simp at hq

theorem dataOk_cons (dim cnt : Nat) (l : LLine) (ls : List LLine) :
    DataOk dim (cnt + 1) (l :: ls) ↔ LineOk dim l ∧ DataOk dim cnt ls := by
  constructor
  · intro h
    refine ⟨by simpa [LineOk] using h 0 (by omega) (by simp), ?_⟩
    intro q hq hql
    have := h (q + 1) (by omega) (by simpa using hql)
    simpa using this
  · rintro ⟨h0, h1⟩ q hq hql
    cases q with
    | zero => simpa [LineOk] using h0
    | succ q =>
      have := h1 q (by omega) (by simpa using hql)
      simpa using this

/-- **the data loop succeeds exactly when** each of the lines it looks at (as many as there are
cells, or all of them if the section is shorter) is acceptable -/
theorem fill_ok_iff (dim : Nat) (idxs : List (List Nat)) (body : List LLine) (a : NDA (List Rat)) :
    (∃ res, fill dim idxs body a = .ok res) ↔ DataOk dim idxs.length body := by
  induction idxs generalizing body a with
  | nil => exact ⟨fun _ => dataOk_nil_idx dim body, fun _ => ⟨a, by simp [fill]⟩⟩
  | cons i is ih =>
    cases body with
    | nil => exact ⟨fun _ => dataOk_nil_body dim _, fun _ => ⟨a, by simp [fill]⟩⟩
    | cons l ls =>
      rw [List.length_cons, dataOk_cons]
      cases l with
      | nums xs =>
        simp only [fill]
        by_cases h1 : xs.length = dim
        · rw [if_pos h1, ih]
          exact ⟨fun h => ⟨⟨by simp, fun ys e => by cases e; exact Or.inl h1⟩, h⟩, fun h => h.2⟩
        · rw [if_neg h1]
          by_cases h2 : xs.length = 1
          · rw [if_pos h2, ih]
            exact ⟨fun h => ⟨⟨by simp, fun ys e => by cases e; exact Or.inr h2⟩, h⟩, fun h => h.2⟩
          · rw [if_neg h2]
            constructor
            · rintro ⟨_, h⟩; cases h
            · rintro ⟨⟨_, h⟩, _⟩
              rcases h xs rfl with h | h
              · exact absurd h h1
              · exact absurd h h2
      | junk =>
        simp only [fill]
        constructor
        · rintro ⟨_, h⟩; cases h
        · rintro ⟨⟨h, _⟩, _⟩; exact absurd rfl h
      | coords c =>
        simp only [fill]
        rw [ih]
        exact ⟨fun h => ⟨⟨by simp, fun ys e => by cases e⟩, h⟩, fun h => h.2⟩
      | vectors =>
        simp only [fill]
        rw [ih]
        exact ⟨fun h => ⟨⟨by simp, fun ys e => by cases e⟩, h⟩, fun h => h.2⟩
      | scalars =>
        simp only [fill]
        rw [ih]
        exact ⟨fun h => ⟨⟨by simp, fun ys e => by cases e⟩, h⟩, fun h => h.2⟩
      | alpha =>
        simp only [fill]
        rw [ih]
        exact ⟨fun h => ⟨⟨by simp, fun ys e => by cases e⟩, h⟩, fun h => h.2⟩

theorem cellAfter_zero_cons (dim : Nat) (l : LLine) (ls : List LLine) (old : List Rat) :
    cellAfter dim (l :: ls) 0 old = (lineValue dim l).getD old := by
  simp [cellAfter]

theorem cellAfter_succ_cons (dim : Nat) (l : LLine) (ls : List LLine) (t : Nat) (old : List Rat) :
    cellAfter dim (l :: ls) (t + 1) old = cellAfter dim ls t old := by
  simp [cellAfter]

/-- **what the data loop leaves in every cell** -/
theorem fill_spec (dim : Nat) (idxs : List (List Nat)) (body : List LLine) (a res : NDA (List Rat))
    (hnd : idxs.Nodup) (h : fill dim idxs body a = .ok res) :
    res.shape = a.shape ∧
    (∀ t, t < idxs.length → res.get (idxs.getD t []) = cellAfter dim body t (a.get (idxs.getD t []))) ∧
    (∀ j, j ∉ idxs → res.get j = a.get j) := by
  induction idxs generalizing body a with
  | nil =>
    simp only [fill] at h
    injection h with h
    subst h
    exact ⟨rfl, fun t ht => by simp at ht, fun _ _ => rfl⟩
  | cons i is ih =>
    obtain ⟨hi, hnd'⟩ := List.nodup_cons.mp hnd
    cases body with
    | nil =>
      simp only [fill] at h
      injection h with h
      subst h
      exact ⟨rfl, fun t _ => by simp [cellAfter], fun _ _ => rfl⟩
    | cons l ls =>
      -- the step: either the cell is set to `v` or left alone
      have step : ∀ (a' : NDA (List Rat)), a'.shape = a.shape → a'.get i = (lineValue dim l).getD (a.get i) →
          (∀ j, j ≠ i → a'.get j = a.get j) → fill dim is ls a' = .ok res →
          res.shape = a.shape ∧
          (∀ t, t < (i :: is).length → res.get ((i :: is).getD t []) = cellAfter dim (l :: ls) t (a.get ((i :: is).getD t []))) ∧
          (∀ j, j ∉ i :: is → res.get j = a.get j) := by
        intro a' hs h0 hother hf
        obtain ⟨r1, r2, r3⟩ := ih ls a' hnd' hf
        refine ⟨by rw [r1, hs], ?_, ?_⟩
        · intro t ht
          cases t with
          | zero =>
            simp only [List.getD_cons_zero]
            rw [cellAfter_zero_cons, r3 i hi, h0]
          | succ t =>
            simp only [List.getD_cons_succ]
            have ht' : t < is.length := by simpa using ht
            rw [cellAfter_succ_cons, r2 t ht']
            have hne : is.getD t [] ≠ i := by
              intro e
              apply hi
              rw [← e, List.getD_eq_getElem?_getD, List.getElem?_eq_getElem ht']
              exact List.getElem_mem ht'
            rw [hother _ hne]
        · intro j hj
          have hj1 : j ≠ i := fun e => hj (by simp [e])
          have hj2 : j ∉ is := fun e => hj (by simp [e])
          rw [r3 j hj2, hother j hj1]
      cases l with
      | nums xs =>
        simp only [fill] at h
        by_cases h1 : xs.length = dim
        · rw [if_pos h1] at h
          exact step (setCell a i xs) rfl (by simp [setCell, lineValue, h1]) (fun j hj => by simp [setCell, hj]) h
        · rw [if_neg h1] at h
          by_cases h2 : xs.length = 1
          · rw [if_pos h2] at h
            exact step (setCell a i (List.replicate dim (xs.getD 0 0))) rfl (by simp [setCell, lineValue, h1])
              (fun j hj => by simp [setCell, hj]) h
          · rw [if_neg h2] at h; cases h
      | junk => simp only [fill] at h; cases h
      | coords c => simp only [fill] at h; exact step a rfl (by simp [lineValue]) (fun _ _ => rfl) h
      | vectors => simp only [fill] at h; exact step a rfl (by simp [lineValue]) (fun _ _ => rfl) h
      | scalars => simp only [fill] at h; exact step a rfl (by simp [lineValue]) (fun _ _ => rfl) h
      | alpha => simp only [fill] at h; exact step a rfl (by simp [lineValue]) (fun _ _ => rfl) h

/-! ## the whole reader on a file of the old layout with an arbitrary data section -/

theorem legacyFileSplit_eq_body (pre mid post : List LLine) (N : Nat → Nat) (first : Nat → List Rat) (cont : Nat → List LLine)
    (vec : Bool) (rows : List (List Rat)) :
    legacyFileSplit pre mid post N first cont vec rows = legacyFileBody pre mid N first cont vec (rows.map .nums ++ post) := rfl

/-- the field before the data loop runs: mesh with the side-car's subregions, zeros, all valid -/
def legacyBlank (m1 : Mesh) (vec : Bool) (N : Nat → Nat) (d : NDA (List Rat)) : Fld :=
  { mesh := m1, nvdim := if vec then 3 else 1, data := d, valid := NDA.const [N 0, N 1, N 2] true,
    vdims := if vec then some ["x", "y", "z"] else none,
    vmap := defaultVmap (if vec then 3 else 1) m1.region.dims (if vec then some ["x", "y", "z"] else none),
    unit := none }

/-- on a file of the old layout the reader is: geometry from the coordinate blocks, then the data
loop over the lines after the marker -/
theorem legacyRead_body (pre mid body : List LLine) (N : Nat → Nat) (o c : Nat → Rat) (first : Nat → List Rat)
    (cont : Nat → List LLine) (vec : Bool)
    (sidecar : Option (List (String × Region))) (m1 : Mesh)
    (hpre : Quiet pre) (hmid : Quiet mid) (hcont : ∀ a, a < 3 → Quiet (cont a))
    (hbody : ∀ x ∈ body, ∀ k, x ≠ .coords k)
    (hsc : vec = false → (∀ x ∈ pre ++ (cont 0 ++ (cont 1 ++ (cont 2 ++ mid))), x ≠ .scalars) ∧ ∀ x ∈ body, x ≠ .vectors)
    (hN : ∀ a, a < 3 → 1 ≤ N a) (hc : ∀ a, a < 3 → 0 < c a)
    (hfirst : ∀ a, a < 3 → 1 ≤ (first a).length ∧ (first a).getD 0 0 = o a ∧
      (1 < N a → 1 < (first a).length ∧ (first a).getD 1 0 = o a + c a) ∧ (N a = 1 → (first a).length = 1))
    (hsub : loadSubs { region := plainRegion (tab 3 (fun a => o a - legCe N c a * (1/2)))
                                  (tab 3 (fun a => o a - legCe N c a * (1/2) + (N a : Rat) * legCe N c a)),
                       n := [N 0, N 1, N 2], bc := "", subs := [] } sidecar = .ok m1) :
    legacyRead (legacyFileBody pre mid N first cont vec body) sidecar =
      match fill (if vec then 3 else 1) (indicesF [N 0, N 1, N 2]) body
              (NDA.const [N 0, N 1, N 2] (List.replicate (if vec then 3 else 1) 0)) with
      | .error e => .error e
      | .ok d => .ok (legacyBlank m1 vec N d) := by
  set es : List (Nat × List Rat) := [(N 0, first 0), (N 1, first 1), (N 2, first 2)] with hes
  set tail : List LLine := (if vec then [LLine.vectors] else [.scalars, .alpha]) ++ body with htail
  have hfile : legacyFileBody pre mid N first cont vec body =
      pre ++ ((.coords (N 0) :: .nums (first 0) :: cont 0) ++ ((.coords (N 1) :: .nums (first 1) :: cont 1) ++
        ((.coords (N 2) :: .nums (first 2) :: cont 2) ++ (mid ++ tail)))) := rfl
  have htailc : ∀ x ∈ mid ++ tail, ∀ k, x ≠ .coords k := by
    intro x hx k
    rcases List.mem_append.mp hx with hx | hx
    · exact (hmid x hx).1 k
    · rw [htail] at hx
      rcases List.mem_append.mp hx with hx | hx
      · cases vec <;> simp at hx <;> rcases hx with rfl | rfl <;> simp
      · exact hbody x hx k
  have hce : coordEntries (legacyFileBody pre mid N first cont vec body) = .ok es := by
    rw [hfile, coordEntries_skip pre _ (fun x hx => (hpre x hx).1)]
    apply coordEntries_block' _ _ _ _ _ (fun x hx => (hcont 0 (by omega) x hx).1)
    apply coordEntries_block' _ _ _ _ _ (fun x hx => (hcont 1 (by omega) x hx).1)
    apply coordEntries_block' _ _ _ _ _ (fun x hx => (hcont 2 (by omega) x hx).1)
    exact coordEntries_none _ htailc
  set head : List LLine := pre ++ ((.coords (N 0) :: .nums (first 0) :: cont 0) ++
    ((.coords (N 1) :: .nums (first 1) :: cont 1) ++ ((.coords (N 2) :: .nums (first 2) :: cont 2) ++ mid))) with hhead
  have hsplit : legacyFileBody pre mid N first cont vec body = head ++ tail := by
    rw [hfile, hhead]; simp
  have hheadmem : ∀ x ∈ head, x ∈ pre ++ (cont 0 ++ (cont 1 ++ (cont 2 ++ mid))) ∨
      (∃ k, x = .coords k) ∨ (∃ xs, x = .nums xs) := by
    intro x hx
    rw [hhead] at hx
    simp only [List.mem_append, List.mem_cons] at hx ⊢
    rcases hx with h | (h | h | h) | (h | h | h) | (h | h | h) | h
    · exact Or.inl (Or.inl h)
    · exact Or.inr (Or.inl ⟨_, h⟩)
    · exact Or.inr (Or.inr ⟨_, h⟩)
    · exact Or.inl (Or.inr (Or.inl h))
    · exact Or.inr (Or.inl ⟨_, h⟩)
    · exact Or.inr (Or.inr ⟨_, h⟩)
    · exact Or.inl (Or.inr (Or.inr (Or.inl h)))
    · exact Or.inr (Or.inl ⟨_, h⟩)
    · exact Or.inr (Or.inr ⟨_, h⟩)
    · exact Or.inl (Or.inr (Or.inr (Or.inr (Or.inl h))))
    · exact Or.inl (Or.inr (Or.inr (Or.inr (Or.inr h))))
  have hquiet : ∀ x ∈ pre ++ (cont 0 ++ (cont 1 ++ (cont 2 ++ mid))), x ≠ .vectors := by
    intro x hx
    simp only [List.mem_append] at hx
    rcases hx with h | h | h | h | h
    · exact (hpre x h).2
    · exact (hcont 0 (by omega) x h).2
    · exact (hcont 1 (by omega) x h).2
    · exact (hcont 2 (by omega) x h).2
    · exact (hmid x h).2
  have hvec : (legacyFileBody pre mid N first cont vec body).contains .vectors = vec := by
    cases vec with
    | true =>
      rw [List.contains_iff_mem, hsplit]
      simp [htail]
    | false =>
      obtain ⟨_, hp2⟩ := hsc rfl
      have : ¬ LLine.vectors ∈ legacyFileBody pre mid N first cont false body := by
        rw [hsplit, htail]
        simp only [List.mem_append, not_or]
        refine ⟨?_, ?_, fun h => hp2 _ h rfl⟩
        · intro h
          rcases hheadmem _ h with h | ⟨k, h⟩ | ⟨xs, h⟩
          · exact hquiet _ h rfl
          · cases h
          · cases h
        · simp
      simpa [List.contains_iff_mem] using this
  have hmark : afterMarker vec (legacyFileBody pre mid N first cont vec body) =
      some ((if vec then [] else [LLine.alpha]) ++ body) := by
    have hq : ∀ x ∈ head, ((vec && x == .vectors) || (!vec && x == .scalars)) = false := by
      intro x hx
      cases vec with
      | true =>
        have : x ≠ .vectors := by
          rcases hheadmem _ hx with h | ⟨k, h⟩ | ⟨xs, h⟩
          · exact hquiet _ h
          · rw [h]; simp
          · rw [h]; simp
        simpa using this
      | false =>
        obtain ⟨hp1, _⟩ := hsc rfl
        have : x ≠ .scalars := by
          rcases hheadmem _ hx with h | ⟨k, h⟩ | ⟨xs, h⟩
          · exact hp1 _ h
          · rw [h]; simp
          · rw [h]; simp
        simpa using this
    rw [hsplit, afterMarker_skip vec _ _ hq, htail]
    cases vec <;> simp [afterMarker]
  have hcell : ∀ a, a < 3 → (legCell es).getD a 0 = legCe N c a := by
    intro a ha
    obtain ⟨h1, h2, h3, h4⟩ := hfirst a ha
    have key : (if 1 < (first a).length then (first a).getD 1 0 - (first a).getD 0 0 else nm1) = legCe N c a := by
      unfold legCe
      by_cases hNa : 1 < N a
      · obtain ⟨h5, h6⟩ := h3 hNa
        rw [if_pos h5, if_pos hNa, h6, h2]; ring
      · have : N a = 1 := by have := hN a ha; omega
        have h5 := h4 this
        rw [if_neg (by omega), if_neg hNa]
    have : a = 0 ∨ a = 1 ∨ a = 2 := by omega
    rcases this with rfl | rfl | rfl <;>
    · simp only [legCell, hes, List.map_cons, List.map_nil, List.getD_cons_zero, List.getD_cons_succ]
      exact key
  have horg : ∀ a, a < 3 → (legOrigin es).getD a 0 = o a := by
    intro a ha
    have : a = 0 ∨ a = 1 ∨ a = 2 := by omega
    rcases this with rfl | rfl | rfl <;>
    · simp only [legOrigin, hes, List.map_cons, List.map_nil, List.getD_cons_zero, List.getD_cons_succ]
      exact (hfirst _ (by omega)).2.1
  have hn : legN es = [N 0, N 1, N 2] := rfl
  have hp1 : legP1 es = tab 3 (fun a => o a - legCe N c a * (1/2)) := by
    unfold legP1
    apply tab_congr
    intro a ha
    rw [horg a ha, hcell a ha]
  have hp2 : legP2 es = tab 3 (fun a => o a - legCe N c a * (1/2) + (N a : Rat) * legCe N c a) := by
    unfold legP2
    apply tab_congr
    intro a ha
    have ha' : a < 3 := ha
    rw [hp1, getD_tab _ _ _ _ ha', hcell a ha', hn]
    have : a = 0 ∨ a = 1 ∨ a = 2 := by omega
    rcases this with rfl | rfl | rfl <;> simp
  have hcepos : ∀ a, a < 3 → 0 < legCe N c a := by
    intro a ha
    unfold legCe
    split
    · exact hc a ha
    · exact nm1_pos
  have hmesh := meshOf_plain (legP1 es) (legP2 es) (legN es) (by simp [legP1, hes]) (by simp [legP2, hes]) rfl
    (by
      intro a ha
      rw [hp2, hp1, getD_tab _ _ _ _ ha, getD_tab _ _ _ _ ha]
      have h1 : (1 : Rat) ≤ (N a : Rat) := by exact_mod_cast hN a ha
      have := hcepos a ha
      nlinarith)
    (by
      intro k hk
      rw [hn] at hk
      simp only [List.mem_cons, List.mem_nil_iff, or_false] at hk
      rcases hk with rfl | rfl | rfl
      · have := hN 0 (by omega); omega
      · have := hN 1 (by omega); omega
      · have := hN 2 (by omega); omega)
  rw [hp1, hp2, hn] at hmesh
  obtain ⟨hm1r, hm1n, _⟩ := loadSubs_geom _ _ _ hsub
  simp only at hm1r hm1n
  unfold legacyRead
  rw [hce]
  simp only
  have hany : (es.any fun e => decide (e.2.length = 0)) = false := by
    rw [List.any_eq_false]
    intro e he
    simp only [hes, List.mem_cons, List.mem_nil_iff, or_false] at he
    rcases he with rfl | rfl | rfl <;> simp only [decide_eq_true_eq]
    · have := (hfirst 0 (by omega)).1; omega
    · have := (hfirst 1 (by omega)).1; omega
    · have := (hfirst 2 (by omega)).1; omega
  rw [hany]
  simp only [Bool.false_eq_true, if_false]
  rw [hp1, hp2, hn, hmesh]
  simp only [hsub, hvec]
  rw [mkField_legacy m1 vec (by rw [hm1r]; rfl)]
  simp only
  rw [hmark]
  simp only
  have hdrop : (((if vec then [] else [LLine.alpha]) ++ body).drop (if vec then 0 else 1)) = body := by
    cases vec <;> simp
  rw [hdrop, hm1n, C01.indices_refines]
  cases fill (if vec then 3 else 1) (indicesF [N 0, N 1, N 2]) body
      (NDA.const [N 0, N 1, N 2] (List.replicate (if vec then 3 else 1) 0)) with
  | error e => rfl
  | ok d => rfl

end DFV.C16
