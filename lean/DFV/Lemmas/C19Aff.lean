import DFV.Lemmas.C19Bps
import DFV.Lemmas.C19Angle
/-!
# C19 — the emergent field and `count_bps` under translation / rescaling of the mesh and under rescaling
of the vectors

`F_kl = m·(∂_k m × ∂_l m)` is divided by `λ²` when the mesh is scaled by `λ` (and translated), and multiplied by
`s³` when every vector is multiplied by `s`; `count_bps` normalises the field first and integrates the
divergence of the emergent field over the sample: its whole result is unchanged by a translation and a
rescaling `λ ≠ 0` of the mesh, and by any per-cell rescaling of the vectors that leaves the orientation alone.
-/
namespace DFV.C19
open DFV

/-! ## emergent field -/

theorem emSpec_affF (lam : Rat) (t : List Rat) (f : Fld) (k l : Nat) (hk : k < f.mesh.ndim) (hl : l < f.mesh.ndim)
    (i : List Nat) : emSpec (affF lam t f) k l i = emSpec f k l i / (lam * lam) := by
  unfold emSpec
  rw [Dv_affF lam t f k true i hk, Dv_affF lam t f l true i hl]
  have hc : cellV (affF lam t f) i = cellV f i := rfl
  rw [hc]
  simp only [V3.dot, V3.cross, V3.sdiv]
  by_cases h0 : lam = 0
  · subst h0; simp
  · field_simp

/-- `emergent_magnetic_field` of the field on the scaled and translated mesh: same refusal, or the field on the
scaled and translated mesh holding the values divided by `λ²` -/
theorem emergent_affF (lam : Rat) (t : List Rat) (f e : Fld) (h : emergent f = .ok e) :
    ∃ e', emergent (affF lam t f) = .ok e' ∧ e'.mesh = affMesh lam t e.mesh ∧ e'.valid = e.valid ∧
      e'.data.shape = e.data.shape ∧ e'.nvdim = 3 ∧
      ∀ i c, c < 3 → (e'.data.get i).getD c 0 = (e.data.get i).getD c 0 / (lam * lam) := by
  have h3 : f.nvdim = 3 := by
    by_cases hc : f.nvdim = 3
    · exact hc
    · unfold emergent at h; rw [if_pos hc] at h; cases h
  have hd : f.mesh.ndim = 3 := by
    by_cases hc : f.mesh.ndim = 3
    · exact hc
    · unfold emergent at h; rw [if_neg (by simp [h3]), if_pos hc] at h; cases h
  rw [emergent_eq f h3 hd] at h
  injection h with h
  subst h
  have hd' : (affF lam t f).mesh.ndim = 3 := by
    show (tab f.mesh.region.ndim _).length = 3
    rw [tab_length]; exact hd
  refine ⟨_, emergent_eq (affF lam t f) h3 hd', rfl, rfl, rfl, rfl, ?_⟩
  intro i c hc
  show ([emSpec (affF lam t f) 1 2 i, emSpec (affF lam t f) 2 0 i, emSpec (affF lam t f) 0 1 i] : List Rat).getD c 0
    = ([emSpec f 1 2 i, emSpec f 2 0 i, emSpec f 0 1 i] : List Rat).getD c 0 / (lam * lam)
  rw [emSpec_affF lam t f 1 2 (by omega) (by omega), emSpec_affF lam t f 2 0 (by omega) (by omega),
    emSpec_affF lam t f 0 1 (by omega) (by omega)]
  rcases (by omega : c = 0 ∨ c = 1 ∨ c = 2) with rfl | rfl | rfl <;> simp

/-- multiplying every vector by `s` multiplies the emergent field by `s³` -/
theorem scaleF_const_compRel (s : Rat) (f : Fld) : CompRel s f (scaleF (fun _ => s) f) := by
  refine ⟨rfl, rfl, ?_⟩
  intro j c hc
  show (((V3.ofList (f.data.get j)).smul s).toList).getD c 0 = s * (f.data.get j).getD c 0
  simp only [V3.ofList, V3.smul, V3.toList]
  rcases (by omega : c = 0 ∨ c = 1 ∨ c = 2) with rfl | rfl | rfl <;> simp

theorem emergent_scale (s : Rat) (f e : Fld) (h : emergent f = .ok e) :
    ∃ e', emergent (scaleF (fun _ => s) f) = .ok e' ∧ e'.mesh = e.mesh ∧ e'.valid = e.valid ∧
      e'.data.shape = e.data.shape ∧
      ∀ i c, c < 3 → (e'.data.get i).getD c 0 = s * s * s * (e.data.get i).getD c 0 := by
  have h3 : f.nvdim = 3 := by
    by_cases hc : f.nvdim = 3
    · exact hc
    · unfold emergent at h; rw [if_pos hc] at h; cases h
  have hd : f.mesh.ndim = 3 := by
    by_cases hc : f.mesh.ndim = 3
    · exact hc
    · unfold emergent at h; rw [if_neg (by simp [h3]), if_pos hc] at h; cases h
  rw [emergent_eq f h3 hd] at h
  injection h with h
  subst h
  refine ⟨_, emergent_eq (scaleF (fun _ => s) f) h3 hd, rfl, rfl, rfl, ?_⟩
  intro i c hc
  have hr := scaleF_const_compRel s f
  show ([emSpec (scaleF (fun _ => s) f) 1 2 i, emSpec (scaleF (fun _ => s) f) 2 0 i, emSpec (scaleF (fun _ => s) f) 0 1 i] : List Rat).getD c 0
    = s * s * s * ([emSpec f 1 2 i, emSpec f 2 0 i, emSpec f 0 1 i] : List Rat).getD c 0
  rw [hr.emSpec, hr.emSpec, hr.emSpec]
  rcases (by omega : c = 0 ∨ c = 1 ∨ c = 2) with rfl | rfl | rfl <;> simp

/-! ## `count_bps`: rescaling the vectors -/

theorem countBps_scaleF (sq : Rat → Rat) (pi : Rat) (s : List Nat → Rat) (f : Fld) (dir : String)
    (h : ∀ i, orient sq ((V3.ofList (f.data.get i)).smul (s i)) = orient sq (V3.ofList (f.data.get i))) :
    countBps sq pi (scaleF s f) dir = countBps sq pi f dir := by
  rw [countBps_eq, countBps_eq]
  have hm : (scaleF s f).mesh = f.mesh := rfl
  have hnv : (scaleF s f).nvdim = f.nvdim := rfl
  have he : emOri sq (scaleF s f) = emOri sq f := by
    unfold emOri; rw [orientation_scaleF sq s f h]
  rw [hm, hnv, he]

/-! ## `count_bps`: scaling and translating the mesh -/

theorem bpRed_aff (lam : Rat) (t : List Rat) (m : Mesh) (h3 : m.ndim = 3) (g g' : List Nat → Rat) (μ : Rat)
    (hg : ∀ i, g' i = μ * g i) (ax k : Nat) :
    bpRed (affMesh lam t m) g' ax k = lam * lam * μ * bpRed m g ax k := by
  unfold bpRed
  have hn : ∀ a, (affMesh lam t m).nAt a = m.nAt a := fun _ => rfl
  have o1 : (otherAxes ax).1 < m.ndim := by
    unfold otherAxes; split <;> [simp; (split <;> simp)] <;> omega
  have o2 : (otherAxes ax).2 < m.ndim := by
    unfold otherAxes; split <;> [simp; (split <;> simp)] <;> omega
  rw [hn, hn, affMesh_cellAt lam t m _ (Or.inl o1), affMesh_cellAt lam t m _ (Or.inl o2)]
  simp only [hg]
  have e1 : ∀ p, (sumTo (m.nAt (otherAxes ax).2) fun q => μ * g (idx3 ax k p q))
      = μ * sumTo (m.nAt (otherAxes ax).2) fun q => g (idx3 ax k p q) := by
    intro p
    induction m.nAt (otherAxes ax).2 with
    | zero => simp [sumTo]
    | succ n ih => simp only [sumTo, ih]; ring
  simp only [e1]
  have e2 : ∀ (n : Nat) (F : Nat → Rat) (c : Rat), (sumTo n fun p => c * F p) = c * sumTo n F := by
    intro n F c
    induction n with
    | zero => simp [sumTo]
    | succ n ih => simp only [sumTo, ih]; ring
  have e3 : (sumTo (m.nAt (otherAxes ax).1) fun p =>
        μ * (sumTo (m.nAt (otherAxes ax).2) fun q => g (idx3 ax k p q)) * (lam * m.cellAt (otherAxes ax).2))
      = (μ * lam) * sumTo (m.nAt (otherAxes ax).1) fun p =>
        (sumTo (m.nAt (otherAxes ax).2) fun q => g (idx3 ax k p q)) * m.cellAt (otherAxes ax).2 := by
    rw [← e2]
    apply sumTo_congr
    intro p _
    ring
  rw [e3]
  ring

theorem sumTo_div (n : Nat) (F : Nat → Rat) (c : Rat) : (sumTo n fun k => F k / c) = sumTo n F / c := by
  induction n with
  | zero => simp [sumTo]
  | succ n ih => simp only [sumTo, ih]; ring

theorem bpFromReds_aff (reds : List Rat) (lam h : Rat) (hl : lam ≠ 0) :
    bpFromReds (reds.map (· / lam)) (lam * h) = bpFromReds reds h := by
  unfold bpFromReds
  rw [List.length_map]
  unfold tab
  apply List.map_congr_left
  intro k _
  unfold bpIntL
  have e : ∀ j, (reds.map (· / lam)).getD j 0 = reds.getD j 0 / lam := fun j => getD_map_div reds lam j
  simp only [e]
  rw [sumTo_div]
  field_simp

/-- the counting stage on the scaled mesh, for an emergent field divided by `λ²` -/
theorem divCount_aff (pi lam : Rat) (hl : lam ≠ 0) (t : List Rat) (m : Mesh) (hm3 : m.ndim = 3) (ax : Nat) (hax : ax < 3)
    (e e' : Fld) (he3 : e.nvdim = 3) (hem : e.mesh = m) (he3' : e'.nvdim = 3) (hem' : e'.mesh = affMesh lam t m)
    (hvalid : e'.valid = e.valid) (hdata : e'.data = e.data.map fun v => v.map (· / (lam * lam))) :
    divCount pi (affMesh lam t m) ax (forceF e') = divCount pi m ax (forceF e) := by
  have hd' : (affMesh lam t m).ndim = 3 := by
    show (tab m.region.ndim _).length = 3
    rw [tab_length]; exact hm3
  rw [divCount_eq pi _ ax (forceF e') he3' (by show e'.mesh.ndim = 3; rw [hem']; exact hd'),
    divCount_eq pi _ ax (forceF e) he3 (by show e.mesh.ndim = 3; rw [hem]; exact hm3)]
  have hrel : CompRel (1 / (lam * lam)) (affF lam t (forceF e)) (forceF e') := by
    refine ⟨?_, ?_, ?_⟩
    · show e'.mesh = affMesh lam t e.mesh
      rw [hem', hem]
    · show e'.valid.force false = e.valid.force false
      rw [hvalid]
    · intro j c _
      show ((e'.data.force []).get j).getD c 0 = 1 / (lam * lam) * ((e.data.force []).get j).getD c 0
      rw [hdata, force_map_comp _ _ c (by simp), getD_map_div]
      ring
  have hdiv : ∀ i, divSpec (forceF e') i = (1 / (lam * lam) / lam) * divSpec (forceF e) i := by
    intro i
    unfold divSpec
    have hfm : (forceF e).mesh.ndim = 3 := by show e.mesh.ndim = 3; rw [hem]; exact hm3
    rw [Dc_smul _ _ 0 1 true 0 _ i hrel.1 hrel.2.1 (fun j => hrel.2.2 j 0 (by omega)),
      Dc_smul _ _ 1 1 true 1 _ i hrel.1 hrel.2.1 (fun j => hrel.2.2 j 1 (by omega)),
      Dc_smul _ _ 2 1 true 2 _ i hrel.1 hrel.2.1 (fun j => hrel.2.2 j 2 (by omega)),
      Dc_affF lam t (forceF e) 0 true 0 i (Or.inl (by omega)),
      Dc_affF lam t (forceF e) 1 true 1 i (Or.inl (by omega)),
      Dc_affF lam t (forceF e) 2 true 2 i (Or.inl (by omega))]
    ring
  have hred : ∀ k, bpRed (affMesh lam t m) (divSpec (forceF e')) ax k = bpRed m (divSpec (forceF e)) ax k / lam := by
    intro k
    rw [bpRed_aff lam t m hm3 (divSpec (forceF e)) (divSpec (forceF e')) _ hdiv ax k]
    field_simp
  have hn : (affMesh lam t m).nAt ax = m.nAt ax := rfl
  have et : (tab (m.nAt ax) fun k => bpRed (affMesh lam t m) (divSpec (forceF e')) ax k)
      = (tab (m.nAt ax) fun k => bpRed m (divSpec (forceF e)) ax k).map (· / lam) := by
    unfold tab
    rw [List.map_map]
    apply List.map_congr_left
    intro k _
    exact hred k
  rw [hn, et, affMesh_cellAt lam t m ax (Or.inl (by omega)), bpFromReds_aff _ lam _ hl]

/-- `count_bps` IS UNCHANGED BY TRANSLATING AND RESCALING THE MESH (`λ ≠ 0`): the same cumulative flux, numbers,
counts and pattern, or the same refusal -/
theorem countBps_affF (sq : Rat → Rat) (pi : Rat) (lam : Rat) (hl : lam ≠ 0) (t : List Rat) (f : Fld) (dir : String)
    (hdl : f.mesh.region.dims.length = f.mesh.ndim) :
    countBps sq pi (affF lam t f) dir = countBps sq pi f dir := by
  rw [countBps_eq, countBps_eq]
  have hnv : (affF lam t f).nvdim = f.nvdim := rfl
  have hdim : (affF lam t f).mesh.ndim = f.mesh.ndim := by
    show (tab f.mesh.region.ndim _).length = _
    rw [tab_length]; rfl
  have hdims : (affF lam t f).mesh.region.dims = f.mesh.region.dims := rfl
  rw [hnv, hdim, hdims]
  by_cases hd : f.mesh.ndim ≠ 3
  · rw [if_pos hd, if_pos hd]
  · rw [if_neg hd, if_neg hd]
    by_cases h3 : f.nvdim ≠ 3
    · rw [if_pos h3, if_pos h3]
    · rw [if_neg h3, if_neg h3]
      have hd' : f.mesh.ndim = 3 := not_not.mp hd
      have h3' : f.nvdim = 3 := not_not.mp h3
      cases hax : indexOf? f.mesh.region.dims dir with
      | none => rfl
      | some ax =>
        simp only
        have haxl : ax < 3 := by
          have := indexOf_lt' f.mesh.region.dims dir ax hax
          omega
        have ho3 : (forceF (orientation sq f)).nvdim = 3 := h3'
        have hod : (forceF (orientation sq f)).mesh.ndim = 3 := hd'
        have hod' : (affF lam t (forceF (orientation sq f))).mesh.ndim = 3 := by rw [← hd']; exact hdim
        have e1 : emOri sq f = emergent (forceF (orientation sq f)) := rfl
        have e2 : emOri sq (affF lam t f) = emergent (affF lam t (forceF (orientation sq f))) := rfl
        rw [e1, e2, emergent_eq _ ho3 hod, emergent_eq (affF lam t (forceF (orientation sq f))) ho3 hod']
        simp only
        refine divCount_aff pi lam hl t f.mesh hd' ax haxl _ _ ?_ ?_ ?_ ?_ ?_ ?_
        · rfl
        · rfl
        · rfl
        · rfl
        · rfl
        show (⟨(forceF (orientation sq f)).data.shape, _⟩ : NDA (List Rat)) = ⟨(forceF (orientation sq f)).data.shape, _⟩
        congr 1
        funext i
        rw [emSpec_affF lam t _ 1 2 (by omega) (by omega), emSpec_affF lam t _ 2 0 (by omega) (by omega),
          emSpec_affF lam t _ 0 1 (by omega) (by omega)]
        rfl

end DFV.C19
