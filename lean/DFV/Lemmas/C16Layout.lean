import DFV.Lemmas.C16TextAcc
import DFV.Lemmas.C16Fill
/-! C16 helper lemmas, part 20: what the legacy writer makes of the cell data of a well-formed
field (sections, order), the arrays value by value, `GetArray(name)` for any distinct labels,
the coordinate-block scan of the legacy reader as an equivalence. -/
namespace DFV.C16
open DFV DFV.Mesh

/-! ## the legacy file of a well-formed field -/

theorem filter_field_wf (f : Fld) (nx ny nz : Nat) (h : WF f nx ny nz) :
    ((normVArr f :: (comps f ++ [fieldVArr f, validVArr f])).filter fun a => a.name == "field") = [fieldVArr f] ∧
    ((normVArr f :: (comps f ++ [fieldVArr f, validVArr f])).filter fun a => !(a.name == "field")) =
      normVArr f :: (comps f ++ [validVArr f]) := by
  have hc1 : (comps f).filter (fun a => a.name == "field") = [] := by
    rw [List.filter_eq_nil_iff]
    intro a ha
    have := (comps_names f nx ny nz h a ha).2.1
    simpa using this
  have hc2 : (comps f).filter (fun a => !(a.name == "field")) = comps f := by
    rw [List.filter_eq_self]
    intro a ha
    have := (comps_names f nx ny nz h a ha).2.1
    simpa using this
  constructor
  · rw [List.filter_cons_of_neg (by simp [normVArr]), List.filter_append, hc1]
    simp [List.filter, fieldVArr, validVArr]
  · rw [List.filter_cons_of_pos (by simp [normVArr]), List.filter_append, hc2]
    simp [List.filter, fieldVArr, validVArr]

/-- the arrays in the order a VTK reader returns them for a legacy (`bin` / `txt`) file of a
well-formed field: `field` first when it is the active scalars / vectors array -/
theorem legacyOrder_wf (f : Fld) (nx ny nz : Nat) (h : WF f nx ny nz) :
    legacyOrder (activeAttr f) (normVArr f :: (comps f ++ [fieldVArr f, validVArr f])) =
      if f.nvdim = 3 ∨ f.nvdim = 1 then fieldVArr f :: normVArr f :: (comps f ++ [validVArr f])
      else normVArr f :: (comps f ++ [fieldVArr f, validVArr f]) := by
  rw [legacyOrder_active]
  obtain ⟨e1, e2⟩ := filter_field_wf f nx ny nz h
  split
  · rw [e1, e2]; rfl
  · rfl

theorem comps_names_list (f : Fld) : (comps f).map (fun a => a.name) = if 1 < f.nvdim then f.vdims.getD [] else [] := by
  unfold comps
  split
  · rw [List.map_map]
    have : ((fun a : VArr => a.name) ∘ compVArr f (f.vdims.getD [])) = id := by funext l; rfl
    rw [this]; simp
  · rfl

/-- the `CELL_DATA` sections of that file -/
theorem legacySections_wf (f : Fld) (nx ny nz : Nat) (h : WF f nx ny nz) :
    legacySections (activeAttr f) (normVArr f :: (comps f ++ [fieldVArr f, validVArr f])) =
      if f.nvdim = 3 then [.vectors "field", .field ("norm" :: ((f.vdims.getD []) ++ ["valid"]))]
      else if f.nvdim = 1 then [.scalars "field", .field ["norm", "valid"]]
      else [.field ("norm" :: ((f.vdims.getD []) ++ ["field", "valid"]))] := by
  obtain ⟨e1, e2⟩ := filter_field_wf f nx ny nz h
  have hn := comps_names_list f
  rcases activeAttr_cases f with ⟨e, h3⟩ | ⟨e, h1⟩ | ⟨e, h3, h1⟩
  · rw [e, if_pos h3]
    have hnv : 1 < f.nvdim := by omega
    rw [if_pos hnv] at hn
    have e2' : (List.filter (fun a => !(some a.name == (none : Option String)) && !(some a.name == some "field"))
        (normVArr f :: (comps f ++ [fieldVArr f, validVArr f]))) = normVArr f :: (comps f ++ [validVArr f]) := by
      rw [← e2]; apply List.filter_congr; intro a _; simp
    simp only [legacySections, e1, e2', List.map_cons, List.map_nil, List.nil_append, List.map_append, hn]
    rfl
  · rw [e, if_neg (by omega), if_pos h1]
    have hnv : ¬ 1 < f.nvdim := by omega
    rw [if_neg hnv] at hn
    have hc : comps f = [] := by
      cases hcs : comps f with
      | nil => rfl
      | cons a l => rw [hcs] at hn; simp at hn
    have e2' : (List.filter (fun a => !(some a.name == some "field") && !(some a.name == (none : Option String)))
        (normVArr f :: (comps f ++ [fieldVArr f, validVArr f]))) = normVArr f :: (comps f ++ [validVArr f]) := by
      rw [← e2]; apply List.filter_congr; intro a _; simp
    simp only [legacySections, e1, e2', List.map_cons, List.map_nil, List.nil_append, List.append_nil, hc]
    rfl
  · rw [e, if_neg h3, if_neg h1]
    have e2' : (List.filter (fun a => !(some a.name == (none : Option String)) && !(some a.name == (none : Option String)))
        (normVArr f :: (comps f ++ [fieldVArr f, validVArr f]))) = normVArr f :: (comps f ++ [fieldVArr f, validVArr f]) := by
      rw [List.filter_eq_self]; intro a _; simp
    simp only [legacySections, e2', List.map_cons, List.map_nil, List.nil_append, List.map_append, hn]
    have hnv : 1 < f.nvdim := by have := h.nv; omega
    rw [if_pos hnv]
    rfl

/-! ## the arrays, value by value -/

theorem unflatF3_form (nx ny nz t : Nat) : ∃ i j k, unflatF [nx, ny, nz] t = [i, j, k] :=
  ⟨_, _, _, unflatF3 nx ny nz t⟩

theorem fieldVArr_vals (f : Fld) (nx ny nz : Nat) (hs : f.data.shape = [nx, ny, nz]) :
    (fieldVArr f).vals = tab (natProd [nx, ny, nz] * f.nvdim) fun q =>
      (f.data.get (unflatF [nx, ny, nz] (q / f.nvdim))).getD (q % f.nvdim) 0 := by
  show flat4 (array4 f) = _
  rw [flat4_eq (array4 f) nx ny nz f.nvdim (array4_shape f nx ny nz hs)]
  apply tab_congr
  intro q _
  obtain ⟨i, j, k, e⟩ := unflatF3_form nx ny nz (q / f.nvdim)
  rw [e]
  exact array4_get f nx ny nz hs i j k _

theorem normVArr_vals (f : Fld) (nx ny nz : Nat) (hs : f.data.shape = [nx, ny, nz]) :
    (normVArr f).vals = tab (natProd [nx, ny, nz]) fun t => sumSq (f.data.get (unflatF [nx, ny, nz] t)) f.nvdim := by
  show flat4 (normSqArr f) = _
  have hsh : (normSqArr f).shape = [nx, ny, nz, 1] := by simp [normSqArr, hs]
  rw [flat4_eq (normSqArr f) nx ny nz 1 hsh]
  have : natProd [nx, ny, nz] * 1 = natProd [nx, ny, nz] := by omega
  rw [this]
  apply tab_congr
  intro q _
  obtain ⟨i, j, k, e⟩ := unflatF3_form nx ny nz (q / 1)
  have e' : unflatF [nx, ny, nz] q = [i, j, k] := by simpa using e
  rw [e, e']
  simp [normSqArr, NDA.get, hs]

theorem validVArr_vals (f : Fld) (nx ny nz : Nat) (hs : f.valid.shape = [nx, ny, nz]) :
    (validVArr f).vals = tab (natProd [nx, ny, nz]) fun t => if f.valid.get (unflatF [nx, ny, nz] t) then 1 else 0 := by
  show flat3 (validInt f) = _
  rw [flat3_eq (validInt f) nx ny nz (by simp [validInt, NDA.map, hs])]
  apply tab_congr
  intro q _
  simp [validInt, NDA.map, NDA.get]

theorem compVArr_vals (f : Fld) (nx ny nz : Nat) (hs : f.data.shape = [nx, ny, nz]) (vs : List String) (l : String) :
    (compVArr f vs l).vals = tab (natProd [nx, ny, nz]) fun t =>
      (f.data.get (unflatF [nx, ny, nz] t)).getD ((indexOf? vs l).getD 0) 0 := by
  show flat4 (compArr f ((indexOf? vs l).getD 0)) = _
  have hsh : (compArr f ((indexOf? vs l).getD 0)).shape = [nx, ny, nz, 1] := by simp [compArr, hs]
  rw [flat4_eq _ nx ny nz 1 hsh]
  have : natProd [nx, ny, nz] * 1 = natProd [nx, ny, nz] := by omega
  rw [this]
  apply tab_congr
  intro q _
  obtain ⟨i, j, k, e⟩ := unflatF3_form nx ny nz (q / 1)
  have e' : unflatF [nx, ny, nz] q = [i, j, k] := by simpa using e
  rw [e, e']
  simp only [compArr, NDA.get, hs, List.length_cons, List.length_nil, List.cons_append, List.nil_append]
  have : List.take (0 + 1 + 1 + 1) [i, j, k, q % 1] = [i, j, k] := rfl
  rw [this]
  exact array4_get f nx ny nz hs i j k _

/-! ## `GetArray(name)` on lists with distinct names -/

theorem find_eq_lastNamed (l : List VArr) (nm : String) (h : (names l).Nodup) :
    l.find? (fun a => a.name == nm) = lastNamed nm l := by
  induction l with
  | nil => rfl
  | cons b bs ih =>
    have hnd : (names bs).Nodup := by
      simp only [names, List.map_cons, List.nodup_cons] at h
      exact h.2
    have hbn : ¬ b.name ∈ names bs := by
      simp only [names, List.map_cons, List.nodup_cons] at h
      exact h.1
    rw [lastNamed_cons, List.find?_cons]
    by_cases hb : b.name = nm
    · have : (b.name == nm) = true := by simpa using hb
      rw [this, lastNamed_none_of_not_mem nm bs (by rw [← hb]; exact hbn), if_pos hb]
    · have : (b.name == nm) = false := by simpa using hb
      rw [this, ih hnd, if_neg hb]
      cases lastNamed nm bs <;> rfl

theorem cellData_nodup (f : Fld) : (names (cellData f)).Nodup := by
  rw [cellData_pre]
  exact names_addArray_nodup _ _ (names_addArray_nodup _ _ (preData_nodup f))

/-! ## the coordinate-block scan, exactly -/

/-- **the scan over `*_COORDINATES` headers succeeds exactly when** every header line is followed
by a numeric line -/
theorem coordEntries_ok_iff (l : List LLine) :
    (∃ es, coordEntries l = .ok es) ↔
      ∀ i c, l[i]? = some (.coords c) → ∃ xs, l[i + 1]? = some (.nums xs) := by
  induction l with
  | nil => simp [coordEntries]
  | cons x t ih =>
    have shift : (∀ i c, (x :: t)[i]? = some (.coords c) → ∃ xs, (x :: t)[i + 1]? = some (.nums xs)) ↔
        ((∀ c, x = .coords c → ∃ xs, t[0]? = some (.nums xs)) ∧
         ∀ i c, t[i]? = some (.coords c) → ∃ xs, t[i + 1]? = some (.nums xs)) := by
      constructor
      · intro h
        refine ⟨fun c hc => by simpa using h 0 c (by simp [hc]), fun i c hi => ?_⟩
        simpa using h (i + 1) c (by simpa using hi)
      · rintro ⟨h0, h1⟩ i c hi
        cases i with
        | zero => simpa using h0 c (by simpa using hi)
        | succ i => simpa using h1 i c (by simpa using hi)
    rw [shift, ← ih]
    cases x with
    | coords cnt =>
      cases t with
      | nil =>
        simp only [coordEntries]
        constructor
        · rintro ⟨_, h⟩; cases h
        · rintro ⟨h, _⟩
          obtain ⟨xs, hxs⟩ := h cnt rfl
          simp at hxs
      | cons y t' =>
        cases y with
        | nums xs =>
          have hq : coordEntries (LLine.nums xs :: t') = coordEntries t' := by simp [coordEntries]
          have hstep : coordEntries (LLine.coords cnt :: LLine.nums xs :: t') =
              match coordEntries t' with
              | .error e => .error e
              | .ok es => .ok ((cnt, xs) :: es) := by
            simp only [coordEntries]
            cases coordEntries t' <;> rfl
          rw [hstep, hq]
          cases coordEntries t' with
          | error e =>
            constructor
            · rintro ⟨_, h⟩; cases h
            · rintro ⟨_, _, h⟩; cases h
          | ok es =>
            exact ⟨fun _ => ⟨fun c _ => ⟨xs, by simp⟩, es, rfl⟩, fun _ => ⟨_, rfl⟩⟩
        | coords c' =>
          simp only [coordEntries]
          constructor
          · rintro ⟨_, h⟩; cases h
          · rintro ⟨h, _⟩; obtain ⟨xs, hxs⟩ := h cnt rfl; simp at hxs
        | vectors =>
          simp only [coordEntries]
          constructor
          · rintro ⟨_, h⟩; cases h
          · rintro ⟨h, _⟩; obtain ⟨xs, hxs⟩ := h cnt rfl; simp at hxs
        | scalars =>
          simp only [coordEntries]
          constructor
          · rintro ⟨_, h⟩; cases h
          · rintro ⟨h, _⟩; obtain ⟨xs, hxs⟩ := h cnt rfl; simp at hxs
        | alpha =>
          simp only [coordEntries]
          constructor
          · rintro ⟨_, h⟩; cases h
          · rintro ⟨h, _⟩; obtain ⟨xs, hxs⟩ := h cnt rfl; simp at hxs
        | junk =>
          simp only [coordEntries]
          constructor
          · rintro ⟨_, h⟩; cases h
          · rintro ⟨h, _⟩; obtain ⟨xs, hxs⟩ := h cnt rfl; simp at hxs
    | nums xs => simp only [coordEntries]; exact ⟨fun h => ⟨fun c hc => (by cases hc), h⟩, fun h => h.2⟩
    | vectors => simp only [coordEntries]; exact ⟨fun h => ⟨fun c hc => (by cases hc), h⟩, fun h => h.2⟩
    | scalars => simp only [coordEntries]; exact ⟨fun h => ⟨fun c hc => (by cases hc), h⟩, fun h => h.2⟩
    | alpha => simp only [coordEntries]; exact ⟨fun h => ⟨fun c hc => (by cases hc), h⟩, fun h => h.2⟩
    | junk => simp only [coordEntries]; exact ⟨fun h => ⟨fun c hc => (by cases hc), h⟩, fun h => h.2⟩

end DFV.C16
