import DFV.Lemmas.C15RoundGen
/-!
Rounded arithmetic for C15, part 5: the computed norm / setter / orientation of one cell with
ANY number of components (real cells: `m = (n+1)·u`), with an exact root (`SqrtAt`) and with a
rounded root (`SqrtOk`).
-/
namespace DFV.C15
set_option linter.unusedSectionVars false
variable {K : Type} [Field K] [LinearOrder K] [IsStrictOrderedRing K]

/-- the hypothesis on the component count `n` in the form the theorems state it:
`(n+1)²·u ≤ 2^-10` -/
theorem small_len {u : K} (hu : 0 ≤ u) (n : Nat) (h : ((n : K) + 1) * ((n : K) + 1) * u ≤ 1 / 1024) :
    Small u (((n : K) + 1) * u) := by
  have := small_of_count hu (n + 1) (by omega) (by push_cast; exact h)
  push_cast at this
  exact this

theorem gam_small {u : K} (k : Nat) (s : Small u ((k : K) * u)) : gam u k ≤ (k : K) * u + u / 1024 := by
  have h1 := gam_le_quad s.u0 k (by have := s.m64; linarith)
  have := s.mm
  linarith

/-- rounded sum of squares of `n` components: within `(n+1)u + u/1024` -/
theorem flSqLen_err_small {fl : K → K} {u : K} (h : FlOk fl u) (v : List K)
    (s : Small u (((v.length : K) + 1) * u)) :
    |flSqLen fl v - sqLen v| ≤ (((v.length : K) + 1) * u + u / 1024) * sqLen v := by
  have h1 := flSqLen_err h v
  have s' : Small u (((v.length + 1 : Nat) : K) * u) := by push_cast; exact s
  have h2 := gam_small (v.length + 1) s'
  push_cast at h2
  exact le_trans h1 (mul_le_mul_of_nonneg_right h2 (sqLen_nonneg v))

/-- **the computed norm, any number of components** (exact root): within `(n+1)/2·u + 513/512·u` -/
theorem flNormCell_err_gen {fl sqrt : K → K} {u : K} (h : FlOk fl u) (v : List K)
    (s : Small u (((v.length : K) + 1) * u))
    (hs : SqrtAt sqrt (sqLen v)) (hs' : SqrtAt sqrt (flSqLen fl v)) :
    |flNormCell fl sqrt v - normCell sqrt v| ≤
      (1 / 2 * (((v.length : K) + 1) * u) + 513 / 512 * u) * normCell sqrt v := by
  have herr := flSqLen_err_small h v s
  unfold flNormCell normCell
  have hfl := h.2 (sqrt (flSqLen fl v))
  rw [abs_of_nonneg hs'.1] at hfl
  have hγ0 : 0 ≤ ((v.length : K) + 1) * u + u / 1024 := by
    have := s.m0; have := s.u0; linarith
  exact root_round_gen s hγ0 le_rfl hs'.1 hs.1 (by rw [hs'.2, hs.2]; exact herr) hfl

theorem flNormCell_eq_zero_iff_gen {fl sqrt : K → K} {u : K} (h : FlOk fl u) (v : List K)
    (s : Small u (((v.length : K) + 1) * u)) (hs' : SqrtAt sqrt (flSqLen fl v)) :
    flNormCell fl sqrt v = 0 ↔ sqLen v = 0 := by
  have hu0 := h.1
  unfold flNormCell
  rw [h.eq_zero_iff (by have := s.u64; linarith), hs'.eq_zero_iff]
  have s' : Small u (((v.length + 1 : Nat) : K) * u) := by push_cast; exact s
  have h2 := gam_small (v.length + 1) s'
  push_cast at h2
  exact flSqLen_eq_zero_iff h v (by have := s.m64; have := s.u64; linarith)

/-- **the computed norm with a rounded root, any number of components**: non-negative, its
square within `(n+1)u + 65/16·u`, zero exactly on the zero vector -/
theorem flNormCell_exec_gen {fl sq : K → K} {u : K} (h : FlOk fl u) (hq : SqrtOk sq u) (v : List K)
    (s : Small u (((v.length : K) + 1) * u)) :
    0 ≤ flNormCell fl sq v ∧
    |flNormCell fl sq v * flNormCell fl sq v - sqLen v| ≤
      (((v.length : K) + 1) * u + 65 / 16 * u) * sqLen v ∧
    (flNormCell fl sq v = 0 ↔ sqLen v = 0) := by
  have herr := flSqLen_err_small h v s
  have hu0 := s.u0
  have hm0 := s.m0
  have hg0 : 0 ≤ ((v.length : K) + 1) * u + u / 1024 := by linarith
  have hg : ((v.length : K) + 1) * u + u / 1024 ≤ 1 / 512 := by
    have := s.m64; have := s.u64; linarith
  obtain ⟨h1, h2, h3⟩ := norm_exec_gen h hq s.u64 hg0 hg (sqLen_nonneg v) herr
  refine ⟨h1, le_trans h2 (mul_le_mul_of_nonneg_right (by linarith) (sqLen_nonneg v)), h3⟩

/-- the ratio `S/n²` for a norm whose square is within `m + 65/16·u`: within `m + 33/8·u` of 1 -/
theorem ratio_small {u m S n : K} (s : Small u m) (hS : 0 < S) (hn : 0 < n)
    (h : |n * n - S| ≤ (m + 65 / 16 * u) * S) : |S / (n * n) - 1| ≤ m + 33 / 8 * u := by
  have hu0 := s.u0
  have hm0 := s.m0
  have hκ0 : 0 ≤ m + 65 / 16 * u := by linarith
  have hκ : m + 65 / 16 * u ≤ 1 / 8 := by have := s.m64; have := s.u64; linarith
  have p := s.prod hκ0 hκ0 (a := 1) (b := 65 / 16) (c := 1) (d := 65 / 16) (by norm_num) (by norm_num)
    (by norm_num) (by norm_num) (by linarith) (by linarith)
  have := ratio_err_gen hκ0 hκ hS hn h
  linarith

/-- squared length after `sqLen_set_chain` with `ρ ≤ c·u` (`c ≤ 4`), `κ' ≤ m + 33/8·u` -/
theorem set_chain_small {u m ρ c κ' : K} (s : Small u m) (hρ : 0 ≤ ρ) (hc : 0 ≤ c) (hc4 : c ≤ 4)
    (hρc : ρ ≤ c * u) (hκ0 : 0 ≤ κ') (hκ : κ' ≤ m + 33 / 8 * u) :
    (2 * ρ + ρ * ρ) * (1 + κ') + κ' ≤ m + (2 * c + 33 / 8 + 1 / 8) * u := by
  have hu0 := s.u0
  have hm0 := s.m0
  have hcu : c * u ≤ 4 * u := mul_le_mul_of_nonneg_right hc4 hu0
  have hccu : c * (c * u) ≤ 4 * (4 * u) := by
    have := mul_le_mul_of_nonneg_left hcu hc
    have := mul_le_mul_of_nonneg_right hc4 (by linarith : (0 : K) ≤ 4 * u)
    linarith
  have p1 := s.prod hρ hρ (a := 0) (b := c) (c := 0) (d := c) le_rfl hc le_rfl hc (by linarith) (by linarith)
  have h2 : 0 ≤ 2 * ρ + ρ * ρ := by nlinarith
  have h2' : 2 * ρ + ρ * ρ ≤ 0 * m + (2 * c + 1 / 64) * u := by
    have : (0 + c) * (0 + c) * (u / 1024) = c * (c * u) / 1024 := by ring
    linarith
  have p2 := s.prod h2 hκ0 (a := 0) (b := 2 * c + 1 / 64) (c := 1) (d := 33 / 8) le_rfl (by linarith)
    (by norm_num) (by norm_num) h2' (by linarith)
  have e : (0 + (2 * c + 1 / 64)) * (1 + 33 / 8) * (u / 1024) = 41 / 4096 * (c * u) + 41 / 524288 * u := by ring
  have e2 : (2 * ρ + ρ * ρ) * (1 + κ') + κ' = (2 * ρ + ρ * ρ) + (2 * ρ + ρ * ρ) * κ' + κ' := by ring
  have e3 : (2 * c + 33 / 8 + 1 / 8) * u = 2 * (c * u) + 17 / 4 * u := by ring
  have e4 : (2 * c + 1 / 64) * u = 2 * (c * u) + 1 / 64 * u := by ring
  rw [e] at p2
  rw [e2, e3]
  rw [e4] at h2'
  linarith

end DFV.C15
