import DFV.Lemmas.C20Light
import DFV.Lemmas.C07Accept
/-!
C20 helper lemmas, fifth part: acceptance.  Input conditions under which the individual steps
of the plot functions (multiplier, extent, filter, auxiliary field lookup, label lookups,
colour) succeed; used by the `…_accepts` theorems of `Props/C20.lean`.
-/
namespace DFV.C20
open DFV

/-! ## input conditions -/

/-- an auxiliary (filter / colour / lightness) field the plot functions accept: one component,
2-d mesh, and either the cell counts of the plotted field or a well-formed mesh and metadata
the `Field` constructor accepts (needed by `resample`) -/
def AuxOk (f g : Fld) : Prop :=
  g.nvdim = 1 ∧ g.mesh.region.ndim = 2 ∧ (g.mesh.n = f.mesh.n ∨ (g.mesh.Inv ∧ C07.metaOk g = true))

/-- a multiplier the plot functions accept: an entry of the SI table, or (default) a region
whose edges all lie in `[1e-24, 1e27)` -/
def MultOk (f : Fld) : Option Rat → Prop
  | some m => ∃ p, (p, m) ∈ siTable
  | none => ∀ a, a < f.mesh.region.ndim →
      p1000 (-8) ≤ f.mesh.region.edge a ∧ f.mesh.region.edge a < p1000 9

/-- labels and mapping of a vector field the vector / lightness / default plots accept:
labelled components, every mapped label is a non-empty component label, and both plot axes
are mapped to -/
def MappingOk (f : Fld) : Prop :=
  ∃ vs, f.vdims = some vs ∧ (∀ p ∈ f.vmap, p.1 ∈ vs ∧ p.1 ≠ "") ∧
    (∃ p ∈ f.vmap, p.2 = f.mesh.region.dims.getD 0 "") ∧
    (∃ p ∈ f.vmap, p.2 = f.mesh.region.dims.getD 1 "")

theorem auxOk_geom (f g : Fld) (hf : f.mesh.Inv) (h : AuxOk f g) : AuxGeom f g := by
  rcases h.2.2 with h | ⟨h, _⟩
  · exact Or.inl h
  · exact Or.inr ⟨h, hf⟩

/-! ## multiplier -/

theorem setupMultiplier_none_ok (f : Fld) (hinv : f.mesh.Inv)
    (hr : ∀ a, a < f.mesh.region.ndim →
      p1000 (-8) ≤ f.mesh.region.edge a ∧ f.mesh.region.edge a < p1000 9) :
    ∃ m pre, setupMultiplier f none = .ok m ∧ rsiPrefix? m = some pre := by
  obtain ⟨⟨hpos, _, _, _, _, hlt⟩, _, _⟩ := hinv
  have hedge : ∀ a, a < f.mesh.region.ndim → 0 < f.mesh.region.edge a := by
    intro a ha
    have := hlt a ha
    unfold Region.edge
    linarith
  have hex : ∃ m, setupMultiplier f none = .ok m := by
    simp only [setupMultiplier, siMaxMultiplier]
    apply maxOpt_total
    · intro hnil
      have : (f.mesh.region.edges.map siMultiplier).length = 0 := by rw [hnil]; rfl
      simp [Region.edges] at this
      unfold Region.ndim at this
      omega
    · intro x hx
      obtain ⟨e, he, hxe⟩ := List.mem_map.mp hx
      unfold Region.edges tab at he
      obtain ⟨a, ha, hae⟩ := List.mem_map.mp he
      have ha' := List.mem_range.mp ha
      have habs : absR (f.mesh.region.edge a) = f.mesh.region.edge a := by
        rw [absR_eq_abs, abs_of_pos (hedge a ha')]
      obtain ⟨_, k, _, hs⟩ := siMultiplier_total (f.mesh.region.edge a) (ne_of_gt (hedge a ha'))
        (by rw [habs]; exact (hr a ha').1) (by rw [habs]; exact (hr a ha').2)
      exact ⟨p1000 k, by rw [← hxe, ← hae, hs]⟩
  obtain ⟨m, hm⟩ := hex
  refine ⟨m, ?_⟩
  have h := hm
  simp only [setupMultiplier, siMaxMultiplier] at h
  obtain ⟨hmem, _⟩ := maxOpt_ok _ m h
  obtain ⟨e, he, hsm⟩ := List.mem_map.mp hmem
  have he' : ∃ a, a < f.mesh.region.ndim ∧ f.mesh.region.edge a = e := by
    unfold Region.edges tab at he
    obtain ⟨a, ha, hae⟩ := List.mem_map.mp he
    exact ⟨a, List.mem_range.mp ha, hae⟩
  obtain ⟨a, ha, rfl⟩ := he'
  obtain ⟨p, k, hk, hmk, _, _⟩ := siMultiplier_sound _ m (ne_of_gt (hedge a ha)) hsm
  exact ⟨p, hm, by rw [hmk]; exact rsiPrefix_table (p, k) hk⟩

theorem setupMultiplier_ok (f : Fld) (hinv : f.mesh.Inv) (mult : Option Rat) (h : MultOk f mult) :
    ∃ m pre, setupMultiplier f mult = .ok m ∧ rsiPrefix? m = some pre := by
  cases mult with
  | none => exact setupMultiplier_none_ok f hinv h
  | some m =>
    obtain ⟨p, hp⟩ := h
    obtain ⟨k, hk, rfl⟩ := (mem_siTable p m).mp hp
    exact ⟨_, p, rfl, rsiPrefix_table (p, k) hk⟩

/-! ## auxiliary fields -/

/-- `Field.resample` accepts every list of positive cell counts of the right length
(same argument as C07's `resample_accepts`, repeated here to stay inside the lemma layer) -/
theorem resample_ok (g : Fld) (hg : g.mesh.Inv) (hmeta : C07.metaOk g = true) (n : List Nat)
    (hl : n.length = g.mesh.ndim) (hpos : ∀ k, k ∈ n → 0 < k) :
    ∃ r, C07.resample g (n.map Int.ofNat) = .ok r := by
  unfold C07.resample
  rw [if_neg (by rw [List.length_map]; omega)]
  have hany : ((n.map Int.ofNat).any fun k => decide (k ≤ 0)) = false := by
    rw [List.any_eq_false]; intro k hk
    obtain ⟨z, hz, rfl⟩ := List.mem_map.mp hk
    have := hpos z hz
    simp only [decide_eq_true_eq, not_le]
    exact Int.natCast_pos.mpr this
  rw [hany]
  simp only [Bool.false_eq_true, if_false]
  rw [map_toNat_ofNat]
  unfold Mesh.mkN?
  rw [if_neg (fun h => h hl)]
  have hz : (n.any (· = 0)) = false := by
    rw [List.any_eq_false]; intro k hk
    have := hpos k hk
    simp only [decide_eq_true_eq]; omega
  rw [hz]
  simp only [Bool.false_eq_true, if_false]
  rw [C07.emptyLower, C07.bcOk_empty]
  simp only [Bool.not_true, Bool.false_eq_true, if_false]
  have hc : g.mesh.region.containsReg g.mesh.region = true := by
    unfold Region.containsReg
    rw [C07.containsPt_of_exact g.mesh.region g.mesh.region.pmin rfl (fun a ha =>
        ⟨le_refl _, (C07.inv_lo_lt_hi hg ha).le⟩),
      C07.containsPt_of_exact g.mesh.region g.mesh.region.pmax (C07.inv_pmax_length hg) (fun a ha =>
        ⟨(C07.inv_lo_lt_hi hg ha).le, le_refl _⟩)]
    rfl
  rw [hc]
  simp only [Bool.not_true, Bool.false_eq_true, if_false]
  exact C07.mkFld_ok _ _ _ _ rfl rfl hmeta

theorem auxOnMesh_ok (f g : Fld) (hf : f.mesh.Inv) (h2 : f.mesh.region.ndim = 2) (h : AuxOk f g) :
    ∃ a, auxOnMesh f g = .ok a := by
  obtain ⟨_, hg2, hcase⟩ := h
  unfold auxOnMesh
  by_cases hn : g.mesh.n = f.mesh.n
  · rw [if_pos hn]; exact ⟨_, rfl⟩
  · rw [if_neg hn]
    rcases hcase with hcase | ⟨hg, hmeta⟩
    · exact absurd hcase hn
    · obtain ⟨r, hr⟩ := resample_ok g hg hmeta f.mesh.n (by rw [hf.2.1, h2]; exact hg2.symm) (by
        intro k hk
        obtain ⟨a, ha, hka⟩ := C07.mem_getD f.mesh.n k 0 hk
        rw [← hka]
        exact hf.2.2 a (by unfold Mesh.ndim; rw [← hf.2.1]; exact ha))
      rw [hr]
      exact ⟨_, rfl⟩

theorem filterKeep_ok (f : Fld) (o : Opts) (hf : f.mesh.Inv) (h2 : f.mesh.region.ndim = 2)
    (h : ∀ g, o.filter = some g → AuxOk f g) : ∃ keep, filterKeep f (filterOf f o) = .ok keep := by
  cases hflt : o.filter with
  | none =>
    have hfo : filterOf f o = validAsField f := by simp [filterOf, hflt]
    obtain ⟨keep, hk, _⟩ := filterKeep_valid f h2
    exact ⟨keep, by rw [hfo]; exact hk⟩
  | some g =>
    have hfo : filterOf f o = g := by simp [filterOf, hflt]
    have hg := h g hflt
    obtain ⟨a, ha⟩ := auxOnMesh_ok f g hf h2 hg
    rw [hfo]
    unfold filterKeep
    rw [if_neg (by simpa using hg.1), if_neg (by simpa using hg.2.1), ha]
    exact ⟨_, rfl⟩

theorem lightSrc_ok (f : Fld) (aux : Option Fld) (dflt : NDA Rat) (hf : f.mesh.Inv)
    (h2 : f.mesh.region.ndim = 2) (h : ∀ g, aux = some g → AuxOk f g) :
    ∃ l, lightSrc f aux dflt = .ok l := by
  cases aux with
  | none => exact ⟨_, rfl⟩
  | some g =>
    have hg := h g rfl
    obtain ⟨a, ha⟩ := auxOnMesh_ok f g hf h2 hg
    unfold lightSrc
    simp only []
    rw [if_neg (by simpa using hg.1), if_neg (by simpa using hg.2.1), ha]
    exact ⟨_, rfl⟩

/-! ## label lookups -/

theorem indexOf_go_some (xs : List String) (x : String) (s : Nat) (h : x ∈ xs) :
    ∃ k, indexOf?.go x xs s = some k := by
  induction xs generalizing s with
  | nil => cases h
  | cons y ys ih =>
    unfold indexOf?.go
    by_cases hy : y = x
    · rw [if_pos hy]; exact ⟨_, rfl⟩
    · rw [if_neg hy]
      rcases List.mem_cons.mp h with h | h
      · exact absurd h.symm hy
      · exact ih (s + 1) h

theorem indexOf_some (xs : List String) (x : String) (h : x ∈ xs) : ∃ k, indexOf? xs x = some k :=
  indexOf_go_some xs x 0 h

theorem rDimLast_some (f : Fld) (d : String) (h : ∃ p ∈ f.vmap, p.2 = d) :
    ∃ l, rDimLast f d = some l ∧ (l, d) ∈ f.vmap := by
  obtain ⟨p, hp, hpd⟩ := h
  unfold rDimLast
  cases hf : f.vmap.reverse.find? (fun p => p.2 == d) with
  | none =>
    have := List.find?_eq_none.mp hf p (by simpa using hp)
    simp [hpd] at this
  | some q =>
    refine ⟨q.1, rfl, ?_⟩
    have hm : q ∈ f.vmap := by simpa using List.mem_of_find?_eq_some hf
    have hq := List.find?_some hf
    have h2 : q.2 = d := by simpa using hq
    have : q = (q.1, d) := by rw [← h2]
    rw [← this]; exact hm

/-- under `MappingOk` both plot axes have a label, and that label has a component number -/
theorem mappingOk_lookup (f : Fld) (h : MappingOk f) (a : Nat) (ha : a = 0 ∨ a = 1) :
    ∃ l c, rDimLast f (f.mesh.region.dims.getD a "") = some l ∧ l ≠ "" ∧
      f.vdimIndex l = some c ∧ arrowIdx f (some l) = .ok (some c) := by
  obtain ⟨vs, hvs, hall, h0, h1⟩ := h
  have hex : ∃ p ∈ f.vmap, p.2 = f.mesh.region.dims.getD a "" := by
    rcases ha with rfl | rfl
    · exact h0
    · exact h1
  obtain ⟨l, hl, hmem⟩ := rDimLast_some f _ hex
  obtain ⟨hin, hne⟩ := hall _ hmem
  obtain ⟨c, hc⟩ := indexOf_some vs l hin
  refine ⟨l, c, hl, hne, ?_, ?_⟩
  · unfold Fld.vdimIndex; rw [hvs]; exact hc
  · unfold arrowIdx
    simp only [hne, if_false, hvs, hc]

theorem leftover_eq (f : Fld) (vs : List String) (hvs : f.vdims = some vs) (vd : List (Option String)) :
    leftover f vd = vs.filter fun v => !vd.contains (some v) := by
  unfold leftover; rw [hvs]; rfl

/-- three pairwise distinct labels cannot all be among two arrow labels -/
theorem leftover_ne_nil (f : Fld) (vs : List String) (hvs : f.vdims = some vs) (h3 : vs.length = 3)
    (hnd : hasDup vs = false) (vd : List (Option String)) (hvd : vd.length = 2) :
    leftover f vd ≠ [] := by
  rw [leftover_eq f vs hvs]
  match vs, h3, vd, hvd with
  | [a, b, c], _, [p, q], _ =>
    simp only [hasDup, List.contains_cons, List.contains_nil, Bool.or_false, Bool.or_eq_false_iff,
      beq_eq_false_iff_ne, ne_eq] at hnd
    intro hnil
    have hall := List.filter_eq_nil_iff.mp hnil
    have ha := hall a (by simp)
    have hb := hall b (by simp)
    have hc := hall c (by simp)
    simp at ha hb hc
    obtain ⟨⟨hab, hac⟩, hbc⟩ := hnd
    by_cases e1 : some a = p <;> by_cases e2 : some b = p <;> by_cases e3 : some c = p <;>
      simp_all <;> grind

theorem thirdComp_ok (f : Fld) (vs : List String) (hvs : f.vdims = some vs) (h3 : vs.length = 3)
    (hnd : hasDup vs = false) (vd : List (Option String)) (hvd : vd.length = 2) (pick : Nat) :
    ∃ c, thirdComp f vd pick = .ok c := by
  have hne := leftover_ne_nil f vs hvs h3 hnd vd hvd
  have hlen : 0 < (leftover f vd).length := List.length_pos_iff.mpr hne
  have hlt : pick % (leftover f vd).length < (leftover f vd).length := Nat.mod_lt _ hlen
  unfold thirdComp
  rw [List.getElem?_eq_getElem hlt]
  simp only []
  have hmem : (leftover f vd)[pick % (leftover f vd).length] ∈ vs := by
    have hsub : ∀ l, l ∈ leftover f vd → l ∈ vs := by
      intro l hl
      rw [leftover_eq f vs hvs] at hl
      exact (List.mem_filter.mp hl).1
    exact hsub _ (List.getElem_mem hlt)
  obtain ⟨c, hc⟩ := indexOf_some vs _ hmem
  have : f.vdimIndex (leftover f vd)[pick % (leftover f vd).length] = some c := by
    unfold Fld.vdimIndex; rw [hvs]; exact hc
  rw [this]
  exact ⟨c, rfl⟩

/-! ## colour, arrows, angle, final lightness stage -/

/-- colour request the vector plot accepts -/
def ColourOk (f : Fld) (o : Opts) : Prop :=
  o.useColor = false ∨ (∃ g, o.aux = some g ∧ AuxOk f g) ∨
  (o.aux = none ∧ (f.nvdim ≠ 3 ∨ ∃ vs, f.vdims = some vs ∧ vs.length = 3 ∧ hasDup vs = false))

theorem colourOf_ok (f : Fld) (o : Opts) (vd : List (Option String)) (hf : f.mesh.Inv)
    (h2 : f.mesh.region.ndim = 2) (hvd : vd.length = 2) (h : ColourOk f o) :
    ∃ C, colourOf f o vd = .ok C := by
  by_cases huse : o.useColor = false
  · exact ⟨none, colourOf_off f o vd huse⟩
  · have huse' : o.useColor = true := by simpa using huse
    rcases h with h | ⟨g, hg, hok⟩ | ⟨hnone, h3⟩
    · exact absurd h huse
    · rw [colourOf_aux f g o vd huse' hg, if_neg (by simpa using hok.1), if_neg (by simpa using hok.2.1)]
      obtain ⟨a, ha⟩ := auxOnMesh_ok f g hf h2 hok
      rw [ha]
      exact ⟨_, rfl⟩
    · by_cases hn3 : f.nvdim = 3
      · rcases h3 with h3 | ⟨vs, hvs, hl, hnd⟩
        · exact absurd hn3 h3
        · obtain ⟨c, hc⟩ := thirdComp_ok f vs hvs hl hnd vd hvd o.pick
          exact ⟨_, colourOf_third f o vd huse' hnone hn3 c hc⟩
      · unfold colourOf
        rw [huse', hnone]
        simp [hn3]

/-- arrow labels the vector plot accepts: the mapping (no `vdims=`), or two non-empty component
labels -/
def ArrowsOk (f : Fld) (o : Opts) : Prop :=
  match o.vdimsArg with
  | none => MappingOk f
  | some l => ∃ lx ly vs, l = [some lx, some ly] ∧ f.vdims = some vs ∧ lx ∈ vs ∧ ly ∈ vs ∧
      lx ≠ "" ∧ ly ≠ ""

theorem arrowIdx_ok (f : Fld) (vs : List String) (hvs : f.vdims = some vs) (l : String) (hl : l ∈ vs)
    (hne : l ≠ "") : ∃ c, arrowIdx f (some l) = .ok (some c) := by
  obtain ⟨c, hc⟩ := indexOf_some vs l hl
  exact ⟨c, by unfold arrowIdx; simp only [hne, if_false, hvs, hc]⟩

theorem arrows_ok (f : Fld) (o : Opts) (h : ArrowsOk f o) :
    (o.vdimsArg.isNone && f.vmap.isEmpty) = false ∧
    ∃ vd cx cy, vectorVdims f o = .ok vd ∧ vd.length = 2 ∧ arrowIdx f (vd.getD 0 none) = .ok (some cx) ∧
      arrowIdx f (vd.getD 1 none) = .ok (some cy) := by
  unfold ArrowsOk at h
  cases hv : o.vdimsArg with
  | none =>
    rw [hv] at h
    obtain ⟨lx, cx, hlx, _, _, hax⟩ := mappingOk_lookup f h 0 (Or.inl rfl)
    obtain ⟨ly, cy, hly, _, _, hay⟩ := mappingOk_lookup f h 1 (Or.inr rfl)
    obtain ⟨_, _, _, ⟨p, hp, _⟩, _⟩ := h
    refine ⟨?_, inplaneVdims f, cx, cy, by unfold vectorVdims; rw [hv], rfl, ?_, ?_⟩
    · have : f.vmap ≠ [] := List.ne_nil_of_mem hp
      simp [this]
    · show arrowIdx f (rDimLast f _) = _
      rw [hlx]; exact hax
    · show arrowIdx f (rDimLast f _) = _
      rw [hly]; exact hay
  | some l =>
    rw [hv] at h
    obtain ⟨lx, ly, vs, rfl, hvs, hx, hy, hnx, hny⟩ := h
    obtain ⟨cx, hcx⟩ := arrowIdx_ok f vs hvs lx hx hnx
    obtain ⟨cy, hcy⟩ := arrowIdx_ok f vs hvs ly hy hny
    exact ⟨by simp, [some lx, some ly], cx, cy, by unfold vectorVdims; rw [hv]; rfl, rfl, hcx, hcy⟩

theorem angleComps_ok (f : Fld) (h : MappingOk f) : ∃ xy, angleComps f = .ok xy := by
  obtain ⟨lx, cx, hlx, _, hix, _⟩ := mappingOk_lookup f h 0 (Or.inl rfl)
  obtain ⟨ly, cy, hly, _, hiy, _⟩ := mappingOk_lookup f h 1 (Or.inr rfl)
  unfold angleComps
  rw [hlx, hly]
  simp only [hix, hiy]
  exact ⟨_, rfl⟩

theorem lightCore_ok (f : Fld) (o : Opts) (hue : List Nat → Hue) (dflt : NDA Rat) (flt : Fld)
    (hf : f.mesh.Inv) (h2 : f.mesh.region.ndim = 2) (hm : MultOk f o.mult)
    (haux : ∀ g, o.aux = some g → AuxOk f g) (hk : ∃ keep, filterKeep f flt = .ok keep) :
    ∃ calls, lightCore f o hue dflt flt = .ok calls := by
  obtain ⟨m, pre, hm, hp⟩ := setupMultiplier_ok f hf o.mult hm
  obtain ⟨l, hl⟩ := lightSrc_ok f o.aux dflt hf h2 haux
  obtain ⟨keep, hk⟩ := hk
  unfold lightCore
  simp only [hm, extent_eq f.mesh.region hf.1 h2 m (rsiPrefix_pos m pre hp), hl, hk, axisLabels, hp]
  exact ⟨_, rfl⟩

end DFV.C20
