import DFV.Lemmas.C09Labels
/-! Writer / reader lemmas uniform in the representation (txt, bin4, bin8) and in `extend_scalar`,
for the all-cases round-trip and independent-reader theorems of C09. -/
namespace DFV.C09
open DFV

/-- what the independent reader makes of the header of a written file -/
def writtenContent {α} (f : OField α) (e : Bool) (vals : List α) : Content α :=
  { base := [f.mesh.region.lo 0 + f.mesh.cellAt 0 / 2, f.mesh.region.lo 1 + f.mesh.cellAt 1 / 2,
             f.mesh.region.lo 2 + f.mesh.cellAt 2 / 2],
    step := [f.mesh.cellAt 0, f.mesh.cellAt 1, f.mesh.cellAt 2],
    nodes := [f.mesh.nAt 0, f.mesh.nAt 1, f.mesh.nAt 2], vd := writeDim f e,
    meshunit := f.mesh.region.units.getD 0 "", values := vals }

theorem refReader_header {α} [DecidableEq α] (c : Codec α) (f : OField α) (e : Bool) (labels : String)
    (rw : List String) (body : Body α) :
    refReader c { first := "# OOMMF OVF 2.0", lines := headerLines f e labels rw, body := body }
      = refReaderBody c { first := "# OOMMF OVF 2.0", lines := headerLines f e labels rw, body := body } rw
          [f.mesh.region.lo 0 + f.mesh.cellAt 0 / 2, f.mesh.region.lo 1 + f.mesh.cellAt 1 / 2,
             f.mesh.region.lo 2 + f.mesh.cellAt 2 / 2]
          [f.mesh.cellAt 0, f.mesh.cellAt 1, f.mesh.cellAt 2] [f.mesh.nAt 0, f.mesh.nAt 1, f.mesh.nAt 2]
          (writeDim f e) (f.mesh.region.units.getD 0 "") := by
  unfold refReader
  simp only [scan_written]
  have hb : hnums (writtenHeader f e labels) "xbase" "ybase" "zbase"
      = .ok [f.mesh.region.lo 0 + f.mesh.cellAt 0 / 2, f.mesh.region.lo 1 + f.mesh.cellAt 1 / 2,
             f.mesh.region.lo 2 + f.mesh.cellAt 2 / 2] := by
    simp [hnums, hnum, hget, writtenHeader, List.find?, HVal.toNum, bind, Except.bind]
  have hvd : hnat (writtenHeader f e labels) "valuedim" = .ok (writeDim f e) := by
    simp [hnat, hget, writtenHeader, List.find?, HVal.toNat, bind, Except.bind]
  have H := headerOf_written f e labels
  rw [hb, H.step, H.nodes, hvd, H.mu]
  simp only [bind, Except.bind, HVal.text]

/-- binary data section of a written file under the independent reader -/
theorem refReader_written_bin {α} [DecidableEq α] (c : Codec α) (narrow : α → α) (L : c.Lawful narrow)
    (f : OField α) (e : Bool) (labels : String) (w : Nat) (hw : w = 4 ∨ w = 8) (vals : List α) (tail : List Byte)
    (hcount : vals.length = natProd [f.mesh.nAt 0, f.mesh.nAt 1, f.mesh.nAt 2] * writeDim f e) :
    refReader c { first := "# OOMMF OVF 2.0", lines := headerLines f e labels ["Binary", toString w],
                  body := .bin (c.enc true w (c.magic w) ++ (vals.flatMap (c.enc true w) ++ tail)) }
      = .ok (writtenContent f e (vals.map (conv narrow w))) := by
  have hw0 : 0 < w := by rcases hw with rfl | rfl <;> omega
  have hlen : (c.enc true w (c.magic w)).length = w := L.enc_len _ _ _
  rw [refReader_header]
  unfold refReaderBody
  simp only [parseNat_width w hw, Option.getD_some]
  have c1 : ¬ ((c.enc true w (c.magic w) ++ (vals.flatMap (c.enc true w) ++ tail)).length < w) := by
    rw [List.length_append, hlen]; omega
  have c3 : (c.enc true w (c.magic w) ++ (vals.flatMap (c.enc true w) ++ tail)).take w = c.enc true w (c.magic w) := by
    rw [List.take_append_of_le_length (by omega), List.take_of_length_le (by omega)]
  have c4 : (c.enc true w (c.magic w) ++ (vals.flatMap (c.enc true w) ++ tail)).drop w
      = vals.flatMap (c.enc true w) ++ tail := by
    have := List.drop_left (l₁ := c.enc true w (c.magic w)) (l₂ := vals.flatMap (c.enc true w) ++ tail)
    rw [hlen] at this; exact this
  have c5 := fromfile_block c true w hw0 vals tail (fun x => L.enc_len true w x)
  have c6 : (vals.map fun x => c.dec true w (c.enc true w x)) = vals.map (conv narrow w) :=
    List.map_congr_left (fun x _ => dec_enc_conv c narrow L true w hw x)
  rw [if_neg c1, c3, dec_enc_magic c narrow L true w hw, c4, ← hcount, c5, c6]
  simp [writtenContent]

/-- text data section of a written file under the independent reader -/
theorem refReader_written_txt {α} [DecidableEq α] (c : Codec α) (f : OField α) (e : Bool) (labels : String)
    (rows : List (List α)) (footer : List String)
    (hcount : rows.flatten.length = natProd [f.mesh.nAt 0, f.mesh.nAt 1, f.mesh.nAt 2] * writeDim f e) :
    refReader c { first := "# OOMMF OVF 2.0", lines := headerLines f e labels ["Text"],
                  body := .text rows footer }
      = .ok (writtenContent f e rows.flatten) := by
  rw [refReader_header]
  unfold refReaderBody
  simp only [hcount, ne_eq, not_true_eq_false, if_false]
  rfl


/-- the values of the data section: the x-fastest payload, each value followed by two zeros when a
scalar field is extended to three components -/
def payloadE {α} (c : Codec α) (f : OField α) (e : Bool) : List α :=
  if e then (flatPayload f).flatMap fun x => [x, c.zero, c.zero] else flatPayload f

theorem toOvf_txt_e {α} (c : Codec α) (f : OField α) (V : Valid f) (e : Bool) (labels : String)
    (hlab : valueLabels f e = .ok labels) :
    toOvfE c f "txt" e = .ok
      { first := "# OOMMF OVF 2.0", lines := headerLines f e labels ["Text"],
        body := .text (textRows c f e) (footerLines ["Text"]) } := by
  unfold toOvfE
  have h3 : ¬ (f.mesh.region.ndim ≠ 3) := by simp [Region.ndim, V.pmin3]
  have hu : allSame f.mesh.region.units = true := by
    rw [V.units]; simp [allSame]
  rw [if_neg h3, hlab]
  have hw : repWidth "txt" = 0 := by decide +kernel
  have hr : repWords "txt" = .ok ["Text"] := by decide +kernel
  simp only [hr, hw, hu, Bool.not_true, Bool.false_eq_true, if_false, if_true]

theorem payload_count {α} (f : OField α) (V : Valid f) :
    (flatPayload f).length = natProd [f.mesh.nAt 0, f.mesh.nAt 1, f.mesh.nAt 2] * f.nvdim := by
  obtain ⟨_, _, e3⟩ := valid_lists f V
  have hshape : f.arr.shape = [f.mesh.nAt 0, f.mesh.nAt 1, f.mesh.nAt 2, f.nvdim] := by
    rw [V.shape, ← e3]; rfl
  rw [flatPayload_length f _ _ _ _ hshape]; simp [natProd]; ring

theorem payloadE_count {α} (c : Codec α) (f : OField α) (V : Valid f) (e : Bool) (he : e = true → f.nvdim = 1) :
    (payloadE c f e).length = natProd [f.mesh.nAt 0, f.mesh.nAt 1, f.mesh.nAt 2] * writeDim f e := by
  cases e with
  | false => simpa [payloadE, writeDim] using payload_count f V
  | true =>
    have h1 := he rfl
    have := payload_count f V
    rw [h1, Nat.mul_one] at this
    simp [payloadE, writeDim, h1, this]

theorem map_eq_tab {α β} (l : List α) (g : α → β) (d : α) :
    l.map g = tab l.length fun r => g (l.getD r d) := by
  apply List.ext_getElem
  · simp [tab]
  · intro i h1 h2
    simp [tab, List.getD_eq_getElem?_getD]
    have : i < l.length := by simpa using h1
    simp [this]

/-- the rows of the text writer, concatenated, are the values of the data section -/
theorem textRows_flatten {α} (c : Codec α) (f : OField α) (V : Valid f) (e : Bool) (he : e = true → f.nvdim = 1) :
    (textRows c f e).flatten = payloadE c f e ∧ (∀ r ∈ textRows c f e, r.length = writeDim f e) ∧
      (textRows c f e).length = natProd [f.mesh.nAt 0, f.mesh.nAt 1, f.mesh.nAt 2] := by
  have hcount := payload_count f V
  cases e with
  | false =>
    have hlen : (flatPayload f).length / f.nvdim = natProd [f.mesh.nAt 0, f.mesh.nAt 1, f.mesh.nAt 2] := by
      rw [hcount]; exact Nat.mul_div_cancel _ V.nv
    refine ⟨?_, ?_, ?_⟩
    · simp only [textRows, payloadE, Bool.false_eq_true, if_false]
      rw [hlen]
      exact rows_flatten _ _ _ V.nv hcount c.zero
    · intro r hr
      simp only [textRows, Bool.false_eq_true, if_false] at hr
      obtain ⟨a, _, rfl⟩ := mem_tab _ _ _ hr
      simp [tab, writeDim]
    · simp [textRows, tab, hlen]
  | true =>
    have h1 := he rfl
    rw [h1, Nat.mul_one] at hcount
    refine ⟨?_, ?_, ?_⟩
    · simp only [textRows, payloadE, if_true, h1, Nat.div_one]
      rw [List.flatMap_def, map_eq_tab (flatPayload f) (fun x => [x, c.zero, c.zero]) c.zero]
      congr 1
      apply congrArg
      funext r
      simp [tab]
    · intro r hr
      simp only [textRows, if_true, h1] at hr
      obtain ⟨a, _, rfl⟩ := mem_tab _ _ _ hr
      simp [tab, writeDim, h1]
    · simp [textRows, tab, h1, hcount]

theorem writeDim_e {α} (f : OField α) (e : Bool) (he : e = true → f.nvdim = 1) :
    writeDim f e = if e then 3 else f.nvdim := by
  cases e with
  | false => simp [writeDim]
  | true => simp [writeDim, he rfl]

/-- labels through the header, for every `extend_scalar`: what is written, and what the `vdims`
setter makes of what is recovered -/
theorem labels_written_e {α} (isWord : Char → Bool) (W : WordClass isWord) (reserved : String → Bool)
    (f : OField α) (hl : LabelsOk isWord reserved f) (hnv : 0 < f.nvdim) (e : Bool) (he : e = true → f.nvdim = 1) :
    ∃ labels vd', valueLabels f e = .ok labels ∧
      vdimsSetter reserved (writeDim f e) (recoverLabels isWord labels) = .ok vd' ∧
      (e = true → vd' = some ["x", "y", "z"]) ∧ (e = false → 1 < f.nvdim → vd' = f.vdims) := by
  cases e with
  | false =>
    obtain ⟨labels, vd', h1, h2, h3⟩ := labels_written isWord W reserved f hl hnv
    exact ⟨labels, vd', h1, by simpa [writeDim] using h2, ⟨fun h => (by cases h), fun _ => h3⟩⟩
  | true =>
    have h1 := he rfl
    have hwd : writeDim f true = 3 := by simp [writeDim, h1]
    refine ⟨String.ofList (joinSp (List.replicate 3 "field_x".toList)), some ["x", "y", "z"], ?_, ?_,
      ⟨fun _ => rfl, fun h => (by cases h)⟩⟩
    · simp [valueLabels, hwd]
    · rw [hwd, recoverLabels_dup isWord W]; rfl

theorem toOvf_bin_e {α} (c : Codec α) (f : OField α) (V : Valid f) (e : Bool) (he : e = true → f.nvdim = 1)
    (rep : String) (w : Nat) (hrep : (rep = "bin4" ∧ w = 4) ∨ (rep = "bin8" ∧ w = 8)) (labels : String)
    (hlab : valueLabels f e = .ok labels) :
    toOvfE c f rep e = .ok
      { first := "# OOMMF OVF 2.0", lines := headerLines f e labels ["Binary", toString w],
        body := .bin (c.enc true w (c.magic w) ++ ((payloadE c f e).flatMap (c.enc true w)
                  ++ 10 :: footerBytes ["Binary", toString w])) } := by
  unfold toOvfE
  have h3 : ¬ (f.mesh.region.ndim ≠ 3) := by simp [Region.ndim, V.pmin3]
  have hu : allSame f.mesh.region.units = true := by
    rw [V.units]; simp [allSame]
  have hsz : e = true → natProd f.arr.shape = natProd f.mesh.n := by
    intro h; rw [V.shape, natProd_append1, he h]; simp
  rw [if_neg h3, hlab]
  simp only
  cases e with
  | false =>
    rcases hrep with ⟨rfl, rfl⟩ | ⟨rfl, rfl⟩
    all_goals
      simp only [repWords, repWidth, hu, binValues, payloadE, Bool.not_true, Bool.false_eq_true, if_false]
      rw [flatMap_flatten', chunked_flatten chunkSize (by decide)]
      simp [List.append_assoc]
      exact ⟨rfl, rfl⟩
  | true =>
    have hsz' := hsz rfl
    rcases hrep with ⟨rfl, rfl⟩ | ⟨rfl, rfl⟩
    all_goals
      simp only [repWords, repWidth, hu, binValues, payloadE, hsz', Bool.not_true, Bool.false_eq_true, if_false, if_true,
        ne_eq, not_true_eq_false]
      rw [flatMap_flatten', chunked_flatten chunkSize (by decide)]
      simp [List.append_assoc]
      exact ⟨rfl, rfl⟩

/-- value of the data section at the position of cell `(i, j, k)`, component `cc` -/
theorem payloadE_getD {α} (c : Codec α) (f : OField α) (V : Valid f) (e : Bool) (he : e = true → f.nvdim = 1)
    (i j k cc : Nat) (hi : i < f.mesh.nAt 0) (hj : j < f.mesh.nAt 1) (hk : k < f.mesh.nAt 2)
    (hcc : cc < writeDim f e) :
    (payloadE c f e).getD (pos (f.mesh.nAt 0) (f.mesh.nAt 1) (writeDim f e) i j k cc) c.zero
      = if e then (if cc = 0 then f.arr.get [i, j, k, 0] else c.zero) else f.arr.get [i, j, k, cc] := by
  obtain ⟨_, _, e3⟩ := valid_lists f V
  have hshape : f.arr.shape = [f.mesh.nAt 0, f.mesh.nAt 1, f.mesh.nAt 2, f.nvdim] := by
    rw [V.shape, ← e3]; rfl
  cases e with
  | false =>
    have hwd : writeDim f false = f.nvdim := by simp [writeDim]
    rw [hwd] at hcc ⊢
    simp only [payloadE, Bool.false_eq_true, if_false]
    exact flatPayload_getD f _ _ _ _ hshape i j k cc hi hj hk hcc c.zero
  | true =>
    have h1 := he rfl
    have hwd : writeDim f true = 3 := by simp [writeDim, h1]
    rw [hwd] at hcc ⊢
    rw [h1] at hshape
    simp only [payloadE, if_true]
    have hpos : pos (f.mesh.nAt 0) (f.mesh.nAt 1) 3 i j k cc = pos (f.mesh.nAt 0) (f.mesh.nAt 1) 1 i j k 0 * 3 + cc := by
      simp [pos]
    have hlt1 : pos (f.mesh.nAt 0) (f.mesh.nAt 1) 1 i j k 0 < (flatPayload f).length := by
      rw [flatPayload_length f _ _ _ _ hshape]
      exact pos_lt _ _ _ _ _ _ _ _ hi hj hk (by omega)
    rw [hpos, triple_getD _ _ _ _ _ hlt1 hcc, flatPayload_getD f _ _ _ _ hshape i j k 0 hi hj hk (by omega)]

theorem conv_zero_width {α} (narrow : α → α) (x : α) : conv narrow 0 x = x := by
  unfold conv; rw [if_neg (by omega)]


/-- the three representations and the width of their values (0: text) -/
def RepOk (rep : String) (w : Nat) : Prop := (rep = "txt" ∧ w = 0) ∨ (rep = "bin4" ∧ w = 4) ∨ (rep = "bin8" ∧ w = 8)

/-- what the reader finds in the data section of the file `_to_ovf` wrote: header dictionary,
mesh and the flat values (decoded, `conv narrow w`), for every representation and both settings
of `extend_scalar` -/
theorem written_parse {α} [DecidableEq α] (c : Codec α) (narrow : α → α) (L : c.Lawful narrow)
    (f : OField α) (V : Valid f) (e : Bool) (he : e = true → f.nvdim = 1)
    (rep : String) (w : Nat) (hrep : RepOk rep w) (labels : String) (hlab : valueLabels f e = .ok labels) :
    ∃ F, toOvfE c f rep e = .ok F ∧
      parse c F = .ok { mesh := meshOf f.mesh.region.lo f.mesh.region.hi f.mesh.nAt (f.mesh.region.units.getD 0 ""),
                        vd := writeDim f e, flat := (payloadE c f e).map (conv narrow w),
                        header := writtenHeader f e labels } ∧
      refReader c F = .ok (writtenContent f e ((payloadE c f e).map (conv narrow w))) := by
  have hv2 : isV2 "# OOMMF OVF 2.0" = true := by decide +kernel
  have hcount := payloadE_count c f V e he
  have hwd : 0 < writeDim f e := by rw [writeDim_e f e he]; split <;> [omega; exact V.nv]
  rcases hrep with ⟨rfl, rfl⟩ | hbin
  · -- text
    obtain ⟨hflat, huni, hlen⟩ := textRows_flatten c f V e he
    have hnpos : 0 < natProd [f.mesh.nAt 0, f.mesh.nAt 1, f.mesh.nAt 2] := by
      apply natProd_pos
      intro m hm
      simp only [List.mem_cons, List.mem_nil_iff, or_false] at hm
      rcases hm with rfl | rfl | rfl
      · exact V.npos 0 (by omega)
      · exact V.npos 1 (by omega)
      · exact V.npos 2 (by omega)
    have hid : (payloadE c f e).map (conv narrow 0) = payloadE c f e := by
      conv => rhs; rw [← List.map_id (payloadE c f e)]
      exact List.map_congr_left (fun x _ => conv_zero_width narrow x)
    refine ⟨_, toOvf_txt_e c f V e labels hlab, ?_, ?_⟩
    · rw [hid]
      exact parse_txt_ok c _ (writtenHeader f e labels) f.mesh.region.lo f.mesh.region.hi f.mesh.cellAt f.mesh.nAt
        (f.mesh.region.units.getD 0 "") (headerOf_written f e labels) V.lt V.npos (fun a _ => rfl)
        ["Text"] (by decide +kernel) rfl (scan_written f e labels _)
        (writeDim f e) (valueDim_written f e labels) _ _ rfl _
        (by rw [readText_uniform _ _ _ _ hnpos hlen hwd huni, hflat])
    · rw [hid, ← hflat]
      exact refReader_written_txt c f e labels _ _ (by rw [hflat]; exact hcount)
  · have hw : w = 4 ∨ w = 8 := by rcases hbin with ⟨_, h⟩ | ⟨_, h⟩ <;> simp [h]
    refine ⟨_, toOvf_bin_e c f V e he rep w hbin labels hlab, ?_, ?_⟩
    · exact parse_bin_ok c narrow L _ (writtenHeader f e labels) f.mesh.region.lo f.mesh.region.hi f.mesh.cellAt
        f.mesh.nAt (f.mesh.region.units.getD 0 "") (headerOf_written f e labels) V.lt V.npos (fun a _ => rfl)
        w hw ["Binary", toString w] (width_words w hw) (scan_written f e labels _)
        (writeDim f e) hwd (valueDim_written f e labels) (payloadE c f e) (10 :: footerBytes ["Binary", toString w])
        (by simp only [hv2]) hcount
    · exact refReader_written_bin c narrow L f e labels w hw _ _ hcount


end DFV.C09
