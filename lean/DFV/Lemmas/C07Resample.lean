import DFV.Lemmas.C07Pad
/-! Nearest-coordinate lookup = cell containing the point (exact arithmetic). -/
namespace DFV.C07
open DFV DFV.Mesh

theorem nearestUpTo_le (cs : Nat → Rat) (x : Rat) (k : Nat) : nearestUpTo cs x k ≤ k := by
  induction k with
  | zero => simp [nearestUpTo]
  | succ k ih =>
    unfold nearestUpTo
    split
    · omega
    · omega

/-- the scan returns the largest index among the nearest entries -/
theorem nearestUpTo_eq (cs : Nat → Rat) (x : Rat) (mx i : Nat) (hi : i ≤ mx)
    (hbelow : ∀ k, k < i → absR (cs i - x) ≤ absR (cs k - x))
    (habove : ∀ k, k ≤ mx → i < k → absR (cs i - x) < absR (cs k - x)) :
    nearestUpTo cs x mx = i := by
  induction mx with
  | zero =>
    have : i = 0 := by omega
    subst this; rfl
  | succ mx ih =>
    unfold nearestUpTo
    by_cases him : i = mx + 1
    · subst him
      have hle := nearestUpTo_le cs x mx
      rw [if_pos (hbelow _ (by omega))]
    · have hi' : i ≤ mx := by omega
      have := ih hi' (fun k hk hik => habove k (by omega) hik)
      rw [this]
      have hlt := habove (mx + 1) (by omega) (by omega)
      rw [if_neg (not_le.mpr hlt)]

/-- `mesh.cells[a][k]` is the centre of cell `k` -/
theorem coord_eq (m : Mesh) (hm : m.Inv) (a : Nat) (ha : a < m.ndim) (k : Nat) (hk : k < m.nAt a) :
    coord m a k = m.centreAx a ((k : Nat) : Int) := by
  unfold coord Mesh.cells
  rw [getD_tab _ _ _ _ ha]
  unfold linspace
  have hn := inv_n_pos hm ha
  rw [centreAx_cast]
  by_cases h1 : m.nAt a = 1
  · rw [if_pos h1]
    have : k = 0 := by omega
    subst this
    simp; ring
  · rw [if_neg h1, getD_tab _ _ _ _ hk]
    have hne : (m.nAt a : Rat) - 1 ≠ 0 := by
      have : (2 : Rat) ≤ (m.nAt a : Rat) := by exact_mod_cast (by omega : 2 ≤ m.nAt a)
      intro h; linarith
    have hcov := cover m a hn
    have : (m.region.hi a - m.cellAt a / 2 - (m.region.lo a + m.cellAt a / 2)) / ((m.nAt a : Rat) - 1)
        = m.cellAt a := by
      rw [div_eq_iff hne]; linarith
    rw [this]; ring

/-- for a coordinate of the closed edge, the nearest cell centre (ties to the larger index)
is the centre of the cell that contains the coordinate -/
theorem nearestAx_eq_indexAx (m : Mesh) (hm : m.Inv) (a : Nat) (ha : a < m.ndim) (x : Rat)
    (h1 : m.region.lo a ≤ x) (h2 : x ≤ m.region.hi a) : nearestAx m a x = m.indexAx a x := by
  have hn := inv_n_pos hm ha
  have hc := inv_cell_pos hm ha
  have hi := indexAx_lt m a x hn
  obtain ⟨c1, c2⟩ := index_contains m a x hn (inv_lo_lt_hi hm ha) h1 h2
  unfold nearestAx
  -- replace table entries by centres
  have hcs : ∀ k, k ≤ m.nAt a - 1 → coord m a k = m.region.lo a + ((k : Rat) + 1/2) * m.cellAt a := by
    intro k hk
    rw [coord_eq m hm a ha k (by omega), centreAx_cast]
  have hxi : x ≤ m.region.lo a + ((m.indexAx a x : Rat) + 1) * m.cellAt a := by
    rcases c2 with c2 | ⟨c2, c3⟩
    · exact c2.le
    · have hcast : (m.indexAx a x : Rat) = (m.nAt a : Rat) - 1 := by
        rw [c2]; push_cast [Nat.cast_sub (by omega : 1 ≤ m.nAt a)]; ring
      rw [hcast, c3, hi_eq m a hn]
      ring_nf; exact le_refl _
  have hdi : absR (coord m a (m.indexAx a x) - x) ≤ m.cellAt a / 2 := by
    rw [hcs _ (by omega), absR_eq_abs, abs_le]
    constructor <;> nlinarith
  apply nearestUpTo_eq _ _ _ _ (by omega)
  · intro k hk
    refine le_trans hdi ?_
    rw [hcs k (by omega), absR_eq_abs]
    have hk' : (k : Rat) + 1 ≤ (m.indexAx a x : Rat) := by exact_mod_cast hk
    have : m.region.lo a + ((k : Rat) + 1/2) * m.cellAt a - x ≤ -(m.cellAt a / 2) := by nlinarith
    calc m.cellAt a / 2 ≤ -(m.region.lo a + ((k : Rat) + 1/2) * m.cellAt a - x) := by linarith
      _ ≤ |m.region.lo a + ((k : Rat) + 1/2) * m.cellAt a - x| := neg_le_abs _
  · intro k hk hik
    rcases c2 with c2 | ⟨c2, _⟩
    · refine lt_of_le_of_lt hdi ?_
      rw [hcs k hk, absR_eq_abs]
      have hk' : (m.indexAx a x : Rat) + 1 ≤ (k : Rat) := by exact_mod_cast hik
      have : m.cellAt a / 2 < m.region.lo a + ((k : Rat) + 1/2) * m.cellAt a - x := by nlinarith
      exact lt_of_lt_of_le this (le_abs_self _)
    · omega

end DFV.C07
