import DFV.Lemmas.C09Write
/-! Inversion lemmas for the reader (used by the rejection theorems of C09). -/
namespace DFV.C09
open DFV

theorem natProd_append1 (l : List Nat) (v : Nat) : natProd (l ++ [v]) = natProd l * v := by
  induction l with
  | nil => simp [natProd]
  | cons x xs ih => simp [natProd, ih, Nat.mul_assoc]

theorem natProd_append (l m : List Nat) : natProd (l ++ m) = natProd l * natProd m := by
  induction l with
  | nil => simp [natProd]
  | cons x xs ih => simp [natProd, ih, Nat.mul_assoc]

theorem natProd_reverse (l : List Nat) : natProd l.reverse = natProd l := by
  induction l with
  | nil => rfl
  | cons x xs ih => simp [natProd_append, natProd, ih, Nat.mul_comm]

theorem scan_none_of_no_data (lines : List HLine) (acc : List (String × HVal))
    (h : ∀ l ∈ lines, ∀ ws, l ≠ .beginData ws) : scan lines acc = none := by
  induction lines generalizing acc with
  | nil => rfl
  | cons l ls ih =>
    cases l with
    | kv k v => simp only [scan]; exact ih _ (fun x hx => h x (by simp [hx]))
    | other => simp only [scan]; exact ih _ (fun x hx => h x (by simp [hx]))
    | beginData ws => exact absurd rfl (h _ (by simp) ws)

theorem fromOvf_error_of_parse {α} [DecidableEq α] (c : Codec α) (isWord : Char → Bool)
    (reserved : String → Bool) (F : OvfFile α) (side : Option (List (String × Region))) (e : Err)
    (h : parse c F = .error e) : fromOvf c isWord reserved F side = .error e := by
  unfold fromOvf; rw [h]

/-- the stages of `parse`, read backwards -/
theorem parse_ok_inv {α} [DecidableEq α] (c : Codec α) (F : OvfFile α) (p : Parsed α)
    (hp : parse c F = .ok p) :
    ∃ ws nodes, scan F.lines [] = some (p.header, ws) ∧ valueDim F.first p.header = .ok p.vd ∧
      readMesh p.header = .ok p.mesh ∧
      readBody c (isV2 F.first) ws F.body (natProd nodes) p.vd = .ok p.flat := by
  unfold parse at hp
  split at hp
  · cases hp
  · rename_i h ws hscan
    split at hp
    · cases hp
    · split at hp
      · cases hp
      · split at hp
        · cases hp
        · rename_i vd hvd
          split at hp
          · cases hp
          · rename_i mesh hmesh
            split at hp
            · cases hp
            · rename_i nodes hnodes
              split at hp
              · cases hp
              · rename_i flat hflat
                injection hp with hp
                subst hp
                exact ⟨ws, nodes, hscan, hvd, hmesh, hflat⟩

theorem readBin_ok_inv {α} [DecidableEq α] (c : Codec α) (v2 : Bool) (w : Nat) (bytes : List Byte)
    (count vd : Nat) (flat : List α) (h : readBin c v2 w bytes count vd = .ok flat) :
    w ≤ bytes.length ∧ (w = 4 ∨ w = 8) ∧ c.dec v2 w (bytes.take w) = c.magic w ∧
      flat = fromfile c v2 w (bytes.drop w) count := by
  unfold readBin at h
  split at h
  · cases h
  · split at h
    · cases h
    · split at h
      · cases h
      · split at h
        · cases h
        · split at h
          · cases h
          · rename_i h1 h2 h3 _ _
            injection h with h
            exact ⟨by omega, by omega, by simpa using h3, h.symm⟩

theorem loadSide_n (m m' : Mesh) (side : Option (List (String × Region))) (h : loadSide m side = .ok m') :
    m'.n = m.n := by
  cases side with
  | none => simp [loadSide] at h; rw [← h]
  | some s =>
    simp only [loadSide, loadSub] at h
    split at h
    · cases h
    · injection h with h; rw [← h]



theorem fromOvf_ok_inv {α} [DecidableEq α] (c : Codec α) (isWord : Char → Bool) (reserved : String → Bool)
    (F : OvfFile α) (side : Option (List (String × Region))) (g : OField α)
    (h : fromOvf c isWord reserved F side = .ok g) :
    ∃ p mesh arr, parse c F = .ok p ∧ loadSide p.mesh side = .ok mesh ∧
      unflatten mesh.n p.vd p.flat c.zero = .ok arr := by
  unfold fromOvf at h
  split at h
  · cases h
  · rename_i p hp
    split at h
    · cases h
    · rename_i mesh hm
      split at h
      · cases h
      · rename_i arr ha
        exact ⟨p, mesh, arr, hp, hm, ha⟩


end DFV.C09
