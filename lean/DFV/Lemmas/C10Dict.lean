import DFV.Lemmas.C10Inv
/-! C10: the dict comprehension over `zip(subregion_names, subregions)` — under a repeated name the
LAST row wins, at the position of the first occurrence. -/
namespace DFV.C10
open DFV

/-- Python `d[k]` -/
def dictGet {α : Type} (d : List (String × α)) (k : String) : Option α := (d.find? fun p => p.1 == k).map (·.2)

theorem dictGet_insert {α : Type} (d : List (String × α)) (k k' : String) (v : α) :
    dictGet (dictInsert d k v) k' = if k = k' then some v else dictGet d k' := by
  induction d with
  | nil =>
    simp only [dictInsert, dictGet, List.find?_cons, List.find?_nil]
    by_cases h : k = k'
    · simp [h]
    · have : (k == k') = false := by simpa using h
      simp [h, this]
  | cons p t ih =>
    simp only [dictInsert]
    by_cases hp : p.1 = k
    · rw [if_pos hp]
      by_cases h : k = k'
      · simp [dictGet, h]
      · simp only [dictGet, List.find?_cons, if_neg h]
        have : (k == k') = false := by simpa using h
        have h2 : (p.1 == k') = false := by rw [hp]; exact this
        simp [this, h2]
    · rw [if_neg hp]
      simp only [dictGet, List.find?_cons] at ih ⊢
      by_cases h2 : p.1 = k'
      · have : k ≠ k' := fun e => hp (h2.trans e.symm)
        simp [h2, this]
      · have : (p.1 == k') = false := by simpa using h2
        simp only [this]
        exact ih

/-- the dict comprehension keeps, under every key, the value of its LAST occurrence -/
theorem dictGet_dictOf {α : Type} (ps : List (String × α)) (k : String) :
    dictGet (dictOf ps) k = dictGet ps.reverse k := by
  have key : ∀ (ps acc : List (String × α)),
      dictGet (ps.foldl (fun d p => dictInsert d p.1 p.2) acc) k = (dictGet ps.reverse k).orElse fun _ => dictGet acc k := by
    intro ps
    induction ps with
    | nil => intro acc; simp [dictGet]
    | cons p t ih =>
      intro acc
      simp only [List.foldl_cons, List.reverse_cons]
      rw [ih, dictGet_insert]
      simp only [dictGet, List.find?_append, List.find?_cons, List.find?_nil]
      cases h1 : List.find? (fun q => q.1 == k) t.reverse with
      | some q => simp
      | none =>
        by_cases h : p.1 = k
        · simp [h]
        · have : (p.1 == k) = false := by simpa using h
          simp [h, this]
  have := key ps []
  unfold dictOf
  rw [this]
  cases dictGet ps.reverse k <;> simp [dictGet]
end DFV.C10
