import DFV.Lemmas.C14Setter
/-! C14: decidable checkers for the invariants (used by the non-vacuity examples) and a concrete
mesh with subregions. -/
namespace DFV.C14
open DFV DFV.T DFV.Mesh

theorem region_inv_of_invB' (r : Region) (h : r.invB = true) : r.Inv := by
  unfold Region.invB at h
  simp only [Bool.and_eq_true, decide_eq_true_eq, Bool.not_eq_true'] at h
  obtain ⟨⟨⟨⟨⟨h1, h2⟩, h3⟩, h4⟩, h5⟩, h6⟩ := h
  refine ⟨h1, h2, h3, h4, h5, ?_⟩
  intro a ha
  have := (allLt_iff _ _).mp h6 a ha
  simpa using this

theorem mesh_inv_of_invB' (m : Mesh) (h : m.invB = true) : m.Inv := by
  unfold Mesh.invB at h
  simp only [Bool.and_eq_true, decide_eq_true_eq] at h
  obtain ⟨⟨h1, h2⟩, h3⟩ := h
  refine ⟨region_inv_of_invB' _ h1, h2, ?_⟩
  intro a ha
  have := (allLt_iff _ _).mp h3 a ha
  simpa using this

/-- Boolean checker for `FitsE` -/
def fitsB (m : Mesh) (s : Region) : Bool :=
  decide (s.pmin.length = m.ndim) && decide (s.pmax.length = m.ndim) &&
  allLt m.ndim fun a =>
    decide (0 ≤ ((s.lo a - m.region.lo a) / m.cellAt a).floor) &&
    decide (0 < ((s.hi a - s.lo a) / m.cellAt a).floor) &&
    decide (((s.lo a - m.region.lo a) / m.cellAt a).floor + ((s.hi a - s.lo a) / m.cellAt a).floor ≤ (m.nAt a : Int)) &&
    decide (s.lo a - m.region.lo a = (((s.lo a - m.region.lo a) / m.cellAt a).floor : Rat) * m.cellAt a) &&
    decide (s.hi a - s.lo a = (((s.hi a - s.lo a) / m.cellAt a).floor : Rat) * m.cellAt a)

theorem fitsE_of_fitsB (m : Mesh) (s : Region) (h : fitsB m s = true) : FitsE m s := by
  unfold fitsB at h
  simp only [Bool.and_eq_true, decide_eq_true_eq] at h
  obtain ⟨⟨h1, h2⟩, h3⟩ := h
  refine ⟨h1, h2, ?_⟩
  intro a ha
  have := (allLt_iff _ _).mp h3 a ha
  simp only [Bool.and_eq_true, decide_eq_true_eq] at this
  obtain ⟨⟨⟨⟨a1, a2⟩, a3⟩, a4⟩, a5⟩ := this
  exact ⟨_, _, a1, a2, a3, a4, a5⟩

/-- Boolean checker for `SubInv` -/
def subInvB (m : Mesh) : Bool :=
  m.subs.all fun p => decide (p.2.dims = m.region.dims) && decide (p.2.units = m.region.units) &&
    decide (p.2.tol = m.region.tol) && fitsB m p.2

theorem subInv_of_subInvB (m : Mesh) (h : subInvB m = true) : SubInv m := by
  intro p hp
  have := List.all_eq_true.mp h p hp
  simp only [Bool.and_eq_true, decide_eq_true_eq] at this
  obtain ⟨⟨⟨a1, a2⟩, a3⟩, a4⟩ := this
  exact ⟨a1, a2, a3, fitsE_of_fitsB m p.2 a4⟩

/-- a 3-d mesh, anisotropic counts and cells, two (touching) subregions, periodic in x -/
def exM : Mesh :=
  { region := ⟨[0, 0, 0], [8, 6, 2], ["x", "y", "z"], ["m", "s", "K"], 1/1000000000000⟩,
    n := [4, 6, 1], bc := "x",
    subs := [("a", ⟨[2, 1, 0], [6, 3, 2], ["x", "y", "z"], ["m", "s", "K"], 1/1000000000000⟩),
             ("b", ⟨[6, 0, 0], [8, 6, 2], ["x", "y", "z"], ["m", "s", "K"], 1/1000000000000⟩)] }

theorem exM_inv : exM.Inv := mesh_inv_of_invB' exM (by decide +kernel)
theorem exM_subInv : SubInv exM := subInv_of_subInvB exM (by decide +kernel)

/-- the same mesh with the default (non-periodic) boundary condition -/
def exP : Mesh := { exM with bc := "" }
theorem exP_inv : exP.Inv := mesh_inv_of_invB' exP (by decide +kernel)
theorem exP_subInv : SubInv exP := subInv_of_subInvB exP (by decide +kernel)

/-- a 3-component field on `exP` with the identity component-to-axis mapping -/
def exF : Fld :=
  { mesh := exP, nvdim := 3, data := NDA.const [4, 6, 1] [1, 2, 3], valid := NDA.const [4, 6, 1] true,
    vdims := some ["x", "y", "z"], vmap := [("x", "x"), ("y", "y"), ("z", "z")], unit := none }
theorem exF_inv : FldInv exF := ⟨exP_inv, rfl, rfl⟩

/-- a history mixing a negative-factor in-place scale about a far reference point, an odd quarter
turn (copying) and an in-place translation -/
def exOps : List Op :=
  [.scale (.vec [-2, 1/2, 3]) (some [100, -50, 7]) true, .rotate90 "x" "y" (-3) none false,
   .translate [1/2, -3, 10] true]

end DFV.C14
