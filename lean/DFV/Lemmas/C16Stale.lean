import DFV.Lemmas.C16Labels
/-! C16 helper lemmas, part 18: side-car files over histories — they are never empty, never
removed; what a read makes of a side-car (as many subregions as the file holds). -/
namespace DFV.C16
open DFV DFV.Mesh

theorem put_mem {α : Type} (l : List (String × α)) (k : String) (v : α) (p : String × α) (hp : p ∈ put l k v) :
    p = (k, v) ∨ p ∈ l := by
  induction l with
  | nil => simp [put] at hp; exact Or.inl hp
  | cons q l ih =>
    simp only [put] at hp
    split at hp
    · rcases List.mem_cons.mp hp with h | h
      · exact Or.inl h
      · exact Or.inr (List.mem_cons_of_mem _ h)
    · rcases List.mem_cons.mp hp with h | h
      · exact Or.inr (by rw [h]; exact List.mem_cons_self)
      · rcases ih h with h | h
        · exact Or.inl h
        · exact Or.inr (List.mem_cons_of_mem _ h)

theorem look_mem {α : Type} (l : List (String × α)) (k : String) (v : α) (h : look l k = some v) : ∃ p ∈ l, p.2 = v := by
  unfold look at h
  cases hf : l.find? (fun p => p.1 == k) with
  | none => rw [hf] at h; cases h
  | some p =>
    rw [hf] at h
    injection h with h
    exact ⟨p, List.mem_of_find?_eq_some hf, h⟩

/-- the side-car a successful `to_file` stores -/
theorem write_json (d d' : Dir) (name : String) (f : Fld) (rep : String) (save : Bool) (rnd : Rat → Rat)
    (h : d.write name f rep save rnd = .ok d') :
    d'.json = if save && !f.mesh.subs.isEmpty then put d.json name f.mesh.subs else d.json := by
  unfold Dir.write at h
  cases hv : toFile f rep save rnd with
  | error e => rw [hv] at h; cases h
  | ok v =>
    rw [hv] at h
    simp only at h
    injection h with h
    rw [← h]
    simp only
    rw [(file_written_aux f rep save rnd v hv)]
    by_cases hc : (save && !f.mesh.subs.isEmpty) = true
    · rw [if_pos hc, if_pos hc]
    · rw [if_neg hc, if_neg hc]
where
  file_written_aux (f : Fld) (rep : String) (save : Bool) (rnd : Rat → Rat) (v : VFile) (h : toFile f rep save rnd = .ok v) :
      v.sidecar = if save && !f.mesh.subs.isEmpty then some f.mesh.subs else none := by
    unfold toFile at h
    split at h
    · cases h
    · split at h
      · cases h
      · injection h with h
        subst h
        rfl

theorem write_ok_iff (d : Dir) (name : String) (f : Fld) (rep : String) (save : Bool) (rnd : Rat → Rat) :
    (∃ d', d.write name f rep save rnd = .ok d') ↔ ∃ v, toFile f rep save rnd = .ok v := by
  unfold Dir.write
  cases toFile f rep save rnd with
  | error e => simp
  | ok v => simp

theorem cars_step (rnd : Rat → Rat) (d : Dir) (o : DOp) (h : CarsNonempty d) : CarsNonempty (d.step rnd o).1 := by
  cases o with
  | read n => exact h
  | write n f rep save =>
    simp only [Dir.step]
    cases hw : d.write n f rep save rnd with
    | error e => exact h
    | ok d' =>
      simp only
      intro p hp
      rw [write_json d d' n f rep save rnd hw] at hp
      split at hp
      · rename_i hc
        rcases put_mem _ _ _ _ hp with e | e
        · rw [e]
          simp only
          intro hn
          rw [hn] at hc
          simp at hc
        · exact h p e
      · exact h p hp

/-- **invariant over histories**: no session ever leaves an empty side-car behind -/
theorem cars_after (rnd : Rat → Rat) (d : Dir) (ops : List DOp) (h : CarsNonempty d) : CarsNonempty (Dir.after rnd d ops) := by
  induction ops generalizing d with
  | nil => exact h
  | cons o os ih => exact ih _ (cars_step rnd d o h)

theorem look_put {α : Type} (l : List (String × α)) (k k' : String) (v : α) :
    look (put l k v) k' = if k' = k then some v else look l k' := by
  by_cases h : k' = k
  · rw [if_pos h, h]; exact look_put_same l k v
  · rw [if_neg h]; exact look_put_other l k k' v h

theorem step_json_none_iff (rnd : Rat → Rat) (d : Dir) (o : DOp) (name : String) :
    look (d.step rnd o).1.json name = none ↔ look d.json name = none ∧ ¬ o.writesCar rnd name := by
  cases o with
  | read n => simp [Dir.step, DOp.writesCar]
  | write n f rep save =>
    simp only [Dir.step, DOp.writesCar]
    cases hw : d.write n f rep save rnd with
    | error e =>
      simp only
      have hno : ¬ ∃ v, toFile f rep save rnd = .ok v := by
        intro hv
        obtain ⟨d', hd'⟩ := (write_ok_iff d n f rep save rnd).mpr hv
        rw [hw] at hd'; cases hd'
      constructor
      · intro h; exact ⟨h, fun hc => hno hc.2.2.2⟩
      · intro h; exact h.1
    | ok d' =>
      simp only
      have hv := (write_ok_iff d n f rep save rnd).mp ⟨d', hw⟩
      rw [write_json d d' n f rep save rnd hw]
      by_cases hc : (save && !f.mesh.subs.isEmpty) = true
      · rw [if_pos hc, look_put]
        have hs : save = true ∧ f.mesh.subs.isEmpty = false := by simpa using hc
        by_cases hn : name = n
        · rw [if_pos hn]
          constructor
          · intro h; cases h
          · rintro ⟨_, h⟩; exact absurd ⟨hn.symm, hs.1, hs.2, hv⟩ h
        · rw [if_neg hn]
          constructor
          · intro h; exact ⟨h, fun hc' => hn hc'.1.symm⟩
          · intro h; exact h.1
      · rw [if_neg hc]
        constructor
        · intro h
          refine ⟨h, ?_⟩
          rintro ⟨_, h1, h2, _⟩
          apply hc
          simp [h1, h2]
        · intro h; exact h.1

/-- **a side-car exists after a session exactly when** it existed before or one of the calls
wrote it: side-cars are never removed -/
theorem after_json_none_iff (rnd : Rat → Rat) (d : Dir) (ops : List DOp) (name : String) :
    look (Dir.after rnd d ops).json name = none ↔ look d.json name = none ∧ ∀ o ∈ ops, ¬ o.writesCar rnd name := by
  induction ops generalizing d with
  | nil => simp [Dir.after]
  | cons o os ih =>
    simp only [Dir.after]
    rw [ih, step_json_none_iff]
    constructor
    · rintro ⟨⟨h1, h2⟩, h3⟩
      refine ⟨h1, ?_⟩
      intro x hx
      rcases List.mem_cons.mp hx with rfl | hx
      · exact h2
      · exact h3 x hx
    · rintro ⟨h1, h2⟩
      exact ⟨⟨h1, h2 o (by simp)⟩, fun x hx => h2 x (by simp [hx])⟩

/-! ## what a read makes of a side-car -/

theorem mapE_length {α β : Type} (f : α → M β) (l : List α) (ys : List β) (h : mapE f l = .ok ys) : ys.length = l.length := by
  induction l generalizing ys with
  | nil => simp only [mapE] at h; injection h with h; subst h; rfl
  | cons x xs ih =>
    simp only [mapE] at h
    split at h
    · cases h
    · split at h
      · cases h
      · rename_i ys' hys
        injection h with h
        subst h
        simp [ih ys' hys]

theorem loadSubs_subs_length (m m1 : Mesh) (l : List (String × Region)) (h : loadSubs m (some l) = .ok m1) :
    m1.subs.length = l.length := by
  unfold loadSubs at h
  simp only at h
  split at h
  · cases h
  · rename_i subs hsubs
    obtain ⟨e, _⟩ := C14.setSubs_ok_eq _ _ _ h
    rw [e]
    simp only [List.length_map]
    exact mapE_length _ _ _ hsubs

/-- a successful read returns as many subregions as the side-car holds -/
theorem fromCells_subs_length (g : Grid) (l : List (String × Region)) (f' : Fld) (h : fromCells g (some l) = .ok f') :
    f'.mesh.subs.length = l.length := by
  rw [fromCells_eq] at h
  unfold fromParts at h
  split at h
  · cases h
  · split at h
    · cases h
    · split at h
      · cases h
      · split at h
        · cases h
        · split at h
          · cases h
          · rename_i m hm
            obtain ⟨e1, _⟩ := mkField_fields _ _ _ _ _ _ h
            rw [e1]
            exact loadSubs_subs_length _ _ _ hm

end DFV.C16
