import DFV.Lemmas.C15
/-! Complex cells viewed as real cells with twice as many components (`flattenC`). -/
namespace DFV.C15
set_option linter.unusedSectionVars false
variable {K : Type} [Field K] [LinearOrder K] [IsStrictOrderedRing K]

theorem sqLen_flattenC (v : List (K × K)) : sqLen (flattenC v) = cSqLen v := by
  induction v with
  | nil => rfl
  | cons z zs ih => simp only [flattenC, sqLen, cSqLen, ih]; ring

theorem flattenC_map (f : K → K) (v : List (K × K)) :
    flattenC (v.map fun z => (f z.1, f z.2)) = (flattenC v).map f := by
  induction v with
  | nil => rfl
  | cons z zs ih => simp only [List.map_cons, flattenC, ih]

theorem flattenC_zeros (v : List (K × K)) :
    flattenC (v.map fun _ => ((0 : K), (0 : K))) = zeros (flattenC v) := by
  have := flattenC_map (fun _ : K => (0 : K)) v
  simpa [zeros] using this

theorem cmul_real (z : K × K) (t : K) : cmul z (t, 0) = (z.1 * t, z.2 * t) := by
  unfold cmul; simp


end DFV.C15
