import DFV.Lemmas.C09LexText
/-! Lemmas behind the negative theorems for finding D25 (units the `valueunits` line cannot carry). -/
namespace DFV.C09
open DFV

theorem splitWsGo_nows (l acc : List Char) (hacc : ∀ c ∈ acc, c.isWhitespace = false) :
    ∀ w ∈ splitWsGo l acc, ∀ c ∈ w, c.isWhitespace = false := by
  induction l generalizing acc with
  | nil =>
    intro w hw
    unfold splitWsGo at hw
    split at hw
    · cases hw
    · simp only [List.mem_cons, List.mem_nil_iff, or_false] at hw
      subst hw
      intro c hc; exact hacc c (by simpa using hc)
  | cons a l ih =>
    intro w hw
    unfold splitWsGo at hw
    split at hw
    · split at hw
      · exact ih [] (by simp) w hw
      · rcases List.mem_cons.mp hw with rfl | hw
        · intro c hc; exact hacc c (by simpa using hc)
        · exact ih [] (by simp) w hw
    · rename_i ha
      apply ih (a :: acc) _ w hw
      intro c hc
      rcases List.mem_cons.mp hc with rfl | hc
      · simpa using ha
      · exact hacc c hc

/-- `str.split()` never returns a piece with white space in it -/
theorem splitWs_nows (l : List Char) : ∀ w ∈ splitWs l, ∀ c ∈ w, c.isWhitespace = false :=
  splitWsGo_nows l [] (by simp)

/-- whatever `valueunits` holds, a recovered unit has no white space in it -/
theorem recoverUnit_nows (t u : String) (h : recoverUnit t = some u) : ∀ c ∈ u.toList, c.isWhitespace = false := by
  unfold recoverUnit at h
  split at h
  · cases h
  · rename_i w ws hs
    split at h
    · cases h
    · split at h
      · cases h
      · injection h with h
        subst h
        rw [String.toList_ofList]
        exact splitWs_nows t.toList w (by rw [hs]; simp)

/-- ... and is not the literal `None` -/
theorem recoverUnit_ne_None (t : String) : recoverUnit t ≠ some "None" := by
  intro h
  unfold recoverUnit at h
  split at h
  · cases h
  · rename_i w ws hs
    split at h
    · cases h
    · split at h
      · cases h
      · rename_i hne
        injection h with h
        have : w = "None".toList := by
          rw [← String.toList_ofList (l := w), h]
        rw [this] at hne
        simp at hne

theorem mem_strip (l : List Char) (c : Char) (h : c ∈ strip l) : c ∈ l := by
  unfold strip at h
  rw [List.mem_reverse] at h
  have := (List.dropWhile_sublist _).subset h
  rw [List.mem_reverse] at this
  exact (List.dropWhile_sublist _).subset this

theorem split_at_colon (l : List Char) (h : ':' ∈ l) : ∃ a b, l = a ++ ':' :: b ∧ ':' ∉ a := by
  induction l with
  | nil => cases h
  | cons c l ih =>
    by_cases hc : c = ':'
    · exact ⟨[], l, by rw [hc]; rfl, by simp⟩
    · rcases List.mem_cons.mp h with h | h
      · exact absurd h.symm hc
      · obtain ⟨a, b, e, ha⟩ := ih h
        refine ⟨c :: a, b, by rw [e]; rfl, ?_⟩
        intro hm
        rcases List.mem_cons.mp hm with h' | h'
        · exact hc h'.symm
        · exact ha h'

theorem splitOn_ne_nil (sep : Char) (l : List Char) : splitOn sep l ≠ [] := by
  cases l with
  | nil => simp [splitOn]
  | cons c l =>
    rw [splitOn]
    split
    · simp
    · split <;> simp

/-- a value with a `:` in it is cut at that `:` by `line[1:].split(":")[1]` -/
theorem classify_value_colon (k a b : List Char) (hd : isDataLine ('#' :: ' ' :: (k ++ ':' :: ' ' :: (a ++ ':' :: b))) = false)
    (hk : ':' ∉ k) (ha : ':' ∉ a) (sk : Stripped k) :
    classifyLine ('#' :: ' ' :: (k ++ ':' :: ' ' :: (a ++ ':' :: b)))
      = .kv (String.ofList k) (String.ofList (strip (' ' :: a))) := by
  unfold classifyLine
  rw [hd]
  simp only [Bool.false_eq_true, if_false, List.drop_succ_cons, List.drop_zero]
  have h1 : ' ' :: (k ++ ':' :: ' ' :: (a ++ ':' :: b)) = (' ' :: k) ++ ':' :: ((' ' :: a) ++ ':' :: b) := by simp
  have hk' : ':' ∉ ' ' :: k := by
    intro h; rcases List.mem_cons.mp h with h | h
    · exact absurd h (by decide)
    · exact hk h
  have ha' : ':' ∉ ' ' :: a := by
    intro h; rcases List.mem_cons.mp h with h | h
    · exact absurd h (by decide)
    · exact ha h
  rw [h1, splitOn_append _ _ _ hk', splitOn_append _ _ _ ha']
  simp only [strip_space_cons k sk]


theorem splitWsGo_subset (l acc : List Char) :
    ∀ w ∈ splitWsGo l acc, ∀ c ∈ w, c ∈ l ∨ c ∈ acc := by
  induction l generalizing acc with
  | nil =>
    intro w hw
    unfold splitWsGo at hw
    split at hw
    · cases hw
    · simp only [List.mem_cons, List.mem_nil_iff, or_false] at hw
      subst hw
      intro c hc; exact Or.inr (by simpa using hc)
  | cons a l ih =>
    intro w hw c hc
    unfold splitWsGo at hw
    split at hw
    · split at hw
      · rcases ih [] w hw c hc with h | h
        · exact Or.inl (by simp [h])
        · cases h
      · rcases List.mem_cons.mp hw with rfl | hw
        · exact Or.inr (by simpa using hc)
        · rcases ih [] w hw c hc with h | h
          · exact Or.inl (by simp [h])
          · cases h
    · rcases ih (a :: acc) w hw c hc with h | h
      · exact Or.inl (by simp [h])
      · rcases List.mem_cons.mp h with rfl | h
        · exact Or.inl (by simp)
        · exact Or.inr h

theorem splitWs_subset (l : List Char) (w : List Char) (hw : w ∈ splitWs l) (c : Char) (hc : c ∈ w) : c ∈ l := by
  rcases splitWsGo_subset l [] w hw c hc with h | h
  · exact h
  · cases h

/-- a recovered unit is made of characters of the `valueunits` text -/
theorem recoverUnit_subset (t u : String) (h : recoverUnit t = some u) : ∀ c ∈ u.toList, c ∈ t.toList := by
  unfold recoverUnit at h
  split at h
  · cases h
  · rename_i w ws hs
    split at h
    · cases h
    · split at h
      · cases h
      · injection h with h
        subst h
        rw [String.toList_ofList]
        exact splitWs_subset t.toList w (by rw [hs]; simp)

theorem joinSp_replicate_succ (k : Nat) (u : List Char) : ∃ r, joinSp (List.replicate (k + 1) u) = u ++ r := by
  cases k with
  | zero => exact ⟨[], by simp [joinSp]⟩
  | succ k => exact ⟨' ' :: joinSp (List.replicate (k + 1) u), rfl⟩

end DFV.C09
