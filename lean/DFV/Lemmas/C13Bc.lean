import DFV.Lemmas.C13Forms
/-! C12/C13: the `bc` letter swap of `Mesh.rotate90` (`rotBc`) at string level — it keeps the `bc`
setter's check, composes like the turns, commutes with `str.lower` for lower-case axis names — and
the mesh/field-level in-place == copying theorems for periodic boundary conditions built on it. -/
namespace DFV.T
open DFV DFV.C14

/-! ## the letter swap -/

def bcSwap (a1 a2 : String) (c : Char) : Char :=
  if [c] = a1.toList then a2.toList.headD c else if [c] = a2.toList then a1.toList.headD c else c
def bcTurns (bc a1 a2 : String) (k : Int) : Bool :=
  isOdd k && !(bc == "neumann" || bc == "dirichlet" || bc == "") && a1.length == 1 && a2.length == 1
    && a1 == a1.toLower && a2 == a2.toLower
theorem rotBc_eq (bc a1 a2 : String) (k : Int) :
    rotBc bc a1 a2 k = if bcTurns bc a1 a2 k then String.ofList (bc.toList.map (bcSwap a1 a2)) else bc := rfl
theorem plainBc_iff (bc : String) : (bc == "neumann" || bc == "dirichlet" || bc == "") = true ↔ PlainBc bc := by
  unfold PlainBc
  simp only [Bool.or_eq_true, beq_iff_eq]
  constructor
  · rintro ((h | h) | h)
    · exact Or.inr (Or.inl h)
    · exact Or.inr (Or.inr h)
    · exact Or.inl h
  · rintro (h | h | h)
    · exact Or.inr h
    · exact Or.inl (Or.inl h)
    · exact Or.inl (Or.inr h)
theorem single_of_length (s : String) (h : s.length = 1) : ∃ c, s.toList = [c] := by
  rw [← String.length_toList] at h
  match hs : s.toList, h with
  | [c], _ => exact ⟨c, rfl⟩
theorem bcSwap_spec (a1 a2 : String) (x y : Char) (h1 : a1.toList = [x]) (h2 : a2.toList = [y]) (c : Char) :
    bcSwap a1 a2 c = if c = x then y else if c = y then x else c := by
  unfold bcSwap
  rw [h1, h2]
  simp
theorem bcSwap_invol (a1 a2 : String) (x y : Char) (h1 : a1.toList = [x]) (h2 : a2.toList = [y]) (c : Char) :
    bcSwap a1 a2 (bcSwap a1 a2 c) = c := by
  rw [bcSwap_spec a1 a2 x y h1 h2, bcSwap_spec a1 a2 x y h1 h2]
  by_cases e1 : c = x
  · subst e1
    by_cases e3 : y = c
    · simp [e3]
    · simp [e3]
  · by_cases e2 : c = y
    · subst e2; simp [e1]
    · simp [e1, e2]
theorem bcSwap_inj (a1 a2 : String) (x y : Char) (h1 : a1.toList = [x]) (h2 : a2.toList = [y]) (c d : Char)
    (h : bcSwap a1 a2 c = bcSwap a1 a2 d) : c = d := by
  have := congrArg (bcSwap a1 a2) h
  rwa [bcSwap_invol a1 a2 x y h1 h2, bcSwap_invol a1 a2 x y h1 h2] at this

theorem map_bcSwap_invol (a1 a2 : String) (x y : Char) (h1 : a1.toList = [x]) (h2 : a2.toList = [y]) (l : List Char) :
    (l.map (bcSwap a1 a2)).map (bcSwap a1 a2) = l := by
  rw [List.map_map]
  exact List.map_id'' (fun c => bcSwap_invol a1 a2 x y h1 h2 c) l

/-- every letter occurs once -/
def Distinct (l : List Char) : Prop := ∀ c ∈ l, (l.filter (· = c)).length = 1

theorem distinct_map_inj (l : List Char) (φ : Char → Char) (hφ : ∀ c d, φ c = φ d → c = d) (h : Distinct l) :
    Distinct (l.map φ) := by
  intro c' hc'
  obtain ⟨c, hc, rfl⟩ := List.mem_map.mp hc'
  rw [List.filter_map, List.length_map]
  have : l.filter ((fun x => decide (x = φ c)) ∘ φ) = l.filter (· = c) := by
    apply List.filter_congr
    intro x _
    simp only [Function.comp]
    by_cases e : x = c
    · subst e; simp
    · have : φ x ≠ φ c := fun h' => e (hφ _ _ h')
      simp [e, this]
  rw [this]; exact h c hc

theorem filter_two (a b c : List Char) (x : Char) : 2 ≤ ((a ++ x :: b ++ x :: c).filter (· = x)).length := by
  simp [List.filter_append]; omega

/-- a string in which every character occurs once is neither of the two words nor empty-after-renaming -/
theorem not_word_of_distinct (l : List Char) (h : Distinct l) : l ≠ "neumann".toList ∧ l ≠ "dirichlet".toList := by
  constructor
  · intro e
    have e' : l = [] ++ 'n' :: ['e', 'u', 'm', 'a'] ++ 'n' :: ['n'] := by rw [e]; decide
    have h1 := h 'n' (by rw [e']; simp)
    have h2 := filter_two [] ['e', 'u', 'm', 'a'] ['n'] 'n'
    rw [← e'] at h2
    omega
  · intro e
    have e' : l = ['d'] ++ 'i' :: ['r'] ++ 'i' :: ['c', 'h', 'l', 'e', 't'] := by rw [e]; decide
    have h1 := h 'i' (by rw [e']; simp)
    have h2 := filter_two ['d'] ['r'] ['c', 'h', 'l', 'e', 't'] 'i'
    rw [← e'] at h2
    omega

theorem plainBc_toList (bc : String) : PlainBc bc ↔ bc.toList = [] ∨ bc.toList = "neumann".toList ∨ bc.toList = "dirichlet".toList := by
  unfold PlainBc
  have h0 : ("" : String).toList = [] := by decide
  constructor
  · rintro (h | h | h) <;> subst h
    · exact Or.inl h0
    · exact Or.inr (Or.inl rfl)
    · exact Or.inr (Or.inr rfl)
  · rintro (h | h | h)
    · left; rw [← String.toList_inj, h, h0]
    · right; left; exact String.toList_inj.mp h
    · right; right; exact String.toList_inj.mp h

/-- the `bc` setter's check, as a proposition -/
theorem bcOk_iff (dims : List String) (bc : String) :
    Mesh.bcOk dims bc = true ↔
      PlainBc bc ∨ ((∀ c ∈ bc.toList, String.singleton c ∈ dims) ∧ Distinct bc.toList) := by
  unfold Mesh.bcOk PlainBc Distinct
  simp only [Bool.or_eq_true, decide_eq_true_eq, List.all_eq_true, Bool.and_eq_true, List.contains_iff_mem]
  constructor
  · rintro (((h | h) | h) | h)
    · exact Or.inl (Or.inr (Or.inl h))
    · exact Or.inl (Or.inr (Or.inr h))
    · exact Or.inl (Or.inl h)
    · exact Or.inr ⟨fun c hc => (h c hc).1, fun c hc => (h c hc).2⟩
  · rintro ((h | h | h) | ⟨h1, h2⟩)
    · exact Or.inl (Or.inr h)
    · exact Or.inl (Or.inl (Or.inl h))
    · exact Or.inl (Or.inl (Or.inr h))
    · exact Or.inr fun c hc => ⟨h1 c hc, h2 c hc⟩

theorem isOdd_add' (k l : Int) : isOdd (k + l) = xor (isOdd k) (isOdd l) := by
  unfold isOdd
  have hk : k % 2 = 0 ∨ k % 2 = 1 := by omega
  have hl : l % 2 = 0 ∨ l % 2 = 1 := by omega
  rcases hk with hk | hk <;> rcases hl with hl | hl <;>
    (have : (k + l) % 2 = (k % 2 + l % 2) % 2 := Int.add_emod k l 2
     rw [hk, hl] at this
     simp [hk, hl, this])

theorem bcTurns_iff (bc a1 a2 : String) (k : Int) :
    bcTurns bc a1 a2 k = true ↔ isOdd k = true ∧ ¬ PlainBc bc ∧ a1.length = 1 ∧ a2.length = 1
      ∧ a1.toLower = a1 ∧ a2.toLower = a2 := by
  unfold bcTurns
  rw [Bool.and_eq_true, Bool.and_eq_true, Bool.and_eq_true, Bool.and_eq_true, Bool.and_eq_true, Bool.not_eq_true',
    beq_iff_eq, beq_iff_eq, beq_iff_eq, beq_iff_eq, ← Bool.not_eq_true, plainBc_iff]
  constructor
  · rintro ⟨⟨⟨⟨⟨a, b⟩, c⟩, d⟩, e⟩, f⟩; exact ⟨a, b, c, d, e.symm, f.symm⟩
  · rintro ⟨a, b, c, d, e, f⟩; exact ⟨⟨⟨⟨⟨a, b⟩, c⟩, d⟩, e.symm⟩, f.symm⟩

/-- even `k`: `bc` is left alone -/
theorem rotBc_even (bc a1 a2 : String) (k : Int) (hk : isOdd k = false) : rotBc bc a1 a2 k = bc := by
  rw [rotBc_eq, if_neg]
  rw [bcTurns_iff]; rintro ⟨h, _⟩; rw [hk] at h; cases h

/-- an axis with a multi-character (or empty) name: `bc` is left alone, whatever `k` -/
theorem rotBc_multichar (bc a1 a2 : String) (k : Int) (h : a1.length ≠ 1 ∨ a2.length ≠ 1) : rotBc bc a1 a2 k = bc := by
  rw [rotBc_eq, if_neg]
  rw [bcTurns_iff]; rintro ⟨_, _, h1, h2, _⟩
  rcases h with h | h
  · exact h h1
  · exact h h2

/-- odd `k`, periodic `bc`, single-character names: the letters are swapped -/
theorem rotBc_odd (bc a1 a2 : String) (k : Int) (hk : isOdd k = true) (hp : ¬ PlainBc bc) (h1 : a1.length = 1) (h2 : a2.length = 1)
    (l1 : a1.toLower = a1) (l2 : a2.toLower = a2) :
    rotBc bc a1 a2 k = String.ofList (bc.toList.map (bcSwap a1 a2)) := by
  rw [rotBc_eq, if_pos]
  rw [bcTurns_iff]; exact ⟨hk, hp, h1, h2, l1, l2⟩

/-- the turned `bc` is periodic iff `bc` is (letters distinct) -/
theorem rotBc_plain_iff (bc a1 a2 : String) (k : Int) (hd : PlainBc bc ∨ Distinct bc.toList) :
    PlainBc (rotBc bc a1 a2 k) ↔ PlainBc bc := by
  by_cases ht : bcTurns bc a1 a2 k = true
  · obtain ⟨hk, hp, s1, s2, lo1, lo2⟩ := (bcTurns_iff _ _ _ _).mp ht
    obtain ⟨x, hx⟩ := single_of_length a1 s1
    obtain ⟨y, hy⟩ := single_of_length a2 s2
    have hdist : Distinct bc.toList := by
      rcases hd with h | h
      · exact absurd h hp
      · exact h
    rw [rotBc_odd bc a1 a2 k hk hp s1 s2 lo1 lo2]
    constructor
    · intro h
      exfalso
      rw [plainBc_toList, String.toList_ofList] at h
      have hd' := distinct_map_inj bc.toList (bcSwap a1 a2) (bcSwap_inj a1 a2 x y hx hy) hdist
      obtain ⟨n1, n2⟩ := not_word_of_distinct _ hd'
      rcases h with h | h | h
      · apply hp; rw [plainBc_toList]; left
        simpa using h
      · exact n1 h
      · exact n2 h
    · intro h; exact absurd h hp
  · rw [rotBc_eq, if_neg ht]

/-- **`rotBc` keeps `bcOk`**: the turned `bc` passes the `bc` setter's check whenever `bc` does and
the two axis names are dimension names -/
theorem rotBc_bcOk (dims : List String) (bc a1 a2 : String) (k : Int) (hok : Mesh.bcOk dims bc = true)
    (m1 : a1 ∈ dims) (m2 : a2 ∈ dims) : Mesh.bcOk dims (rotBc bc a1 a2 k) = true := by
  by_cases ht : bcTurns bc a1 a2 k = true
  · obtain ⟨hk, hp, s1, s2, lo1, lo2⟩ := (bcTurns_iff _ _ _ _).mp ht
    obtain ⟨x, hx⟩ := single_of_length a1 s1
    obtain ⟨y, hy⟩ := single_of_length a2 s2
    rw [rotBc_odd bc a1 a2 k hk hp s1 s2 lo1 lo2, bcOk_iff]
    right
    rw [bcOk_iff] at hok
    rcases hok with h | ⟨hin, hdist⟩
    · exact absurd h hp
    · rw [String.toList_ofList]
      refine ⟨?_, distinct_map_inj _ _ (bcSwap_inj a1 a2 x y hx hy) hdist⟩
      intro c' hc'
      obtain ⟨c, hc, rfl⟩ := List.mem_map.mp hc'
      have ex : String.singleton x = a1 := by rw [← String.toList_inj, String.toList_singleton, hx]
      have ey : String.singleton y = a2 := by rw [← String.toList_inj, String.toList_singleton, hy]
      rw [bcSwap_spec a1 a2 x y hx hy]
      split
      · rw [ey]; exact m2
      · split
        · rw [ex]; exact m1
        · exact hin c hc
  · rw [rotBc_eq, if_neg ht]; exact hok

/-- **composition of the letter swap**: turning `bc` by `k` and then by `l` is turning it by
`k + l` (letters of `bc` distinct, or `bc` one of the non-periodic conditions) -/
theorem rotBc_compose (bc a1 a2 : String) (k l : Int) (hd : PlainBc bc ∨ Distinct bc.toList) :
    rotBc (rotBc bc a1 a2 k) a1 a2 l = rotBc bc a1 a2 (k + l) := by
  have hadd := isOdd_add' k l
  cases hk : isOdd k
  · rw [rotBc_even bc a1 a2 k hk]
    cases hl : isOdd l
    · rw [rotBc_even _ _ _ _ hl, rotBc_even _ _ _ _ (by rw [hadd, hk, hl]; rfl)]
    · rw [rotBc_eq, rotBc_eq]
      have : bcTurns bc a1 a2 (k + l) = bcTurns bc a1 a2 l := by unfold bcTurns; rw [hadd, hk, hl]; rfl
      rw [this]
  · cases hl : isOdd l
    · rw [rotBc_even _ _ _ l hl]
      rw [rotBc_eq, rotBc_eq]
      have : bcTurns bc a1 a2 (k + l) = bcTurns bc a1 a2 k := by unfold bcTurns; rw [hadd, hk, hl]; rfl
      rw [this]
    · rw [rotBc_even bc a1 a2 (k + l) (by rw [hadd, hk, hl]; rfl)]
      by_cases ht : bcTurns bc a1 a2 k = true
      · obtain ⟨_, hp, s1, s2, lo1, lo2⟩ := (bcTurns_iff _ _ _ _).mp ht
        obtain ⟨x, hx⟩ := single_of_length a1 s1
        obtain ⟨y, hy⟩ := single_of_length a2 s2
        have hp' : ¬ PlainBc (rotBc bc a1 a2 k) := by rw [rotBc_plain_iff bc a1 a2 k hd]; exact hp
        rw [rotBc_odd _ a1 a2 l hl hp' s1 s2 lo1 lo2, rotBc_odd bc a1 a2 k hk hp s1 s2 lo1 lo2, String.toList_ofList,
          map_bcSwap_invol a1 a2 x y hx hy, String.ofList_toList]
      · have e : rotBc bc a1 a2 k = bc := by rw [rotBc_eq, if_neg ht]
        rw [e]
        have : bcTurns bc a1 a2 l = bcTurns bc a1 a2 k := by unfold bcTurns; rw [hk, hl]
        rw [rotBc_eq, if_neg (by rw [this]; exact ht)]

/-! ## `str.lower` -/

theorem map_fix_mem {α} (f : α → α) (l : List α) (h : l.map f = l) : ∀ c ∈ l, f c = c := by
  induction l with
  | nil => intro c hc; cases hc
  | cons x xs ih =>
    rw [List.map_cons] at h
    injection h with h1 h2
    intro c hc
    rcases List.mem_cons.mp hc with e | e
    · rw [e]; exact h1
    · exact ih h2 c e

theorem toLower_toList (s : String) : s.toLower.toList = s.toList.map Char.toLower := by
  unfold String.toLower; exact String.toList_map

theorem lower_iff (s : String) : s.toLower = s ↔ ∀ c ∈ s.toList, c.toLower = c := by
  rw [← String.toList_inj, toLower_toList]
  constructor
  · exact map_fix_mem _ _
  · intro h
    conv_rhs => rw [← List.map_id s.toList]
    exact List.map_congr_left h

/-- **`rotBc` and `str.lower`**: a lower-case `bc` stays lower-case under the letter swap when the
two axis names, if single characters, are lower-case -/
theorem rotBc_lower (bc a1 a2 : String) (k : Int) (hl : bc.toLower = bc)
    (l1 : a1.length = 1 → a1.toLower = a1) (l2 : a2.length = 1 → a2.toLower = a2) :
    (rotBc bc a1 a2 k).toLower = rotBc bc a1 a2 k := by
  by_cases ht : bcTurns bc a1 a2 k = true
  · obtain ⟨hk, hp, s1, s2, lo1, lo2⟩ := (bcTurns_iff _ _ _ _).mp ht
    obtain ⟨x, hx⟩ := single_of_length a1 s1
    obtain ⟨y, hy⟩ := single_of_length a2 s2
    rw [rotBc_odd bc a1 a2 k hk hp s1 s2 lo1 lo2, lower_iff, String.toList_ofList]
    intro c' hc'
    obtain ⟨c, hc, rfl⟩ := List.mem_map.mp hc'
    have hx' := (lower_iff a1).mp (l1 s1) x (by rw [hx]; simp)
    have hy' := (lower_iff a2).mp (l2 s2) y (by rw [hy]; simp)
    rw [bcSwap_spec a1 a2 x y hx hy]
    split
    · exact hy'
    · split
      · exact hx'
      · exact (lower_iff bc).mp hl c hc
  · rw [rotBc_eq, if_neg ht]; exact hl

/-! ## the `bc` invariant of a mesh -/

/-- what the `bc` setter guarantees: `bc` is lower-cased and passed the check against the
dimension names -/
def BcInv (m : Mesh) : Prop := m.bc.toLower = m.bc ∧ Mesh.bcOk m.region.dims m.bc = true

/-- single-character dimension names are lower-case — then a letter swapped into `bc` by a
quarter turn survives the `str.lower` of the `bc` setter -/
def LowerDims (dims : List String) : Prop := ∀ d ∈ dims, d.length = 1 → d.toLower = d

/-- well-formed boundary condition: the setter's guarantee, and — for periodic `bc` — lower-case
single-character dimension names.  Every non-periodic condition qualifies (`bcWf_of_plain`). -/
def BcWf (m : Mesh) : Prop := BcInv m ∧ (PlainBc m.bc ∨ LowerDims m.region.dims)

theorem bcWf_of_plain (m : Mesh) (h : PlainBc m.bc) : BcWf m :=
  ⟨⟨plainBc_lower _ h, plainBc_ok _ _ h⟩, Or.inl h⟩

theorem dim2index_mem (r : Region) (d : String) (i : Nat) (h : r.dim2index d = .ok i) : d ∈ r.dims := by
  unfold Region.dim2index at h
  split at h
  · rename_i k hk
    obtain ⟨_, e, hl⟩ := indexOf_go_get d r.dims 0 k hk
    rw [← e, List.getD_eq_getElem?_getD, List.getElem?_eq_getElem hl]
    exact List.getElem_mem _
  · cases h

/-- the `bc` a mesh step produces is again well-formed for the new region -/
theorem opBc_wf (m : Mesh) (hm : m.Inv) (hb : BcWf m) (op : Op) (x r' : Region) (hreg : stepR m.region op = .ok (x, r')) :
    (opBc m op).toLower = opBc m op ∧ Mesh.bcOk r'.dims (opBc m op) = true ∧
    (PlainBc (opBc m op) ∨ LowerDims r'.dims) ∧ (PlainBc m.bc → opBc m op = m.bc) := by
  obtain ⟨⟨hl, hok⟩, hpl⟩ := hb
  obtain ⟨_, _, hd, _⟩ := stepR_keeps m.region hm.1 op x r' hreg
  rw [hd]
  cases op with
  | translate v i => exact ⟨hl, hok, hpl, fun _ => rfl⟩
  | scale f ref i => exact ⟨hl, hok, hpl, fun _ => rfl⟩
  | rotate90 a1 a2 k ref i =>
    simp only [opBc]
    simp only [stepR] at hreg
    obtain ⟨_, _, i1, i2, h1, h2, _⟩ := rotate90R_inv _ _ _ _ _ _ _ _ hreg
    have m1 := dim2index_mem _ _ _ h1
    have m2 := dim2index_mem _ _ _ h2
    refine ⟨?_, rotBc_bcOk _ _ _ _ _ hok m1 m2, ?_, fun hp => plainBc_rot _ _ _ _ hp⟩
    · rcases hpl with hp | hld
      · rw [plainBc_rot _ _ _ _ hp]; exact hl
      · exact rotBc_lower _ _ _ _ hl (hld a1 m1) (hld a2 m2)
    · rcases hpl with hp | hld
      · left; rw [plainBc_rot _ _ _ _ hp]; exact hp
      · exact Or.inr hld

/-- what an accepted in-place mesh step returns -/
theorem stepM_inplace_parts (m : Mesh) (op : Op) (T1 T2 : Mesh) (h : stepM m (op.withInplace true) = .ok (T1, T2)) :
    ∃ x r' subs', stepR m.region (op.withInplace true) = .ok (x, r') ∧
      T2 = { region := r', n := opN m op, bc := opBc m op, subs := subs' } ∧ T1 = T2 := by
  rw [stepM_eq_stepMU] at h
  unfold stepMU at h
  split at h
  · cases h
  · cases h
  · rename_i x r' subs' hreg _
    simp only [inplace_withInplace, if_true, opN_withInplace, opBc_withInplace] at h
    injection h with h; injection h with ha hb
    exact ⟨x, r', subs', hreg, hb.symm, ha.symm.trans hb⟩

/-- **Mesh level master lemma, periodic `bc` included.**  For a mesh satisfying the mesh invariant,
`SubInv` and `BcWf`, and ANY step: either both forms accept and end in the same state `T` (again
satisfying all three; non-periodic `bc` stays what it was), or both forms reject. -/
theorem stepM_forms_bc (m : Mesh) (hm : m.Inv) (hs : SubInv m) (hb : BcWf m) (op : Op) :
    (∃ T : Mesh, T.Inv ∧ SubInv T ∧ BcWf T ∧ (PlainBc m.bc → T.bc = m.bc) ∧ T.region.dims = m.region.dims ∧
        stepM m (op.withInplace true) = .ok (T, T) ∧ stepM m (op.withInplace false) = .ok (m, T)) ∨
    ((∃ e, stepM m (op.withInplace true) = .error e) ∧ (∃ e, stepM m (op.withInplace false) = .error e)) := by
  cases hT : stepM m (op.withInplace true) with
  | ok p =>
    obtain ⟨T1, T2⟩ := p
    left
    obtain ⟨e, hc⟩ := stepM_inplace_to_copy m hm hs op T1 T2 hT
    subst e
    have hk := stepM_keeps m hm _ _ _ hT
    have hsT := (stepM_subInv' m hm hs _ _ _ hT).2.1
    obtain ⟨x, r', subs', hreg, eT, _⟩ := stepM_inplace_parts m op T1 T1 hT
    obtain ⟨w1, w2, w3, w4⟩ := opBc_wf m hm hb (op.withInplace true) x r' hreg
    rw [opBc_withInplace] at w1 w2 w3 w4
    have hbc : T1.bc = opBc m op := by rw [eT]
    have hrg : T1.region = r' := by rw [eT]
    have hdims : T1.region.dims = m.region.dims := by
      rw [hrg]; exact (stepR_keeps m.region hm.1 _ x r' hreg).2.2.1
    have lw : T1.bc.toLower = T1.bc := by rw [hbc]; exact w1
    have okb : Mesh.bcOk T1.region.dims T1.bc.toLower = true := by rw [lw, hbc, hrg]; exact w2
    rw [okb, lw] at hc
    simp only [if_true] at hc
    exact ⟨T1, hk.2.1, hsT, ⟨⟨by rw [hbc]; exact w1, by rw [hbc, hrg]; exact w2⟩, by rw [hbc, hrg]; exact w3⟩,
      fun hp => by rw [hbc]; exact w4 hp, hdims, rfl, hc⟩
  | error e =>
    right
    refine ⟨⟨e, rfl⟩, ?_⟩
    cases hF : stepM m (op.withInplace false) with
    | error e' => exact ⟨e', rfl⟩
    | ok p =>
      obtain ⟨recv, ret⟩ := p
      obtain ⟨_, T, hT', _⟩ := stepM_copy_to_inplace m hm hs op recv ret hF
      rw [hT] at hT'; cases hT'

/-- every accepted mesh step (either form) keeps `BcWf` -/
theorem stepM_bcWf (m : Mesh) (hm : m.Inv) (hs : SubInv m) (hb : BcWf m) (op : Op) (recv ret : Mesh)
    (h : stepM m op = .ok (recv, ret)) : BcWf recv ∧ BcWf ret ∧ (PlainBc m.bc → ret.bc = m.bc) := by
  rcases stepM_forms_bc m hm hs hb op with ⟨T, _, _, hbT, hp, _, h4, h5⟩ | ⟨⟨e1, h4⟩, ⟨e2, h5⟩⟩
  · cases hi : op.inplace
    · have : op = op.withInplace false := by rw [← hi, withInplace_self']
      rw [this, h5] at h; injection h with h; injection h with ha hb'
      subst ha; subst hb'; exact ⟨hb, hbT, hp⟩
    · have : op = op.withInplace true := by rw [← hi, withInplace_self']
      rw [this, h4] at h; injection h with h; injection h with ha hb'
      subst ha; subst hb'; exact ⟨hbT, hbT, hp⟩
  · cases hi : op.inplace
    · have : op = op.withInplace false := by rw [← hi, withInplace_self']
      rw [this, h5] at h; cases h
    · have : op = op.withInplace true := by rw [← hi, withInplace_self']
      rw [this, h4] at h; cases h

/-- two mesh histories that differ only in the in-place flags end with equal meshes — periodic
`bc` included -/
theorem runM_forms_agree_bc (m : Mesh) (hm : m.Inv) (hs : SubInv m) (hb : BcWf m) (ops : List Op) (flags : List Bool)
    (hl : flags.length = ops.length) :
    runM m (List.zipWith Op.withInplace ops flags) = runM m ops := by
  induction ops generalizing m flags with
  | nil => cases flags <;> simp [runM]
  | cons op ops ih =>
    cases flags with
    | nil => simp at hl
    | cons b bs =>
      simp only [List.zipWith_cons_cons, runM]
      have hl' : bs.length = ops.length := by simpa using hl
      rcases stepM_forms_bc m hm hs hb op with ⟨T, h1, h2, h3, _, _, h4, h5⟩ | ⟨⟨e1, h4⟩, ⟨e2, h5⟩⟩
      · have k1 : ∃ x, stepM m (op.withInplace b) = .ok (x, T) := by
          cases b
          · exact ⟨_, h5⟩
          · exact ⟨_, h4⟩
        have k2 : ∃ y, stepM m op = .ok (y, T) := by
          cases hi : op.inplace
          · have : op = op.withInplace false := by rw [← hi, withInplace_self']
            rw [this]; exact ⟨_, h5⟩
          · have : op = op.withInplace true := by rw [← hi, withInplace_self']
            rw [this]; exact ⟨_, h4⟩
        obtain ⟨x, k1⟩ := k1
        obtain ⟨y, k2⟩ := k2
        rw [k1, k2]; exact ih T h1 h2 h3 bs hl'
      · have k1 : ∃ e, stepM m (op.withInplace b) = .error e := by
          cases b
          · exact ⟨_, h5⟩
          · exact ⟨_, h4⟩
        have k2 : ∃ e, stepM m op = .error e := by
          cases hi : op.inplace
          · have : op = op.withInplace false := by rw [← hi, withInplace_self']
            rw [this]; exact ⟨_, h5⟩
          · have : op = op.withInplace true := by rw [← hi, withInplace_self']
            rw [this]; exact ⟨_, h4⟩
        obtain ⟨x, k1⟩ := k1
        obtain ⟨y, k2⟩ := k2
        rw [k1, k2]; exact ih m hm hs hb bs hl'

/-- Boolean checker for `BcWf` (used by the non-vacuity examples) -/
def bcWfB (m : Mesh) : Bool :=
  decide (m.bc.toLower = m.bc) && Mesh.bcOk m.region.dims m.bc &&
  m.region.dims.all fun d => d.length != 1 || decide (d.toLower = d)

theorem bcWf_of_bcWfB (m : Mesh) (h : bcWfB m = true) : BcWf m := by
  unfold bcWfB at h
  simp only [Bool.and_eq_true, decide_eq_true_eq, List.all_eq_true, Bool.or_eq_true, bne_iff_ne, ne_eq] at h
  obtain ⟨⟨h1, h2⟩, h3⟩ := h
  refine ⟨⟨h1, h2⟩, Or.inr ?_⟩
  intro d hd hl
  rcases h3 d hd with h | h
  · exact absurd hl h
  · exact h

/-- the invariant bundle carried through field histories: shape invariant, `SubInv` of the mesh,
well-formed boundary condition (periodic ones included) -/
def FInv (f : Fld) : Prop := FldInv f ∧ SubInv f.mesh ∧ BcWf f.mesh

end DFV.T
