import DFV.Lemmas.C03a
/-! C03 helper lemmas, part b: what a successful `Field.__init__` (`mkField`) returns. -/
namespace DFV.C03
open DFV

/-- the mask handed to the constructor, read at cell `i` (`True` when none is passed) -/
def validAt (valid : Option (NDA Bool)) (i : List Nat) : Bool :=
  match valid with
  | some v => v.get i
  | none => true

/-- well-formed field state: array shape `n ++ [nvdim]`, mask shape `n`, at least one component -/
def CFwf (f : CF) : Prop :=
  f.data.shape = f.mesh.n ++ [f.nvdim] ∧ f.valid.shape = f.mesh.n ∧ 0 < f.nvdim

theorem getLastD_append_single (l : List Nat) (x : Nat) : lastAx (l ++ [x]) = x := by
  simp [lastAx, List.getLastD_eq_getLast?]

theorem dropLast_append_single {α} (l : List α) (x : α) : (l ++ [x]).dropLast = l := by
  simp

theorem bshape_some_iff (s t r : List Nat) : bshape s t = some r ↔ bshapeRev s.reverse t.reverse = some r.reverse := by
  unfold bshape
  constructor
  · intro h
    cases hb : bshapeRev s.reverse t.reverse with
    | none => simp [hb] at h
    | some x => simp [hb] at h; subst h; simp
  · intro h
    simp [h]

theorem bshape_length (s t r : List Nat) (h : bshape s t = some r) : r.length = max s.length t.length := by
  have := bshapeRev_length _ _ _ ((bshape_some_iff s t r).mp h)
  simpa using this

/-- last axis of a broadcast shape -/
theorem bshape_last (s t r : List Nat) (k m : Nat) (h : bshape (s ++ [k]) (t ++ [m]) = some r) :
    ∃ d r', bdim k m = some d ∧ r = r' ++ [d] ∧ bshape s t = some r' := by
  rw [bshape_some_iff] at h
  simp only [List.reverse_append, List.reverse_cons, List.reverse_nil, List.nil_append, List.cons_append] at h
  simp only [bshapeRev] at h
  cases hd : bdim k m with
  | none => simp [hd] at h
  | some d =>
    cases hr : bshapeRev s.reverse t.reverse with
    | none => simp [hd, hr] at h
    | some r' =>
      simp [hd, hr] at h
      refine ⟨d, r'.reverse, rfl, ?_, ?_⟩
      · have := congrArg List.reverse h
        simpa using this.symm
      · rw [bshape_some_iff]; simpa using hr

/-- `bproj` of a two-stage broadcast collapses -/
theorem bproj_bproj (t s idx : List Nat) (h : Into t.reverse s.reverse) (hl : s.length ≤ idx.length) :
    bproj t (bproj s idx) = bproj t idx := by
  unfold bproj
  simp only [List.reverse_reverse]
  rw [bprojRev_bprojRev _ _ _ h (by simpa using hl)]

theorem into_left (s t r : List Nat) (h : bshape s t = some r) : Into s.reverse r.reverse :=
  into_of_bshapeRev_left _ _ _ ((bshape_some_iff s t r).mp h)

theorem into_right (s t r : List Nat) (h : bshape s t = some r) : Into t.reverse r.reverse :=
  into_of_bshapeRev_right _ _ _ ((bshape_some_iff s t r).mp h)

/-- the last coordinate is pinned to 0 when the operand's last axis has length 1 -/
theorem bproj_last_one (t i : List Nat) (c : Nat) :
    bproj (t ++ [1]) (i ++ [c]) = bproj (t ++ [1]) (i ++ [0]) := by
  unfold bproj
  simp [bprojRev]

/-! ## `npFull`, `asArray`, `validSet` -/

theorem npFull_ok {α} (T : List Nat) (v a : NDA α) (h : npFull T v = .ok a) :
    bshape v.shape T = some T ∧ a.shape = T ∧ ∀ idx, a.get idx = v.get (bproj v.shape idx) := by
  unfold npFull at h
  split at h
  · rename_i hb
    injection h with h
    subst h
    exact ⟨hb, rfl, fun _ => rfl⟩
  · cases h

/-- `asArray` on an array-like outside the mesh-shaped-scalar shortcut: the value is
broadcast to `n ++ [nvdim]` -/
theorem asArray_arr_ok (mesh : Mesh) (nv : Nat) (v a : NDA GQ) (own : Bool)
    (h1 : ¬ (nv = 1 ∧ v.shape = mesh.n))
    (h : asArray mesh nv (.arr v) = .ok (a, own)) :
    own = false ∧ a.shape = mesh.n ++ [nv] ∧ lastAx v.shape = nv ∧ v.shape ≠ [] ∧
      bshape v.shape (mesh.n ++ [nv]) = some (mesh.n ++ [nv]) ∧
      ∀ idx, a.get idx = v.get (bproj v.shape idx) := by
  unfold asArray at h
  simp only [h1, if_false] at h
  split at h
  · cases h
  · rename_i h2
    split at h
    · cases h
    · rename_i hl
      cases hf : npFull (mesh.n ++ [nv]) v with
      | error e => simp [hf] at h
      | ok a' =>
        simp [hf] at h
        obtain ⟨ha, ho⟩ := h
        subst ha
        obtain ⟨hb, hs, hg⟩ := npFull_ok _ _ _ hf
        exact ⟨ho, hs, by simpa using hl, h2, hb, hg⟩

theorem validSet_same (mesh : Mesh) (v vl : NDA Bool) (hs : v.shape = mesh.n)
    (h : validSet mesh (some v) = .ok vl) : vl = v := by
  unfold validSet at h
  simp [hs] at h
  exact h.symm

theorem validSet_none (mesh : Mesh) (vl : NDA Bool) (h : validSet mesh none = .ok vl) :
    vl = NDA.const mesh.n true := by
  unfold validSet at h
  injection h with h
  exact h.symm

/-! ## `mkField` -/

/-- everything a successful constructor call fixes -/
theorem mkField_ok (mesh : Mesh) (nv : Nat) (val : Value) (kind : Kind) (vd : Option (List String))
    (valid : Option (NDA Bool)) (vm : Option VMap) (unit : Option String) (g : CF)
    (h : mkField mesh nv val kind vd valid vm unit = .ok g) :
    g.mesh = mesh ∧ g.nvdim = nv ∧ 0 < nv ∧ g.unit = unit ∧
    ∃ arr own vl, asArray mesh nv val = .ok (arr, own) ∧ validSet mesh valid = .ok vl ∧
      g.data = arr.force GQ.zero ∧ g.valid = vl.force false ∧
      vdimsSet nv vd = .ok g.vdims ∧
      vmapSet nv mesh.region.ndim g.vdims mesh.region.dims vm = .ok g.vmap ∧
      g.kind = (if own then kind else kind.ctor) := by
  unfold mkField at h
  split at h
  · cases h
  · rename_i hnv
    cases ha : asArray mesh nv val with
    | error e => simp [ha] at h
    | ok p =>
      obtain ⟨arr, own⟩ := p
      cases hv : validSet mesh valid with
      | error e => simp [ha, hv] at h
      | ok vl =>
        cases hd : vdimsSet nv vd with
        | error e => simp [ha, hv, hd] at h
        | ok vd' =>
          cases hm : vmapSet nv mesh.region.ndim vd' mesh.region.dims vm with
          | error e => simp [ha, hv, hd, hm] at h
          | ok vm' =>
            simp [ha, hv, hd, hm] at h
            subst h
            refine ⟨rfl, rfl, by omega, rfl, arr, own, vl, rfl, rfl, rfl, rfl, rfl, hm, rfl⟩

/-- the constructor applied to an array-like `res` outside the mesh-shaped-scalar
shortcut: well-formed field on `mesh`, data = `res` read through broadcasting, validity =
the mask handed over (or all `True`) -/
theorem mkField_arr' (mesh : Mesh) (nv : Nat) (res : NDA GQ) (kind : Kind) (vd : Option (List String))
    (valid : Option (NDA Bool)) (vm : Option VMap) (unit : Option String) (g : CF)
    (hne : ¬ (nv = 1 ∧ res.shape = mesh.n))
    (hvs : ∀ v, valid = some v → v.shape = mesh.n)
    (h : mkField mesh nv (.arr res) kind vd valid vm unit = .ok g) :
    g.mesh = mesh ∧ g.nvdim = nv ∧ CFwf g ∧ g.unit = unit ∧ g.kind = kind.ctor ∧
    lastAx res.shape = nv ∧ res.shape ≠ [] ∧
    bshape res.shape (mesh.n ++ [nv]) = some (mesh.n ++ [nv]) ∧
    (∀ idx, inRange (mesh.n ++ [nv]) idx = true → g.data.get idx = res.get (bproj res.shape idx)) ∧
    (∀ i, inRange mesh.n i = true → g.valid.get i = validAt valid i) := by
  obtain ⟨hm, hn, hpos, hu, arr, own, vl, ha, hv, hd, hvl, _, _, hk⟩ := mkField_ok _ _ _ _ _ _ _ _ _ h
  obtain ⟨ho, hs, hl, hnil, hb, hg⟩ := asArray_arr_ok _ _ _ _ _ hne ha
  have hvshape : vl.shape = mesh.n := by
    cases valid with
    | none => rw [validSet_none _ _ hv]; rfl
    | some v => rw [validSet_same _ _ _ (hvs v rfl) hv]; exact hvs v rfl
  refine ⟨hm, hn, ?_, hu, ?_, hl, hnil, hb, ?_, ?_⟩
  · refine ⟨?_, ?_, ?_⟩
    · rw [hd, hm, hn]; exact hs
    · rw [hvl, hm]; exact hvshape
    · rw [hn]; exact hpos
  · rw [hk, ho]; rfl
  · intro idx hidx
    rw [hd, force_get _ _ _ (by rw [hs]; exact hidx), hg]
  · intro i hi
    rw [hvl, force_get _ _ _ (by rw [hvshape]; exact hi)]
    cases valid with
    | none => rw [validSet_none _ _ hv]; rfl
    | some v => rw [validSet_same _ _ _ (hvs v rfl) hv]; rfl

/-- the same for the result of an array-level NumPy function on `self.array` (rank above
the mesh's): additionally the rank is exactly one more than the mesh's -/
theorem mkField_arr (mesh : Mesh) (nv : Nat) (res : NDA GQ) (kind : Kind) (vd : Option (List String))
    (valid : Option (NDA Bool)) (vm : Option VMap) (unit : Option String) (g : CF)
    (hr : mesh.n.length < res.shape.length)
    (hvs : ∀ v, valid = some v → v.shape = mesh.n)
    (h : mkField mesh nv (.arr res) kind vd valid vm unit = .ok g) :
    g.mesh = mesh ∧ g.nvdim = nv ∧ CFwf g ∧ g.unit = unit ∧ g.kind = kind.ctor ∧
    lastAx res.shape = nv ∧ res.shape.length = mesh.n.length + 1 ∧
    bshape res.shape (mesh.n ++ [nv]) = some (mesh.n ++ [nv]) ∧
    (∀ idx, inRange (mesh.n ++ [nv]) idx = true → g.data.get idx = res.get (bproj res.shape idx)) ∧
    (∀ i, inRange mesh.n i = true → g.valid.get i = validAt valid i) := by
  have hne : ¬ (nv = 1 ∧ res.shape = mesh.n) := by
    rintro ⟨_, hs⟩; rw [hs] at hr; omega
  obtain ⟨hm, hn, hwf, hu, hk, hl, _, hb, hdata, hvalid⟩ := mkField_arr' _ _ _ _ _ _ _ _ _ hne hvs h
  have hlen : res.shape.length = mesh.n.length + 1 := by
    have := bshape_length _ _ _ hb
    simp at this
    omega
  exact ⟨hm, hn, hwf, hu, hk, hl, hlen, hb, hdata, hvalid⟩

end DFV.C03
