import DFV.Model.C17Fast
import DFV.Lemmas.C17Spacing
/-! The linear-time forms the driver runs (`Model/C17Fast.lean`) equal the pointwise definitions
the theorems are about. -/
namespace DFV.C17
open DFV

theorem diffsL_length (v : List Rat) : (diffsL v).length = v.length - 1 := by
  unfold diffsL
  rw [List.length_zipWith, List.length_tail]
  omega

/-- one pass over the list and its tail = the pointwise `np.diff` -/
theorem diffsL_eq (v : List Rat) : diffsL v = diffs v := by
  unfold diffs
  apply eq_tab_of_getD _ _ _ 0 (diffsL_length v)
  intro j hj
  have h0 : j < v.length := by omega
  have h1 : j + 1 < v.length := by omega
  unfold diffsL
  simp [List.getD_eq_getElem?_getD, List.getElem?_zipWith, List.getElem?_eq_getElem h0, List.getElem?_eq_getElem h1]

theorem meanDiffL_eq (v : List Rat) : meanDiffL v = meanDiff v := by
  unfold meanDiffL meanDiff; rw [diffsL_eq]

theorem allClose_iff (m : Rat) (l : List Rat) :
    allClose m l = true ↔ ∀ j, j < l.length → Region.isclose (l.getD j 0) m (1/100000) 0 = true := by
  induction l with
  | nil => simp [allClose]
  | cons d ds ih =>
    unfold allClose
    rw [Bool.and_eq_true, ih]
    constructor
    · rintro ⟨h1, h2⟩ j hj
      cases j with
      | zero => simpa using h1
      | succ j => simpa using h2 j (by simpa using hj)
    · intro h
      refine ⟨by simpa using h 0 (by simp), fun j hj => ?_⟩
      simpa using h (j + 1) (by simpa using hj)

/-- the one-pass spacing test is the pointwise one -/
theorem evenFast_eq (v : List Rat) : evenFast v = evenB v := by
  unfold evenFast evenB
  rw [meanDiffL_eq, diffsL_eq]
  congr 1
  rw [Bool.eq_iff_iff, allClose_iff, allLt_iff]
  unfold diffs
  rw [tab_length]

theorem checkSpacingFast_eq {α} (xa : XA α) : checkSpacingFast xa = checkSpacing xa := by
  unfold checkSpacingFast checkSpacing
  simp only [evenFast_eq]

theorem cellOfFast_eq {α} (xa : XA α) : cellOfFast xa = cellOf xa := by
  unfold cellOfFast cellOf
  simp only [meanDiffL_eq]
  cases xa.attrs.cell <;> rfl

theorem fromXAFast_eq [FieldAttrs] {α} (xa : XA α) : fromXAFast xa = fromXA xa := by
  unfold fromXAFast fromXA
  simp only [checkSpacingFast_eq, cellOfFast_eq]

theorem fromXarrayFast_eq [FieldAttrs] {α} (o : PyObj α) : fromXarrayFast o = fromXarray o := by
  cases o with
  | other => rfl
  | dataArray xa => exact fromXAFast_eq xa

end DFV.C17
