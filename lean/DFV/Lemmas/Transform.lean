import Mathlib.Tactic.Ring
import Mathlib.Tactic.Linarith
import DFV.Model.Transform
import DFV.Lemmas.Tab
namespace DFV.T
open DFV

theorem quarter_cases' (k : Int) :
    (cosq k = 1 ∧ sinq k = 0) ∨ (cosq k = 0 ∧ sinq k = 1) ∨ (cosq k = -1 ∧ sinq k = 0) ∨ (cosq k = 0 ∧ sinq k = -1) := by
  unfold cosq sinq
  have h : k % 4 = 0 ∨ k % 4 = 1 ∨ k % 4 = 2 ∨ k % 4 = 3 := by omega
  rcases h with h | h | h | h <;> simp [h]

end DFV.T
