import Mathlib.Tactic.Ring
import Mathlib.Tactic.Linarith
import DFV.Model.Transform
import DFV.Lemmas.Tab
namespace DFV.T
open DFV

theorem quarter_cases' (k : Int) :
    (cosq k = 1 ∧ sinq k = 0) ∨ (cosq k = 0 ∧ sinq k = 1) ∨ (cosq k = -1 ∧ sinq k = 0) ∨ (cosq k = 0 ∧ sinq k = -1) := by
  unfold cosq sinq
  have h : k % 4 = 0 ∨ k % 4 = 1 ∨ k % 4 = 2 ∨ k % 4 = 3 := by omega
  rcases h with h | h | h | h <;> simp [h]

theorem allLt_false_iff (n : Nat) (p : Nat → Bool) : allLt n p = false ↔ ∃ a, a < n ∧ p a = false := by
  constructor
  · intro h
    by_contra hc
    have : ∀ a, a < n → p a = true := by
      intro a ha
      by_contra hp
      exact hc ⟨a, ha, by simpa using hp⟩
    rw [(allLt_iff n p).mpr this] at h
    cases h
  · rintro ⟨a, ha, hp⟩
    exact allLt_false_of n p a ha hp

/-- what the constructor returns when it accepts -/
def normalised (p1 p2 : List Rat) (d u : List String) (tol : Rat) : Region :=
  { pmin := tab p1.length fun a => min (p1.getD a 0) (p2.getD a 0),
    pmax := tab p1.length fun a => max (p1.getD a 0) (p2.getD a 0),
    dims := d, units := u, tol := tol }

theorem dimsOk_some (n : Nat) (d : List String) (hd : d.length = n) (hdup : hasDup d = false) :
    Region.dimsOk n (some d) = .ok d := by
  simp [Region.dimsOk, hd, hdup]

theorem dimsOk_some_inv (n : Nat) (d d' : List String) (h : Region.dimsOk n (some d) = .ok d') :
    d.length = n ∧ hasDup d = false ∧ d' = d := by
  simp only [Region.dimsOk] at h
  split at h
  · cases h
  · rename_i hd
    split at h
    · cases h
    · rename_i hdup
      injection h with h
      exact ⟨not_not.mp hd, by simpa using hdup, h.symm⟩

theorem unitsOk_some (n : Nat) (u : List String) (hu : u.length = n) : Region.unitsOk n (some u) = .ok u := by
  simp [Region.unitsOk, hu]

theorem unitsOk_some_inv (n : Nat) (u u' : List String) (h : Region.unitsOk n (some u) = .ok u') :
    u.length = n ∧ u' = u := by
  simp only [Region.unitsOk] at h
  split at h
  · cases h
  · rename_i hu
    injection h with h
    exact ⟨not_not.mp hu, h.symm⟩

theorem mk?_ok_of (p1 p2 : List Rat) (d u : List String) (tol : Rat)
    (hl : p1.length = p2.length) (h0 : p1.length ≠ 0) (hd : d.length = p1.length)
    (hdup : hasDup d = false) (hu : u.length = p1.length)
    (hne : ∀ a, a < p1.length → p1.getD a 0 ≠ p2.getD a 0) :
    Region.mk? p1 p2 (some d) (some u) tol = .ok (normalised p1 p2 d u tol) := by
  have hall : allLt p1.length (fun a => decide (p1.getD a 0 ≠ p2.getD a 0)) = true := by
    rw [allLt_iff]; intro a ha; simpa using hne a ha
  unfold Region.mk?
  rw [if_neg (not_not.mpr hl), if_neg h0, dimsOk_some _ _ hd hdup, unitsOk_some _ _ hu]
  simp only [hall]
  rfl

theorem mk?_ok_inv (p1 p2 : List Rat) (d u : List String) (tol : Rat) (r : Region)
    (h : Region.mk? p1 p2 (some d) (some u) tol = .ok r) :
    p1.length = p2.length ∧ p1.length ≠ 0 ∧ d.length = p1.length ∧ hasDup d = false ∧ u.length = p1.length ∧
    (∀ a, a < p1.length → p1.getD a 0 ≠ p2.getD a 0) ∧ r = normalised p1 p2 d u tol := by
  unfold Region.mk? at h
  split at h
  · cases h
  · rename_i hl
    split at h
    · cases h
    · rename_i h0
      split at h
      · cases h
      · rename_i d' hd'
        obtain ⟨hd, hdup, rfl⟩ := dimsOk_some_inv _ _ _ hd'
        split at h
        · cases h
        · rename_i u' hu'
          obtain ⟨hu, rfl⟩ := unitsOk_some_inv _ _ _ hu'
          split at h
          · cases h
          · rename_i hall
            injection h with h
            refine ⟨not_not.mp hl, h0, hd, hdup, hu, ?_, h.symm⟩
            intro a ha
            have hall' : allLt p1.length (fun a => decide (p1.getD a 0 ≠ p2.getD a 0)) = true := by
              simpa using hall
            have := (allLt_iff _ _).mp hall' a ha
            simpa using this


/-- the state both forms end in: new corners ordered per axis, new units -/
def target (r : Region) (lo' hi' : Nat → Rat) (units : List String) : Region :=
  { r with pmin := tab r.ndim fun a => min (lo' a) (hi' a),
           pmax := tab r.ndim fun a => max (lo' a) (hi' a), units := units }

theorem target_ndim (r : Region) (lo' hi' : Nat → Rat) (units : List String) :
    (target r lo' hi' units).ndim = r.ndim := by simp [target, Region.ndim]

theorem target_lo (r : Region) (lo' hi' : Nat → Rat) (units : List String) (a : Nat) (ha : a < r.ndim) :
    (target r lo' hi' units).lo a = min (lo' a) (hi' a) := by
  simp only [Region.lo, target]; rw [getD_tab _ _ _ _ ha]

theorem target_hi (r : Region) (lo' hi' : Nat → Rat) (units : List String) (a : Nat) (ha : a < r.ndim) :
    (target r lo' hi' units).hi a = max (lo' a) (hi' a) := by
  simp only [Region.hi, target]; rw [getD_tab _ _ _ _ ha]

theorem target_inv (r : Region) (hr : r.Inv) (lo' hi' : Nat → Rat) (units : List String)
    (hu : units.length = r.ndim) (hne : ∀ a, a < r.ndim → lo' a ≠ hi' a) : (target r lo' hi' units).Inv := by
  obtain ⟨h0, h1, h2, h3, h4, h5⟩ := hr
  refine ⟨by simpa [target, Region.ndim] using h0, by simp [target], by simpa [target, Region.ndim] using h2,
    by simpa [target, Region.ndim] using hu, h4, ?_⟩
  intro a ha
  have ha' : a < r.ndim := by simpa [target, Region.ndim] using ha
  rw [target_lo _ _ _ _ _ ha', target_hi _ _ _ _ _ ha']
  rcases lt_or_gt_of_ne (hne a ha') with h | h
  · rw [min_eq_left h.le, max_eq_right h.le]; exact h
  · rw [min_eq_right h.le, max_eq_left h.le]; exact h

theorem viaCtor_ok (r : Region) (hr : r.Inv) (lo' hi' : Nat → Rat) (units : List String)
    (hu : units.length = r.ndim) (hne : ∀ a, a < r.ndim → lo' a ≠ hi' a) :
    viaCtor r (tab r.ndim lo') (tab r.ndim hi') units = .ok (target r lo' hi' units) := by
  obtain ⟨h0, h1, h2, h3, h4, h5⟩ := hr
  unfold viaCtor
  rw [mk?_ok_of _ _ _ _ _ (by simp) (by rw [tab_length]; exact Nat.pos_iff_ne_zero.mp h0) (by simpa [Region.ndim] using h2) h4
    (by simpa using hu)]
  · congr 1
    unfold normalised target
    simp only [tab_length]
    congr 1
    · apply tab_congr; intro a ha; rw [getD_tab _ _ _ _ ha, getD_tab _ _ _ _ ha]
    · apply tab_congr; intro a ha; rw [getD_tab _ _ _ _ ha, getD_tab _ _ _ _ ha]
  · intro a ha
    have ha' : a < r.ndim := by simpa using ha
    rw [getD_tab _ _ _ _ ha', getD_tab _ _ _ _ ha']
    exact hne a ha'

theorem viaCtor_err (r : Region) (lo' hi' : Nat → Rat) (units : List String) (a : Nat) (ha : a < r.ndim)
    (heq : lo' a = hi' a) : ∃ e, viaCtor r (tab r.ndim lo') (tab r.ndim hi') units = .error e := by
  cases h : viaCtor r (tab r.ndim lo') (tab r.ndim hi') units with
  | error e => exact ⟨e, rfl⟩
  | ok r' =>
    obtain ⟨_, _, _, _, _, hne, _⟩ := mk?_ok_inv _ _ _ _ _ _ h
    have := hne a (by simpa using ha)
    rw [getD_tab _ _ _ _ ha, getD_tab _ _ _ _ ha] at this
    exact absurd heq this


theorem dim2index_lt (r : Region) (d : String) (i : Nat) (h : r.dim2index d = .ok i) : i < r.dims.length := by
  unfold Region.dim2index at h
  split at h
  · rename_i k hk
    injection h with h; subst h
    -- indexOf?.go returns an index below the length (offset 0)
    have key : ∀ (xs : List String) (off k : Nat), indexOf?.go d xs off = some k → k < off + xs.length ∧ off ≤ k := by
      intro xs
      induction xs with
      | nil => intro off k h; simp [indexOf?.go] at h
      | cons y ys ih =>
        intro off k h
        simp only [indexOf?.go] at h
        split at h
        · injection h with h; subst h; simp
        · have := ih (off + 1) k h
          simp only [List.length_cons]; omega
    have := key r.dims 0 k hk
    omega
  · cases h

theorem translate_forms (r : Region) (hr : r.Inv) (v : List Rat) (hv : v.length = r.ndim) :
    translateR r v true = .ok (target r (fun a => r.lo a + v.getD a 0) (fun a => r.hi a + v.getD a 0) r.units,
                              target r (fun a => r.lo a + v.getD a 0) (fun a => r.hi a + v.getD a 0) r.units) ∧
    translateR r v false = .ok (r, target r (fun a => r.lo a + v.getD a 0) (fun a => r.hi a + v.getD a 0) r.units) := by
  have hlt : ∀ a, a < r.ndim → r.lo a + v.getD a 0 < r.hi a + v.getD a 0 := by
    intro a ha; have := hr.2.2.2.2.2 a ha; linarith
  have hne : ∀ a, a < r.ndim → r.lo a + v.getD a 0 ≠ r.hi a + v.getD a 0 := fun a ha => (hlt a ha).ne
  have htarget : ({ r with pmin := tab r.ndim fun a => r.lo a + v.getD a 0,
                           pmax := tab r.ndim fun a => r.hi a + v.getD a 0 } : Region)
      = target r (fun a => r.lo a + v.getD a 0) (fun a => r.hi a + v.getD a 0) r.units := by
    unfold target
    congr 1
    · apply tab_congr; intro a ha; exact (min_eq_left (hlt a ha).le).symm
    · apply tab_congr; intro a ha; exact (max_eq_right (hlt a ha).le).symm
  have hall : allLt r.ndim (fun a => decide ((r.hi a + v.getD a 0) - (r.lo a + v.getD a 0) ≠ 0)) = true := by
    rw [allLt_iff]; intro a ha
    have := hlt a ha
    simp only [decide_eq_true_eq]; intro h; linarith
  constructor
  · unfold translateR
    rw [if_neg (not_not.mpr hv)]
    simp only [if_true, hall, Bool.not_true, Bool.false_eq_true, if_false, htarget]
  · unfold translateR
    rw [if_neg (not_not.mpr hv)]
    simp only [Bool.false_eq_true, if_false]
    rw [viaCtor_ok r hr _ _ r.units hr.2.2.2.1 hne]

theorem translate_reject (r : Region) (v : List Rat) (hv : v.length ≠ r.ndim) (b : Bool) :
    translateR r v b = .error .value := by
  unfold translateR; rw [if_pos hv]


theorem scale_forms_ok (r : Region) (hr : r.Inv) (f : Factor) (ref : Option (List Rat))
    (hf : f.okFor r.ndim = true) (href : (ref.getD r.center).length = r.ndim)
    (hne : ∀ a, a < r.ndim → scaleLo r f (ref.getD r.center) a ≠ scaleHi r f (ref.getD r.center) a) :
    scaleR r f ref true = .ok (target r (scaleLo r f (ref.getD r.center)) (scaleHi r f (ref.getD r.center)) r.units,
                               target r (scaleLo r f (ref.getD r.center)) (scaleHi r f (ref.getD r.center)) r.units) ∧
    scaleR r f ref false = .ok (r, target r (scaleLo r f (ref.getD r.center)) (scaleHi r f (ref.getD r.center)) r.units) := by
  have hall : allLt r.ndim (fun a => decide (scaleHi r f (ref.getD r.center) a - scaleLo r f (ref.getD r.center) a ≠ 0)) = true := by
    rw [allLt_iff]; intro a ha
    have := hne a ha
    simp only [decide_eq_true_eq]; intro h; apply this; linarith
  constructor
  · unfold scaleR
    simp only [hf, Bool.not_true, Bool.false_eq_true, if_false, href, ne_eq, not_true_eq_false, if_true, hall]
    rfl
  · unfold scaleR
    simp only [hf, Bool.not_true, Bool.false_eq_true, if_false, href, ne_eq, not_true_eq_false]
    rw [viaCtor_ok r hr _ _ r.units hr.2.2.2.1 hne]

theorem scale_forms_err (r : Region) (f : Factor) (ref : Option (List Rat))
    (h : f.okFor r.ndim = false ∨ (ref.getD r.center).length ≠ r.ndim ∨
      ∃ a, a < r.ndim ∧ scaleLo r f (ref.getD r.center) a = scaleHi r f (ref.getD r.center) a) :
    (∃ e, scaleR r f ref true = .error e) ∧ (∃ e, scaleR r f ref false = .error e) := by
  by_cases hf : f.okFor r.ndim = true
  · by_cases href : (ref.getD r.center).length = r.ndim
    · rcases h with h | h | ⟨a, ha, heq⟩
      · rw [hf] at h; cases h
      · exact absurd href h
      · have hall : allLt r.ndim (fun a => decide (scaleHi r f (ref.getD r.center) a - scaleLo r f (ref.getD r.center) a ≠ 0)) = false := by
          apply allLt_false_of _ _ a ha
          simp [heq]
        constructor
        · refine ⟨.value, ?_⟩
          unfold scaleR
          simp only [hf, Bool.not_true, Bool.false_eq_true, if_false, href, ne_eq, not_true_eq_false, if_true, hall,
            Bool.not_false]
        · obtain ⟨e, he⟩ := viaCtor_err r _ _ r.units a ha heq
          refine ⟨e, ?_⟩
          unfold scaleR
          simp only [hf, Bool.not_true, Bool.false_eq_true, if_false, href, ne_eq, not_true_eq_false]
          rw [he]
    · constructor <;> refine ⟨.value, ?_⟩ <;> unfold scaleR <;>
        simp only [hf, Bool.not_true, Bool.false_eq_true, if_false, ne_eq, href, not_false_eq_true, if_true]
  · have hf' : f.okFor r.ndim = false := by simpa using hf
    constructor <;> refine ⟨.value, ?_⟩ <;> unfold scaleR <;> simp only [hf', Bool.not_false, if_true]


theorem setAt_length {α} (xs : List α) (i : Nat) (a : α) : (setAt xs i a).length = xs.length := by
  induction xs generalizing i with
  | nil => simp [setAt]
  | cons x xs ih => cases i <;> simp [setAt, ih]

theorem swapAt_length {α} [Inhabited α] (xs : List α) (i j : Nat) : (swapAt xs i j).length = xs.length := by
  simp [swapAt, setAt_length]

theorem rotUnits_length (u : List String) (i1 i2 : Nat) (k : Int) : (rotUnits u i1 i2 k).length = u.length := by
  unfold rotUnits; split <;> simp [swapAt_length]

/-- rotated corners differ on every axis (the rotated region is not degenerate) -/
theorem rotCoord_ne (r : Region) (hr : r.Inv) (ref : List Rat) (i1 i2 : Nat) (k : Int)
    (h1 : i1 < r.ndim) (h2 : i2 < r.ndim) (a : Nat) (ha : a < r.ndim) :
    rotCoord r.pmin ref i1 i2 k a ≠ rotCoord r.pmax ref i1 i2 k a := by
  have e1 := hr.2.2.2.2.2 i1 h1
  have e2 := hr.2.2.2.2.2 i2 h2
  have ea := hr.2.2.2.2.2 a ha
  unfold Region.lo Region.hi at e1 e2 ea
  unfold rotCoord
  rcases quarter_cases' k with ⟨hc, hs⟩ | ⟨hc, hs⟩ | ⟨hc, hs⟩ | ⟨hc, hs⟩ <;> rw [hc, hs] <;>
    (split
     · intro h; linarith
     · split
       · intro h; linarith
       · intro h; linarith)

theorem rot_forms_ok (r : Region) (hr : r.Inv) (ax1 ax2 : String) (k : Int) (ref : Option (List Rat))
    (i1 i2 : Nat) (hax : ax1 ≠ ax2) (href : (ref.getD r.center).length = r.ndim)
    (h1 : r.dim2index ax1 = .ok i1) (h2 : r.dim2index ax2 = .ok i2) :
    rotate90R r ax1 ax2 k ref true
      = .ok (target r (rotCoord r.pmin (ref.getD r.center) i1 i2 k) (rotCoord r.pmax (ref.getD r.center) i1 i2 k) (rotUnits r.units i1 i2 k),
             target r (rotCoord r.pmin (ref.getD r.center) i1 i2 k) (rotCoord r.pmax (ref.getD r.center) i1 i2 k) (rotUnits r.units i1 i2 k)) ∧
    rotate90R r ax1 ax2 k ref false
      = .ok (r, target r (rotCoord r.pmin (ref.getD r.center) i1 i2 k) (rotCoord r.pmax (ref.getD r.center) i1 i2 k) (rotUnits r.units i1 i2 k)) := by
  have hd : r.dims.length = r.ndim := hr.2.2.1
  have l1 : i1 < r.ndim := hd ▸ dim2index_lt r ax1 i1 h1
  have l2 : i2 < r.ndim := hd ▸ dim2index_lt r ax2 i2 h2
  have hne := rotCoord_ne r hr (ref.getD r.center) i1 i2 k l1 l2
  have hall : allLt r.ndim (fun a => decide (rotCoord r.pmax (ref.getD r.center) i1 i2 k a - rotCoord r.pmin (ref.getD r.center) i1 i2 k a ≠ 0)) = true := by
    rw [allLt_iff]; intro a ha
    have := hne a ha
    simp only [decide_eq_true_eq]; intro h; apply this; linarith
  have hu : (rotUnits r.units i1 i2 k).length = r.ndim := by rw [rotUnits_length]; exact hr.2.2.2.1
  constructor
  · unfold rotate90R
    rw [if_neg hax, if_neg (not_not.mpr href), h1, h2]
    simp only [if_true, hall, Bool.not_true, Bool.false_eq_true, if_false]
    rfl
  · unfold rotate90R
    rw [if_neg hax, if_neg (not_not.mpr href), h1, h2]
    simp only [Bool.false_eq_true, if_false]
    rw [viaCtor_ok r hr _ _ _ hu hne]

theorem rot_forms_err (r : Region) (ax1 ax2 : String) (k : Int) (ref : Option (List Rat))
    (h : ax1 = ax2 ∨ (ref.getD r.center).length ≠ r.ndim ∨ (∃ e, r.dim2index ax1 = .error e) ∨ (∃ e, r.dim2index ax2 = .error e))
    (b : Bool) : ∃ e, rotate90R r ax1 ax2 k ref b = .error e := by
  unfold rotate90R
  by_cases hax : ax1 = ax2
  · exact ⟨.value, by rw [if_pos hax]⟩
  · rw [if_neg hax]
    by_cases href : (ref.getD r.center).length = r.ndim
    · rw [if_neg (not_not.mpr href)]
      rcases h with h | h | ⟨e, he⟩ | ⟨e, he⟩
      · exact absurd h hax
      · exact absurd href h
      · rw [he]; exact ⟨e, rfl⟩
      · rw [he]
        cases hh : r.dim2index ax1 with
        | error e' => exact ⟨e', rfl⟩
        | ok i => exact ⟨e, rfl⟩
    · exact ⟨.value, by rw [if_pos href]⟩


end DFV.T
