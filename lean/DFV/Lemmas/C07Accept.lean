import DFV.Lemmas.C07Resample
/-! Forward direction of the constructor paths: well-formed requests are accepted. -/
namespace DFV.C07
open DFV DFV.Mesh

theorem foldl_min_pos (xs : List Rat) (x : Rat) (hx : 0 < x) (h : ∀ c ∈ xs, 0 < c) : 0 < xs.foldl min x := by
  induction xs generalizing x with
  | nil => simpa using hx
  | cons y ys ih =>
    simp only [List.foldl_cons]
    apply ih
    · exact lt_min hx (h y (by simp))
    · intro c hc; exact h c (by simp [hc])

theorem listMin_nonneg (l : List Rat) (h : ∀ c ∈ l, 0 < c) : 0 ≤ listMin l := by
  cases l with
  | nil => simp [listMin]
  | cons x xs =>
    unfold listMin
    exact (foldl_min_pos xs x (h x (by simp)) (fun c hc => h c (by simp [hc]))).le

theorem emptyLower : "".toLower = "" := by simp [String.toLower]

theorem bcOk_empty (dims : List String) : Mesh.bcOk dims "" = true := by
  unfold Mesh.bcOk; simp

theorem mem_getD {α} (l : List α) (c d : α) (h : c ∈ l) : ∃ a, a < l.length ∧ l.getD a d = c := by
  obtain ⟨a, ha, hc⟩ := List.getElem_of_mem h
  exact ⟨a, ha, by rw [List.getD_eq_getElem?_getD, List.getElem?_eq_getElem ha]; simpa using hc⟩

/-- `Mesh(region=r, cell=cell)` succeeds when every cell size divides its edge a whole number
`ks a ≥ 1` of times, and yields exactly those counts. -/
theorem mkCell_ok (r : Region) (ks : List Nat) (cell : List Rat) (bc : String) (hlen : cell.length = r.ndim)
    (hk : ks.length = r.ndim) (hbc : Mesh.bcOk r.dims bc.toLower = true)
    (h : ∀ a, a < r.ndim → 0 < ks.getD a 0 ∧ r.lo a < r.hi a ∧
      cell.getD a 0 = r.edge a / (ks.getD a 0 : Rat)) :
    Mesh.mkCell? r cell bc = .ok { region := r, n := ks, bc := bc.toLower, subs := [] } := by
  have hcpos : ∀ a, a < r.ndim → 0 < cell.getD a 0 := by
    intro a ha
    obtain ⟨h1, h2, h3⟩ := h a ha
    rw [h3]; unfold Region.edge
    exact div_pos (by linarith) (by exact_mod_cast h1)
  have hedge : ∀ a, a < r.ndim → r.edge a = (ks.getD a 0 : Rat) * cell.getD a 0 := by
    intro a ha
    obtain ⟨h1, _, h3⟩ := h a ha
    have : (ks.getD a 0 : Rat) ≠ 0 := by exact_mod_cast h1.ne'
    rw [h3]; field_simp
  have hall : ∀ c ∈ cell, 0 < c := by
    intro c hc
    obtain ⟨a, ha, hca⟩ := mem_getD cell c 0 hc
    rw [← hca]; exact hcpos a (by omega)
  unfold Mesh.mkCell?
  rw [if_neg (by omega)]
  have hany : (cell.any fun c => decide (c ≤ 0)) = false := by
    rw [List.any_eq_false]
    intro c hc
    have := hall c hc
    simp only [decide_eq_true_eq, not_le]; exact this
  rw [hany]
  simp only [Bool.false_eq_true, if_false]
  have hcont : r.containsPt (tab r.ndim fun a => r.lo a + cell.getD a 0) = true := by
    apply containsPt_of_exact _ _ (by simp)
    intro a ha
    rw [getD_tab _ _ _ _ ha]
    have hc := hcpos a ha
    have he := hedge a ha
    have h1 : (1 : Rat) ≤ (ks.getD a 0 : Rat) := by exact_mod_cast (h a ha).1
    unfold Region.edge at he
    constructor
    · linarith
    · nlinarith
  rw [hcont]
  simp only [Bool.not_true, Bool.false_eq_true, if_false]
  have hdiv : allLt r.ndim (fun a => !notDivisible (r.edge a) (cell.getD a 0) (listMin cell / 1000)) = true := by
    rw [allLt_iff]
    intro a ha
    have hc := hcpos a ha
    have hq : r.edge a / cell.getD a 0 = ((ks.getD a 0 : Int) : Rat) := by
      rw [hedge a ha]; field_simp; push_cast; ring
    have hrem : remainder (r.edge a) (cell.getD a 0) = 0 := by
      unfold remainder
      rw [hq]
      have hf : (((ks.getD a 0 : Int) : Rat)).floor = (ks.getD a 0 : Int) := by
        apply rat_floor_eq <;> linarith
      rw [hf, hedge a ha]; push_cast; ring
    unfold notDivisible
    rw [hrem]
    have : ¬ (listMin cell / 1000 < 0) := by
      have := listMin_nonneg cell hall
      intro hcon; linarith
    simp [this]
  rw [hdiv]
  simp only [Bool.not_true, Bool.false_eq_true, if_false]
  have hcnt : allLt r.ndim (fun a => decide (1 ≤ (roundHalfEven (r.edge a / cell.getD a 0)).toNat)) = true := by
    rw [allLt_iff]
    intro a ha
    rw [count_of_edge _ _ _ (hcpos a ha).ne' (hedge a ha)]
    exact decide_eq_true (h a ha).1
  rw [hcnt]
  simp only [Bool.not_true, Bool.false_eq_true, if_false]
  rw [hbc]
  simp only [Bool.not_true, Bool.false_eq_true, if_false]
  congr 2
  symm
  apply eq_tab_of_getD _ _ _ 0 hk
  intro a ha
  exact (count_of_edge _ _ _ (hcpos a ha).ne' (hedge a ha)).symm

theorem mkCell_ok_nobc (r : Region) (ks : List Nat) (cell : List Rat) (hlen : cell.length = r.ndim)
    (hk : ks.length = r.ndim)
    (h : ∀ a, a < r.ndim → 0 < ks.getD a 0 ∧ r.lo a < r.hi a ∧
      cell.getD a 0 = r.edge a / (ks.getD a 0 : Rat)) :
    Mesh.mkCell? r cell "" = .ok { region := r, n := ks, bc := "", subs := [] } := by
  have := mkCell_ok r ks cell "" hlen hk (by rw [emptyLower]; exact bcOk_empty _) h
  rw [emptyLower] at this
  exact this

/-- `Region(p1, p2, dims, units, tol)` with `p1 < p2` componentwise is accepted as is -/
theorem regionMk_ok (p1 p2 : List Rat) (d u : List String) (tol : Rat)
    (h12 : p1.length = p2.length) (h0 : 0 < p1.length) (hd : d.length = p1.length)
    (hdup : hasDup d = false) (hu : u.length = p1.length)
    (hlt : ∀ a, a < p1.length → p1.getD a 0 < p2.getD a 0) :
    Region.mk? p1 p2 (some d) (some u) tol = .ok { pmin := p1, pmax := p2, dims := d, units := u, tol := tol } := by
  unfold Region.mk?
  rw [if_neg (by omega), if_neg (by omega)]
  simp only [Region.dimsOk, Region.unitsOk]
  rw [if_neg (by omega), if_neg (by simp [hdup])]
  simp only
  rw [if_neg (by omega)]
  simp only
  have hall : allLt p1.length (fun a => decide (p1.getD a 0 ≠ p2.getD a 0)) = true := by
    rw [allLt_iff]; intro a ha
    have := hlt a ha
    simp only [decide_eq_true_eq]; exact this.ne
  rw [hall]
  simp only [Bool.not_true, Bool.false_eq_true, if_false]
  have e1 : (tab p1.length fun a => min (p1.getD a 0) (p2.getD a 0)) = p1 := by
    symm; apply eq_tab_of_getD _ _ _ 0 rfl
    intro a ha; exact (min_eq_left (hlt a ha).le).symm
  have e2 : (tab p1.length fun a => max (p1.getD a 0) (p2.getD a 0)) = p2 := by
    symm; apply eq_tab_of_getD _ _ _ 0 h12.symm
    intro a ha; exact (max_eq_right (hlt a ha).le).symm
  rw [e1, e2]

theorem setSubs_nil (m : Mesh) (h : m.subs = []) : setSubs? m [] = .ok m := by
  unfold setSubs? checkSubs
  simp only [List.map_nil]
  congr 1
  cases m; simp_all

theorem contains_removeAt (l : List String) (a : Nat) (x : String)
    (h : (removeAt l a).contains x = true) : l.contains x = true := by
  induction l generalizing a with
  | nil => simp [removeAt] at h
  | cons y ys ih =>
    cases a with
    | zero =>
      simp only [removeAt] at h
      simp only [List.contains_cons, Bool.or_eq_true]
      exact Or.inr h
    | succ a =>
      simp only [removeAt, List.contains_cons, Bool.or_eq_true] at h ⊢
      rcases h with h | h
      · exact Or.inl h
      · exact Or.inr (ih a h)

theorem hasDup_removeAt (l : List String) (a : Nat) (h : hasDup l = false) : hasDup (removeAt l a) = false := by
  induction l generalizing a with
  | nil => simp [removeAt, hasDup]
  | cons y ys ih =>
    simp only [hasDup, Bool.or_eq_false_iff] at h
    cases a with
    | zero => simp only [removeAt]; exact h.2
    | succ a =>
      simp only [removeAt, hasDup, Bool.or_eq_false_iff]
      refine ⟨?_, ih a h.2⟩
      cases hc : (removeAt ys a).contains y with
      | false => rfl
      | true =>
        have := contains_removeAt ys a y hc
        rw [this] at h
        exact absurd h.1 (by simp)

/-- mesh with axis `a` removed (what a plane selection returns when there are no subregions) -/
def planeOf (m : Mesh) (a : Nat) : Mesh :=
  { region := { pmin := removeAt m.region.pmin a, pmax := removeAt m.region.pmax a,
                dims := removeAt m.region.dims a, units := removeAt m.region.units a, tol := m.region.tol },
    n := removeAt m.n a, bc := "", subs := [] }

theorem selPlaneMesh_ok (m : Mesh) (hm : m.Inv) (hs : m.subs = []) (a : Nat) (ha : a < m.ndim)
    (h2 : 2 ≤ m.ndim) (c : Rat) : selPlaneMesh m a c = .ok (planeOf m a) := by
  unfold selPlaneMesh
  rw [hs]
  simp only [planeSubs]
  have hl1 : (removeAt m.region.pmin a).length = m.ndim - 1 := length_removeAt _ _ ha
  have hl2 : (removeAt m.region.pmax a).length = m.ndim - 1 :=
    length_removeAt _ _ (by rw [inv_pmax_length hm]; exact ha) |>.trans (by rw [inv_pmax_length hm])
  rw [regionMk_ok _ _ _ _ _ (by rw [hl1, hl2]) (by omega)
    (by rw [length_removeAt _ _ (by rw [inv_dims_length hm]; exact ha), inv_dims_length hm, hl1])
    (hasDup_removeAt _ _ hm.1.2.2.2.2.1)
    (by rw [length_removeAt _ _ (by rw [inv_units_length hm]; exact ha), inv_units_length hm, hl1])
    (by
      intro b hb
      rw [getD_removeAt, getD_removeAt]
      exact inv_lo_lt_hi hm (skip_lt a b m.ndim ha (by omega)))]
  simp only
  unfold mkMesh?
  rw [mkCell_ok_nobc _ (removeAt m.n a) _
    (by rw [length_removeAt _ _ (by rw [cell_length]; exact ha), cell_length]; exact hl1.symm)
    (by rw [length_removeAt _ _ (by rw [inv_n_length hm]; exact ha), inv_n_length hm]; exact hl1.symm)
    (by
      intro b hb
      have hb' : b < m.ndim - 1 := by
        have : b < (removeAt m.region.pmin a).length := hb
        omega
      have hsk := skip_lt a b m.ndim ha hb'
      refine ⟨?_, ?_, ?_⟩
      · rw [getD_removeAt]; exact inv_n_pos hm hsk
      · show (removeAt m.region.pmin a).getD b 0 < (removeAt m.region.pmax a).getD b 0
        rw [getD_removeAt, getD_removeAt]; exact inv_lo_lt_hi hm hsk
      · rw [getD_removeAt, getD_removeAt, cell_getD m _ hsk]
        show m.cellAt (skip a b) = ((removeAt m.region.pmax a).getD b 0 - (removeAt m.region.pmin a).getD b 0) / _
        rw [getD_removeAt, getD_removeAt]; rfl)]
  simp only
  exact setSubs_nil _ rfl

theorem selRangeMesh_ok (m : Mesh) (hm : m.Inv) (hs : m.subs = []) (a : Nat) (ha : a < m.ndim)
    (k1 k2 : Nat) (hk : k1 ≤ k2) (hk2 : k2 < m.nAt a) :
    ∃ g, selRangeMesh m a (m.centreAx a (k1 : Int)) (m.centreAx a (k2 : Int)) = .ok g ∧
      g.n = setAt m.n a (k2 - k1 + 1) := by
  unfold selRangeMesh
  rw [hs]
  simp only [rangeSubs]
  have hc := inv_cell_pos hm ha
  have hk12 : (k1 : Rat) ≤ (k2 : Rat) := by exact_mod_cast hk
  have hA : (setAt m.region.pmin a (m.centreAx a (k1 : Int) - m.cellAt a / 2)).getD a 0
      = m.region.lo a + (k1 : Rat) * m.cellAt a := by
    rw [getD_setAt_eq _ _ _ _ ha, centreAx_cast]; ring
  have hB : (setAt m.region.pmax a (m.centreAx a (k2 : Int) + m.cellAt a / 2)).getD a 0
      = m.region.lo a + ((k2 : Rat) + 1) * m.cellAt a := by
    rw [getD_setAt_eq _ _ _ _ (by rw [inv_pmax_length hm]; exact ha), centreAx_cast]; ring
  have hlt : ∀ b, b < m.ndim →
      (setAt m.region.pmin a (m.centreAx a (k1 : Int) - m.cellAt a / 2)).getD b 0
        < (setAt m.region.pmax a (m.centreAx a (k2 : Int) + m.cellAt a / 2)).getD b 0 := by
    intro b hb
    by_cases hba : b = a
    · subst hba; rw [hA, hB]; nlinarith
    · rw [getD_setAt_ne _ _ _ _ _ hba, getD_setAt_ne _ _ _ _ _ hba]; exact inv_lo_lt_hi hm hb
  rw [regionMk_ok _ _ _ _ _ (by rw [length_setAt, length_setAt, inv_pmax_length hm]; rfl)
    (by rw [length_setAt]; exact inv_ndim_pos hm) (by rw [length_setAt, inv_dims_length hm]; rfl)
    hm.1.2.2.2.2.1 (by rw [length_setAt, inv_units_length hm]; rfl)
    (by intro b hb; rw [length_setAt] at hb; exact hlt b hb)]
  simp only
  unfold mkMesh?
  rw [mkCell_ok_nobc _ (setAt m.n a (k2 - k1 + 1)) _
    (by rw [cell_length]; show m.ndim = (setAt _ _ _).length; rw [length_setAt]; rfl)
    (by rw [length_setAt, inv_n_length hm]; show m.ndim = (setAt _ _ _).length; rw [length_setAt]; rfl)
    (by
      intro b hb
      have hb' : b < m.ndim := by
        have : b < (setAt m.region.pmin a (m.centreAx a (k1 : Int) - m.cellAt a / 2)).length := hb
        rw [length_setAt] at this; exact this
      by_cases hba : b = a
      · subst hba
        rw [getD_setAt_eq _ _ _ _ (by rw [inv_n_length hm]; exact hb')]
        refine ⟨by omega, hlt b hb', ?_⟩
        rw [cell_getD m _ hb']
        show m.cellAt b = ((setAt m.region.pmax b _).getD b 0 - (setAt m.region.pmin b _).getD b 0) / _
        rw [hA, hB]
        have : ((k2 - k1 + 1 : Nat) : Rat) = (k2 : Rat) - (k1 : Rat) + 1 := by
          push_cast [Nat.cast_sub hk]; ring
        rw [this]
        have hne : (k2 : Rat) - (k1 : Rat) + 1 ≠ 0 := by
          intro hcon; linarith
        field_simp; ring
      · rw [getD_setAt_ne _ _ _ _ _ hba]
        refine ⟨inv_n_pos hm hb', hlt b hb', ?_⟩
        rw [cell_getD m _ hb']
        show m.cellAt b = ((setAt m.region.pmax a _).getD b 0 - (setAt m.region.pmin a _).getD b 0) / _
        rw [getD_setAt_ne _ _ _ _ _ hba, getD_setAt_ne _ _ _ _ _ hba]; rfl)]
  simp only
  exact ⟨_, setSubs_nil _ rfl, rfl⟩

theorem getRegion_ok (m : Mesh) (hm : m.Inv) (item : Region) (hbox : BoxIn m item)
    (hpm : item.pmax.length = m.ndim) :
    ∃ g, getRegion m item = .ok g ∧ g.n = tab m.ndim fun a => blockHi m item a - blockLo m item a + 1 := by
  unfold getRegion
  have hcr : m.region.containsReg item = true := by
    unfold Region.containsReg
    rw [containsPt_of_exact m.region item.pmin hbox.1 (by
      intro a ha
      obtain ⟨b1, b2, b3⟩ := hbox.2 a ha
      exact ⟨b1, by show item.lo a ≤ _; linarith⟩),
      containsPt_of_exact m.region item.pmax hpm (by
      intro a ha
      obtain ⟨b1, b2, b3⟩ := hbox.2 a ha
      exact ⟨by show _ ≤ item.hi a; linarith, b3⟩)]
    rfl
  rw [hcr]
  simp only [Bool.not_true, Bool.false_eq_true, if_false]
  rw [point2index_eq m item.pmin hbox.1 (by
      intro a ha
      obtain ⟨b1, b2, b3⟩ := hbox.2 a ha
      exact ⟨b1, by show item.lo a ≤ _; linarith⟩)]
  simp only
  rw [index2point_eq m _ (by rw [length_natsToInts, tab_length]) (by
      intro a ha
      rw [getD_natsToInts, getD_tab _ _ _ _ ha]
      have := indexAx_lt m a (item.pmin.getD a 0) (inv_n_pos hm ha)
      omega)]
  simp only
  rw [show (tab m.ndim fun a => upperIdxC m a (item.hi a)) = tab m.ndim fun a => upperIdx m a (item.hi a) from
    tab_congr _ _ _ (fun a ha => upperIdxC_eq m hm item hbox a ha)]
  rw [index2point_eq m _ (by rw [tab_length]) (by
      intro a ha
      rw [getD_tab _ _ _ _ ha]
      obtain ⟨h1, h2, _⟩ := upperIdx_range m hm item hbox a ha
      exact ⟨h1, h2⟩)]
  simp only
  -- the two corner tables
  have hP1 : ∀ a, a < m.ndim →
      (tab m.ndim fun a => (tab m.ndim fun a => m.centreAx a ((natsToInts (tab m.ndim fun a =>
        m.indexAx a (item.pmin.getD a 0))).getD a 0)).getD a 0 - m.cellAt a / 2).getD a 0
      = m.region.lo a + (m.indexAx a (item.lo a) : Rat) * m.cellAt a := by
    intro a ha
    rw [getD_tab _ _ _ _ ha, getD_tab _ _ _ _ ha, getD_natsToInts, getD_tab _ _ _ _ ha, centreAx_cast]
    unfold Region.lo; ring
  have hP2 : ∀ a, a < m.ndim →
      (tab m.ndim fun a => (tab m.ndim fun a => m.centreAx a ((tab m.ndim fun a =>
        upperIdx m a (item.hi a)).getD a 0)).getD a 0 + m.cellAt a / 2).getD a 0
      = m.region.lo a + ((upperIdx m a (item.hi a) : Rat) + 1) * m.cellAt a := by
    intro a ha
    rw [getD_tab _ _ _ _ ha, getD_tab _ _ _ _ ha, getD_tab _ _ _ _ ha]
    unfold centreAx; ring
  have hlt : ∀ a, a < m.ndim →
      m.region.lo a + (m.indexAx a (item.lo a) : Rat) * m.cellAt a
        < m.region.lo a + ((upperIdx m a (item.hi a) : Rat) + 1) * m.cellAt a := by
    intro a ha
    obtain ⟨_, _, h3⟩ := upperIdx_range m hm item hbox a ha
    have hc := inv_cell_pos hm ha
    have : (m.indexAx a (item.lo a) : Rat) ≤ (upperIdx m a (item.hi a) : Rat) := by exact_mod_cast h3
    nlinarith
  rw [regionMk_ok _ _ _ _ _ (by rw [tab_length, tab_length]) (by rw [tab_length]; exact inv_ndim_pos hm)
    (by rw [tab_length]; exact inv_dims_length hm) hm.1.2.2.2.2.1 (by rw [tab_length]; exact inv_units_length hm)
    (by
      intro a ha
      rw [tab_length] at ha
      rw [hP1 a ha, hP2 a ha]; exact hlt a ha)]
  simp only
  have hks : ∀ a, a < m.ndim →
      (((upperIdx m a (item.hi a)).toNat - m.indexAx a (item.lo a) + 1 : Nat) : Rat)
        = (upperIdx m a (item.hi a) : Rat) - (m.indexAx a (item.lo a) : Rat) + 1 := by
    intro a ha
    obtain ⟨h1, _, h3⟩ := upperIdx_range m hm item hbox a ha
    have e : (((upperIdx m a (item.hi a)).toNat : Nat) : Int) = upperIdx m a (item.hi a) := Int.toNat_of_nonneg h1
    have hle : m.indexAx a (item.lo a) ≤ (upperIdx m a (item.hi a)).toNat := by omega
    push_cast [Nat.cast_sub hle]
    have : (((upperIdx m a (item.hi a)).toNat : Nat) : Rat) = (upperIdx m a (item.hi a) : Rat) := by exact_mod_cast e
    rw [this]
  refine ⟨_, mkCell_ok_nobc _ (tab m.ndim fun a => (upperIdx m a (item.hi a)).toNat - m.indexAx a (item.lo a) + 1) _
    (by rw [cell_length]; show m.ndim = (tab _ _).length; rw [tab_length])
    (by rw [tab_length]; show m.ndim = (tab _ _).length; rw [tab_length])
    (by
      intro a ha
      have ha' : a < m.ndim := by
        have : a < (tab m.ndim _).length := ha
        rw [tab_length] at this; exact this
      rw [getD_tab _ _ _ _ ha']
      refine ⟨by omega, ?_, ?_⟩
      · show (tab m.ndim _).getD a 0 < (tab m.ndim _).getD a 0
        rw [hP1 a ha', hP2 a ha']; exact hlt a ha'
      · rw [cell_getD m _ ha']
        show m.cellAt a = ((tab m.ndim _).getD a 0 - (tab m.ndim _).getD a 0) / _
        rw [hP1 a ha', hP2 a ha', hks a ha']
        have hne : (upperIdx m a (item.hi a) : Rat) - (m.indexAx a (item.lo a) : Rat) + 1 ≠ 0 := by
          obtain ⟨_, _, h3⟩ := upperIdx_range m hm item hbox a ha'
          have : (m.indexAx a (item.lo a) : Rat) ≤ (upperIdx m a (item.hi a) : Rat) := by exact_mod_cast h3
          intro hcon; linarith
        field_simp; ring), rfl⟩

theorem padCorners_ok (m : Mesh) (pw : List PadW) (h : ∀ w, w ∈ pw → ∃ a, m.region.dim2index w.dim = .ok a)
    (pmin pmax : List Rat) : ∃ pp, padCorners m pw pmin pmax = .ok pp := by
  induction pw generalizing pmin pmax with
  | nil => exact ⟨_, rfl⟩
  | cons w rest ih =>
    obtain ⟨a, ha⟩ := h w (List.mem_cons_self ..)
    unfold padCorners
    rw [ha]
    exact ih (fun w' hw' => h w' (List.mem_cons_of_mem _ hw')) _ _

theorem padMesh_ok (m : Mesh) (hm : m.Inv) (pw : List PadW)
    (hdims : ∀ w, w ∈ pw → ∃ a, m.region.dim2index w.dim = .ok a)
    (hL : ∀ b, b < m.ndim → 0 ≤ sumW m (·.lo) pw b) (hH : ∀ b, b < m.ndim → 0 ≤ sumW m (·.hi) pw b)
    (hbc : Mesh.bcOk m.region.dims m.bc.toLower = true) :
    ∃ g, padMesh m pw = .ok g ∧
      g.n = tab m.ndim fun b => m.nAt b + (sumW m (·.lo) pw b).toNat + (sumW m (·.hi) pw b).toNat := by
  unfold padMesh
  obtain ⟨pp, hpp⟩ := padCorners_ok m pw hdims m.region.pmin m.region.pmax
  obtain ⟨p1, p2⟩ := pp
  rw [hpp]
  simp only
  obtain ⟨c1, c2, c3, c4⟩ := padCorners_inv m pw _ _ p1 p2 hpp
  have hp1 : p1.length = m.ndim := c1
  have hp2 : p2.length = m.ndim := by rw [c2]; exact inv_pmax_length hm
  have hLr : ∀ b, b < m.ndim → ((sumW m (·.lo) pw b).toNat : Rat) = (sumW m (·.lo) pw b : Rat) := by
    intro b hb
    have : ((sumW m (·.lo) pw b).toNat : Int) = sumW m (·.lo) pw b := Int.toNat_of_nonneg (hL b hb)
    exact_mod_cast this
  have hHr : ∀ b, b < m.ndim → ((sumW m (·.hi) pw b).toNat : Rat) = (sumW m (·.hi) pw b : Rat) := by
    intro b hb
    have : ((sumW m (·.hi) pw b).toNat : Int) = sumW m (·.hi) pw b := Int.toNat_of_nonneg (hH b hb)
    exact_mod_cast this
  have hq1 : ∀ b, b < m.ndim → p1.getD b 0 = m.region.lo b - ((sumW m (·.lo) pw b).toNat : Rat) * m.cellAt b := by
    intro b hb; rw [c3 b hb, hLr b hb]; rfl
  have hq2 : ∀ b, b < m.ndim → p2.getD b 0 = m.region.hi b + ((sumW m (·.hi) pw b).toNat : Rat) * m.cellAt b := by
    intro b hb; rw [c4 b (by rw [inv_pmax_length hm]; exact hb), hHr b hb]; rfl
  have hlt : ∀ b, b < m.ndim → p1.getD b 0 < p2.getD b 0 := by
    intro b hb
    rw [hq1 b hb, hq2 b hb]
    have hc := inv_cell_pos hm hb
    have := inv_lo_lt_hi hm hb
    have h1 : (0 : Rat) ≤ ((sumW m (·.lo) pw b).toNat : Rat) := by exact_mod_cast Nat.zero_le _
    have h2 : (0 : Rat) ≤ ((sumW m (·.hi) pw b).toNat : Rat) := by exact_mod_cast Nat.zero_le _
    nlinarith
  rw [regionMk_ok p1 p2 _ _ _ (by rw [hp1, hp2]) (by rw [hp1]; exact inv_ndim_pos hm)
    (by rw [hp1]; exact inv_dims_length hm) hm.1.2.2.2.2.1 (by rw [hp1]; exact inv_units_length hm)
    (by intro b hb; rw [hp1] at hb; exact hlt b hb)]
  simp only
  refine ⟨_, mkCell_ok _ (tab m.ndim fun b => m.nAt b + (sumW m (·.lo) pw b).toNat + (sumW m (·.hi) pw b).toNat) _ _
    (by rw [cell_length]; exact hp1.symm) (by rw [tab_length]; exact hp1.symm) hbc
    (by
      intro b hb
      have hb' : b < m.ndim := by have : b < p1.length := hb; omega
      rw [getD_tab _ _ _ _ hb']
      have hn := inv_n_pos hm hb'
      refine ⟨by omega, hlt b hb', ?_⟩
      rw [cell_getD m _ hb']
      show m.cellAt b = (p2.getD b 0 - p1.getD b 0) / _
      rw [hq1 b hb', hq2 b hb', hi_eq m b hn]
      have hne : ((m.nAt b + (sumW m (·.lo) pw b).toNat + (sumW m (·.hi) pw b).toNat : Nat) : Rat) ≠ 0 := by
        have : 0 < m.nAt b + (sumW m (·.lo) pw b).toNat + (sumW m (·.hi) pw b).toNat := by omega
        exact_mod_cast this.ne'
      field_simp
      push_cast; ring), rfl⟩

/-- `field[item]` succeeds once the extracted mesh is a block of whole cells on every axis -/
theorem getItem_ok_of_block (f : Fld) (hf : FldWF f) (item : Item) (sm : Mesh)
    (hgm : getMesh f.mesh item = .ok sm) (e1 : sm.ndim = f.mesh.ndim)
    (off cnt : Nat → Nat) (hcnt : ∀ b, b < f.mesh.ndim → 0 < cnt b)
    (hblk : ∀ b, b < f.mesh.ndim → AxisBlock sm f.mesh b b (off b) (cnt b))
    (hsn : sm.n = tab f.mesh.ndim cnt) (hmeta : metaOk f = true) : ∃ g, getItem f item = .ok g := by
  obtain ⟨hinv, hds, hvs⟩ := hf
  unfold getItem
  rw [hgm]
  simp only
  rw [index2point_eq sm _ (by simp) (by
    intro b hb
    rw [getD_replicate_zero]
    have hlt := (hblk b (by omega)).n
    have := hcnt b (by omega)
    constructor
    · omega
    · have : 0 < sm.nAt b := by rw [hlt]; exact this
      exact_mod_cast this)]
  simp only
  have hcen : ∀ b, b < f.mesh.ndim →
      f.mesh.indexAx b ((tab sm.ndim fun a => sm.centreAx a ((List.replicate sm.ndim (0 : Int)).getD a 0)).getD b 0)
        = off b ∧
      f.mesh.region.lo b ≤ (tab sm.ndim fun a => sm.centreAx a ((List.replicate sm.ndim (0 : Int)).getD a 0)).getD b 0 ∧
      (tab sm.ndim fun a => sm.centreAx a ((List.replicate sm.ndim (0 : Int)).getD a 0)).getD b 0 ≤ f.mesh.region.hi b := by
    intro b hb
    rw [getD_tab _ _ _ _ (by omega), getD_replicate_zero]
    have := block_index (hblk b hb) (inv_cell_pos hinv hb) 0 (hcnt b hb)
    simpa using this
  rw [point2index_eq f.mesh _ (by rw [tab_length]; exact e1) (fun b hb => (hcen b hb).2)]
  simp only
  have hshape : ∀ (sh : List Nat), sh = f.mesh.n →
      (tab sh.length fun b =>
        min ((tab f.mesh.ndim fun a => f.mesh.indexAx a ((tab sm.ndim fun a => sm.centreAx a
          ((List.replicate sm.ndim (0 : Int)).getD a 0)).getD a 0)).getD b 0 + sm.n.getD b 0) (sh.getD b 0)
        - min ((tab f.mesh.ndim fun a => f.mesh.indexAx a ((tab sm.ndim fun a => sm.centreAx a
          ((List.replicate sm.ndim (0 : Int)).getD a 0)).getD a 0)).getD b 0) (sh.getD b 0)) = sm.n := by
    intro sh hsh
    subst hsh
    rw [hsn, inv_n_length hinv]
    apply tab_congr
    intro b hb
    rw [getD_tab _ _ _ _ hb, (hcen b hb).1, getD_tab _ _ _ _ hb]
    have hfit := (hblk b hb).fits
    have : f.mesh.n.getD b 0 = f.mesh.nAt b := rfl
    rw [this]
    omega
  exact mkFld_ok _ _ _ _ (hshape f.data.shape hds) (hshape f.valid.shape hvs) hmeta

theorem getName_ok (m : Mesh) (hm : m.Inv) (name : String) (s : Region) (hfind : findSub m.subs name = some s)
    (k1 k2 : Nat → Nat) (hal : SubAligned m s k1 k2) :
    ∃ g, getName m name = .ok g ∧ g.n = tab m.ndim fun a => k2 a - k1 a := by
  unfold getName
  rw [hfind]
  simp only
  obtain ⟨s1, s2, s3⟩ := hal
  refine ⟨_, mkCell_ok_nobc s (tab m.ndim fun a => k2 a - k1 a) m.cell (by rw [cell_length, s1])
    (by rw [tab_length, s1]) (by
      intro a ha
      rw [s1] at ha
      obtain ⟨t1, t2, t3, t4⟩ := s3 a ha
      have hc := inv_cell_pos hm ha
      have h12 : (k1 a : Rat) < (k2 a : Rat) := by exact_mod_cast t1
      rw [getD_tab _ _ _ _ ha]
      refine ⟨by omega, by rw [t3, t4]; nlinarith, ?_⟩
      rw [cell_getD m _ ha]
      unfold Region.edge
      rw [t3, t4]
      have hcast : ((k2 a - k1 a : Nat) : Rat) = (k2 a : Rat) - (k1 a : Rat) := by
        push_cast [Nat.cast_sub t1.le]; ring
      rw [hcast]
      have hne : (k2 a : Rat) - (k1 a : Rat) ≠ 0 := by intro hcon; linarith
      field_simp; ring), rfl⟩

end DFV.C07
