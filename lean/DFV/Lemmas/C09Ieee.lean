import DFV.Lemmas.C09Order
/-! The driver's IEEE-754 codec on rationals (C09): the byte layer loses nothing; the only bit
pattern that decodes to a check value is the check value's own. -/
namespace DFV.C09
open DFV

theorem leBytes_length (w n : Nat) : (leBytes w n).length = w := by simp [leBytes, tab]

theorem ieee_enc_len (le : Bool) (w : Nat) (x : Rat) : (ieee.enc le w x).length = w := by
  cases le <;> simp [ieee, leBytes_length]

theorem leBytes_succ (w n : Nat) : leBytes (w + 1) n = n % 256 :: leBytes w (n / 256) := by
  unfold leBytes
  rw [tab_succ]
  congr 1
  · simp
  · unfold tab
    apply List.map_congr_left
    intro i _
    rw [Nat.pow_succ, Nat.mul_comm, Nat.div_div_eq_div_mul]

/-- little-endian bytes and back: nothing is lost below `256^w` -/
theorem ofLE_leBytes (w n : Nat) : ofLE (leBytes w n) = n % 256 ^ w := by
  induction w generalizing n with
  | zero => simp [leBytes, tab, ofLE, Nat.mod_one]
  | succ w ih =>
    rw [leBytes_succ, ofLE, ih, Nat.pow_succ, Nat.mul_comm (256 ^ w) 256, Nat.mod_mul]

theorem bitsAbs_le (F : Fmt) (a : Rat) : bitsAbs F a ≤ F.infBits := by
  unfold bitsAbs; split <;> exact Nat.min_le_left _ _

theorem infBits_lt (F : Fmt) (_he : 0 < F.ebits) : F.infBits < F.signBit := by
  unfold Fmt.infBits Fmt.signBit
  rw [Nat.pow_add]
  have : 0 < 2 ^ F.ebits := Nat.pow_pos (by omega)
  have h2 : 0 < 2 ^ F.mbits := Nat.pow_pos (by omega)
  exact Nat.mul_lt_mul_of_pos_right (by omega) h2

theorem toBits_lt (F : Fmt) (he : 0 < F.ebits) (x : Rat) : toBits F x < 2 * F.signBit := by
  have h1 := infBits_lt F he
  unfold toBits
  split
  · omega
  · split
    · have := bitsAbs_le F (-x); omega
    · have := bitsAbs_le F x; omega

/-- **the byte layer of the IEEE codec loses nothing**: splitting a 32- or 64-bit pattern into
bytes (little or big endian) and reassembling it gives the pattern back; so what comes back from
`dec (enc x)` is `x` rounded to the format, whatever the endianness -/
theorem ieee_dec_enc (le : Bool) (w : Nat) (hw : w = 4 ∨ w = 8) (x : Rat) :
    ieee.dec le w (ieee.enc le w x) = fromBits (fmtOf w) (toBits (fmtOf w) x) := by
  have hb : toBits (fmtOf w) x < 256 ^ w := by
    rcases hw with rfl | rfl
    · have := toBits_lt f32 (by decide) x
      have e : 2 * f32.signBit = 256 ^ 4 := by decide
      simp only [fmtOf, if_true]; omega
    · have := toBits_lt f64 (by decide) x
      have e : 2 * f64.signBit = 256 ^ 8 := by decide
      simp only [fmtOf, show ¬ (8 = 4) by omega, if_false]; omega
  cases le
  · simp only [ieee, Bool.false_eq_true, if_false, List.reverse_reverse]
    rw [ofLE_leBytes, Nat.mod_eq_of_lt hb]
  · simp only [ieee, if_true]
    rw [ofLE_leBytes, Nat.mod_eq_of_lt hb]

/-- bin4: `dec (enc x)` is the float32 rounding of `x` -/
theorem ieee_dec_enc4 (le : Bool) (x : Rat) : ieee.dec le 4 (ieee.enc le 4 x) = narrow32 x :=
  ieee_dec_enc le 4 (Or.inl rfl) x


theorem pow2_nonneg_eq (e : Int) (h : 0 ≤ e) : pow2 e = (2 : Rat) ^ e.toNat := by
  unfold pow2; rw [if_pos h]

theorem pow2_neg_eq (e : Int) (h : e < 0) : pow2 e = 1 / (2 : Rat) ^ (-e).toNat := by
  unfold pow2; rw [if_neg (by omega)]

theorem pow2_pos (e : Int) : 0 < pow2 e := by
  unfold pow2
  split
  · positivity
  · positivity

theorem pow2_succ (e : Int) : pow2 (e + 1) = 2 * pow2 e := by
  by_cases h : 0 ≤ e
  · rw [pow2_nonneg_eq e h, pow2_nonneg_eq (e + 1) (by omega)]
    have : (e + 1).toNat = e.toNat + 1 := by omega
    rw [this, pow_succ]; ring
  · by_cases h1 : e = -1
    · subst h1
      rw [pow2_neg_eq (-1) (by omega), pow2_nonneg_eq (-1 + 1) (by omega)]
      norm_num
    · rw [pow2_neg_eq e (by omega), pow2_neg_eq (e + 1) (by omega)]
      have : (-e).toNat = (-(e + 1)).toNat + 1 := by omega
      rw [this, pow_succ]
      field_simp

theorem pow2_add_nat (e : Int) (k : Nat) : pow2 (e + k) = (2 : Rat) ^ k * pow2 e := by
  induction k with
  | zero => simp
  | succ k ih =>
    have : e + ((k + 1 : Nat) : Int) = (e + k) + 1 := by push_cast; ring
    rw [this, pow2_succ, ih, pow_succ]; ring

theorem pow2_le (e e' : Int) (h : e ≤ e') : pow2 e ≤ pow2 e' := by
  obtain ⟨k, rfl⟩ : ∃ k : Nat, e' = e + k := ⟨(e' - e).toNat, by omega⟩
  rw [pow2_add_nat]
  have h1 : (1 : Rat) ≤ 2 ^ k := one_le_pow₀ (by norm_num)
  have := pow2_pos e
  nlinarith

theorem pow2_natCast (n : Nat) : pow2 (n : Int) = (2 : Rat) ^ n := by
  rw [pow2_nonneg_eq _ (by omega)]; simp


/-- the only bit patterns whose value is a given normal number `M ∈ [2^p, 2^(p+1))`: positive
sign, exponent field `bias + p`, mantissa determined by `M` -/
theorem fromBits_eq_normal (F : Fmt) (p : Nat) (M : Rat) (hM1 : (2 : Rat) ^ p ≤ M) (hM2 : M < 2 ^ (p + 1))
    (hbias : (p : Int) + 1 ≤ F.bias) (b : Nat) (h : fromBits F b = M) :
    b / F.signBit % 2 ≠ 1 ∧ ((b / 2 ^ F.mbits % 2 ^ F.ebits : Nat) : Int) = F.bias + p ∧
      ((2 ^ F.mbits + b % 2 ^ F.mbits : Nat) : Rat) * pow2 ((p : Int) - F.mbits) = M := by
  obtain ⟨E, hE⟩ : ∃ E, E = b / 2 ^ F.mbits % 2 ^ F.ebits := ⟨_, rfl⟩
  rw [← hE]
  have hMpos : 0 < M := lt_of_lt_of_le (by positivity) hM1
  have hmant : ((b % 2 ^ F.mbits : Nat) : Rat) < 2 ^ F.mbits := by
    have : b % 2 ^ F.mbits < 2 ^ F.mbits := Nat.mod_lt _ (Nat.pow_pos (by omega))
    exact_mod_cast this
  have hmant0 : (0 : Rat) ≤ ((b % 2 ^ F.mbits : Nat) : Rat) := by positivity
  -- magnitude part
  have key : ∀ mag : Rat,
      mag = (if E = 2 ^ F.ebits - 1 then
          (if b % 2 ^ F.mbits = 0 then pow2 (F.bias + 1) else pow2 (F.bias + 2))
        else if E = 0 then
          ((b % 2 ^ F.mbits : Nat) : Rat) * pow2 (F.emin - F.mbits)
        else ((2 ^ F.mbits + b % 2 ^ F.mbits : Nat) : Rat)
          * pow2 ((E : Nat) - F.bias - F.mbits)) →
      0 ≤ mag ∧ (mag = M →
        ((E : Nat) : Int) = F.bias + p ∧
        ((2 ^ F.mbits + b % 2 ^ F.mbits : Nat) : Rat) * pow2 ((p : Int) - F.mbits) = M) := by
    intro mag hmag
    split at hmag
    · -- infinity / NaN
      have hbig : pow2 ((p : Int) + 2) ≤ mag := by
        rw [hmag]; split
        · exact pow2_le _ _ (by omega)
        · exact pow2_le _ _ (by omega)
      have e : pow2 ((p : Int) + 2) = 2 ^ (p + 2) := by
        have : (p : Int) + 2 = ((p + 2 : Nat) : Int) := by push_cast; ring
        rw [this, pow2_natCast]
      refine ⟨le_trans (le_of_lt (pow2_pos _)) hbig, fun hm => ?_⟩
      exfalso
      rw [e] at hbig
      have : (2 : Rat) ^ (p + 1) ≤ 2 ^ (p + 2) := pow_le_pow_right₀ (by norm_num) (by omega)
      linarith
    · split at hmag
      · -- subnormal
        have hp2 := pow2_pos (F.emin - F.mbits)
        have hlt : mag < pow2 F.emin := by
          have e : pow2 F.emin = 2 ^ F.mbits * pow2 (F.emin - F.mbits) := by
            rw [← pow2_add_nat]; congr 1; ring
          rw [hmag, e]
          exact mul_lt_mul_of_pos_right hmant hp2
        refine ⟨by rw [hmag]; positivity, fun hm => ?_⟩
        exfalso
        have h1 : pow2 F.emin ≤ pow2 0 := pow2_le _ _ (by unfold Fmt.emin; omega)
        have h2 : pow2 0 = 1 := by norm_num [pow2]
        have h3 : (1 : Rat) ≤ 2 ^ p := one_le_pow₀ (by norm_num)
        linarith
      · -- normal
        have hlo : pow2 (((E : Nat) : Int) - F.bias) ≤ mag := by
          have e : pow2 (((E : Nat) : Int) - F.bias)
              = 2 ^ F.mbits * pow2 (((E : Nat) : Int) - F.bias - F.mbits) := by
            rw [← pow2_add_nat]; congr 1; ring
          rw [hmag, e]
          apply mul_le_mul_of_nonneg_right _ (le_of_lt (pow2_pos _))
          push_cast; linarith
        have hhi : mag < pow2 (((E : Nat) : Int) - F.bias + 1) := by
          have e : pow2 (((E : Nat) : Int) - F.bias + 1)
              = 2 ^ (F.mbits + 1) * pow2 (((E : Nat) : Int) - F.bias - F.mbits) := by
            rw [← pow2_add_nat]; congr 1; push_cast; ring
          rw [hmag, e]
          apply mul_lt_mul_of_pos_right _ (pow2_pos _)
          push_cast; rw [pow_succ]; linarith
        refine ⟨le_trans (le_of_lt (pow2_pos _)) hlo, fun hm => ?_⟩
        have hd : ((E : Nat) : Int) - F.bias = p := by
          by_contra hne
          rcases lt_or_gt_of_ne hne with hlt | hgt
          · have : pow2 (((E : Nat) : Int) - F.bias + 1) ≤ pow2 (p : Int) :=
              pow2_le _ _ (by omega)
            rw [pow2_natCast] at this
            linarith
          · have : pow2 (((p + 1 : Nat) : Int)) ≤ pow2 (((E : Nat) : Int) - F.bias) :=
              pow2_le _ _ (by push_cast; omega)
            rw [pow2_natCast] at this
            linarith
        refine ⟨by omega, ?_⟩
        rw [← hm, hmag]
        congr 2
        omega
  unfold fromBits at h
  rw [← hE] at h
  by_cases hs : b / F.signBit % 2 = 1
  · exfalso
    rw [if_pos hs] at h
    obtain ⟨h0, _⟩ := key _ rfl
    linarith
  · rw [if_neg hs, one_mul] at h
    exact ⟨hs, (key _ rfl).2 h⟩


theorem magic8_unique (b : Nat) (hb : b < 2 ^ 64) (h : fromBits f64 b = 123456789012345) :
    b = 0x42DC12218377DE40 := by
  obtain ⟨h1, h2, h3⟩ := fromBits_eq_normal f64 46 123456789012345 (by norm_num) (by norm_num)
    (by decide) b h
  have hp : pow2 ((46 : Nat) - (f64.mbits : Int)) = 1 / 64 := by
    have : ((46 : Nat) : Int) - (f64.mbits : Int) = -6 := by decide
    rw [this, pow2_neg_eq _ (by omega)]
    have : (-(-6 : Int)).toNat = 6 := by decide
    rw [this]; norm_num
  rw [hp] at h3
  have h3' : ((2 ^ f64.mbits + b % 2 ^ f64.mbits : Nat) : Rat) = ((7901234496790080 : Nat) : Rat) := by
    push_cast at h3 ⊢; linarith
  have h3'' : 2 ^ f64.mbits + b % 2 ^ f64.mbits = 7901234496790080 := by exact_mod_cast h3'
  have hb2 : f64.bias = 1023 := by decide
  rw [hb2] at h2
  simp only [f64, Fmt.signBit] at h1 h2 h3''
  omega

theorem magic4_unique (b : Nat) (hb : b < 2 ^ 32) (h : fromBits f32 b = 1234567) : b = 0x4996B438 := by
  obtain ⟨h1, h2, h3⟩ := fromBits_eq_normal f32 20 1234567 (by norm_num) (by norm_num) (by decide) b h
  have hp : pow2 ((20 : Nat) - (f32.mbits : Int)) = 1 / 8 := by
    have : ((20 : Nat) : Int) - (f32.mbits : Int) = -3 := by decide
    rw [this, pow2_neg_eq _ (by omega)]
    have : (-(-3 : Int)).toNat = 3 := by decide
    rw [this]; norm_num
  rw [hp] at h3
  have h3' : ((2 ^ f32.mbits + b % 2 ^ f32.mbits : Nat) : Rat) = ((9876536 : Nat) : Rat) := by
    push_cast at h3 ⊢; linarith
  have h3'' : 2 ^ f32.mbits + b % 2 ^ f32.mbits = 9876536 := by exact_mod_cast h3'
  have hb2 : f32.bias = 127 := by decide
  rw [hb2] at h2
  simp only [f32, Fmt.signBit] at h1 h2 h3''
  omega


theorem ofLE_lt (bs : List Nat) (h : ∀ x ∈ bs, x < 256) : ofLE bs < 256 ^ bs.length := by
  induction bs with
  | nil => simp [ofLE]
  | cons x bs ih =>
    have hx := h x (by simp)
    have := ih (fun y hy => h y (by simp [hy]))
    simp only [ofLE, List.length_cons, Nat.pow_succ]
    omega

theorem leBytes_ofLE (bs : List Nat) (h : ∀ x ∈ bs, x < 256) : leBytes bs.length (ofLE bs) = bs := by
  induction bs with
  | nil => rfl
  | cons x bs ih =>
    have hx := h x (by simp)
    rw [List.length_cons, leBytes_succ, ofLE]
    have e1 : (x + 256 * ofLE bs) % 256 = x := by omega
    have e2 : (x + 256 * ofLE bs) / 256 = ofLE bs := by omega
    rw [e1, e2, ih (fun y hy => h y (by simp [hy]))]

end DFV.C09
