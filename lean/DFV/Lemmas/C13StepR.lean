import DFV.Lemmas.Rot
/-! Inversion lemmas for the region steps of `Model/Transform.lean`: what an accepted
`translateR` / `scaleR` / `rotate90R` returned, in either form; the quarter turn as an
axis-wise affine map.  Shared by the object-level theorems of C12, C13 and C14. -/
namespace DFV.T
open DFV

/-- what the constructor path returns, in the `target` form -/
theorem viaCtor_inv (r r' : Region) (lo' hi' : Nat → Rat) (units : List String)
    (h : viaCtor r (tab r.ndim lo') (tab r.ndim hi') units = .ok r') :
    r' = target r lo' hi' units ∧ ∀ a, a < r.ndim → lo' a ≠ hi' a := by
  unfold viaCtor at h
  obtain ⟨_, _, _, _, _, hne, hr'⟩ := mk?_ok_inv _ _ _ _ _ _ h
  constructor
  · rw [hr']
    unfold normalised target
    simp only [tab_length]
    congr 1
    · apply tab_congr; intro a ha; rw [getD_tab _ _ _ _ ha, getD_tab _ _ _ _ ha]
    · apply tab_congr; intro a ha; rw [getD_tab _ _ _ _ ha, getD_tab _ _ _ _ ha]
  · intro a ha
    have := hne a (by simpa using ha)
    rwa [getD_tab _ _ _ _ ha, getD_tab _ _ _ _ ha] at this

theorem translateR_inv (r : Region) (hr : r.Inv) (v : List Rat) (b : Bool) (recv ret : Region)
    (h : translateR r v b = .ok (recv, ret)) :
    v.length = r.ndim ∧
    ret = target r (fun a => r.lo a + v.getD a 0) (fun a => r.hi a + v.getD a 0) r.units ∧
    recv = if b then ret else r := by
  by_cases hv : v.length = r.ndim
  · obtain ⟨h1, h2⟩ := translate_forms r hr v hv
    cases b
    · rw [h2] at h; injection h with h; injection h with ha hb
      exact ⟨hv, hb.symm, by simp [ha]⟩
    · rw [h1] at h; injection h with h; injection h with ha hb
      exact ⟨hv, hb.symm, by simp [← ha, ← hb]⟩
  · rw [translate_reject r v hv b] at h; cases h

theorem scaleR_inv (r : Region) (f : Factor) (ref : Option (List Rat)) (b : Bool) (recv ret : Region)
    (h : scaleR r f ref b = .ok (recv, ret)) :
    f.okFor r.ndim = true ∧ (ref.getD r.center).length = r.ndim ∧
    (∀ a, a < r.ndim → scaleLo r f (ref.getD r.center) a ≠ scaleHi r f (ref.getD r.center) a) ∧
    ret = target r (scaleLo r f (ref.getD r.center)) (scaleHi r f (ref.getD r.center)) r.units ∧
    recv = if b then ret else r := by
  unfold scaleR at h
  split at h
  · cases h
  · rename_i hf
    split at h
    · cases h
    · rename_i href
      have hf' : f.okFor r.ndim = true := by simpa using hf
      have href' : (ref.getD r.center).length = r.ndim := not_not.mp href
      cases b
      · simp only [Bool.false_eq_true, if_false] at h
        split at h
        · cases h
        · rename_i r' hr'
          injection h with h; injection h with ha hb
          obtain ⟨e, hne⟩ := viaCtor_inv r r' _ _ _ hr'
          exact ⟨hf', href', hne, by rw [← hb, e], by simp [ha]⟩
      · simp only [if_true] at h
        split at h
        · cases h
        · rename_i hall
          injection h with h; injection h with ha hb
          have hall' := (allLt_iff _ _).mp (by simpa using hall)
          refine ⟨hf', href', ?_, hb.symm, by simp [← ha, ← hb]⟩
          intro a ha heq
          have := hall' a ha
          have h0 : scaleHi r f (ref.getD r.center) a - scaleLo r f (ref.getD r.center) a = 0 := by rw [heq]; ring
          simp [h0] at this

theorem indexOf_go_get (d : String) (xs : List String) (off k : Nat) (h : indexOf?.go d xs off = some k) :
    off ≤ k ∧ xs.getD (k - off) "" = d ∧ k - off < xs.length := by
  induction xs generalizing off with
  | nil => simp [indexOf?.go] at h
  | cons y ys ih =>
    simp only [indexOf?.go] at h
    split at h
    · rename_i hy
      injection h with h; subst h
      simp [hy]
    · obtain ⟨h1, h2, h3⟩ := ih (off + 1) h
      have : k - off = (k - (off + 1)) + 1 := by omega
      refine ⟨by omega, ?_, ?_⟩
      · rw [this, List.getD_cons_succ]; exact h2
      · rw [this]; simp only [List.length_cons]; omega

/-- different names have different positions -/
theorem dim2index_inj (r : Region) (d1 d2 : String) (i : Nat) (h1 : r.dim2index d1 = .ok i) (h2 : r.dim2index d2 = .ok i) :
    d1 = d2 := by
  unfold Region.dim2index at h1 h2
  split at h1
  · rename_i k1 hk1
    split at h2
    · rename_i k2 hk2
      injection h1 with h1; injection h2 with h2
      subst h1; subst h2
      obtain ⟨_, e1, _⟩ := indexOf_go_get d1 r.dims 0 _ hk1
      obtain ⟨_, e2, _⟩ := indexOf_go_get d2 r.dims 0 _ hk2
      rw [← e1, ← e2]
    · cases h2
  · cases h1

theorem rotate90R_inv (r : Region) (ax1 ax2 : String) (k : Int) (ref : Option (List Rat)) (b : Bool)
    (recv ret : Region) (h : rotate90R r ax1 ax2 k ref b = .ok (recv, ret)) :
    ax1 ≠ ax2 ∧ (ref.getD r.center).length = r.ndim ∧
    ∃ i1 i2, r.dim2index ax1 = .ok i1 ∧ r.dim2index ax2 = .ok i2 ∧ i1 ≠ i2 ∧
      i1 < r.dims.length ∧ i2 < r.dims.length ∧
      (∀ a, a < r.ndim → rotCoord r.pmin (ref.getD r.center) i1 i2 k a ≠ rotCoord r.pmax (ref.getD r.center) i1 i2 k a) ∧
      ret = target r (rotCoord r.pmin (ref.getD r.center) i1 i2 k) (rotCoord r.pmax (ref.getD r.center) i1 i2 k)
              (rotUnits r.units i1 i2 k) ∧
      recv = if b then ret else r := by
  unfold rotate90R at h
  split at h
  · cases h
  · rename_i hax
    split at h
    · cases h
    · rename_i href
      split at h
      · cases h
      · cases h
      · rename_i i1 i2 h1 h2
        refine ⟨hax, not_not.mp href, i1, i2, h1, h2, ?_, dim2index_lt _ _ _ h1, dim2index_lt _ _ _ h2, ?_⟩
        · intro e; subst e; exact hax (dim2index_inj r _ _ _ h1 h2)
        · cases b
          · simp only [Bool.false_eq_true, if_false] at h
            split at h
            · cases h
            · rename_i r' hr'
              injection h with h; injection h with ha hb
              obtain ⟨e, hne⟩ := viaCtor_inv r r' _ _ _ hr'
              exact ⟨hne, by rw [← hb, e], by simp [ha]⟩
          · simp only [if_true] at h
            split at h
            · cases h
            · rename_i hall
              injection h with h; injection h with ha hb
              have hall' := (allLt_iff _ _).mp (by simpa using hall)
              refine ⟨?_, hb.symm, by simp [← ha, ← hb]⟩
              intro a ha heq
              have := hall' a ha
              have h0 : rotCoord r.pmax (ref.getD r.center) i1 i2 k a - rotCoord r.pmin (ref.getD r.center) i1 i2 k a = 0 := by
                rw [heq]; ring
              simp [h0] at this

/-! ## the quarter turn as an axis-wise affine map -/

/-- the axis whose coordinate ends up on axis `a` -/
def rotSrc (i1 i2 : Nat) (k : Int) (a : Nat) : Nat :=
  if isOdd k then (if a = i1 then i2 else if a = i2 then i1 else a) else a
/-- the sign with which it arrives -/
def rotSign (i1 i2 : Nat) (k : Int) (a : Nat) : Rat :=
  if a = i1 then cosq k - sinq k else if a = i2 then cosq k + sinq k else 1
/-- the offset -/
def rotOff (ref : List Rat) (i1 i2 : Nat) (k : Int) (a : Nat) : Rat :=
  if a = i1 then ref.getD i1 0 - cosq k * ref.getD i1 0 + sinq k * ref.getD i2 0
  else if a = i2 then ref.getD i2 0 - sinq k * ref.getD i1 0 - cosq k * ref.getD i2 0 else 0

theorem isOdd_iff (k : Int) : isOdd k = true ↔ (k % 4 = 1 ∨ k % 4 = 3) := by
  unfold isOdd; simp; omega

/-- Each coordinate of a quarter-turned point is `offset + sign · (one coordinate of the source)`:
the rotation permutes the two axes for odd `k` and reflects according to the exact matrix. -/
theorem rotCoord_affine (p ref : List Rat) (i1 i2 : Nat) (k : Int) (h12 : i1 ≠ i2) (a : Nat) :
    rotCoord p ref i1 i2 k a = rotOff ref i1 i2 k a + rotSign i1 i2 k a * p.getD (rotSrc i1 i2 k a) 0 := by
  unfold rotCoord rotOff rotSign rotSrc isOdd
  have hk : k % 4 = 0 ∨ k % 4 = 1 ∨ k % 4 = 2 ∨ k % 4 = 3 := by omega
  by_cases e1 : a = i1
  · subst e1
    rcases hk with hk | hk | hk | hk
    · have : ¬ (k % 2 = 1) := by omega
      simp [cosq, sinq, hk, this]
    · have : k % 2 = 1 := by omega
      simp [cosq, sinq, hk, this]; ring
    · have : ¬ (k % 2 = 1) := by omega
      simp [cosq, sinq, hk, this]; ring
    · have : k % 2 = 1 := by omega
      simp [cosq, sinq, hk, this]; ring
  · by_cases e2 : a = i2
    · subst e2
      rcases hk with hk | hk | hk | hk
      · have : ¬ (k % 2 = 1) := by omega
        simp [cosq, sinq, hk, this, e1]
      · have : k % 2 = 1 := by omega
        simp [cosq, sinq, hk, this, e1]; ring
      · have : ¬ (k % 2 = 1) := by omega
        simp [cosq, sinq, hk, this, e1]; ring
      · have : k % 2 = 1 := by omega
        simp [cosq, sinq, hk, this, e1]; ring
    · simp [e1, e2]

theorem rotSign_ne_zero (i1 i2 : Nat) (k : Int) (a : Nat) : rotSign i1 i2 k a ≠ 0 := by
  unfold rotSign
  rcases quarter_cases' k with ⟨hc, hs⟩ | ⟨hc, hs⟩ | ⟨hc, hs⟩ | ⟨hc, hs⟩ <;> rw [hc, hs] <;>
    (split
     · norm_num
     · split <;> norm_num)

theorem rotSrc_lt (i1 i2 : Nat) (k : Int) (a n : Nat) (h1 : i1 < n) (h2 : i2 < n) (ha : a < n) : rotSrc i1 i2 k a < n := by
  unfold rotSrc
  split
  · split
    · exact h2
    · split
      · exact h1
      · exact ha
  · exact ha

/-- the counts follow the same permutation of axes -/
theorem rotN_getD (n : List Nat) (i1 i2 : Nat) (k : Int) (h12 : i1 ≠ i2) (h1 : i1 < n.length) (h2 : i2 < n.length) (a : Nat) :
    (rotN n i1 i2 k).getD a 0 = n.getD (rotSrc i1 i2 k a) 0 := by
  unfold rotN rotSrc
  have dflt : (default : Nat) = 0 := rfl
  split
  · by_cases e1 : a = i1
    · subst e1; simp only [if_true]; rw [getD_swapAt_left _ _ _ _ h12 h1, dflt]
    · by_cases e2 : a = i2
      · subst e2; rw [if_neg e1, if_pos rfl, getD_swapAt_right _ _ _ _ h2, dflt]
      · rw [if_neg e1, if_neg e2, getD_swapAt_other _ _ _ _ _ e1 e2]
  · rfl

end DFV.T
