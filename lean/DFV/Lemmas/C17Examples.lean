import DFV.Lemmas.C17Rebuild
/-! Concrete instances for the non-vacuity `example`s of `Props/C17.lean`. -/
namespace DFV.C17
open DFV

/-- 3-d mesh with negative offset, a single-cell axis, `n = (3,1,2)`, renamed units, custom
tolerance; two labelled components (no default component mapping), distinct values -/
def exF : XFld Nat :=
  { mesh := { region := { pmin := [-1, 0, 1/2], pmax := [2, 1/2, 1], dims := ["x", "y", "z"],
                          units := ["nm", "nm", "m"], tol := 1/1000000000 },
              n := [3, 1, 2], bc := "xy", subs := [] },
    nvdim := 2, data := ⟨[3, 1, 2, 2], fun i => flatC [3, 1, 2, 2] i⟩, valid := NDA.const [3, 1, 2] true,
    vdims := some ["a", "b"], vmap := [], unit := some "A/m", dtype := "float32" }

theorem exF_wf : exF.WF :=
  { mesh := by unfold Mesh.Inv Region.Inv; decide +kernel, nvdim := by decide, shape := rfl, novd := by decide,
    labels := by intro l h; cases h; decide }

/-- 2-d scalar field, at least two cells per axis -/
def exS : XFld Nat :=
  { mesh := { region := { pmin := [-3/2, 10], pmax := [0, 11], dims := ["u", "t"], units := ["m", "s"],
                          tol := defaultTol },
              n := [3, 2], bc := "", subs := [] },
    nvdim := 1, data := ⟨[3, 2, 1], fun i => flatC [3, 2, 1] i⟩, valid := NDA.const [3, 2] true,
    vdims := none, vmap := [], unit := none, dtype := "float64" }

theorem exS_wf : exS.WF :=
  { mesh := by unfold Mesh.Inv Region.Inv; decide +kernel, nvdim := by decide, shape := rfl, novd := by decide,
    labels := by intro l h; cases h }

/-- hand-built 1-d DataArray at the nanometre scale with coordinates 0, 1e-9, 5e-9 (spacings
1 nm and 4 nm) and no geometric attributes -/
def exNm : XA Nat :=
  { name := "nm", axes := [{ name := "x", size := 3, coord := some { vals := [0, 1/1000000000, 5/1000000000], units := none } }],
    vdimsCoord := none, data := ⟨[3], fun i => i.getD 0 0⟩,
    attrs := { units := none, cell := none, pmin := none, pmax := none, nvdim := some (.int 1), tol := none },
    dtype := "float64" }

/-- the same coordinates in metres -/
def exM : XA Nat :=
  { exNm with axes := [{ name := "x", size := 3, coord := some { vals := [0, 1, 5], units := none } }] }

/-- hand-built 2-component DataArray: `x = 0,1,2` without coordinate (xarray's default index),
`t = 10, 10.5`, component axis last, no labels, no geometric attributes -/
def exHand : XA Nat :=
  { name := "hand",
    axes := [{ name := "x", size := 3, coord := none },
             { name := "t", size := 2, coord := some { vals := [10, 21/2], units := some "s" } },
             { name := "vdims", size := 2, coord := none }],
    vdimsCoord := none, data := ⟨[3, 2, 2], fun i => flatC [3, 2, 2] i⟩,
    attrs := { units := none, cell := none, pmin := none, pmax := none, nvdim := some (.int 2), tol := none },
    dtype := "int64" }

end DFV.C17
