import DFV.Lemmas.C17Rebuild
/-! Concrete instances for the non-vacuity `example`s of `Props/C17.lean`. -/
namespace DFV.C17
open DFV

/-- a sample set of attribute names of `Field` for the non-vacuity examples (the theorems hold
for every set; the correspondence run uses the answers of the real class) -/
@[reducible] def exAttrs : FieldAttrs :=
  ⟨fun c => ["mesh", "array", "norm", "unit", "mean", "to_xarray", "__class__"].contains c⟩

attribute [local instance] exAttrs

theorem v_ne (s t : String) (h : t.toList.head? ≠ some 'v') : ("v" ++ s == t) = false := by
  rw [beq_eq_false_iff_ne]
  intro he
  apply h
  rw [← he]
  simp [String.toList_append]

/-- the sample attribute set meets the hypothesis `hdef` of `import_wf`: none of the default
labels `x, y, z, v0, v1, …` is in it -/
theorem exAttrs_defaults : ∀ k l, Fld.defaultVdims k = some l → l.any FieldAttrs.has = false := by
  intro k l h
  unfold Fld.defaultVdims at h
  split at h
  · cases h
  · split at h
    · injection h with h
      subst h
      have : k = 0 ∨ k = 1 ∨ k = 2 ∨ k = 3 := by omega
      rcases this with rfl | rfl | rfl | rfl <;> decide
    · injection h with h
      subst h
      rw [List.any_eq_false]
      intro x hx
      obtain ⟨i, -, rfl⟩ := List.mem_map.mp hx
      show (["mesh", "array", "norm", "unit", "mean", "to_xarray", "__class__"].contains ("v" ++ toString i)) ≠ true
      simp only [List.contains_cons, List.contains_nil, v_ne _ "mesh" (by decide), v_ne _ "array" (by decide),
        v_ne _ "norm" (by decide), v_ne _ "unit" (by decide), v_ne _ "mean" (by decide), v_ne _ "to_xarray" (by decide),
        v_ne _ "__class__" (by decide), Bool.false_or, Bool.or_false]
      exact Bool.false_ne_true

/-- 3-d mesh with negative offset, a single-cell axis, `n = (3,1,2)`, renamed units, custom
tolerance; two labelled components (no default component mapping), distinct values -/
def exF : XFld Nat :=
  { mesh := { region := { pmin := [-1, 0, 1/2], pmax := [2, 1/2, 1], dims := ["x", "y", "z"],
                          units := ["nm", "nm", "m"], tol := 1/1000000000 },
              n := [3, 1, 2], bc := "xy", subs := [] },
    nvdim := 2, data := ⟨[3, 1, 2, 2], fun i => flatC [3, 1, 2, 2] i⟩, valid := NDA.const [3, 1, 2] true,
    vdims := some ["a", "b"], vmap := [], unit := some "A/m", dtype := "float32" }

theorem exF_wf : exF.WF :=
  { mesh := by unfold Mesh.Inv Region.Inv; decide +kernel, nvdim := by decide, shape := rfl, novd := by decide,
    labels := by intro l h; cases h; decide }

/-- 2-d scalar field, at least two cells per axis -/
def exS : XFld Nat :=
  { mesh := { region := { pmin := [-3/2, 10], pmax := [0, 11], dims := ["u", "t"], units := ["m", "s"],
                          tol := defaultTol },
              n := [3, 2], bc := "", subs := [] },
    nvdim := 1, data := ⟨[3, 2, 1], fun i => flatC [3, 2, 1] i⟩, valid := NDA.const [3, 2] true,
    vdims := none, vmap := [], unit := none, dtype := "float64" }

theorem exS_wf : exS.WF :=
  { mesh := by unfold Mesh.Inv Region.Inv; decide +kernel, nvdim := by decide, shape := rfl, novd := by decide,
    labels := by intro l h; cases h }

/-- hand-built 1-d DataArray at the nanometre scale with coordinates 0, 1e-9, 5e-9 (spacings
1 nm and 4 nm) and no geometric attributes -/
def exNm : XA Nat :=
  { name := "nm", axes := [{ name := "x", size := 3, coord := some { vals := [0, 1/1000000000, 5/1000000000], units := none } }],
    vdimsCoord := none, data := ⟨[3], fun i => i.getD 0 0⟩,
    attrs := { units := none, cell := none, pmin := none, pmax := none, nvdim := some (.int 1), tol := none },
    dtype := "float64" }

/-- the same coordinates in metres -/
def exM : XA Nat :=
  { exNm with axes := [{ name := "x", size := 3, coord := some { vals := [0, 1, 5], units := none } }] }

/-- hand-built 2-component DataArray: `x = 0,1,2` without coordinate (xarray's default index),
`t = 10, 10.5`, component axis last, no labels, no geometric attributes -/
def exHand : XA Nat :=
  { name := "hand",
    axes := [{ name := "x", size := 3, coord := none },
             { name := "t", size := 2, coord := some { vals := [10, 21/2], units := some "s" } },
             { name := "vdims", size := 2, coord := none }],
    vdimsCoord := none, data := ⟨[3, 2, 2], fun i => flatC [3, 2, 2] i⟩,
    attrs := { units := none, cell := none, pmin := none, pmax := none, nvdim := some (.int 2), tol := none },
    dtype := "int64" }

/-- single-cell axis with the `cell` attribute: x has the one coordinate 3, cell 2 -/
def exOne : XA Nat :=
  { name := "one", axes := [{ name := "x", size := 1, coord := some { vals := [3], units := none } },
                            { name := "t", size := 2, coord := some { vals := [10, 21/2], units := none } }],
    vdimsCoord := none, data := ⟨[1, 2], fun i => flatC [1, 2] i⟩,
    attrs := { units := none, cell := some [2, 1/2], pmin := none, pmax := some [4, 43/4], nvdim := some (.int 1), tol := none },
    dtype := "float64" }

/-- history on `exS` (no subregions): translate, scale by (-2, 1/2) about the centre, a rejected call -/
def exOps : List MeshOp := [.translate [1, 2], .scale (.vec [-2, 1/2]) none, .translate [1], .scale (.scalar 0) none]

/-- `exHand` with a label coordinate one of whose entries is the name of an attribute -/
def exReserved : XA Nat := { exHand with vdimsCoord := some ["mesh", "b"] }

/-- evenly spaced DESCENDING coordinates 3, 2, 1 with complete attributes -/
def exDesc : XA Nat :=
  { name := "desc", axes := [{ name := "x", size := 3, coord := some { vals := [3, 2, 1], units := none } }],
    vdimsCoord := none, data := ⟨[3], fun i => 10 * i.getD 0 0⟩,
    attrs := { units := none, cell := some [1], pmin := some [1/2], pmax := some [7/2], nvdim := some (.int 1), tol := none },
    dtype := "float64" }

end DFV.C17
