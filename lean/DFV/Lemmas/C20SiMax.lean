import DFV.Lemmas.C20Accept
/-!
C20 helper lemmas, thirteenth part: the default multiplier `si_max_multiplier(region.edges)` as a
DECISION over every region size — monotonicity of the powers of 1000, the magnitude range in
which `si_multiplier` answers, uniqueness of the decade of the longest edge.
-/
namespace DFV.C20
open DFV

theorem p1000_le (j k : Int) (h : j ≤ k) : p1000 j ≤ p1000 k := by
  rcases Int.lt_or_eq_of_le h with h | h
  · have := p1000_lt j k h
    have := p1000_pos j
    linarith
  · rw [h]

theorem p1000_lt' (j k : Int) (h : j < k) : p1000 j < p1000 k := by
  have := p1000_lt j k h
  have := p1000_pos j
  linarith

/-- `si_multiplier` answers only for magnitudes in `[1e-24, 1e27)` -/
theorem siMultiplier_some_range (v m : Rat) (hv : v ≠ 0) (h : siMultiplier v = some m) :
    p1000 (-8) ≤ absR v ∧ absR v < p1000 9 := by
  obtain ⟨p, k, hk, hm, h1, h2⟩ := siMultiplier_sound v m hv h
  obtain ⟨k1, k2⟩ := siExps_range p k hk
  have mp : 0 < m := by rw [hm]; exact p1000_pos k
  rw [le_div_iff₀ mp] at h1
  rw [div_lt_iff₀ mp] at h2
  constructor
  · have := p1000_le (-8) k k1
    rw [hm] at h1; linarith
  · have := p1000_le (k + 1) 9 (by omega)
    rw [p1000_succ] at this
    rw [hm] at h2; linarith

/-- outside `[1e-24, 1e27)` `si_multiplier` of a non-zero value is `None` -/
theorem siMultiplier_none_of (v : Rat) (hv : v ≠ 0) (h : absR v < p1000 (-8) ∨ p1000 9 ≤ absR v) :
    siMultiplier v = none := by
  cases hs : siMultiplier v with
  | none => rfl
  | some m =>
    obtain ⟨a, b⟩ := siMultiplier_some_range v m hv hs
    rcases h with h | h <;> linarith

/-- two powers of 1000 that both hold the longest edge of the same family of positive lengths
below 1000 units, with one length reaching 1 unit, are equal -/
theorem longest_decade_unique (n : Nat) (e : Nat → Rat) (k k' : Int)
    (h1 : ∃ a, a < n ∧ p1000 k ≤ e a) (h2 : ∀ a, a < n → e a < 1000 * p1000 k)
    (h1' : ∃ a, a < n ∧ p1000 k' ≤ e a) (h2' : ∀ a, a < n → e a < 1000 * p1000 k') : k = k' := by
  obtain ⟨a, ha, hka⟩ := h1
  obtain ⟨b, hb, hkb⟩ := h1'
  rcases lt_trichotomy k k' with h | h | h
  · have := p1000_lt k k' h
    have := h2 b hb
    linarith
  · exact h
  · have := p1000_lt k' k h
    have := h2' a ha
    linarith

/-- when the default multiplier exists, every edge lies in `[1e-24, 1e27)` -/
theorem setupMultiplier_none_range (f : Fld) (hinv : f.mesh.Inv) (m : Rat)
    (h : setupMultiplier f none = .ok m) (b : Nat) (hb : b < f.mesh.region.ndim) :
    p1000 (-8) ≤ f.mesh.region.edge b ∧ f.mesh.region.edge b < p1000 9 := by
  obtain ⟨⟨_, _, _, _, _, hlt⟩, _, _⟩ := hinv
  have hedge : 0 < f.mesh.region.edge b := by
    have := hlt b hb
    unfold Region.edge
    linarith
  simp only [setupMultiplier, siMaxMultiplier] at h
  obtain ⟨_, hall⟩ := maxOpt_ok _ m h
  have hbm : siMultiplier (f.mesh.region.edge b) ∈ f.mesh.region.edges.map siMultiplier := by
    apply List.mem_map.mpr
    refine ⟨f.mesh.region.edge b, ?_, rfl⟩
    unfold Region.edges tab
    exact List.mem_map.mpr ⟨b, List.mem_range.mpr hb, rfl⟩
  obtain ⟨m', hm', _⟩ := hall _ hbm
  have := siMultiplier_some_range _ m' (ne_of_gt hedge) hm'
  rwa [absR_eq_abs, abs_of_pos hedge] at this

/-- `MultOk` is exactly: the multiplier step succeeds with a multiplier that has a prefix -/
theorem multOk_iff (f : Fld) (hinv : f.mesh.Inv) (mult : Option Rat) :
    MultOk f mult ↔ ∃ m pre, setupMultiplier f mult = .ok m ∧ rsiPrefix? m = some pre := by
  constructor
  · exact setupMultiplier_ok f hinv mult
  · rintro ⟨m, pre, hm, hp⟩
    cases mult with
    | none => exact fun a ha => setupMultiplier_none_range f hinv m hm a ha
    | some m0 =>
      simp only [setupMultiplier] at hm
      injection hm with hm
      subst hm
      exact ⟨pre, rsiPrefix_some _ pre hp⟩

end DFV.C20
