import DFV.Lemmas.C19
/-! helper lemmas for C19: the Berg–Lüscher triangle loop, rescaling, integrals -/
namespace DFV.C19
open DFV

/-! ## neighbours and triangles under a rotation of all vectors -/

theorem nbE_rotF (q : M3) (o : Fld) (i j : Nat) : nbE (rotF q o) i j = (nbE o i j).map q.mulVec := by
  unfold nbE
  rw [cellV_rotF]
  show (if (i + 1 < o.mesh.nAt 0 && o.valid.get [i + 1, j]) = true then _ else _) = _
  split <;> rfl

theorem nbN_rotF (q : M3) (o : Fld) (i j : Nat) : nbN (rotF q o) i j = (nbN o i j).map q.mulVec := by
  unfold nbN
  rw [cellV_rotF]
  show (if (j + 1 < o.mesh.nAt 1 && o.valid.get [i, j + 1]) = true then _ else _) = _
  split <;> rfl

theorem nbW_rotF (q : M3) (o : Fld) (i j : Nat) : nbW (rotF q o) i j = (nbW o i j).map q.mulVec := by
  unfold nbW
  rw [cellV_rotF]
  show (if (decide (1 ≤ i) && o.valid.get [i - 1, j]) = true then _ else _) = _
  split <;> rfl

theorem nbS_rotF (q : M3) (o : Fld) (i j : Nat) : nbS (rotF q o) i j = (nbS o i j).map q.mulVec := by
  unfold nbS
  rw [cellV_rotF]
  show (if (decide (1 ≤ j) && o.valid.get [i, j - 1]) = true then _ else _) = _
  split <;> rfl

theorem tri?_map_mulVec (q : M3) (h : q.IsRot) (v0 : V3) (a b : Option V3) :
    tri? (q.mulVec v0) (a.map q.mulVec) (b.map q.mulVec) = tri? v0 a b := by
  cases a <;> cases b <;> simp [tri?, triOf_mulVec q h]

theorem triangles_rotF (q : M3) (h : q.IsRot) (o : Fld) (i j : Nat) :
    triangles (rotF q o) i j = triangles o i j := by
  unfold triangles
  rw [nbE_rotF, nbN_rotF, nbW_rotF, nbS_rotF, cellV_rotF]
  simp only [tri?_map_mulVec q h]

theorem tcdBLAt_rotF (Om : Tri → Rat) (q : M3) (h : q.IsRot) (o : Fld) (i j : Nat) :
    tcdBLAt Om (rotF q o) i j = tcdBLAt Om o i j := by
  unfold tcdBLAt
  rw [triangles_rotF q h]
  rfl

/-! ## reversal -/

theorem nbE_negF (o : Fld) (i j : Nat) : nbE (negF o) i j = (nbE o i j).map V3.neg := by
  unfold nbE
  rw [cellV_negF]
  show (if (i + 1 < o.mesh.nAt 0 && o.valid.get [i + 1, j]) = true then _ else _) = _
  split <;> rfl

theorem nbN_negF (o : Fld) (i j : Nat) : nbN (negF o) i j = (nbN o i j).map V3.neg := by
  unfold nbN
  rw [cellV_negF]
  show (if (j + 1 < o.mesh.nAt 1 && o.valid.get [i, j + 1]) = true then _ else _) = _
  split <;> rfl

theorem nbW_negF (o : Fld) (i j : Nat) : nbW (negF o) i j = (nbW o i j).map V3.neg := by
  unfold nbW
  rw [cellV_negF]
  show (if (decide (1 ≤ i) && o.valid.get [i - 1, j]) = true then _ else _) = _
  split <;> rfl

theorem nbS_negF (o : Fld) (i j : Nat) : nbS (negF o) i j = (nbS o i j).map V3.neg := by
  unfold nbS
  rw [cellV_negF]
  show (if (decide (1 ≤ j) && o.valid.get [i, j - 1]) = true then _ else _) = _
  split <;> rfl

theorem tri?_map_neg (v0 : V3) (a b : Option V3) :
    tri? v0.neg (a.map V3.neg) (b.map V3.neg) = (tri? v0 a b).map flipT := by
  cases a <;> cases b <;> simp [tri?, triOf_neg, flipT]

theorem triangles_negF (o : Fld) (i j : Nat) :
    triangles (negF o) i j = (triangles o i j).map flipT := by
  unfold triangles
  rw [nbE_negF, nbN_negF, nbW_negF, nbS_negF, cellV_negF]
  simp only [tri?_map_neg, List.map_append]

theorem blAngle_flip (Om : Tri → Rat) (hOm : ∀ tr, tr.t ≠ 0 → Om (flipT tr) = -Om tr) (tr : Tri) :
    blAngle Om (flipT tr) = -blAngle Om tr := by
  unfold blAngle
  by_cases h : tr.t = 0
  · simp [flipT, h]
  · have h' : ¬ (flipT tr).t = 0 := by simpa [flipT] using h
    simp only [h, h', if_false]
    exact hOm tr h

theorem tcdBLAt_negF (Om : Tri → Rat) (hOm : ∀ tr, tr.t ≠ 0 → Om (flipT tr) = -Om tr) (o : Fld) (i j : Nat) :
    tcdBLAt Om (negF o) i j = -tcdBLAt Om o i j := by
  unfold tcdBLAt
  rw [triangles_negF]
  show (if o.valid.get [i, j] = true then _ else _) = _
  simp only [List.length_map, List.map_map]
  have e : (blAngle Om ∘ flipT) = fun tr => -blAngle Om tr := by
    funext tr; exact blAngle_flip Om hOm tr
  rw [e]
  have e2 : (List.map (fun tr => -blAngle Om tr) (triangles o i j))
      = (List.map (blAngle Om) (triangles o i j)).map fun x => -x := by
    rw [List.map_map]; rfl
  rw [e2, lsum_map_neg]
  show _ = -(if o.valid.get [i, j] = true then _ else _)
  split
  · split
    · simp only [triArea, negF]; ring
    · simp
  · simp

/-! ## uniform fields -/

theorem tri?_t_zero_of_same (v : V3) (a b : Option V3) (ha : ∀ x, a = some x → x = v) (hb : ∀ x, b = some x → x = v) :
    ∀ tr ∈ tri? v a b, tr.t = 0 := by
  intro tr htr
  cases a with
  | none => simp [tri?] at htr
  | some x =>
    cases b with
    | none => simp [tri?] at htr
    | some y =>
      simp only [tri?, List.mem_singleton] at htr
      rw [htr, ha x rfl, hb y rfl]
      exact triOf_same v

theorem nb_uniform (o : Fld) (u : V3) (hu : ∀ i, cellV o i = u) (i j : Nat) :
    (∀ x, nbE o i j = some x → x = u) ∧ (∀ x, nbN o i j = some x → x = u) ∧
    (∀ x, nbW o i j = some x → x = u) ∧ (∀ x, nbS o i j = some x → x = u) := by
  refine ⟨?_, ?_, ?_, ?_⟩
  · intro x hx; unfold nbE at hx; split at hx
    · injection hx with hx; rw [← hx]; exact hu _
    · cases hx
  · intro x hx; unfold nbN at hx; split at hx
    · injection hx with hx; rw [← hx]; exact hu _
    · cases hx
  · intro x hx; unfold nbW at hx; split at hx
    · injection hx with hx; rw [← hx]; exact hu _
    · cases hx
  · intro x hx; unfold nbS at hx; split at hx
    · injection hx with hx; rw [← hx]; exact hu _
    · cases hx

theorem tcdBLAt_uniform (Om : Tri → Rat) (o : Fld) (u : V3) (hu : ∀ i, cellV o i = u) (i j : Nat) :
    tcdBLAt Om o i j = 0 := by
  obtain ⟨hE, hN, hW, hS⟩ := nb_uniform o u hu i j
  have hall : ∀ tr ∈ triangles o i j, tr.t = 0 := by
    intro tr htr
    unfold triangles at htr
    rw [hu [i, j]] at htr
    simp only [List.mem_append] at htr
    rcases htr with ((h | h) | h) | h
    · exact tri?_t_zero_of_same u _ _ hE hN tr h
    · exact tri?_t_zero_of_same u _ _ hN hW tr h
    · exact tri?_t_zero_of_same u _ _ hW hS tr h
    · exact tri?_t_zero_of_same u _ _ hS hE tr h
  have hs : lsum ((triangles o i j).map (blAngle Om)) = 0 := by
    apply lsum_zero
    intro x hx
    obtain ⟨tr, htr, rfl⟩ := List.mem_map.mp hx
    simp [blAngle, hall tr htr]
  unfold tcdBLAt
  rw [hs]
  split
  · split
    · simp
    · rfl
  · rfl

theorem orientation_uniform (sq : Rat → Rat) (f : Fld) (v : V3) (hu : uniformF f v) (i : List Nat) :
    cellV (orientation sq f) i = orient sq v := by
  rw [cellV_orientation]
  unfold cellV
  rw [hu i]

/-! ## per-cell rescaling -/

theorem orientation_scaleF (sq : Rat → Rat) (s : List Nat → Rat) (f : Fld)
    (h : ∀ i, orient sq ((V3.ofList (f.data.get i)).smul (s i)) = orient sq (V3.ofList (f.data.get i))) :
    orientation sq (scaleF s f) = orientation sq f := by
  obtain ⟨mesh, nvdim, ⟨shape, get⟩, valid, vdims, vmap, unit⟩ := f
  simp only [orientation, scaleF, NDA.map]
  congr 2
  funext i
  simp only [V3.ofList_toList]
  rw [h i]

/-! ## integrals -/

theorem lsum_map_mul (xs : List Rat) (k : Rat) : lsum (xs.map fun x => x * k) = lsum xs * k := by
  induction xs with
  | nil => simp [lsum]
  | cons x xs ih => simp only [List.map_cons, lsum, ih]; ring

theorem absR_mul_nonneg (x k : Rat) (hk : 0 ≤ k) : absR (x * k) = absR x * k := by
  rw [absR_eq_abs, absR_eq_abs, abs_mul, abs_of_nonneg hk]

end DFV.C19
