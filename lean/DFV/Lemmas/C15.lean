import Mathlib.Algebra.Order.Field.Basic
import Mathlib.Tactic.Ring
import Mathlib.Tactic.FieldSimp
import Mathlib.Tactic.Linarith
import DFV.Model.C15
/-!
Helper lemmas for C15: algebra of squared lengths over an arbitrary linearly ordered
field `K`, and consequences of the `SqrtAt` hypothesis (uniqueness of the non-negative
root).  Everything here is generic in `K`, so it applies verbatim to the rational model
(`K = Rat`) and to real fields (`K = ℝ`).
-/
namespace DFV.C15
set_option linter.unusedSectionVars false
variable {K : Type} [Field K] [LinearOrder K] [IsStrictOrderedRing K]

theorem sqLen_nil : sqLen ([] : List K) = 0 := rfl
theorem sqLen_cons (x : K) (xs : List K) : sqLen (x :: xs) = x * x + sqLen xs := rfl

theorem sqLen_nonneg (v : List K) : 0 ≤ sqLen v := by
  induction v with
  | nil => simp [sqLen]
  | cons x xs ih => simp only [sqLen]; nlinarith [mul_self_nonneg x]

/-- over an ordered field a sum of squares vanishes only if every term does: "the length
is zero" and "the vector is zero" are the same thing -/
theorem sqLen_eq_zero_iff (v : List K) : sqLen v = 0 ↔ ∀ x ∈ v, x = 0 := by
  induction v with
  | nil => simp [sqLen]
  | cons x xs ih =>
    simp only [sqLen, List.mem_cons, forall_eq_or_imp]
    constructor
    · intro h
      have h1 := mul_self_nonneg x
      have h2 := sqLen_nonneg xs
      have hx : x * x = 0 := by linarith
      have hs : sqLen xs = 0 := by linarith
      exact ⟨mul_self_eq_zero.mp hx, ih.mp hs⟩
    · rintro ⟨rfl, h⟩
      rw [ih.mpr h]; ring

theorem zeros_length (v : List K) : (zeros v).length = v.length := by simp [zeros]

theorem zeros_zeros (v : List K) : zeros (zeros v) = zeros v := by simp [zeros]

theorem mem_zeros {v : List K} {x : K} (h : x ∈ zeros v) : x = 0 := by
  simp only [zeros, List.mem_map] at h
  obtain ⟨_, _, rfl⟩ := h; rfl

theorem sqLen_zeros (v : List K) : sqLen (zeros v) = 0 :=
  (sqLen_eq_zero_iff _).mpr fun _ hx => mem_zeros hx

/-- a zero vector is its own `zeros` -/
theorem eq_zeros_of_all_zero {v : List K} (h : ∀ x ∈ v, x = 0) : v = zeros v := by
  unfold zeros
  conv_lhs => rw [← List.map_id v]
  exact List.map_congr_left fun x hx => by simp [h x hx]

theorem sqLen_map_mul (v : List K) (c : K) : sqLen (v.map fun x => x * c) = sqLen v * (c * c) := by
  induction v with
  | nil => simp [sqLen]
  | cons x xs ih => simp only [List.map_cons, sqLen, ih]; ring

theorem sqLen_map_div (v : List K) (c : K) : sqLen (v.map fun x => x / c) = sqLen v / (c * c) := by
  have e : (fun x : K => x / c) = fun x => x * c⁻¹ := by funext x; exact div_eq_mul_inv x c
  rw [e, sqLen_map_mul, div_eq_mul_inv, mul_inv]

theorem sqLen_smul (c : K) (v : List K) : sqLen (smul c v) = c * c * sqLen v := by
  have e : (fun x : K => c * x) = fun x => x * c := by funext x; exact mul_comm c x
  unfold smul
  rw [e, sqLen_map_mul]; ring

theorem smul_length (c : K) (v : List K) : (smul c v).length = v.length := by simp [smul]

theorem smul_getD (c : K) (v : List K) (a : Nat) : (smul c v).getD a 0 = c * v.getD a 0 := by
  unfold smul
  by_cases h : a < v.length
  · simp [List.getD_eq_getElem?_getD, h]
  · simp [List.getD_eq_getElem?_getD, h]

theorem smul_one (v : List K) : smul 1 v = v := by simp [smul]

theorem smul_smul (a b : K) (v : List K) : smul a (smul b v) = smul (a * b) v := by
  simp [smul, mul_assoc]

theorem absK_eq_abs (x : K) : absK x = |x| := by
  unfold absK
  split
  · rename_i h; rw [abs_of_neg h]
  · rename_i h; rw [abs_of_nonneg (not_lt.mp h)]

/-! ### consequences of `SqrtAt` -/

theorem SqrtAt.arg_nonneg {sqrt : K → K} {x : K} (h : SqrtAt sqrt x) : 0 ≤ x := by
  rw [← h.2]; exact mul_self_nonneg _

theorem SqrtAt.eq_zero_iff {sqrt : K → K} {x : K} (h : SqrtAt sqrt x) : sqrt x = 0 ↔ x = 0 := by
  constructor
  · intro e; rw [← h.2, e, mul_zero]
  · intro e; exact mul_self_eq_zero.mp (by rw [h.2, e])

theorem SqrtAt.pos {sqrt : K → K} {x : K} (h : SqrtAt sqrt x) (hx : x ≠ 0) : 0 < sqrt x :=
  lt_of_le_of_ne h.1 fun e => hx (h.eq_zero_iff.mp e.symm)

/-- the non-negative root is unique -/
theorem SqrtAt.unique {sqrt : K → K} {x y : K} (h : SqrtAt sqrt x) (hy : 0 ≤ y) (hyy : y * y = x) :
    sqrt x = y :=
  (mul_self_inj h.1 hy).mp (by rw [h.2, hyy])

theorem SqrtAt.mul_self {sqrt : K → K} {t : K} (h : SqrtAt sqrt (t * t)) : sqrt (t * t) = |t| :=
  h.unique (abs_nonneg t) (abs_mul_abs_self t)

theorem SqrtAt.zero {sqrt : K → K} (h : SqrtAt sqrt 0) : sqrt 0 = 0 := h.eq_zero_iff.mpr rfl

/-! ### the division step -/

theorem divWhere_ne (v : List K) (n : K) (h : n ≠ 0) : divWhere v n = v.map fun x => x / n := by
  simp [divWhere, h]

theorem divWhere_zero (v : List K) : divWhere v 0 = zeros v := by simp [divWhere]

theorem divWhere_length (v : List K) (n : K) : (divWhere v n).length = v.length := by
  unfold divWhere zeros; split <;> simp

theorem map_mul_zeros (v : List K) (t : K) : (zeros v).map (fun x => x * t) = zeros v := by
  simp [zeros]

theorem closeZero_eq (atol x : K) : closeZero atol x = decide (|x| ≤ atol) := by
  unfold closeZero; rw [absK_eq_abs]

/-! ### the per-cell promise of the property, as a predicate -/

/-- What the property promises for one cell after the norm was set to the target `t`,
`v` being the old and `w` the new vector: same number of components; if `v ≠ 0` then `w`
has squared length `t²`, is parallel to `v` (all 2×2 cross terms vanish) and — for a
positive target — is a positive multiple of `v`; if `v = 0` then `w` is still `v`. -/
def Rescaled (v w : List K) (t : K) : Prop :=
  w.length = v.length ∧
  (sqLen v ≠ 0 →
    sqLen w = t * t ∧
    (∀ a b : Nat, w.getD a 0 * v.getD b 0 = w.getD b 0 * v.getD a 0) ∧
    (0 < t → ∃ c : K, 0 < c ∧ w = smul c v)) ∧
  (sqLen v = 0 → w = v)

end DFV.C15
