import DFV.Lemmas.C09Lex
import DFV.Lemmas.C09Reject
/-! File-level lemmas for the byte-level reader of C09: reading the bytes of a file gives the
file; a strict prefix of the header bytes never yields a data section. -/
namespace DFV.C09
open DFV

/-! ## first line -/

theorem encChar_ascii_eq (c : Char) (h : c.toNat < 128) : utf8EncChar c = [c.toNat] := by
  unfold utf8EncChar; rw [if_pos h]

theorem map_ofNat_enc (cs : List Char) (h : ∀ c ∈ cs, c.toNat < 128) : (utf8Enc cs).map Char.ofNat = cs := by
  induction cs with
  | nil => rfl
  | cons c cs ih =>
    show (utf8EncChar c ++ utf8Enc cs).map Char.ofNat = _
    rw [encChar_ascii_eq c (h c (by simp)), List.map_append, ih (fun d hd => h d (by simp [hd]))]
    simp [Char.ofNat_toNat]

/-- an ASCII first line is the same text whether its bytes are taken as Latin-1 or UTF-8 -/
theorem latin1_enc (s : String) (h : ∀ c ∈ s.toList, c.toNat < 128) : latin1 (utf8Enc s.toList) = s := by
  unfold latin1
  rw [map_ofNat_enc _ h, String.ofList_toList]

theorem takeWhile_ne_append (l r : List Byte) (h : 10 ∉ l) :
    (l ++ 10 :: r).takeWhile (fun b => b != 10) = l := by
  induction l with
  | nil => simp
  | cons b l ih =>
    have hb : b ≠ 10 := fun e => h (by simp [e])
    have hl : 10 ∉ l := fun e => h (by simp [e])
    simp [hb, ih hl]

theorem dropWhile_ne_append (l r : List Byte) (h : 10 ∉ l) :
    (l ++ 10 :: r).dropWhile (fun b => b != 10) = 10 :: r := by
  induction l with
  | nil => simp
  | cons b l ih =>
    have hb : b ≠ 10 := fun e => h (by simp [e])
    have hl : 10 ∉ l := fun e => h (by simp [e])
    simp [hb, ih hl]

theorem takeWhile_ne_all (l : List Byte) (h : 10 ∉ l) : l.takeWhile (fun b => b != 10) = l := by
  induction l with
  | nil => rfl
  | cons b l ih =>
    have hb : b ≠ 10 := fun e => h (by simp [e])
    have hl : 10 ∉ l := fun e => h (by simp [e])
    simp [hb, ih hl]

theorem dropWhile_ne_all (l : List Byte) (h : 10 ∉ l) : l.dropWhile (fun b => b != 10) = [] := by
  induction l with
  | nil => rfl
  | cons b l ih =>
    have hb : b ≠ 10 := fun e => h (by simp [e])
    have hl : 10 ∉ l := fun e => h (by simp [e])
    simp [hb, ih hl]

/-! ## reading the bytes of a file -/

/-- a file whose header the byte-level reader reads back: ASCII first line without newline,
header lines that satisfy `LineOk`, then the data line -/
structure FileOk {α} (N : NumIO) (F : OvfFile α) (hs : List HLine) (ws : List String) : Prop where
  lines : F.lines = hs ++ [.beginData ws]
  first : ∀ c ∈ F.first.toList, c.toNat < 128 ∧ c ≠ '\n'
  ok : ∀ l ∈ hs, LineOk N l
  words : WordsOk ws

theorem lexBytes_file {α} (N : NumIO) (L : N.Lawful) (F : OvfFile α) (hs : List HLine) (ws : List String)
    (K : FileOk N F hs ws) (tail : List Byte) :
    lexBytes (headerBytes N F ++ tail)
      = .ok { first := utf8Enc F.first.toList, lines := hs.map (rawOf N), data := some (ws, tail) } := by
  have hnl : 10 ∉ utf8Enc F.first.toList := newline_not_mem_enc _ (fun hc => (K.first _ hc).2 rfl)
  unfold lexBytes headerBytes
  rw [K.lines]
  simp only [List.append_assoc, List.cons_append]
  rw [takeWhile_ne_append _ _ hnl, dropWhile_ne_append _ _ hnl]
  have hne : (utf8Enc F.first.toList ++ 10 :: (linesBytes N (hs ++ [.beginData ws]) ++ tail)).isEmpty = false := by
    cases utf8Enc F.first.toList <;> rfl
  rw [hne]
  simp only [Bool.false_eq_true, if_false, List.drop_succ_cons, List.drop_zero]
  rw [lexGo_header N L hs ws tail K.ok K.words]

theorem toFile_lexed {α} (N : NumIO) (L : N.Lawful) (tb : List Byte → List (List α) × List String)
    (F : OvfFile α) (hs : List HLine) (ws : List String) (K : FileOk N F hs ws) (tail : List Byte) :
    toFile N tb { first := utf8Enc F.first.toList, lines := hs.map (rawOf N), data := some (ws, tail) }
      = { first := F.first, lines := F.lines,
          body := if isBinary ws then .bin tail else .text (tb tail).1 (tb tail).2 } := by
  unfold toFile
  simp only
  rw [latin1_enc _ (fun c hc => (K.first c hc).1), K.lines, List.map_map]
  congr 2
  rw [List.map_congr_left (g := id) (fun l hl => by simpa using toHLine_rawOf N L l (K.ok l hl))]
  simp

/-- **reading the bytes of a binary file = reading the file** -/
theorem fromOvfBytes_bin {α} [DecidableEq α] (N : NumIO) (L : N.Lawful)
    (tb : List Byte → List (List α) × List String) (c : Codec α) (isWord : Char → Bool)
    (reserved : String → Bool) (F : OvfFile α) (hs : List HLine) (ws : List String) (K : FileOk N F hs ws)
    (hb : isBinary ws = true) (b : List Byte) (hF : F.body = .bin b) (side : Option (List (String × Region))) :
    fromOvfBytes N tb c isWord reserved (fileBytes N F) side = fromOvf c isWord reserved F side := by
  unfold fromOvfBytes fileBytes
  rw [hF]
  simp only
  rw [lexBytes_file N L F hs ws K b]
  simp only
  rw [toFile_lexed N L tb F hs ws K b, hb, if_pos rfl, ← hF]

/-- ... and of a text file, when `tb` (pandas) makes the file's rows of the bytes of its data
section -/
theorem fromOvfBytes_text {α} [DecidableEq α] (N : NumIO) (L : N.Lawful)
    (tb : List Byte → List (List α) × List String) (c : Codec α) (isWord : Char → Bool)
    (reserved : String → Bool) (F : OvfFile α) (hs : List HLine) (ws : List String) (K : FileOk N F hs ws)
    (hb : isBinary ws = false) (rows : List (List α)) (footer : List String) (hF : F.body = .text rows footer)
    (tbytes : List Byte) (htb : tb tbytes = (rows, footer)) (side : Option (List (String × Region))) :
    fromOvfBytes N tb c isWord reserved (headerBytes N F ++ tbytes) side = fromOvf c isWord reserved F side := by
  unfold fromOvfBytes
  rw [lexBytes_file N L F hs ws K tbytes]
  simp only
  rw [toFile_lexed N L tb F hs ws K tbytes, hb, htb]
  simp only [Bool.false_eq_true, if_false]
  rw [← hF]

/-! ## strict prefixes of the header -/

/-- the header loop found no data section worth the name: it failed, or found no data line, or
found a data line with nothing after it -/
def NoTail : M LexRes → Prop
  | .error _ => True
  | .ok (_, none) => True
  | .ok (_, some (_, rest)) => rest = []

theorem noTail_onLine_last (line : List Byte) : NoTail (onLine line [] (.ok ([], none))) := by
  unfold onLine
  split
  · trivial
  · split <;> simp [NoTail]


theorem prefix_append_cases {α} (p a b : List α) (h : p <+: a ++ b) :
    p <+: a ∨ ∃ t, p = a ++ t ∧ t <+: b := by
  induction a generalizing p with
  | nil => exact Or.inr ⟨p, rfl, h⟩
  | cons x a ih =>
    cases p with
    | nil => exact Or.inl (List.nil_prefix)
    | cons y p =>
      rw [List.cons_append, List.cons_prefix_cons] at h
      obtain ⟨rfl, h⟩ := h
      rcases ih p h with h | ⟨t, rfl, ht⟩
      · exact Or.inl (List.cons_prefix_cons.mpr ⟨rfl, h⟩)
      · exact Or.inr ⟨t, rfl, ht⟩

theorem not_mem_of_prefix {α} (x : α) (p l : List α) (h : p <+: l) (hx : x ∉ l) : x ∉ p :=
  fun hp => hx (h.subset hp)

theorem lexGo_last' (l : List Byte) (h : 10 ∉ l) :
    lexGo l [] = if l.isEmpty then .ok ([], none) else onLine l [] (.ok ([], none)) := by
  cases l with
  | nil => rfl
  | cons b l =>
    have := lexGo_last (b :: l) h []
    rw [this]
    simp

/-- a strict prefix of the bytes of one line (without its newline) -/
theorem noTail_partial (p e : List Byte) (he : 10 ∉ e) (hp : p <+: e) : NoTail (lexGo p []) := by
  rw [lexGo_last' p (not_mem_of_prefix 10 p e hp he)]
  by_cases h : p.isEmpty = true
  · rw [if_pos h]; trivial
  · rw [if_neg h]; exact noTail_onLine_last p

/-- **every strict prefix of the header bytes** (cut between lines, inside a line, inside a
character): the header loop never gets to a non-empty data section -/
theorem noTail_prefix (N : NumIO) (L : N.Lawful) (hs : List HLine) (ws : List String)
    (hok : ∀ l ∈ hs, LineOk N l) (hws : WordsOk ws) (p : List Byte)
    (hp : p <+: linesBytes N (hs ++ [.beginData ws])) (hne : p ≠ linesBytes N (hs ++ [.beginData ws])) :
    NoTail (lexGo p []) := by
  induction hs generalizing p with
  | nil =>
    simp only [linesBytes, List.nil_append, List.flatMap_cons, List.flatMap_nil, List.append_nil] at hp hne
    have he := newline_not_mem_enc _ (newline_not_mem_dataLine N ws hws)
    rcases prefix_append_cases p _ _ hp with h | ⟨t, rfl, ht⟩
    · exact noTail_partial p _ he h
    · rcases List.prefix_cons_iff.mp ht with rfl | ⟨t', rfl, ht'⟩
      · rw [List.append_nil]; exact noTail_partial _ _ he (List.prefix_refl _)
      · rw [List.prefix_nil] at ht'; subst ht'; exact absurd rfl hne
  | cons l hs ih =>
    have hl := hok l (by simp)
    have he := newline_not_mem_enc _ (newline_not_mem_rendered N L l hl)
    have e : linesBytes N (l :: hs ++ [.beginData ws])
        = utf8Enc (renderLine N l) ++ 10 :: linesBytes N (hs ++ [.beginData ws]) := by
      simp [linesBytes]
    rw [e] at hp hne
    rcases prefix_append_cases p _ _ hp with h | ⟨t, rfl, ht⟩
    · exact noTail_partial p _ he h
    · rcases List.prefix_cons_iff.mp ht with rfl | ⟨t', rfl, ht'⟩
      · rw [List.append_nil]; exact noTail_partial _ _ he (List.prefix_refl _)
      · rw [lexGo_line _ _ he]
        simp only [List.reverse_nil, List.nil_append]
        rw [onLine_rendered N L l hl]
        have key := ih (fun x hx => hok x (by simp [hx])) t' ht' (fun h => hne (by rw [h]))
        revert key
        generalize lexGo t' [] = more
        intro key
        match more, key with
        | .error _, _ => trivial
        | .ok (_, none), _ => trivial
        | .ok (_, some (_, _)), h => exact h



theorem onLine_nodata (line rest : List Byte) (more : M LexRes) (ls : List RawLine)
    (d : Option (List String × List Byte)) (h : onLine line rest more = .ok (ls, d))
    (hm : ∀ ls' d', more = .ok (ls', d') → ∀ l ∈ ls', ∀ ws, l ≠ .data ws) :
    ∀ l ∈ ls, ∀ ws, l ≠ .data ws := by
  unfold onLine at h
  split at h
  · cases h
  · split at h
    · injection h with h; injection h with h1 _; subst h1; intro l hl; cases hl
    · split at h
      · cases h
      · rename_i _ p
        injection h with h; injection h with h1 _; subst h1
        intro l hl ws
        rcases List.mem_cons.mp hl with rfl | hl
        · intro hc; cases hc
        · exact hm p.1 p.2 rfl l hl ws
    · split at h
      · cases h
      · rename_i _ p
        injection h with h; injection h with h1 _; subst h1
        intro l hl ws
        rcases List.mem_cons.mp hl with rfl | hl
        · intro hc; cases hc
        · exact hm p.1 p.2 rfl l hl ws

/-- the lines the header loop collects never contain a data line (it stops there) -/
theorem lexGo_nodata (p cur : List Byte) (ls : List RawLine) (d : Option (List String × List Byte))
    (h : lexGo p cur = .ok (ls, d)) : ∀ l ∈ ls, ∀ ws, l ≠ .data ws := by
  induction p generalizing cur ls d with
  | nil =>
    rw [lexGo] at h
    split at h
    · injection h with h; injection h with h1 _; subst h1; intro l hl; cases hl
    · exact onLine_nodata _ _ _ ls d h (fun ls' d' e => by
        injection e with e; injection e with e1 _; subst e1; intro l hl; cases hl)
  | cons b p ih =>
    rw [lexGo] at h
    split at h
    · exact onLine_nodata _ _ _ ls d h (fun ls' d' e => ih [] ls' d' e)
    · exact ih _ ls d h



theorem scan_append_data (ls : List HLine) (ws : List String) (acc : List (String × HVal))
    (h : ∀ l ∈ ls, ∀ w, l ≠ .beginData w) : ∃ hd, scan (ls ++ [.beginData ws]) acc = some (hd, ws) := by
  induction ls generalizing acc with
  | nil => exact ⟨acc, rfl⟩
  | cons l ls ih =>
    cases l with
    | kv k v => exact ih _ (fun x hx => h x (by simp [hx]))
    | other => exact ih _ (fun x hx => h x (by simp [hx]))
    | beginData w => exact absurd rfl (h _ (by simp) w)

/-- with nothing after the data line, the data block cannot be read: binary (short read of the
check value, or a width that is not 4 or 8) or text (no rows) -/
theorem readBody_empty {α} [DecidableEq α] (c : Codec α) (v2 : Bool) (ws : List String)
    (rows : List (List α)) (footer : List String) (hrows : rows = []) (nodes vd : Nat) :
    ∃ e, readBody c v2 ws (if isBinary ws then .bin [] else .text rows footer) nodes vd = .error e := by
  subst hrows
  by_cases hb : isBinary ws = true
  · rw [if_pos hb]
    unfold readBody
    simp only [hb, if_true]
    unfold readBin
    by_cases h0 : (([] : List Byte).length < (dataWidth ws).getD 0)
    · rw [if_pos h0]; exact ⟨_, rfl⟩
    · rw [if_neg h0]
      have : (dataWidth ws).getD 0 = 0 := by simpa using h0
      rw [this]
      exact ⟨_, rfl⟩
  · rw [if_neg hb]
    unfold readBody
    simp only [hb, Bool.false_eq_true, if_false]
    refine ⟨.value, ?_⟩
    unfold readText
    simp

/-- a file whose data line is followed by nothing is rejected -/
theorem fromOvf_empty_body {α} [DecidableEq α] (c : Codec α) (isWord : Char → Bool) (reserved : String → Bool)
    (F : OvfFile α) (side : Option (List (String × Region))) (ls : List HLine) (ws : List String)
    (hl : F.lines = ls ++ [.beginData ws]) (hnd : ∀ l ∈ ls, ∀ w, l ≠ .beginData w)
    (rows : List (List α)) (footer : List String) (hrows : rows = [])
    (hb : F.body = if isBinary ws then .bin [] else .text rows footer) :
    ∃ e, fromOvf c isWord reserved F side = .error e := by
  cases hres : fromOvf c isWord reserved F side with
  | error e => exact ⟨e, rfl⟩
  | ok g =>
    exfalso
    obtain ⟨p, mesh, arr, hp, _, _⟩ := fromOvf_ok_inv c isWord reserved F side g hres
    obtain ⟨ws', nodes, hscan, _, _, hflat⟩ := parse_ok_inv c F p hp
    obtain ⟨hd, hs⟩ := scan_append_data ls ws [] hnd
    rw [hl, hs] at hscan
    injection hscan with hscan
    injection hscan with _ hws
    subst hws
    rw [hb] at hflat
    obtain ⟨e, he⟩ := readBody_empty c (isV2 F.first) ws rows footer hrows (natProd nodes) p.vd
    rw [he] at hflat
    cases hflat

theorem toHLine_nodata (N : NumIO) (ls : List RawLine) (h : ∀ l ∈ ls, ∀ ws, l ≠ .data ws) :
    ∀ l ∈ ls.map (toHLine N), ∀ w, l ≠ .beginData w := by
  intro l hl w
  obtain ⟨r, hr, rfl⟩ := List.mem_map.mp hl
  cases r with
  | kv k v => intro hc; cases hc
  | other => intro hc; cases hc
  | data ws => exact absurd rfl (h _ hr ws)

/-- whatever the header loop returns, if it found no data line or nothing after it, the file
is rejected -/
theorem fromOvf_noTail {α} [DecidableEq α] (N : NumIO) (tb : List Byte → List (List α) × List String)
    (htb : (tb []).1 = []) (c : Codec α) (isWord : Char → Bool) (reserved : String → Bool)
    (L : Lexed) (side : Option (List (String × Region)))
    (hnd : ∀ l ∈ L.lines, ∀ ws, l ≠ .data ws)
    (hd : L.data = none ∨ ∃ ws, L.data = some (ws, [])) :
    ∃ e, fromOvf c isWord reserved (toFile N tb L) side = .error e := by
  rcases hd with hd | ⟨ws, hd⟩
  · refine ⟨.runtime, ?_⟩
    apply fromOvf_error_of_parse
    unfold parse toFile
    rw [hd]
    simp only
    rw [scan_none_of_no_data _ [] (toHLine_nodata N _ hnd)]
  · apply fromOvf_empty_body c isWord reserved _ side (L.lines.map (toHLine N)) ws
      (by unfold toFile; rw [hd]) (toHLine_nodata N _ hnd) (tb []).1 (tb []).2 htb
    unfold toFile; rw [hd]



/-- **a file cut anywhere inside its header is rejected**: before the end of the first line,
between header lines, inside a header line, inside a multi-byte character, inside the data
line or just before its newline -/
theorem header_prefix_rejected {α} [DecidableEq α] (N : NumIO) (L : N.Lawful)
    (tb : List Byte → List (List α) × List String) (htb : (tb []).1 = [])
    (c : Codec α) (isWord : Char → Bool) (reserved : String → Bool)
    (F : OvfFile α) (hs : List HLine) (ws : List String) (K : FileOk N F hs ws)
    (P : List Byte) (hP : P <+: headerBytes N F) (hne : P ≠ headerBytes N F)
    (side : Option (List (String × Region))) :
    ∃ e, fromOvfBytes N tb c isWord reserved P side = .error e := by
  have hnl : 10 ∉ utf8Enc F.first.toList := newline_not_mem_enc _ (fun hc => (K.first _ hc).2 rfl)
  -- a prefix of the first line
  have first_case : ∀ Q, Q <+: utf8Enc F.first.toList → ∃ e, fromOvfBytes N tb c isWord reserved Q side = .error e := by
    intro Q hQ
    have hq : 10 ∉ Q := not_mem_of_prefix 10 Q _ hQ hnl
    unfold fromOvfBytes lexBytes
    by_cases he : Q.isEmpty = true
    · rw [if_pos he]; exact ⟨_, rfl⟩
    · rw [if_neg he, dropWhile_ne_all Q hq]
      simp only [List.drop_nil, lexGo, List.isEmpty_nil, if_true]
      exact fromOvf_noTail N tb htb c isWord reserved _ side (fun l hl => by cases hl) (Or.inl rfl)
  unfold headerBytes at hP hne
  rw [K.lines] at hP hne
  rcases prefix_append_cases P _ _ hP with h | ⟨t, rfl, ht⟩
  · exact first_case P h
  · rcases List.prefix_cons_iff.mp ht with rfl | ⟨t', rfl, ht'⟩
    · rw [List.append_nil]; exact first_case _ (List.prefix_refl _)
    · have hne' : t' ≠ linesBytes N (hs ++ [.beginData ws]) := fun h => hne (by rw [h])
      have key := noTail_prefix N L hs ws K.ok K.words t' ht' hne'
      have nd := lexGo_nodata t' []
      unfold fromOvfBytes lexBytes
      have hne2 : (utf8Enc F.first.toList ++ 10 :: t').isEmpty = false := by
        cases utf8Enc F.first.toList <;> rfl
      rw [hne2, takeWhile_ne_append _ _ hnl, dropWhile_ne_append _ _ hnl]
      simp only [Bool.false_eq_true, if_false, List.drop_succ_cons, List.drop_zero]
      revert key nd
      generalize lexGo t' [] = r
      intro key nd
      match r, key, nd with
      | .error e, _, _ => exact ⟨e, rfl⟩
      | .ok (ls, none), _, nd =>
        exact fromOvf_noTail N tb htb c isWord reserved _ side (nd ls none rfl) (Or.inl rfl)
      | .ok (ls, some (w, rest)), key, nd =>
        have : rest = [] := key
        subst this
        exact fromOvf_noTail N tb htb c isWord reserved _ side (nd ls _ rfl) (Or.inr ⟨w, rfl⟩)


end DFV.C09
