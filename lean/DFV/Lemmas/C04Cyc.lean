import DFV.Lemmas.C04Fld
/-!
Helper lemmas for C04, sixth part: the ring run of a cell counted cyclically (`cycBefore`, `cycFrom`),
its relation to the window of the code (`ringBefore = min cycBefore (j+1)`, `ringFrom = min cycFrom (L-j+1)`)
and its behaviour under rotation of the stored ring.
-/
set_option linter.unusedSimpArgs false
namespace DFV.C04
open DFV

/-! ### backwards -/

theorem cycBeforeAux_noWrap (v : Nat → Bool) (L : Nat) : ∀ (fuel j : Nat), j < L → fuel ≤ j →
    cycBeforeAux v L j fuel = min (runBefore v j) fuel := by
  intro fuel
  induction fuel with
  | zero => intro j _ _; simp [cycBeforeAux]
  | succ fuel ih =>
    intro j hj hf
    obtain ⟨j', rfl⟩ : ∃ j', j = j' + 1 := ⟨j - 1, by omega⟩
    have e : (j' + 1 + L - 1) % L = j' := by
      rw [show j' + 1 + L - 1 = j' + L by omega, Nat.add_mod_right]; exact Nat.mod_eq_of_lt (by omega)
    simp only [cycBeforeAux, e, runBefore]
    rw [ih j' (by omega) (by omega)]
    split <;> omega

theorem cycBeforeAux_wrap (v : Nat → Bool) (L m : Nat) : ∀ j, j < L →
    cycBeforeAux v L j (j + 1 + m) = if runBefore v j < j then runBefore v j else j + cycBeforeAux v L 0 (m + 1) := by
  intro j
  induction j with
  | zero =>
    intro _
    simp only [runBefore, Nat.lt_irrefl, if_false, Nat.zero_add]
    rw [show 1 + m = m + 1 by omega]
  | succ j' ih =>
    intro hj
    have e : (j' + 1 + L - 1) % L = j' := by
      rw [show j' + 1 + L - 1 = j' + L by omega, Nat.add_mod_right]; exact Nat.mod_eq_of_lt (by omega)
    rw [show j' + 1 + 1 + m = (j' + 1 + m) + 1 by omega]
    have step : cycBeforeAux v L (j' + 1) ((j' + 1 + m) + 1)
        = if v ((j' + 1 + L - 1) % L) then cycBeforeAux v L ((j' + 1 + L - 1) % L) (j' + 1 + m) + 1 else 0 := rfl
    have stepR : runBefore v (j' + 1) = if v j' then runBefore v j' + 1 else 0 := rfl
    rw [step, e, stepR, ih (by omega)]
    have hb := runBefore_le v j'
    by_cases hv : v j' = true
    · simp only [hv, if_true]
      by_cases hlt : runBefore v j' < j'
      · have : runBefore v j' + 1 < j' + 1 := by omega
        simp only [hlt, this, if_true]
      · have : ¬ (runBefore v j' + 1 < j' + 1) := by omega
        simp only [hlt, this, if_false]; omega
    · simp [hv]

/-- **the code's count before a cell is the ring run's, cut one cell beyond the seam** -/
theorem ringBefore_eq_min (v : Nat → Bool) (L j : Nat) (hj : j < L) :
    ringBefore v L j = min (cycBefore v L j) (j + 1) := by
  unfold cycBefore ringBefore
  rw [show L + 1 = j + 1 + (L - j) by omega, cycBeforeAux_wrap v L (L - j) j hj]
  have hb := runBefore_le v j
  by_cases hlt : runBefore v j < j
  · rw [if_pos hlt, if_neg (by omega)]; omega
  · rw [if_neg hlt, if_pos (by omega)]
    simp only [cycBeforeAux, Nat.zero_add]
    rw [Nat.mod_eq_of_lt (by omega : L - 1 < L)]
    split <;> omega

/-! ### forwards -/

theorem cycFromAux_wrap (v : Nat → Bool) (L m : Nat) : ∀ (d j : Nat), j < L → L - j = d + 1 →
    cycFromAux v L j (d + 1 + m)
      = if runFrom v L j < d + 1 then runFrom v L j else d + 1 + cycFromAux v L 0 m := by
  intro d
  induction d with
  | zero =>
    intro j hj hd
    have hjL : j + 1 = L := by omega
    unfold runFrom
    rw [hd, show 0 + 1 + m = m + 1 by omega]
    simp only [cycFromAux, runFromAux, Nat.mod_eq_of_lt hj, hjL, Nat.mod_self]
    by_cases hv : v j = true
    · simp only [hv, if_true]
      rw [if_neg (by omega)]; omega
    · simp [hv]
  | succ d ih =>
    intro j hj hd
    have hj1 : j + 1 < L := by omega
    have ih' := ih (j + 1) hj1 (by omega)
    unfold runFrom at ih' ⊢
    rw [hd, show d + 1 + 1 + m = (d + 1 + m) + 1 by omega]
    rw [show L - (j + 1) = d + 1 by omega] at ih'
    simp only [cycFromAux, Nat.mod_eq_of_lt hj, Nat.mod_eq_of_lt hj1]
    rw [ih']
    conv_rhs => rw [runFromAux]
    have hle := runFromAux_le v (d + 1) (j + 1)
    by_cases hv : v j = true
    · simp only [hv, if_true]
      by_cases hlt : runFromAux v (j + 1) (d + 1) < d + 1
      · have : runFromAux v (j + 1) (d + 1) + 1 < d + 1 + 1 := by omega
        simp only [hlt, this, if_true]
      · have : ¬ (runFromAux v (j + 1) (d + 1) + 1 < d + 1 + 1) := by omega
        simp only [hlt, this, if_false]; omega
    · simp [hv]

/-- **the code's count from a cell on is the ring run's, cut one cell beyond the seam** -/
theorem ringFrom_eq_min (v : Nat → Bool) (L j : Nat) (hj : j < L) :
    ringFrom v L j = min (cycFrom v L j) (L - j + 1) := by
  unfold cycFrom ringFrom
  obtain ⟨d, hd⟩ : ∃ d, L - j = d + 1 := ⟨L - j - 1, by omega⟩
  rw [show L + 1 = d + 1 + (j + 1) by omega, cycFromAux_wrap v L (j + 1) d j hj hd]
  have hle := runFrom_le v L j
  by_cases hlt : runFrom v L j < d + 1
  · rw [if_pos hlt, if_neg (by omega)]; omega
  · rw [if_neg hlt, if_pos (by omega)]
    have hc : cycFromAux v L 0 (j + 1) = if v 0 then cycFromAux v L ((0 + 1) % L) j + 1 else 0 := by
      rw [cycFromAux, Nat.zero_mod]
    rw [hc]
    by_cases hv0 : v 0 = true
    · simp only [hv0, if_true]; omega
    · simp only [hv0, Bool.false_eq_true, if_false]; omega

/-! ### rotation -/

theorem cycBeforeAux_rot (v : Nat → Bool) (L s : Nat) (hL : 0 < L) : ∀ (fuel j : Nat),
    cycBeforeAux (fun k => v ((k + s) % L)) L j fuel = cycBeforeAux v L ((j + s) % L) fuel := by
  intro fuel
  induction fuel with
  | zero => intro j; rfl
  | succ fuel ih =>
    intro j
    simp only [cycBeforeAux, ih ((j + L - 1) % L), mod_pred_rot L j s hL]

theorem cycFromAux_rot (v : Nat → Bool) (L s : Nat) : ∀ (fuel j : Nat),
    cycFromAux (fun k => v ((k + s) % L)) L j fuel = cycFromAux v L ((j + s) % L) fuel := by
  intro fuel
  induction fuel with
  | zero => intro j; rfl
  | succ fuel ih =>
    intro j
    simp only [cycFromAux, ih ((j + 1) % L), mod_succ_rot, mod_self_rot]

theorem cycBefore_rot (v : Nat → Bool) (L s j : Nat) (hL : 0 < L) :
    cycBefore (fun k => v ((k + s) % L)) L j = cycBefore v L ((j + s) % L) := cycBeforeAux_rot v L s hL _ j

theorem cycFrom_rot (v : Nat → Bool) (L s j : Nat) :
    cycFrom (fun k => v ((k + s) % L)) L j = cycFrom v L ((j + s) % L) := cycFromAux_rot v L s _ j

/-- the ideal ring spec does not depend on where the stored line starts -/
theorem idealRingSpec_rot (o : Nat) (h : Rat) (L : Nat) (x : Nat → Rat) (v : Nat → Bool) (s j : Nat) (hj : j < L)
    (hb : cycBefore v L ((j + s) % L) ≤ L) :
    idealRingSpec o h L (fun k => x ((k + s) % L)) (fun k => v ((k + s) % L)) j = idealRingSpec o h L x v ((j + s) % L) := by
  have hL : 0 < L := by omega
  unfold idealRingSpec
  rw [cycBefore_rot v L s j hL, cycFrom_rot]
  split
  · congr 1
    funext k
    have hJ : (j + s) % L < L := Nat.mod_lt _ hL
    beta_reduce
    congr 1
    rw [Nat.mod_add_mod,
      show (j + s) % L + L - cycBefore v L ((j + s) % L) + k = (j + s) % L + (L - cycBefore v L ((j + s) % L) + k) by omega,
      Nat.mod_add_mod]
    congr 1
    omega
  · rfl

/-- where the ring run of a cell is not cut by the seam (it extends at most one cell beyond it on each side)
the code computes the ideal ring spec -/
theorem ringSpec_eq_ideal (o : Nat) (h : Rat) (L : Nat) (x : Nat → Rat) (v : Nat → Bool) (j : Nat) (hj : j < L)
    (hb : cycBefore v L j ≤ j + 1) (ha : cycFrom v L j ≤ L - j + 1) :
    ringSpec o h L x v j = idealRingSpec o h L x v j := by
  unfold ringSpec idealRingSpec
  rw [ringBefore_eq_min v L j hj, ringFrom_eq_min v L j hj, Nat.min_eq_left hb, Nat.min_eq_left ha]

end DFV.C04
