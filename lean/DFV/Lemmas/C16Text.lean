import DFV.Lemmas.C16Round
import DFV.Lemmas.C16Legacy
/-! C16 helper lemmas, part 7: reading the text form — every floating number of the grid has
gone through the writer's rounding `rnd`; integers (validity flags) have not. -/
namespace DFV.C16
open DFV DFV.Mesh

theorem getD_map_lt {α β} (l : List α) (f : α → β) (i : Nat) (d : β) (d' : α) (h : i < l.length) :
    (l.map f).getD i d = f (l.getD i d') := by
  simp [List.getD_eq_getElem?_getD, List.getElem?_map, List.getElem?_eq_getElem h]

theorem fromCells_rounded (f : Fld) (nx ny nz : Nat) (h : WF f nx ny nz) (g : Grid) (hg : toVtk f = .ok g)
    (rnd : Rat → Rat)
    (hlt : ∀ a, a < 3 → rnd (f.mesh.region.lo a) < rnd (f.mesh.region.hi a))
    (sidecar : Option (List (String × Region))) (m1 : Mesh)
    (hsub : loadSubs { region := plainRegion (tab 3 fun a => rnd (f.mesh.region.lo a)) (tab 3 fun a => rnd (f.mesh.region.hi a)),
                       n := [nx, ny, nz], bc := "", subs := [] } sidecar = .ok m1) :
    ∃ f', fromCells (mapGrid rnd g) sidecar = .ok f' ∧ f'.mesh = m1 ∧ f'.nvdim = f.nvdim ∧
      f'.vdims = (if f.nvdim = 1 then none else f.vdims) ∧
      ∀ idx, inRange [nx, ny, nz] idx = true →
        f'.data.get idx = (tab f.nvdim fun c => rnd ((f.data.get idx).getD c 0)) ∧
        f'.valid.get idx = f.valid.get idx := by
  obtain ⟨hnd, hl1, hl2, hax, hn0, hn1, hn2⟩ := mesh_axes f nx ny nz h
  have hg' := hg
  rw [toVtk_ok f nx ny nz h] at hg'
  injection hg' with hg'
  subst hg'
  -- the arrays of the text grid
  have hcell : (mapGrid rnd { dims := [nx + 1, ny + 1, nz + 1], coords := tab 3 fun a => f.mesh.vertices.getD a [],
                              cell := normVArr f :: (comps f ++ [fieldVArr f, validVArr f]) }).cell =
      [roundArr rnd (normVArr f)] ++ ((comps f).map (roundArr rnd) ++
        [{ fieldVArr f with vals := (fieldVArr f).vals.map rnd }, validVArr f]) := by
    rw [mapGrid_cell]
    simp [roundArr, fieldVArr, validVArr]
  have hnames : ∀ b ∈ (comps f).map (roundArr rnd), b.name ≠ "norm" ∧ b.name ≠ "field" ∧ b.name ≠ "valid" := by
    intro b hb
    obtain ⟨a, ha, rfl⟩ := List.mem_map.mp hb
    rw [roundArr_name]
    exact comps_names f nx ny nz h a ha
  have hscan : scan (mapGrid rnd { dims := [nx + 1, ny + 1, nz + 1], coords := tab 3 fun a => f.mesh.vertices.getD a [],
                                   cell := normVArr f :: (comps f ++ [fieldVArr f, validVArr f]) }).cell 0 ⟨none, none, []⟩ =
      ⟨some (1 + (comps f).length), some (2 + (comps f).length), (comps f).map fun b => b.name⟩ := by
    rw [hcell, scan_append, scan_append, scan_plain _ _ _ hnames]
    have hn : (roundArr rnd (normVArr f)).name = "norm" := by rw [roundArr_name]; rfl
    simp [scan, hn, fieldVArr, validVArr, List.map_map, Function.comp_def, roundArr_name]
    omega
  have hgetF : (mapGrid rnd { dims := [nx + 1, ny + 1, nz + 1], coords := tab 3 fun a => f.mesh.vertices.getD a [],
                              cell := normVArr f :: (comps f ++ [fieldVArr f, validVArr f]) }).cell.getD
        (1 + (comps f).length) default = { fieldVArr f with vals := (fieldVArr f).vals.map rnd } := by
    rw [hcell, Nat.add_comm]
    simp only [List.singleton_append, List.getD_cons_succ]
    rw [List.getD_eq_getElem?_getD, List.getElem?_append_right (by simp)]
    simp
  have hgetV : (mapGrid rnd { dims := [nx + 1, ny + 1, nz + 1], coords := tab 3 fun a => f.mesh.vertices.getD a [],
                              cell := normVArr f :: (comps f ++ [fieldVArr f, validVArr f]) }).cell.getD
        (2 + (comps f).length) default = validVArr f := by
    have e : 2 + (comps f).length = ((comps f).length + 1) + 1 := by omega
    rw [hcell, e]
    simp only [List.singleton_append, List.getD_cons_succ]
    rw [List.getD_eq_getElem?_getD, List.getElem?_append_right (by simp)]
    simp
  -- geometry of the text grid
  have hgn : (mapGrid rnd { dims := [nx + 1, ny + 1, nz + 1], coords := tab 3 fun a => f.mesh.vertices.getD a [],
                            cell := normVArr f :: (comps f ++ [fieldVArr f, validVArr f]) }).n = [nx, ny, nz] := by
    simp [Grid.n, mapGrid]
  have hax' : ∀ a, a < 3 →
      (mapGrid rnd { dims := [nx + 1, ny + 1, nz + 1], coords := tab 3 fun a => f.mesh.vertices.getD a [],
                     cell := normVArr f :: (comps f ++ [fieldVArr f, validVArr f]) }).ax a =
        (f.mesh.vertices.getD a []).map rnd := by
    intro a ha
    simp only [Grid.ax, mapGrid]
    rw [getD_map_lt _ _ _ _ [] (by simp; exact ha), getD_tab _ _ _ _ ha]
  have hp1 : (mapGrid rnd { dims := [nx + 1, ny + 1, nz + 1], coords := tab 3 fun a => f.mesh.vertices.getD a [],
                            cell := normVArr f :: (comps f ++ [fieldVArr f, validVArr f]) }).p1 =
      tab 3 fun a => rnd (f.mesh.region.lo a) := by
    unfold Grid.p1
    apply tab_congr
    intro a ha
    rw [hax' a ha, getD_map_lt _ _ _ _ 0 (by rw [vertices_length f.mesh a (by omega)]; omega),
      C01.vertices_eq_faces f.mesh a (by omega) (hax a ha).1 0 (by omega)]
    simp
  have hp2 : (mapGrid rnd { dims := [nx + 1, ny + 1, nz + 1], coords := tab 3 fun a => f.mesh.vertices.getD a [],
                            cell := normVArr f :: (comps f ++ [fieldVArr f, validVArr f]) }).p2 =
      tab 3 fun a => rnd (f.mesh.region.hi a) := by
    unfold Grid.p2
    apply tab_congr
    intro a ha
    have hlen := vertices_length f.mesh a (by omega : a < f.mesh.ndim)
    rw [hax' a ha, List.length_map, hlen]
    have e : f.mesh.nAt a + 1 - 1 = f.mesh.nAt a := by omega
    rw [e, getD_map_lt _ _ _ _ 0 (by rw [hlen]; omega),
      C01.vertices_eq_faces f.mesh a (by omega) (hax a ha).1 _ (le_refl _)]
    have hcov := C01.cells_cover_edges f.mesh a (hax a ha).1
    unfold Region.edge at hcov
    congr 1
    linarith
  have hmesh := meshOf_plain (tab 3 fun a => rnd (f.mesh.region.lo a)) (tab 3 fun a => rnd (f.mesh.region.hi a))
    [nx, ny, nz] (by simp) (by simp) rfl
    (by intro a ha; rw [getD_tab _ _ _ _ ha, getD_tab _ _ _ _ ha]; exact hlt a ha)
    (by
      intro k hk
      simp only [List.mem_cons, List.mem_nil_iff, or_false] at hk
      have := (hax 0 (by omega)).1; have := (hax 1 (by omega)).1; have := (hax 2 (by omega)).1
      rcases hk with rfl | rfl | rfl <;> omega)
  -- arrays
  have hfl : ((fieldVArr f).vals.map rnd).length = natProd [nx, ny, nz] * f.nvdim := by
    rw [List.length_map]
    exact flat4_length (array4 f) nx ny nz f.nvdim (array4_shape f nx ny nz h.dshape)
  have hvl : (validVArr f).vals.length = natProd [nx, ny, nz] :=
    flat3_length (validInt f) nx ny nz (by simp [validInt, NDA.map, h.vshape])
  obtain ⟨value, hvalue⟩ := unflat4_ok nx ny nz f.nvdim _ hfl
  obtain ⟨vld, hvld⟩ := unflat3_ok nx ny nz _ hvl
  have hmk := mkField_ok m1 f.nvdim (cellsOf value [nx, ny, nz] f.nvdim) (toBool vld [nx, ny, nz]) _ _ h.nv
    (vdims_read f nx ny nz h)
  refine ⟨{ mesh := m1, nvdim := f.nvdim, data := cellsOf value [nx, ny, nz] f.nvdim,
             valid := toBool vld [nx, ny, nz], vdims := if f.nvdim = 1 then none else f.vdims,
             vmap := defaultVmap f.nvdim m1.region.dims (if f.nvdim = 1 then none else f.vdims), unit := none },
    ?_, rfl, rfl, rfl, ?_⟩
  · unfold fromCells
    rw [hscan]
    simp only [hgetF]
    have e1 : (fieldVArr f).ncomp = f.nvdim := rfl
    rw [hgn, e1, hvalue]
    simp only [validOf, hgetV, hgn, hvld]
    rw [hp1, hp2, hmesh]
    simp only [hsub]
    exact hmk
  · intro idx hi
    obtain ⟨i, j, k, rfl, _, _, _⟩ := inRange3_cases nx ny nz idx hi
    constructor
    · simp only [cellsOf]
      apply tab_congr
      intro c hc
      have := unflat4_get nx ny nz f.nvdim _ value hvalue i j k c
      simp only [List.cons_append, List.nil_append]
      rw [this]
      have hlt' : flatF [nx, ny, nz] [i, j, k] * f.nvdim + c < (fieldVArr f).vals.length := by
        rw [List.length_map] at hfl
        rw [hfl]
        have := flatF_lt _ _ hi
        calc flatF [nx, ny, nz] [i, j, k] * f.nvdim + c < flatF [nx, ny, nz] [i, j, k] * f.nvdim + f.nvdim := by omega
          _ = (flatF [nx, ny, nz] [i, j, k] + 1) * f.nvdim := by ring
          _ ≤ natProd [nx, ny, nz] * f.nvdim := Nat.mul_le_mul_right _ this
      rw [getD_map_lt _ _ _ _ 0 hlt']
      have h2 := flat4_getD (array4 f) nx ny nz f.nvdim (array4_shape f nx ny nz h.dshape) _ hi c hc 0
      have e : (fieldVArr f).vals = flat4 (array4 f) := rfl
      rw [e, h2]
      exact congrArg rnd (array4_get f nx ny nz h.dshape i j k c)
    · simp only [toBool]
      rw [unflat3_get nx ny nz _ vld hvld i j k]
      have e : (validVArr f).vals = flat3 (validInt f) := rfl
      rw [e, flat3_getD (validInt f) nx ny nz (by simp [validInt, NDA.map, h.vshape]) _ hi]
      simp only [validInt, NDA.map]
      by_cases hb : f.valid.get [i, j, k] = true
      · simp [hb]
      · have hb' : f.valid.get [i, j, k] = false := by simpa using hb
        simp [hb']

end DFV.C16
