import DFV.Lemmas.C04Spec
import DFV.Model.C04Ext
/-!
Helper lemmas for C04, third part: the ring-level spec of a periodic line (`ringSpec`), the
window spec for both kinds of line (`winSpec` / `lineSpec`) and their congruence lemmas.
-/
set_option linter.unusedSimpArgs false
namespace DFV.C04
open DFV

/-! ### the padded line read through the ring -/

theorem wrap1_getD_mod {α} (xs : List α) (d : α) (hne : xs ≠ []) (k : Nat) (hk : k < xs.length + 2) :
    (wrap1 xs).getD k d = xs.getD ((k + xs.length - 1) % xs.length) d := by
  cases xs with
  | nil => exact absurd rfl hne
  | cons x xs =>
    rw [wrap1_eq]
    cases k with
    | zero =>
      have : (0 + (x :: xs).length - 1) % (x :: xs).length = xs.length := by
        simp only [List.length_cons, Nat.zero_add, Nat.add_sub_cancel]
        exact Nat.mod_eq_of_lt (by omega)
      rw [this]
      simp [List.getLast_eq_getElem, List.getD_eq_getElem?_getD]
    | succ k =>
      simp only [List.cons_append, List.getD_cons_succ]
      by_cases hle : k < (x :: xs).length
      · have : (k + 1 + (x :: xs).length - 1) % (x :: xs).length = k := by
          rw [show k + 1 + (x :: xs).length - 1 = k + (x :: xs).length by omega, Nat.add_mod_right]
          exact Nat.mod_eq_of_lt hle
        rw [this, List.getD_eq_getElem?_getD, List.getD_eq_getElem?_getD, ← List.cons_append,
          List.getElem?_append_left hle]
      · have hk' : k = (x :: xs).length := by simp only [List.length_cons] at hk hle ⊢; omega
        have : (k + 1 + (x :: xs).length - 1) % (x :: xs).length = 0 := by
          rw [hk', show (x :: xs).length + 1 + (x :: xs).length - 1 = (x :: xs).length + (x :: xs).length by omega,
            Nat.add_mod_right, Nat.mod_self]
        rw [this, hk']
        simp [List.getD_eq_getElem?_getD]

theorem valOf_wrap1 (cells : List (Rat × Bool)) (hne : cells ≠ []) (k : Nat) (hk : k < cells.length + 2) :
    valOf (wrap1 cells) k = valOf cells ((k + cells.length - 1) % cells.length) := by
  unfold valOf; rw [wrap1_getD_mod cells _ hne k hk]

theorem okOf_wrap1 (cells : List (Rat × Bool)) (hne : cells ≠ []) (k : Nat) (hk : k < cells.length + 2) :
    okOf (wrap1 cells) k = okOf cells ((k + cells.length - 1) % cells.length) := by
  unfold okOf; rw [wrap1_getD_mod cells _ hne k hk]

/-- run length before a position of the padded line, through the unpadded line -/
theorem runBefore_pad (v vP : Nat → Bool) : ∀ j, (∀ k, k < j → vP (k + 1) = v k) →
    runBefore vP (j + 1) = if runBefore v j = j then j + (if vP 0 then 1 else 0) else runBefore v j := by
  intro j
  induction j with
  | zero =>
    intro _
    simp only [runBefore]
    split <;> simp
  | succ j ih =>
    intro hs
    have ih' := ih (fun k hk => hs k (by omega))
    have hb := runBefore_le v j
    rw [show j + 1 + 1 = (j + 1) + 1 from rfl]
    conv_lhs => rw [runBefore]
    rw [hs j (by omega), ih']
    simp only [runBefore]
    by_cases hv : v j = true
    · simp only [hv, if_true]
      by_cases he : runBefore v j = j
      · simp only [he, if_true]; omega
      · have : ¬ (runBefore v j + 1 = j + 1) := by omega
        simp only [he, this, if_false]
    · have hv' : v j = false := by simpa using hv
      simp only [hv', Bool.false_eq_true, if_false]
      have : ¬ (0 = j + 1) := by omega
      simp only [this, if_false]

/-- run length from a position of the padded line on, through the unpadded line -/
theorem runFromAux_pad (v vP : Nat → Bool) (fuel : Nat) : ∀ i, (∀ k, i ≤ k → k < i + fuel → vP (k + 1) = v k) →
    runFromAux vP (i + 1) (fuel + 1)
      = if runFromAux v i fuel = fuel then fuel + (if vP (i + fuel + 1) then 1 else 0) else runFromAux v i fuel := by
  induction fuel with
  | zero =>
    intro i _
    simp only [runFromAux, Nat.add_zero]
    split <;> simp
  | succ fuel ih =>
    intro i hs
    have ih' := ih (i + 1) (fun k h1 h2 => hs k (by omega) (by omega))
    have hle := runFromAux_le v fuel (i + 1)
    conv_lhs => rw [runFromAux]
    rw [hs i (by omega) (by omega), ih']
    simp only [runFromAux]
    by_cases hv : v i = true
    · simp only [hv, if_true]
      by_cases he : runFromAux v (i + 1) fuel = fuel
      · simp only [he, if_true]
        rw [show i + 1 + fuel + 1 = i + (fuel + 1) + 1 by omega]; omega
      · have : ¬ (runFromAux v (i + 1) fuel + 1 = fuel + 1) := by omega
        simp only [he, this, if_false]
    · have hv' : v i = false := by simpa using hv
      simp only [hv', Bool.false_eq_true, if_false]
      have : ¬ (0 = fuel + 1) := by omega
      simp only [this, if_false]

theorem runFrom_pos (v : Nat → Bool) (L i : Nat) (hi : i < L) (hv : v i = true) : 0 < runFrom v L i := by
  unfold runFrom
  have : L - i = (L - i - 1) + 1 := by omega
  rw [this]; simp only [runFromAux, hv, if_true]; omega

theorem ringBefore_le (v : Nat → Bool) (L j : Nat) : ringBefore v L j ≤ j + 1 := by
  unfold ringBefore
  have := runBefore_le v j
  split
  · split <;> omega
  · omega

theorem ringFrom_le (v : Nat → Bool) (L j : Nat) : ringFrom v L j ≤ L - j + 1 := by
  unfold ringFrom
  have := runFrom_le v L j
  split
  · split <;> omega
  · omega

theorem ringFrom_pos (v : Nat → Bool) (L j : Nat) (hj : j < L) (hv : v j = true) : 0 < ringFrom v L j := by
  unfold ringFrom
  have := runFrom_pos v L j hj hv
  split
  · split <;> omega
  · omega

/-- **the periodic code path computes the ring-level spec**, every mask -/
theorem diffRing_getD_ringSpec (o : Nat) (h : Rat) (cells : List (Rat × Bool)) (j : Nat) (hj : j < cells.length) :
    (diffRing o h cells).getD j 0 = ringSpec o h cells.length (valOf cells) (okOf cells) j := by
  have hne : cells ≠ [] := by intro e; subst e; simp at hj
  have hL : 0 < cells.length := by omega
  rw [diffRing_getD o h cells j hj, diffLine_getD_spec o h (wrap1 cells) (j + 1) (by rw [wrap1_length _ hne]; omega),
    wrap1_length _ hne]
  have hs : ∀ k, k < cells.length → okOf (wrap1 cells) (k + 1) = okOf cells k := fun k hk => okOf_wrap1_succ cells k hk
  have h0 : okOf (wrap1 cells) 0 = okOf cells (cells.length - 1) := by
    rw [okOf_wrap1 cells hne 0 (by omega), Nat.zero_add, Nat.mod_eq_of_lt (by omega)]
  have hE : okOf (wrap1 cells) (cells.length + 1) = okOf cells 0 := by
    rw [okOf_wrap1 cells hne _ (by omega),
      show cells.length + 1 + cells.length - 1 = cells.length + cells.length by omega, Nat.add_mod_right, Nat.mod_self]
  have eB : runBefore (okOf (wrap1 cells)) (j + 1) = ringBefore (okOf cells) cells.length j := by
    rw [runBefore_pad (okOf cells) _ j (fun k hk => hs k (by omega)), h0]; rfl
  have eA : runFrom (okOf (wrap1 cells)) (cells.length + 2) (j + 1) = ringFrom (okOf cells) cells.length j := by
    unfold runFrom ringFrom
    rw [show cells.length + 2 - (j + 1) = (cells.length - j) + 1 by omega,
      runFromAux_pad (okOf cells) _ (cells.length - j) j (fun k h1 h2 => hs k (by omega)),
      show j + (cells.length - j) + 1 = cells.length + 1 by omega, hE]
    unfold runFrom
    have hle := runFromAux_le (okOf cells) (cells.length - j) j
    by_cases he : runFromAux (okOf cells) j (cells.length - j) = cells.length - j
    · have : j + runFromAux (okOf cells) j (cells.length - j) = cells.length := by omega
      rw [if_pos he, if_pos this, he]
    · have : ¬ (j + runFromAux (okOf cells) j (cells.length - j) = cells.length) := by omega
      rw [if_neg he, if_neg this]
  unfold diffSpec ringSpec
  rw [hs j hj, eB, eA]
  split
  · rename_i hv
    have hb := ringBefore_le (okOf cells) cells.length j
    have ha := ringFrom_le (okOf cells) cells.length j
    have hp := ringFrom_pos (okOf cells) cells.length j hj hv
    apply dAt_congr _ _ _ _ _ _ _ (by omega)
    intro k hk
    rw [valOf_wrap1 cells hne _ (by omega)]
    congr 2
    omega
  · rfl

/-! ### the window spec for both kinds of line -/

theorem diffSpec_eq_winSpec (o : Nat) (h : Rat) (L : Nat) (x : Nat → Rat) (v : Nat → Bool) (j : Nat) (hj : j < L) :
    diffSpec o h L x v j = winSpec false o h L x v j := by
  unfold diffSpec winSpec winIdx winB winA
  simp only [Bool.false_eq_true, if_false]
  split
  · rename_i hv
    have hb := runBefore_le v j
    have ha := runFrom_le v L j
    have hp := runFrom_pos v L j hj hv
    apply dAt_congr _ _ _ _ _ _ _ (by omega)
    intro k hk
    congr 1
    rw [show j + L - runBefore v j + k = (j - runBefore v j + k) + L by omega, Nat.add_mod_right]
    exact (Nat.mod_eq_of_lt (by omega)).symm
  · rfl

theorem ringSpec_eq_winSpec (o : Nat) (h : Rat) (L : Nat) (x : Nat → Rat) (v : Nat → Bool) (j : Nat) :
    ringSpec o h L x v j = winSpec true o h L x v j := by
  unfold ringSpec winSpec winIdx winB winA
  simp only [if_true]

theorem winB_congr (p : Bool) (v v' : Nat → Bool) (L j : Nat) (hj : j < L) (hv : ∀ k, k < L → v k = v' k) :
    winB p v L j = winB p v' L j := by
  unfold winB ringBefore
  rw [runBefore_congr v v' j (fun k hk => hv k (by omega)), hv (L - 1) (by omega)]

theorem winA_congr (p : Bool) (v v' : Nat → Bool) (L j : Nat) (hj : j < L) (hv : ∀ k, k < L → v k = v' k) :
    winA p v L j = winA p v' L j := by
  unfold winA ringFrom
  have : runFrom v L j = runFrom v' L j := runFromAux_congr v v' _ j (fun k h1 h2 => hv k (by omega))
  rw [this, hv 0 (by omega)]

theorem winB_le (p : Bool) (v : Nat → Bool) (L j : Nat) : winB p v L j ≤ j + 1 := by
  unfold winB
  split
  · exact ringBefore_le v L j
  · have := runBefore_le v j; omega

theorem winA_pos (p : Bool) (v : Nat → Bool) (L j : Nat) (hj : j < L) (hv : v j = true) : 0 < winA p v L j := by
  unfold winA
  split
  · exact ringFrom_pos v L j hj hv
  · exact runFrom_pos v L j hj hv

theorem winIdx_lt (p : Bool) (v : Nat → Bool) (L j k : Nat) (hL : 0 < L) : winIdx p v L j k < L :=
  Nat.mod_lt _ hL

/-- `winSpec` reads values and validity inside the line only -/
theorem winSpec_congr (p : Bool) (o : Nat) (h : Rat) (L : Nat) (x x' : Nat → Rat) (v v' : Nat → Bool) (j : Nat) (hj : j < L)
    (hx : ∀ k, k < L → x k = x' k) (hv : ∀ k, k < L → v k = v' k) :
    winSpec p o h L x v j = winSpec p o h L x' v' j := by
  unfold winSpec
  rw [hv j hj, winB_congr p v v' L j hj hv, winA_congr p v v' L j hj hv]
  split
  · rename_i hvj
    have hp := winA_pos p v' L j hj hvj
    apply dAt_congr _ _ _ _ _ _ _ (by omega)
    intro k _
    unfold winIdx
    rw [winB_congr p v v' L j hj hv]
    exact hx _ (Nat.mod_lt _ (by omega))
  · rfl

theorem okOf_map_allTrue (cells : List (Rat × Bool)) (j : Nat) (hj : j < cells.length) :
    okOf (cells.map fun c => (c.1, true)) j = true := by
  unfold okOf
  simp [List.getD_eq_getElem?_getD, List.getElem?_map, List.getElem?_eq_getElem hj]

theorem valOf_map_allTrue (cells : List (Rat × Bool)) (j : Nat) :
    valOf (cells.map fun c => (c.1, true)) j = valOf cells j := by
  unfold valOf
  simp only [List.getD_eq_getElem?_getD, List.getElem?_map]
  cases cells[j]? <;> rfl

/-- **every line as `Field.diff` differentiates it computes `lineSpec`**: periodic or open, restricted
or not, every mask -/
theorem diffLine'_getD_lineSpec (p r : Bool) (o : Nat) (h : Rat) (cells : List (Rat × Bool)) (j : Nat) (hj : j < cells.length) :
    (diffLine' p r o h cells).getD j 0 = lineSpec p r o h cells.length (valOf cells) (okOf cells) j := by
  unfold diffLine' lineSpec
  cases r
  · -- restriction off: every cell counts as valid
    simp only [Bool.false_eq_true, if_false]
    have hl : (cells.map fun c => (c.1, true)).length = cells.length := by simp
    have hcongr : winSpec p o h cells.length (valOf (cells.map fun c => (c.1, true))) (okOf (cells.map fun c => (c.1, true))) j
        = winSpec p o h cells.length (valOf cells) (effOk false (okOf cells)) j :=
      winSpec_congr p o h _ _ _ _ _ j hj (fun k _ => valOf_map_allTrue cells k)
        (fun k hk => by rw [okOf_map_allTrue cells k hk]; rfl)
    cases p
    · simp only [Bool.false_eq_true, if_false]
      rw [diffLine_getD_spec _ _ _ _ (by rw [hl]; exact hj), hl, diffSpec_eq_winSpec _ _ _ _ _ _ hj, hcongr]
    · simp only [if_true]
      rw [diffRing_getD_ringSpec _ _ _ _ (by rw [hl]; exact hj), hl, ringSpec_eq_winSpec, hcongr]
  · simp only [if_true]
    have hcongr : winSpec p o h cells.length (valOf cells) (okOf cells) j
        = winSpec p o h cells.length (valOf cells) (effOk true (okOf cells)) j :=
      winSpec_congr p o h _ _ _ _ _ j hj (fun _ _ => rfl) (fun k _ => by simp [effOk])
    cases p
    · simp only [Bool.false_eq_true, if_false]
      rw [diffLine_getD_spec _ _ _ _ hj, diffSpec_eq_winSpec _ _ _ _ _ _ hj, hcongr]
    · simp only [if_true]
      rw [diffRing_getD_ringSpec _ _ _ _ hj, ringSpec_eq_winSpec, hcongr]

end DFV.C04
