import DFV.Lemmas.C18AutoN
import DFV.Model.C18Ext
/-! Exact acceptance conditions of `rotate` (C18). -/
namespace DFV.C18
open DFV

/-- the component order exists exactly for scalar fields and for fields in which every spatial
axis has a component -/
theorem ordFor_ok_iff (f : Fld) :
    (∃ ord, ordFor f = .ok ord) ↔ (f.nvdim = 1 ∨ ∀ a, a < 3 → ∃ k, ordAt f a = some k) := by
  constructor
  · rintro ⟨ord, h⟩
    by_cases h1 : f.nvdim = 1
    · exact Or.inl h1
    · exact Or.inr fun a ha => ⟨_, ordFor_getD f ord h h1 a ha⟩
  · rintro (h1 | h)
    · exact ⟨[], by unfold ordFor; rw [if_pos h1]⟩
    · by_cases h1 : f.nvdim = 1
      · exact ⟨[], by unfold ordFor; rw [if_pos h1]⟩
      · obtain ⟨a, ha⟩ := h 0 (by omega)
        obtain ⟨b, hb⟩ := h 1 (by omega)
        obtain ⟨c, hc⟩ := h 2 (by omega)
        exact ⟨[a, b, c], by unfold ordFor; rw [if_neg h1, ha, hb, hc]⟩

/-- an axis has a component exactly if some label is mapped to it, provided every mapped label
is a component label -/
theorem ordAt_some_iff (f : Fld) (hkeys : ∀ p ∈ f.vmap, ∃ k, f.vdimIndex p.1 = some k) (a : Nat) :
    (∃ k, ordAt f a = some k) ↔ ∃ p ∈ f.vmap, p.2 = f.mesh.region.dims.getD a "" := by
  constructor
  · rintro ⟨k, hk⟩
    exact ⟨_, ordAt_label f a k hk, rfl⟩
  · intro h
    obtain ⟨l, hl⟩ := rDimLast_isSome f _ h
    obtain ⟨k, hk⟩ := hkeys _ (rDimLast_some f _ l hl)
    exact ⟨k, by unfold ordAt; rw [hl]; exact hk⟩

/-- the `Mesh` constructor on a default-named 3-d region: three non-zero counts, exactly -/
theorem mkN_ok_iff (reg : Region) (hnd : reg.ndim = 3) (n : List Nat) :
    (∃ nm, Mesh.mkN? reg n = .ok nm) ↔ (n.length = 3 ∧ ∀ k ∈ n, k ≠ 0) := by
  constructor
  · rintro ⟨nm, h⟩
    obtain ⟨_, _, hl, hp, _⟩ := mkN?_ok_inv reg n nm h
    exact ⟨by rw [hl, hnd], hp⟩
  · rintro ⟨hl, hp⟩
    exact ⟨_, mkN_accepts reg hnd n hl hp⟩

/-- **`rotateOnce` succeeds exactly** when `n` (if given) has three non-zero entries and the
field is scalar or every spatial axis has a component -/
theorem rotateOnce_ok_iff (f : Fld) (hm : Mesh3 f.mesh) {R : M3} (hR : R.IsRot) (n? : Option (List Nat)) :
    (∃ g, rotateOnce f R n? = .ok g) ↔
      ((∀ n, n? = some n → n.length = 3 ∧ ∀ k ∈ n, k ≠ 0) ∧ (f.nvdim = 1 ∨ ∀ a, a < 3 → ∃ k, ordAt f a = some k)) := by
  constructor
  · rintro ⟨g, h⟩
    obtain ⟨reg, nm, ord, hreg, hmk, ho, _⟩ := rotateOnce_ok_inv f R n? g h
    refine ⟨?_, (ordFor_ok_iff f).mp ⟨ord, ho⟩⟩
    intro n hn
    subst hn
    simp only [Option.getD_some] at hmk
    have hnd : reg.ndim = 3 := by unfold Region.ndim; rw [(newRegion_ok_inv f R reg hreg).1]; simp
    exact (mkN_ok_iff reg hnd n).mp ⟨nm, hmk⟩
  · rintro ⟨hn, ho⟩
    obtain ⟨ord, ho⟩ := (ordFor_ok_iff f).mpr ho
    exact ⟨_, rotateOnce_accepts f hm hR ord ho n? hn⟩

/-- the result does not depend on the boundary conditions, subregions, validity mask or unit of
the original field -/
theorem rotateOnce_ignores (f : Fld) (R : M3) (n? : Option (List Nat)) (bc : String) (subs : List (String × Region))
    (valid : NDA Bool) (unit : Option String) :
    rotateOnce { f with mesh := { f.mesh with bc := bc, subs := subs }, valid := valid, unit := unit } R n? = rotateOnce f R n? := rfl

theorem init_ignores (f : Fld) (bc : String) (subs : List (String × Region)) (valid : NDA Bool) (unit : Option String) :
    (∃ s, init? { f with mesh := { f.mesh with bc := bc, subs := subs }, valid := valid, unit := unit } = .ok s) ↔
      ∃ s, init? f = .ok s := by
  unfold init?
  simp only
  constructor
  · rintro ⟨s, h⟩
    split at h
    · cases h
    · rename_i h1
      split at h
      · cases h
      · rename_i h2
        split at h
        · cases h
        · rename_i h3
          exact ⟨_, by rw [if_neg h1, if_neg h2, if_neg h3]⟩
  · rintro ⟨s, h⟩
    split at h
    · cases h
    · rename_i h1
      split at h
      · cases h
      · rename_i h2
        split at h
        · cases h
        · rename_i h3
          exact ⟨_, by rw [if_neg h1, if_neg h2, if_neg h3]⟩

end DFV.C18
