import DFV.Lemmas.C18QuarterK
/-! Acceptance: well-formed inputs are not refused by `FieldRotator` (`newRegion`, `Mesh`,
component order, automatic cell counts). -/
namespace DFV.C18
open DFV DFV.Mesh

/-- rows of a rotation matrix are unit vectors -/
theorem M3.IsRot.row_norm {Q : M3} (h : Q.IsRot) (i : Nat) (hi : i < 3) :
    Q.e i 0 * Q.e i 0 + Q.e i 1 * Q.e i 1 + Q.e i 2 * Q.e i 2 = 1 := by
  have hm := h.mul_tr
  have ci : i = 0 ∨ i = 1 ∨ i = 2 := by omega
  rcases ci with e | e | e <;> subst e
  · have := congrArg (fun M : M3 => M.r0.x) hm
    simpa [M3.mul, M3.apply, M3.tr, V3.dot, M3.one, M3.e, M3.row, V3.get] using this
  · have := congrArg (fun M : M3 => M.r1.y) hm
    simpa [M3.mul, M3.apply, M3.tr, V3.dot, M3.one, M3.e, M3.row, V3.get] using this
  · have := congrArg (fun M : M3 => M.r2.z) hm
    simpa [M3.mul, M3.apply, M3.tr, V3.dot, M3.one, M3.e, M3.row, V3.get] using this

/-- the summed absolute rotated extents are positive on every axis: a rotated box is not flat -/
theorem sumAbs_pos {R : M3} (h : R.IsRot) (w : V3) (hx : 0 < w.x) (hy : 0 < w.y) (hz : 0 < w.z) (i : Nat) (hi : i < 3) :
    0 < sumAbs R w i := by
  by_contra hc
  have h0 := absR_nonneg (R.e i 0 * w.x)
  have h1 := absR_nonneg (R.e i 1 * w.y)
  have h2 := absR_nonneg (R.e i 2 * w.z)
  unfold sumAbs at hc
  have z0 : absR (R.e i 0 * w.x) = 0 := by linarith
  have z1 : absR (R.e i 1 * w.y) = 0 := by linarith
  have z2 : absR (R.e i 2 * w.z) = 0 := by linarith
  rw [absR_eq_abs, abs_eq_zero] at z0 z1 z2
  have e0 : R.e i 0 = 0 := by
    rcases mul_eq_zero.mp z0 with e | e
    · exact e
    · linarith
  have e1 : R.e i 1 = 0 := by
    rcases mul_eq_zero.mp z1 with e | e
    · exact e
    · linarith
  have e2 : R.e i 2 = 0 := by
    rcases mul_eq_zero.mp z2 with e | e
    · exact e
    · linarith
  have := h.row_norm i hi
  rw [e0, e1, e2] at this
  norm_num at this

theorem edgesV_pos (m : Mesh) (hm : Mesh3 m) : 0 < (edgesV m).x ∧ 0 < (edgesV m).y ∧ 0 < (edgesV m).z :=
  ⟨edge_pos m 0 (hm 0 (by omega)), edge_pos m 1 (hm 1 (by omega)), edge_pos m 2 (hm 2 (by omega))⟩

theorem cellV_pos (m : Mesh) (hm : Mesh3 m) : 0 < (cellV m).x ∧ 0 < (cellV m).y ∧ 0 < (cellV m).z :=
  ⟨cell_pos m 0 (hm 0 (by omega)), cell_pos m 1 (hm 1 (by omega)), cell_pos m 2 (hm 2 (by omega))⟩

/-- the region the code builds when it accepts -/
def boxRegion (f : Fld) (R : M3) : Region :=
  ⟨tab 3 (boxLo f R), tab 3 (boxHi f R), ["x", "y", "z"], ["m", "m", "m"], 1/1000000000000⟩

/-- the bounding box of a rotated well-formed region is never refused -/
theorem newRegion_accepts (f : Fld) (hm : Mesh3 f.mesh) {R : M3} (hR : R.IsRot) : newRegion f R = .ok (boxRegion f R) := by
  obtain ⟨e0, e1, e2⟩ := edgesV_pos f.mesh hm
  have hpos := sumAbs_pos hR (edgesV f.mesh) e0 e1 e2
  unfold newRegion Region.mk?
  simp only [tab_length, ne_eq, not_true_eq_false, if_false, Region.dimsOk, Region.unitsOk, Nat.succ_ne_zero]
  have hall : allLt 3 (fun a => decide ((tab 3 fun i => centreAt f.mesh i - sumAbs R (edgesV f.mesh) i / 2).getD a 0
      ≠ (tab 3 fun i => centreAt f.mesh i + sumAbs R (edgesV f.mesh) i / 2).getD a 0)) = true := by
    rw [allLt_iff]
    intro a ha
    rw [getD_tab _ _ _ _ ha, getD_tab _ _ _ _ ha]
    have := hpos a ha
    simp only [ne_eq, decide_eq_true_eq]
    intro e; linarith
  simp only [ne_eq] at hall
  rw [hall]
  simp only [Bool.not_true, Bool.false_eq_true, if_false]
  unfold boxRegion
  congr 2
  · apply tab_congr; intro a ha
    rw [getD_tab _ _ _ _ ha, getD_tab _ _ _ _ ha]
    have := hpos a ha
    unfold boxLo
    exact min_eq_left (by linarith)
  · apply tab_congr; intro a ha
    rw [getD_tab _ _ _ _ ha, getD_tab _ _ _ _ ha]
    have := hpos a ha
    unfold boxHi
    exact max_eq_right (by linarith)

theorem boxRegion_ndim (f : Fld) (R : M3) : (boxRegion f R).ndim = 3 := by
  unfold boxRegion Region.ndim; simp

theorem toLower_empty' : ("" : String).toLower = "" := by
  unfold String.toLower
  exact String.map_eq_empty.mpr rfl

/-- three positive cell counts on a default-named 3-d region give a mesh -/
theorem mkN_accepts (reg : Region) (hnd : reg.ndim = 3) (n : List Nat) (hl : n.length = 3) (hpos : ∀ k ∈ n, k ≠ 0) :
    Mesh.mkN? reg n = .ok ⟨reg, n, "", []⟩ := by
  unfold Mesh.mkN?
  rw [if_neg (by rw [hl, hnd]; simp)]
  have hany : n.any (· = 0) = false := by
    rw [List.any_eq_false]
    intro k hk
    simpa using hpos k hk
  rw [hany]
  simp only [Bool.false_eq_true, if_false]
  have hb : Mesh.bcOk reg.dims ("" : String).toLower = true := by
    rw [toLower_empty']; unfold Mesh.bcOk; simp
  rw [hb]
  simp only [Bool.not_true, Bool.false_eq_true, if_false]
  rw [toLower_empty']

/-! ## the component order -/

theorem indexOf?_getD (xs : List String) (x : String) (k : Nat) (h : indexOf? xs x = some k) : xs.getD k "" = x := by
  have key : ∀ (ys : List String) (off k : Nat), indexOf?.go x ys off = some k → off ≤ k ∧ ys.getD (k - off) "" = x := by
    intro ys
    induction ys with
    | nil => intro off k h; simp [indexOf?.go] at h
    | cons y ys ih =>
      intro off k h
      simp only [indexOf?.go] at h
      split at h
      · rename_i hy
        injection h with h; subst h; simp [hy]
      · obtain ⟨h1, h2⟩ := ih (off + 1) k h
        refine ⟨by omega, ?_⟩
        have : k - off = (k - (off + 1)) + 1 := by omega
        rw [this, List.getD_cons_succ]; exact h2
  have := key xs 0 k h
  simpa using this.2

theorem rDimLast_some (f : Fld) (d l : String) (h : rDimLast f d = some l) : (l, d) ∈ f.vmap := by
  unfold rDimLast at h
  cases hf : f.vmap.reverse.find? (fun p => p.2 == d) with
  | none => rw [hf] at h; cases h
  | some p =>
    rw [hf] at h
    simp only [Option.map_some, Option.some.injEq] at h
    have hm := List.mem_of_find?_eq_some hf
    have hp := List.find?_some hf
    simp only [beq_iff_eq] at hp
    rw [List.mem_reverse] at hm
    have : p = (l, d) := by rw [← h, ← hp]
    rw [← this]; exact hm

theorem rDimLast_isSome (f : Fld) (d : String) (h : ∃ p ∈ f.vmap, p.2 = d) : ∃ l, rDimLast f d = some l := by
  obtain ⟨p, hp, hd⟩ := h
  have : (f.vmap.reverse.find? (fun p => p.2 == d)).isSome := by
    rw [List.find?_isSome]
    exact ⟨p, List.mem_reverse.mpr hp, by simp [hd]⟩
  obtain ⟨q, hq⟩ := Option.isSome_iff_exists.mp this
  exact ⟨q.1, by unfold rDimLast; rw [hq]; rfl⟩

/-- a complete mapping is accepted: if every spatial axis is the image of some mapped label
and every mapped label is a component label, `ordered_idx` exists -/
theorem ordFor_accepts (f : Fld)
    (hsur : ∀ a, a < 3 → ∃ p ∈ f.vmap, p.2 = f.mesh.region.dims.getD a "")
    (hkeys : ∀ p ∈ f.vmap, ∃ k, f.vdimIndex p.1 = some k) : ∃ ord, ordFor f = .ok ord := by
  unfold ordFor
  by_cases h1 : f.nvdim = 1
  · exact ⟨[], by rw [if_pos h1]⟩
  · rw [if_neg h1]
    have hat : ∀ a, a < 3 → ∃ k, ordAt f a = some k := by
      intro a ha
      obtain ⟨l, hl⟩ := rDimLast_isSome f _ (hsur a ha)
      obtain ⟨k, hk⟩ := hkeys _ (rDimLast_some f _ l hl)
      exact ⟨k, by unfold ordAt; rw [hl]; exact hk⟩
    obtain ⟨a, ha⟩ := hat 0 (by omega)
    obtain ⟨b, hb⟩ := hat 1 (by omega)
    obtain ⟨c, hc⟩ := hat 2 (by omega)
    exact ⟨[a, b, c], by rw [ha, hb, hc]⟩

theorem ordAt_label (f : Fld) (a k : Nat) (h : ordAt f a = some k) :
    ((f.vdims.getD []).getD k "", f.mesh.region.dims.getD a "") ∈ f.vmap := by
  unfold ordAt at h
  cases hr : rDimLast f (f.mesh.region.dims.getD a "") with
  | none => rw [hr] at h; simp at h
  | some lbl =>
    rw [hr] at h
    simp only [Option.bind_some] at h
    unfold Fld.vdimIndex at h
    cases hv : f.vdims with
    | none => rw [hv] at h; cases h
    | some vs =>
      rw [hv] at h
      simp only at h
      have := indexOf?_getD vs lbl k h
      simp only [Option.getD_some]
      rw [this]
      exact rDimLast_some f _ lbl hr

theorem ordFor_getD (f : Fld) (ord : List Nat) (h : ordFor f = .ok ord) (h1 : f.nvdim ≠ 1) (a : Nat) (ha : a < 3) :
    ordAt f a = some (ord.getD a 0) := by
  unfold ordFor at h
  rw [if_neg h1] at h
  cases h0 : ordAt f 0 with
  | none => rw [h0] at h; cases h
  | some x =>
    cases h1' : ordAt f 1 with
    | none => rw [h0, h1'] at h; cases h
    | some y =>
      cases h2 : ordAt f 2 with
      | none => rw [h0, h1', h2] at h; cases h
      | some z =>
        rw [h0, h1', h2] at h
        injection h with h
        subst h
        have : a = 0 ∨ a = 1 ∨ a = 2 := by omega
        rcases this with e | e | e <;> subst e
        · exact h0
        · exact h1'
        · exact h2

/-- **`ordered_idx` is a permutation**: for a 3-vector field with three labels, distinct axis
names and a mapping in which no label occurs twice, a successful component order lists three
distinct component positions -/
theorem ordFor_perm (f : Fld) (ord : List Nat) (h : ordFor f = .ok ord) (h3 : f.nvdim = 3)
    (hl : (f.vdims.getD []).length = 3)
    (hdims : ∀ a b, a < 3 → b < 3 → a ≠ b → f.mesh.region.dims.getD a "" ≠ f.mesh.region.dims.getD b "")
    (hkey : ∀ x ∈ f.vmap, ∀ y ∈ f.vmap, x.1 = y.1 → x = y) : PermOrd ord := by
  have h1 : f.nvdim ≠ 1 := by omega
  have lt : ∀ a, a < 3 → ord.getD a 0 < 3 := by
    intro a ha; have := ordFor_lt f ord h h1 a ha; omega
  have ne : ∀ a b, a < 3 → b < 3 → a ≠ b → ord.getD a 0 ≠ ord.getD b 0 := by
    intro a b ha hb hab e
    have ma := ordAt_label f a _ (ordFor_getD f ord h h1 a ha)
    have mb := ordAt_label f b _ (ordFor_getD f ord h h1 b hb)
    rw [e] at ma
    have := hkey _ ma _ mb rfl
    exact hdims a b ha hb hab (congrArg Prod.snd this)
  exact ⟨lt 0 (by omega), lt 1 (by omega), lt 2 (by omega), ne 0 1 (by omega) (by omega) (by omega),
    ne 0 2 (by omega) (by omega) (by omega), ne 1 2 (by omega) (by omega) (by omega)⟩

/-- with a one-to-one mapping the first and the last label mapped to an axis coincide: the
reverse mapping of C12 (`Fld.rDim`) is the one `FieldRotator` reads (`_r_dim_mapping`) -/
theorem find?_reverse_unique {α} (l : List α) (P : α → Bool) (hu : ∀ x ∈ l, ∀ y ∈ l, P x = true → P y = true → x = y) :
    l.reverse.find? P = l.find? P := by
  induction l with
  | nil => rfl
  | cons a t ih =>
    rw [List.reverse_cons, List.find?_append]
    have iht := ih (fun x hx y hy => hu x (List.mem_cons_of_mem _ hx) y (List.mem_cons_of_mem _ hy))
    by_cases hp : P a = true
    · rw [List.find?_cons_of_pos (l := t) hp]
      cases ht : t.reverse.find? P with
      | none => simp [hp]
      | some y =>
        have hy := List.mem_of_find?_eq_some ht
        have hpy := List.find?_some ht
        rw [List.mem_reverse] at hy
        have := hu y (List.mem_cons_of_mem _ hy) a (List.mem_cons_self) hpy hp
        simp [this]
    · rw [List.find?_cons_of_neg (l := t) hp, iht]
      simp [hp]

theorem rDimLast_eq_rDim (f : Fld) (hval : ∀ x ∈ f.vmap, ∀ y ∈ f.vmap, x.2 = y.2 → x = y) (d : String) :
    rDimLast f d = f.rDim d := by
  unfold rDimLast Fld.rDim
  rw [find?_reverse_unique]
  intro x hx y hy px py
  simp only [beq_iff_eq] at px py
  exact hval x hx y hy (by rw [px, py])

end DFV.C18
