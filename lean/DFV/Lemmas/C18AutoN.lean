import DFV.Lemmas.C18Accept
/-! The automatic cell counts of `_calculate_new_n` are positive for every rotation: the
bounding box of the rotated cell is at least as large as the cell (permanent ≥ determinant). -/
namespace DFV.C18
open DFV DFV.Mesh

/-- product of three row sums ≥ permanent × product of the weights (all quantities non-negative) -/
theorem prod_rows_ge_perm (a b c d e f g h i x y z : Rat) (ha : 0 ≤ a) (hb : 0 ≤ b) (hc : 0 ≤ c) (hd : 0 ≤ d)
    (he : 0 ≤ e) (hf : 0 ≤ f) (hg : 0 ≤ g) (hh : 0 ≤ h) (hi : 0 ≤ i) (hx : 0 ≤ x) (hy : 0 ≤ y) (hz : 0 ≤ z) :
    (a*e*i + a*f*h + b*d*i + b*f*g + c*d*h + c*e*g) * (x*y*z)
      ≤ (a*x + b*y + c*z) * (d*x + e*y + f*z) * (g*x + h*y + i*z) := by
  have key : (a*x + b*y + c*z) * (d*x + e*y + f*z) * (g*x + h*y + i*z)
      = (a*e*i + a*f*h + b*d*i + b*f*g + c*d*h + c*e*g) * (x*y*z) + (a*d*g*x*x*x + a*d*h*x*x*y + a*d*i*x*x*z + a*e*g*x*y*x + a*e*h*x*y*y + a*f*g*x*z*x + a*f*i*x*z*z + b*d*g*y*x*x + b*d*h*y*x*y + b*e*g*y*y*x + b*e*h*y*y*y + b*e*i*y*y*z + b*f*h*y*z*y + b*f*i*y*z*z + c*d*g*z*x*x + c*d*i*z*x*z + c*e*h*z*y*y + c*e*i*z*y*z + c*f*g*z*z*x + c*f*h*z*z*y + c*f*i*z*z*z) := by ring
  have hpos : 0 ≤ a*d*g*x*x*x + a*d*h*x*x*y + a*d*i*x*x*z + a*e*g*x*y*x + a*e*h*x*y*y + a*f*g*x*z*x + a*f*i*x*z*z + b*d*g*y*x*x + b*d*h*y*x*y + b*e*g*y*y*x + b*e*h*y*y*y + b*e*i*y*y*z + b*f*h*y*z*y + b*f*i*y*z*z + c*d*g*z*x*x + c*d*i*z*x*z + c*e*h*z*y*y + c*e*i*z*y*z + c*f*g*z*z*x + c*f*h*z*z*y + c*f*i*z*z*z := by positivity
  linarith

theorem mul3_le_abs (u v w : Rat) : u * v * w ≤ |u| * |v| * |w| := by
  rw [← abs_mul, ← abs_mul]; exact le_abs_self _

theorem neg_mul3_le_abs (u v w : Rat) : -(u * v * w) ≤ |u| * |v| * |w| := by
  rw [← abs_mul, ← abs_mul]; exact neg_le_abs _

/-- permanent of the absolute values ≥ determinant -/
theorem det_le_perm_abs (Q : M3) :
    Q.det ≤ |Q.r0.x| * |Q.r1.y| * |Q.r2.z| + |Q.r0.x| * |Q.r1.z| * |Q.r2.y| + |Q.r0.y| * |Q.r1.x| * |Q.r2.z|
      + |Q.r0.y| * |Q.r1.z| * |Q.r2.x| + |Q.r0.z| * |Q.r1.x| * |Q.r2.y| + |Q.r0.z| * |Q.r1.y| * |Q.r2.x| := by
  have h1 := mul3_le_abs Q.r0.x Q.r1.y Q.r2.z
  have h2 := neg_mul3_le_abs Q.r0.x Q.r1.z Q.r2.y
  have h3 := neg_mul3_le_abs Q.r0.y Q.r1.x Q.r2.z
  have h4 := mul3_le_abs Q.r0.y Q.r1.z Q.r2.x
  have h5 := mul3_le_abs Q.r0.z Q.r1.x Q.r2.y
  have h6 := neg_mul3_le_abs Q.r0.z Q.r1.y Q.r2.x
  have hd : Q.det = Q.r0.x * Q.r1.y * Q.r2.z + -(Q.r0.x * Q.r1.z * Q.r2.y) + -(Q.r0.y * Q.r1.x * Q.r2.z)
      + Q.r0.y * Q.r1.z * Q.r2.x + Q.r0.z * Q.r1.x * Q.r2.y + -(Q.r0.z * Q.r1.y * Q.r2.x) := by
    unfold M3.det; ring
  rw [hd]; linarith

theorem sumAbs_eq (R : M3) (w : V3) (hx : 0 ≤ w.x) (hy : 0 ≤ w.y) (hz : 0 ≤ w.z) (i : Nat) :
    sumAbs R w i = |R.e i 0| * w.x + |R.e i 1| * w.y + |R.e i 2| * w.z := by
  unfold sumAbs
  rw [absR_eq_abs, absR_eq_abs, absR_eq_abs, abs_mul, abs_mul, abs_mul, abs_of_nonneg hx, abs_of_nonneg hy, abs_of_nonneg hz]

/-- the bounding box of a rotated cell has at least the volume of the cell -/
theorem prod_sumAbs_ge {R : M3} (hR : R.IsRot) (w : V3) (hx : 0 ≤ w.x) (hy : 0 ≤ w.y) (hz : 0 ≤ w.z) :
    w.x * w.y * w.z ≤ sumAbs R w 0 * sumAbs R w 1 * sumAbs R w 2 := by
  rw [sumAbs_eq R w hx hy hz 0, sumAbs_eq R w hx hy hz 1, sumAbs_eq R w hx hy hz 2]
  have hp := prod_rows_ge_perm |R.e 0 0| |R.e 0 1| |R.e 0 2| |R.e 1 0| |R.e 1 1| |R.e 1 2| |R.e 2 0| |R.e 2 1| |R.e 2 2|
    w.x w.y w.z (abs_nonneg _) (abs_nonneg _) (abs_nonneg _) (abs_nonneg _) (abs_nonneg _) (abs_nonneg _)
    (abs_nonneg _) (abs_nonneg _) (abs_nonneg _) hx hy hz
  have hd := det_le_perm_abs R
  rw [hR.2] at hd
  have hv : 0 ≤ w.x * w.y * w.z := by positivity
  have : w.x * w.y * w.z ≤ (|R.e 0 0| * |R.e 1 1| * |R.e 2 2| + |R.e 0 0| * |R.e 1 2| * |R.e 2 1| + |R.e 0 1| * |R.e 1 0| * |R.e 2 2|
      + |R.e 0 1| * |R.e 1 2| * |R.e 2 0| + |R.e 0 2| * |R.e 1 0| * |R.e 2 1| + |R.e 0 2| * |R.e 1 1| * |R.e 2 0|) * (w.x * w.y * w.z) := by
    have hd' : (1 : Rat) ≤ |R.e 0 0| * |R.e 1 1| * |R.e 2 2| + |R.e 0 0| * |R.e 1 2| * |R.e 2 1| + |R.e 0 1| * |R.e 1 0| * |R.e 2 2|
      + |R.e 0 1| * |R.e 1 2| * |R.e 2 0| + |R.e 0 2| * |R.e 1 0| * |R.e 2 1| + |R.e 0 2| * |R.e 1 1| * |R.e 2 0| := hd
    nlinarith
  linarith

/-- the rotated region is at least as long as the rotated cell on every axis -/
theorem sumAbs_edges_ge_cells (m : Mesh) (hm : Mesh3 m) (R : M3) (i : Nat) :
    sumAbs R (cellV m) i ≤ sumAbs R (edgesV m) i := by
  obtain ⟨c0, c1, c2⟩ := cellV_nonneg m hm
  obtain ⟨e0, e1, e2⟩ := edgesV_nonneg m hm
  rw [sumAbs_eq R _ c0 c1 c2, sumAbs_eq R _ e0 e1 e2]
  have ge : ∀ a, a < 3 → m.cellAt a ≤ m.region.edge a := by
    intro a ha
    have hcov := n_mul_cell m a (hm a ha)
    have hc := cell_pos m a (hm a ha)
    have hn : (1 : Rat) ≤ (m.nAt a : Rat) := by exact_mod_cast (hm a ha).2
    unfold Region.edge; nlinarith
  have g0 := ge 0 (by omega)
  have g1 := ge 1 (by omega)
  have g2 := ge 2 (by omega)
  have a0 := abs_nonneg (R.e i 0)
  have a1 := abs_nonneg (R.e i 1)
  have a2 := abs_nonneg (R.e i 2)
  show |R.e i 0| * m.cellAt 0 + |R.e i 1| * m.cellAt 1 + |R.e i 2| * m.cellAt 2
    ≤ |R.e i 0| * m.region.edge 0 + |R.e i 1| * m.region.edge 1 + |R.e i 2| * m.region.edge 2
  nlinarith [mul_le_mul_of_nonneg_left g0 a0, mul_le_mul_of_nonneg_left g1 a1, mul_le_mul_of_nonneg_left g2 a2]

/-- the quantity rounded by `_calculate_new_n` is at least one -/
theorem autoX3_ge_one (f : Fld) (hm : Mesh3 f.mesh) {R : M3} (hR : R.IsRot) (reg : Region) (h : newRegion f R = .ok reg)
    (i : Nat) (hi : i < 3) : 1 ≤ autoX3 f R reg i := by
  obtain ⟨c0, c1, c2⟩ := cellV_pos f.mesh hm
  have hl := sumAbs_pos hR (cellV f.mesh) c0 c1 c2
  have hV := prod_sumAbs_ge hR (cellV f.mesh) c0.le c1.le c2.le
  have hE : reg.edge i = sumAbs R (edgesV f.mesh) i := by
    unfold Region.edge; rw [newRegion_lo f R reg h i hi, newRegion_hi f R reg h i hi]; unfold boxLo boxHi; ring
  have hge := sumAbs_edges_ge_cells f.mesh hm R i
  have hli := hl i hi
  have hc3 : cube (sumAbs R (cellV f.mesh) i) ≤ cube (reg.edge i) := by
    rw [hE]; exact cube_mono _ _ hli.le hge
  have hc3p : 0 < cube (sumAbs R (cellV f.mesh) i) := by unfold cube; positivity
  have hVp : 0 < f.mesh.cellAt 0 * f.mesh.cellAt 1 * f.mesh.cellAt 2 := by
    have : 0 < (cellV f.mesh).x * (cellV f.mesh).y * (cellV f.mesh).z := by positivity
    exact this
  unfold autoX3
  rw [le_div_iff₀ (by positivity), one_mul]
  have hV' : f.mesh.cellAt 0 * f.mesh.cellAt 1 * f.mesh.cellAt 2
      ≤ sumAbs R (cellV f.mesh) 0 * sumAbs R (cellV f.mesh) 1 * sumAbs R (cellV f.mesh) 2 := hV
  exact mul_le_mul hc3 hV' hVp.le (le_trans hc3p.le hc3)

theorem roundCbrt_pos (q : Rat) (hq : 1 ≤ q) : roundCbrt q ≠ 0 := by
  intro e
  have := (roundCbrt_bounds q (by linarith)).2
  rw [e] at this
  unfold cube at this
  norm_num at this
  linarith

/-- **the automatic cell counts are positive** for every rotation of a well-formed field -/
theorem autoN_pos (f : Fld) (hm : Mesh3 f.mesh) {R : M3} (hR : R.IsRot) (reg : Region) (h : newRegion f R = .ok reg) :
    (autoN f R reg).length = 3 ∧ ∀ k ∈ autoN f R reg, k ≠ 0 := by
  refine ⟨by unfold autoN; simp, ?_⟩
  intro k hk
  unfold autoN tab at hk
  rw [List.mem_map] at hk
  obtain ⟨i, hi, rfl⟩ := hk
  exact roundCbrt_pos _ (autoX3_ge_one f hm hR reg h i (List.mem_range.mp hi))

/-- **`rotate` never refuses a well-formed call**: for a well-formed field with a complete
mapping, every proper rotation and either no `n` or three positive counts, the call succeeds
with the bounding-box region and the requested (or automatic) counts -/
theorem rotateOnce_accepts (f : Fld) (hm : Mesh3 f.mesh) {R : M3} (hR : R.IsRot) (ord : List Nat) (ho : ordFor f = .ok ord)
    (n? : Option (List Nat)) (hn : ∀ n, n? = some n → n.length = 3 ∧ ∀ k ∈ n, k ≠ 0) :
    rotateOnce f R n? = .ok (rotated f R ord ⟨boxRegion f R, n?.getD (autoN f R (boxRegion f R)), "", []⟩) := by
  have hreg := newRegion_accepts f hm hR
  obtain ⟨al, ap⟩ := autoN_pos f hm hR _ hreg
  have hmk : Mesh.mkN? (boxRegion f R) (n?.getD (autoN f R (boxRegion f R)))
      = .ok ⟨boxRegion f R, n?.getD (autoN f R (boxRegion f R)), "", []⟩ := by
    cases n? with
    | none => exact mkN_accepts _ (boxRegion_ndim _ _) _ al ap
    | some n => obtain ⟨l, p⟩ := hn n rfl; exact mkN_accepts _ (boxRegion_ndim _ _) _ l p
  unfold rotateOnce
  rw [hreg]
  simp only
  rw [hmk, ho]

/-- the constructor accepts scalar and 3-vector fields on 3-d meshes whose labels are all
mapped to axes -/
theorem init_accepts (f : Fld) (hv : f.nvdim = 1 ∨ f.nvdim = 3) (hnd : f.mesh.region.ndim = 3)
    (hmap : f.nvdim = 3 → ∀ v ∈ f.vdims.getD [], ∃ d, Fld.lookup f.vmap v = some d ∧ f.mesh.region.dims.contains d = true) :
    init? f = .ok ⟨f, M3.one, f⟩ := by
  unfold init?
  rw [if_neg (by omega), if_neg (by omega)]
  rcases hv with h1 | h3
  · rw [if_neg]
    simp [h1]
  · rw [if_neg]
    simp only [Bool.and_eq_true, decide_eq_true_eq, Bool.not_eq_true', not_and, Bool.not_eq_false]
    intro _
    rw [List.all_eq_true]
    intro v hv
    obtain ⟨d, hd, hc⟩ := hmap h3 v hv
    rw [hd]; exact hc

end DFV.C18
