import DFV.Lemmas.C02DictCells
/-! C02 helper lemmas, part 13: every accepted specification gives an array of shape
`(*n, nvdim)`; the default pass succeeds when the default is callable everywhere it is needed. -/
namespace DFV.C02
open DFV DFV.Mesh

variable {V : Type} [Inhabited V]

/-- subregion `p` is a key of the value dictionary and its region contains the centre of cell `i` -/
def listedContains (items : List (String × Leaf V)) (m : Mesh) (i : List Nat) (p : String × Region) : Bool :=
  (lookupLeaf items p.1).isSome &&
    allLt m.ndim fun a => decide (p.2.lo a ≤ m.centreAx a (i.getD a 0 : Nat)) &&
      decide (m.centreAx a (i.getD a 0 : Nat) ≤ p.2.hi a)

/-- whatever the specification: an accepted conversion has shape `(*n, nvdim)` -/
theorem asArray_shape_any (isZero : V → Bool) (s : Spec V) (m : Mesh) (nv : Nat) (a : NDA V)
    (h : asArray isZero s m nv = .ok a) : a.shape = m.n ++ [nv] := by
  cases s with
  | leaf l => exact asLeaf_shape isZero l m nv a h
  | dict items dflt =>
    simp only [asArray] at h
    split at h
    · cases h
    · rename_i a0 hfill
      have hs0 := (fillOf_ok dflt m nv a0 hfill).1
      split at h
      · cases h
      · rename_i a1 hloop
        have hs1 := (dictLoop_get isZero items m nv _ a0 a1 hloop).1
        split at h
        · split at h
          · cases h
          · rename_i d
            split at h
            · cases h
            · rename_i a2 hdl
              injection h with h; subst h
              have hs2 := (dfltLoop_get d m nv _ a1 a2 hdl).1
              simp only [unwrap, NDA.map]
              rw [hs2, hs1, hs0]
        · injection h with h; subst h
          simp only [unwrap, NDA.map]
          rw [hs1, hs0]

/-- the default pass succeeds when the default can be evaluated, with `nvdim` values, at every
cell it is asked for -/
theorem dfltLoop_ok (d : Dflt V) (m : Mesh) (nv : Nat) (l : List (List Nat)) (a : NDA (Option V))
    (h : ∀ i ∈ l, ∃ vs, dfltCell d m i = .ok vs ∧ vs.length = nv) :
    ∃ b, dfltLoop d m nv l a = .ok b := by
  induction l generalizing a with
  | nil => exact ⟨a, rfl⟩
  | cons i rest ih =>
    obtain ⟨vs, hvs, hl⟩ := h i (by simp)
    simp only [dfltLoop, hvs]
    have : ¬ vs.length ≠ nv := by simpa using hl
    simp only [this, if_false]
    exact ih _ fun j hj => h j (by simp [hj])

/-- … and fails when the default returns another number of components at a cell it is asked for -/
theorem dfltLoop_err (d : Dflt V) (m : Mesh) (nv : Nat) (l : List (List Nat)) (a : NDA (Option V))
    (i : List Nat) (hi : i ∈ l) (h : ∀ vs, dfltCell d m i = .ok vs → vs.length ≠ nv) :
    ∃ e, dfltLoop d m nv l a = .error e := by
  induction l generalizing a with
  | nil => simp at hi
  | cons i0 rest ih =>
    simp only [dfltLoop]
    split
    · exact ⟨_, rfl⟩
    · rename_i vs hvs
      split
      · exact ⟨_, rfl⟩
      · rename_i hlen
        rcases List.mem_cons.mp hi with rfl | hi'
        · exact absurd (by simpa using hlen) (h vs hvs)
        · exact ih _ hi'

omit [Inhabited V] in
theorem inv_all_pos (m : Mesh) (hm : m.Inv) : ∀ n ∈ m.n, 0 < n := by
  intro n hn
  obtain ⟨a, ha, rfl⟩ := List.mem_iff_getElem.mp hn
  have := hm.2.2 a (by unfold Mesh.ndim; rw [← hm.2.1]; exact ha)
  unfold Mesh.nAt at this
  simpa [List.getD_eq_getElem?_getD, ha] using this

omit [Inhabited V] in
theorem mem_nanCells_inRange (m : Mesh) (a : NDA (Option V)) (i : List Nat) (h : i ∈ nanCells m a)
    (hpos : ∀ n ∈ m.n, 0 < n) : inRange m.n i = true := by
  rw [mem_nanCells] at h
  obtain ⟨h1, _⟩ := h
  simp only [indicesC, List.mem_map, List.mem_range] at h1
  obtain ⟨k, hk, rfl⟩ := h1
  exact unflatC_inRange m.n k hpos hk

/-- the two-pass path `update_field_values` → `array` setter: accepted iff the conversion is, and
then it stores the conversion's result -/
theorem updateValues_of_ok (isZero : V → Bool) (s : Spec V) (m : Mesh) (nv : Nat) (a : NDA V)
    (h : asArray isZero s m nv = .ok a) :
    ∃ b, updateValues isZero s m nv = .ok b ∧ b.shape = m.n ++ [nv] ∧
      ∀ j, inRange (m.n ++ [nv]) j = true → b.get j = a.get j := by
  have hs := asArray_shape_any isZero s m nv a h
  obtain ⟨b, hb, hshape, hget⟩ := bcast_same (m.n ++ [nv]) a hs
  refine ⟨b, ?_, hshape, hget⟩
  unfold updateValues
  rw [h]
  simp only [asLeaf]
  have h1 : ¬ (nv = 1 ∧ a.shape = m.n) := by
    rintro ⟨_, h2⟩
    have := congrArg List.length (hs.symm.trans h2)
    simp at this
  simp [h1, hs, hb]

theorem updateValues_of_err (isZero : V → Bool) (s : Spec V) (m : Mesh) (nv : Nat) (e : Err)
    (h : asArray isZero s m nv = .error e) : updateValues isZero s m nv = .error e := by
  unfold updateValues; rw [h]

end DFV.C02
