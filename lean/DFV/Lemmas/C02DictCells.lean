import DFV.Lemmas.C02DictMain
/-! C02 helper lemmas, part 10: the dictionary overload on a mesh whose subregions are unions
of cells — which subregion supplies a cell. -/
namespace DFV.C02
open DFV DFV.Mesh

variable {V : Type} [Inhabited V]

/-- entry `j` of the array a leaf converts to on mesh `sm` -/
def leafVal (isZero : V → Bool) (l : Leaf V) (sm : Mesh) (nv : Nat) (j : List Nat) : V :=
  match asLeaf isZero l sm nv with
  | .ok sub => sub.get j
  | .error _ => default

/-- subregion `p` is a key of the value dictionary and its index box contains cell `i` -/
def hits (items : List (String × Leaf V)) (m : Mesh) (k1 k2 : String × Region → Nat → Nat) (i : List Nat)
    (p : String × Region) : Bool :=
  (lookupLeaf items p.1).isSome && inBox (tab m.ndim (k1 p)) (tab m.ndim (k2 p)) i

/-- value subregion `p`'s entry of the dictionary assigns to component `c` of mesh cell `i` -/
def cellOf (isZero : V → Bool) (items : List (String × Leaf V)) (m : Mesh) (nv : Nat)
    (k1 k2 : String × Region → Nat → Nat) (i : List Nat) (c : Nat) (p : String × Region) : V :=
  match lookupLeaf items p.1 with
  | some lf => leafVal isZero lf (subMeshOf m p.2 (k1 p) (k2 p)) nv (subIdx m (k1 p) i ++ [c])
  | none => default

theorem patchVal_unlisted (isZero : V → Bool) (items : List (String × Leaf V)) (m : Mesh) (nv : Nat)
    (p : String × Region) (j : List Nat) (h : lookupLeaf items p.1 = none) :
    patchVal isZero items m nv p j = none := by
  unfold patchVal
  split
  · rfl
  · simp [h]

theorem asLeaf_shape (isZero : V → Bool) (l : Leaf V) (sm : Mesh) (nv : Nat) (sub : NDA V)
    (h : asLeaf isZero l sm nv = .ok sub) : sub.shape = sm.n ++ [nv] := by
  cases l with
  | bad => cases h
  | scalar v =>
    simp only [asLeaf] at h
    split at h
    · cases h
    · injection h with h; subst h; rfl
  | arr a =>
    simp only [asLeaf] at h
    split at h
    · rename_i h1
      injection h with h; subst h; simp [h1.1]
    · split at h
      · cases h
      · exact (bcast_ok _ _ _ h).1
  | func f =>
    simp only [asLeaf] at h
    exact funcLoop_shape _ _ _ _ _ h
  | field src =>
    simp only [asLeaf] at h
    split at h
    · cases h
    · split at h
      · cases h
      · rename_i hn
        split at h
        · cases h
        · injection h with h; subst h
          have : src.nvdim = nv := by simpa using hn
          simp [this]

omit [Inhabited V] in
theorem lookupLeaf_mem (items : List (String × Leaf V)) (name : String) (lf : Leaf V)
    (h : lookupLeaf items name = some lf) : ∃ q ∈ items, q.2 = lf := by
  unfold lookupLeaf at h
  cases hf : items.find? (fun p => p.1 == name) with
  | none => rw [hf] at h; cases h
  | some q =>
    rw [hf] at h
    simp only [Option.map_some, Option.some.injEq] at h
    exact ⟨q, List.mem_of_find?_eq_some hf, h⟩

/-- with every listed leaf convertible: the first subregion writing the entry is the first listed
subregion that is a key of the dictionary and whose box contains the cell -/
theorem findSome_patch (isZero : V → Bool) (items : List (String × Leaf V)) (m : Mesh) (hm : m.Inv) (nv : Nat)
    (k1 k2 : String × Region → Nat → Nat) (i : List Nat) (hi : i.length = m.ndim) (c : Nat) (hc : c < nv)
    (l : List (String × Region))
    (hal : ∀ p ∈ l, AlignedSub m p.2 (k1 p) (k2 p))
    (hok : ∀ p ∈ l, ∀ lf, lookupLeaf items p.1 = some lf →
      ∃ sub, asLeaf isZero lf (subMeshOf m p.2 (k1 p) (k2 p)) nv = .ok sub ∧
        sub.shape = (subMeshOf m p.2 (k1 p) (k2 p)).n ++ [nv]) :
    (l.findSome? fun p => patchVal isZero items m nv p (i ++ [c])) =
      (l.find? (hits items m k1 k2 i)).map (cellOf isZero items m nv k1 k2 i c) := by
  induction l with
  | nil => rfl
  | cons p rest ih =>
    have ih' := ih (fun q hq => hal q (by simp [hq])) (fun q hq => hok q (by simp [hq]))
    simp only [List.findSome?_cons, List.find?_cons]
    cases hl : lookupLeaf items p.1 with
    | none =>
      rw [patchVal_unlisted isZero items m nv p _ hl]
      have : hits items m k1 k2 i p = false := by simp [hits, hl]
      simp only [this]
      exact ih'
    | some lf =>
      obtain ⟨sub, hsub, hshape⟩ := hok p (by simp) lf hl
      rw [patchVal_aligned isZero items m hm nv p (k1 p) (k2 p) (hal p (by simp)) lf hl sub hsub hshape i hi c hc]
      have hb : inBox (tab m.ndim (k1 p)) (tab m.ndim (k2 p)) (i ++ [c]) =
          inBox (tab m.ndim (k1 p)) (tab m.ndim (k2 p)) i := inBox_append _ _ _ _ (by simp [hi])
      have hh : hits items m k1 k2 i p = inBox (tab m.ndim (k1 p)) (tab m.ndim (k2 p)) i := by simp [hits, hl]
      rw [hb, hh]
      by_cases hbox : inBox (tab m.ndim (k1 p)) (tab m.ndim (k2 p)) i = true
      · simp only [hbox, if_true, Option.map_some]
        simp [cellOf, hl, leafVal, hsub]
      · simp only [hbox, Bool.false_eq_true, if_false]
        exact ih'

theorem asArray_dict_loop_ok (isZero : V → Bool) (items : List (String × Leaf V)) (dflt : Option (Dflt V))
    (m : Mesh) (nv : Nat) (a : NDA V) (h : asArray isZero (.dict items dflt) m nv = .ok a) :
    ∃ a0 a1, dictLoop isZero items m nv m.subs.reverse a0 = .ok a1 := by
  simp only [asArray] at h
  split at h
  · cases h
  · rename_i a0 _
    split at h
    · cases h
    · rename_i a1 hloop
      exact ⟨a0, a1, hloop⟩

/-- if the whole conversion succeeded, every listed leaf converted on its submesh -/
theorem listed_leaf_ok (isZero : V → Bool) (items : List (String × Leaf V)) (dflt : Option (Dflt V))
    (m : Mesh) (hm : m.Inv) (nv : Nat) (a : NDA V) (h : asArray isZero (.dict items dflt) m nv = .ok a)
    (k1 k2 : String × Region → Nat → Nat) (p : String × Region) (hp : p ∈ m.subs)
    (hal : AlignedSub m p.2 (k1 p) (k2 p)) (lf : Leaf V) (hl : lookupLeaf items p.1 = some lf) :
    ∃ sub, asLeaf isZero lf (subMeshOf m p.2 (k1 p) (k2 p)) nv = .ok sub := by
  obtain ⟨a0, a1, hloop⟩ := asArray_dict_loop_ok isZero items dflt m nv a h
  cases hsub : asLeaf isZero lf (subMeshOf m p.2 (k1 p) (k2 p)) nv with
  | ok sub => exact ⟨sub, rfl⟩
  | error e =>
    exfalso
    obtain ⟨e', he'⟩ := dictLoop_err_of isZero items m nv m.subs.reverse a0 p (by simpa using hp) lf hl
      (subMeshOf m p.2 (k1 p) (k2 p)) (mkCell_aligned m hm p.2 (k1 p) (k2 p) hal) e
      ⟨_, region2slices_spec m hm p.2 (k1 p) (k2 p) hal⟩ hsub
    rw [he'] at hloop; cases hloop

/-- progress: on a mesh whose subregions are unions of cells the loop succeeds as soon as every
listed leaf converts on its submesh; it never erases an entry -/
theorem dictLoop_ok (isZero : V → Bool) (items : List (String × Leaf V)) (m : Mesh) (hm : m.Inv) (nv : Nat)
    (k1 k2 : String × Region → Nat → Nat) (l : List (String × Region))
    (hal : ∀ p ∈ l, AlignedSub m p.2 (k1 p) (k2 p))
    (hok : ∀ p ∈ l, ∀ lf, lookupLeaf items p.1 = some lf →
      ∃ sub, asLeaf isZero lf (subMeshOf m p.2 (k1 p) (k2 p)) nv = .ok sub ∧
        sub.shape = (subMeshOf m p.2 (k1 p) (k2 p)).n ++ [nv])
    (a0 : NDA (Option V)) :
    ∃ a1, dictLoop isZero items m nv l a0 = .ok a1 ∧ ∀ j, (a0.get j).isSome = true → (a1.get j).isSome = true := by
  induction l generalizing a0 with
  | nil => exact ⟨a0, rfl, fun _ h => h⟩
  | cons p rest ih =>
    obtain ⟨name, reg⟩ := p
    have hal' := hal (name, reg) (by simp)
    have hsm : Mesh.mkCell? reg m.cell = .ok (subMeshOf m reg (k1 (name, reg)) (k2 (name, reg))) :=
      mkCell_aligned m hm reg _ _ hal'
    simp only [dictLoop, hsm]
    cases hl : lookupLeaf items name with
    | none =>
      exact ih (fun q hq => hal q (by simp [hq])) (fun q hq => hok q (by simp [hq])) a0
    | some lf =>
      obtain ⟨sub, hsub, hshape⟩ := hok (name, reg) (by simp) lf hl
      have hreg : (subMeshOf m reg (k1 (name, reg)) (k2 (name, reg))).region = reg := rfl
      have hsl := region2slices_spec m hm reg _ _ hal'
      simp only [hreg, hsl, hsub]
      have hbs : boxShape (tab m.ndim (k1 (name, reg))) (tab m.ndim (k2 (name, reg))) ++ [nv] =
          (subMeshOf m reg (k1 (name, reg)) (k2 (name, reg))).n ++ [nv] := by rw [boxShape_tab]; rfl
      obtain ⟨sb, hsb, _, _⟩ := bcast_same _ sub hshape
      have hp : paint a0 (tab m.ndim (k1 (name, reg))) (tab m.ndim (k2 (name, reg))) nv sub =
          .ok ⟨a0.shape, fun j => if inBox (tab m.ndim (k1 (name, reg))) (tab m.ndim (k2 (name, reg))) j
            then some (sb.get (localIdx (tab m.ndim (k1 (name, reg))) j)) else a0.get j⟩ := by
        unfold paint; rw [hbs, hsb]
      simp only [hp]
      obtain ⟨a1, ha1, hs1⟩ := ih (fun q hq => hal q (by simp [hq])) (fun q hq => hok q (by simp [hq]))
        ⟨a0.shape, fun j => if inBox (tab m.ndim (k1 (name, reg))) (tab m.ndim (k2 (name, reg))) j
            then some (sb.get (localIdx (tab m.ndim (k1 (name, reg))) j)) else a0.get j⟩
      refine ⟨a1, ha1, fun j hj => hs1 j ?_⟩
      simp only
      split
      · rfl
      · exact hj

omit [Inhabited V] in
theorem anyNone_of_all_some (a : NDA (Option V)) (h : ∀ j, (a.get j).isSome = true) : anyNone a = false := by
  unfold anyNone
  rw [List.any_eq_false]
  intro j _
  have := h j
  cases hh : a.get j <;> simp_all

end DFV.C02
