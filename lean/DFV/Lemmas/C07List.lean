import DFV.Lemmas.Tab
import DFV.Model.C07
/-! List plumbing for C07: `setAt`, `removeAt`, `insertAt`, `natsToInts` (core Lean only). -/
namespace DFV.C07
open DFV

theorem length_setAt {α} (l : List α) (a : Nat) (x : α) : (setAt l a x).length = l.length := by
  induction l generalizing a with
  | nil => simp [setAt]
  | cons y ys ih =>
    cases a with
    | zero => simp [setAt]
    | succ a => simp [setAt, ih]

theorem getD_setAt_eq {α} (l : List α) (a : Nat) (x d : α) (h : a < l.length) :
    (setAt l a x).getD a d = x := by
  induction l generalizing a with
  | nil => simp at h
  | cons y ys ih =>
    cases a with
    | zero => simp [setAt]
    | succ a =>
      simp only [setAt, List.getD_cons_succ]
      exact ih a (by simpa using h)

theorem getD_setAt_ne {α} (l : List α) (a b : Nat) (x d : α) (h : b ≠ a) :
    (setAt l a x).getD b d = l.getD b d := by
  induction l generalizing a b with
  | nil => simp [setAt]
  | cons y ys ih =>
    cases a with
    | zero =>
      cases b with
      | zero => exact absurd rfl h
      | succ b => simp [setAt]
    | succ a =>
      cases b with
      | zero => simp [setAt]
      | succ b =>
        simp only [setAt, List.getD_cons_succ]
        exact ih a b (by omega)

theorem length_removeAt {α} (l : List α) (a : Nat) (h : a < l.length) :
    (removeAt l a).length = l.length - 1 := by
  induction l generalizing a with
  | nil => simp at h
  | cons y ys ih =>
    cases a with
    | zero => simp [removeAt]
    | succ a =>
      have h' : a < ys.length := by simpa using h
      simp only [removeAt, List.length_cons, ih a h']
      omega

theorem getD_removeAt_lt {α} (l : List α) (a b : Nat) (d : α) (h : b < a) :
    (removeAt l a).getD b d = l.getD b d := by
  induction l generalizing a b with
  | nil => simp [removeAt]
  | cons y ys ih =>
    cases a with
    | zero => omega
    | succ a =>
      cases b with
      | zero => simp [removeAt]
      | succ b =>
        simp only [removeAt, List.getD_cons_succ]
        exact ih a b (by omega)

theorem getD_removeAt_ge {α} (l : List α) (a b : Nat) (d : α) (h : a ≤ b) :
    (removeAt l a).getD b d = l.getD (b + 1) d := by
  induction l generalizing a b with
  | nil => simp [removeAt]
  | cons y ys ih =>
    cases a with
    | zero => simp [removeAt]
    | succ a =>
      cases b with
      | zero => omega
      | succ b =>
        simp only [removeAt, List.getD_cons_succ]
        exact ih a b (by omega)

/-- source axis of result axis `b` when axis `a` has been removed -/
def skip (a b : Nat) : Nat := if b < a then b else b + 1

theorem getD_removeAt {α} (l : List α) (a b : Nat) (d : α) :
    (removeAt l a).getD b d = l.getD (skip a b) d := by
  unfold skip
  split
  · exact getD_removeAt_lt l a b d (by assumption)
  · exact getD_removeAt_ge l a b d (by omega)

theorem skip_ne (a b : Nat) : skip a b ≠ a := by unfold skip; split <;> omega
theorem skip_lt (a b n : Nat) (ha : a < n) (hb : b < n - 1) : skip a b < n := by
  unfold skip; split <;> omega

theorem length_insertAt {α} (l : List α) (a : Nat) (x : α) (h : a ≤ l.length) :
    (insertAt l a x).length = l.length + 1 := by
  unfold insertAt
  simp [List.length_take, List.length_drop]
  omega

theorem getD_insertAt_lt {α} (l : List α) (a b : Nat) (x d : α) (ha : a ≤ l.length) (h : b < a) :
    (insertAt l a x).getD b d = l.getD b d := by
  unfold insertAt
  have hb : b < (l.take a).length := by simp [List.length_take]; omega
  rw [List.getD_eq_getElem?_getD, List.getElem?_append_left hb, List.getElem?_take_of_lt h,
    List.getD_eq_getElem?_getD]

theorem getD_insertAt_eq {α} (l : List α) (a : Nat) (x d : α) (ha : a ≤ l.length) :
    (insertAt l a x).getD a d = x := by
  unfold insertAt
  have hl : (l.take a).length = a := by simp [List.length_take]; omega
  rw [List.getD_eq_getElem?_getD, List.getElem?_append_right (by omega), hl]
  simp

theorem getD_insertAt_gt {α} (l : List α) (a b : Nat) (x d : α) (ha : a ≤ l.length) (h : a < b) :
    (insertAt l a x).getD b d = l.getD (b - 1) d := by
  unfold insertAt
  have hl : (l.take a).length = a := by simp [List.length_take]; omega
  rw [List.getD_eq_getElem?_getD, List.getElem?_append_right (by omega), hl]
  obtain ⟨k, rfl⟩ : ∃ k, b = a + 1 + k := ⟨b - a - 1, by omega⟩
  have e1 : a + 1 + k - a = k + 1 := by omega
  have e2 : a + 1 + k - 1 = a + k := by omega
  rw [e1, e2, List.getElem?_cons_succ, List.getElem?_drop, List.getD_eq_getElem?_getD]

/-- the three cases at once, against `skip` -/
theorem getD_insertAt_skip {α} (l : List α) (a b : Nat) (x d : α) (ha : a ≤ l.length) :
    (insertAt l a x).getD (skip a b) d = l.getD b d := by
  unfold skip
  split
  · exact getD_insertAt_lt l a b x d ha (by assumption)
  · rw [getD_insertAt_gt l a (b + 1) x d ha (by omega)]; simp

theorem getD_natsToInts (l : List Nat) (a : Nat) : (natsToInts l).getD a 0 = ((l.getD a 0 : Nat) : Int) := by
  unfold natsToInts
  rw [List.getD_eq_getElem?_getD, List.getD_eq_getElem?_getD, List.getElem?_map]
  cases l[a]? <;> simp

theorem length_natsToInts (l : List Nat) : (natsToInts l).length = l.length := by
  simp [natsToInts]

/-- an in-range multi-index is the table of its entries -/
theorem eq_tab_self (j : List Nat) (n : Nat) (h : j.length = n) : j = tab n fun a => j.getD a 0 :=
  eq_tab_of_getD j n _ 0 h fun _ _ => rfl

end DFV.C07
