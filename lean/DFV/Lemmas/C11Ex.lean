import Mathlib.Tactic.NormNum
import DFV.Model.C11
/-! C11: a concrete mesh for the non-vacuity examples of `Props/C11.lean`. -/
namespace DFV.C11
open DFV

/-- a 3-d mesh with a negative offset, anisotropic cells and an odd, a single-cell and an even
axis (`n = (3, 1, 2)`) -/
def exMesh : Mesh :=
  ⟨⟨[-1/2, 0, 3], [1, 2, 7/2], ["x", "y", "z"], ["m", "nm", "s"], 1/1000000000000⟩, [3, 1, 2], "", []⟩

theorem exMesh_inv : exMesh.Inv := by
  refine ⟨⟨by decide, by decide, by decide, by decide, by decide +kernel, ?_⟩, by decide, ?_⟩
  · intro a ha
    have : a = 0 ∨ a = 1 ∨ a = 2 := by simp [exMesh] at ha; omega
    rcases this with rfl | rfl | rfl <;> simp [exMesh, Region.lo, Region.hi] <;> norm_num
  · intro a ha
    have : a = 0 ∨ a = 1 ∨ a = 2 := by simp [exMesh, Mesh.ndim, Region.ndim] at ha; omega
    rcases this with rfl | rfl | rfl <;> simp [exMesh, Mesh.nAt]

end DFV.C11
