import DFV.Lemmas.C07Sel
/-! "Axis `b` of mesh `g` is a block of whole cells of axis `s` of mesh `m`" and what follows
from it: the centres of `g`'s cells are centres of `m`'s cells, with shifted index. -/
namespace DFV.C07
open DFV DFV.Mesh

/-- result axis `b` of `g` consists of the `cnt` cells `off, …, off+cnt-1` of source axis `s` of `m` -/
structure AxisBlock (g m : Mesh) (b s off cnt : Nat) : Prop where
  lo : g.region.lo b = m.region.lo s + (off : Rat) * m.cellAt s
  n : g.nAt b = cnt
  cell : g.cellAt b = m.cellAt s
  fits : off + cnt ≤ m.nAt s

theorem axisBlock_of (g m : Mesh) (b s off cnt : Nat) (hcnt : 0 < cnt)
    (hlo : g.region.lo b = m.region.lo s + (off : Rat) * m.cellAt s)
    (hhi : g.region.hi b = m.region.lo s + ((off : Rat) + (cnt : Rat)) * m.cellAt s)
    (hn : g.nAt b = cnt) (fits : off + cnt ≤ m.nAt s) : AxisBlock g m b s off cnt := by
  refine ⟨hlo, hn, ?_, fits⟩
  have hne : (cnt : Rat) ≠ 0 := by exact_mod_cast (Nat.pos_iff_ne_zero.mp hcnt)
  have : g.cellAt b = (g.region.hi b - g.region.lo b) / (g.nAt b : Rat) := rfl
  rw [this, hn, hhi, hlo]
  field_simp
  ring

/-- the centre of cell `j` of the block is the centre of cell `off + j` of the source -/
theorem block_centre {g m : Mesh} {b s off cnt : Nat} (h : AxisBlock g m b s off cnt) (j : Nat) :
    g.centreAx b ((j : Nat) : Int) = m.centreAx s (((off + j : Nat)) : Int) := by
  rw [centreAx_cast, centreAx_cast, h.lo, h.cell]; push_cast; ring

/-- … hence the source's index of that point is `off + j`, and the point lies in the source's edge -/
theorem block_index {g m : Mesh} {b s off cnt : Nat} (h : AxisBlock g m b s off cnt)
    (hc : 0 < m.cellAt s) (j : Nat) (hj : j < cnt) :
    m.indexAx s (g.centreAx b ((j : Nat) : Int)) = off + j ∧
    m.region.lo s ≤ g.centreAx b ((j : Nat) : Int) ∧ g.centreAx b ((j : Nat) : Int) ≤ m.region.hi s := by
  have hlt : off + j < m.nAt s := by have := h.fits; omega
  rw [block_centre h j]
  refine ⟨roundtrip m s (off + j) hlt hc, ?_, ?_⟩
  · rw [centreAx_cast]
    have : (0 : Rat) ≤ ((off + j : Nat) : Rat) := by exact_mod_cast Nat.zero_le _
    nlinarith
  · rw [centreAx_cast, hi_eq m s (by omega)]
    have : ((off + j : Nat) : Rat) + 1 ≤ (m.nAt s : Rat) := by exact_mod_cast hlt
    nlinarith

/-- upper corner of a block -/
theorem block_hi {g m : Mesh} {b s off cnt : Nat} (h : AxisBlock g m b s off cnt) (hcnt : 0 < cnt) :
    g.region.hi b = m.region.lo s + ((off : Rat) + (cnt : Rat)) * m.cellAt s := by
  rw [hi_eq g b (by rw [h.n]; exact hcnt), h.lo, h.cell, h.n]; ring

end DFV.C07
