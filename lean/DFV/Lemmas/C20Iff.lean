import DFV.Lemmas.C20SiMax
/-!
C20 helper lemmas, fourteenth part: refusal as an EQUIVALENCE — the exact input conditions under
which the individual steps (arrow label lookup, colour request, filter) succeed.
-/
namespace DFV.C20
open DFV

/-- a field that exists as a `Field` object: well-formed mesh, labels and mapping the constructor
accepted -/
def FieldWf (g : Fld) : Prop := g.mesh.Inv ∧ C07.metaOk g = true

/-- an arrow label Python treats as "no component in this direction" (`if vdims[k]` is false) -/
def NoLabel (l : Option String) : Prop := l = none ∨ l = some ""

/-- an arrow label `field.vdims.index` can resolve: none, or a non-empty component label -/
def ArrowLabel (f : Fld) (l : Option String) : Prop :=
  NoLabel l ∨ ∃ s vs, l = some s ∧ s ≠ "" ∧ f.vdims = some vs ∧ s ∈ vs

theorem getD_ne_mem (vs : List String) (k : Nat) (s : String) (h : vs.getD k "" = s) (hs : s ≠ "") : s ∈ vs := by
  rw [List.getD_eq_getElem?_getD] at h
  cases hk : vs[k]? with
  | none => rw [hk] at h; exact absurd h.symm hs
  | some x =>
    rw [hk] at h
    simp only [Option.getD_some] at h
    subst h
    exact List.mem_of_getElem? hk

theorem arrowIdx_ok_iff (f : Fld) (l : Option String) : (∃ a, arrowIdx f l = .ok a) ↔ ArrowLabel f l := by
  constructor
  · rintro ⟨a, ha⟩
    cases a with
    | none => exact Or.inl (arrowIdx_none_inv f l ha)
    | some k =>
      obtain ⟨s, vs, hl, hs, hvs, hk⟩ := arrowIdx_some_inv f l k ha
      exact Or.inr ⟨s, vs, hl, hs, hvs, getD_ne_mem vs k s hk hs⟩
  · rintro (h | ⟨s, vs, rfl, hs, hvs, hmem⟩)
    · rcases h with rfl | rfl
      · exact ⟨none, rfl⟩
      · exact ⟨none, by unfold arrowIdx; simp⟩
    · obtain ⟨c, hc⟩ := arrowIdx_ok f vs hvs s hmem hs
      exact ⟨_, hc⟩

theorem arrowIdx_isNone_iff (f : Fld) (l : Option String) (a : Option Nat) (h : arrowIdx f l = .ok a) :
    a.isNone = true ↔ NoLabel l := by
  cases a with
  | none => simp only [Option.isNone_none, true_iff]; exact arrowIdx_none_inv f l h
  | some k =>
    obtain ⟨s, vs, hl, hs, _, _⟩ := arrowIdx_some_inv f l k h
    simp only [Option.isNone_some, Bool.false_eq_true, false_iff]
    rintro (h' | h')
    · rw [hl] at h'; cases h'
    · rw [hl] at h'; injection h' with h'; exact hs h'

/-- the two arrow labels can be used: both resolvable, not both absent -/
def ArrowsExact (f : Fld) (vd : List (Option String)) : Prop :=
  ArrowLabel f (vd.getD 0 none) ∧ ArrowLabel f (vd.getD 1 none) ∧
  ¬ (NoLabel (vd.getD 0 none) ∧ NoLabel (vd.getD 1 none))

theorem thirdComp_ok_iff (f : Fld) (vd : List (Option String)) (pick : Nat) :
    (∃ c, thirdComp f vd pick = .ok c) ↔ leftover f vd ≠ [] := by
  constructor
  · rintro ⟨c, hc⟩ hnil
    unfold thirdComp at hc
    rw [hnil] at hc
    simp at hc
  · intro hne
    have hlen : 0 < (leftover f vd).length := List.length_pos_iff.mpr hne
    have hlt : pick % (leftover f vd).length < (leftover f vd).length := Nat.mod_lt _ hlen
    unfold thirdComp
    rw [List.getElem?_eq_getElem hlt]
    simp only []
    have hmem := List.getElem_mem hlt
    cases hvs : f.vdims with
    | none =>
      exfalso
      unfold leftover at hne
      rw [hvs] at hne
      exact hne rfl
    | some vs =>
      have hsub : ∀ l, l ∈ leftover f vd → l ∈ vs := by
        intro l hl
        rw [leftover_eq f vs hvs] at hl
        exact (List.mem_filter.mp hl).1
      have hin : (leftover f vd)[pick % (leftover f vd).length] ∈ vs := hsub _ hmem
      obtain ⟨c, hc⟩ := indexOf_some vs _ hin
      have : f.vdimIndex (leftover f vd)[pick % (leftover f vd).length] = some c := by
        unfold Fld.vdimIndex; rw [hvs]; exact hc
      rw [this]
      exact ⟨c, rfl⟩

/-- the colour request can be served: no colour, a one-component colour field on a 2-d mesh, a
field that does not have three components, or a component label left over for the colour -/
def ColourExact (f : Fld) (o : Opts) (vd : List (Option String)) : Prop :=
  o.useColor = false ∨ (∃ g, o.aux = some g ∧ g.nvdim = 1 ∧ g.mesh.region.ndim = 2) ∨
  (o.aux = none ∧ (f.nvdim ≠ 3 ∨ leftover f vd ≠ []))

theorem auxOk_of_wf (f g : Fld) (h1 : g.nvdim = 1) (h2 : g.mesh.region.ndim = 2)
    (hwf : g.mesh.n = f.mesh.n ∨ FieldWf g) : AuxOk f g :=
  ⟨h1, h2, hwf⟩

theorem colourOf_ok_iff (f : Fld) (o : Opts) (vd : List (Option String)) (hf : f.mesh.Inv)
    (h2 : f.mesh.region.ndim = 2) (hwf : ∀ g, o.aux = some g → g.mesh.n = f.mesh.n ∨ FieldWf g) :
    (∃ C, colourOf f o vd = .ok C) ↔ ColourExact f o vd := by
  by_cases huse : o.useColor = false
  · exact ⟨fun _ => Or.inl huse, fun _ => ⟨none, colourOf_off f o vd huse⟩⟩
  · have huse' : o.useColor = true := by simpa using huse
    cases haux : o.aux with
    | some g =>
      constructor
      · rintro ⟨C, hC⟩
        obtain ⟨g1, g2, _⟩ := colourOf_aux_inv f g o vd huse' haux C hC
        exact Or.inr (Or.inl ⟨g, haux, g1, g2⟩)
      · rintro (h | ⟨g', hg', g1, g2⟩ | ⟨h, _⟩)
        · exact absurd h huse
        · rw [haux] at hg'
          injection hg' with hg'
          subst hg'
          rw [colourOf_aux f g o vd huse' haux, if_neg (by simpa using g1), if_neg (by simpa using g2)]
          obtain ⟨a, ha⟩ := auxOnMesh_ok f g hf h2 (auxOk_of_wf f g g1 g2 (hwf g haux))
          rw [ha]
          exact ⟨_, rfl⟩
        · rw [haux] at h; cases h
    | none =>
      by_cases hn3 : f.nvdim = 3
      · constructor
        · rintro ⟨C, hC⟩
          refine Or.inr (Or.inr ⟨haux, Or.inr ?_⟩)
          apply (thirdComp_ok_iff f vd o.pick).mp
          cases ht : thirdComp f vd o.pick with
          | ok c => exact ⟨c, rfl⟩
          | error e =>
            rw [colourOf_third_err f o vd huse' haux hn3 e ht] at hC
            cases hC
        · rintro (h | ⟨g', hg', _⟩ | ⟨_, h | h⟩)
          · exact absurd h huse
          · rw [haux] at hg'; cases hg'
          · exact absurd hn3 h
          · obtain ⟨c, hc⟩ := (thirdComp_ok_iff f vd o.pick).mpr h
            exact ⟨_, colourOf_third f o vd huse' haux hn3 c hc⟩
      · constructor
        · intro _
          exact Or.inr (Or.inr ⟨haux, Or.inl hn3⟩)
        · intro _
          unfold colourOf
          rw [huse', haux]
          simp [hn3]

theorem filterKeep_ok_iff (f : Fld) (o : Opts) (hf : f.mesh.Inv) (h2 : f.mesh.region.ndim = 2)
    (hwf : ∀ g, o.filter = some g → g.mesh.n = f.mesh.n ∨ FieldWf g) :
    (∃ keep, filterKeep f (filterOf f o) = .ok keep) ↔
      ∀ g, o.filter = some g → g.nvdim = 1 ∧ g.mesh.region.ndim = 2 := by
  constructor
  · rintro ⟨keep, hk⟩ g hg
    have hfo : filterOf f o = g := by simp [filterOf, hg]
    rw [hfo] at hk
    obtain ⟨g1, g2, _⟩ := filterKeep_ok_inv f g keep hk
    exact ⟨g1, g2⟩
  · intro h
    exact filterKeep_ok f o hf h2 (fun g hg => auxOk_of_wf f g (h g hg).1 (h g hg).2 (hwf g hg))

/-- conditions of the vector plot on its label / colour arguments -/
def VectorCond (f : Fld) (o : Opts) : Prop :=
  (o.vdimsArg = none → f.vmap ≠ []) ∧ (∀ l, o.vdimsArg = some l → l.length = 2) ∧
  ArrowsExact f (o.vdimsArg.getD (inplaneVdims f)) ∧ ColourExact f o (o.vdimsArg.getD (inplaneVdims f))

theorem vectorVdims_ok_iff (f : Fld) (o : Opts) (vd : List (Option String)) :
    vectorVdims f o = .ok vd ↔ (∀ l, o.vdimsArg = some l → l.length = 2) ∧ vd = o.vdimsArg.getD (inplaneVdims f) := by
  unfold vectorVdims
  cases o.vdimsArg with
  | none =>
    simp only [Option.getD_none]
    constructor
    · intro h; injection h with h; exact ⟨fun l hl => (nomatch hl), h.symm⟩
    · rintro ⟨_, rfl⟩; rfl
  | some l =>
    simp only [Option.getD_some]
    by_cases hl : l.length = 2
    · rw [if_neg (by simpa using hl)]
      constructor
      · intro h; injection h with h
        exact ⟨fun l' hl' => by injection hl' with hl'; rw [← hl']; exact hl, h.symm⟩
      · rintro ⟨_, rfl⟩; rfl
    · rw [if_pos (by simpa using hl)]
      constructor
      · intro h; cases h
      · rintro ⟨h, _⟩; exact absurd (h l rfl) hl

/-! ## the reversed mapping -/

/-- `_r_dim_mapping[d]` is the label of the LAST entry of the mapping that points to `d` -/
theorem rDimLast_some_iff (f : Fld) (d l : String) :
    rDimLast f d = some l ↔
      ∃ pre post, f.vmap = pre ++ (l, d) :: post ∧ ∀ p ∈ post, p.2 ≠ d := by
  unfold rDimLast
  rw [Option.map_eq_some_iff]
  constructor
  · rintro ⟨q, hq, hl⟩
    obtain ⟨hp, as, bs, hrev, hall⟩ := List.find?_eq_some_iff_append.mp hq
    have hq2 : q.2 = d := by simpa using hp
    have hv : f.vmap = bs.reverse ++ q :: as.reverse := by
      have := congrArg List.reverse hrev
      simpa using this
    refine ⟨bs.reverse, as.reverse, ?_, ?_⟩
    · rw [hv]
      have : q = (l, d) := by rw [← hl, ← hq2]
      rw [this]
    · intro p hp'
      have := hall p (by simpa using hp')
      simpa using this
  · rintro ⟨pre, post, hv, hall⟩
    refine ⟨(l, d), ?_, rfl⟩
    apply List.find?_eq_some_iff_append.mpr
    refine ⟨by simp, post.reverse, pre.reverse, ?_, ?_⟩
    · rw [hv]; simp
    · intro a ha
      have := hall a (by simpa using ha)
      simpa using this

/-- `_r_dim_mapping[d]` is `None` exactly when no entry of the mapping points to `d` -/
theorem rDimLast_none_iff (f : Fld) (d : String) :
    rDimLast f d = none ↔ ∀ p ∈ f.vmap, p.2 ≠ d := by
  unfold rDimLast
  rw [Option.map_eq_none_iff, List.find?_eq_none]
  constructor
  · intro h p hp
    have := h p (by simpa using hp)
    simpa using this
  · intro h p hp
    have := h p (by simpa using hp)
    simpa using this

/-! ## lightness -/

theorem lightCore_ok_iff (f : Fld) (o : Opts) (hue : List Nat → Hue) (dflt : NDA Rat) (flt : Fld)
    (hf : f.mesh.Inv) (h2 : f.mesh.region.ndim = 2)
    (hwf : ∀ g, o.aux = some g → g.mesh.n = f.mesh.n ∨ FieldWf g) :
    (∃ calls, lightCore f o hue dflt flt = .ok calls) ↔
      MultOk f o.mult ∧ (∀ g, o.aux = some g → g.nvdim = 1 ∧ g.mesh.region.ndim = 2) ∧
      ∃ keep, filterKeep f flt = .ok keep := by
  constructor
  · rintro ⟨calls, h⟩
    obtain ⟨m, ext, l, keep, lab, hm, _, hl, hk, hlab, _⟩ := lightCore_ok_inv f o hue dflt flt calls h
    obtain ⟨pre, hp, _⟩ := axisLabels_ok_inv _ m lab hlab
    refine ⟨(multOk_iff f hf o.mult).mpr ⟨m, pre, hm, hp⟩, fun g hg => ?_, keep, hk⟩
    rw [hg] at hl
    obtain ⟨g1, g2, _⟩ := lightSrc_some_inv f g dflt l hl
    exact ⟨g1, g2⟩
  · rintro ⟨hm, haux, hk⟩
    exact lightCore_ok f o hue dflt flt hf h2 hm
      (fun g hg => auxOk_of_wf f g (haux g hg).1 (haux g hg).2 (hwf g hg)) hk

/-- both plot axes have a (last) label in the mapping and both labels are component labels -/
def AngleOk (f : Fld) : Prop :=
  ∃ lx ly cx cy, rDimLast f (f.mesh.region.dims.getD 0 "") = some lx ∧
    rDimLast f (f.mesh.region.dims.getD 1 "") = some ly ∧
    f.vdimIndex lx = some cx ∧ f.vdimIndex ly = some cy

theorem angleComps_ok_iff (f : Fld) : (∃ xy, angleComps f = .ok xy) ↔ AngleOk f := by
  constructor
  · rintro ⟨⟨cx, cy⟩, h⟩
    obtain ⟨lx, ly, a, b, c, d⟩ := angleComps_ok_inv f cx cy h
    exact ⟨lx, ly, cx, cy, a, b, c, d⟩
  · rintro ⟨lx, ly, cx, cy, a, b, c, d⟩
    unfold angleComps
    rw [a, b]
    simp only [c, d]
    exact ⟨_, rfl⟩

theorem angleOk_vmap_ne (f : Fld) (h : AngleOk f) : f.vmap.isEmpty = false := by
  obtain ⟨lx, _, _, _, a, _⟩ := h
  have := rDimLast_mem f _ lx a
  have : f.vmap ≠ [] := List.ne_nil_of_mem this
  simp [this]

theorem auxGeom_of_wf (f g : Fld) (hinv : f.mesh.Inv) (h : g.mesh.n = f.mesh.n ∨ FieldWf g) : AuxGeom f g := by
  rcases h with h | h
  · exact Or.inl h
  · exact Or.inr ⟨h.1, hinv⟩

end DFV.C20
