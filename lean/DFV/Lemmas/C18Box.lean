import DFV.Lemmas.C18Mat
import DFV.Lemmas.RatFloor
import DFV.Lemmas.Tab
import Mathlib.Tactic.LinearCombination
/-! Bounding box of the rotated region (`_calculate_new_region`) for C18. -/
namespace DFV.C18
open DFV

theorem V3.get_ofFn (f : Nat → Rat) (a : Nat) (ha : a < 3) : (V3.ofFn f).get a = f a := by
  have : a = 0 ∨ a = 1 ∨ a = 2 := by omega
  rcases this with h | h | h <;> subst h <;> rfl

theorem M3.apply_get (Q : M3) (v : V3) (i : Nat) :
    (Q.apply v).get i = Q.e i 0 * v.x + Q.e i 1 * v.y + Q.e i 2 * v.z := by
  match i with
  | 0 => rfl
  | 1 => rfl
  | (k + 2) => rfl

theorem sumAbs_nonneg (R : M3) (w : V3) (i : Nat) : 0 ≤ sumAbs R w i := by
  unfold sumAbs
  have := absR_nonneg (R.e i 0 * w.x)
  have := absR_nonneg (R.e i 1 * w.y)
  have := absR_nonneg (R.e i 2 * w.z)
  linarith

/-- the two candidate corners handed to the `Region` constructor -/
def boxLo (f : Fld) (R : M3) (i : Nat) : Rat := centreAt f.mesh i - sumAbs R (edgesV f.mesh) i / 2
def boxHi (f : Fld) (R : M3) (i : Nat) : Rat := centreAt f.mesh i + sumAbs R (edgesV f.mesh) i / 2

theorem newRegion_ok_inv (f : Fld) (R : M3) (reg : Region) (h : newRegion f R = .ok reg) :
    reg.pmin = tab 3 (boxLo f R) ∧ reg.pmax = tab 3 (boxHi f R) ∧ reg.dims = ["x", "y", "z"] ∧
    reg.units = ["m", "m", "m"] ∧ ∀ a, a < 3 → sumAbs R (edgesV f.mesh) a ≠ 0 := by
  unfold newRegion Region.mk? at h
  simp only [tab_length, ne_eq, not_true_eq_false, if_false, Region.dimsOk, Region.unitsOk,
    Nat.succ_ne_zero] at h
  split at h
  · cases h
  · rename_i hall
    have hall' : allLt 3 (fun a => decide ((tab 3 fun i => centreAt f.mesh i - sumAbs R (edgesV f.mesh) i / 2).getD a 0
        ≠ (tab 3 fun i => centreAt f.mesh i + sumAbs R (edgesV f.mesh) i / 2).getD a 0)) = true := by
      simpa using hall
    have hne : ∀ a, a < 3 → sumAbs R (edgesV f.mesh) a ≠ 0 := by
      intro a ha
      have := (allLt_iff _ _).mp hall' a ha
      rw [getD_tab _ _ _ _ ha, getD_tab _ _ _ _ ha] at this
      simp only [decide_eq_true_eq] at this
      intro e; apply this; rw [e]; ring
    injection h with h
    subst h
    refine ⟨?_, ?_, rfl, rfl, hne⟩
    · apply tab_congr; intro a ha
      rw [getD_tab _ _ _ _ ha, getD_tab _ _ _ _ ha]
      have := sumAbs_nonneg R (edgesV f.mesh) a
      unfold boxLo
      exact min_eq_left (by linarith)
    · apply tab_congr; intro a ha
      rw [getD_tab _ _ _ _ ha, getD_tab _ _ _ _ ha]
      have := sumAbs_nonneg R (edgesV f.mesh) a
      unfold boxHi
      exact max_eq_right (by linarith)

theorem newRegion_lo (f : Fld) (R : M3) (reg : Region) (h : newRegion f R = .ok reg) (a : Nat) (ha : a < 3) :
    reg.lo a = boxLo f R a := by
  unfold Region.lo; rw [(newRegion_ok_inv f R reg h).1, getD_tab _ _ _ _ ha]

theorem newRegion_hi (f : Fld) (R : M3) (reg : Region) (h : newRegion f R = .ok reg) (a : Nat) (ha : a < 3) :
    reg.hi a = boxHi f R a := by
  unfold Region.hi; rw [(newRegion_ok_inv f R reg h).2.1, getD_tab _ _ _ _ ha]

/-- sign of a corner: `true` = upper face -/
def sgn (b : Bool) : Rat := if b then 1 else -1

/-- a corner of the original region, relative to its centre -/
def cornerRel (m : Mesh) (s0 s1 s2 : Bool) : V3 :=
  ⟨sgn s0 * (m.region.edge 0 / 2), sgn s1 * (m.region.edge 1 / 2), sgn s2 * (m.region.edge 2 / 2)⟩

theorem abs_sgn_mul (b : Bool) (x : Rat) : |sgn b * x| = |x| := by
  unfold sgn; cases b <;> simp

/-- coordinate `i` of a rotated corner is bounded by half the summed absolute rotated edges -/
theorem corner_bound (R : M3) (m : Mesh) (s0 s1 s2 : Bool) (i : Nat) :
    |(R.apply (cornerRel m s0 s1 s2)).get i| ≤ sumAbs R (edgesV m) i / 2 := by
  rw [M3.apply_get]
  unfold sumAbs cornerRel edgesV V3.ofFn
  simp only [absR_eq_abs]
  have e0 : R.e i 0 * (sgn s0 * (m.region.edge 0 / 2)) = sgn s0 * (R.e i 0 * m.region.edge 0 / 2) := by ring
  have e1 : R.e i 1 * (sgn s1 * (m.region.edge 1 / 2)) = sgn s1 * (R.e i 1 * m.region.edge 1 / 2) := by ring
  have e2 : R.e i 2 * (sgn s2 * (m.region.edge 2 / 2)) = sgn s2 * (R.e i 2 * m.region.edge 2 / 2) := by ring
  rw [e0, e1, e2]
  have h := abs_add_three (sgn s0 * (R.e i 0 * m.region.edge 0 / 2)) (sgn s1 * (R.e i 1 * m.region.edge 1 / 2))
    (sgn s2 * (R.e i 2 * m.region.edge 2 / 2))
  rw [abs_sgn_mul, abs_sgn_mul, abs_sgn_mul] at h
  have d0 : |R.e i 0 * m.region.edge 0 / 2| = |R.e i 0 * m.region.edge 0| / 2 := by
    rw [abs_div]; simp
  have d1 : |R.e i 1 * m.region.edge 1 / 2| = |R.e i 1 * m.region.edge 1| / 2 := by
    rw [abs_div]; simp
  have d2 : |R.e i 2 * m.region.edge 2 / 2| = |R.e i 2 * m.region.edge 2| / 2 := by
    rw [abs_div]; simp
  rw [d0, d1, d2] at h
  linarith

/-- the corner whose signs follow the signs of row `i` reaches the bound -/
theorem corner_attains (R : M3) (m : Mesh) (i : Nat) :
    (R.apply (cornerRel m (decide (0 ≤ R.e i 0 * m.region.edge 0)) (decide (0 ≤ R.e i 1 * m.region.edge 1))
      (decide (0 ≤ R.e i 2 * m.region.edge 2)))).get i = sumAbs R (edgesV m) i / 2 := by
  rw [M3.apply_get]
  unfold sumAbs cornerRel edgesV V3.ofFn
  simp only [absR_eq_abs]
  have key : ∀ x : Rat, sgn (decide (0 ≤ x)) * x = |x| := by
    intro x
    unfold sgn
    by_cases hx : 0 ≤ x
    · simp [hx, abs_of_nonneg hx]
    · simp [hx, abs_of_neg (lt_of_not_ge hx)]
  have k0 := key (R.e i 0 * m.region.edge 0)
  have k1 := key (R.e i 1 * m.region.edge 1)
  have k2 := key (R.e i 2 * m.region.edge 2)
  linear_combination (1/2) * k0 + (1/2) * k1 + (1/2) * k2

theorem sgn_not (b : Bool) : sgn (!b) = - sgn b := by
  unfold sgn; cases b <;> simp

/-- the opposite corner reaches the lower bound -/
theorem corner_attains_neg (R : M3) (m : Mesh) (i : Nat) :
    (R.apply (cornerRel m (!decide (0 ≤ R.e i 0 * m.region.edge 0)) (!decide (0 ≤ R.e i 1 * m.region.edge 1))
      (!decide (0 ≤ R.e i 2 * m.region.edge 2)))).get i = - (sumAbs R (edgesV m) i / 2) := by
  have h := corner_attains R m i
  rw [M3.apply_get] at h ⊢
  simp only [cornerRel, sgn_not] at h ⊢
  linear_combination (-1 : Rat) * h

end DFV.C18
