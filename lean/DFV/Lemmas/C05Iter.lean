import DFV.Lemmas.C05Rot
/-! helper lemmas for iterated quarter turns (C05): what a quarter turn preserves (well-formedness
of mesh and arrays, the way `bc` turns, labels, mapping and pairing of a vector field), iterates of
`rot90Fld`, agreement of fields cell by cell -/
set_option linter.unusedSimpArgs false
namespace DFV.C05
open DFV DFV.C04

/-- an exchanged `bc` is not empty -/
theorem swapped_not_empty (bc da db : String) (w3 : bc ≠ "") : String.ofList (bc.toList.map (swapChar da db)) ≠ "" := by
  intro h
  have := congrArg String.toList h
  rw [String.toList_ofList] at this
  have hnil : ("" : String).toList = [] := by decide
  rw [hnil] at this
  have : bc.toList = [] := by simpa using this
  apply w3
  rw [← String.toList_inj, this, hnil]

/-- turning `bc` twice gives `bc` back -/
theorem rotBc1_invol (dims : List String) (bc da db : String) (hok : Mesh.bcOk dims bc = true) :
    rotBc1 (rotBc1 bc da db) da db = bc := by
  by_cases hsw : swapCond bc da db = true
  · obtain ⟨w1, w2, w3, s1, s2, l1, l2⟩ := swapCond_parts hsw
    obtain ⟨ca, hca⟩ := single_of_length _ s1
    obtain ⟨cb, hcb⟩ := single_of_length _ s2
    have hinv := map_swapChar_invol da db ca cb hca hcb
    have hw := swapped_not_word dims bc da db hok hsw
    unfold isWord at hw
    simp only [Bool.or_eq_false_iff, beq_eq_false_iff_ne, ne_eq] at hw
    have hsw2 : swapCond (String.ofList (bc.toList.map (swapChar da db))) da db = true :=
      swapCond_of hw.1 hw.2 (swapped_not_empty bc da db w3) s1 s2 l1 l2
    rw [rotBc1_swap _ _ _ hsw, rotBc1_swap _ _ _ hsw2, String.toList_ofList, hinv, String.ofList_toList]
  · rw [rotBc1_noswap _ _ _ hsw, rotBc1_noswap _ _ _ hsw]

/-- the parts of an accepted `Mesh.rotate90` -/
theorem rotMesh_struct (f : Fld) (m' : Mesh) (a b : Nat) (hd : DimsOk f) (ha : a < f.mesh.ndim) (hb : b < f.mesh.ndim)
    (h : rotMesh f.mesh (f.mesh.region.dims.getD a "") (f.mesh.region.dims.getD b "") = .ok m') :
    rotRegion f.mesh.region a b f.mesh.region.center = .ok m'.region ∧ m'.n = swapAt f.mesh.n a b ∧
    m'.bc = (rotBc1 f.mesh.bc (f.mesh.region.dims.getD a "") (f.mesh.region.dims.getD b "")).toLower ∧
    (f.mesh.subs = [] → m'.subs = []) := by
  unfold rotMesh at h
  split at h
  · cases h
  · rw [indexOf?_getD _ a hd.2 (by rw [hd.1]; exact ha), indexOf?_getD _ b hd.2 (by rw [hd.1]; exact hb)] at h
    simp only [] at h
    split at h
    · cases h
    · rename_i r hr
      split at h
      · cases h
      · rename_i subs hsubs
        split at h
        · cases h
        · rename_i m0 hm0
          injection h with h; subst h
          unfold Mesh.mkN? at hm0
          split at hm0
          · cases hm0
          · split at hm0
            · cases hm0
            · split at hm0
              · cases hm0
              · injection hm0 with hm0; subst hm0
                refine ⟨hr, rfl, rfl, ?_⟩
                intro hs
                rw [hs] at hsubs
                simp only [mapE] at hsubs
                injection hsubs with hsubs
                exact hsubs.symm

/-- the turned `bc` is none of the two words unless `bc` is -/
theorem rotBc1_not_word (dims : List String) (bc da db : String) (hok : Mesh.bcOk dims bc = true)
    (w1 : bc ≠ "neumann") (w2 : bc ≠ "dirichlet") :
    rotBc1 bc da db ≠ "neumann" ∧ rotBc1 bc da db ≠ "dirichlet" := by
  by_cases hsw : swapCond bc da db = true
  · have hw := swapped_not_word dims bc da db hok hsw
    unfold isWord at hw
    simp only [Bool.or_eq_false_iff, beq_eq_false_iff_ne, ne_eq] at hw
    rw [rotBc1_swap _ _ _ hsw]; exact hw
  · rw [rotBc1_noswap _ _ _ hsw]; exact ⟨w1, w2⟩

/-- **a quarter turn preserves well-formedness** of the mesh and of the array shapes -/
theorem meshWf_rot (f R : Fld) (a b : Nat) (wf : MeshWf f) (tw : TurnWf f a b) (ha : a < f.mesh.ndim) (hb : b < f.mesh.ndim)
    (hab : a ≠ b) (hm : rotMesh f.mesh (f.mesh.region.dims.getD a "") (f.mesh.region.dims.getD b "") = .ok R.mesh)
    (hs : R.data.shape = swapAt f.data.shape a b) :
    MeshWf R ∧ R.mesh.ndim = f.mesh.ndim ∧ R.mesh.region.dims = f.mesh.region.dims ∧
    R.mesh.bc = rotBc1 f.mesh.bc (f.mesh.region.dims.getD a "") (f.mesh.region.dims.getD b "") ∧
    (f.mesh.subs = [] → R.mesh.subs = []) ∧ R.mesh.n = swapAt f.mesh.n a b := by
  obtain ⟨m1, m2, m3, m4, m5⟩ := rotMesh_ok f R.mesh a b wf ha hb hab tw.bc_lower hm
  obtain ⟨t1, _, _, t4⟩ := rotMesh_struct f R.mesh a b wf.dims ha hb hm
  unfold rotRegion at t1
  obtain ⟨r1, r2, _, r4⟩ := regionMk_ok t1
  have hnd : R.mesh.ndim = f.mesh.ndim := m4
  have na : R.mesh.nAt a = f.mesh.nAt b := by
    unfold Mesh.nAt; rw [m1, swapAt_getD_left _ _ _ _ hab (by rw [wf.n_len]; exact ha)]; rfl
  have nb : R.mesh.nAt b = f.mesh.nAt a := by
    unfold Mesh.nAt; rw [m1, swapAt_getD_right _ _ _ _ (by rw [wf.n_len]; exact hb)]; rfl
  have ne : ∀ e, e ≠ a → e ≠ b → R.mesh.nAt e = f.mesh.nAt e := by
    intro e hea heb
    unfold Mesh.nAt; rw [m1, swapAt_getD_other _ _ _ _ _ hea heb]
  refine ⟨⟨?_, ?_, ?_, ?_, ?_, ?_, ?_, ?_⟩, hnd, m3, m2, t4, m1⟩
  · rw [hnd, r2, tab_length, setAt_length, setAt_length]; rfl
  · rw [hnd, m1, swapAt_length]; exact wf.n_len
  · unfold DimsOk; rw [m3, hnd]; exact wf.dims
  · rw [hnd, r4, swapAt_length]; exact wf.units_len
  · intro x hx
    rw [hnd] at hx
    have he := m5 x hx
    have px := wf.pos x hx
    have pa := wf.pos a ha
    have pb := wf.pos b hb
    unfold Region.edge at he
    constructor
    · by_cases hxa : x = a
      · subst hxa
        simp only [if_true] at he
        linarith [pb.1]
      · by_cases hxb : x = b
        · subst hxb
          simp only [hxa, if_false, if_true] at he
          linarith [pa.1]
        · simp only [hxa, hxb, if_false] at he
          linarith [px.1]
    · by_cases hxa : x = a
      · subst hxa; rw [na]; exact pb.2
      · by_cases hxb : x = b
        · subst hxb; rw [nb]; exact pa.2
        · rw [ne x hxa hxb]; exact px.2
  · rw [m2]; exact tw.bc_lower
  · rw [m3, m2]; exact tw.bc_ok
  · rw [hs, wf.data_shape, m1]

/-- **the way `bc` turns is preserved**: after a quarter turn the field can be turned again -/
theorem turnWf_rot (f R : Fld) (a b : Nat) (wf : MeshWf f) (tw : TurnWf f a b) (hr : IsRot90 f R a b)
    (hbc : R.mesh.bc = rotBc1 f.mesh.bc (f.mesh.region.dims.getD a "") (f.mesh.region.dims.getD b "")) :
    TurnWf R a b := by
  have hinv := rotBc1_invol f.mesh.region.dims f.mesh.bc (f.mesh.region.dims.getD a "") (f.mesh.region.dims.getD b "") wf.bc_ok
  refine ⟨?_, ?_, ?_⟩
  · rcases tw.turns with ⟨s1, s2, l1, l2⟩ | hp
    · left
      rw [hr.dims]
      exact ⟨s1, s2, l1, l2⟩
    · right
      rw [hr.per_a, hr.per_b, hp]
  · rw [hr.dims, hbc, hinv]; exact wf.bc_lower
  · rw [hr.dims, hbc, hinv]; exact wf.bc_ok

/-- two fields agree on the first `m` components of every cell of the mesh of `f` -/
def CellEq (f : Fld) (m : Nat) (X Y : Fld) : Prop :=
  ∀ i, InMesh f i → ∀ c, c < m → (X.data.get i).getD c 0 = (Y.data.get i).getD c 0

/-- **generic induction over the number of quarter turns**: an operator that commutes with one
quarter turn on a class `P` of operands (closed under the turn) with results in a class `S`
(closed under the turn, which respects cell-wise agreement) commutes with `n` of them -/
theorem iter_commute (op : Fld → M Fld) (da db : String) (m : Nat) (P : Fld → Prop) (S : Fld → Fld → Prop)
    (H1 : ∀ f, P f → ∃ R, rot90Fld f da db = .ok R ∧ P R)
    (H2 : ∀ f, P f → ∃ L, op f = .ok L ∧ S f L)
    (H3 : ∀ f R L LR RL, P f → rot90Fld f da db = .ok R → op f = .ok L → op R = .ok LR → rot90Fld L da db = .ok RL →
      CellEq R m LR RL)
    (H4 : ∀ f R X, P f → S f X → rot90Fld f da db = .ok R → ∃ X', rot90Fld X da db = .ok X' ∧ S R X')
    (H5 : ∀ f R X Y X' Y', P f → S f X → S f Y → rot90Fld f da db = .ok R → rot90Fld X da db = .ok X' →
      rot90Fld Y da db = .ok Y' → CellEq f m X Y → CellEq R m X' Y')
    (f : Fld) (hf : P f) (n : Nat) :
    ∃ R L LR RL, rotIter da db n f = .ok R ∧ op f = .ok L ∧ op R = .ok LR ∧ rotIter da db n L = .ok RL ∧
      P R ∧ S R LR ∧ S R RL ∧ CellEq R m LR RL := by
  obtain ⟨L, hL, sL⟩ := H2 f hf
  induction n with
  | zero => exact ⟨f, L, L, L, rfl, hL, hL, rfl, hf, sL, sL, fun _ _ _ _ => rfl⟩
  | succ n ih =>
    obtain ⟨R, L0, LR, RL, h1, h2, h3, h4, pR, sLR, sRL, heq⟩ := ih
    have : L0 = L := by rw [hL] at h2; injection h2 with h2; exact h2.symm
    subst this
    obtain ⟨R', hR', pR'⟩ := H1 R pR
    obtain ⟨LR', hLR', sLR'⟩ := H2 R' pR'
    obtain ⟨RL1, hRL1, sRL1⟩ := H4 R R' LR pR sLR hR'
    obtain ⟨RL', hRL', sRL'⟩ := H4 R R' RL pR sRL hR'
    have e1 := H3 R R' LR LR' RL1 pR hR' h3 hLR' hRL1
    have e2 := H5 R R' LR RL RL1 RL' pR sLR sRL hR' hRL1 hRL' heq
    refine ⟨R', L0, LR', RL', ?_, hL, hLR', ?_, pR', sLR', sRL', ?_⟩
    · simp only [rotIter, h1]; exact hR'
    · simp only [rotIter, h4]; exact hRL'
    · intro i hi c hc
      rw [e1 i hi c hc, e2 i hi c hc]

/-- everything a quarter turn in the plane of axes `a`, `b` (named `da`, `db`) needs of a field,
scalar or vector — and hands on to the turned field -/
structure RotOk (a b : Nat) (da db : String) (f : Fld) : Prop where
  wf : MeshWf f
  tw : TurnWf f a b
  subs : f.mesh.subs = []
  vshape : f.valid.shape = f.mesh.n
  ha : a < f.mesh.ndim
  hb : b < f.mesh.ndim
  hda : f.mesh.region.dims.getD a "" = da
  hdb : f.mesh.region.dims.getD b "" = db

theorem rotOk_rot {a b : Nat} {da db : String} {f R : Fld} (hab : a ≠ b) (hf : RotOk a b da db f)
    (h : rot90Fld f da db = .ok R) :
    RotOk a b da db R ∧ IsRot90 f R a b ∧ rotMesh f.mesh da db = .ok R.mesh ∧ R.unit = f.unit := by
  have h' := h
  rw [← hf.hda, ← hf.hdb] at h'
  obtain ⟨hm, hv, hs, hn, hu⟩ := rot90Fld_parts f R a b hf.wf.dims hf.ha hf.hb h'
  obtain ⟨w, hnd, hdims, hbc, hsub, hnn⟩ := meshWf_rot f R a b hf.wf hf.tw hf.ha hf.hb hab hm hs
  have hr := isRot90_of_mesh f R a b hf.wf hf.tw hf.ha hf.hb hab hm hv hn
  refine ⟨⟨w, turnWf_rot f R a b hf.wf hf.tw hr hbc, hsub hf.subs, ?_, by rw [hnd]; exact hf.ha, by rw [hnd]; exact hf.hb,
    by rw [hdims]; exact hf.hda, by rw [hdims]; exact hf.hdb⟩, hr, by rw [← hf.hda, ← hf.hdb]; exact hm, hu⟩
  rw [hv, hnn, ← hf.vshape]; rfl

/-- a cell of the turned mesh comes from a cell of the original mesh -/
theorem inMesh_rotIdx {f R : Fld} {a b : Nat} (hr : IsRot90 f R a b) (hab : a ≠ b) (ha : a < f.mesh.ndim) (hb : b < f.mesh.ndim)
    (i : List Nat) (hi : InMesh R i) : InMesh f (rotIdx f a b i) := by
  obtain ⟨hl, hin⟩ := hi
  rw [hr.ndim] at hl hin
  refine ⟨by unfold rotIdx; rw [setAt_length, setAt_length]; exact hl, ?_⟩
  intro e he
  unfold rotIdx
  by_cases heb : e = b
  · subst heb
    rw [getD_setAt_same _ _ _ _ (by rw [setAt_length, hl]; exact he)]
    have := hin a ha
    rw [hr.n_a] at this
    omega
  · rw [getD_setAt_ne _ _ _ _ _ heb]
    by_cases hea : e = a
    · subst hea
      rw [getD_setAt_same _ _ _ _ (by rw [hl]; exact he)]
      have := hin b hb
      rw [hr.n_b] at this
      exact this
    · rw [getD_setAt_ne _ _ _ _ _ hea]
      have := hin e he
      rw [hr.n_e e hea heb] at this
      exact this

/-- scalar results living on the mesh of `f` -/
def ScalOn (f X : Fld) : Prop := X.mesh = f.mesh ∧ Plain X ∧ X.data.shape = X.mesh.n

/-- H4 for scalar results: a plain scalar on the mesh of `f` can be turned along with `f` -/
theorem scalOn_rot {a b : Nat} {da db : String} {f R X : Fld} (hab : a ≠ b) (hf : RotOk a b da db f) (hX : ScalOn f X)
    (h : rot90Fld f da db = .ok R) : ∃ X', rot90Fld X da db = .ok X' ∧ ScalOn R X' := by
  obtain ⟨hm, hp, hs⟩ := hX
  have wfX : MeshWf X := meshWf_of_mesh hf.wf hm hs
  have haX : a < X.mesh.ndim := by rw [hm]; exact hf.ha
  have hbX : b < X.mesh.ndim := by rw [hm]; exact hf.hb
  obtain ⟨X', hX'⟩ := rot90_accepts_plain X a b wfX (turnWf_of_mesh hf.tw hm) (by rw [hm]; exact hf.subs) hp haX hbX hab
  have hX'' : rot90Fld X da db = .ok X' := by rw [← hf.hda, ← hf.hdb, ← hm]; exact hX'
  refine ⟨X', hX'', ?_, rot90_plain hp hX', ?_⟩
  · obtain ⟨_, _, hmR, _⟩ := rotOk_rot hab hf h
    obtain ⟨hmX, _⟩ := rot90Fld_parts X X' a b wfX.dims haX hbX hX'
    rw [hm, hf.hda, hf.hdb, hmR] at hmX
    injection hmX with e; exact e.symm
  · obtain ⟨hmX, _, hsX, _⟩ := rot90Fld_parts X X' a b wfX.dims haX hbX hX'
    obtain ⟨_, _, _, _, _, hn⟩ := meshWf_rot X X' a b wfX (turnWf_of_mesh hf.tw hm) haX hbX hab hmX hsX
    rw [hsX, hs, hn]

/-- H5 for scalar results: turning respects cell-wise agreement -/
theorem scalOn_rot_eq {a b : Nat} {da db : String} {f R X Y X' Y' : Fld} (hab : a ≠ b) (hf : RotOk a b da db f)
    (hX : ScalOn f X) (hY : ScalOn f Y) (h : rot90Fld f da db = .ok R) (hX' : rot90Fld X da db = .ok X')
    (hY' : rot90Fld Y da db = .ok Y')
    (heq : ∀ i, InMesh f i → ∀ c, c < 1 → (X.data.get i).getD c 0 = (Y.data.get i).getD c 0) :
    ∀ i, InMesh R i → ∀ c, c < 1 → (X'.data.get i).getD c 0 = (Y'.data.get i).getD c 0 := by
  obtain ⟨_, hr, _, _⟩ := rotOk_rot hab hf h
  obtain ⟨mX, pX, sX⟩ := hX
  obtain ⟨mY, pY, sY⟩ := hY
  have dX := rot90Fld_scalar_data X X' a b (by unfold DimsOk; rw [mX]; exact hf.wf.dims) sX pX.1
    (by rw [mX]; exact hf.ha) (by rw [mX]; exact hf.hb) (by rw [mX, hf.hda, hf.hdb]; exact hX')
  have dY := rot90Fld_scalar_data Y Y' a b (by unfold DimsOk; rw [mY]; exact hf.wf.dims) sY pY.1
    (by rw [mY]; exact hf.ha) (by rw [mY]; exact hf.hb) (by rw [mY, hf.hda, hf.hdb]; exact hY')
  intro i hi c hc
  rw [dX i, dY i, rotIdx_congr f X a b i mX, rotIdx_congr f Y a b i mY]
  exact heq _ (inMesh_rotIdx hr hab hf.ha hf.hb i hi) c hc

/-- a vector field with well-formed labels `vs`, a mapping whose keys are the labels, and the axes
`a`, `b` paired with the stored components `v1 ≠ v2` -/
structure VecMeta (a b v1 v2 : Nat) (vs : List String) (X : Fld) : Prop where
  hn : 1 < X.nvdim
  hv : X.vdims = some vs
  hvl : vs.length = X.nvdim
  hvd : hasDup vs = false
  hkeys : (X.vmap.map (·.1)).isPerm vs = true
  hmap : 0 < X.vmap.length
  h1 : (rDimLast X (X.mesh.region.dims.getD a "")).bind X.vdimIndex = some v1
  h2 : (rDimLast X (X.mesh.region.dims.getD b "")).bind X.vdimIndex = some v2
  hv1 : v1 < X.nvdim
  hv2 : v2 < X.nvdim
  h12 : v1 ≠ v2
  hraw : ∀ i, (X.data.get i).length = X.nvdim

theorem turnVec_length (v : List Rat) (v1 v2 : Nat) : (turnVec v v1 v2).length = v.length := by
  unfold turnVec; rw [setAt_length, setAt_length]

/-- a quarter turn of a vector field: accepted, labels / mapping / pairing kept, values turned -/
theorem vecMeta_rot {a b v1 v2 : Nat} {vs : List String} {X : Fld} (hab : a ≠ b) (wf : MeshWf X) (tw : TurnWf X a b)
    (hsub : X.mesh.subs = []) (ha : a < X.mesh.ndim) (hb : b < X.mesh.ndim) (hX : VecMeta a b v1 v2 vs X) :
    ∃ X', rot90Fld X (X.mesh.region.dims.getD a "") (X.mesh.region.dims.getD b "") = .ok X' ∧
      (X'.mesh.region.dims = X.mesh.region.dims → VecMeta a b v1 v2 vs X') ∧ X'.vmap = X.vmap ∧ X'.vdims = X.vdims ∧
      ∀ i, X'.data.get i = turnVec (X.data.get (rotIdx X a b i)) v1 v2 := by
  obtain ⟨X', hX'⟩ := rot90_accepts_vector X a b v1 v2 vs wf tw hsub hX.hn hX.hv hX.hvl hX.hvd hX.hkeys hX.hmap ha hb hab hX.h1 hX.h2
  obtain ⟨q1, q2, q3, _, _⟩ := rot90Fld_vector_meta X X' a b vs wf.dims hX.hn hX.hv hX.hvl ha hb hX.hmap hX'
  have hd := rot90Fld_vector_data X X' a b v1 v2 wf.dims wf.data_shape hX.hn ha hb hX.h1 hX.h2 hX'
  refine ⟨X', hX', ?_, q2, by rw [q1, hX.hv], hd⟩
  intro hdims
  have hidx : X'.vdimIndex = X.vdimIndex := by
    funext l; unfold Fld.vdimIndex; rw [q1, hX.hv]
  have hrd : ∀ d, rDimLast X' d = rDimLast X d := by
    intro d; unfold rDimLast; rw [q2]
  exact ⟨by rw [q3]; exact hX.hn, q1, by rw [q3]; exact hX.hvl, hX.hvd, by rw [q2]; exact hX.hkeys, by rw [q2]; exact hX.hmap,
    by rw [hdims, hrd, hidx]; exact hX.h1, by rw [hdims, hrd, hidx]; exact hX.h2, by rw [q3]; exact hX.hv1,
    by rw [q3]; exact hX.hv2, hX.h12, by intro i; rw [hd i, turnVec_length, hX.hraw, q3]⟩

/-- vector results living on the mesh of `f` -/
def VecOn (a b v1 v2 : Nat) (vs : List String) (f X : Fld) : Prop :=
  X.mesh = f.mesh ∧ X.data.shape = X.mesh.n ∧ VecMeta a b v1 v2 vs X

/-- H4 for vector results -/
theorem vecOn_rot {a b v1 v2 : Nat} {vs : List String} {da db : String} {f R X : Fld} (hab : a ≠ b) (hf : RotOk a b da db f)
    (hX : VecOn a b v1 v2 vs f X) (h : rot90Fld f da db = .ok R) :
    ∃ X', rot90Fld X da db = .ok X' ∧ VecOn a b v1 v2 vs R X' := by
  obtain ⟨hm, hs, hv⟩ := hX
  have wfX : MeshWf X := meshWf_of_mesh hf.wf hm hs
  have haX : a < X.mesh.ndim := by rw [hm]; exact hf.ha
  have hbX : b < X.mesh.ndim := by rw [hm]; exact hf.hb
  have twX := turnWf_of_mesh hf.tw hm
  obtain ⟨X', hX', hmeta, _, _, _⟩ := vecMeta_rot hab wfX twX (by rw [hm]; exact hf.subs) haX hbX hv
  have hX'' : rot90Fld X da db = .ok X' := by rw [← hf.hda, ← hf.hdb, ← hm]; exact hX'
  obtain ⟨hmX, _, hsX, _⟩ := rot90Fld_parts X X' a b wfX.dims haX hbX hX'
  obtain ⟨_, _, hdims, _, _, hn⟩ := meshWf_rot X X' a b wfX twX haX hbX hab hmX hsX
  refine ⟨X', hX'', ?_, by rw [hsX, hs, hn], hmeta hdims⟩
  obtain ⟨_, _, hmR, _⟩ := rotOk_rot hab hf h
  rw [hm, hf.hda, hf.hdb, hmR] at hmX
  injection hmX with e; exact e.symm

/-- H5 for vector results -/
theorem vecOn_rot_eq {a b v1 v2 : Nat} {vs : List String} {da db : String} {f R X Y X' Y' : Fld} (m : Nat) (hab : a ≠ b)
    (hf : RotOk a b da db f) (hX : VecOn a b v1 v2 vs f X) (hY : VecOn a b v1 v2 vs f Y) (hmX : m = X.nvdim)
    (h : rot90Fld f da db = .ok R) (hX' : rot90Fld X da db = .ok X') (hY' : rot90Fld Y da db = .ok Y')
    (heq : ∀ i, InMesh f i → ∀ c, c < m → (X.data.get i).getD c 0 = (Y.data.get i).getD c 0) :
    ∀ i, InMesh R i → ∀ c, c < m → (X'.data.get i).getD c 0 = (Y'.data.get i).getD c 0 := by
  obtain ⟨_, hr, _, _⟩ := rotOk_rot hab hf h
  obtain ⟨mX, sX, vX⟩ := hX
  obtain ⟨mY, sY, vY⟩ := hY
  have hnXY : X.nvdim = Y.nvdim := by rw [← vX.hvl, ← vY.hvl]
  have dX := rot90Fld_vector_data X X' a b v1 v2 (by unfold DimsOk; rw [mX]; exact hf.wf.dims) sX vX.hn
    (by rw [mX]; exact hf.ha) (by rw [mX]; exact hf.hb) vX.h1 vX.h2 (by rw [mX, hf.hda, hf.hdb]; exact hX')
  have dY := rot90Fld_vector_data Y Y' a b v1 v2 (by unfold DimsOk; rw [mY]; exact hf.wf.dims) sY vY.hn
    (by rw [mY]; exact hf.ha) (by rw [mY]; exact hf.hb) vY.h1 vY.h2 (by rw [mY, hf.hda, hf.hdb]; exact hY')
  intro i hi c hc
  have hj := inMesh_rotIdx hr hab hf.ha hf.hb i hi
  rw [dX i, dY i, rotIdx_congr f X a b i mX, rotIdx_congr f Y a b i mY,
    turnVec_getD _ v1 v2 c vX.h12 (by rw [vX.hraw]; exact vX.hv1) (by rw [vX.hraw]; exact vX.hv2),
    turnVec_getD _ v1 v2 c vY.h12 (by rw [vY.hraw]; exact vY.hv1) (by rw [vY.hraw]; exact vY.hv2)]
  rw [heq _ hj v1 (by rw [hmX]; exact vX.hv1), heq _ hj v2 (by rw [hmX]; exact vX.hv2), heq _ hj c hc]

end DFV.C05
