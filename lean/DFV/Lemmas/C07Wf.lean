import DFV.Lemmas.C07Hist
/-! Well-formedness (`Mesh.Inv`) of the meshes returned by the operations. -/
namespace DFV.C07
open DFV DFV.Mesh

/-- a mesh every axis of which is a non-empty block of whole cells of the same axis of a
well-formed mesh (same names and units) is well formed -/
theorem inv_of_blocks (m g : Mesh) (hm : m.Inv) (hnd : g.ndim = m.ndim) (hnl : g.n.length = m.ndim)
    (hd : g.region.dims = m.region.dims) (hu : g.region.units = m.region.units)
    (hpm : g.region.pmax.length = m.ndim) (off cnt : Nat → Nat) (hcnt : ∀ b, b < m.ndim → 0 < cnt b)
    (hblk : ∀ b, b < m.ndim → AxisBlock g m b b (off b) (cnt b)) : g.Inv := by
  have hpos : ∀ b, b < g.ndim → 0 < g.nAt b ∧ g.region.lo b < g.region.hi b := by
    intro b hb
    have blk := hblk b (by omega)
    have hc := inv_cell_pos hm (show b < m.ndim by omega)
    have hcn := hcnt b (by omega)
    refine ⟨by rw [blk.n]; exact hcn, ?_⟩
    rw [block_hi blk hcn, blk.lo]
    have : (0 : Rat) < (cnt b : Rat) := by exact_mod_cast hcn
    nlinarith
  refine ⟨⟨?_, ?_, ?_, ?_, ?_, fun b hb => (hpos b hb).2⟩, ?_, fun b hb => (hpos b hb).1⟩
  · show 0 < g.ndim; rw [hnd]; exact inv_ndim_pos hm
  · show g.region.pmax.length = g.ndim; omega
  · rw [hd, inv_dims_length hm]; exact hnd.symm
  · rw [hu, inv_units_length hm]; exact hnd.symm
  · rw [hd]; exact hm.1.2.2.2.2.1
  · show g.n.length = g.ndim; omega

theorem getRegion_meshInv (m : Mesh) (hm : m.Inv) (item : Region) (hbox : BoxIn m item) (g : Mesh)
    (h : getRegion m item = .ok g) : g.Inv := by
  obtain ⟨e1, e2, e3, e4, _, e6, _, _, e9⟩ := getRegion_inv m hm item hbox g h
  exact inv_of_blocks m g hm e1 e2 e3 e4 e6 (blockLo m item)
    (fun b => blockHi m item b - blockLo m item b + 1) (fun b _ => by omega) (fun b hb => (e9 b hb).2.2.2)

theorem padMesh_meshInv (m : Mesh) (hm : m.Inv) (pw : List PadW)
    (hL : ∀ b, b < m.ndim → 0 ≤ sumW m (·.lo) pw b) (hH : ∀ b, b < m.ndim → 0 ≤ sumW m (·.hi) pw b)
    (g : Mesh) (h : padMesh m pw = .ok g) : g.Inv := by
  obtain ⟨e1, e2, e3, e4, _, _, e7, e8⟩ := padMesh_inv m hm pw hL hH g h
  have hpos : ∀ b, b < g.ndim → 0 < g.nAt b ∧ g.region.lo b < g.region.hi b := by
    intro b hb
    obtain ⟨h1, h2, h3, _⟩ := e8 b (by omega)
    have hc := inv_cell_pos hm (show b < m.ndim by omega)
    have hlt := inv_lo_lt_hi hm (show b < m.ndim by omega)
    have hn := inv_n_pos hm (show b < m.ndim by omega)
    refine ⟨by rw [h1]; omega, ?_⟩
    rw [h2, h3]
    have a1 : (0 : Rat) ≤ ((sumW m (·.lo) pw b).toNat : Rat) := by exact_mod_cast Nat.zero_le _
    have a2 : (0 : Rat) ≤ ((sumW m (·.hi) pw b).toNat : Rat) := by exact_mod_cast Nat.zero_le _
    nlinarith
  refine ⟨⟨?_, ?_, ?_, ?_, ?_, fun b hb => (hpos b hb).2⟩, ?_, fun b hb => (hpos b hb).1⟩
  · show 0 < g.ndim; rw [e1]; exact inv_ndim_pos hm
  · show g.region.pmax.length = g.ndim; omega
  · rw [e3, inv_dims_length hm]; exact e1.symm
  · rw [e4, inv_units_length hm]; exact e1.symm
  · rw [e3]; exact hm.1.2.2.2.2.1
  · show g.n.length = g.ndim; omega

theorem mkN_inv (r : Region) (n : List Nat) (m : Mesh) (h : Mesh.mkN? r n = .ok m) :
    m.region = r ∧ m.n = n ∧ m.bc = "" ∧ m.subs = [] ∧ n.length = r.ndim ∧ ∀ k, k ∈ n → k ≠ 0 := by
  unfold Mesh.mkN? at h
  split at h
  · cases h
  · split at h
    · cases h
    · split at h
      · cases h
      · rename_i h1 h2 _
        injection h with h
        subst h
        refine ⟨rfl, rfl, by simp [String.toLower], rfl, by omega, ?_⟩
        intro k hk hk0
        apply h2
        rw [List.any_eq_true]
        exact ⟨k, hk, by simpa using hk0⟩

/-- the mesh `Mesh(region=m.region, n=n)` built by `resample` is well formed -/
theorem mkN_meshInv (m : Mesh) (hm : m.Inv) (n : List Nat) (g : Mesh) (h : Mesh.mkN? m.region n = .ok g) :
    g.Inv := by
  obtain ⟨r1, r2, _, _, r5, r6⟩ := mkN_inv _ _ _ h
  have hgn : g.ndim = m.ndim := by unfold Mesh.ndim; rw [r1]
  refine ⟨by rw [r1]; exact hm.1, by rw [r2, r5, r1], ?_⟩
  intro b hb
  rw [nAt_def, r2]
  have hb' : b < n.length := by rw [r5]; unfold Mesh.ndim at hb; rw [r1] at hb; exact hb
  rw [List.getD_eq_getElem?_getD, List.getElem?_eq_getElem hb']
  simp only [Option.getD_some]
  have := r6 n[b] (List.getElem_mem hb')
  omega

end DFV.C07
