import DFV.Lemmas.C12Comp
/-! C12 (round 3): the axis-name lookup is exact string membership (case-sensitive); which label of a
non-injective component-to-axis mapping is turned; closure of the exact component rotation. -/
namespace DFV.T
open DFV DFV.C14

/-! ## axis-name lookup -/

theorem indexOf_go_of_mem (d : String) (xs : List String) (off : Nat) (h : d ∈ xs) :
    ∃ k, indexOf?.go d xs off = some k := by
  induction xs generalizing off with
  | nil => cases h
  | cons y ys ih =>
    simp only [indexOf?.go]
    by_cases hy : y = d
    · exact ⟨off, by rw [if_pos hy]⟩
    · rw [if_neg hy]
      rcases List.mem_cons.mp h with h | h
      · exact absurd h.symm hy
      · exact ih (off + 1) h

/-- the lookup succeeds exactly for the strings that ARE dimension names -/
theorem dim2index_ok_iff (r : Region) (d : String) : (∃ i, r.dim2index d = .ok i) ↔ d ∈ r.dims := by
  constructor
  · rintro ⟨i, hi⟩; exact dim2index_mem r d i hi
  · intro h
    obtain ⟨k, hk⟩ := indexOf_go_of_mem d r.dims 0 h
    exact ⟨k, by unfold Region.dim2index indexOf?; rw [hk]⟩

theorem dim2index_err_iff (r : Region) (d : String) : (∃ e, r.dim2index d = .error e) ↔ d ∉ r.dims := by
  rw [← dim2index_ok_iff]
  constructor
  · rintro ⟨e, he⟩ ⟨i, hi⟩; rw [he] at hi; cases hi
  · intro h
    cases hd : r.dim2index d with
    | error e => exact ⟨e, rfl⟩
    | ok i => exact absurd ⟨i, hd⟩ h

/-- the malformed classes of a quarter turn, with the lookup spelled out -/
theorem malformed_rot_iff (r : Region) (a1 a2 : String) (k : Int) (ref : Option (List Rat)) (b : Bool) :
    Malformed r (.rotate90 a1 a2 k ref b) ↔
      a1 = a2 ∨ (ref.getD r.center).length ≠ r.ndim ∨ a1 ∉ r.dims ∨ a2 ∉ r.dims := by
  simp only [Malformed, dim2index_err_iff]

/-! ## non-injective mappings: the LAST label of an axis is the one that is turned -/

theorem find?_reverse_last {α} (p : α → Bool) (l : List α) (x : α) (h : l.reverse.find? p = some x) :
    ∃ pre post, l = pre ++ x :: post ∧ p x = true ∧ ∀ y ∈ post, p y = false := by
  induction l with
  | nil => simp at h
  | cons y ys ih =>
    rw [List.reverse_cons, List.find?_append] at h
    cases hr : ys.reverse.find? p with
    | some x' =>
      rw [hr] at h
      simp only [Option.some_or] at h
      injection h with h; subst h
      obtain ⟨pre, post, e, hx, hpost⟩ := ih hr
      exact ⟨y :: pre, post, by rw [e]; rfl, hx, hpost⟩
    | none =>
      rw [hr] at h
      simp only [Option.none_or, List.find?_cons] at h
      cases hy : p y with
      | true =>
        rw [hy] at h
        injection h with h; subst h
        refine ⟨[], ys, rfl, hy, ?_⟩
        intro z hz
        have := List.find?_eq_none.mp hr z (List.mem_reverse.mpr hz)
        simpa using this
      | false => rw [hy] at h; simp at h

/-- `_r_dim_mapping[a]` is the label of the LAST entry of the mapping whose target is `a`: the
mapping splits as `pre ++ (label, a) :: post` with no entry of `post` mapped onto `a` -/
theorem rDim_last (f : Fld) (a l : String) (h : f.rDim a = some l) :
    ∃ pre post, f.vmap = pre ++ (l, a) :: post ∧ ∀ q ∈ post, q.2 ≠ a := by
  unfold Fld.rDim at h
  cases hf : f.vmap.reverse.find? (fun p => p.2 == a) with
  | none => rw [hf] at h; cases h
  | some p =>
    rw [hf] at h
    simp only [Option.map_some] at h
    injection h with h
    obtain ⟨pre, post, e, hx, hpost⟩ := find?_reverse_last _ _ _ hf
    have hp : p = (l, a) := by
      have : p.2 = a := by simpa using hx
      rw [← h, ← this]
    refine ⟨pre, post, by rw [e, hp], ?_⟩
    intro q hq
    have := hpost q hq
    simpa using this

/-- an axis onto which no label is mapped has no entry in the reversed mapping -/
theorem rDim_none_iff (f : Fld) (a : String) : f.rDim a = none ↔ ∀ q ∈ f.vmap, q.2 ≠ a := by
  unfold Fld.rDim
  rw [Option.map_eq_none_iff, List.find?_eq_none]
  constructor
  · intro h q hq; have := h q (List.mem_reverse.mpr hq); simpa using this
  · intro h q hq; have := h q (List.mem_reverse.mp hq); simpa using this

/-! ## closure of the exact component rotation -/

/-- every component of the turned value is a component of the source value or its negative -/
theorem rotVec_entry (v : List Rat) (c1 c2 : Nat) (k : Int) (c : Nat) (hc : c < v.length) :
    (rotVec v c1 c2 k).getD c 0 = v.getD c 0 ∨
    (rotVec v c1 c2 k).getD c 0 = v.getD c1 0 ∨ (rotVec v c1 c2 k).getD c 0 = - v.getD c1 0 ∨
    (rotVec v c1 c2 k).getD c 0 = v.getD c2 0 ∨ (rotVec v c1 c2 k).getD c 0 = - v.getD c2 0 := by
  unfold rotVec
  rw [getD_tab _ _ _ _ hc]
  by_cases e1 : c = c1
  · subst e1
    rw [if_pos rfl]
    rcases quarter_cases' k with ⟨hcq, hsq⟩ | ⟨hcq, hsq⟩ | ⟨hcq, hsq⟩ | ⟨hcq, hsq⟩ <;> rw [hcq, hsq]
    · left; ring
    · right; right; right; right; ring
    · right; right; left; ring
    · right; right; right; left; ring
  · rw [if_neg e1]
    by_cases e2 : c = c2
    · subst e2
      rw [if_pos rfl]
      rcases quarter_cases' k with ⟨hcq, hsq⟩ | ⟨hcq, hsq⟩ | ⟨hcq, hsq⟩ | ⟨hcq, hsq⟩ <;> rw [hcq, hsq]
      · left; ring
      · right; left; ring
      · right; right; right; right; ring
      · right; right; left; ring
    · rw [if_neg e2]; left; rfl

/-- **closure**: a set of numbers closed under negation that contains every component of a value
contains every component of the turned value, for every `k` — no rounding is involved (the
model's matrix entries are exactly 0, 1, −1, as the code's are since repo fix 1656fb93) -/
theorem rotVec_closed (P : Rat → Prop) (hneg : ∀ x, P x → P (-x)) (v : List Rat) (c1 c2 : Nat) (k : Int)
    (h1 : c1 < v.length) (h2 : c2 < v.length) (hv : ∀ c, c < v.length → P (v.getD c 0)) (c : Nat) (hc : c < v.length) :
    P ((rotVec v c1 c2 k).getD c 0) := by
  rcases rotVec_entry v c1 c2 k c hc with e | e | e | e | e <;> rw [e]
  · exact hv c hc
  · exact hv c1 h1
  · exact hneg _ (hv c1 h1)
  · exact hv c2 h2
  · exact hneg _ (hv c2 h2)

end DFV.T
